import CoclsModel.AllocProofs
/-!
# C20 — the core synchronisation primitives never allocate

Model: `CoclsModel/Alloc.lean` (core programs: future/promise with coroutine, callback and blocking-thread awaiters,
coroutine mutex, suspend points, synchronous generators, scripted coroutines with heap / non-heap frames, executed on
one thread exactly like the library does, with the log of every dynamic allocation and release).  Invariant and its
preservation: `CoclsModel/AllocProofs.lean`.

All theorems quantify over *every* program (`prog : List Op`, any length, any number of futures, coroutines,
waiters per future, contenders per mutex, handles per suspend point, generator steps), both thread kinds (`fresh`) and
every fuel.  The value type of the futures does not occur in the model: the library never allocates on behalf of the
value, whatever it is (the harness runs `int` and a 64-byte POD).

The statement as written ("the only allocations are the coroutine frames") is false for one allocation source that
is not one of the listed primitives but is used by them: the thread-local `std::deque` ready queue of `coro_queue`
(category `rq`; listed finding, see `c20_ready_queue_witness*`), and for one case the statement names explicitly: "resolving a
future with any number of waiters" — the resolver collects the released *coroutines* in one suspend point, which grows on the heap
when a single resolution releases more than `inline_count` of them (category `rgrowth`; second listed finding, see
`c20_resolve_growth_witness`).  `c20_core_no_alloc_partial` is the statement modulo those two categories; `c20_core_no_alloc` is the
full statement inside the scope where provably neither happens (`c20_ready_queue_scope`: thread's queue already constructed and
fewer than 64 enqueues; `c20_resolve_growth_scope`: no single resolution releases more than `inline_count` coroutine waiters).
-/
namespace Cocls.C20
open Cocls Cocls.Alloc

/-! ### the allocation-capable constructs of the core headers (table regenerated from clang's AST on every run) -/

/-- the only allocation-capable constructs the core headers may contain:
* `suspend_point.h`: `new[]` in `suspend_point::add` (the growth beyond `inline_count` handles) and the thread-local ready deque
  used as scratch space by `coro_queue::create_suspend_point`,
* `future.h`: `new` in `make_promise` and `discard` — documented as allocating, not core operations,
* `coro_queue.h`: the thread-local `std::deque` ready queue (member `_queue`, and the reference to it in `pause`) — the listed finding,
* `awaiter.h`, `mutex.h`, `generator.h`, `async.h`: nothing. -/
def allowedSite (a : AllocSite) : Bool :=
  (a.file == "suspend_point.h" && a.cls == "suspend_point" && a.fn == "add" && a.what == "new[]") ||
  (a.file == "suspend_point.h" && a.cls == "coro_queue" && a.fn == "create_suspend_point" && a.what == "local:std::deque") ||
  (a.file == "future.h" && a.cls == "" && (a.fn == "make_promise" || a.fn == "discard") && a.what == "new") ||
  (a.file == "coro_queue.h" && a.cls == "coro_queue::queue_impl" && a.fn == "" && a.what == "member:_queue:std::deque") ||
  (a.file == "coro_queue.h" && a.cls == "pause" && a.fn == "await_suspend" && a.what == "local:std::deque")

/-- the `throw` expressions, `rethrow_exception` calls and `catch` handlers the core headers may contain (a `throw T(..)` allocates
the exception object through `__cxa_allocate_exception`, `rethrow_exception` a dependent exception — `malloc`, not `operator new`):
* `future::value` (both overloads; behind `co_await`, `wait()`, `*f`): the reader of a future that holds no value is told so —
  `rethrow` of the stored exception, `await_canceled_exception`, `value_not_ready_exception`.  The exception is the caller's
  (`Tok.thrown` in the model),
* `generator::value`: the same for the generator's current item,
* `generator::promise_type::next_async / next_sync / next_future`: `no_more_values_exception` when a *finished* generator is
  resumed.  Every way of stepping reaches them only behind a `done()` check (`next_awt::operator bool`, `next_awt::await_ready`);
  only calling a finished generator as a function (`G()`) gets it — misuse reported to that caller,
* handlers: `promise::set_value` and `suspend_point::operator<<` clean up and re-raise (`catch+rethrow`); `future::result_of`
  turns the exception of the *user's* function into the result of the future.  No handler in the core headers swallows an
  exception the library itself threw. -/
def excSites : List AllocSite := [
  { file := "future.h", cls := "future", fn := "result_of", what := "catch:..." },
  { file := "future.h", cls := "future", fn := "value", what := "rethrow" },
  { file := "future.h", cls := "future", fn := "value", what := "throw:await_canceled_exception" },
  { file := "future.h", cls := "future", fn := "value", what := "throw:value_not_ready_exception" },
  { file := "future.h", cls := "promise", fn := "set_value", what := "catch+rethrow:..." },
  { file := "generator.h", cls := "generator", fn := "value", what := "rethrow" },
  { file := "generator.h", cls := "generator", fn := "value", what := "throw:value_not_ready_exception" },
  { file := "generator.h", cls := "generator::promise_type", fn := "next_async", what := "throw:no_more_values_exception" },
  { file := "generator.h", cls := "generator::promise_type", fn := "next_future", what := "throw:no_more_values_exception" },
  { file := "generator.h", cls := "generator::promise_type", fn := "next_sync", what := "throw:no_more_values_exception" },
  { file := "suspend_point.h", cls := "suspend_point", fn := "operator<<", what := "catch+rethrow:..." }]

def allowed (l : List AllocSite) : Bool := l.all (fun a => allowedSite a || excSites.contains a)

/-- every allocation-capable construct found in `awaiter.h`, `mutex.h`, `generator.h`, `async.h`, `suspend_point.h`, `future.h`,
`coro_queue.h` is on the whitelist (a `std::function` / container / `shared_ptr` member or local, a `new`, a `make_shared`
added to a core header breaks this obligation) -/
theorem c20_alloc_sites : allowed Generated.allocSites = true := by decide

/-- **the throwing functions of the core headers are exactly the whitelisted error reports**: what the table contains beyond the
allocation-capable constructs above is precisely `excSites` — a new `throw`, a `rethrow_exception`, a `try`/`catch` added to
`awaiter.h`, `mutex.h`, `generator.h`, `async.h`, `suspend_point.h`, `future.h`, `coro_queue.h` (e.g. answering a step of an
exhausted generator by throwing and swallowing `no_more_values_exception`), or one removed, breaks this obligation -/
theorem c20_throw_sites : Generated.allocSites.filter (fun a => !allowedSite a) = excSites := by decide

/-- "carrying up to three ready coroutines": the inline capacity found in the source is at least 3, and a growing
suspend point at least doubles -/
theorem c20_inline_count : 3 ≤ Generated.inlineCount ∧ 2 ≤ Generated.growthFactor := by decide

/-! ### the log of every program -/

/-- what C20 allows an allocation event to be: the frame of a coroutine the user created, the handle array of a
suspend point that already holds at least three (`inline_count`) handles, i.e. is about to carry more than three — or the
exception object by which the library reports to user code that the future it reads holds no value (`Tok.thrown`: the
allocation channel is `__cxa_allocate_exception`, not `operator new`).  The last one is the boundary drawn from the
statement: it speaks of allocations the primitives perform "of their own" while creating / resolving / awaiting / locking /
stepping; an exception that carries an error to the caller who asked for a value that does not exist is the caller's.
An exception thrown *and swallowed* inside the library is not: the model has no token for it, the harness reports it
(`a:exception+1` not followed by `…:caught`) and the oracle flags it. -/
def Permitted : Tok → Prop
  | .alloc .frame n _ => n = 1
  | .free .frame n => n = 1
  | .alloc .growth n held => 3 ≤ held ∧ n = held * growthFactor
  | .free .growth _ => True
  | .thrown _ _ => True
  | _ => False

/-- **C20 modulo the listed finding.**  For every core program, on either kind of thread: every allocation or release
in the log is the frame of a coroutine / generator (exactly one block), or the handle array of a suspend point that
held at least three handles when it grew (size `held * growthFactor`) *because user code put them there*, or belongs to the
thread-local ready queue, or is the handle array of the suspend point a resolution fills with the coroutines it released.
Nothing of category `other` ever appears.  `_partial`: the last two categories are not allowed by the statement; they are the
listed findings, characterised exactly by `c20_ready_queue_scope` / `c20_ready_queue_witness*` and
`c20_resolve_growth_scope` / `c20_resolve_growth_witness`. -/
theorem c20_core_no_alloc_partial (fuel : Nat) (fresh : Bool) (prog : List Op) :
    ∀ t ∈ allocLog (run fuel fresh prog), Permitted t ∨ t.isRq ∨ t.isRGrowth := by
  intro t ht
  have h := inv_run fuel fresh prog
  rw [mem_allocLog] at ht
  have hs := h.shape t ht.1
  have he := ht.2
  have h3 : 3 ≤ inlineCount := c20_inline_count.1
  cases t with
  | act j l => simp [isEv] at he
  | cb i => simp [isEv] at he
  | alloc c n held =>
    cases c with
    | frame => left; exact hs
    | growth => left; exact ⟨Nat.le_trans h3 hs.1, hs.2⟩
    | rgrowth => right; right; trivial
    | rq => right; left; trivial
    | other => exact absurd hs (by simp [Tok.shapeOk])
  | free c n =>
    cases c with
    | frame => left; exact hs
    | growth => left; trivial
    | rgrowth => right; right; trivial
    | rq => right; left; trivial
    | other => exact absurd hs (by simp [Tok.shapeOk])
  | thrown w i => left; trivial

/-- **Scope of the second finding.**  `rpeak` is the largest number of coroutines a single resolution of the run has released
(ghost, updated by every `ret << resume()` of `resume_chain_lk`; the collecting suspend point starts empty): a program in which
no resolution releases more than `inline_count` coroutine waiters has no event of category `rgrowth` — callbacks and blocking
threads never count, they are not collected. -/
theorem c20_resolve_growth_scope (fuel : Nat) (fresh : Bool) (prog : List Op)
    (hr : (run fuel fresh prog).rpeak ≤ inlineCount) :
    ∀ t ∈ allocLog (run fuel fresh prog), ¬ t.isRGrowth := by
  intro t ht hg
  have h := inv_run fuel fresh prog
  rw [mem_allocLog] at ht
  have hgg : t.isGrowth := by
    cases t with
    | alloc c n held => cases c <;> simp_all [Tok.isGrowth, Tok.isRGrowth]
    | free c n => cases c <;> simp_all [Tok.isGrowth, Tok.isRGrowth]
    | _ => simp [Tok.isRGrowth] at hg
  have := (h.growthTok t ht.1 hgg).2 hg
  omega

/-- **Scope of the finding.**  The ready queue allocates only on a thread that has never used it (its `std::deque` is
constructed on first use) or from the 64th enqueue on (one 512-byte node per 64 enqueues, the map when it runs out):
a program on a thread whose queue exists and with fewer than 64 enqueues has no event of that category. -/
theorem c20_ready_queue_scope (fuel : Nat) (prog : List Op) (h64 : (run fuel false prog).pushes < 64) :
    ∀ t ∈ allocLog (run fuel false prog), ¬ t.isRq := by
  intro t ht hr
  have h := inv_run fuel false prog
  rw [mem_allocLog] at ht
  rcases h.rqTok t ht.1 hr with h1 | h1
  · rw [h.freshC] at h1; cases h1
  · rw [slots_eq] at h1; omega

/-- **C20, full statement inside that scope.**  For every core program run on a thread whose ready queue exists, that
enqueues fewer than 64 resumptions and in which no single resolution releases more than `inline_count` coroutines: every
allocation or release in the log is the frame of a coroutine / generator the user created, or the handle array of a suspend
point that held at least three handles when it grew. -/
theorem c20_core_no_alloc (fuel : Nat) (prog : List Op) (h64 : (run fuel false prog).pushes < 64)
    (hr : (run fuel false prog).rpeak ≤ inlineCount) :
    ∀ t ∈ allocLog (run fuel false prog), Permitted t := by
  intro t ht
  rcases c20_core_no_alloc_partial fuel false prog t ht with h | h | h
  · exact h
  · exact absurd h (c20_ready_queue_scope fuel prog h64 t ht)
  · exact absurd h (c20_resolve_growth_scope fuel false prog hr t ht)

/-- **"The only allocations are the coroutine frames the user creates (and those too disappear under a non-heap
storage policy)."**  The log has at most one frame allocation per operation that creates a coroutine / generator with a
heap frame, and no frame event at all (allocation or release) when the program creates none — whatever it does with
non-heap frames. -/
theorem c20_frames_are_user_creations (fuel : Nat) (fresh : Bool) (prog : List Op) :
    nFrameAlloc (allocLog (run fuel fresh prog)) ≤ nHeapCreate prog ∧
    (¬ hasHeapCreate prog → ∀ t ∈ allocLog (run fuel fresh prog), ¬ t.isFrame) := by
  have h := inv_run fuel fresh prog
  constructor
  · have : nFrameAlloc (allocLog (run fuel fresh prog)) = nFrameAlloc (run fuel fresh prog).out := by
      simp only [allocLog, nFrameAlloc, List.countP_reverse]
      exact nFrameAlloc_filter _
    rw [this]; exact h.frameCnt
  · intro hn t ht hf
    rw [mem_allocLog] at ht
    exact hn (h.frameTok t ht.1 hf)

/-- **"Carrying up to three ready coroutines in a suspend point" allocates nothing.**  `peak` is the largest number of
handles any suspend point of the run has held (ghost, updated by every `add`): a program whose suspend points never
hold more than `inline_count` handles has no handle-array event. -/
theorem c20_growth_only_beyond_inline (fuel : Nat) (fresh : Bool) (prog : List Op)
    (hp : (run fuel fresh prog).peak ≤ inlineCount) :
    ∀ t ∈ allocLog (run fuel fresh prog), ¬ t.isGrowth := by
  intro t ht hg
  have h := inv_run fuel fresh prog
  rw [mem_allocLog] at ht
  have := (h.growthTok t ht.1 hg).1
  omega

/-- **No event at all.**  A program that creates no heap-frame coroutine / generator (only non-heap frames, or no coroutine
at all), whose suspend points never hold more than `inline_count` handles, run inside the scope of `c20_ready_queue_scope`,
performs no dynamic allocation and no release whatsoever of its own: futures, promises, every kind of awaiter, mutex locking,
contention and hand-over, suspend points, generator steps (in any spelling, past the end) contribute nothing.  The only
thing the log can contain are the exception objects handed to user code that read a future without a value
(`c20_no_event_at_all` below: none at all when no such read happens). -/
theorem c20_no_event_but_callers_exceptions (fuel : Nat) (prog : List Op) (hn : ¬ hasHeapCreate prog)
    (hp : (run fuel false prog).peak ≤ inlineCount) (h64 : (run fuel false prog).pushes < 64) :
    ∀ t ∈ allocLog (run fuel false prog), t.isThrown := by
  intro t ht
  have h1 := (c20_frames_are_user_creations fuel false prog).2 hn t ht
  have h2 := c20_growth_only_beyond_inline fuel false prog hp t ht
  have hrp : (run fuel false prog).rpeak ≤ inlineCount := Nat.le_trans (inv_run fuel false prog).rpeakLe hp
  have h3 := c20_core_no_alloc fuel prog h64 hrp t ht
  cases t with
  | act j l => exact h3
  | cb i => exact h3
  | alloc c n held => cases c <;> simp_all [Permitted, Tok.isFrame, Tok.isGrowth]
  | free c n => cases c <;> simp_all [Permitted, Tok.isFrame, Tok.isGrowth]
  | thrown w i => trivial

/-- the same with an empty log: additionally no exception was delivered to user code (`hx`: the trace shows no read of a
future that holds no value) -/
theorem c20_no_event_at_all (fuel : Nat) (prog : List Op) (hn : ¬ hasHeapCreate prog)
    (hp : (run fuel false prog).peak ≤ inlineCount) (h64 : (run fuel false prog).pushes < 64)
    (hx : ∀ t ∈ (run fuel false prog).out, ¬ t.isThrown) :
    allocLog (run fuel false prog) = [] := by
  apply List.eq_nil_iff_forall_not_mem.mpr
  intro t ht
  have hth := hx t (mem_allocLog.mp ht).1
  have h1 := (c20_frames_are_user_creations fuel false prog).2 hn t ht
  have h2 := c20_growth_only_beyond_inline fuel false prog hp t ht
  have hrp : (run fuel false prog).rpeak ≤ inlineCount := Nat.le_trans (inv_run fuel false prog).rpeakLe hp
  have h3 := c20_core_no_alloc fuel prog h64 hrp t ht
  cases t with
  | act j l => exact h3
  | cb i => exact h3
  | alloc c n held => cases c <;> simp_all [Permitted, Tok.isFrame, Tok.isGrowth]
  | free c n => cases c <;> simp_all [Permitted, Tok.isFrame, Tok.isGrowth]
  | thrown w i => exact hth trivial

/-! ### exceptions: the allocation channel besides `operator new` -/

/-- **The library throws only to report a missing value.**  `future::value()` (behind `co_await F`, `F.wait()`) allocates an
exception object exactly when the future it reads was resolved by an exception or dropped; reading a value, or a pending /
destroyed future's slot, changes nothing. -/
theorem c20_throw_only_without_value (s : State) (who : Option Nat) (i : Nat) :
    ((s.futs i).outcome.bad = false → throwTo s who i = s) ∧
    ((s.futs i).outcome.bad = true → (throwTo s who i).out = Tok.thrown who i :: s.out) := by
  constructor <;> intro h <;> simp [throwTo, h, emit]

/-- the operations that ask generator `g` for its next item from ordinary code, in every spelling: `next()` / `begin()`,
the future, a whole range-for pass -/
def stepsOf (g : Nat) (op : Op) : Prop := op = .gs g false ∨ op = .gs g true ∨ op = .gr g

/-- **Stepping an exhausted generator, any number of times in any spelling, does nothing** — no allocation, no release, no
token at all, and the generator stays exhausted (second range-for over the same generator, `begin()` on a finished one,
a polling loop that runs again): the answer "no more items" comes from the `done()` pre-check, not from a thrown and
swallowed `no_more_values_exception`.  For every state (reachable or not), every generator and every list of such steps. -/
theorem c20_exhausted_generator_silent (fuel : Nat) (g : Nat) (ops : List Op) (hops : ∀ op ∈ ops, stepsOf g op) :
    ∀ s : State, (s.gens g).done = true →
      (ops.foldl (step fuel) s).out = s.out ∧ ((ops.foldl (step fuel) s).gens g).done = true := by
  induction ops with
  | nil => intro s hd; exact ⟨rfl, hd⟩
  | cons op ops ih =>
    intro s hd
    have hop := hops op (List.mem_cons_self ..)
    have key : (step fuel s op).out = s.out ∧ ((step fuel s op).gens g).done = true := by
      rcases hop with rfl | rfl | rfl <;>
        (simp only [step, genTouch, hd, if_true]
         split
         · simp [setGen, upd, genStep, genAll, hd]
         · exact ⟨rfl, hd⟩)
    have := ih (fun o ho => hops o (List.mem_cons_of_mem _ ho)) (step fuel s op) key.2
    rw [List.foldl_cons]
    exact ⟨this.1.trans key.1, this.2⟩

/-- a generator that has delivered everything is exhausted after one more step, whatever the spelling -/
theorem c20_generator_exhausts (fuel : Nat) (s : State) (g : Nat) (he : (s.gens g).exist = true) :
    ((step fuel s (.gr g)).gens g).done = true ∧
    ((s.gens g).n ≤ (s.gens g).next → ∀ v, ((step fuel s (.gs g v)).gens g).done = true) := by
  constructor
  · simp only [step, he, if_true, setGen, upd, genAll]; split <;> simp_all
  · intro hn v
    simp only [step, he, setGen, upd, genStep, if_pos]
    split
    · simp_all
    · split
      · omega
      · rfl

/-- a finished generator (3 items, non-heap frame) iterated, iterated again, asked through `begin()`, `next()` and the
future; a future resolved by dropping its promise read by a coroutine and by ordinary code -/
def progPastEnd : List Op :=
  [.gen 0 false 3, .gr 0, .gr 0, .gs 0 false, .gs 0 false, .gs 0 true, .fut 0, .res 0 .d,
   .co 0 false none [.await 0, .gstep 0, .gstepAw 0], .bw 0, .fin]

set_option maxRecDepth 100000 in
/-- non-vacuity: the generator of `progPastEnd` really is exhausted after the first pass, the extra steps leave no trace, and
the only two events of the whole program are the exception objects handed to the coroutine and to ordinary code that read
the dropped future -/
example : ((run 100 false (progPastEnd.take 2)).gens 0).done = true ∧
    (run 100 false (progPastEnd.take 6)).out = [] ∧
    allocLog (run 100 false progPastEnd) = [Tok.thrown (some 0) 0, Tok.thrown none 0] ∧
    ¬ hasHeapCreate progPastEnd ∧ (run 100 false progPastEnd).pushes < 64 := by
  refine ⟨by decide, by decide, by decide, ?_, by decide⟩
  rintro ⟨op, hop, hc⟩
  simp only [progPastEnd, List.mem_cons, List.not_mem_nil, or_false] at hop
  rcases hop with rfl | rfl | rfl | rfl | rfl | rfl | rfl | rfl | rfl | rfl | rfl <;> simp [Op.isHeapCreate] at hc

/-! ### the finding, and non-vacuity -/

/-- on a fresh thread: one future, one non-heap coroutine awaiting it, resolve -/
def progFresh : List Op := [.fut 0, .co 0 false none [.await 0], .res 0 .v, .fin]

set_option maxRecDepth 100000 in
/-- **The finding (first use).**  On a thread that never used its ready queue, a program with no heap frame and a single
waiter makes the library allocate: the deque's map (64 bytes) and first node (512 bytes), released at thread exit. -/
theorem c20_ready_queue_witness_fresh :
    allocLog (run 100 true progFresh) =
      [Tok.alloc .rq 64 0, Tok.alloc .rq 512 0, Tok.free .rq 512, Tok.free .rq 64] := by decide

/-- one non-heap coroutine that executes `co_await pause()` 64 times -/
def progPause : List Op := [.co 0 false none (List.replicate 64 .pause), .fin]

set_option maxRecDepth 100000 in
/-- **The finding (growth).**  On a thread whose queue exists, the 64th enqueue allocates a 512-byte node although the
queue never holds more than one handle (and the 64th dequeue releases one). -/
theorem c20_ready_queue_witness_64 :
    allocLog (run 200 false progPause) = [Tok.alloc .rq 512 0, Tok.free .rq 512] := by decide

/-- non-vacuity of `c20_no_event_at_all`: a program with three non-heap coroutine waiters, a callback and a blocking-thread
awaiter on one future, a contended mutex handed over twice, and generator steps — and an empty log -/
def progSilent : List Op :=
  [.fut 0, .co 0 false none [.lock 0, .await 0, .unlock 0], .co 1 false none [.lock 0, .await 0, .unlockAw 0],
   .co 2 false none [.await 0, .lock 0], .cb 0, .bs 0, .gen 0 false 2, .gs 0 false, .gs 0 true, .gs 0 false,
   .res 0 .v, .bw 0, .fin]

set_option maxRecDepth 100000 in
example : ¬ hasHeapCreate progSilent ∧ (run 100 false progSilent).peak ≤ inlineCount ∧
    (run 100 false progSilent).pushes < 64 ∧ 0 < (run 100 false progSilent).pushes ∧
    leftOf (run 100 false progSilent) = 0 ∧ (∀ t ∈ (run 100 false progSilent).out, ¬ t.isThrown) ∧
    allocLog (run 100 false progSilent) = [] := by
  refine ⟨?_, ?_, ?_, ?_, ?_, ?_, ?_⟩
  · rintro ⟨op, hop, hc⟩
    simp only [progSilent, List.mem_cons, List.not_mem_nil, or_false] at hop
    rcases hop with rfl | rfl | rfl | rfl | rfl | rfl | rfl | rfl | rfl | rfl | rfl | rfl | rfl <;> simp [Op.isHeapCreate] at hc
  · decide
  · decide
  · decide
  · decide
  · have : (run 100 false progSilent).out.all (fun t => match t with | .thrown .. => false | _ => true) = true := by decide
    intro t ht hth
    have := List.all_eq_true.mp this t ht
    cases t <;> simp_all [Tok.isThrown]
  · decide

/-- four heap-frame coroutines awaiting one future, resolved by ordinary code -/
def progGrow : List Op :=
  [.fut 0, .co 0 true none [.await 0], .co 1 true none [.await 0], .co 2 true none [.await 0], .co 3 true none [.await 0],
   .res 0 .v, .fin]

set_option maxRecDepth 100000 in
/-- **The second finding.**  Four coroutines wait for one future; resolving it makes `resume_chain_lk` collect four handles in
one suspend point, which allocates a handle array (holding 3, array of 6) — although the statement promises that "resolving a
future with any number of waiters" allocates nothing.  (Also the non-vacuity witness of the frame clauses: four frames.) -/
theorem c20_resolve_growth_witness : allocLog (run 100 false progGrow) =
    [Tok.alloc .frame 1 0, Tok.alloc .frame 1 0, Tok.alloc .frame 1 0, Tok.alloc .frame 1 0,
     Tok.alloc .rgrowth 6 3, Tok.free .frame 1, Tok.free .frame 1, Tok.free .frame 1, Tok.free .frame 1,
     Tok.free .rgrowth 6] ∧ nHeapCreate progGrow = 4 ∧ (run 100 false progGrow).peak = 4 ∧ (run 100 false progGrow).rpeak = 4 := by decide

/-- exactly `inline_count` coroutines awaiting one future -/
def progThree : List Op :=
  [.fut 0, .co 0 false none [.await 0], .co 1 false none [.await 0], .co 2 false none [.await 0], .res 0 .v, .fin]

/-- four parked coroutines whose handles user code puts into one suspend point, which is then flushed -/
def progUserGrow : List Op :=
  [.co 0 false none [.park], .co 1 false none [.park], .co 2 false none [.park], .co 3 false none [.park],
   .sa 0 0, .sa 0 1, .sa 0 2, .sa 0 3, .sf 0, .fin]

set_option maxRecDepth 100000 in
/-- non-vacuity of the permitted `growth` clause: a suspend point *the user* fills with more than three ready coroutines grows
(holding 3, array of 6) — that is what the statement allows; no resolution is involved (`rpeak = 0`) -/
example : allocLog (run 100 false progUserGrow) = [Tok.alloc .growth 6 3, Tok.free .growth 6] ∧
    (run 100 false progUserGrow).peak = 4 ∧ (run 100 false progUserGrow).rpeak = 0 := by decide

set_option maxRecDepth 100000 in
/-- exactly `inline_count` coroutine waiters: the boundary case of `c20_resolve_growth_scope` has an empty log -/
example : allocLog (run 100 false progThree) = [] ∧ (run 100 false progThree).rpeak = 3 := by decide

end Cocls.C20
