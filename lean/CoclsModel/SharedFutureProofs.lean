import CoclsModel.SharedFutureSteps1
import CoclsModel.SharedFutureSteps3
/-!
The invariant of the shared_future model holds in every reachable state (induction over the schedule, over a thread's
program inside one step and over the walker's action list inside one step), and what follows from it.
-/
set_option linter.unusedSimpArgs false
namespace Cocls.SharedFuture
variable {c : Cfg} {s : State} {t : Nat}

@[simp] theorem setPc_pc_same (s : State) (t : Nat) (p : Pc) : (setPc s t p).pc t = p := by simp [setPc]

theorem dropH_pc (s : State) (t : Nat) : (dropH s t).1.pc = s.pc := by
  unfold dropH dropRef; split <;> rfl

theorem dropH_held (s : State) (t : Nat) : (dropH s t).1.held t = s.held t - 1 := by
  unfold dropH; simp

theorem copyH_pc (s : State) (t : Nat) : (copyH s t).pc = s.pc := rfl

theorem inv_dropAll (n : Nat) : ∀ s : State, Inv c s → s.pc t = Pc.hRun [] → n ≤ s.held t →
    Inv c (dropAll t n s).1 ∧ (dropAll t n s).1.pc t = Pc.hRun [] ∧ (dropAll t n s).1.held t = s.held t - n := by
  induction n with
  | zero => intro s h hpc _; exact ⟨h, hpc, rfl⟩
  | succ n ih =>
      intro s h hpc hn
      have h1 := inv_dropH h [] hpc (by omega)
      have hpc1 : (dropH s t).1.pc t = Pc.hRun [] := by rw [dropH_pc]; exact hpc
      have hh1 := dropH_held s t
      have := ih (dropH s t).1 h1 hpc1 (by omega)
      simp only [dropAll]
      refine ⟨this.1, this.2.1, ?_⟩
      rw [this.2.2, hh1]; omega

theorem inv_endThread (h : Inv c s) (hpc : s.pc t = Pc.hRun []) : Inv c (endThread s t).1 := by
  have := inv_dropAll (c := c) (t := t) (s.held t) s h hpc (Nat.le_refl _)
  unfold endThread
  exact inv_done this.1 this.2.1 (by rw [this.2.2]; omega)

theorem inv_runProg (p : List Act) : ∀ s : State, Inv c s → s.pc t = Pc.hRun p → Inv c (runProg t s p).1 := by
  induction p with
  | nil => intro s h hpc; simp only [runProg]; exact inv_endThread h hpc
  | cons a p ih =>
      intro s h hpc
      cases a with
      | copy =>
          simp only [runProg]
          split
          · exact ih _ (inv_skip h _ p hpc) (by simp)
          · rename_i hh
            have h1 := inv_copyH h _ hpc hh
            have hpc1 : (copyH s t).pc t = Pc.hRun (Act.copy :: p) := hpc
            exact ih _ (inv_skip h1 _ p hpc1) (by simp)
      | drop =>
          simp only [runProg]
          split
          · exact ih _ (inv_skip h _ p hpc) (by simp)
          · rename_i hh
            have h1 := inv_dropH h _ hpc hh
            have hpc1 : (dropH s t).1.pc t = Pc.hRun (Act.drop :: p) := by rw [dropH_pc]; exact hpc
            exact ih _ (inv_skip h1 _ p hpc1) (by simp)
      | peek =>
          simp only [runProg]
          split
          · exact ih _ (inv_skip h _ p hpc) (by simp)
          · rename_i hh
            split
            · rename_i hs; exact inv_peek_ready h p hpc hh hs
            · exact inv_peek_pending h p hpc hh
      | await k =>
          simp only [runProg]
          split
          · exact ih _ (inv_skip h _ p hpc) (by simp)
          · rename_i hh
            have hh1 : s.held t ≠ 0 := fun e => hh (Or.inl e)
            have hh2 : s.awaited t = false := by
              cases hq : s.awaited t
              · rfl
              · exact absurd (Or.inr (Or.inl hq)) hh
            have hh3 : k ≠ WK.peek := fun e => hh (Or.inr (Or.inr e))
            split
            · rename_i hs; exact inv_await_ready h k p hpc hh1 hh3 hh2 hs
            · exact inv_await_pending h k p hpc hh1 hh3 hh2

theorem inv_runActs (acts : List WAct) : ∀ s : State, Inv c s → s.pc t = Pc.rRun acts → Inv c (runActs c t s acts).1 := by
  induction acts with
  | nil => intro s h hpc; simp only [runActs]; exact inv_w_fin h hpc
  | cons a rest ih =>
      intro s h hpc
      cases a with
      | store x => simp only [runActs]; exact inv_w_store h x rest hpc
      | wake x =>
          simp only [runActs]
          split
          · exact inv_w_wake_load h x rest hpc
          · exact ih _ (inv_w_obs h x Seen.ready _ rest hpc (Or.inl rfl) (s.woken x + 1) (by simp)) (by simp)
      | obsAfter x sn =>
          simp only [runActs]
          have hu : upd s.woken x (s.woken x) = s.woken := by funext y; simp [upd]; intro e; rw [e]
          have h1 := inv_w_obs h x sn _ rest hpc (Or.inr ⟨sn, rfl⟩) (s.woken x) (by simp)
          rw [hu] at h1
          exact ih _ h1 (by simp)
      | release => simp only [runActs]; exact ih _ (inv_w_release h rest hpc) (by simp)

theorem crashes_false (hf : Fixed c) : c.crashes = false := by
  unfold Cfg.crashes; rw [hf.1]; rfl

theorem inv_astep (hf : Fixed c) (h : Inv c s) (hen : enabled s t = true) : Inv c (astep c s t).1 := by
  unfold astep
  cases hpc : s.pc t with
  | done => exact h
  | cRun is =>
      cases is with
      | nil =>
          simp only
          exact inv_runProg _ _ (inv_distribute h hpc) (by simp)
      | cons i is =>
          simp only [crashes_false hf, Bool.false_eq_true, if_false]
          cases i with
          | xchgInit => exact inv_c_xchgInit h is hpc
          | giveInit => exact inv_c_giveInit h is hpc
          | xchgTmp => exact inv_c_xchgTmp h is hpc
          | loadTmp => exact inv_c_loadTmp h is hpc
          | loadPending =>
              simp only [cstep]
              split
              · rename_i hs; exact inv_c_loadPending_ready h is hpc hs
              · exact inv_c_loadPending_pending h is hpc
          | charge e =>
              simp only [cstep]
              split
              · rename_i hs; exact inv_c_charge_ready h e is hpc hs
              · rename_i l hs
                split
                · exact inv_c_charge_ok h e is hpc l hs
                · exact inv_c_charge_retry h e _ is hpc
  | hStart =>
      simp only
      split
      · rename_i hc; exact inv_runProg _ _ (inv_gate_pass h (Or.inl hpc) hc) (by simp)
      · exact inv_gate_block h hpc
  | hGate =>
      simp only
      have hc : s.crashed = false ∧ s.constructed = true := by simpa [enabled, hpc] using hen
      exact inv_runProg _ _ (inv_gate_pass h (Or.inr hpc) hc.2) (by simp)
  | hRun p => exact inv_runProg p s h hpc
  | hCas k e p =>
      simp only [casStep]
      split
      · rename_i hs; exact inv_cas_ready h k e p hpc hs
      · rename_i l hs
        split
        · exact inv_cas_ok h k e p hpc l hs
        · exact inv_cas_retry h k e _ p hpc
  | hWait p =>
      simp only
      split
      · rename_i hfl; exact inv_wait_pass h p (Or.inl hpc) hfl
      · exact inv_wait_block h p hpc
  | hBlocked p =>
      simp only
      have hfl : s.crashed = false ∧ s.flag t = true := by simpa [enabled, hpc] using hen
      exact inv_wait_pass h p (Or.inr hpc) hfl.2
  | hRead k p =>
      simp only [readStep]
      split
      · exact inv_read_load h k p hpc
      · exact inv_runProg _ _ (inv_obs_self h k Seen.ready Seen.ready p (Or.inl hpc)) (by simp)
  | hRead2 k sn p =>
      simp only [readStep2]
      exact inv_runProg _ _ (inv_obs_self h k sn sn p (Or.inr hpc)) (by simp)
  | rStart =>
      simp only
      split
      · rename_i hp; exact inv_r_claim h (Or.inl hpc) hp
      · exact inv_r_block h hpc
  | rGate =>
      simp only
      have hp : s.crashed = false ∧ s.published = true := by simpa [enabled, hpc] using hen
      exact inv_r_claim h (Or.inr hpc) hp.2
  | rResolve => exact inv_r_resolve h hpc
  | rRun acts => exact inv_runActs acts s h hpc

theorem inv_run (hf : Fixed c) (sched : List Nat) : ∀ s : State, Inv c s → Inv c (run c s sched) := by
  induction sched with
  | nil => intro s h; exact h
  | cons t rest ih =>
      intro s h
      simp only [run, List.foldl]
      split
      · rename_i hen; exact ih _ (inv_astep hf h hen)
      · exact ih _ h

def Reachable (c : Cfg) (s : State) : Prop := ∃ sched : List Nat, s = run c (init c) sched

theorem Reachable.inv (hf : Fixed c) (hn : 0 < c.n) (h : Reachable c s) : Inv c s := by
  obtain ⟨sched, rfl⟩ := h
  exact inv_run hf sched _ (inv_init c hf hn)

end Cocls.SharedFuture
