import CoclsModel.Aggregator
/-!
Value and result layer on top of the aggregator model (`Aggregator.lean`): WHERE the yielded values live and HOW the
consumer learns the result of an access.

* A generator does not own the values it yields: `promise_type::_ret` is a POINTER to the object of the `co_yield`
  expression (`yield_value(Ret &x) { _ret = &x; }`).  The aggregator yields `g.value()`, a reference to the object the
  source yielded, so the aggregate's `_ret` points INTO THE SOURCE: at a temporary of the source's frame, or at an lvalue
  the source (or its owner) keeps using — a running accumulator, an element of a stored script (`Cfg.lval`).
  `slot k` is that object (`none` = it has been moved from).  A source that yielded such an lvalue looks at it again when it
  is resumed (`reread`, ghost log `kept`).
* The consumer reaches the aggregate through one of the documented access styles (`Style`).  The reference styles
  (`next()`/`value()`, iterator, `co_await next()`) read the generator promise directly: `!done()`, then `value()` which
  rethrows `_exp` or returns `*_ret` (a reference into the source).  The future styles go through `operator()`
  (`next_future`): `unblock_future()` resolves the future with `drop` (done), the exception, or A COPY of `*_ret`
  (`_awaiting(*_ret)`); the consumer then asks the future in one of the documented ways: `co_await val.has_value()`,
  `if (val)`, `!val` (all three: `_state != not_value`, true for a value AND for an exception; `*val` then returns the value or
  rethrows), or without asking: `*val` / `val.wait()`, `co_await val`, `val.value()` (value, rethrow, or
  `await_canceled_exception` for a dropped promise = the end).
* `Agg.State` is embedded unchanged (`base`); every step of this layer is a step of the aggregator model on `base`
  (`AggregatorValuesProofs.base_run`), so every theorem of `Props/C14.lean` about `Agg.run` applies to `base`.
* Ghost fields: `obs` (what the consumer learned from every completed access, in order), `kept`.  `slot`, `fut`, `acc`
  are data: read by `deliver` only.
-/
namespace Cocls.AggV
open Cocls.Agg (Act SRes SSt Ag upd)

/-- the documented ways of accessing a generator and asking for the result -/
inductive Style where
  | next        -- `if (gen.next()) use(gen.value())` (blocking)
  | iter        -- iterator / range-for: `it != gen.end()`, `*it`
  | awaitNext   -- `if (co_await gen.next()) use(gen.value())`
  | futHas      -- `val = gen(); if (co_await val.has_value()) use(*val) else done`   (documented at `generator::operator()`)
  | futBool     -- `val = gen(); if (val) use(*val) else done`
  | futNot      -- `val = gen(); if (!val) done else use(*val)`
  | futDeref    -- `use(*gen())` / `val.wait()`
  | futAwait    -- `use(co_await gen())`
  | futValue    -- `val.sync(); use(val.value())`
  deriving DecidableEq, Repr, Inhabited

/-- the style goes through `generator::operator()` (a future) -/
def Style.isFut : Style → Bool
  | Style.next | Style.iter | Style.awaitNext => false
  | _ => true

/-- the style asks the future whether it has a value before it dereferences it -/
def Style.asks : Style → Bool
  | Style.futHas | Style.futBool | Style.futNot => true
  | _ => false

/-- the aggregate's generator promise as the consumer finds it when its access completes -/
inductive PSt where
  | yielded (k : Nat)   -- `_ret` points at the object source `k` yielded
  | finished            -- `_done`
  | threw (e : Nat)     -- `_exp`
  | busy
  deriving DecidableEq, Repr, Inhabited

/-- `future<T>::_state` (+ payload) of the future returned by `gen()` -/
inductive FutSt where
  | pending
  | value (v : Option Nat)   -- `State::value`: the future's own object (`none`: constructed from a moved-from object)
  | exception (e : Nat)      -- `State::exception`
  | dropped                  -- resolved by `drop`: `State::not_value`, not pending
  deriving DecidableEq, Repr, Inhabited

/-- what the consumer learns from an access -/
inductive Rep where
  | val (v : Option Nat)   -- a value (`none`: a moved-from object)
  | ended                  -- no more values
  | exc (e : Nat)          -- the exception `e`
  deriving DecidableEq, Repr, Inhabited

structure Cfg where
  base : Agg.Cfg
  /-- act `p` of source `k` (a `yield`) yields an lvalue the source looks at again after the `co_yield` -/
  lval : Nat → Nat → Bool

structure State where
  base : Agg.State := {}
  slot : Nat → Option Nat := fun _ => none   -- the object source `k` yielded last (what `_ret` points at)
  acc : Style := Style.next                  -- style of the access in progress
  fut : FutSt := FutSt.pending               -- the future of the last `gen()` access
  -- ghost
  obs : List (Style × Rep) := []             -- result of every completed access, as the consumer learned it
  kept : Nat → List (Nat × Option Nat) := fun _ => []
                                             -- per source: at every return from `co_yield x` (x an lvalue it keeps):
                                             -- (the value it had yielded, what it finds in `x` now)

inductive Op where
  | next (a : Nat) (st : Style)
  | agg
  | resolve (k : Nat)
  | destroy (coro : Bool)
  deriving DecidableEq, Repr

def erase : Op → Agg.Op
  | Op.next a _ => Agg.Op.next a
  | Op.agg => Agg.Op.agg
  | Op.resolve k => Agg.Op.resolve k
  | Op.destroy b => Agg.Op.destroy b

def init : State := {}

/-- the source that is resumed (and runs one act) inside this step of the aggregator model, if any:
`Ag.charging`/`Ag.recharge` call `charge`, a completion resumes the awaiting source -/
def runner (c : Agg.Cfg) (b : Agg.State) : Agg.Op → Option Nat
  | Agg.Op.agg =>
    match b.ag with
    | Ag.charging i _ => if i < c.n then some i else none
    | Ag.recharge k _ => some k
    | _ => none
  | Agg.Op.resolve k => if b.st k = SSt.inflight then some k else none
  | _ => none

/-- source `k` is suspended in (or was last suspended in) `co_yield x` with `x` an lvalue it keeps; the value it put there -/
def yieldedLval (c : Cfg) (b : Agg.State) (k : Nat) : Option Nat :=
  if 0 < b.pc k ∧ c.lval k (b.pc k - 1) = true then
    match c.base.script k (b.pc k - 1) with
    | some (Act.yield v) => some v
    | _ => none
  else none

/-- returning from `co_yield x` the source looks at `x` again -/
def reread (c : Cfg) (s : State) (k : Nat) : State :=
  match yieldedLval c s.base k with
  | some v => { s with kept := upd s.kept k (s.kept k ++ [(v, s.slot k)]) }
  | none => s

/-- the act the source runs next: a `yield v` puts `v` into the yielded object -/
def produce (c : Cfg) (s : State) (k : Nat) : State :=
  match c.base.script k (s.base.pc k) with
  | some (Act.yield v) => { s with slot := upd s.slot k (some v) }
  | _ => s

def srcSide (c : Cfg) (s : State) (op : Agg.Op) : State :=
  match runner c.base s.base op with
  | some k => produce c (reread c s k) k
  | none => s

def promiseOf (b : Agg.State) : PSt :=
  match b.ag with
  | Ag.parkedYield k => PSt.yielded k
  | Ag.done => PSt.finished
  | Ag.failed e => PSt.threw e
  | _ => PSt.busy

/-- `next()` / `co_await next()` / iterator: `!done()`, then `value()`: rethrows `_exp`, else `*_ret` (by reference) -/
def readRef (p : PSt) (slot : Nat → Option Nat) : Rep :=
  match p with
  | PSt.yielded k => Rep.val (slot k)
  | PSt.finished => Rep.ended
  | PSt.threw e => Rep.exc e
  | PSt.busy => Rep.ended

/-- `unblock_future()`: `done() → _awaiting(drop)`, `_exp → _awaiting(_exp)`, else `_awaiting(*_ret)` (copy) -/
def resolveFut (p : PSt) (slot : Nat → Option Nat) : FutSt :=
  match p with
  | PSt.yielded k => FutSt.value (slot k)
  | PSt.finished => FutSt.dropped
  | PSt.threw e => FutSt.exception e
  | PSt.busy => FutSt.pending

/-- `has_value()` (awaited or converted to bool), `operator bool`, `operator!`: `_state != State::not_value` -/
def hasValue : FutSt → Bool
  | FutSt.value _ => true
  | FutSt.exception _ => true
  | _ => false

/-- `*val`, `wait()`, `co_await val`, `value()`: the value, the rethrown exception, `await_canceled_exception` for a
dropped promise (which a consumer of a generator takes for the end) -/
def valueOf : FutSt → Rep
  | FutSt.value v => Rep.val v
  | FutSt.exception e => Rep.exc e
  | _ => Rep.ended

def readFut (st : Style) (f : FutSt) : Rep :=
  if st.asks then (if hasValue f then valueOf f else Rep.ended) else valueOf f

/-- what a consumer using style `st` learns from a completed access -/
def report (st : Style) (p : PSt) (slot : Nat → Option Nat) : Rep :=
  if st.isFut then readFut st (resolveFut p slot) else readRef p slot

/-- the access in progress completes (`s.base` is the aggregator after the completing step) -/
def deliver (s : State) : State :=
  if s.acc.isFut then
    { s with fut := resolveFut (promiseOf s.base) s.slot,
             obs := s.obs ++ [(s.acc, readFut s.acc (resolveFut (promiseOf s.base) s.slot))] }
  else { s with obs := s.obs ++ [(s.acc, readRef (promiseOf s.base) s.slot)] }

def noteStyle (s : State) : Op → State
  | Op.next _ st => if Agg.waiting s.base then s else { s with acc := st }
  | _ => s

def setBase (s : State) (b : Agg.State) : State := { s with base := b }

/-- one step, parametrised by the completion function (`deliver` for the code as it is) -/
def stepG (d : State → State) (c : Cfg) (s : State) (op : Op) : State :=
  if Agg.waiting s.base = true ∧ Agg.waiting (Agg.step c.base s.base (erase op)) = false then
    d (setBase (srcSide c (noteStyle s op) (erase op)) (Agg.step c.base s.base (erase op)))
  else setBase (srcSide c (noteStyle s op) (erase op)) (Agg.step c.base s.base (erase op))

def step (c : Cfg) (s : State) (op : Op) : State := stepG deliver c s op

def run (c : Cfg) (s : State) (ops : List Op) : State := ops.foldl (step c) s

/-! ## variants that are NOT the code (necessity witnesses in `Props/C14.lean`) -/

/-- `unblock_future()` resolving the future with `std::move(*_ret)`: the future's object is MOVED out of the object the
source yielded -/
def deliverMoving (s : State) : State :=
  match s.acc.isFut, promiseOf s.base with
  | true, PSt.yielded k => { deliver s with slot := upd s.slot k none }
  | _, _ => deliver s

/-- `has_value()` answering "holds a value" (false for an exception) -/
def hasValueStrict : FutSt → Bool
  | FutSt.value _ => true
  | _ => false

def readFutStrict (st : Style) (f : FutSt) : Rep :=
  if st = Style.futHas then (if hasValueStrict f then valueOf f else Rep.ended) else readFut st f

def deliverStrict (s : State) : State :=
  if s.acc.isFut then
    { s with fut := resolveFut (promiseOf s.base) s.slot,
             obs := s.obs ++ [(s.acc, readFutStrict s.acc (resolveFut (promiseOf s.base) s.slot))] }
  else deliver s

def runG (d : State → State) (c : Cfg) (s : State) (ops : List Op) : State := ops.foldl (stepG d c) s

end Cocls.AggV
