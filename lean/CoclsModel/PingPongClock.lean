import CoclsModel.Clock

/-
Happens-before machine for C03, part 2b: the generator's synchronous step on an asynchronous body (generator.h,
`promise_type::next_sync` / `unblock_sync`), REPEATED any number of times on the same `_block` flag and the same promise fields.

One round, as the code is (generator.h:215-232, 119-122):

  caller thread C (`next_sync`):   plain writes to the promise (`_caller = &_internal`, `set_resume_fn`, the argument, clearing /
                                   destroying the previous value …)                                         \
                                   `_block.store(false, relaxed)`                           (line 223)       } `stepReset`
                                   `resume_in_queue(h)`: the body runs ON C's THREAD                         /  → `CPc.body`
  the body                         plain reads / writes of the promise (`_ret`, `_exp`, `_done`, `*_arg` …)   `doRead`, `doWrite`
                                   either reaches `co_yield` / the end on the thread it is on:
                                     writes the yielded value / done state (plain), then `unblock_sync`:
                                     `_block.store(true, oS)`; `notify_all`                 (line 120)        `stepYieldC/B`
                                   or suspends at an inner `co_await` and is later resumed on ANOTHER thread  `stepHopC/B`
                                     MODELLED ASSUMPTION: that hand-over synchronises (whatever resumes the body — a future's
                                     resolver, a thread pool, the scheduler — publishes the suspended coroutine by one of C03's
                                     other protocols): the receiving thread's clock becomes the join of its own and the
                                     suspending thread's, which then starts a new epoch.  `Cfg.hop` says which hops exist.
  caller C:                        `_block.wait(false, oW)`: a load; returns when it reads `true`            `stepWait` → `CPc.read`
                                   reads the value (plain)                                                    `stepRead` → `CPc.start`

`notify_all` carries no ordering (blocking is scheduling: a blocked caller is a caller that is not scheduled, or whose load read
`false`).  The body is ONE coroutine, so its control is one token: `bodyAt = some u` (running on thread `u ≠ C`), or it runs on C's
own thread (`cpc = body`), or it is suspended at a `co_yield` (`bodyAt = none`, `cpc ≠ body`).  C cannot run the body while it is
blocked in `wait`, hence hops never target C.

STALE READS — decided from the C++ semantics, not assumed away.  `_block`'s modification order over the rounds is
`init(false), false₁, true₁, false₂, true₂, …`.  Could round k's `wait` return on `true_{k-1}` because the relaxed reset store
`false_k` "is not yet visible"?  No: `false_k` is a side effect of C itself, sequenced before the `wait` in the same thread, so by
write-read coherence ([intro.races]/18: a value computation that happens after a side effect X on the same atomic object takes its
value from X or from a side effect later than X in the modification order) the load reads `false_k` or something newer — whatever the
order of the store is; no other thread needs to have seen `false_k` for that.  The machine has exactly this rule: `doStore` raises
the storing thread's `seen` to its own message and `doLoad` reads any message at index `≥ seen` (`readIdx`, the schedule chooses):
`reset_hides_older`.  What the load MAY do is read `false_k` although `true_k` is already there (the caller then blocks / polls
again); and `true_k` is never older than `false_k` in the modification order because the body's store happens after the reset
(sequenced-before on C's thread, then the hop chain) — write-write coherence; in the machine the history is in execution order.
Why the RELAXED reset suffices: nothing is published through `false_k`.  The body sees the caller's preparations because it is
resumed by the caller on the caller's own thread or reaches another thread through the synchronising hop chain; a reader of
`false_k` acquires nothing and needs nothing (it does not proceed).  As a plain store `false_k` also CUTS the release sequences of
the earlier rounds — harmless for the same reason.

Ghost: `log` = epochs of all plain accesses ever made to the promise's fields (one location `data`); never consulted by `step`.

Results: `pingpong_race_free` (all round counts, hop chains, schedules, stale-read choices, ANY reset order),
`pingpong_race_free_iff` (⇔ `oS ⊇ release ∧ oW ⊇ acquire`), `pingpong_relaxed_reset_suffices`, `pingpong_caller_sees_round`,
`pingpong_needs_release`, `pingpong_needs_acquire` (`decide`), `reset_hides_older`.

NOT modelled: the asynchronous access path (`next_future`, `unblock_future`: promise/future protocol, C01/C02/C03's chain), two
callers using one generator at once (excluded by the library: "Generator is busy" assert), the caller role moving to another thread
between two rounds (one more synchronising hand-over, of the generator object itself), destruction of the generator while the body
runs, and everything `Clock.lean` does not model.
-/

namespace Cocls.PingPong
open Cocls Cocls.Clock

/-- the orders written in the source at the three sites of the protocol -/
structure PingPongOrders where
  reset : Order   -- `_block.store(false, ·)` in `next_sync` (relaxed in the source)
  set : Order     -- `oS`: `_block.store(true, ·)` in `unblock_sync`
  wait : Order    -- `oW`: `_block.wait(false, ·)` in `next_sync`
  deriving DecidableEq, Repr, Inhabited

/-- `unblock_sync`'s store ⊇ release ∧ `next_sync`'s wait ⊇ acquire; nothing about the reset store -/
def PingPongOrders.sufficient (o : PingPongOrders) : Bool := o.set.isRel && o.wait.isAcq

/-- where the caller thread is in `next_sync`: before the reset store / running the body itself / in `_block.wait` / about to read
the value -/
inductive CPc where
  | start | body | wait | read
  deriving DecidableEq, Repr, Inhabited

/-- machine state; `clk seen` are indexed by thread id; `hist` is `_block`'s modification order (value 0 = false, 1 = true);
`wr rd` the FastTrack record of the promise's fields; `bodyAt` the thread (≠ caller) the body currently runs on -/
structure St where
  clk : Nat → VC
  seen : Nat → Nat
  hist : List Msg
  cpc : CPc
  bodyAt : Option Nat
  wr : Nat × Nat
  rd : List (Nat × Nat)
  log : List (Nat × Nat)
  raced : Bool

def St.init : St :=
  { clk := VC.init, seen := fun _ => 0, hist := [Msg.init], cpc := CPc.start, bodyAt := none, wr := (0, 0), rd := [], log := [],
    raced := false }

def setCpc (s : St) (p : CPc) : St := { s with cpc := p }
def setBody (s : St) (b : Option Nat) : St := { s with bodyAt := b }

/-- index of the message a load of `t` reads under stale-read choice `c`: never older than `seen t` (coherence) -/
def readIdx (s : St) (t c : Nat) : Nat := min (s.seen t + c) (s.hist.length - 1)
def readMsg (s : St) (t c : Nat) : Msg := s.hist.getD (readIdx s t c) Msg.init

def doLoad (ord : Order) (s : St) (t c : Nat) : St :=
  { s with
    seen := upd s.seen t (readIdx s t c)
    clk := upd s.clk t (acqVc ord (s.clk t) (readMsg s t c).relSeqVc) }

def doStore (ord : Order) (v : Nat) (s : St) (t : Nat) : St :=
  { s with
    hist := s.hist ++ [⟨v, relVc ord (s.clk t), relVc ord (s.clk t)⟩]
    seen := upd s.seen t s.hist.length
    clk := upd s.clk t (tickIf ord (s.clk t) t) }

def ordW (s : St) (t : Nat) : Bool := decide (s.wr.2 ≤ s.clk t s.wr.1)
def ordR (s : St) (t : Nat) : Bool := s.rd.all (fun e => decide (e.2 ≤ s.clk t e.1))

def doRead (s : St) (t : Nat) : St :=
  { s with
    rd := (t, s.clk t t) :: s.rd
    log := (t, s.clk t t) :: s.log
    raced := s.raced || !ordW s t }

def doWrite (s : St) (t : Nat) : St :=
  { s with
    wr := (t, s.clk t t)
    rd := []
    log := (t, s.clk t t) :: s.log
    raced := s.raced || !(ordW s t && ordR s t) }

/-- the assumed synchronising hand-over of the suspended body from thread `t` to thread `u` -/
def doHop (s : St) (t u : Nat) : St :=
  { s with clk := upd (upd s.clk u (VC.join (s.clk u) (s.clk t))) t (VC.tick (s.clk t) t) }

/-- `caller`: the thread that calls `next_sync`; `hop t u`: the body may move from thread `t` to thread `u` -/
structure Cfg where
  caller : Nat
  hop : Nat → Nat → Bool

/-- `next_sync` up to the resumption of the body: the caller's plain writes, the reset store -/
def stepReset (o : PingPongOrders) (s : St) (t : Nat) : St := setCpc (doStore o.reset 0 (doWrite s t) t) CPc.body
/-- the body reaches `co_yield` on the caller's own thread: value write, `unblock_sync` -/
def stepYieldC (o : PingPongOrders) (s : St) (t : Nat) : St := setCpc (doStore o.set 1 (doWrite s t) t) CPc.wait
/-- the body reaches `co_yield` on thread `t ≠ caller` -/
def stepYieldB (o : PingPongOrders) (s : St) (t : Nat) : St := setBody (doStore o.set 1 (doWrite s t) t) none
def stepHopC (s : St) (t u : Nat) : St := setBody (setCpc (doHop s t u) CPc.wait) (some u)
def stepHopB (s : St) (t u : Nat) : St := setBody (doHop s t u) (some u)
/-- `_block.wait(false, oW)`: one load; it returns (`CPc.read`) iff the message read is `true` -/
def stepWait (o : PingPongOrders) (s : St) (t c : Nat) : St :=
  setCpc (doLoad o.wait s t c) (if (readMsg s t c).val = 0 then CPc.wait else CPc.read)
def stepRead (s : St) (t : Nat) : St := setCpc (doRead s t) CPc.start

/-- the body on the caller's thread: choice 0/1 = plain read / write, 2 = yield, `u + 3` = suspend and continue on thread `u` -/
def stepBodyC (o : PingPongOrders) (cfg : Cfg) (s : St) (c : Nat) : St :=
  match c with
  | 0 => doRead s cfg.caller
  | 1 => doWrite s cfg.caller
  | 2 => stepYieldC o s cfg.caller
  | u + 3 => if cfg.hop cfg.caller u = true ∧ u ≠ cfg.caller then stepHopC s cfg.caller u else s

/-- the body on thread `t ≠ caller`: same choices; a hop never targets the (blocked) caller -/
def stepBodyB (o : PingPongOrders) (cfg : Cfg) (s : St) (t c : Nat) : St :=
  match c with
  | 0 => doRead s t
  | 1 => doWrite s t
  | 2 => stepYieldB o s t
  | u + 3 => if cfg.hop t u = true ∧ u ≠ cfg.caller ∧ u ≠ t then stepHopB s t u else s

def stepCaller (o : PingPongOrders) (cfg : Cfg) (s : St) (c : Nat) : St :=
  match s.cpc with
  | CPc.start => stepReset o s cfg.caller
  | CPc.body => stepBodyC o cfg s c
  | CPc.wait => stepWait o s cfg.caller c
  | CPc.read => stepRead s cfg.caller

/-- one schedule entry `(tid, choice)`; a thread with nothing to do stutters -/
def step (o : PingPongOrders) (cfg : Cfg) (s : St) (e : Nat × Nat) : St :=
  if e.1 = cfg.caller then stepCaller o cfg s e.2
  else if s.bodyAt = some e.1 then stepBodyB o cfg s e.1 e.2
  else s

def run (o : PingPongOrders) (cfg : Cfg) (sched : List (Nat × Nat)) : St := sched.foldl (step o cfg) St.init

/-! list facts -/

theorem mem_drop_mono {α : Type} {l : List α} {i j : Nat} (h : i ≤ j) {m : α} (hm : m ∈ l.drop j) : m ∈ l.drop i := by
  have : l.drop j = (l.drop i).drop (j - i) := by
    rw [List.drop_drop]; congr 1; omega
  rw [this] at hm
  exact List.mem_of_mem_drop hm

theorem getD_mem_drop {α : Type} {l : List α} {i j : Nat} (hij : i ≤ j) (hj : j < l.length) (d : α) :
    l.getD j d ∈ l.drop i := by
  rw [List.getD_eq_getElem?_getD, List.getElem?_eq_getElem hj, Option.getD_some]
  rw [List.mem_drop_iff_getElem]
  exact ⟨j - i, by omega, by congr 1; omega⟩

/-- The token argument.  The right to touch the promise's fields is with the caller whenever it is not in `wait` (`tokC`), with the
thread the body runs on (`tokB`, never the caller: `notC`), or — body suspended at its `co_yield`, caller still in `wait` — in the
`true` message the caller can still read (`msg`).  Of the messages the caller can still read (`hist.drop (seen caller)`: coherence)
none is `true` while the body is still running (`zero`), so `wait` cannot return early; all FastTrack records are in the ghost log. -/
structure Inv (cfg : Cfg) (s : St) : Prop where
  nr : s.raced = false
  seenlt : s.seen cfg.caller < s.hist.length
  wrlog : s.wr.2 = 0 ∨ s.wr ∈ s.log
  rdlog : ∀ e ∈ s.rd, e ∈ s.log
  tokC : s.cpc ≠ CPc.wait → s.bodyAt = none ∧ ∀ e ∈ s.log, e.2 ≤ s.clk cfg.caller e.1
  notC : ∀ u, s.bodyAt = some u → u ≠ cfg.caller
  tokB : ∀ u, s.bodyAt = some u → ∀ e ∈ s.log, e.2 ≤ s.clk u e.1
  zero : (s.cpc = CPc.body ∨ s.bodyAt ≠ none) → ∀ m ∈ s.hist.drop (s.seen cfg.caller), m.val = 0
  msg : s.cpc = CPc.wait → s.bodyAt = none →
    ∀ m ∈ s.hist.drop (s.seen cfg.caller), m.val ≠ 0 → ∀ e ∈ s.log, e.2 ≤ m.relSeqVc e.1

theorem inv_init (cfg : Cfg) : Inv cfg St.init := by
  refine ⟨?_, ?_, ?_, ?_, ?_, ?_, ?_, ?_, ?_⟩ <;> simp [St.init, Msg.init]

macro "inv_close" : tactic => `(tactic|
  (refine ⟨?_, ?_, ?_, ?_, ?_, ?_, ?_, ?_, ?_⟩ <;>
    simp only [stepReset, stepYieldC, stepYieldB, stepHopC, stepHopB, stepWait, stepRead, setCpc, setBody, doHop,
      doWrite, doRead, doStore, doLoad, upd_same, List.drop_left, List.length_append, List.length_singleton,
      List.mem_singleton, forall_eq] <;>
    (try simp only [ordW, ordR, List.all_eq_true, decide_eq_true_eq] at *) <;>
    grind [upd_apply, upd_apply2, VC.join_apply, VC.bot_apply, relVc_apply, acqVc_apply, tickIf_apply, VC.tick]))

theorem inv_readC {cfg : Cfg} {s : St} (h : Inv cfg s) (hp : s.cpc ≠ CPc.wait) : Inv cfg (doRead s cfg.caller) := by
  obtain ⟨nr, seenlt, wrlog, rdlog, tokC, notC, tokB, zero, msg⟩ := h
  inv_close

theorem inv_writeC {cfg : Cfg} {s : St} (h : Inv cfg s) (hp : s.cpc ≠ CPc.wait) : Inv cfg (doWrite s cfg.caller) := by
  obtain ⟨nr, seenlt, wrlog, rdlog, tokC, notC, tokB, zero, msg⟩ := h
  inv_close

theorem inv_readB {cfg : Cfg} {s : St} (h : Inv cfg s) {u : Nat} (hp : s.bodyAt = some u) : Inv cfg (doRead s u) := by
  obtain ⟨nr, seenlt, wrlog, rdlog, tokC, notC, tokB, zero, msg⟩ := h
  inv_close

theorem inv_writeB {cfg : Cfg} {s : St} (h : Inv cfg s) {u : Nat} (hp : s.bodyAt = some u) : Inv cfg (doWrite s u) := by
  obtain ⟨nr, seenlt, wrlog, rdlog, tokC, notC, tokB, zero, msg⟩ := h
  inv_close


theorem inv_resetStore {cfg : Cfg} {s : St} (h : Inv cfg s) (ord : Order) (hp : s.cpc ≠ CPc.wait) :
    Inv cfg (setCpc (doStore ord 0 s cfg.caller) CPc.body) := by
  obtain ⟨nr, seenlt, wrlog, rdlog, tokC, notC, tokB, zero, msg⟩ := h
  inv_close

theorem inv_yieldStoreC {cfg : Cfg} {s : St} (h : Inv cfg s) {ord : Order} (ho : ord.isRel = true) (hp : s.cpc ≠ CPc.wait) :
    Inv cfg (setCpc (doStore ord 1 s cfg.caller) CPc.wait) := by
  obtain ⟨nr, seenlt, wrlog, rdlog, tokC, notC, tokB, zero, msg⟩ := h
  inv_close

theorem inv_yieldStoreB {cfg : Cfg} {s : St} (h : Inv cfg s) {ord : Order} (ho : ord.isRel = true) {u : Nat}
    (hp : s.bodyAt = some u) : Inv cfg (setBody (doStore ord 1 s u) none) := by
  have hne : cfg.caller ≠ u := fun hc => h.notC u hp hc.symm
  have hz := h.zero (Or.inr (by rw [hp]; simp))
  obtain ⟨nr, seenlt, wrlog, rdlog, tokC, notC, tokB, zero, msg⟩ := h
  refine ⟨?_, ?_, ?_, ?_, ?_, ?_, ?_, ?_, ?_⟩ <;>
    simp only [setBody, doStore, upd_other _ _ hne, List.drop_append_of_le_length (Nat.le_of_lt seenlt), List.mem_append,
      List.mem_singleton, List.length_append, List.length_singleton, or_imp, forall_and, forall_eq] <;>
    grind [upd_apply, upd_apply2, relVc_apply, tickIf_apply]

theorem inv_hopC {cfg : Cfg} {s : St} (h : Inv cfg s) {u : Nat} (hp : s.cpc = CPc.body) (hne : u ≠ cfg.caller) :
    Inv cfg (stepHopC s cfg.caller u) := by
  obtain ⟨nr, seenlt, wrlog, rdlog, tokC, notC, tokB, zero, msg⟩ := h
  inv_close

theorem inv_hopB {cfg : Cfg} {s : St} (h : Inv cfg s) {t u : Nat} (hp : s.bodyAt = some t) (hne : u ≠ cfg.caller)
    (hut : u ≠ t) : Inv cfg (stepHopB s t u) := by
  have hne : cfg.caller ≠ t := fun hc => h.notC t hp hc.symm
  obtain ⟨nr, seenlt, wrlog, rdlog, tokC, notC, tokB, zero, msg⟩ := h
  inv_close

theorem inv_read {cfg : Cfg} {s : St} (h : Inv cfg s) (hp : s.cpc = CPc.read) : Inv cfg (stepRead s cfg.caller) := by
  obtain ⟨nr, seenlt, wrlog, rdlog, tokC, notC, tokB, zero, msg⟩ := h
  inv_close


theorem readIdx_facts {cfg : Cfg} {s : St} (h : Inv cfg s) (c : Nat) :
    readIdx s cfg.caller c < s.hist.length ∧ readMsg s cfg.caller c ∈ s.hist.drop (s.seen cfg.caller) ∧
      ∀ m ∈ s.hist.drop (readIdx s cfg.caller c), m ∈ s.hist.drop (s.seen cfg.caller) := by
  have hl := h.seenlt
  have h1 : readIdx s cfg.caller c < s.hist.length := by unfold readIdx; omega
  have h2 : s.seen cfg.caller ≤ readIdx s cfg.caller c := by unfold readIdx; omega
  exact ⟨h1, getD_mem_drop h2 h1 _, fun m hm => mem_drop_mono h2 hm⟩

theorem inv_wait {o : PingPongOrders} {cfg : Cfg} {s : St} (h : Inv cfg s) (ho : o.wait.isAcq = true) (c : Nat)
    (hp : s.cpc = CPc.wait) : Inv cfg (stepWait o s cfg.caller c) := by
  obtain ⟨hi, hm, hsub⟩ := readIdx_facts h c
  obtain ⟨nr, seenlt, wrlog, rdlog, tokC, notC, tokB, zero, msg⟩ := h
  have hrm0 : s.bodyAt ≠ none → (readMsg s cfg.caller c).val = 0 := fun hb => zero (Or.inr hb) _ hm
  have hrm1 : s.bodyAt = none → (readMsg s cfg.caller c).val ≠ 0 →
      ∀ e ∈ s.log, e.2 ≤ (readMsg s cfg.caller c).relSeqVc e.1 := fun hb hv => msg hp hb _ hm hv
  refine ⟨?_, ?_, ?_, ?_, ?_, ?_, ?_, ?_, ?_⟩ <;>
    simp only [stepWait, setCpc, doLoad, upd_same] <;>
    generalize readMsg s cfg.caller c = rm at * <;>
    generalize readIdx s cfg.caller c = ri at * <;>
    grind [upd_apply, upd_apply2, acqVc_apply]

theorem inv_step {o : PingPongOrders} (cfg : Cfg) (hS : o.set.isRel = true) (hW : o.wait.isAcq = true) {s : St}
    (h : Inv cfg s) (e : Nat × Nat) : Inv cfg (step o cfg s e) := by
  unfold step
  split
  · unfold stepCaller
    split
    · next hpc =>
      have hw : s.cpc ≠ CPc.wait := by rw [hpc]; decide
      exact inv_resetStore (inv_writeC h hw) _ hw
    · next hpc =>
      have hw : s.cpc ≠ CPc.wait := by rw [hpc]; decide
      unfold stepBodyC
      split
      · exact inv_readC h hw
      · exact inv_writeC h hw
      · exact inv_yieldStoreC (inv_writeC h hw) hS hw
      · split
        · next hc => exact inv_hopC h hpc hc.2
        · exact h
    · next hpc => exact inv_wait h hW _ hpc
    · next hpc => exact inv_read h hpc
  · split
    · next hb =>
      unfold stepBodyB
      split
      · exact inv_readB h hb
      · exact inv_writeB h hb
      · exact inv_yieldStoreB (inv_writeB h hb) hS hb
      · split
        · next hc => exact inv_hopB h hb hc.2.1 hc.2.2
        · exact h
    · exact h

theorem inv_run {o : PingPongOrders} (cfg : Cfg) (hS : o.set.isRel = true) (hW : o.wait.isAcq = true)
    (sched : List (Nat × Nat)) : Inv cfg (run o cfg sched) := by
  unfold run
  suffices ∀ s, Inv cfg s → Inv cfg (sched.foldl (step o cfg) s) from this _ (inv_init cfg)
  induction sched with
  | nil => intro s h; exact h
  | cons e es ih => intro s h; exact ih _ (inv_step cfg hS hW h e)


theorem sufficient_iff (o : PingPongOrders) : o.sufficient = true ↔ (o.set.isRel = true ∧ o.wait.isAcq = true) := by
  simp only [PingPongOrders.sufficient, Bool.and_eq_true]

/-- **Main theorem** (sufficiency): if `unblock_sync`'s store releases and `next_sync`'s wait acquires, no run races on the promise's
fields — any number of rounds, the body finishing each round on any thread after any chain of hops, every schedule and every
admissible stale read; the order of the reset store does not matter. -/
theorem pingpong_race_free (o : PingPongOrders) (h : o.sufficient = true) :
    ∀ (cfg : Cfg) (sched : List (Nat × Nat)), (run o cfg sched).raced = false := by
  obtain ⟨hS, hW⟩ := (sufficient_iff o).mp h
  exact fun cfg sched => (inv_run cfg hS hW sched).nr

/-- in particular with the orders of the source: relaxed reset, release set, acquire wait -/
theorem pingpong_relaxed_reset_suffices :
    ∀ (cfg : Cfg) (sched : List (Nat × Nat)), (run ⟨Order.relaxed, Order.release, Order.acquire⟩ cfg sched).raced = false :=
  pingpong_race_free _ rfl

/-- Whenever the caller is not blocked in `wait` (it prepares a round, runs the body itself, or is about to read the value), the body
is not running anywhere else and the caller has EVERY plain access of all earlier rounds — its own and the body's, on whatever
threads — in its clock. -/
theorem pingpong_caller_sees_round (o : PingPongOrders) (h : o.sufficient = true) (cfg : Cfg) (sched : List (Nat × Nat))
    (hc : (run o cfg sched).cpc ≠ CPc.wait) :
    (run o cfg sched).bodyAt = none ∧ ∀ e ∈ (run o cfg sched).log, e.2 ≤ (run o cfg sched).clk cfg.caller e.1 := by
  obtain ⟨hS, hW⟩ := (sufficient_iff o).mp h
  exact (inv_run cfg hS hW sched).tokC hc

/-- …and the thread that runs the body has them too -/
theorem pingpong_body_sees_round (o : PingPongOrders) (h : o.sufficient = true) (cfg : Cfg) (sched : List (Nat × Nat)) (u : Nat)
    (hb : (run o cfg sched).bodyAt = some u) :
    u ≠ cfg.caller ∧ ∀ e ∈ (run o cfg sched).log, e.2 ≤ (run o cfg sched).clk u e.1 := by
  obtain ⟨hS, hW⟩ := (sufficient_iff o).mp h
  exact ⟨(inv_run cfg hS hW sched).notC u hb, (inv_run cfg hS hW sched).tokB u hb⟩

/-- write-read coherence in the machine: right after the reset store the only message the caller can still read is that store -/
theorem reset_hides_older (o : PingPongOrders) (s : St) (t : Nat) :
    (stepReset o s t).hist.drop ((stepReset o s t).seen t) = [⟨0, relVc o.reset ((doWrite s t).clk t), relVc o.reset ((doWrite s t).clk t)⟩] := by
  simp [stepReset, setCpc, doStore, doWrite]

/-! ### necessity -/

/-- caller = thread 0, every hop allowed -/
def cfg0 : Cfg := { caller := 0, hop := fun _ _ => true }

/-- one round whose body finishes on thread 1: reset, hop 0→1, yield on 1, `wait` reads the newest message, read the value -/
def schedRound : List (Nat × Nat) := [(0, 0), (0, 4), (1, 2), (0, 1), (0, 0)]

theorem pingpong_needs_release :
    (run ⟨Order.relaxed, Order.relaxed, Order.acquire⟩ cfg0 schedRound).raced = true := by decide

theorem pingpong_needs_acquire :
    (run ⟨Order.relaxed, Order.release, Order.relaxed⟩ cfg0 schedRound).raced = true := by decide

/-- the orders of the source on the same schedule; and a `wait` that reads its own reset store (choice 0) does not proceed -/
example : (run ⟨Order.relaxed, Order.release, Order.acquire⟩ cfg0 schedRound).raced = false
    ∧ (run ⟨Order.relaxed, Order.release, Order.acquire⟩ cfg0 schedRound).cpc = CPc.start
    ∧ (run ⟨Order.relaxed, Order.release, Order.acquire⟩ cfg0 [(0, 0), (0, 4), (1, 2), (0, 0)]).cpc = CPc.wait := by decide

theorem release_necessary (o : PingPongOrders) (h : o.set.isRel = false) :
    ∃ cfg sched, (run o cfg sched).raced = true := by
  refine ⟨cfg0, schedRound, ?_⟩
  obtain ⟨r, s, w⟩ := o
  cases r <;> cases s <;> cases w <;> first | (simp [Order.isRel] at h; done) | rfl

theorem acquire_necessary (o : PingPongOrders) (h : o.wait.isAcq = false) :
    ∃ cfg sched, (run o cfg sched).raced = true := by
  refine ⟨cfg0, schedRound, ?_⟩
  obtain ⟨r, s, w⟩ := o
  cases r <;> cases s <;> cases w <;> first | (simp [Order.isAcq] at h; done) | rfl

/-- **Main theorem**: race free for all round counts and schedules iff `oS ⊇ release ∧ oW ⊇ acquire` (nothing is asked of the
reset store) -/
theorem pingpong_race_free_iff (o : PingPongOrders) :
    (∀ (cfg : Cfg) (sched : List (Nat × Nat)), (run o cfg sched).raced = false) ↔ (o.set.isRel = true ∧ o.wait.isAcq = true) := by
  constructor
  · intro h
    refine ⟨?_, ?_⟩
    · cases hr : o.set.isRel with
      | true => rfl
      | false => obtain ⟨cfg, sched, hx⟩ := release_necessary o hr; rw [h cfg sched] at hx; cases hx
    · cases hr : o.wait.isAcq with
      | true => rfl
      | false => obtain ⟨cfg, sched, hx⟩ := acquire_necessary o hr; rw [h cfg sched] at hx; cases hx
  · intro h; exact pingpong_race_free o ((sufficient_iff o).mpr h)

end Cocls.PingPong
