/-
Model of the coroutine storage policies of cocls (C19):

* `with_allocator.h`  — `default_storage`, `custom_allocator_base` (a coroutine creation is `storage.alloc(sz)`,
  its destruction `Storage::dealloc(ptr, sz)` with the same `sz`);
* `coro_storage.h`    — `reusable_storage`, `reusable_storage_mtsafe` (sequential view; the interleaving model is
  `StorageMt.lean`), `placement_alloc`, `reusable_buffer_storage<std::vector<Item>>`,
  `promise_extra_storage<T, Alloc>` (config field `extra = sizeof(T)`; `0` = no wrapper);
* `alloca_storage.h`  — `stack_storage` (shared `state` variable, one buffer per object, flag byte);
* `coro_storage.h` again — `static_storage<space>` (own buffer, trailer pointer, heap fall-back behind an `assert`;
  its `dealloc` is a non-static member, so it is driven through the raw API / an adapter that supplies the object),
  and the move constructor / move assignment of `reusable_storage` (a second storage object `other` that may own a
  block of its own: `moveOut`, `swapobj`).

One machine, the policy is part of the configuration.  The heap is abstract: `operator new` returns a block with
a fresh identity (`next`), `operator delete` removes it from `live` and is recorded in `dels` — deleting a block
that is not live (double free, foreign pointer) is *representable* (it shows up as a second entry in `dels`), so
"released exactly once" is a theorem and not a modelling assumption.  Every frame starts at offset 0 of its
block, hence two frames overlap iff they sit in the same block.

Ghost fields (`dels`, `log`, `born`, `died`, `ok`) are never consulted by the control flow.  `ok` records that the
caller respected the documented contract so far (the single-block policies `reusable_storage`,
`placement_alloc`, `reusable_buffer_storage` and each `stack_storage` buffer serve one frame at a time —
none of them has a busy flag —, `placement_alloc`'s buffer is large enough, only live frames are released).
-/
namespace Cocls.Storage

/-- where a frame was placed -/
inductive Blk where
  | null                 -- `nullptr` (reusable_storage / an empty vector asked for 0 bytes)
  | heap (b : Nat)       -- heap block number `b` (numbered in the order of their `operator new`)
  | ext (k : Nat)        -- caller supplied memory: placement buffer (0), buffer of `stack_storage` object `k`
  deriving DecidableEq, Repr, Inhabited

inductive HEv where
  | new (b sz : Nat)
  | del (b : Nat)
  deriving DecidableEq, Repr

structure Heap where
  next : Nat := 0
  live : List (Nat × Nat) := []     -- (block, size)
  dels : List Nat := []             -- ghost: every `operator delete` performed
  log : List HEv := []              -- ghost: event log (printing only)
  deriving Repr

/-- `::operator new(sz)`; the new block is `h.next` -/
def Heap.new (h : Heap) (sz : Nat) : Heap :=
  { next := h.next + 1, live := h.live ++ [(h.next, sz)], dels := h.dels, log := h.log ++ [HEv.new h.next sz] }

/-- `::operator delete(b)` -/
def Heap.del (h : Heap) (b : Nat) : Heap :=
  { next := h.next, live := h.live.filter (fun p => p.1 != b), dels := h.dels ++ [b], log := h.log ++ [HEv.del b] }

/-- `::operator delete(p)` where `p` may be `nullptr` -/
def Heap.delOpt (h : Heap) : Option Nat → Heap
  | none => h
  | some b => h.del b

def Heap.ids (h : Heap) : List Nat := h.live.map (·.1)

def Heap.sizeOf (h : Heap) (b : Nat) : Option Nat := (h.live.find? (fun p => p.1 == b)).map (·.2)

inductive Policy where
  | default
  | reusable
  | mtsafe
  | stack (init : Nat)          -- initial value of the shared state variable
  | placement (bufsz : Nat)     -- size of the caller's buffer
  | buffer (itemsz : Nat)       -- `reusable_buffer_storage<std::vector<Item>>`, `itemsz = sizeof(Item)`
  | static (space : Nat) (asserts : Bool)   -- `static_storage<space>`; `asserts`: built without `NDEBUG`
  deriving DecidableEq, Repr

structure Cfg where
  pol : Policy
  extra : Nat := 0              -- `sizeof(T)` of `promise_extra_storage<T, pol>`; 0 = the bare policy
  deriving DecidableEq, Repr

/-- bytes the policy itself puts behind the frame: owner pointer (mtsafe), flag byte (stack) -/
def trailer : Policy → Nat
  | .mtsafe => 8
  | .static _ _ => 8
  | .stack _ => 1
  | _ => 0

/-- what a frame of `sz` bytes needs from its block -/
def need (c : Cfg) (sz : Nat) : Nat := sz + c.extra + trailer c.pol

structure Frame where
  id : Nat
  blk : Blk
  sz : Nat          -- the size the coroutine asked for
  priv : Bool       -- content of the trailer / flag byte: `dealloc` must `operator delete` the block
  deriving DecidableEq, Repr

structure State where
  cfg : Cfg
  heap : Heap := {}
  frames : List Frame := []
  nextFrame : Nat := 0
  ptr : Option Nat := none     -- `reusable_storage::_ptr` / the vector's data block
  cap : Nat := 0               -- `reusable_storage::_capacity` (bytes) / the vector's `capacity()` (items)
  busy : Bool := false         -- `reusable_storage_mtsafe::_busy`
  vsize : Nat := 0             -- the vector's `size()` (items)
  sstate : Nat := 0            -- `stack_storage`: the shared state variable
  objs : List Nat := []        -- `stack_storage` objects: `_alloc_size` of each (= size of its buffer `ext k`)
  inventory : Option Nat := none   -- `promise_extra_storage::inventory`: the frame whose extra object it points to
  optr : Option Nat := none    -- a second `reusable_storage` object (target / source of moves): its `_ptr`
  ocap : Nat := 0              -- … and its `_capacity`
  -- ghost
  born : List Nat := []        -- frames created (= constructions of the extra object)
  died : List Nat := []        -- frames released (= destructions of the extra object)
  ok : Bool := true            -- the caller respected the contract so far
  deriving Repr

inductive Op where
  | alloc (k : Nat) (sz : Nat)   -- frame of `sz` bytes through object `k` (`k` matters for `stack_storage` only)
  | free (id : Nat)              -- the frame is destroyed: `Storage::dealloc(ptr, sz)`
  | newobj                       -- `stack_storage s(state); s = alloca(s);`
  | bufset (n : Nat)             -- the owner of the vector resizes it between two frames
  | destroy                      -- destructor of the storage object(s) (and of the vector)
  | moveOut                      -- `reusable_storage b(std::move(a))` into a re-constructed `other`, or `other = std::move(a)`;
                                 -- the receiving object is the storage from now on, the moved-from one becomes `other`
  | swapobj                      -- from now on the caller uses `other` (no move, both objects keep what they own)
  | allocThrow (k : Nat) (sz : Nat)  -- `promise_extra_storage::alloc` whose factory / `T`'s constructor throws
  | allocFail (k : Nat) (sz : Nat)   -- a request during which `operator new` (if it is called at all) throws `bad_alloc`
  deriving DecidableEq, Repr

inductive Res where
  | alloc (id : Nat) (blk : Blk)
  | free (id : Nat)
  | obj (k : Nat) (size : Nat)
  | unit
  | rejected                     -- the library's `assert` fired: nothing happened
  | failed                       -- `std::bad_alloc` left `alloc`: no frame
  | bad
  deriving DecidableEq, Repr

def init (c : Cfg) : State :=
  { cfg := c, sstate := match c.pol with | .stack i => i | _ => 0 }

def State.ptrBlk (s : State) : Blk :=
  match s.ptr with
  | some b => Blk.heap b
  | none => Blk.null

/-- size of caller supplied memory `ext k` -/
def State.extSize (s : State) (k : Nat) : Nat :=
  match s.cfg.pol with
  | .placement n => if k = 0 then n else 0
  | .static n _ => if k = 0 then n else 0
  | .stack _ => s.objs.getD k 0
  | _ => 0

/-- record the new frame; with `promise_extra_storage` this is also where `T` is constructed behind the frame
and `inventory` is pointed at it -/
def addFrame (s : State) (blk : Blk) (sz : Nat) (priv : Bool) : State :=
  { s with frames := s.frames ++ [⟨s.nextFrame, blk, sz, priv⟩], nextFrame := s.nextFrame + 1,
           born := s.born ++ [s.nextFrame], inventory := some s.nextFrame }

/-- `reusable_storage::alloc(n)`: `if (n > _capacity) { delete _ptr; _ptr = new(n); _capacity = n; }` -/
def rsAlloc (s : State) (n : Nat) : State :=
  if n > s.cap then
    { s with heap := (s.heap.delOpt s.ptr).new n, ptr := some s.heap.next, cap := n }
  else s

/-- `std::vector<Item>::resize(n)` as libstdc++ does it: reallocation iff `n > capacity()`, new capacity
`size + max(size, n - size)`, the new block is obtained before the old one is released -/
def vresize (s : State) (itemsz n : Nat) : State :=
  if n > s.cap then
    { s with heap := ((s.heap.new ((s.vsize + max s.vsize (n - s.vsize)) * itemsz)).delOpt s.ptr),
             ptr := some s.heap.next, cap := s.vsize + max s.vsize (n - s.vsize), vsize := n }
  else { s with vsize := n }

def allocDefault (s : State) (sz : Nat) : State :=
  addFrame { s with heap := s.heap.new (need s.cfg sz) } (Blk.heap s.heap.next) sz true

def allocReusable (s : State) (sz : Nat) : State :=
  addFrame { rsAlloc s (need s.cfg sz) with ok := s.ok && s.frames.isEmpty }
    (rsAlloc s (need s.cfg sz)).ptrBlk sz false

/-- `reusable_storage_mtsafe::alloc` (one thread at a time; all interleavings: `StorageMt.lean`) -/
def allocMtsafe (s : State) (sz : Nat) : State :=
  if s.busy then
    addFrame { s with heap := s.heap.new (need s.cfg sz) } (Blk.heap s.heap.next) sz true
  else
    addFrame { rsAlloc s (need s.cfg sz) with busy := true } (rsAlloc s (need s.cfg sz)).ptrBlk sz false

/-- `stack_storage::alloc` on object `k`: in place when `sz + 1 ≤ _alloc_size`, else heap + remember the size -/
def allocStack (s : State) (k sz asz : Nat) : State :=
  if need s.cfg sz ≤ asz then
    addFrame { s with ok := s.ok && s.frames.all (fun f => f.blk != Blk.ext k) } (Blk.ext k) sz false
  else
    addFrame { s with heap := s.heap.new (need s.cfg sz), sstate := need s.cfg sz } (Blk.heap s.heap.next) sz true

def allocPlacement (s : State) (sz bufsz : Nat) : State :=
  addFrame { s with ok := s.ok && s.frames.isEmpty && decide (need s.cfg sz ≤ bufsz) } (Blk.ext 0) sz false

/-- `static_storage::alloc`: the own buffer when frame + trailer fit, else (reachable only without the `assert`) a
heap block; `dealloc` tells them apart by comparing with the buffer's address -/
def allocStatic (s : State) (sz space : Nat) : State :=
  if need s.cfg sz ≤ space then
    addFrame { s with ok := s.ok && s.frames.all (fun f => f.blk != Blk.ext 0) } (Blk.ext 0) sz false
  else
    addFrame { s with heap := s.heap.new (need s.cfg sz) } (Blk.heap s.heap.next) sz true

def bufResized (s : State) (itemsz sz : Nat) : State :=
  if s.vsize < (need s.cfg sz + itemsz - 1) / itemsz then vresize s itemsz ((need s.cfg sz + itemsz - 1) / itemsz) else s

def allocBuffer (s : State) (sz itemsz : Nat) : State :=
  addFrame { bufResized s itemsz sz with ok := s.ok && s.frames.isEmpty } (bufResized s itemsz sz).ptrBlk sz false

def stepAlloc (s : State) (k sz : Nat) : State × Res :=
  match s.cfg.pol with
  | .default => (allocDefault s sz, Res.alloc s.nextFrame (Blk.heap s.heap.next))
  | .reusable => (allocReusable s sz, Res.alloc s.nextFrame (rsAlloc s (need s.cfg sz)).ptrBlk)
  | .mtsafe => (allocMtsafe s sz,
      Res.alloc s.nextFrame (if s.busy then Blk.heap s.heap.next else (rsAlloc s (need s.cfg sz)).ptrBlk))
  | .stack _ =>
      match s.objs[k]? with
      | none => ({ s with ok := false }, Res.bad)
      | some asz => (allocStack s k sz asz,
          Res.alloc s.nextFrame (if need s.cfg sz ≤ asz then Blk.ext k else Blk.heap s.heap.next))
  | .placement bufsz => (allocPlacement s sz bufsz, Res.alloc s.nextFrame (Blk.ext 0))
  | .buffer itemsz => (allocBuffer s sz itemsz, Res.alloc s.nextFrame (bufResized s itemsz sz).ptrBlk)
  | .static space asserts =>
      if asserts && decide (space < need s.cfg sz) then (s, Res.rejected)
      else (allocStatic s sz space,
          Res.alloc s.nextFrame (if need s.cfg sz ≤ space then Blk.ext 0 else Blk.heap s.heap.next))

/-- what `dealloc` does with the memory: `operator delete` for a private heap block (decided by the trailer /
flag byte), nothing otherwise; `reusable_storage_mtsafe` clears `_busy` when the trailer names an owner -/
def release (s : State) (f : Frame) : State :=
  if f.priv then
    match f.blk with
    | Blk.heap b => { s with heap := s.heap.del b }
    | _ => s
  else if s.cfg.pol = Policy.mtsafe then { s with busy := false }
  else s

def stepFree (s : State) (id : Nat) : State × Res :=
  match s.frames.find? (fun f => f.id == id) with
  | none => ({ s with ok := false }, Res.bad)
  | some f =>
      (release { s with frames := s.frames.erase f, died := s.died ++ [id] } f, Res.free id)

def stepNewobj (s : State) : State × Res :=
  match s.cfg.pol with
  | .stack _ => ({ s with objs := s.objs ++ [s.sstate] }, Res.obj s.objs.length s.sstate)
  | _ => (s, Res.bad)

def stepBufset (s : State) (n : Nat) : State × Res :=
  match s.cfg.pol with
  | .buffer itemsz => ({ vresize s itemsz n with ok := s.ok && s.frames.isEmpty }, Res.unit)
  | _ => (s, Res.bad)

/-- `~reusable_storage()` / the vector's destructor: the own block is released; the other policies own nothing -/
def stepDestroy (s : State) : State × Res :=
  ({ s with heap := (s.heap.delOpt s.optr).delOpt s.ptr, ptr := none, cap := 0, vsize := 0, busy := false,
            optr := none, ocap := 0, ok := s.ok && s.frames.isEmpty }, Res.unit)

/-- move construction (the old `other` is destroyed first, then re-constructed from the storage) and move assignment
(`other = std::move(storage)`) have the same effect: whatever `other` owned is deleted, the block of the storage —
including a frame that may live in it — now belongs to the receiving object, which is the storage from now on;
the moved-from object is empty and plays `other` -/
def stepMoveOut (s : State) : State × Res :=
  match s.cfg.pol with
  | .reusable => ({ s with heap := s.heap.delOpt s.optr, optr := none, ocap := 0 }, Res.unit)
  | _ => (s, Res.bad)

def stepSwapobj (s : State) : State × Res :=
  match s.cfg.pol with
  | .reusable => ({ s with ptr := s.optr, cap := s.ocap, optr := s.ptr, ocap := s.cap, vsize := 0,
                           ok := s.ok && s.frames.isEmpty }, Res.unit)
  | _ => (s, Res.bad)

/-- forget the bookkeeping of a frame that never came into existence -/
def State.sameFramesAs (t s : State) : State :=
  { t with nextFrame := s.nextFrame, born := s.born, died := s.died, inventory := s.inventory }

/-- `promise_extra_storage::alloc` when constructing `T` throws (repaired code): the memory obtained from the inner
policy is given back through the inner `dealloc` before the exception leaves; no frame, no extra object -/
def stepAllocThrow (s : State) (k sz : Nat) : State × Res :=
  match (stepAlloc s k sz).2 with
  | Res.alloc id _ => (((stepFree (stepAlloc s k sz).1 id).1).sameFramesAs s, Res.unit)
  | _ => ((stepAlloc s k sz).1, (stepAlloc s k sz).2)

/-- the pinned code: the exception leaves `alloc` and the memory stays with a frame that does not exist -/
def stepAllocThrowAsIs (s : State) (k sz : Nat) : State × Res :=
  ({ (stepAlloc s k sz).1 with frames := s.frames }.sameFramesAs s, Res.unit)

/-- A request during which `operator new` throws `bad_alloc`.  Where the policy would not call `operator new` at all the
request is served as usual.  Otherwise no frame comes into existence and:
* `default_storage`, the busy path of `reusable_storage_mtsafe`, the fall-backs of `stack_storage` / `static_storage`:
  nothing has happened yet;
* `std::vector::resize`: strong guarantee, nothing changes;
* the growth of `reusable_storage` (repaired code): the old block has been deleted, `_ptr = nullptr; _capacity = 0;` —
  an empty storage; `reusable_storage_mtsafe` additionally clears `_busy` before the exception leaves. -/
def stepAllocFail (s : State) (k sz : Nat) : State × Res :=
  match s.cfg.pol with
  | .default => (s, Res.failed)
  | .reusable =>
      if need s.cfg sz > s.cap then
        ({ s with heap := s.heap.delOpt s.ptr, ptr := none, cap := 0, vsize := 0, ok := s.ok && s.frames.isEmpty }, Res.failed)
      else stepAlloc s k sz
  | .mtsafe =>
      if s.busy then (s, Res.failed)
      else if need s.cfg sz > s.cap then
        ({ s with heap := s.heap.delOpt s.ptr, ptr := none, cap := 0, vsize := 0, busy := false }, Res.failed)
      else stepAlloc s k sz
  | .stack _ =>
      match s.objs[k]? with
      | none => stepAlloc s k sz
      | some asz => if need s.cfg sz ≤ asz then stepAlloc s k sz else (s, Res.failed)
  | .placement _ => stepAlloc s k sz
  | .buffer itemsz =>
      if s.cap < (need s.cfg sz + itemsz - 1) / itemsz then (s, Res.failed) else stepAlloc s k sz
  | .static space asserts =>
      if need s.cfg sz ≤ space then stepAlloc s k sz
      else if asserts then stepAlloc s k sz
      else (s, Res.failed)

/-- the pinned `reusable_storage::alloc`: `delete _ptr; _ptr = new(sz)` — when `new` throws, `_ptr` keeps the address
of the deleted block and `_capacity` its size; `reusable_storage_mtsafe` additionally keeps `_busy` set -/
def stepAllocFailAsIs (s : State) (k sz : Nat) : State × Res :=
  match s.cfg.pol with
  | .reusable =>
      if need s.cfg sz > s.cap then ({ s with heap := s.heap.delOpt s.ptr }, Res.failed) else stepAlloc s k sz
  | .mtsafe =>
      if s.busy then (s, Res.failed)
      else if need s.cfg sz > s.cap then ({ s with heap := s.heap.delOpt s.ptr, busy := true }, Res.failed)
      else stepAlloc s k sz
  | _ => stepAllocFail s k sz

def step (s : State) (op : Op) : State × Res :=
  match op with
  | Op.alloc k sz => stepAlloc s k sz
  | Op.free id => stepFree s id
  | Op.newobj => stepNewobj s
  | Op.bufset n => stepBufset s n
  | Op.destroy => stepDestroy s
  | Op.moveOut => stepMoveOut s
  | Op.swapobj => stepSwapobj s
  | Op.allocThrow k sz => stepAllocThrow s k sz
  | Op.allocFail k sz => stepAllocFail s k sz

def run (s : State) (ops : List Op) : State := ops.foldl (fun s op => (step s op).1) s

/-! ### the property's observables, as predicates on a state -/

def Frame.privBlk? (f : Frame) : Option Nat :=
  if f.priv then (match f.blk with | Blk.heap b => some b | _ => none) else none

/-- heap blocks held by live frames as their private memory -/
def privBlocks (fr : List Frame) : List Nat := fr.filterMap Frame.privBlk?

/-- the frame's block exists and is large enough for frame + extra object + trailer -/
def Fits (s : State) (f : Frame) : Prop :=
  match f.blk with
  | Blk.null => need s.cfg f.sz = 0
  | Blk.heap b => ∃ n, (b, n) ∈ s.heap.live ∧ need s.cfg f.sz ≤ n
  | Blk.ext k => need s.cfg f.sz ≤ s.extSize k

/-- no two live frames share a block -/
def Exclusive (s : State) : Prop := (s.frames.map (·.blk)).Nodup

end Cocls.Storage
