import CoclsModel.SharedFutureApi
/-! Invariant of the API-level shared_future model (`SharedFutureApi.lean`): what a state holds is determined by its phase and by what the resolver stored. -/
namespace Cocls.SharedFutureApi

structure Good (ss : SState) : Prop where
  unresolved : ss.phase ≠ Phase.ready → ss.res = Res.none ∧ ss.resolvedBy = none ∧ ss.taken = false
  resolved : ss.phase = Phase.ready → ∃ rk, ss.resolvedBy = some rk ∧ (ss.taken = false → ss.res = rk.res)
  promised : ss.promised = true → ss.phase = Phase.pending

def GoodL (l : List SState) : Prop := ∀ ss ∈ l, Good ss
def Inv (s : St) : Prop := GoodL s.states

theorem mem_modAt {α} (f : α → α) : ∀ (l : List α) (k : Nat) (x : α), x ∈ modAt l k f → x ∈ l ∨ ∃ y ∈ l, x = f y
  | [], _, x, h => by simp [modAt] at h
  | a :: l, 0, x, h => by
      simp only [modAt, List.mem_cons] at h
      rcases h with h | h
      · exact Or.inr ⟨a, by simp, h⟩
      · exact Or.inl (by simp [h])
  | a :: l, k + 1, x, h => by
      simp only [modAt, List.mem_cons] at h
      rcases h with h | h
      · exact Or.inl (by simp [h])
      · rcases mem_modAt f l k x h with h | ⟨y, hy, e⟩
        · exact Or.inl (by simp [h])
        · exact Or.inr ⟨y, by simp [hy], e⟩

theorem goodL_modAt {l : List SState} {f : SState → SState} (k : Nat) (h : GoodL l) (hf : ∀ x, Good x → Good (f x)) :
    GoodL (modAt l k f) := by
  intro ss hm
  rcases mem_modAt f l k ss hm with h1 | ⟨y, hy, e⟩
  · exact h ss h1
  · subst e; exact hf y (h y hy)

theorem goodL_snoc {l : List SState} {x : SState} (h : GoodL l) (hx : Good x) : GoodL (l ++ [x]) := by
  intro ss hm
  simp only [List.mem_append, List.mem_singleton] at hm
  rcases hm with hm | hm
  · exact h ss hm
  · subst hm; exact hx

theorem good_incRef (x : SState) (h : Good x) : Good (incRef x) := ⟨h.1, h.2, h.3⟩
theorem good_decRef (x : SState) (h : Good x) : Good (decRef x) := ⟨h.1, h.2, h.3⟩
theorem good_addWaiter (w : Nat) (k : WK) (x : SState) (h : Good x) : Good (addWaiter w k x) := ⟨h.1, h.2, h.3⟩

theorem good_promiseS (x : SState) (h : Good x) : Good (promiseS x) := by
  unfold promiseS
  split
  · rename_i hp
    have hu := h.unresolved (by rw [hp]; decide)
    exact ⟨fun _ => hu, fun hr => by simp at hr, fun _ => rfl⟩
  · exact h

theorem good_resolveS (rk : RK) (x : SState) (h : Good x) : Good (resolveS rk x) := by
  unfold resolveS
  split
  · rename_i hp
    have hu := h.unresolved (by rw [h.promised hp]; decide)
    exact ⟨fun hr => by simp at hr, fun _ => ⟨rk, rfl, fun _ => rfl⟩, fun hr => by simp at hr⟩
  · exact h

theorem good_takeS (x : SState) (h : Good x) : Good (takeS x) := by
  unfold takeS
  split
  · rename_i v hv
    refine ⟨fun hr => ?_, fun hr => ?_, h.promised⟩
    · have := (h.unresolved hr).1; rw [hv] at this; cases this
    · obtain ⟨rk, h1, _⟩ := h.resolved hr
      exact ⟨rk, h1, fun ht => by simp at ht⟩
  · exact h

theorem good_fresh : Good freshState := ⟨fun _ => ⟨rfl, rfl, rfl⟩, fun h => by simp [freshState] at h, fun h => by simp [freshState] at h⟩

theorem good_mkState (m : Mk) : Good (mkState m) := by
  cases m
  · exact ⟨fun _ => ⟨rfl, rfl, rfl⟩, fun h => by simp [mkState] at h, fun _ => rfl⟩
  · exact ⟨fun _ => ⟨rfl, rfl, rfl⟩, fun h => by simp [mkState] at h, fun _ => rfl⟩
  · exact ⟨fun h => by simp [mkState] at h, fun _ => ⟨_, rfl, fun _ => rfl⟩, fun h => by simp [mkState] at h⟩
  · exact ⟨fun h => by simp [mkState] at h, fun _ => ⟨_, rfl, fun _ => rfl⟩, fun h => by simp [mkState] at h⟩

theorem goodL_release {l : List SState} (k : Nat) (h : GoodL l) : GoodL (release l k).1 :=
  goodL_modAt k h good_decRef

theorem inv_init : Inv init := by intro ss h; simp [init] at h

theorem inv_opSee (s : St) (sp : Sp) (i : Nat) (h : Inv s) : Inv (opSee s sp i).1 := by
  unfold opSee
  repeat' split
  all_goals first | exact h | exact goodL_modAt _ h (good_addWaiter _ _)

theorem inv_opTake (s : St) (i : Nat) (h : Inv s) : Inv (opTake s i).1 := by
  unfold opTake
  repeat' split
  all_goals first | exact h | exact goodL_modAt _ h good_takeS

theorem inv_opResolve (s : St) (k : Nat) (rk : RK) (h : Inv s) : Inv (opResolve s k rk).1 := by
  unfold opResolve
  repeat' split
  all_goals first | exact h | exact goodL_modAt _ h (good_resolveS rk)

theorem inv_opGetp (s : St) (i : Nat) (h : Inv s) : Inv (opGetp s i).1 := by
  unfold opGetp
  repeat' split
  all_goals first | exact h | exact goodL_modAt _ h good_promiseS | exact goodL_snoc h (good_promiseS _ good_fresh)

theorem inv_opLshift (s : St) (i : Nat) (h : Inv s) : Inv (opLshift s i).1 := by
  unfold opLshift
  repeat' split
  all_goals first | exact h | exact goodL_modAt _ h good_promiseS

theorem inv_opAssign (s : St) (i j : Nat) (h : Inv s) : Inv (opAssign s i j).1 := by
  unfold opAssign
  repeat' split
  all_goals first
    | exact h
    | exact goodL_modAt _ h good_incRef
    | exact goodL_release _ h
    | exact goodL_release _ (goodL_modAt _ h good_incRef)

theorem inv_step (s : St) (op : Op) (h : Inv s) : Inv (step s op).1 := by
  cases op with
  | new => exact h
  | mk m => exact goodL_snoc h (good_mkState m)
  | copy i =>
      simp only [step]; repeat' split
      all_goals first | exact h | exact goodL_modAt _ h good_incRef
  | assign i j => exact inv_opAssign s i j h
  | drop i =>
      simp only [step]; repeat' split
      all_goals first | exact h | exact goodL_release _ h
  | init i =>
      simp only [step]; repeat' split
      all_goals first | exact h | exact goodL_snoc h good_fresh
  | getp i => exact inv_opGetp s i h
  | lshift i => exact inv_opLshift s i h
  | resolve k rk => exact inv_opResolve s k rk h
  | see sp i => exact inv_opSee s sp i h
  | take i => exact inv_opTake s i h

theorem inv_run (ops : List Op) : ∀ s, Inv s → Inv (run s ops) := by
  induction ops with
  | nil => intro s h; exact h
  | cons o l ih => intro s h; exact ih _ (inv_step s o h)

/-! ## what the calls leave untouched -/

theorem getElem?_modAt {α} (f : α → α) : ∀ (l : List α) (k j : Nat),
    (modAt l k f)[j]? = if j = k then (l[j]?).map f else l[j]?
  | [], _, _ => by simp [modAt]
  | a :: l, 0, 0 => by simp [modAt]
  | a :: l, 0, j + 1 => by simp [modAt]
  | a :: l, k + 1, 0 => by simp [modAt]
  | a :: l, k + 1, j + 1 => by simp [modAt, getElem?_modAt f l k j]

/-- what every later access depends on -/
def view (ss : SState) : Phase × Res × Option RK × Bool := (ss.phase, ss.res, ss.resolvedBy, ss.taken)

/-- calls that are MEANT to change what a state holds: the resolver, the user moving the value out, and the two calls
that attach a promise to an initialised state -/
def Op.mutates : Op → Bool
  | Op.resolve _ _ => true
  | Op.take _ => true
  | Op.getp _ => true
  | Op.lshift _ => true
  | _ => false

theorem view_modAt_keep {l : List SState} {f : SState → SState} (hf : ∀ x, view (f x) = view x) (k j : Nat) (ss : SState)
    (h : l[j]? = some ss) : ∃ ss', (modAt l k f)[j]? = some ss' ∧ view ss' = view ss := by
  rw [getElem?_modAt]
  split
  · exact ⟨f ss, by simp [h], hf ss⟩
  · exact ⟨ss, h, rfl⟩

theorem view_snoc_keep {l : List SState} (x : SState) (j : Nat) (ss : SState)
    (h : l[j]? = some ss) : ∃ ss', (l ++ [x])[j]? = some ss' ∧ view ss' = view ss := by
  refine ⟨ss, ?_, rfl⟩
  have hj : j < l.length := by
    rcases Nat.lt_or_ge j l.length with hj | hj
    · exact hj
    · rw [List.getElem?_eq_none hj] at h; cases h
  rw [List.getElem?_append_left hj]; exact h

theorem view_incRef (x : SState) : view (incRef x) = view x := rfl
theorem view_decRef (x : SState) : view (decRef x) = view x := rfl
theorem view_addWaiter (w : Nat) (k : WK) (x : SState) : view (addWaiter w k x) = view x := rfl

theorem see_keeps_view (s : St) (sp : Sp) (i j : Nat) (ss : SState) (h : s.states[j]? = some ss) :
    ∃ ss', (opSee s sp i).1.states[j]? = some ss' ∧ view ss' = view ss := by
  unfold opSee
  repeat' split
  all_goals first | exact ⟨ss, h, rfl⟩ | exact view_modAt_keep (view_addWaiter _ _) _ _ _ h

theorem assign_keeps_view (s : St) (a b j : Nat) (ss : SState) (h : s.states[j]? = some ss) :
    ∃ ss', (opAssign s a b).1.states[j]? = some ss' ∧ view ss' = view ss := by
  unfold opAssign
  repeat' split
  all_goals first
    | exact ⟨ss, h, rfl⟩
    | exact view_modAt_keep view_incRef _ _ _ h
    | exact view_modAt_keep view_decRef _ _ _ h
    | (obtain ⟨s1, h1, e1⟩ := view_modAt_keep (k := _) view_incRef _ _ h
       obtain ⟨s2, h2, e2⟩ := view_modAt_keep (k := _) view_decRef _ _ h1
       exact ⟨s2, h2, e2.trans e1⟩)

theorem quiet_keeps_view (s : St) (op : Op) (hq : op.mutates = false) (j : Nat) (ss : SState) (h : s.states[j]? = some ss) :
    ∃ ss', (step s op).1.states[j]? = some ss' ∧ view ss' = view ss := by
  cases op with
  | new => exact ⟨ss, h, rfl⟩
  | mk m => exact view_snoc_keep _ _ _ h
  | copy i =>
      simp only [step]; repeat' split
      all_goals first | exact ⟨ss, h, rfl⟩ | exact view_modAt_keep view_incRef _ _ _ h
  | assign a b => exact assign_keeps_view s a b j ss h
  | drop i =>
      simp only [step]; repeat' split
      all_goals first | exact ⟨ss, h, rfl⟩ | exact view_modAt_keep view_decRef _ _ _ h
  | init i =>
      simp only [step]; repeat' split
      all_goals first | exact ⟨ss, h, rfl⟩ | exact view_snoc_keep _ _ _ h
  | see sp i => exact see_keeps_view s sp i j ss h
  | getp i => cases hq
  | lshift i => cases hq
  | resolve k rk => cases hq
  | take i => cases hq

end Cocls.SharedFutureApi
