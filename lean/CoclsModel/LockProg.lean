import CoclsModel.LockDisc

/-
Structured lock programs: the branch-sensitive lock-region reasoning of C03's lock-discipline obligation, done in Lean.

`extract/lockprog.py` transcribes every member function of a mutex-guarded class *syntactically* into a `Prog`
(`Generated/LockProgs.lean`); which lock state an access runs in is decided here, by an executable checker whose soundness
with respect to the set of linearisations of the program is proved, and the linearisations are act sequences of the
happens-before machine of `LockDisc.lean`.

`Prog` (over `LockDisc.Act`)
* `act a` — a raw act: `lk.lock()`, `lk.unlock()` (also `_mx.lock()/_mx.unlock()`), `access field write`;
* `seq`, `skip`; `ite a b` — nondeterministic choice (if/else, `?:`, short-circuit `&&`/`||`; the condition's accesses are
  emitted before the choice); `loop body` — 0..n iterations, `brk` leaves the loop, `cont` starts the next iteration (the
  translator puts the loop condition into the body as `C; ite brk B`, so the failing evaluation of the condition is part
  of the paths); `ret` — early return;
* `guard body` — `std::lock_guard/scoped_lock g(_mx)` followed by the rest of its block: lock; body; unlock on EVERY exit
  (normal, break/continue, return, exception); `ulock body` — `std::unique_lock lk(_mx)`: the same, but the destructor
  unlocks only if the lock is still owned, and `lk.unlock()/lk.lock()` may occur in the body;
* `Prog.wait` / `Prog.waitPred pred` (derived) — `cond.wait*(lk[, pred])`: unlock; lock; the predicate runs locked;
* `call name body` — an inlined call of a member function of the same class (e.g. a `*_lk` helper receiving the lock
  object), started in the caller's lock state; its `ret` returns to the caller; `catch k body` — a lambda invoked in place
  (`catch ret`), the body of a `switch` (`catch brk`), a loop body followed by the increment of a `for` (`catch cont`);
* `tryc body handler` — try/catch: the handler runs from whatever lock state the body was in when it threw;
* `await` — a suspension point (`co_await`, `co_yield`): the checker demands the mutex to be free there;
* `bad` — something the translator did not understand: the checker rejects it.

`Path p h tr k h'`: `tr` is a linearisation of `p` started with the lock object owning (`h = true`) or not owning the mutex,
leaving `p` in exit mode `k : Exit` with ownership `h'`.  Loops are unrolled any number of times, every choice is taken, and
EVERY construct may be left by an exception before it does anything (`Path.abort`), so "a call inside the critical section
throws" is one of the linearisations; RAII scopes append their unlock on that exit as on any other.

`check : Prog → LS → Option Out` is a forward analysis over sets of lock states (`LS` ⊆ {free, held}; `Out` gives the set
for each exit mode).  It fails (`none`) on an access or `unlock` possible in state free, a `lock` (or `await`) possible in
state held, a `lock_guard` whose body can end free, a loop whose body does not map the loop invariant into itself (the
invariant is computed by two unrollings and then *checked*), and on `bad`.  Branches need not agree: `queue::pop` leaves its
`unique_lock` owning in one branch and released in the other, and the scope exit handles both.

Theorems: `check_sound` (every path from an admitted entry state keeps the discipline — `runTr` succeeds, hence
`LockDisc.discFrom` — and ends in an admitted state for its exit mode), `checkFn_sound` (a function passing `checkFn` has only
`LockDisc.Balanced` linearisations), `checkHelper_sound`, and the bridge `lockprogs_safe` / `lockfns_safe`: any number of
threads calling functions that pass the check, in any order, under any schedule, never race on a guarded field
(`LockDisc.lock_discipline_safe`).

NOT modelled: more than one mutex per class (calls into *other* guarded classes are not inlined — lock ordering is not a data
race question), `try_lock`/`defer_lock`/`adopt_lock`/moved or aliased lock objects (→ `bad`), `goto` (→ `bad`), recursion
(→ `bad`), correlation between branch conditions (every combination of branch outcomes is a path — conservative).
-/

namespace Cocls.LockProg

open Cocls.LockDisc (Act discFrom balFrom Balanced Disciplined)

/-- how a (sub)program is left -/
inductive Exit where
  | norm | brk | cont | ret | thr
  deriving DecidableEq, Repr, Inhabited

inductive Prog where
  | skip
  | act (a : Act)
  | seq (a b : Prog)
  | ite (a b : Prog)
  | loop (body : Prog)
  | brk
  | cont
  | ret
  | guard (body : Prog)
  | ulock (body : Prog)
  | catch (k : Exit) (body : Prog)
  | call (name : String) (body : Prog)
  | tryc (body handler : Prog)
  | await
  | bad
  deriving Repr, Inhabited

/-- statement sequence -/
def Prog.seqs : List Prog → Prog
  | [] => Prog.skip
  | [p] => p
  | p :: ps => Prog.seq p (Prog.seqs ps)

/-- n-ary nondeterministic choice (`alts [] = skip`) -/
def Prog.alts : List Prog → Prog
  | [] => Prog.skip
  | [p] => p
  | p :: ps => Prog.ite p (Prog.alts ps)

/-- `cond.wait(lk)` / `wait_until` / `wait_for` without predicate: releases and re-acquires the mutex -/
def Prog.wait : Prog := Prog.seq (Prog.act Act.unlock) (Prog.act Act.lock)

/-- `cond.wait(lk, pred)` = `while (!pred()) wait(lk);` — the predicate (an inlined lambda) runs with the mutex held -/
def Prog.waitPred (pred : Prog) : Prog :=
  Prog.loop (Prog.seq (Prog.catch Exit.ret pred) (Prog.ite Prog.brk Prog.wait))

/-! ### traces -/

def stepTr : Bool → Act → Option Bool
  | false, Act.lock => some true
  | true, Act.lock => none
  | true, Act.unlock => some false
  | false, Act.unlock => none
  | h, Act.access _ _ => if h then some h else none

def runTr : Bool → List Act → Option Bool
  | h, [] => some h
  | h, a :: r => (stepTr h a).bind (fun h' => runTr h' r)

theorem runTr_append (h : Bool) (t1 t2 : List Act) :
    runTr h (t1 ++ t2) = (runTr h t1).bind (fun h1 => runTr h1 t2) := by
  induction t1 generalizing h with
  | nil => rfl
  | cons a r ih =>
    simp only [List.cons_append, runTr]
    cases stepTr h a with
    | none => rfl
    | some h' => simp [ih]

theorem discFrom_of_runTr (h h' : Bool) (tr : List Act) (hr : runTr h tr = some h') : discFrom h tr = true := by
  induction tr generalizing h with
  | nil => simp [discFrom]
  | cons a r ih =>
    cases a <;> cases h <;> simp_all [runTr, stepTr, discFrom]

theorem balFrom_of_runTr (h : Bool) (tr : List Act) (hr : runTr h tr = some false) : balFrom h tr = true := by
  induction tr generalizing h with
  | nil => cases h <;> simp_all [runTr, balFrom]
  | cons a r ih =>
    cases a <;> cases h <;> simp_all [runTr, stepTr, balFrom]

/-! ### paths -/

def catchExit (kk k : Exit) : Exit := if k = kk then Exit.norm else k

inductive Path : Prog → Bool → List Act → Exit → Bool → Prop
  | abort (p : Prog) (h : Bool) : Path p h [] Exit.thr h
  | skip (h : Bool) : Path Prog.skip h [] Exit.norm h
  | lock (h : Bool) : Path (Prog.act Act.lock) h [Act.lock] Exit.norm true
  | unlock (h : Bool) : Path (Prog.act Act.unlock) h [Act.unlock] Exit.norm false
  | access (h : Bool) (f : Nat) (w : Bool) : Path (Prog.act (Act.access f w)) h [Act.access f w] Exit.norm h
  | seqN {a b : Prog} {h h1 h2 : Bool} {t1 t2 : List Act} {k : Exit} :
      Path a h t1 Exit.norm h1 → Path b h1 t2 k h2 → Path (Prog.seq a b) h (t1 ++ t2) k h2
  | seqX {a b : Prog} {h h1 : Bool} {t : List Act} {k : Exit} :
      Path a h t k h1 → k ≠ Exit.norm → Path (Prog.seq a b) h t k h1
  | iteL {a b : Prog} {h h1 : Bool} {t : List Act} {k : Exit} : Path a h t k h1 → Path (Prog.ite a b) h t k h1
  | iteR {a b : Prog} {h h1 : Bool} {t : List Act} {k : Exit} : Path b h t k h1 → Path (Prog.ite a b) h t k h1
  | loop0 (b : Prog) (h : Bool) : Path (Prog.loop b) h [] Exit.norm h
  | loopN {b : Prog} {h h1 h2 : Bool} {t1 t2 : List Act} {k k2 : Exit} :
      Path b h t1 k h1 → (k = Exit.norm ∨ k = Exit.cont) → Path (Prog.loop b) h1 t2 k2 h2 →
      Path (Prog.loop b) h (t1 ++ t2) k2 h2
  | loopB {b : Prog} {h h1 : Bool} {t : List Act} : Path b h t Exit.brk h1 → Path (Prog.loop b) h t Exit.norm h1
  | loopX {b : Prog} {h h1 : Bool} {t : List Act} {k : Exit} :
      Path b h t k h1 → (k = Exit.ret ∨ k = Exit.thr) → Path (Prog.loop b) h t k h1
  | brk (h : Bool) : Path Prog.brk h [] Exit.brk h
  | cont (h : Bool) : Path Prog.cont h [] Exit.cont h
  | ret (h : Bool) : Path Prog.ret h [] Exit.ret h
  | guard {b : Prog} {h h1 : Bool} {t : List Act} {k : Exit} :
      Path b true t k h1 → Path (Prog.guard b) h (Act.lock :: t ++ [Act.unlock]) k false
  | ulock {b : Prog} {h h1 : Bool} {t : List Act} {k : Exit} :
      Path b true t k h1 → Path (Prog.ulock b) h (Act.lock :: t ++ (if h1 then [Act.unlock] else [])) k false
  | catch {b : Prog} {kk : Exit} {h h1 : Bool} {t : List Act} {k : Exit} :
      Path b h t k h1 → Path (Prog.catch kk b) h t (catchExit kk k) h1
  | call {b : Prog} {name : String} {h h1 : Bool} {t : List Act} {k : Exit} :
      Path b h t k h1 → Path (Prog.call name b) h t (catchExit Exit.ret k) h1
  | trycN {a b : Prog} {h h1 : Bool} {t : List Act} {k : Exit} : Path a h t k h1 → Path (Prog.tryc a b) h t k h1
  | trycH {a b : Prog} {h h1 h2 : Bool} {t1 t2 : List Act} {k : Exit} :
      Path a h t1 Exit.thr h1 → Path b h1 t2 k h2 → Path (Prog.tryc a b) h (t1 ++ t2) k h2
  | await (h : Bool) : Path Prog.await h [] Exit.norm h

/-! ### the checker -/

structure LS where
  free : Bool
  held : Bool
  deriving DecidableEq, Repr, Inhabited

def LS.mem (s : LS) (h : Bool) : Bool := if h then s.held else s.free
def LS.empty : LS := ⟨false, false⟩
def LS.union (a b : LS) : LS := ⟨a.free || b.free, a.held || b.held⟩
def LS.sub (a b : LS) : Bool := (!a.free || b.free) && (!a.held || b.held)
def LS.isEmpty (a : LS) : Bool := !a.free && !a.held

abbrev Out := Exit → LS

def Out.only (k : Exit) (s : LS) : Out := fun k' => if k' = k then s else LS.empty
def Out.union (a b : Out) : Out := fun k => (a k).union (b k)
/-- every construct can be left by an exception before it did anything -/
def Out.thr (s : LS) (o : Out) : Out := fun k => if k = Exit.thr then (o k).union s else o k

def loopStep (c : LS → Option Out) (s : LS) : Option LS :=
  (c s).map (fun o => (s.union (o Exit.norm)).union (o Exit.cont))

def loopOut (i : LS) (o : Out) : Out := fun k =>
  match k with
  | Exit.norm => i.union (o Exit.brk)
  | Exit.brk => LS.empty
  | Exit.cont => LS.empty
  | Exit.ret => o Exit.ret
  | Exit.thr => o Exit.thr

def catchOut (kk : Exit) (o : Out) : Out := fun k =>
  if k = Exit.norm then (if kk = Exit.norm then o Exit.norm else (o Exit.norm).union (o kk))
  else if k = kk then LS.empty else o k

def check : Prog → LS → Option Out
  | Prog.skip, s => some (Out.thr s (Out.only Exit.norm s))
  | Prog.act Act.lock, s => if s.held then none else some (Out.thr s (Out.only Exit.norm ⟨false, s.free⟩))
  | Prog.act Act.unlock, s => if s.free then none else some (Out.thr s (Out.only Exit.norm ⟨s.held, false⟩))
  | Prog.act (Act.access _ _), s => if s.free then none else some (Out.thr s (Out.only Exit.norm s))
  | Prog.seq a b, s =>
    (check a s).bind fun oa => (check b (oa Exit.norm)).bind fun ob =>
      some (Out.thr s (fun k => if k = Exit.norm then ob k else (oa k).union (ob k)))
  | Prog.ite a b, s => (check a s).bind fun oa => (check b s).bind fun ob => some (Out.thr s (oa.union ob))
  | Prog.loop b, s =>
    (loopStep (check b) s).bind fun i1 => (loopStep (check b) i1).bind fun i2 => (check b i2).bind fun o =>
      if ((o Exit.norm).union (o Exit.cont)).sub i2 then some (Out.thr i2 (loopOut i2 o)) else none
  | Prog.brk, s => some (Out.thr s (Out.only Exit.brk s))
  | Prog.cont, s => some (Out.thr s (Out.only Exit.cont s))
  | Prog.ret, s => some (Out.thr s (Out.only Exit.ret s))
  | Prog.guard b, s =>
    if s.held then none else
    (check b ⟨false, s.free⟩).bind fun o =>
      if (o Exit.norm).free || (o Exit.brk).free || (o Exit.cont).free || (o Exit.ret).free || (o Exit.thr).free then none
      else some (Out.thr s (fun k => ⟨(o k).held, false⟩))
  | Prog.ulock b, s =>
    if s.held then none else
    (check b ⟨false, s.free⟩).bind fun o => some (Out.thr s (fun k => ⟨(o k).held || (o k).free, false⟩))
  | Prog.catch kk b, s => (check b s).bind fun o => some (Out.thr s (catchOut kk o))
  | Prog.call _ b, s => (check b s).bind fun o => some (Out.thr s (catchOut Exit.ret o))
  | Prog.tryc a b, s =>
    (check a s).bind fun oa => (check b (oa Exit.thr)).bind fun ob => some (Out.thr s (oa.union ob))
  | Prog.await, s => if s.held then none else some (Out.thr s (Out.only Exit.norm s))
  | Prog.bad, _ => none

/-! ### soundness -/

theorem LS.mem_union (a b : LS) (h : Bool) : (a.union b).mem h = (a.mem h || b.mem h) := by
  cases h <;> simp [LS.mem, LS.union]

theorem LS.mem_of_sub {a b : LS} (hs : a.sub b = true) {h : Bool} (hm : a.mem h = true) : b.mem h = true := by
  cases h <;> simp_all [LS.mem, LS.sub]

theorem LS.mem_empty (h : Bool) : LS.empty.mem h = false := by cases h <;> rfl

theorem Out.thr_mem_of {s : LS} {o : Out} {k : Exit} {h : Bool} (hm : (o k).mem h = true) :
    (Out.thr s o k).mem h = true := by
  unfold Out.thr; split <;> simp [LS.mem_union, hm]

theorem Out.thr_mem_thr {s : LS} {o : Out} {h : Bool} (hm : s.mem h = true) :
    (Out.thr s o Exit.thr).mem h = true := by
  simp [Out.thr, LS.mem_union, hm]

/-- every successful check admits the exceptional exit in every entry state -/
theorem check_thr {p : Prog} {s : LS} {o : Out} (hc : check p s = some o) {h : Bool} (hm : s.mem h = true) :
    (o Exit.thr).mem h = true := by
  cases p with
  | act a =>
    cases a <;> simp only [check] at hc <;> split at hc <;> simp at hc <;> subst hc <;> exact Out.thr_mem_thr hm
  | loop b =>
    simp only [check, Option.bind_eq_some_iff, loopStep, Option.map_eq_some_iff] at hc
    obtain ⟨i1, ⟨o1, _, rfl⟩, i2, ⟨o2, _, rfl⟩, o3, _, hc⟩ := hc
    split at hc <;> simp at hc
    subst hc
    apply Out.thr_mem_thr
    simp [LS.mem_union, hm]
  | guard b =>
    simp only [check] at hc
    split at hc; · simp at hc
    simp only [Option.bind_eq_some_iff] at hc
    obtain ⟨o1, _, hc⟩ := hc
    split at hc <;> simp at hc
    subst hc; exact Out.thr_mem_thr hm
  | ulock b =>
    simp only [check] at hc
    split at hc; · simp at hc
    simp only [Option.bind_eq_some_iff] at hc
    obtain ⟨o1, _, hc⟩ := hc
    simp at hc
    subst hc; exact Out.thr_mem_thr hm
  | await =>
    simp only [check] at hc
    split at hc <;> simp at hc
    subst hc; exact Out.thr_mem_thr hm
  | bad => simp [check] at hc
  | skip | brk | cont | ret => simp only [check, Option.some.injEq] at hc; subst hc; exact Out.thr_mem_thr hm
  | seq a b | ite a b | tryc a b =>
    simp only [check, Option.bind_eq_some_iff] at hc
    obtain ⟨oa, _, ob, _, hc⟩ := hc
    simp at hc
    subst hc; exact Out.thr_mem_thr hm
  | «catch» kk b | call n b =>
    simp only [check, Option.bind_eq_some_iff] at hc
    obtain ⟨oa, _, hc⟩ := hc
    simp at hc
    subst hc; exact Out.thr_mem_thr hm

def Sound (p : Prog) : Prop :=
  ∀ s o, check p s = some o → ∀ h tr k h', s.mem h = true → Path p h tr k h' →
    runTr h tr = some h' ∧ (o k).mem h' = true

theorem sound_skip : Sound Prog.skip := by
  intro s o hc h tr k h' hm hp
  cases hp with
  | abort => exact ⟨rfl, check_thr hc hm⟩
  | skip =>
    simp only [check, Option.some.injEq] at hc; subst hc
    exact ⟨rfl, Out.thr_mem_of (by simpa [Out.only] using hm)⟩

theorem sound_jump (p : Prog) (kk : Exit) (hdef : ∀ s, check p s = some (Out.thr s (Out.only kk s)))
    (hpath : ∀ h tr k h', Path p h tr k h' → tr = [] ∧ h' = h ∧ (k = kk ∨ k = Exit.thr)) : Sound p := by
  intro s o hc h tr k h' hm hp
  obtain ⟨rfl, rfl, hk⟩ := hpath _ _ _ _ hp
  rw [hdef] at hc; simp only [Option.some.injEq] at hc; subst hc
  refine ⟨rfl, ?_⟩
  rcases hk with rfl | rfl
  · exact Out.thr_mem_of (by simpa [Out.only] using hm)
  · exact Out.thr_mem_thr hm

theorem sound_brk : Sound Prog.brk :=
  sound_jump _ Exit.brk (fun _ => rfl) (by intro h tr k h' hp; cases hp <;> simp)
theorem sound_cont : Sound Prog.cont :=
  sound_jump _ Exit.cont (fun _ => rfl) (by intro h tr k h' hp; cases hp <;> simp)
theorem sound_ret : Sound Prog.ret :=
  sound_jump _ Exit.ret (fun _ => rfl) (by intro h tr k h' hp; cases hp <;> simp)

theorem sound_await : Sound Prog.await := by
  intro s o hc h tr k h' hm hp
  cases hp with
  | abort => exact ⟨rfl, check_thr hc hm⟩
  | await =>
    simp only [check] at hc
    split at hc <;> simp at hc
    subst hc
    exact ⟨rfl, Out.thr_mem_of (by simpa [Out.only] using hm)⟩

theorem sound_act (a : Act) : Sound (Prog.act a) := by
  intro s o hc h tr k h' hm hp
  cases hp with
  | abort => exact ⟨rfl, check_thr hc hm⟩
  | lock =>
    simp only [check] at hc
    split at hc <;> simp at hc
    subst hc
    cases h <;> simp_all [LS.mem, runTr, stepTr, Out.thr, Out.only]
  | unlock =>
    simp only [check] at hc
    split at hc <;> simp at hc
    subst hc
    cases h <;> simp_all [LS.mem, runTr, stepTr, Out.thr, Out.only]
  | access =>
    simp only [check] at hc
    split at hc <;> simp at hc
    subst hc
    cases h <;> simp_all [LS.mem, runTr, stepTr, Out.thr, Out.only]

theorem sound_seq {a b : Prog} (ha : Sound a) (hb : Sound b) : Sound (Prog.seq a b) := by
  intro s o hc h tr k h' hm hp
  cases hp with
  | abort => exact ⟨rfl, check_thr hc hm⟩
  | seqN p1 p2 =>
    simp only [check, Option.bind_eq_some_iff] at hc
    obtain ⟨oa, hca, ob, hcb, hc⟩ := hc
    simp only [Option.some.injEq] at hc; subst hc
    obtain ⟨r1, m1⟩ := ha _ _ hca _ _ _ _ hm p1
    obtain ⟨r2, m2⟩ := hb _ _ hcb _ _ _ _ m1 p2
    refine ⟨by simp [runTr_append, r1, r2], Out.thr_mem_of ?_⟩
    split <;> simp [LS.mem_union, m2]
  | seqX p1 hk =>
    simp only [check, Option.bind_eq_some_iff] at hc
    obtain ⟨oa, hca, ob, hcb, hc⟩ := hc
    simp only [Option.some.injEq] at hc; subst hc
    obtain ⟨r1, m1⟩ := ha _ _ hca _ _ _ _ hm p1
    refine ⟨r1, Out.thr_mem_of ?_⟩
    simp [hk, LS.mem_union, m1]

theorem sound_ite {a b : Prog} (ha : Sound a) (hb : Sound b) : Sound (Prog.ite a b) := by
  intro s o hc h tr k h' hm hp
  simp only [check, Option.bind_eq_some_iff] at hc
  obtain ⟨oa, hca, ob, hcb, hc⟩ := hc
  cases hp with
  | abort => simp only [Option.some.injEq] at hc; subst hc; exact ⟨rfl, Out.thr_mem_thr hm⟩
  | iteL p1 =>
    simp only [Option.some.injEq] at hc; subst hc
    obtain ⟨r1, m1⟩ := ha _ _ hca _ _ _ _ hm p1
    exact ⟨r1, Out.thr_mem_of (by simp [Out.union, LS.mem_union, m1])⟩
  | iteR p1 =>
    simp only [Option.some.injEq] at hc; subst hc
    obtain ⟨r1, m1⟩ := hb _ _ hcb _ _ _ _ hm p1
    exact ⟨r1, Out.thr_mem_of (by simp [Out.union, LS.mem_union, m1])⟩

theorem sound_tryc {a b : Prog} (ha : Sound a) (hb : Sound b) : Sound (Prog.tryc a b) := by
  intro s o hc h tr k h' hm hp
  simp only [check, Option.bind_eq_some_iff] at hc
  obtain ⟨oa, hca, ob, hcb, hc⟩ := hc
  simp only [Option.some.injEq] at hc; subst hc
  cases hp with
  | abort => exact ⟨rfl, Out.thr_mem_thr hm⟩
  | trycN p1 =>
    obtain ⟨r1, m1⟩ := ha _ _ hca _ _ _ _ hm p1
    exact ⟨r1, Out.thr_mem_of (by simp [Out.union, LS.mem_union, m1])⟩
  | trycH p1 p2 =>
    obtain ⟨r1, m1⟩ := ha _ _ hca _ _ _ _ hm p1
    obtain ⟨r2, m2⟩ := hb _ _ hcb _ _ _ _ m1 p2
    exact ⟨by simp [runTr_append, r1, r2], Out.thr_mem_of (by simp [Out.union, LS.mem_union, m2])⟩

theorem catchOut_mem {kk k : Exit} {o : Out} {h : Bool} (hm : (o k).mem h = true) :
    (catchOut kk o (catchExit kk k)).mem h = true := by
  unfold catchOut catchExit
  by_cases h1 : k = kk
  · subst h1; simp only [if_true]; split <;> simp_all [LS.mem_union]
  · simp only [h1, if_false]
    by_cases h2 : k = Exit.norm
    · subst h2; simp only [if_true]; split <;> simp_all [LS.mem_union]
    · simp [h2, hm]

theorem sound_catch {b : Prog} (kk : Exit) (hb : Sound b) : Sound (Prog.catch kk b) := by
  intro s o hc h tr k h' hm hp
  simp only [check, Option.bind_eq_some_iff] at hc
  obtain ⟨ob, hcb, hc⟩ := hc
  simp only [Option.some.injEq] at hc; subst hc
  cases hp with
  | abort => exact ⟨rfl, Out.thr_mem_thr hm⟩
  | «catch» p1 =>
    obtain ⟨r1, m1⟩ := hb _ _ hcb _ _ _ _ hm p1
    exact ⟨r1, Out.thr_mem_of (catchOut_mem m1)⟩

theorem sound_call {b : Prog} (n : String) (hb : Sound b) : Sound (Prog.call n b) := by
  intro s o hc h tr k h' hm hp
  simp only [check, Option.bind_eq_some_iff] at hc
  obtain ⟨ob, hcb, hc⟩ := hc
  simp only [Option.some.injEq] at hc; subst hc
  cases hp with
  | abort => exact ⟨rfl, Out.thr_mem_thr hm⟩
  | call p1 =>
    obtain ⟨r1, m1⟩ := hb _ _ hcb _ _ _ _ hm p1
    exact ⟨r1, Out.thr_mem_of (catchOut_mem m1)⟩

theorem sound_guard {b : Prog} (hb : Sound b) : Sound (Prog.guard b) := by
  intro s o hc h tr k h' hm hp
  simp only [check] at hc
  split at hc; · simp at hc
  next hheld =>
  simp only [Option.bind_eq_some_iff] at hc
  obtain ⟨ob, hcb, hc⟩ := hc
  split at hc; · simp at hc
  next hfree =>
  simp only [Option.some.injEq] at hc; subst hc
  cases hp with
  | abort => exact ⟨rfl, Out.thr_mem_thr hm⟩
  | guard p1 =>
    rename_i h1 t
    have hh : h = false := by cases h <;> simp_all [LS.mem]
    subst hh
    have hsf : s.free = true := by simpa [LS.mem] using hm
    obtain ⟨r1, m1⟩ := hb _ _ hcb true _ _ _ (by simp [LS.mem, hsf]) p1
    have hh1 : h1 = true := by
      cases h1
      · cases k <;> simp_all [LS.mem]
      · rfl
    subst hh1
    refine ⟨?_, Out.thr_mem_of ?_⟩
    · simp [runTr, stepTr, runTr_append, r1]
    · simpa [LS.mem] using m1

theorem sound_ulock {b : Prog} (hb : Sound b) : Sound (Prog.ulock b) := by
  intro s o hc h tr k h' hm hp
  simp only [check] at hc
  split at hc; · simp at hc
  next hheld =>
  simp only [Option.bind_eq_some_iff] at hc
  obtain ⟨ob, hcb, hc⟩ := hc
  simp only [Option.some.injEq] at hc; subst hc
  cases hp with
  | abort => exact ⟨rfl, Out.thr_mem_thr hm⟩
  | ulock p1 =>
    rename_i h1 t
    have hh : h = false := by cases h <;> simp_all [LS.mem]
    subst hh
    have hsf : s.free = true := by simpa [LS.mem] using hm
    obtain ⟨r1, m1⟩ := hb _ _ hcb true _ _ _ (by simp [LS.mem, hsf]) p1
    refine ⟨?_, Out.thr_mem_of ?_⟩
    · cases h1 <;> simp [runTr, stepTr, runTr_append, r1]
    · cases h1 <;> simp_all [LS.mem]

theorem sound_loop_inv {b : Prog} (i : LS) (ob : Out)
    (hb : ∀ h tr k h', i.mem h = true → Path b h tr k h' → runTr h tr = some h' ∧ (ob k).mem h' = true)
    (hsub : ((ob Exit.norm).union (ob Exit.cont)).sub i = true) :
    ∀ q h tr k h', q = Prog.loop b → i.mem h = true → Path q h tr k h' →
      runTr h tr = some h' ∧ (Out.thr i (loopOut i ob) k).mem h' = true := by
  intro q h tr k h' hq hm hp
  induction hp with
  | abort => exact ⟨rfl, Out.thr_mem_thr hm⟩
  | loop0 => exact ⟨rfl, Out.thr_mem_of (by simp [loopOut, LS.mem_union, hm])⟩
  | @loopN _ _ h1 _ _ _ _ _ p1 hk p2 _ ih2 =>
    cases hq
    obtain ⟨r1, m1⟩ := hb _ _ _ _ hm p1
    have hm1 : i.mem h1 = true := LS.mem_of_sub hsub (by rcases hk with rfl | rfl <;> simp [LS.mem_union, m1])
    obtain ⟨r2, m2⟩ := ih2 rfl hm1
    exact ⟨by simp [runTr_append, r1, r2], m2⟩
  | loopB p1 =>
    cases hq
    obtain ⟨r1, m1⟩ := hb _ _ _ _ hm p1
    exact ⟨r1, Out.thr_mem_of (by simp [loopOut, LS.mem_union, m1])⟩
  | loopX p1 hk =>
    cases hq
    obtain ⟨r1, m1⟩ := hb _ _ _ _ hm p1
    rcases hk with rfl | rfl
    · exact ⟨r1, Out.thr_mem_of (by simpa [loopOut] using m1)⟩
    · exact ⟨r1, Out.thr_mem_of (by simpa [loopOut] using m1)⟩
  | _ => cases hq

theorem sound_loop {b : Prog} (hb : Sound b) : Sound (Prog.loop b) := by
  intro s o hc h tr k h' hm hp
  simp only [check, Option.bind_eq_some_iff, loopStep, Option.map_eq_some_iff] at hc
  obtain ⟨i1, ⟨o1, _, rfl⟩, i2, ⟨o2, _, rfl⟩, o3, hc3, hc⟩ := hc
  split at hc <;> simp only [Option.some.injEq, reduceCtorEq] at hc
  next hsub =>
  subst hc
  exact sound_loop_inv _ o3 (fun h tr k h' hmi hpi => hb _ _ hc3 _ _ _ _ hmi hpi) hsub _ _ _ _ _ rfl
    (by simp [LS.mem_union, hm]) hp

/-- the checker is sound: if `check p s = some o` then every path of `p` from a lock state in `s` keeps the lock
discipline and ends, for each exit kind, in a lock state in `o` -/
theorem check_sound (p : Prog) : Sound p := by
  induction p with
  | skip => exact sound_skip
  | act a => exact sound_act a
  | seq a b ha hb => exact sound_seq ha hb
  | ite a b ha hb => exact sound_ite ha hb
  | loop b hb => exact sound_loop hb
  | brk => exact sound_brk
  | cont => exact sound_cont
  | ret => exact sound_ret
  | guard b hb => exact sound_guard hb
  | ulock b hb => exact sound_ulock hb
  | «catch» kk b hb => exact sound_catch kk hb
  | call n b hb => exact sound_call n hb
  | tryc a b ha hb => exact sound_tryc ha hb
  | await => exact sound_await
  | bad => intro s o hc; simp [check] at hc

/-! ### whole member functions -/

/-- A member function that is entered with the mutex free (`check` from `{free}` succeeds): on every path the mutex is free
again at every exit — normal, `return`, exception — and no `break`/`continue` escapes. -/
def checkFn (p : Prog) : Bool :=
  match check p ⟨true, false⟩ with
  | some o => !(o Exit.norm).held && !(o Exit.ret).held && !(o Exit.thr).held && (o Exit.brk).isEmpty && (o Exit.cont).isEmpty
  | none => false

/-- A helper that is entered with the mutex held (`*_lk`, or a private function without a lock of its own) keeps the
discipline on every path (it may return with the mutex held or free; its callers are checked with its body inlined). -/
def checkHelper (p : Prog) : Bool := (check p ⟨false, true⟩).isSome

/-- `tr` is a linearisation of the member function `p` called with the mutex free -/
def Lin (p : Prog) (tr : List Act) : Prop := ∃ k h', Path p false tr k h'

theorem checkFn_sound {p : Prog} (hc : checkFn p = true) {tr : List Act} (hl : Lin p tr) : Balanced tr = true := by
  obtain ⟨k, h', hp⟩ := hl
  unfold checkFn at hc
  split at hc
  · next o ho =>
    obtain ⟨r, m⟩ := check_sound p _ _ ho false tr k h' rfl hp
    have : h' = false := by
      cases h'
      · rfl
      · cases k <;> simp_all [LS.mem, LS.isEmpty]
    subst this
    exact balFrom_of_runTr _ _ r
  · simp at hc

theorem checkHelper_sound {p : Prog} (hc : checkHelper p = true) {tr : List Act} {k : Exit} {h' : Bool}
    (hp : Path p true tr k h') : discFrom true tr = true := by
  unfold checkHelper at hc
  cases ho : check p ⟨false, true⟩ with
  | none => simp [ho] at hc
  | some o => exact discFrom_of_runTr _ _ _ (check_sound p _ _ ho true tr k h' rfl hp).1

/-- The bridge to the happens-before machine of `LockDisc.lean`: if every function of a class passes `checkFn`, then any
number of threads, each performing any sequence of calls whose act sequences are linearisations of these functions (any
branch outcomes, any loop counts, any exceptional exits), under any schedule, never race on a guarded field. -/
theorem lockprogs_safe (fns : List Prog) (hf : fns.all checkFn = true)
    (calls : Nat → List (List Act)) (hc : ∀ t, ∀ c ∈ calls t, ∃ p ∈ fns, Lin p c) :
    ∀ sched : List Nat, (LockDisc.run (fun t => (calls t).flatten) sched).raced = false := by
  apply LockDisc.lock_discipline_safe
  intro t
  apply LockDisc.disciplined_flatten
  intro c hcm
  obtain ⟨p, hp, hl⟩ := hc t c hcm
  exact checkFn_sound (List.all_eq_true.mp hf p hp) hl

/-! ### tables: one entry per extracted function, and the cross-check against the `GuardedAccess` table -/

structure LockFn where
  cls : String      -- guarded class (key of the GuardedAccess table)
  fn : String       -- member function the code lexically belongs to (same spelling as the table)
  defName : String  -- name of the generated definition
  entry : Bool      -- checked stand-alone from the free state (public, or takes the lock itself, or a deferred lambda)
  prog : Prog

def LockFn.ok (f : LockFn) : Bool := if f.entry then checkFn f.prog else checkHelper f.prog

/-- `lockprogs_safe` for a generated table: the calls are linearisations of the table's entry functions -/
theorem lockfns_safe (fs : List LockFn) (hok : fs.all LockFn.ok = true)
    (calls : Nat → List (List Act))
    (hc : ∀ t, ∀ c ∈ calls t, ∃ f ∈ fs, f.entry = true ∧ Lin f.prog c) :
    ∀ sched : List Nat, (LockDisc.run (fun t => (calls t).flatten) sched).raced = false := by
  apply LockDisc.lock_discipline_safe
  intro t
  apply LockDisc.disciplined_flatten
  intro c hcm
  obtain ⟨f, hf, he, hl⟩ := hc t c hcm
  have hfo := List.all_eq_true.mp hok f hf
  simp only [LockFn.ok, he, if_true] at hfo
  exact checkFn_sound hfo hl


/-- guarded fields accessed lexically by the function itself (inlined callees are attributed to their own definition) -/
def lexAcc : Prog → List Nat
  | Prog.act (Act.access f _) => [f]
  | Prog.seq a b => lexAcc a ++ lexAcc b
  | Prog.ite a b => lexAcc a ++ lexAcc b
  | Prog.tryc a b => lexAcc a ++ lexAcc b
  | Prog.loop b => lexAcc b
  | Prog.guard b => lexAcc b
  | Prog.ulock b => lexAcc b
  | Prog.catch _ b => lexAcc b
  | _ => []

def fieldName (fields : List (String × List String)) (cls : String) (i : Nat) : String :=
  match fields.find? (fun e => e.1 == cls) with
  | some e => e.2.getD i "?"
  | none => "?"

def progTriples (fields : List (String × List String)) (fs : List LockFn) : List (String × String × String) :=
  fs.flatMap (fun f => (lexAcc f.prog).map (fun i => (f.cls, f.fn, fieldName fields f.cls i)))

def tableTriples (fields : List (String × List String)) (tbl : List GuardedAccess) : List (String × String × String) :=
  (tbl.filter (fun a => !a.ctorDtor && fields.any (fun e => e.1 == a.cls && e.2.contains a.field))).map
    (fun a => (a.cls, a.fn, a.field))

/-- both extractions see the same (class, function, field) accesses outside constructors/destructors -/
def sameTriples (fields : List (String × List String)) (fs : List LockFn) (tbl : List GuardedAccess) : Bool :=
  (tableTriples fields tbl).all (fun x => (progTriples fields fs).contains x) &&
  (progTriples fields fs).all (fun x => (tableTriples fields tbl).contains x)

/-! ### examples (`decide`) -/

section Examples
open Prog

/-- shape of `thread_pool::worker`: unique_lock, endless loop, `cond.wait` with predicate, `break`, `lk.unlock()`,
early `return` with the lock released, `lk.lock()` before the next iteration -/
def exWorker : Prog :=
  ulock (loop (seqs [
    waitPred (seqs [act (Act.access 0 false), act (Act.access 1 false), ret]),
    act (Act.access 1 false), ite brk skip,
    act (Act.access 0 true), act (Act.access 0 true), act Act.unlock,
    ite ret skip,
    act Act.lock]))

/-- shape of `queue::push`: the branches leave the unique_lock in different states and both `return` -/
def exPush : Prog :=
  ulock (seqs [act (Act.access 0 false),
    ite (seqs [act (Act.access 0 true), act (Act.access 0 true), act Act.unlock, ret])
        (seqs [act (Act.access 1 true), ret])])

/-- a `lock_guard` function calling a `*_lk` helper that loops and returns early -/
def exHelper : Prog := seqs [loop (seqs [act (Act.access 0 false), ite brk skip, act (Act.access 0 true), ite ret skip]), act (Act.access 0 false)]
def exGuard : Prog := guard (seqs [call "helper_lk" exHelper, ret])

example : checkFn exWorker = true ∧ checkFn exPush = true ∧ checkFn exGuard = true ∧ checkHelper exHelper = true := by decide

/-- the checker is not vacuous: a concrete linearisation of `exPush` (first branch) and its balance -/
example : Lin exPush [Act.lock, Act.access 0 false, Act.access 0 true, Act.access 0 true, Act.unlock] :=
  ⟨Exit.ret, false,
    Path.ulock (h := false) (h1 := false)
      (Path.seqN (Path.access true 0 false)
        (Path.iteL (Path.seqN (Path.access true 0 true) (Path.seqN (Path.access true 0 true)
          (Path.seqN (Path.unlock true) (Path.ret false))))))⟩

/-- counterexample: an access after `lk.unlock()` on one branch only -/
def exBad : Prog :=
  ulock (seqs [act (Act.access 0 false), ite (act Act.unlock) skip, act (Act.access 0 true)])

example : checkFn exBad = false := by decide

/-- more rejected shapes: locking function called with the lock held (self-deadlock), `co_await` with the lock held,
a loop body that does not restore the lock state, an unguarded helper run from the free state, raw lock without RAII
(an exception would leave it locked), an untranslatable construct -/
example : checkFn (guard (call "size" (guard (act (Act.access 0 false))))) = false
    ∧ checkFn (ulock (seqs [act (Act.access 0 false), await])) = false
    ∧ checkFn (ulock (loop (seqs [act (Act.access 0 false), act Act.unlock]))) = false
    ∧ checkFn exHelper = false
    ∧ checkFn (seqs [act Act.lock, act (Act.access 0 true), act Act.unlock]) = false
    ∧ checkFn (guard bad) = false := by decide

/-- accepted: `co_await` between `lk.unlock()` and `lk.lock()` (scheduler::worker_coro), try/catch inside a guard -/
example : checkFn (ulock (loop (seqs [act Act.unlock, await, act Act.lock, ite brk skip, act (Act.access 0 true)]))) = true
    ∧ checkFn (guard (tryc (act (Act.access 0 true)) (act (Act.access 1 true)))) = true := by decide

end Examples

end Cocls.LockProg
