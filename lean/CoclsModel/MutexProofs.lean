import CoclsModel.Mutex
/-!
# Invariant proofs for the mutex micro-step model (`Mutex.lean`) — C07 / C08

* **Logical agents.** `arun c s l` runs a list `l` of agent activities `(t, a)` (`agentStep c s t a`: the code of
  contender `a` runs on OS thread `t` up to and including its next atomic operation).  `Guarded c s l` demands of every
  activity only `canRun`: `pc a ∉ {parked, done}` and `pc a = blocked → flag a` — a parked coroutine runs again only
  after a hand-over made it `crit`, a thread blocked in `flag.wait` (or waiting for its callback) only once its flag is
  set; *everything else may run at any time on any thread*.  `Reachable c s`: `s` agrees with some `arun c (init c) l`,
  `l` guarded, on all fields but the executor's bookkeeping `cur`/`rq`/`tmain` (never read by `agentStep`:
  `agentStep_exec_irrel`).
* **Configurations.** Any `Cfg` (number of agents, kinds, rounds): every acquisition flavour (blocking lock — also issued
  from inside a coroutine —, `try_lock`, `co_await`, callback awaiter), every way of giving the ownership up (`release()`,
  awaited release, destruction / assignment of an empty ownership, move into a temporary, hand-over-hand assignment of
  the auxiliary mutex' ownership), own ownership object or the shared slot.  The agent-level invariant needs no
  well-formedness hypothesis; the transfer to OS threads needs `Cfg.WFT` (`co_await` only in coroutines, no blocking of
  the OS thread from inside a coroutine).
* **Invariant** `Inv` (Appendix B of DESIGN.md: I1–I6, grant accounting, ownership objects: `heldA`/`heldO`/`heldN`/`noBad`),
  `inv_init`, one preservation lemma per step (closed clause by clause by `grind` after exposing the projections),
  `inv_step`, `inv_arun`, `inv_reachable`.
* **OS threads.** `threadStep_sim`/`threadStep_is_arun`: every `threadStep` of an enabled thread is a (possibly empty)
  guarded activity list (executor invariants `TInv`: who may sit in `cur`/`rq`; `LInv`: every runnable coroutine is
  hosted by a live thread).  `trun_init_reachable`: every schedule of enabled threads stays inside `Reachable`;
  `threads_stuck_done`: no enabled thread ⇒ everybody done.
-/
namespace Cocls.Mutex

/-! ## classification of program counters -/

/-- owner: between acquisition and the step that gives ownership away (a blocking waiter is owner from the
    moment its flag is stored) -/
def isOwner : Pc → Bool → Bool
  | Pc.crit, _ | Pc.critS, _ | Pc.afterCs, _ | Pc.asg, _ | Pc.relBuild, _ | Pc.relHand, _ | Pc.build, _ => true
  | Pc.waitFlag, f | Pc.blocked, f => f
  | _, _ => false

/-- published request that has not been granted yet -/
def isWaiting : Pc → Bool → Bool
  | Pc.parked, _ => true
  | Pc.waitFlag, f | Pc.blocked, f => !f
  | _, _ => false

/-- granted, round not yet completed -/
def isHolding : Pc → Bool → Bool
  | Pc.crit, _ | Pc.critS, _ | Pc.afterCs, _ | Pc.asg, _ | Pc.relBuild, _ | Pc.relHand, _ | Pc.relDone, _ => true
  | Pc.waitFlag, f | Pc.blocked, f => f
  | _, _ => false

/-- granted, critical section of this round not yet entered -/
def isEntering : Pc → Bool → Bool
  | Pc.crit, _ | Pc.critS, _ => true
  | Pc.waitFlag, f | Pc.blocked, f => f
  | _, _ => false

/-- the agent's ownership object is armed: from the store of the granted ownership (the `crit` step; for a callback
    contender granted as a waiter: the hand-over) to the step that starts `unlock` through the object -/
def isArmed : Pc → Bool → Option Flavour → Bool
  | Pc.critS, _, _ | Pc.afterCs, _, _ | Pc.asg, _, _ => true
  | Pc.waitFlag, f, some Flavour.cb | Pc.blocked, f, some Flavour.cb => f
  | _, _, _ => false

/-- flavour / way of release / ownership object of agent `a`'s round number `r` -/
def flR (c : Cfg) (a r : Nat) : Option Flavour := ((c.rounds a)[r]?).map (·.fl)
def relR (c : Cfg) (a r : Nat) : Option Rel := ((c.rounds a)[r]?).map (·.rel)
def objR (c : Cfg) (a r : Nat) : Nat :=
  match (c.rounds a)[r]? with
  | some rd => if rd.shared then c.n else a
  | none => a

def keyR (c : Cfg) (a r : Nat) : Nat :=
  match flR c a r with
  | some Flavour.co => 0
  | some Flavour.cb => 0
  | _ => r + 1

theorem keyOf_eq (c : Cfg) (s : State) (a : Nat) : keyOf c s a = keyR c a (s.round a) := rfl
theorem flOf_eq (c : Cfg) (s : State) (a : Nat) : flOf c s a = flR c a (s.round a) := rfl
theorem relOf_eq (c : Cfg) (s : State) (a : Nat) : relOf c s a = relR c a (s.round a) := rfl
theorem objOf_eq (c : Cfg) (s : State) (a : Nat) : objOf c s a = objR c a (s.round a) := rfl

theorem armed_owner {p : Pc} {f : Bool} {fl : Option Flavour} (h : isArmed p f fl = true) : isOwner p f = true := by
  cases p <;> first | (simp [isArmed] at h; done) | rfl | skip
  all_goals (cases fl with
    | none => simp [isArmed] at h
    | some x => cases x <;> simp [isArmed] at h <;> simp [isOwner, h])

def Owner (s : State) (a : Nat) : Prop := isOwner (s.pc a) (s.flag a) = true
def Waiting (s : State) (a : Nat) : Prop := isWaiting (s.pc a) (s.flag a) = true
/-- has a node in the request stack or the queue -/
def Listed (s : State) (a : Nat) : Prop := isWaiting (s.pc a) (s.flag a) = true ∨ s.pc a = Pc.build
def Holding (s : State) (a : Nat) : Prop := isHolding (s.pc a) (s.flag a) = true
def Entering (s : State) (a : Nat) : Prop := isEntering (s.pc a) (s.flag a) = true
def Armed (c : Cfg) (s : State) (a : Nat) : Prop := isArmed (s.pc a) (s.flag a) (flOf c s a) = true

instance (s a) : Decidable (Owner s a) := by unfold Owner; infer_instance
instance (s a) : Decidable (Waiting s a) := by unfold Waiting; infer_instance
instance (s a) : Decidable (Listed s a) := by unfold Listed; infer_instance
instance (s a) : Decidable (Holding s a) := by unfold Holding; infer_instance
instance (s a) : Decidable (Entering s a) := by unfold Entering; infer_instance
instance (c s a) : Decidable (Armed c s a) := by unfold Armed; infer_instance

/-- nodes above exactly one doorman at the bottom -/
def doorEnd : List Elem → Prop
  | [] => False
  | Elem.door :: r => r = []
  | Elem.node _ _ :: r => doorEnd r

@[simp] theorem doorEnd_nil : doorEnd [] = False := rfl
@[simp] theorem doorEnd_door (r) : doorEnd (Elem.door :: r) = (r = []) := rfl
@[simp] theorem doorEnd_node (a k r) : doorEnd (Elem.node a k :: r) = doorEnd r := rfl
/-- nodes only, the bottom one is `o`'s (the request that found the mutex free; its `_next` is null) -/
def nodeEnd (o : Nat) : List Elem → Prop
  | [] => False
  | Elem.door :: _ => False
  | Elem.node a _ :: r => (r = [] ∧ a = o) ∨ nodeEnd o r

@[simp] theorem nodeEnd_nil (o) : nodeEnd o [] = False := rfl
@[simp] theorem nodeEnd_door (o r) : nodeEnd o (Elem.door :: r) = False := rfl
@[simp] theorem nodeEnd_node (o a k r) : nodeEnd o (Elem.node a k :: r) = ((r = [] ∧ a = o) ∨ nodeEnd o r) := rfl
@[simp] theorem nodesOf_nil : nodesOf [] = [] := rfl
@[simp] theorem nodesOf_door (r) : nodesOf (Elem.door :: r) = [] := rfl
@[simp] theorem nodesOf_node (a k r) : nodesOf (Elem.node a k :: r) = a :: nodesOf r := rfl
@[simp] theorem seenOf_nil : seenOf [] = Seen.null := rfl
@[simp] theorem seenOf_door (r) : seenOf (Elem.door :: r) = Seen.door := rfl
@[simp] theorem seenOf_node (a k r) : seenOf (Elem.node a k :: r) = Seen.node a k := rfl

/-- a list of awaiters `(agent, address key)` as stack nodes -/
def nodesL (xs : List (Nat × Nat)) : List Elem := xs.map (fun p => Elem.node p.1 p.2)

@[simp] theorem nodesL_nil : nodesL [] = [] := rfl
@[simp] theorem nodesL_cons (p xs) : nodesL (p :: xs) = Elem.node p.1 p.2 :: nodesL xs := rfl

theorem nodesOf_nodesL (xs : List (Nat × Nat)) (tl : List Elem) : nodesOf (nodesL xs ++ tl) = xs.map (·.1) ++ nodesOf tl := by
  induction xs with
  | nil => rfl
  | cons x xs ih => simp [ih]

theorem doorEnd_iff (r : List Elem) : doorEnd r ↔ ∃ xs : List (Nat × Nat), r = nodesL xs ++ [Elem.door] := by
  induction r with
  | nil => simp
  | cons e r ih =>
    cases e with
    | door =>
      simp only [doorEnd_door]
      constructor
      · intro h; exact ⟨[], by simp [h]⟩
      · rintro ⟨xs, h⟩
        cases xs with
        | nil => simpa using h
        | cons x xs => simp at h
    | node a k =>
      simp only [doorEnd_node, ih]
      constructor
      · rintro ⟨xs, h⟩; exact ⟨(a, k) :: xs, by simp [h]⟩
      · rintro ⟨xs, h⟩
        cases xs with
        | nil => simp at h
        | cons x xs => simp at h; exact ⟨xs, h.2⟩

theorem nodeEnd_iff (o : Nat) (r : List Elem) :
    nodeEnd o r ↔ ∃ (xs : List (Nat × Nat)) (k : Nat), r = nodesL xs ++ [Elem.node o k] := by
  induction r with
  | nil => simp
  | cons e r ih =>
    cases e with
    | door =>
      simp only [nodeEnd_door, false_iff]
      rintro ⟨xs, k, h⟩
      cases xs <;> simp at h
    | node a k =>
      simp only [nodeEnd_node, ih]
      constructor
      · rintro (⟨h1, h2⟩ | ⟨xs, k', h⟩)
        · exact ⟨[], k, by simp [h1, h2]⟩
        · exact ⟨(a, k) :: xs, k', by simp [h]⟩
      · rintro ⟨xs, k', h⟩
        cases xs with
        | nil => simp at h; exact Or.inl ⟨h.2, h.1.1⟩
        | cons x xs => simp at h; exact Or.inr ⟨xs, k', h.2⟩

theorem seenOf_eq_null {r : List Elem} : seenOf r = Seen.null ↔ r = [] := by
  cases r with
  | nil => simp
  | cons x xs => cases x <;> simp

theorem doorEnd_ne_nil {r : List Elem} (h : doorEnd r) : r ≠ [] := by
  cases r with
  | nil => simp at h
  | cons x xs => simp

theorem doorEnd_nodes {r : List Elem} (h : doorEnd r) (h2 : r ≠ [Elem.door]) : nodesOf r ≠ [] := by
  cases r with
  | nil => simp at h
  | cons x xs =>
    cases x with
    | door => simp at h; subst h; simp at h2
    | node a k => simp

theorem mem_nodesOf_ne_nil {r : List Elem} {a : Nat} (h : a ∈ nodesOf r) : r ≠ [] := by
  cases r with
  | nil => simp at h
  | cons x xs => simp

/-- the request stack as seen by the invariant: pending requests in arrival order
    (the found-null acquirer's own node, which sits at the bottom until its `build_queue`, is not pending) -/
def pending (s : State) : List Nat :=
  s.queue ++ ((nodesOf s.req).filter (fun x => decide (s.pc x ≠ Pc.build))).reverse

/-! ## configurations -/

/-- totalisation: `co_await lock()` is only written in coroutines (a blocking contender uses `lock().wait()`,
    which constructs a fresh `sync_awaiter` with a cleared flag — `Pc.subInit`) -/
def Cfg.WF (c : Cfg) : Prop := ∀ a r, r ∈ c.rounds a → r.fl = Flavour.co → c.kind a = AKind.coro

/-! ## the guard: agent `a`'s code may run now -/

/-- A parked coroutine runs only after a hand-over made it `crit`; a finished agent has no code left; a blocked
    thread (`flag.wait`) runs only when its flag is set.  Everything else may run at any time on any thread. -/
def canRun (s : State) (a : Nat) : Bool :=
  match s.pc a with
  | Pc.parked | Pc.done => false
  | Pc.blocked => s.flag a
  | _ => true

/-- run a sequence of agent activities `(thread, agent)` -/
def arun (c : Cfg) (s : State) (l : List (Nat × Nat)) : State :=
  l.foldl (fun s p => (agentStep c s p.1 p.2).1) s

/-- every activity of the sequence is permitted by `canRun` in the state it starts from -/
def Guarded (c : Cfg) : State → List (Nat × Nat) → Prop
  | _, [] => True
  | s, p :: l => canRun s p.2 = true ∧ Guarded c (agentStep c s p.1 p.2).1 l

/-- everything but the executor's bookkeeping (`cur`, `rq`, `tmain`: which OS thread runs which coroutine), which
    `agentStep` writes but never reads (`agentStep_exec_irrel`) -/
def core (s : State) : State :=
  { s with cur := fun _ => none, rq := fun _ => [], tmain := fun _ => TMain.finished }

/-- reachable by guarded agent activities from the initial state (up to the executor's bookkeeping, so that the
    states reached by `threadStep` — which interleaves agent activities with updates of `cur`/`rq`/`tmain` — are
    covered as well: `treachable_reachable`) -/
def Reachable (c : Cfg) (s : State) : Prop := ∃ l, Guarded c (init c) l ∧ core s = core (arun c (init c) l)

/-! ## the invariant -/

structure Inv (c : Cfg) (s : State) : Prop where
  /-- (I1) at most one owner -/
  excl : ∀ a b, Owner s a → Owner s b → a = b
  /-- (I2/I3) no owner: stack and queue empty -/
  free : (∀ a, ¬ Owner s a) → s.req = [] ∧ s.queue = []
  /-- (I3) owner past its acquisition: nodes above exactly one doorman -/
  door : ∀ a, Owner s a → s.pc a ≠ Pc.build → doorEnd s.req
  /-- (I3) found-null acquirer before its exchange: its node is in the stack (no doorman), queue empty -/
  bld : ∀ a, s.pc a = Pc.build → a ∈ nodesOf s.req ∧ s.queue = []
  relB : ∀ a, s.pc a = Pc.relBuild → s.queue = [] ∧ nodesOf s.req ≠ []
  relH : ∀ a, s.pc a = Pc.relHand → s.queue ≠ []
  /-- (I4/I5) every waiting agent (and the found-null acquirer) has exactly one node in queue ++ stack, nobody else has one -/
  cnt : ∀ x, s.queue.count x + (nodesOf s.req).count x = if Listed s x then 1 else 0
  /-- a request waits the way its flavour says: suspended coroutine / flag (callback) -/
  kindP : ∀ a, s.pc a = Pc.parked → flOf c s a = some Flavour.co
  kindW : ∀ a, s.pc a = Pc.waitFlag ∨ s.pc a = Pc.blocked → flOf c s a = some Flavour.lock ∨ flOf c s a = some Flavour.cb
  subF : ∀ a p, s.pc a = Pc.sub p → flOf c s a ≠ some Flavour.co → s.flag a = false
  subFl : ∀ a p, s.pc a = Pc.sub p →
            flOf c s a = some Flavour.lock ∨ flOf c s a = some Flavour.cb ∨ flOf c s a = some Flavour.co
  subI : ∀ a, s.pc a = Pc.subInit → flOf c s a = some Flavour.lock ∨ flOf c s a = some Flavour.cb
  /-- (I6) queue ++ reversed stack is in arrival order -/
  stampQ : (s.queue ++ (nodesOf s.req).reverse).Pairwise (fun x y => s.stamp x < s.stamp y)
  stampC : ∀ x, Listed s x → s.stamp x < s.clock
  /-- rounds -/
  rnd : ∀ a, (s.pc a ≠ Pc.top → s.pc a ≠ Pc.done → s.round a < (c.rounds a).length) ∧
             s.round a ≤ (c.rounds a).length ∧ (s.pc a = Pc.done → a < c.n → s.round a = (c.rounds a).length)
  tryF : ∀ a, s.pc a = Pc.tryFail → ∃ r, curRound c s a = some r ∧ r.fl = Flavour.try_
  /-- grant accounting -/
  gr : ∀ a, s.grants a + s.fails a = s.round a + (if Holding s a then 1 else 0)
  greq : ∀ a r, s.grantReqs.count (a, r) + s.failReqs.count (a, r) =
            if r < s.round a ∨ (r = s.round a ∧ Holding s a) then 1 else 0
  glog : ∀ a, s.grantLog.count a + (if Entering s a then 1 else 0) = s.grants a
  /-- critical-section counter -/
  incsA : ∀ a, s.pc a = Pc.afterCs → s.incs = 1
  incsN : (∀ a, s.pc a ≠ Pc.afterCs) → s.incs = 0
  /-- only `try_lock` requests fail -/
  failT : ∀ a r, (a, r) ∈ s.failReqs → ∃ rd, (c.rounds a)[r]? = some rd ∧ rd.fl = Flavour.try_
  /-- the found-null acquirer is older than every request published behind it -/
  bldFirst : ∀ o y, s.pc o = Pc.build → y ∈ nodesOf s.req → y ≠ o → s.stamp o < s.stamp y
  /-- (I3) found-null acquirer before its exchange: the stack is `[xk, …, x1, o]`, no doorman -/
  bldEnd : ∀ o, s.pc o = Pc.build → nodeEnd o s.req
  /-- ownership objects: the object of an agent between the store of its ownership and the start of its `unlock` is
      armed; whatever is armed is the object of the (unique) owner, who is in that phase; nothing is armed when nobody
      owns the mutex; an ownership is never stored into an armed object -/
  heldA : ∀ a, Armed c s a → s.held (objOf c s a) = true
  heldO : ∀ o a, s.held o = true → Owner s a → Armed c s a ∧ objOf c s a = o
  heldN : (∀ a, ¬ Owner s a) → ∀ o, s.held o = false
  noBad : s.bad = false
  /-- the auxiliary mutex of an agent is locked only between its hand-over-hand assignment and the end of that round -/
  auxOk : ∀ a, s.aux a = true → relOf c s a = some Rel.g ∧
            (s.pc a = Pc.asg ∨ s.pc a = Pc.relBuild ∨ s.pc a = Pc.relHand ∨ s.pc a = Pc.relDone)

theorem inv_init (c : Cfg) : Inv c (init c) := by
  refine ⟨?_, ?_, ?_, ?_, ?_, ?_, ?_, ?_, ?_, ?_, ?_, ?_, ?_, ?_, ?_, ?_, ?_, ?_, ?_, ?_, ?_, ?_, ?_, ?_, ?_, ?_, ?_, ?_, ?_⟩ <;>
    simp only [init, Owner, Listed, Holding, Entering, Armed]
  all_goals try (intro a; split <;> simp [isOwner, isWaiting, isHolding, isEntering, isArmed]; done)
  all_goals first | simp; done | (intro a; split <;> simp <;> omega)

/-! ## projections -/
@[simp] theorem setPc_pc (s : State) (a : Nat) (p : Pc) : (setPc s a p).pc = upd s.pc a p := rfl
theorem upd_apply {α} (f : Nat → α) (i j : Nat) (v : α) : upd f i v j = if j = i then v else f j := rfl


theorem count_filter_ne (l : List Nat) (a x : Nat) :
    List.count x (l.filter (fun y => decide ¬ y = a)) = if x = a then 0 else l.count x := by
  split
  · subst_vars; simp [List.count_eq_zero]
  · rw [List.count_filter]; simpa

theorem stampQ_push {st : Nat → Nat} {q l : List Nat} {a k : Nat} {L : Nat → Prop} [DecidablePred L]
    (cnt : ∀ x, q.count x + l.count x = if L x then 1 else 0) (stampC : ∀ x, L x → st x < k) (hna : ¬ L a)
    (hQ : (q ++ l.reverse).Pairwise (fun x y => st x < st y)) :
    (q ++ (a :: l).reverse).Pairwise (fun x y => (if x = a then k else st x) < (if y = a then k else st y)) := by
  have hmem : ∀ x, x ∈ q ++ l.reverse → L x ∧ x ≠ a := by
    intro x hx
    have hc := cnt x
    have : 0 < q.count x + l.count x := by
      rcases List.mem_append.1 hx with h | h
      · have := List.count_pos_iff.2 h; omega
      · have := List.count_pos_iff.2 (List.mem_reverse.1 h); omega
    split at hc
    · rename_i hl; exact ⟨hl, fun e => hna (e ▸ hl)⟩
    · omega
  rw [List.reverse_cons, ← List.append_assoc, List.pairwise_append]
  refine ⟨?_, by simp, ?_⟩
  · refine List.Pairwise.imp_of_mem ?_ hQ
    intro x y hx hy hxy
    simp only [(hmem x hx).2, (hmem y hy).2, if_false]; exact hxy
  · intro x hx y hy
    simp only [List.mem_singleton] at hy
    subst hy
    simp only [(hmem x hx).2, if_false, if_true]
    exact stampC x (hmem x hx).1

set_option hygiene false in
/-- destructure the invariant, split the goal into its clauses, expose the projections -/
macro "inv_split" h:ident : tactic => `(tactic| (
  obtain ⟨excl, free, door, bld, relB, relH, cnt, kindP, kindW, subF, subFl, subI, stampQ, stampC, rnd, tryF, gr, greq, glog, incsA, incsN, failT, bldFirst, bldEnd, heldA, heldO, heldN, noBad, auxOk⟩ := $h
  refine ⟨?_, ?_, ?_, ?_, ?_, ?_, ?_, ?_, ?_, ?_, ?_, ?_, ?_, ?_, ?_, ?_, ?_, ?_, ?_, ?_, ?_, ?_, ?_, ?_, ?_, ?_, ?_, ?_, ?_⟩ <;>
    simp only [setPc, upd_apply, Owner, Listed, Holding, Entering, Armed, flOf_eq, relOf_eq, objOf_eq, curRound,
      List.append_nil, List.nil_append,
      List.reverse_eq_nil_iff, List.count_append, List.count_reverse, List.count_nil, List.reverse_nil,
      List.reverse_reverse, ne_eq, count_filter_ne, nodesOf_node, nodesOf_door, nodesOf_nil] at *))

/-- per-agent case analysis by `grind` -/
macro "inv_grind" : tactic => `(tactic|
    grind [isOwner, isWaiting, isHolding, isEntering, isArmed, doorEnd_nil, nodesOf_door, nodesOf_nil, doorEnd_door,
           doorEnd_node, nodesOf_node, nodeEnd_nil, nodeEnd_door, nodeEnd_node, Cfg.WF, → armed_owner])

macro "inv_auto" h:ident : tactic => `(tactic| (inv_split $h <;> inv_grind))

variable {c : Cfg} {s : State} {a : Nat}

/-- pcs at which an agent neither owns, waits nor holds anything -/
def Pc.neutral : Pc → Bool
  | Pc.top | Pc.tryFail | Pc.subInit | Pc.sub _ | Pc.done => true
  | _ => false

theorem neutral_facts {p : Pc} (f : Bool) (h : p.neutral = true) :
    isOwner p f = false ∧ isWaiting p f = false ∧ isHolding p f = false ∧ isEntering p f = false ∧
    (∀ fl, isArmed p f fl = false) ∧ p ≠ Pc.asg ∧ p ≠ Pc.relDone ∧
    p ≠ Pc.build ∧ p ≠ Pc.relBuild ∧ p ≠ Pc.relHand ∧ p ≠ Pc.parked ∧ p ≠ Pc.waitFlag ∧ p ≠ Pc.blocked ∧
    p ≠ Pc.afterCs := by
  cases p <;> simp [Pc.neutral, isOwner, isWaiting, isHolding, isEntering, isArmed] at h ⊢

/-- moving an agent between neutral pcs (no other change) -/
theorem inv_neutral (h : Inv c s) (p : Pc) (hn : (s.pc a).neutral = true) (hp : p.neutral = true)
    (h1 : p ≠ Pc.top → p ≠ Pc.done → s.round a < (c.rounds a).length)
    (h2 : p = Pc.done → a < c.n → s.round a = (c.rounds a).length)
    (h3 : p = Pc.tryFail → ∃ r, curRound c s a = some r ∧ r.fl = Flavour.try_)
    (h4 : ∀ q, p = Pc.sub q → flOf c s a ≠ some Flavour.co → s.flag a = false)
    (h5 : ∀ q, p = Pc.sub q →
            flOf c s a = some Flavour.lock ∨ flOf c s a = some Flavour.cb ∨ flOf c s a = some Flavour.co)
    (h6 : p = Pc.subInit → flOf c s a = some Flavour.lock ∨ flOf c s a = some Flavour.cb) :
    Inv c (setPc s a p) := by
  have n1 := neutral_facts (s.flag a) hn
  have n2 := neutral_facts (s.flag a) hp
  generalize hpa : s.pc a = pa at n1
  clear hn hp
  inv_auto h



/-! ## preservation, one lemma per step -/

theorem inv_top_none (h : Inv c s) (hpc : s.pc a = Pc.top) (hr : curRound c s a = none) :
    Inv c (setPc s a Pc.done) := by
  refine inv_neutral h _ (by simp [hpc, Pc.neutral]) rfl (by simp) ?_ (by simp) (by simp) (by simp) (by simp)
  intro _ _
  have := (h.rnd a).2.1
  simp only [curRound, List.getElem?_eq_none_iff] at hr
  omega

theorem inv_top_acq (h : Inv c s) (hpc : s.pc a = Pc.top) (r : Round)
    (hr : curRound c s a = some r) (hq : s.req = []) :
    Inv c { setPc s a Pc.crit with req := [Elem.door], grants := upd s.grants a (s.grants a + 1),
                                   grantReqs := s.grantReqs ++ [(a, s.round a)] } := by
  inv_auto h

theorem inv_top_fail (h : Inv c s) (hpc : s.pc a = Pc.top) (r : Round)
    (hr : curRound c s a = some r) :
    Inv c (setPc s a (match r.fl with
              | Flavour.try_ => Pc.tryFail
              | Flavour.lock => Pc.subInit
              | Flavour.cb => Pc.subInit
              | Flavour.co => Pc.sub Seen.null)) := by
  have hlt : s.round a < (c.rounds a).length := by
    simp only [curRound] at hr
    exact (List.getElem?_eq_some_iff.1 hr).1
  have hfl : flOf c s a = some r.fl := by simp [flOf, hr]
  refine inv_neutral h _ (by simp [hpc, Pc.neutral]) ?_ (fun _ _ => hlt) ?_ ?_ ?_ ?_ ?_
  · cases r.fl <;> rfl
  · cases r.fl <;> simp
  · intro e; exact ⟨r, hr, by revert e; cases r.fl <;> simp⟩
  · intro q e hk
    rw [hfl] at hk
    cases hf : r.fl <;> simp only [hf] at e hk <;> simp_all
  · intro q e
    rw [hfl]
    cases hf : r.fl <;> simp only [hf] at e <;> simp_all
  · intro e
    rw [hfl]
    cases hf : r.fl <;> simp only [hf] at e <;> simp_all

theorem inv_sub_fail (h : Inv c s) (p q : Seen) (hpc : s.pc a = Pc.sub p) :
    Inv c (setPc s a (Pc.sub q)) := by
  refine inv_neutral h _ (by simp [hpc, Pc.neutral]) rfl (fun _ _ => ((h.rnd a).1 (by simp [hpc]) (by simp [hpc])))
    (by simp) (by simp) ?_ ?_ (by simp)
  · intro q' _ hk; exact h.subF a p hpc hk
  · intro q' _; exact h.subFl a p hpc

theorem inv_tryFail (h : Inv c s) (hpc : s.pc a = Pc.tryFail) :
    Inv c { setPc s a Pc.top with round := upd s.round a (s.round a + 1), fails := upd s.fails a (s.fails a + 1),
                                  failReqs := s.failReqs ++ [(a, s.round a)] } := by
  inv_auto h

/-- (the names of the `sync_awaiter` flags are arbitrary) -/
theorem inv_subInit (h : Inv c s) (hpc : s.pc a = Pc.subInit) (ft fi fn : Nat → Nat) :
    Inv c { setPc s a (Pc.sub Seen.null) with flag := upd s.flag a false, flagTh := ft, flagIx := fi, flagNo := fn } := by
  inv_auto h

theorem inv_waitPass (h : Inv c s) (hpc : s.pc a = Pc.waitFlag ∨ s.pc a = Pc.blocked) (hf : s.flag a = true)
    (hfl : flOf c s a ≠ some Flavour.cb) : Inv c (setPc s a Pc.crit) := by
  inv_auto h

theorem inv_waitPassCb (h : Inv c s) (hpc : s.pc a = Pc.waitFlag ∨ s.pc a = Pc.blocked) (hf : s.flag a = true)
    (hfl : flOf c s a = some Flavour.cb) : Inv c (setPc s a Pc.critS) := by
  inv_auto h

theorem inv_waitBlock (h : Inv c s) (hpc : s.pc a = Pc.waitFlag) (hf : ¬ s.flag a = true) :
    Inv c (setPc s a Pc.blocked) := by
  inv_auto h

theorem inv_crit (h : Inv c s) (hpc : s.pc a = Pc.crit) :
    Inv c { setPc s a Pc.afterCs with incs := s.incs + 1, grantLog := s.grantLog ++ [a],
                                      held := upd s.held (objOf c s a) true,
                                      bad := s.bad || s.held (objOf c s a) } := by
  have hnone : ∀ o, s.held o = false := by
    intro o
    cases ho : s.held o with
    | false => rfl
    | true => have := (h.heldO o a ho (by simp [Owner, hpc, isOwner])).1; simp [Armed, hpc, isArmed] at this
  inv_auto h

theorem inv_critS (h : Inv c s) (hpc : s.pc a = Pc.critS) :
    Inv c { setPc s a Pc.afterCs with incs := s.incs + 1, grantLog := s.grantLog ++ [a] } := by
  inv_auto h

theorem inv_relDone (h : Inv c s) (hpc : s.pc a = Pc.relDone) (hrel : relOf c s a ≠ some Rel.g) :
    Inv c { setPc s a Pc.top with round := upd s.round a (s.round a + 1) } := by
  inv_auto h

theorem inv_relDoneG (h : Inv c s) (hpc : s.pc a = Pc.relDone) :
    Inv c { setPc s a Pc.top with round := upd s.round a (s.round a + 1), aux := upd s.aux a false } := by
  inv_auto h

theorem inv_afterCsG (h : Inv c s) (hpc : s.pc a = Pc.afterCs) (hrel : relOf c s a = some Rel.g) :
    Inv c { setPc { s with incs := s.incs - 1 } a Pc.asg with aux := upd s.aux a true } := by
  inv_auto h

/-- facts about the owner that starts `unlock` through its ownership object -/
theorem Inv.unlock_facts (h : Inv c s) (hpc : s.pc a = Pc.afterCs ∨ s.pc a = Pc.asg) :
    s.held (objOf c s a) = true ∧ ∀ o, upd s.held (objOf c s a) false o = false := by
  have harm : Armed c s a := by rcases hpc with e | e <;> simp [Armed, e, isArmed]
  have hown : Owner s a := by rcases hpc with e | e <;> simp [Owner, e, isOwner]
  refine ⟨h.heldA a harm, ?_⟩
  intro o
  by_cases ho : o = objOf c s a
  · simp [ho]
  · rw [upd_other _ _ _ _ ho]
    cases hh : s.held o with
    | false => rfl
    | true => exact absurd (h.heldO o a hh hown).2.symm ho

theorem Inv.relHand_facts (h : Inv c s) (hpc : s.pc a = Pc.relHand) : ∀ o, s.held o = false := by
  intro o
  cases hh : s.held o with
  | false => rfl
  | true => have := (h.heldO o a hh (by simp [Owner, hpc, isOwner])).1; simp [Armed, hpc, isArmed] at this

theorem inv_release (h : Inv c s) (hpc : s.pc a = Pc.afterCs ∨ s.pc a = Pc.asg) (hq : s.queue = [])
    (hr : s.req = [Elem.door]) (k : Nat) (hk : k = if s.pc a = Pc.afterCs then s.incs - 1 else s.incs)
    (hd : Nat → Bool) (hhd : ∀ o, hd o = false) :
    Inv c { setPc { s with incs := k, held := hd } a Pc.relDone with req := [] } := by
  subst hk
  inv_auto h

theorem inv_relSlow (h : Inv c s) (hpc : s.pc a = Pc.afterCs ∨ s.pc a = Pc.asg) (hq : s.queue = [])
    (hr : s.req ≠ [Elem.door]) (k : Nat) (hk : k = if s.pc a = Pc.afterCs then s.incs - 1 else s.incs)
    (hd : Nat → Bool) (hhd : ∀ o, hd o = false) :
    Inv c (setPc { s with incs := k, held := hd } a Pc.relBuild) := by
  subst hk
  have hd := doorEnd_nodes (h.door a (by rcases hpc with e | e <;> simp [Owner, e, isOwner])
    (by rcases hpc with e | e <;> simp [e])) hr
  inv_auto h

theorem inv_relBuild (h : Inv c s) (hpc : s.pc a = Pc.relBuild) :
    Inv c { setPc s a Pc.relHand with req := [Elem.door], queue := (nodesOf s.req).reverse ++ s.queue } := by
  have hq := (h.relB a hpc).1
  simp only [hq] at h ⊢
  inv_auto h

theorem inv_build (h : Inv c s) (hpc : s.pc a = Pc.build) :
    Inv c { setPc s a Pc.crit with req := [Elem.door], queue := ((nodesOf s.req).filter (· ≠ a)).reverse ++ s.queue,
                                     grants := upd s.grants a (s.grants a + 1),
                                     grantReqs := s.grantReqs ++ [(a, s.round a)] } := by
  have hq := (h.bld a hpc).2
  simp only [hq] at h ⊢
  inv_auto h

theorem inv_sub_null (h : Inv c s) (p : Seen) (hpc : s.pc a = Pc.sub p) (hr : s.req = []) (k : Nat)
    (cu : Nat → Option Nat) :
    Inv c { setPc s a Pc.build with req := Elem.node a k :: s.req, stamp := upd s.stamp a s.clock,
                                    clock := s.clock + 1, cur := cu } := by
  simp only [hr] at h ⊢
  inv_auto h

theorem inv_sub_wait (h : Inv c s) (p : Seen) (hpc : s.pc a = Pc.sub p) (hr : s.req ≠ [])
    (hfl : flOf c s a ≠ some Flavour.co) (k : Nat) (cu : Nat → Option Nat) :
    Inv c { setPc s a Pc.waitFlag with req := Elem.node a k :: s.req, stamp := upd s.stamp a s.clock,
                                       clock := s.clock + 1, cur := cu } := by
  have hf := h.subF a p hpc hfl
  have hf2 := h.subFl a p hpc
  inv_split h
  case refine_13 => exact stampQ_push cnt stampC (by simp [hpc, isWaiting]) stampQ
  all_goals inv_grind

theorem inv_sub_park (h : Inv c s) (p : Seen) (hpc : s.pc a = Pc.sub p) (hr : s.req ≠ [])
    (hfl : flOf c s a = some Flavour.co) (k : Nat) (cu : Nat → Option Nat) :
    Inv c { setPc s a Pc.parked with req := Elem.node a k :: s.req, stamp := upd s.stamp a s.clock,
                                     clock := s.clock + 1, cur := cu } := by
  inv_split h
  case refine_13 => exact stampQ_push cnt stampC (by simp [hpc, isWaiting]) stampQ
  all_goals inv_grind

theorem Inv.head_facts (h : Inv c s) {b : Nat} {rest : List Nat} (hq : s.queue = b :: rest) :
    isWaiting (s.pc b) (s.flag b) = true ∧ (∀ x, s.pc x ≠ Pc.build) ∧ rest.count b = 0 ∧ (nodesOf s.req).count b = 0 := by
  have hnb : ∀ x, s.pc x ≠ Pc.build := fun x hx => by have := (h.bld x hx).2; simp [hq] at this
  have hc := h.cnt b
  simp only [hq, List.count_cons_self, Listed, hnb, or_false] at hc
  split at hc
  · rename_i hw; exact ⟨hw, hnb, by omega, by omega⟩
  · omega

/-- the head of the queue is a request waiting the way its flavour says -/
theorem Inv.head_wait (h : Inv c s) {b : Nat} {rest : List Nat} (hq : s.queue = b :: rest) :
    (flOf c s b = some Flavour.co → s.pc b = Pc.parked) ∧
    (flOf c s b ≠ some Flavour.co → (s.pc b = Pc.waitFlag ∨ s.pc b = Pc.blocked) ∧ s.flag b = false) := by
  obtain ⟨hw, _, _, _⟩ := h.head_facts hq
  have hkp := h.kindP b
  have hkw := h.kindW b
  generalize s.pc b = pb at *
  constructor
  · intro hf; cases pb <;> simp_all [isWaiting]
  · intro hf
    cases pb <;> simp_all [isWaiting]

set_option maxHeartbeats 1000000 in
theorem inv_hand_flag (h : Inv c s) (hpc : s.pc a = Pc.afterCs ∨ s.pc a = Pc.asg ∨ s.pc a = Pc.relHand)
    (b : Nat) (rest : List Nat) (hq : s.queue = b :: rest)
    (hfl : flOf c s b ≠ some Flavour.co) (hfl2 : flOf c s b ≠ some Flavour.cb) (k : Nat)
    (hk' : k = if s.pc a = Pc.afterCs then s.incs - 1 else s.incs) (hd : Nat → Bool) (hhd : ∀ o, hd o = false) :
    Inv c { setPc { s with incs := k, held := hd, queue := rest,
                           grants := upd s.grants b (s.grants b + 1),
                           grantReqs := s.grantReqs ++ [(b, s.round b)] } a Pc.relDone with
            flag := upd s.flag b true } := by
  subst hk'
  obtain ⟨hw, hnb, hc1, hc2⟩ := h.head_facts hq
  have hb := (h.head_wait hq).2 hfl
  have hba : b ≠ a := by rintro rfl; rcases hpc with e | e | e <;> simp [e, isWaiting] at hw
  inv_auto h

set_option maxHeartbeats 1000000 in
theorem inv_hand_cb (h : Inv c s) (hpc : s.pc a = Pc.afterCs ∨ s.pc a = Pc.asg ∨ s.pc a = Pc.relHand)
    (b : Nat) (rest : List Nat) (hq : s.queue = b :: rest)
    (hfl : flOf c s b = some Flavour.cb) (k : Nat)
    (hk' : k = if s.pc a = Pc.afterCs then s.incs - 1 else s.incs) (hd : Nat → Bool) (hhd : ∀ o, hd o = false) :
    Inv c { setPc { s with incs := k, held := hd, queue := rest,
                           grants := upd s.grants b (s.grants b + 1),
                           grantReqs := s.grantReqs ++ [(b, s.round b)] } a Pc.relDone with
            flag := upd s.flag b true, held := upd hd (objOf c s b) true, bad := s.bad || hd (objOf c s b) } := by
  subst hk'
  obtain ⟨hw, hnb, hc1, hc2⟩ := h.head_facts hq
  have hb := (h.head_wait hq).2 (by rw [hfl]; simp)
  have hba : b ≠ a := by rintro rfl; rcases hpc with e | e | e <;> simp [e, isWaiting] at hw
  have hbd : hd (objOf c s b) = false := hhd _
  inv_auto h

set_option maxHeartbeats 1000000 in
theorem inv_hand_co (h : Inv c s) (hpc : s.pc a = Pc.afterCs ∨ s.pc a = Pc.asg ∨ s.pc a = Pc.relHand)
    (b : Nat) (rest : List Nat) (hq : s.queue = b :: rest)
    (hfl : flOf c s b = some Flavour.co) (cu : Nat → Option Nat) (r : Nat → List Nat) (k : Nat)
    (hk' : k = if s.pc a = Pc.afterCs then s.incs - 1 else s.incs) (hd : Nat → Bool) (hhd : ∀ o, hd o = false) :
    Inv c { setPc (setPc { s with incs := k, held := hd, queue := rest,
                                  grants := upd s.grants b (s.grants b + 1),
                                  grantReqs := s.grantReqs ++ [(b, s.round b)] } b Pc.crit) a Pc.relDone with
            cur := cu, rq := r } := by
  subst hk'
  obtain ⟨hw, hnb, hc1, hc2⟩ := h.head_facts hq
  have hb := (h.head_wait hq).1 hfl
  have hba : b ≠ a := by rintro rfl; rcases hpc with e | e | e <;> simp [e, isWaiting] at hw
  inv_auto h

theorem inv_handOver (h : Inv c s) (hpc : s.pc a = Pc.afterCs ∨ s.pc a = Pc.asg ∨ s.pc a = Pc.relHand) (t k : Nat)
    (hk : k = if s.pc a = Pc.afterCs then s.incs - 1 else s.incs) (hd : Nat → Bool) (hhd : ∀ o, hd o = false)
    (hq : s.queue ≠ []) :
    Inv c (handOver c { s with incs := k, held := hd } t a).1 := by
  unfold handOver
  cases hq' : s.queue with
  | nil => exact absurd hq' hq
  | cons b rest =>
    dsimp only
    cases hfb : flOf c s b with
    | none =>
      have e : flOf c { s with incs := k, held := hd, queue := rest, grants := upd s.grants b (s.grants b + 1),
                               grantReqs := s.grantReqs ++ [(b, s.round b)] } b = none := hfb
      simp only [e]
      exact inv_hand_flag h hpc b rest hq' (by rw [hfb]; simp) (by rw [hfb]; simp) k hk hd hhd
    | some f =>
      have e : flOf c { s with incs := k, held := hd, queue := rest, grants := upd s.grants b (s.grants b + 1),
                               grantReqs := s.grantReqs ++ [(b, s.round b)] } b = some f := hfb
      simp only [e]
      cases f with
      | lock => exact inv_hand_flag h hpc b rest hq' (by rw [hfb]; simp) (by rw [hfb]; simp) k hk hd hhd
      | try_ => exact inv_hand_flag h hpc b rest hq' (by rw [hfb]; simp) (by rw [hfb]; simp) k hk hd hhd
      | cb => exact inv_hand_cb h hpc b rest hq' hfb k hk hd hhd
      | co =>
        dsimp only
        cases hka : c.kind a with
        | sync => exact inv_hand_co h hpc b rest hq' hfb _ _ k hk hd hhd
        | coro =>
          dsimp only
          split
          · exact inv_hand_co h hpc b rest hq' hfb _ _ k hk hd hhd
          · exact inv_hand_co h hpc b rest hq' hfb _ _ k hk hd hhd

theorem inv_unlockStart (h : Inv c s) (hpc : s.pc a = Pc.afterCs ∨ s.pc a = Pc.asg) (t k : Nat)
    (hk : k = if s.pc a = Pc.afterCs then s.incs - 1 else s.incs) :
    Inv c (unlockStart c { s with incs := k } t a).1 := by
  obtain ⟨hheld, hnone⟩ := h.unlock_facts hpc
  have hpc3 : s.pc a = Pc.afterCs ∨ s.pc a = Pc.asg ∨ s.pc a = Pc.relHand := by
    rcases hpc with e | e
    · exact Or.inl e
    · exact Or.inr (Or.inl e)
  unfold unlockStart
  have e1 : ({ s with incs := k } : State).held (objOf c { s with incs := k } a) = true := hheld
  rw [if_neg (by rw [e1]; simp)]
  dsimp only
  split
  · rename_i hq
    split
    · rename_i hr
      exact inv_release h hpc hq hr k hk _ hnone
    · rename_i hr
      exact inv_relSlow h hpc hq hr k hk _ hnone
  · rename_i hq
    exact inv_handOver h hpc3 t k hk _ hnone (by simpa using hq)

/-! ## every activity preserves the invariant -/

theorem inv_step (h : Inv c s) (t : Nat) (hg : canRun s a = true) : Inv c (agentStep c s t a).1 := by
  unfold agentStep
  split
  · exact h
  · exact h
  · -- top
    rename_i hpc
    split
    · rename_i hr; exact inv_top_none h hpc hr
    · rename_i r hr
      split
      · rename_i hq; exact inv_top_acq h hpc r hr hq
      · exact inv_top_fail h hpc r hr
  · rename_i hpc; exact inv_tryFail h hpc
  · -- subInit
    rename_i hpc
    split
    · exact inv_subInit h hpc _ _ _
    · exact inv_subInit h hpc _ _ _
  · -- sub
    rename_i prev hpc
    split
    · rename_i hseen
      by_cases hp : prev = Seen.null
      · subst hp
        simp only [if_true]
        exact inv_sub_null h _ hpc (seenOf_eq_null.1 hseen) _ _
      · have hr : s.req ≠ [] := fun e => hp (by rw [← hseen, e]; rfl)
        simp only [hp, if_false]
        split
        · rename_i hfl; exact inv_sub_park h _ hpc hr hfl _ _
        · rename_i hfl; exact inv_sub_wait h _ hpc hr (fun e => hfl e) _ _
    · exact inv_sub_fail h _ _ hpc
  · rename_i hpc; exact inv_build h hpc
  · -- waitFlag
    rename_i hpc
    split
    · rename_i hfl
      split
      · rename_i hf; exact inv_waitPassCb h (Or.inl hpc) hf hfl
      · rename_i hf; exact inv_waitBlock h hpc hf
    · rename_i hfl
      split
      · rename_i hf; exact inv_waitPass h (Or.inl hpc) hf hfl
      · rename_i hf; exact inv_waitBlock h hpc hf
  · -- blocked
    rename_i hpc
    have hf : s.flag a = true := by simpa [canRun, hpc] using hg
    split
    · rename_i hfl; exact inv_waitPassCb h (Or.inr hpc) hf hfl
    · rename_i hfl; exact inv_waitPass h (Or.inr hpc) hf hfl
  · rename_i hpc; exact inv_crit h hpc
  · rename_i hpc; exact inv_critS h hpc
  · -- afterCs
    rename_i hpc
    dsimp only
    split
    · rename_i hrel; exact inv_afterCsG h hpc hrel
    · exact inv_unlockStart h (Or.inl hpc) t (s.incs - 1) (by simp [hpc])
  · -- asg
    rename_i hpc
    exact inv_unlockStart h (Or.inr hpc) t s.incs (by simp [hpc])
  · rename_i hpc; exact inv_relBuild h hpc
  · rename_i hpc
    exact inv_handOver h (Or.inr (Or.inr hpc)) t s.incs (by simp [hpc]) s.held (h.relHand_facts hpc) (h.relH a hpc)
  · -- relDone
    rename_i hpc
    split
    · exact inv_relDoneG h hpc
    · rename_i hrel; exact inv_relDone h hpc (fun e => hrel e)

/-! ## the executor's bookkeeping is irrelevant -/

theorem handOver_exec_irrel (c : Cfg) (s : State) (t a : Nat) (cu : Nat → Option Nat) (r : Nat → List Nat) (tm : Nat → TMain) :
    core (handOver c { s with cur := cu, rq := r, tmain := tm } t a).1 = core (handOver c s t a).1 ∧
    (handOver c { s with cur := cu, rq := r, tmain := tm } t a).2 = (handOver c s t a).2 := by
  unfold handOver
  simp only [flOf_eq, relOf_eq, objOf_eq, setPc]
  split <;> (try split) <;> (try split) <;> (try split) <;> simp_all [core]

theorem unlockStart_exec_irrel (c : Cfg) (s : State) (t a : Nat) (cu : Nat → Option Nat) (r : Nat → List Nat) (tm : Nat → TMain) :
    core (unlockStart c { s with cur := cu, rq := r, tmain := tm } t a).1 = core (unlockStart c s t a).1 ∧
    (unlockStart c { s with cur := cu, rq := r, tmain := tm } t a).2 = (unlockStart c s t a).2 := by
  unfold unlockStart
  have e : objOf c { s with cur := cu, rq := r, tmain := tm } a = objOf c s a := rfl
  rw [e]
  by_cases hh : s.held (objOf c s a) = false
  · rw [if_pos hh, if_pos hh]; simp [core, setPc]
  · rw [if_neg hh, if_neg hh]
    dsimp only
    split
    · split <;> simp_all [core, setPc]
    · exact handOver_exec_irrel c { s with held := upd s.held (objOf c s a) false } t a cu r tm

theorem agentStep_exec_irrel (c : Cfg) (s : State) (t a : Nat) (cu : Nat → Option Nat) (r : Nat → List Nat) (tm : Nat → TMain) :
    core (agentStep c { s with cur := cu, rq := r, tmain := tm } t a).1 = core (agentStep c s t a).1 ∧
    (agentStep c { s with cur := cu, rq := r, tmain := tm } t a).2 = (agentStep c s t a).2 := by
  unfold agentStep
  simp only [flOf_eq, relOf_eq, objOf_eq, keyOf_eq, curRound]
  split
  case h_12 =>
    split
    · simp [core, setPc]
    · exact unlockStart_exec_irrel c { s with incs := s.incs - 1 } t a cu r tm
  case h_13 => exact unlockStart_exec_irrel c s t a cu r tm
  case h_15 => exact handOver_exec_irrel c s t a cu r tm
  case h_8 =>
    by_cases hcb : flR c a (s.round a) = some Flavour.cb <;> by_cases hf : s.flag a = true <;>
      simp [hcb, hf, core, setPc]
  case h_9 => by_cases hcb : flR c a (s.round a) = some Flavour.cb <;> simp [hcb, core, setPc]
  all_goals ((repeat' split) <;> simp_all [core, setPc])

theorem agentStep_core_congr (c : Cfg) {s1 s2 : State} (t a : Nat) (h : core s1 = core s2) :
    core (agentStep c s1 t a).1 = core (agentStep c s2 t a).1 ∧ (agentStep c s1 t a).2 = (agentStep c s2 t a).2 := by
  have h1 := agentStep_exec_irrel c s1 t a (fun _ => none) (fun _ => []) (fun _ => TMain.finished)
  have h2 := agentStep_exec_irrel c s2 t a (fun _ => none) (fun _ => []) (fun _ => TMain.finished)
  have e : ({ s1 with cur := fun _ => none, rq := fun _ => [], tmain := fun _ => TMain.finished } : State) =
           { s2 with cur := fun _ => none, rq := fun _ => [], tmain := fun _ => TMain.finished } := h
  rw [e] at h1
  exact ⟨h1.1.symm.trans h2.1, h1.2.symm.trans h2.2⟩

theorem canRun_core_congr {s1 s2 : State} (a : Nat) (h : core s1 = core s2) : canRun s1 a = canRun s2 a := by
  have hp : s1.pc = s2.pc := (congrArg State.pc h : (core s1).pc = (core s2).pc)
  have hf : s1.flag = s2.flag := (congrArg State.flag h : (core s1).flag = (core s2).flag)
  unfold canRun
  rw [hp, hf]

theorem inv_core (h : Inv c s) : Inv c (core s) :=
  ⟨h.excl, h.free, h.door, h.bld, h.relB, h.relH, h.cnt, h.kindP, h.kindW, h.subF, h.subFl, h.subI, h.stampQ, h.stampC, h.rnd, h.tryF,
   h.gr, h.greq, h.glog, h.incsA, h.incsN, h.failT, h.bldFirst, h.bldEnd, h.heldA, h.heldO, h.heldN, h.noBad, h.auxOk⟩

theorem inv_of_core (h : Inv c (core s)) : Inv c s :=
  ⟨h.excl, h.free, h.door, h.bld, h.relB, h.relH, h.cnt, h.kindP, h.kindW, h.subF, h.subFl, h.subI, h.stampQ, h.stampC, h.rnd, h.tryF,
   h.gr, h.greq, h.glog, h.incsA, h.incsN, h.failT, h.bldFirst, h.bldEnd, h.heldA, h.heldO, h.heldN, h.noBad, h.auxOk⟩

theorem inv_core_congr {s1 s2 : State} (e : core s1 = core s2) (h : Inv c s1) : Inv c s2 :=
  inv_of_core (e ▸ inv_core h)

/-! ## runs -/

theorem inv_arun : ∀ (l : List (Nat × Nat)) (s : State), Inv c s → Guarded c s l → Inv c (arun c s l) := by
  intro l
  induction l with
  | nil => intro s h _; exact h
  | cons p l ih =>
    intro s h hg
    exact ih _ (inv_step h p.1 hg.1) hg.2

theorem inv_reachable (hs : Reachable c s) : Inv c s := by
  obtain ⟨l, hg, e⟩ := hs
  exact inv_core_congr e.symm (inv_arun l _ (inv_init c) hg)

theorem reachable_init (c : Cfg) : Reachable c (init c) := ⟨[], trivial, rfl⟩

theorem arun_append (c : Cfg) (s : State) (l1 l2 : List (Nat × Nat)) : arun c s (l1 ++ l2) = arun c (arun c s l1) l2 := by
  simp [arun, List.foldl_append]

theorem guarded_append {c : Cfg} : ∀ (l1 : List (Nat × Nat)) (s : State) (l2 : List (Nat × Nat)),
    Guarded c s (l1 ++ l2) ↔ Guarded c s l1 ∧ Guarded c (arun c s l1) l2 := by
  intro l1
  induction l1 with
  | nil => intro s l2; simp [Guarded, arun]
  | cons p l ih => intro s l2; simp only [List.cons_append, Guarded, ih, arun, List.foldl_cons, and_assoc]

theorem run_core_congr (c : Cfg) : ∀ (l : List (Nat × Nat)) {s1 s2 : State}, core s1 = core s2 →
    (Guarded c s1 l ↔ Guarded c s2 l) ∧ core (arun c s1 l) = core (arun c s2 l) := by
  intro l
  induction l with
  | nil => intro s1 s2 h; exact ⟨Iff.rfl, h⟩
  | cons p l ih =>
    intro s1 s2 h
    have hstep := (agentStep_core_congr c p.1 p.2 h).1
    have := ih hstep
    simp only [Guarded, arun, List.foldl_cons, canRun_core_congr p.2 h]
    exact ⟨and_congr_right (fun _ => this.1), this.2⟩

theorem reachable_arun (hs : Reachable c s) (l : List (Nat × Nat)) (hg : Guarded c s l) : Reachable c (arun c s l) := by
  obtain ⟨l0, hgl, e⟩ := hs
  have := run_core_congr c l e
  exact ⟨l0 ++ l, (guarded_append _ _ _).2 ⟨hgl, this.1.1 hg⟩, by rw [arun_append]; exact this.2⟩

theorem reachable_step (hs : Reachable c s) (t : Nat) {a : Nat} (hg : canRun s a = true) :
    Reachable c (agentStep c s t a).1 :=
  reachable_arun hs [(t, a)] ⟨hg, trivial⟩

theorem reachable_core_congr {s1 s2 : State} (e : core s1 = core s2) (hs : Reachable c s1) : Reachable c s2 := by
  obtain ⟨l, hg, e1⟩ := hs
  exact ⟨l, hg, e.symm.trans e1⟩

/-! ## hand-over -/

/-- agent `x`'s next activity enters `unlock` past its fast path (if the queue is not empty it hands the lock over) -/
def unlocking (c : Cfg) (s : State) (x : Nat) : Prop :=
  (s.pc x = Pc.afterCs ∧ relOf c s x ≠ some Rel.g ∧ s.held (objOf c s x) = true) ∨
  (s.pc x = Pc.asg ∧ s.held (objOf c s x) = true) ∨ s.pc x = Pc.relHand

instance (c s x) : Decidable (unlocking c s x) := by unfold unlocking; infer_instance

/-- whom agent `x`'s next activity hands the lock to -/
def grantee (c : Cfg) (s : State) (x : Nat) : Option Nat :=
  if unlocking c s x then s.queue.head? else none

theorem handOver_spec (c : Cfg) (s : State) (t x b : Nat) (rest : List Nat) (hq : s.queue = b :: rest) :
    (handOver c s t x).1.queue = rest ∧ (handOver c s t x).1.req = s.req ∧
    (handOver c s t x).1.grants = upd s.grants b (s.grants b + 1) ∧
    (handOver c s t x).1.stamp = s.stamp ∧ (handOver c s t x).1.clock = s.clock ∧
    (handOver c s t x).1.pc = (if flOf c s b = some Flavour.co then upd (upd s.pc b Pc.crit) x Pc.relDone
                               else upd s.pc x Pc.relDone) ∧
    (handOver c s t x).1.flag = (if flOf c s b = some Flavour.co then s.flag else upd s.flag b true) ∧
    (handOver c s t x).1.round = s.round ∧
    (handOver c s t x).1.held = (if flOf c s b = some Flavour.cb then upd s.held (objOf c s b) true else s.held) := by
  unfold handOver
  simp only [hq, flOf_eq, relOf_eq, objOf_eq]
  split <;> (try split) <;> (try split) <;> simp_all [setPc]

theorem handOver_nil (c : Cfg) (s : State) (t x : Nat) (hq : s.queue = []) :
    (handOver c s t x).1 = setPc s x Pc.relDone := by
  unfold handOver; simp only [hq]

theorem agentStep_afterCs_g (c : Cfg) (s : State) (t x : Nat) (hA : s.pc x = Pc.afterCs) (hg : relOf c s x = some Rel.g) :
    agentStep c s t x = ({ setPc { s with incs := s.incs - 1 } x Pc.asg with aux := upd s.aux x true },
                         [Ev.auxCas t x true], Outcome.op) := by
  unfold agentStep
  simp only [hA]
  have e : relOf c { s with incs := s.incs - 1 } x = relOf c s x := rfl
  rw [e, hg]

theorem agentStep_afterCs_ng (c : Cfg) (s : State) (t x : Nat) (hA : s.pc x = Pc.afterCs) (hg : relOf c s x ≠ some Rel.g) :
    agentStep c s t x = unlockStart c { s with incs := s.incs - 1 } t x := by
  unfold agentStep
  simp only [hA]
  have e : relOf c { s with incs := s.incs - 1 } x = relOf c s x := rfl
  rw [e]
  split
  · rename_i h; exact absurd h hg
  · rfl

theorem agentStep_asg (c : Cfg) (s : State) (t x : Nat) (hS : s.pc x = Pc.asg) :
    agentStep c s t x = unlockStart c s t x := by
  unfold agentStep; simp only [hS]

theorem agentStep_relHand (c : Cfg) (s : State) (t x : Nat) (hR : s.pc x = Pc.relHand) :
    agentStep c s t x = handOver c s t x := by
  unfold agentStep; simp only [hR]

theorem unlockStart_cons (c : Cfg) (s : State) (t x b : Nat) (rest : List Nat) (hh : s.held (objOf c s x) = true)
    (hq : s.queue = b :: rest) :
    unlockStart c s t x = handOver c { s with held := upd s.held (objOf c s x) false } t x := by
  unfold unlockStart
  rw [if_neg (by simp [hh])]
  simp only [hq]

/-- effect of an activity of `x` on the other agents -/
structure Frame (c : Cfg) (s s' : State) (x : Nat) (g : Option Nat) : Prop where
  pc : ∀ a, a ≠ x → s'.pc a = if g = some a ∧ flOf c s a = some Flavour.co then Pc.crit else s.pc a
  flag : ∀ a, a ≠ x → s'.flag a = if g = some a ∧ flOf c s a ≠ some Flavour.co then true else s.flag a
  grants : ∀ a, a ≠ x → s'.grants a = if g = some a then s.grants a + 1 else s.grants a
  round : ∀ a, a ≠ x → s'.round a = s.round a

theorem frame_none {s' : State} {x : Nat} (hp : ∀ a, a ≠ x → s'.pc a = s.pc a) (hf : ∀ a, a ≠ x → s'.flag a = s.flag a)
    (hg : ∀ a, a ≠ x → s'.grants a = s.grants a) (hr : ∀ a, a ≠ x → s'.round a = s.round a) : Frame c s s' x none :=
  ⟨fun a ha => by simp [hp a ha], fun a ha => by simp [hf a ha], fun a ha => by simp [hg a ha], hr⟩

theorem handOver_frame (c : Cfg) (s : State) (t x : Nat) (hx : ∀ b, s.queue.head? = some b → b ≠ x) :
    Frame c s (handOver c s t x).1 x s.queue.head? := by
  cases hq : s.queue with
  | nil =>
    rw [handOver_nil c s t x hq]
    exact frame_none (fun a ha => by simp [setPc, ha]) (fun _ _ => rfl) (fun _ _ => rfl) (fun _ _ => rfl)
  | cons b rest =>
    obtain ⟨_, _, hg, _, _, hp, hf, hr, _⟩ := handOver_spec c s t x b rest hq
    have hbx : b ≠ x := hx b (by simp [hq])
    refine ⟨?_, ?_, ?_, ?_⟩
    · intro a ha
      rw [hp]
      by_cases hab : a = b
      · subst hab; by_cases hfl : flOf c s a = some Flavour.co <;> simp [hfl, ha]
      · have : ¬ b = a := fun e => hab e.symm
        by_cases hfl : flOf c s b = some Flavour.co <;> simp [hfl, ha, hab, this]
    · intro a ha
      rw [hf]
      by_cases hab : a = b
      · subst hab; by_cases hfl : flOf c s a = some Flavour.co <;> simp [hfl]
      · have : ¬ b = a := fun e => hab e.symm
        by_cases hfl : flOf c s b = some Flavour.co <;> simp [hfl, hab, this]
    · intro a ha
      rw [hg]
      by_cases hab : a = b
      · subst hab; simp
      · have : ¬ b = a := fun e => hab e.symm
        simp [hab, this]
    · intro a _; rw [hr]

theorem frame_congr {s1 s2 s' : State} {x : Nat} {g : Option Nat} (h : Frame c s1 s' x g)
    (hp : s1.pc = s2.pc) (hf : s1.flag = s2.flag) (hg : s1.grants = s2.grants) (hr : s1.round = s2.round) :
    Frame c s2 s' x g := by
  have hfl : ∀ a, flOf c s1 a = flOf c s2 a := fun a => by simp only [flOf_eq, hr]
  exact ⟨fun a ha => by rw [h.pc a ha, hfl, hp], fun a ha => by rw [h.flag a ha, hfl, hf],
         fun a ha => by rw [h.grants a ha, hg], fun a ha => by rw [h.round a ha, hr]⟩

theorem unlockStart_frame (c : Cfg) (s : State) (t x : Nat)
    (hx : s.held (objOf c s x) = true → ∀ b, s.queue.head? = some b → b ≠ x) :
    Frame c s (unlockStart c s t x).1 x (if s.held (objOf c s x) = true then s.queue.head? else none) := by
  unfold unlockStart
  by_cases hh : s.held (objOf c s x) = false
  · rw [if_pos hh, if_neg (by simp [hh])]
    exact frame_none (fun a ha => by simp [setPc, ha]) (fun _ _ => rfl) (fun _ _ => rfl) (fun _ _ => rfl)
  · rw [if_neg hh, if_pos (by simpa using hh)]
    dsimp only
    cases hq : s.queue with
    | nil =>
      dsimp only
      split
      · exact frame_none (fun a ha => by simp [setPc, ha]) (fun _ _ => rfl) (fun _ _ => rfl) (fun _ _ => rfl)
      · exact frame_none (fun a ha => by simp [setPc, ha]) (fun _ _ => rfl) (fun _ _ => rfl) (fun _ _ => rfl)
    | cons b rest =>
      dsimp only
      have := handOver_frame c { s with held := upd s.held (objOf c s x) false } t x (hx (by simpa using hh))
      rw [show ({ s with held := upd s.held (objOf c s x) false } : State).queue = s.queue from rfl, hq] at this
      exact frame_congr this rfl rfl rfl rfl

/-- **frame of an activity**: an activity of `x` changes pc / flag / grant counter of another agent only by handing the
    lock over to it -/
theorem step_frame (c : Cfg) (s : State) (t x : Nat) (hx : ∀ b, grantee c s x = some b → b ≠ x) :
    Frame c s (agentStep c s t x).1 x (grantee c s x) := by
  by_cases hA : s.pc x = Pc.afterCs
  · by_cases hg : relOf c s x = some Rel.g
    · have e : grantee c s x = none := by simp [grantee, unlocking, hA, hg]
      rw [e, agentStep_afterCs_g c s t x hA hg]
      exact frame_none (fun a ha => by simp [setPc, ha]) (fun _ _ => rfl) (fun _ _ => rfl) (fun _ _ => rfl)
    · have e : grantee c s x = (if s.held (objOf c s x) = true then s.queue.head? else none) := by
        simp [grantee, unlocking, hA, hg]
      rw [e] at hx ⊢
      rw [agentStep_afterCs_ng c s t x hA hg]
      exact frame_congr (unlockStart_frame c { s with incs := s.incs - 1 } t x
        (fun hh b hb => hx b (by rw [if_pos (show s.held (objOf c s x) = true from hh)]; exact hb))) rfl rfl rfl rfl
  by_cases hS : s.pc x = Pc.asg
  · have e : grantee c s x = (if s.held (objOf c s x) = true then s.queue.head? else none) := by
      simp [grantee, unlocking, hS]
    rw [e] at hx ⊢
    rw [agentStep_asg c s t x hS]
    exact unlockStart_frame c s t x (fun hh b hb => hx b (by rw [if_pos hh]; exact hb))
  by_cases hR : s.pc x = Pc.relHand
  · have e : grantee c s x = s.queue.head? := by simp [grantee, unlocking, hR]
    rw [e] at hx ⊢
    rw [agentStep_relHand c s t x hR]
    exact handOver_frame c s t x hx
  · have e : grantee c s x = none := by simp [grantee, unlocking, hA, hS, hR]
    rw [e]
    apply frame_none
    all_goals
      intro a ha
      unfold agentStep
      (repeat' split) <;> simp_all [setPc]

/-- the step that hands the lock over is `handOver` with the head of the queue -/
theorem step_handOver (c : Cfg) (s : State) (t x b : Nat) (hg : grantee c s x = some b) :
    ∃ k hd, (agentStep c s t x).1 = (handOver c { s with incs := k, held := hd } t x).1 ∧ ∃ rest, s.queue = b :: rest := by
  unfold grantee at hg
  split at hg
  · rename_i hu
    have hq : ∃ rest, s.queue = b :: rest := by
      cases hq : s.queue with
      | nil => simp [hq] at hg
      | cons b' rest => simp [hq] at hg; exact ⟨rest, by rw [hg]⟩
    obtain ⟨rest, hq⟩ := hq
    rcases hu with ⟨hpc, hrel, hh⟩ | ⟨hpc, hh⟩ | hpc
    · refine ⟨s.incs - 1, upd s.held (objOf c s x) false, ?_, rest, hq⟩
      rw [agentStep_afterCs_ng c s t x hpc hrel, unlockStart_cons c { s with incs := s.incs - 1 } t x b rest hh hq]
      rfl
    · refine ⟨s.incs, upd s.held (objOf c s x) false, ?_, rest, hq⟩
      rw [agentStep_asg c s t x hpc, unlockStart_cons c s t x b rest hh hq]
    · refine ⟨s.incs, s.held, ?_, rest, hq⟩
      rw [agentStep_relHand c s t x hpc]
  · simp at hg

/-- the agent that is handed the lock is a waiting one, hence not the releasing owner -/
theorem Inv.grantee_facts (h : Inv c s) {x b : Nat} (hg : grantee c s x = some b) :
    Owner s x ∧ isWaiting (s.pc b) (s.flag b) = true ∧ b ≠ x ∧ ∃ rest, s.queue = b :: rest := by
  unfold grantee at hg
  split at hg
  · rename_i hu
    have hq : ∃ rest, s.queue = b :: rest := by
      cases hq : s.queue with
      | nil => simp [hq] at hg
      | cons b' rest => simp [hq] at hg; exact ⟨rest, by rw [hg]⟩
    obtain ⟨rest, hq⟩ := hq
    obtain ⟨hw, _, _, _⟩ := h.head_facts hq
    have hown : Owner s x := by
      rcases hu with ⟨e, _⟩ | ⟨e, _⟩ | e <;> simp [Owner, e, isOwner]
    refine ⟨hown, hw, ?_, rest, hq⟩
    rintro rfl
    unfold Owner at hown
    generalize s.pc b = p at *
    cases p <;> simp_all [isOwner, isWaiting]
  · cases hg

theorem Inv.step_frame (h : Inv c s) (t x : Nat) : Frame c s (agentStep c s t x).1 x (grantee c s x) :=
  Cocls.Mutex.step_frame c s t x (fun _ hb => (h.grantee_facts hb).2.2.1)

/-! ## events, pending list -/

theorem handOver_no_cs (c : Cfg) (s : State) (t a x r : Nat) (ov : Bool) : Ev.cs x r ov ∉ (handOver c s t a).2.1 := by
  unfold handOver
  simp only [flOf_eq, relOf_eq]
  split
  · simp
  · split
    · split
      · simp
      · split <;> simp
    · simp
    · simp

theorem unlockStart_no_cs (c : Cfg) (s : State) (t a x r : Nat) (ov : Bool) : Ev.cs x r ov ∉ (unlockStart c s t a).2.1 := by
  unfold unlockStart
  split
  · simp
  · dsimp only
    split
    · split <;> simp
    · exact handOver_no_cs _ _ _ _ _ _ _

/-- the only activity that emits a critical-section event is the `crit`/`critS` step of the agent itself -/
theorem step_cs_event (c : Cfg) (s : State) (t a x r : Nat) (ov : Bool) (h : Ev.cs x r ov ∈ (agentStep c s t a).2.1) :
    (s.pc a = Pc.crit ∨ s.pc a = Pc.critS) ∧ x = a ∧ r = s.round a ∧ ov = decide (s.incs > 0) := by
  unfold agentStep at h
  split at h
  case h_10 hpc => simp at h; simp [hpc, h]
  case h_11 hpc => simp at h; simp [hpc, h]
  case h_12 =>
    dsimp only at h
    split at h
    · simp at h
    · exact absurd h (unlockStart_no_cs _ _ _ _ _ _ _)
  case h_13 => exact absurd h (unlockStart_no_cs _ _ _ _ _ _ _)
  case h_15 => exact absurd h (handOver_no_cs _ _ _ _ _ _ _)
  all_goals ((repeat' split at h) <;> (try simp at h))

theorem pending_sublist (s : State) : (pending s).Sublist (s.queue ++ (nodesOf s.req).reverse) :=
  List.Sublist.append (List.Sublist.refl _) (List.reverse_sublist.2 List.filter_sublist)

theorem owner_canRun {s : State} {a : Nat} (h : Owner s a) : canRun s a = true := by
  unfold Owner at h
  unfold canRun
  generalize s.pc a = p at *
  cases p <;> simp_all [isOwner]

/-! ## OS-thread level: every `threadStep` is a sequence of guarded agent activities -/

/-- what an activity does to the executor's bookkeeping -/
structure ExecEffect (c : Cfg) (s s' : State) (t a : Nat) : Prop where
  tmain : s'.tmain = s.tmain
  other : ∀ t', t' ≠ t → s'.cur t' = s.cur t' ∧ s'.rq t' = s.rq t'
  cur : ∀ b, s'.cur t = some b → s.cur t = some b ∨ c.kind b = AKind.coro
  rq : ∀ b, b ∈ s'.rq t → b ∈ s.rq t ∨ c.kind b = AKind.coro
  blocked : s'.pc a = Pc.blocked → s'.cur = s.cur ∧ s'.rq = s.rq

/-- thread-level well-formedness: besides `WF`, a coroutine contender never blocks its OS thread (no blocking lock /
    callback wait issued from inside a coroutine).  The agent-level theorems do not need it; the transfer to OS threads
    does, because a blocked thread does not run the coroutines queued on it (the library asserts against `wait()` in a
    coroutine for that reason). -/
def Cfg.WFT (c : Cfg) : Prop :=
  c.WF ∧ ∀ a r, r ∈ c.rounds a → c.kind a = AKind.coro → r.fl = Flavour.co ∨ r.fl = Flavour.try_

theorem flOf_mem {f : Flavour} (h : flOf c s a = some f) : ∃ r, r ∈ c.rounds a ∧ r.fl = f := by
  unfold flOf curRound at h
  cases hr : (c.rounds a)[s.round a]? with
  | none => simp [hr] at h
  | some r => simp [hr] at h; exact ⟨r, List.mem_of_getElem? hr, h⟩

theorem wf_co (hwf : c.WF) (h : flOf c s a = some Flavour.co) : c.kind a = AKind.coro := by
  obtain ⟨r, hm, hf⟩ := flOf_mem h
  exact hwf a r hm hf

theorem Inv.kindP' (h : Inv c s) (hwf : c.WF) (hp : s.pc a = Pc.parked) : c.kind a = AKind.coro :=
  wf_co hwf (h.kindP a hp)

theorem Inv.kindW' (h : Inv c s) (hwf : c.WFT) (hp : s.pc a = Pc.waitFlag ∨ s.pc a = Pc.blocked) :
    c.kind a = AKind.sync := by
  cases hk : c.kind a with
  | sync => rfl
  | coro =>
    exfalso
    rcases h.kindW a hp with e | e
    · obtain ⟨r, hm, hf⟩ := flOf_mem e
      rcases hwf.2 a r hm hk with e2 | e2 <;> rw [hf] at e2 <;> cases e2
    · obtain ⟨r, hm, hf⟩ := flOf_mem e
      rcases hwf.2 a r hm hk with e2 | e2 <;> rw [hf] at e2 <;> cases e2

theorem execEffect_same {s' : State} {t : Nat} (h1 : s'.tmain = s.tmain) (h2 : s'.cur = s.cur) (h3 : s'.rq = s.rq) :
    ExecEffect c s s' t a :=
  ⟨h1, fun _ _ => by rw [h2, h3]; exact ⟨rfl, rfl⟩, fun b hb => Or.inl (h2 ▸ hb), fun b hb => Or.inl (h3 ▸ hb),
   fun _ => ⟨h2, h3⟩⟩

theorem handOver_exec (hwf : c.WF) (s : State) (t a : Nat) : ExecEffect c s (handOver c s t a).1 t a := by
  cases hq : s.queue with
  | nil =>
    rw [handOver_nil c s t a hq]
    exact execEffect_same rfl rfl rfl
  | cons b rest =>
    have hco := wf_co hwf (s := s) (a := b)
    unfold handOver
    simp only [hq]
    have e : flOf c { s with queue := rest, grants := upd s.grants b (s.grants b + 1),
                             grantReqs := s.grantReqs ++ [(b, s.round b)] } b = flOf c s b := rfl
    rw [e]
    split
    · rename_i hfl
      have hkb := hco hfl
      cases hka : c.kind a with
      | sync => constructor <;> simp [setPc, upd_apply] <;> grind
      | coro =>
        dsimp only
        split <;> constructor <;> simp [setPc, upd_apply] <;> grind
    · exact execEffect_same rfl rfl rfl
    · exact execEffect_same rfl rfl rfl

theorem execEffect_congr {s1 s2 s' : State} {t a : Nat} (h : ExecEffect c s1 s' t a)
    (h1 : s1.tmain = s2.tmain) (h2 : s1.cur = s2.cur) (h3 : s1.rq = s2.rq) : ExecEffect c s2 s' t a :=
  ⟨h1 ▸ h.tmain, fun t' ht => by rw [← h2, ← h3]; exact h.other t' ht, fun b hb => by rw [← h2]; exact h.cur b hb,
   fun b hb => by rw [← h3]; exact h.rq b hb, fun hb => by rw [← h2, ← h3]; exact h.blocked hb⟩

theorem unlockStart_exec (hwf : c.WF) (s : State) (t a : Nat) : ExecEffect c s (unlockStart c s t a).1 t a := by
  unfold unlockStart
  split
  · exact execEffect_same rfl rfl rfl
  · dsimp only
    split
    · split <;> exact execEffect_same rfl rfl rfl
    · exact execEffect_congr (handOver_exec hwf { s with held := upd s.held (objOf c s a) false } t a) rfl rfl rfl

theorem agentStep_exec (hwf : c.WF) (s : State) (t a : Nat) : ExecEffect c s (agentStep c s t a).1 t a := by
  by_cases hA : s.pc a = Pc.afterCs
  · by_cases hg : relOf c s a = some Rel.g
    · rw [agentStep_afterCs_g c s t a hA hg]; exact execEffect_same rfl rfl rfl
    · rw [agentStep_afterCs_ng c s t a hA hg]
      exact execEffect_congr (unlockStart_exec hwf { s with incs := s.incs - 1 } t a) rfl rfl rfl
  by_cases hS : s.pc a = Pc.asg
  · rw [agentStep_asg c s t a hS]; exact unlockStart_exec hwf s t a
  by_cases hR : s.pc a = Pc.relHand
  · rw [agentStep_relHand c s t a hR]; exact handOver_exec hwf s t a
  unfold agentStep
  split
  case h_6 prev hpc =>
    split
    · by_cases hc : prev ≠ Seen.null ∧ flOf c s a = some Flavour.co
      · have hk := wf_co hwf hc.2
        rw [if_pos hc]; constructor <;> simp [setPc, upd_apply] <;> grind
      · rw [if_neg hc]; constructor <;> simp [setPc] <;> grind
    · constructor <;> simp [setPc] <;> grind
  all_goals first | (exact absurd ‹_› hA) | (exact absurd ‹_› hS) | (exact absurd ‹_› hR) | skip
  all_goals ((repeat' split) <;> constructor <;> simp [setPc] <;> grind)

theorem handOver_pc_self (c : Cfg) (s : State) (t a : Nat) : (handOver c s t a).1.pc a = Pc.relDone := by
  cases hq : s.queue with
  | nil => simp [handOver_nil c s t a hq, setPc]
  | cons b rest =>
    rw [(handOver_spec c s t a b rest hq).2.2.2.2.2.1]
    split <;> simp

theorem unlockStart_pc_self (c : Cfg) (s : State) (t a : Nat) :
    (unlockStart c s t a).1.pc a = Pc.relDone ∨ (unlockStart c s t a).1.pc a = Pc.relBuild := by
  unfold unlockStart
  split
  · simp [setPc]
  · dsimp only
    split
    · split <;> simp [setPc]
    · left; exact handOver_pc_self c _ t a

/-- an agent becomes `blocked` only by the step that blocks its thread -/
theorem agentStep_blocked_outcome (c : Cfg) (s : State) (t a : Nat) (h : (agentStep c s t a).1.pc a = Pc.blocked) :
    (agentStep c s t a).2.2 = Outcome.blockedT := by
  by_cases hA : s.pc a = Pc.afterCs
  · by_cases hg : relOf c s a = some Rel.g
    · rw [agentStep_afterCs_g c s t a hA hg] at h; simp [setPc] at h
    · rw [agentStep_afterCs_ng c s t a hA hg] at h
      rcases unlockStart_pc_self c { s with incs := s.incs - 1 } t a with e | e <;> rw [e] at h <;> cases h
  by_cases hS : s.pc a = Pc.asg
  · rw [agentStep_asg c s t a hS] at h
    rcases unlockStart_pc_self c s t a with e | e <;> rw [e] at h <;> cases h
  by_cases hR : s.pc a = Pc.relHand
  · rw [agentStep_relHand c s t a hR] at h
    rw [handOver_pc_self] at h; cases h
  unfold agentStep at h ⊢
  split
  all_goals first | (exact absurd ‹_› hA) | (exact absurd ‹_› hS) | (exact absurd ‹_› hR) | skip
  all_goals simp only [*] at h
  all_goals ((repeat' split at h) <;> simp_all [setPc])

/-- executor invariant of the thread-level runs -/
structure TInv (c : Cfg) (s : State) : Prop where
  curK : ∀ t b, s.cur t = some b → c.kind b = AKind.coro
  rqK : ∀ t b, b ∈ s.rq t → c.kind b = AKind.coro
  blk : ∀ t, s.tmain t = TMain.syncBody → s.pc t = Pc.blocked → s.cur t = none ∧ s.rq t = []
  startK : ∀ t, s.tmain t = TMain.coroStart → c.kind t = AKind.coro
  syncK : ∀ t, s.tmain t = TMain.syncBody → c.kind t = AKind.sync

theorem tinv_init (c : Cfg) : TInv c (init c) := by
  constructor <;> simp only [init]
  · intro t b h; cases h
  · intro t b h; cases h
  · intro t _ _; exact ⟨trivial, trivial⟩
  · intro t; split
    · split
      · intro h; cases h
      · rename_i hk; intro _; cases hc : c.kind t
        · exact absurd hc hk
        · rfl
    · intro h; cases h
  · intro t; split
    · split
      · rename_i hk; intro _; exact hk
      · intro h; cases h
    · intro h; cases h

/-- an activity as `threadStep` issues it: a blocking contender runs as the body of its own thread with nothing else
    on that thread, a coroutine runs as the thread's current coroutine -/
def RunsAs (c : Cfg) (s : State) (t a : Nat) : Prop :=
  (c.kind a = AKind.sync ∧ t = a ∧ s.cur a = none ∧ s.rq a = []) ∨ (c.kind a = AKind.coro ∧ s.cur t = some a)

theorem tinv_agentStep {t a : Nat} (hwf : c.WF) (hI : Inv c s) (hT : TInv c s) (hrun : RunsAs c s t a) :
    TInv c (agentStep c s t a).1 := by
  have hE := agentStep_exec hwf s t a
  have hpo := (hI.step_frame t a).pc
  refine ⟨?_, ?_, ?_, ?_, ?_⟩
  · intro t' b hb
    by_cases ht : t' = t
    · subst ht; rcases hE.cur b hb with h | h
      · exact hT.curK _ _ h
      · exact h
    · rw [(hE.other t' ht).1] at hb; exact hT.curK _ _ hb
  · intro t' b hb
    by_cases ht : t' = t
    · subst ht; rcases hE.rq b hb with h | h
      · exact hT.rqK _ _ h
      · exact h
    · rw [(hE.other t' ht).2] at hb; exact hT.rqK _ _ hb
  · intro t' htm hpc
    rw [hE.tmain] at htm
    have hks := hT.syncK t' htm
    by_cases hta : t' = a
    · subst hta
      rcases hrun with ⟨_, rfl, hc, hr⟩ | ⟨hk, _⟩
      · obtain ⟨e1, e2⟩ := hE.blocked hpc
        rw [e1, e2]; exact ⟨hc, hr⟩
      · rw [hk] at hks; cases hks
    · have hpc0 : s.pc t' = Pc.blocked := by
        rw [hpo t' hta] at hpc
        split at hpc
        · cases hpc
        · exact hpc
      have hb := hT.blk t' htm hpc0
      by_cases ht : t' = t
      · subst ht
        rcases hrun with ⟨_, e, _, _⟩ | ⟨_, hc⟩
        · exact absurd e hta
        · rw [hb.1] at hc; cases hc
      · rw [(hE.other t' ht).1, (hE.other t' ht).2]; exact hb
  · intro t' h; rw [hE.tmain] at h; exact hT.startK t' h
  · intro t' h; rw [hE.tmain] at h; exact hT.syncK t' h

/-- what the scheduler guarantees through `enabled`: a thread blocked in `flag.wait` is only run when its flag is set -/
def WakeOk (s : State) (t : Nat) : Prop :=
  s.cur t = none → s.rq t = [] → s.tmain t = TMain.syncBody → s.pc t = Pc.blocked → s.flag t = true

theorem wakeOk_of_enabled {t : Nat} (h : enabled s t = true) : WakeOk s t := by
  intro hc hr htm hpc
  unfold enabled at h
  simp [htm, hc, hr, hpc] at h
  exact h

theorem agentStep_noop {t a : Nat} (h : canRun s a = false) (hw : s.pc a = Pc.blocked → s.flag a = true) :
    (agentStep c s t a).1 = s := by
  unfold canRun at h
  unfold agentStep
  split <;> simp_all

/-- one activity issued by `threadStep` is a guarded agent activity or a no-op (parked / finished coroutine) -/
theorem sim_act (hwf : c.WF) {t a : Nat} (hI : Inv c s) (hT : TInv c s) (hrun : RunsAs c s t a)
    (hw : s.pc a = Pc.blocked → s.flag a = true) :
    ∃ l0, Guarded c s l0 ∧ (agentStep c s t a).1 = arun c s l0 ∧ Inv c (agentStep c s t a).1 ∧
      TInv c (agentStep c s t a).1 := by
  by_cases hc : canRun s a = true
  · exact ⟨[(t, a)], ⟨hc, trivial⟩, rfl, inv_step hI t hc, tinv_agentStep hwf hI hT hrun⟩
  · have hc' : canRun s a = false := by simpa using hc
    have := agentStep_noop (c := c) (t := t) hc' hw
    exact ⟨[], trivial, this, by rw [this]; exact hI, by rw [this]; exact hT⟩

/-! ## OS-thread level: no runnable coroutine is ever lost by the executor glue (deadlock freedom for threads) -/

/-- where the executor glue puts agents (`g`: whom the activity hands the lock to) -/
structure Placement (c : Cfg) (s s' : State) (t a : Nat) (g : Option Nat) (o : Outcome) : Prop where
  /-- nothing leaves the thread's ready queue -/
  rqMono : ∀ x, x ∈ s.rq t → x ∈ s'.rq t
  /-- a coroutine that is handed the lock is put on this thread (current coroutine or ready queue) -/
  granted : ∀ b, g = some b → flOf c s b = some Flavour.co → s'.cur t = some b ∨ b ∈ s'.rq t
  /-- the running coroutine stays on the thread unless it parked or finished -/
  self : c.kind a = AKind.coro → s.cur t = some a → s'.cur t = some a ∨ a ∈ s'.rq t ∨ s'.pc a = Pc.parked ∨ s'.pc a = Pc.done
  fin : o = Outcome.finished → s'.pc a = Pc.done ∧ s'.cur = s.cur ∧ s'.rq = s.rq
  susp : o = Outcome.suspended → s'.pc a = Pc.parked ∨ a ∈ s'.rq t

theorem placement_same {s' : State} {t : Nat} {o : Outcome} (h2 : s'.cur = s.cur) (h3 : s'.rq = s.rq)
    (hf : o = Outcome.finished → s'.pc a = Pc.done) (hs : o = Outcome.suspended → s'.pc a = Pc.parked) :
    Placement c s s' t a none o := by
  refine ⟨?_, ?_, ?_, ?_, ?_⟩
  · intro x hx; rw [h3]; exact hx
  · intro b h; cases h
  · intro _ hc; left; rw [h2]; exact hc
  · intro e; exact ⟨hf e, h2, h3⟩
  · intro e; exact Or.inl (hs e)

theorem handOver_place (c : Cfg) (s : State) (t a : Nat) :
    Placement c s (handOver c s t a).1 t a s.queue.head? (handOver c s t a).2.2 := by
  cases hq : s.queue with
  | nil =>
    unfold handOver
    simp only [hq]
    exact placement_same rfl rfl (by simp) (by simp)
  | cons b rest =>
    unfold handOver
    simp only [hq]
    have e : flOf c { s with queue := rest, grants := upd s.grants b (s.grants b + 1),
                             grantReqs := s.grantReqs ++ [(b, s.round b)] } b = flOf c s b := rfl
    rw [e]
    split
    · rename_i hfl
      cases hka : c.kind a with
      | sync => constructor <;> simp [setPc] <;> grind
      | coro =>
        dsimp only
        split <;> constructor <;> simp [setPc] <;> grind
    · rename_i hfl
      constructor <;> simp [setPc, hfl] <;> grind
    · rename_i hn1 hn2
      constructor <;> simp [setPc] <;> grind

theorem placement_congr {s1 s2 s' : State} {t a : Nat} {g : Option Nat} {o : Outcome} (h : Placement c s1 s' t a g o)
    (h2 : s1.cur = s2.cur) (h3 : s1.rq = s2.rq) (h4 : s1.round = s2.round) : Placement c s2 s' t a g o := by
  have hfl : ∀ b, flOf c s1 b = flOf c s2 b := fun b => by simp only [flOf_eq, h4]
  refine ⟨?_, ?_, ?_, ?_, h.susp⟩
  · intro x hx; exact h.rqMono x (by rw [h3]; exact hx)
  · intro b hb hf; exact h.granted b hb (by rw [hfl]; exact hf)
  · intro hk hc; exact h.self hk (by rw [h2]; exact hc)
  · intro e; rw [← h2, ← h3]; exact h.fin e

theorem unlockStart_place (c : Cfg) (s : State) (t a : Nat) :
    Placement c s (unlockStart c s t a).1 t a (if s.held (objOf c s a) = true then s.queue.head? else none)
      (unlockStart c s t a).2.2 := by
  unfold unlockStart
  by_cases hh : s.held (objOf c s a) = false
  · rw [if_pos hh, if_neg (by simp [hh])]
    exact placement_same rfl rfl (by simp) (by simp)
  · rw [if_neg hh, if_pos (by simpa using hh)]
    dsimp only
    cases hq : s.queue with
    | nil =>
      dsimp only
      split <;> exact placement_same rfl rfl (by simp) (by simp)
    | cons b rest =>
      dsimp only
      have := handOver_place c { s with held := upd s.held (objOf c s a) false } t a
      rw [show ({ s with held := upd s.held (objOf c s a) false } : State).queue = s.queue from rfl, hq] at this
      exact placement_congr this rfl rfl rfl

theorem agentStep_place (c : Cfg) (s : State) (t a : Nat) :
    Placement c s (agentStep c s t a).1 t a (grantee c s a) (agentStep c s t a).2.2 := by
  by_cases hA : s.pc a = Pc.afterCs
  · by_cases hg : relOf c s a = some Rel.g
    · have e : grantee c s a = none := by simp [grantee, unlocking, hA, hg]
      rw [e, agentStep_afterCs_g c s t a hA hg]
      exact placement_same rfl rfl (by simp) (by simp)
    · have e : grantee c s a = (if s.held (objOf c s a) = true then s.queue.head? else none) := by
        simp [grantee, unlocking, hA, hg]
      rw [e, agentStep_afterCs_ng c s t a hA hg]
      exact placement_congr (unlockStart_place c { s with incs := s.incs - 1 } t a) rfl rfl rfl
  by_cases hS : s.pc a = Pc.asg
  · have e : grantee c s a = (if s.held (objOf c s a) = true then s.queue.head? else none) := by
      simp [grantee, unlocking, hS]
    rw [e, agentStep_asg c s t a hS]
    exact unlockStart_place c s t a
  by_cases hR : s.pc a = Pc.relHand
  · have e : grantee c s a = s.queue.head? := by simp [grantee, unlocking, hR]
    rw [e, agentStep_relHand c s t a hR]
    exact handOver_place c s t a
  · have e : grantee c s a = none := by simp [grantee, unlocking, hA, hS, hR]
    rw [e]
    unfold agentStep
    split
    all_goals first | (exact absurd ‹_› hA) | (exact absurd ‹_› hS) | (exact absurd ‹_› hR) | skip
    all_goals ((repeat' split) <;> constructor <;> simp_all [setPc] <;> grind)

/-- location invariant of the thread-level runs: every runnable coroutine is hosted by a live thread -/
structure LInv (c : Cfg) (s : State) : Prop where
  loc : ∀ a, c.kind a = AKind.coro → canRun s a = true →
          (∃ t, s.cur t = some a ∨ a ∈ s.rq t) ∨ s.tmain a = TMain.coroStart
  live : ∀ t, (s.cur t ≠ none ∨ s.rq t ≠ []) → s.tmain t ≠ TMain.finished
  syncLive : ∀ a, c.kind a = AKind.sync → s.pc a ≠ Pc.done → s.tmain a = TMain.syncBody

theorem linv_init (c : Cfg) : LInv c (init c) := by
  refine ⟨?_, ?_, ?_⟩
  · intro a hk hcan
    right
    by_cases h : a < c.n
    · simp [init, h, hk]
    · simp [init, canRun, h] at hcan
  · intro t h; simp [init] at h
  · intro a hk hpc
    by_cases h : a < c.n
    · simp [init, h, hk]
    · simp [init, h] at hpc

theorem linv_agentStep {t a : Nat} (hwf : c.WFT) (hI : Inv c s) (hL : LInv c s) (hrun : RunsAs c s t a)
    (hlive : s.tmain t ≠ TMain.finished) : LInv c (agentStep c s t a).1 := by
  have hE := agentStep_exec hwf.1 s t a
  have hP := agentStep_place c s t a
  have hpo := (hI.step_frame t a).pc
  refine ⟨?_, ?_, ?_⟩
  · intro x hkx hcan
    by_cases hxa : x = a
    · subst hxa
      rcases hrun with ⟨hk, _⟩ | ⟨_, hc⟩
      · rw [hk] at hkx; cases hkx
      · rcases hP.self hkx hc with h | h | h | h
        · exact Or.inl ⟨t, Or.inl h⟩
        · exact Or.inl ⟨t, Or.inr h⟩
        · simp [canRun, h] at hcan
        · simp [canRun, h] at hcan
    · by_cases hg : grantee c s a = some x ∧ flOf c s x = some Flavour.co
      · exact Or.inl ⟨t, hP.granted x hg.1 hg.2⟩
      · have hpc : (agentStep c s t a).1.pc x = s.pc x := by rw [hpo x hxa, if_neg hg]
        have hnb : s.pc x ≠ Pc.blocked := by
          intro h; have := hI.kindW' hwf (Or.inr h); rw [hkx] at this; cases this
        have hcan0 : canRun s x = true := by
          unfold canRun at hcan ⊢
          rw [hpc] at hcan
          generalize s.pc x = p at *
          cases p <;> simp_all
        rcases hL.loc x hkx hcan0 with ⟨t', h⟩ | h
        · left
          by_cases ht : t' = t
          · subst ht
            rcases h with h | h
            · exfalso
              rcases hrun with ⟨_, e, hc, _⟩ | ⟨_, hc⟩
              · subst e; rw [hc] at h; cases h
              · rw [hc] at h; exact hxa (Option.some.inj h).symm
            · exact ⟨t', Or.inr (hP.rqMono x h)⟩
          · exact ⟨t', by rw [(hE.other t' ht).1, (hE.other t' ht).2]; exact h⟩
        · right; rw [hE.tmain]; exact h
  · intro t' h
    rw [hE.tmain]
    by_cases ht : t' = t
    · subst ht; exact hlive
    · rw [(hE.other t' ht).1, (hE.other t' ht).2] at h; exact hL.live t' h
  · intro x hkx hpc
    rw [hE.tmain]
    apply hL.syncLive x hkx
    intro hd
    by_cases hxa : x = a
    · subst hxa
      have := agentStep_noop (c := c) (t := t) (s := s) (a := x) (by simp [canRun, hd]) (by simp [hd])
      rw [this] at hpc; exact hpc hd
    · rw [hpo x hxa] at hpc
      split at hpc
      · rename_i h; have := wf_co hwf.1 h.2; rw [hkx] at this; cases this
      · exact hpc hd

theorem linv_clear_cur (hL : LInv c s) {t b : Nat} (hb : s.cur t = some b) (hnr : canRun s b = false ∨ b ∈ s.rq t) :
    LInv c { s with cur := upd s.cur t none } := by
  obtain ⟨h1, h2, h3⟩ := hL
  refine ⟨?_, ?_, h3⟩
  · intro x hkx hcan'
    have hcan : canRun s x = true := hcan'
    clear hcan'
    rcases h1 x hkx hcan with ⟨t', h⟩ | h
    · left
      by_cases ht : t' = t
      · subst ht
        rcases h with h | h
        · rw [hb] at h
          have hxb : b = x := Option.some.inj h
          subst hxb
          rcases hnr with hn | hn
          · rw [hn] at hcan; cases hcan
          · exact ⟨t', Or.inr hn⟩
        · exact ⟨t', Or.inr h⟩
      · exact ⟨t', by simpa [upd_apply, ht] using h⟩
    · exact Or.inr h
  · intro t' h
    apply h2 t'
    by_cases ht : t' = t
    · subst ht; simp at h; exact Or.inr h
    · simpa [upd_apply, ht] using h

theorem linv_pop (hL : LInv c s) {t b : Nat} {rest : List Nat} (hcur : s.cur t = none) (hrq : s.rq t = b :: rest) :
    LInv c { s with rq := upd s.rq t rest, cur := upd s.cur t (some b) } := by
  obtain ⟨h1, h2, h3⟩ := hL
  refine ⟨?_, ?_, h3⟩
  · intro x hkx hcan'
    have hcan : canRun s x = true := hcan'
    clear hcan'
    rcases h1 x hkx hcan with ⟨t', h⟩ | h
    · left
      by_cases ht : t' = t
      · subst ht
        rcases h with h | h
        · rw [hcur] at h; cases h
        · rw [hrq] at h
          rcases List.mem_cons.1 h with e | e
          · exact ⟨t', Or.inl (by simp [e])⟩
          · exact ⟨t', Or.inr (by simpa using e)⟩
      · exact ⟨t', by simpa [upd_apply, ht] using h⟩
    · exact Or.inr h
  · intro t' h
    apply h2 t'
    by_cases ht : t' = t
    · subst ht; right; rw [hrq]; simp
    · simpa [upd_apply, ht] using h

theorem linv_start (hL : LInv c s) {t : Nat} (hcur : s.cur t = none) (htm : s.tmain t = TMain.coroStart) :
    LInv c { s with tmain := upd s.tmain t TMain.coroFlush, cur := upd s.cur t (some t) } := by
  obtain ⟨h1, h2, h3⟩ := hL
  refine ⟨?_, ?_, ?_⟩
  · intro x hkx hcan'
    have hcan : canRun s x = true := hcan'
    clear hcan'
    rcases h1 x hkx hcan with ⟨t', h⟩ | h
    · left
      by_cases ht : t' = t
      · subst ht
        rcases h with h | h
        · rw [hcur] at h; cases h
        · exact ⟨t', Or.inr h⟩
      · exact ⟨t', by simpa [upd_apply, ht] using h⟩
    · by_cases hx : x = t
      · subst hx; exact Or.inl ⟨x, Or.inl (by simp)⟩
      · right; simpa [upd_apply, hx] using h
  · intro t' h
    by_cases ht : t' = t
    · subst ht; simp
    · simp only [upd_apply, ht, if_false] at h ⊢; exact h2 t' h
  · intro x hkx hpc
    have := h3 x hkx hpc
    by_cases hx : x = t
    · subst hx; rw [htm] at this; cases this
    · simpa [upd_apply, hx] using this

theorem linv_finish (hL : LInv c s) {t : Nat} (hcur : s.cur t = none) (hrq : s.rq t = [])
    (hnc : s.tmain t ≠ TMain.coroStart) (hd : c.kind t = AKind.sync → s.pc t = Pc.done) :
    LInv c { s with tmain := upd s.tmain t TMain.finished } := by
  obtain ⟨h1, h2, h3⟩ := hL
  refine ⟨?_, ?_, ?_⟩
  · intro x hkx hcan'
    have hcan : canRun s x = true := hcan'
    clear hcan'
    rcases h1 x hkx hcan with h | h
    · exact Or.inl h
    · right
      by_cases hx : x = t
      · subst hx; exact absurd h hnc
      · simpa [upd_apply, hx] using h
  · intro t' h
    by_cases ht : t' = t
    · subst ht; rcases h with h | h
      · exact absurd hcur h
      · exact absurd hrq h
    · simp only [upd_apply, ht, if_false]; exact h2 t' h
  · intro x hkx hpc
    by_cases hx : x = t
    · subst hx; exact absurd (hd hkx) hpc
    · simpa [upd_apply, hx] using h3 x hkx hpc

theorem tinv_clear_cur (hT : TInv c s) (t : Nat) : TInv c { s with cur := upd s.cur t none } := by
  obtain ⟨h1, h2, h3, h4, h5⟩ := hT
  constructor <;> simp only [upd_apply] <;> grind

theorem tinv_pop (hT : TInv c s) {t b : Nat} {rest : List Nat} (hrq : s.rq t = b :: rest) :
    TInv c { s with rq := upd s.rq t rest, cur := upd s.cur t (some b) } := by
  obtain ⟨h1, h2, h3, h4, h5⟩ := hT
  constructor <;> simp only [upd_apply] <;> grind

theorem tinv_start (hT : TInv c s) {t : Nat} (htm : s.tmain t = TMain.coroStart) :
    TInv c { s with tmain := upd s.tmain t TMain.coroFlush, cur := upd s.cur t (some t) } := by
  obtain ⟨h1, h2, h3, h4, h5⟩ := hT
  constructor <;> simp only [upd_apply] <;> grind

theorem tinv_finish (hT : TInv c s) (t : Nat) : TInv c { s with tmain := upd s.tmain t TMain.finished } := by
  obtain ⟨h1, h2, h3, h4, h5⟩ := hT
  constructor <;> simp only [upd_apply] <;> grind

theorem sim_continue {s s1 s2 R : State} {l0 : List (Nat × Nat)} (hl0 : Guarded c s l0) (he : s1 = arun c s l0)
    (h12 : core s2 = core s1)
    (ih : ∃ l2, Guarded c s2 l2 ∧ core R = core (arun c s2 l2) ∧ TInv c R ∧ LInv c R) :
    ∃ l, Guarded c s l ∧ core R = core (arun c s l) ∧ TInv c R ∧ LInv c R := by
  obtain ⟨l2, hg2, hr, hT, hL⟩ := ih
  subst he
  have := run_core_congr c l2 h12
  exact ⟨l0 ++ l2, (guarded_append _ _ _).2 ⟨hl0, this.1.1 hg2⟩, by rw [arun_append, hr]; exact this.2, hT, hL⟩

theorem threadStep_sim (hwf : c.WFT) : ∀ (fuel : Nat) (s : State) (t : Nat), Inv c s → TInv c s → LInv c s → WakeOk s t →
    ∃ l, Guarded c s l ∧ core (threadStep c fuel s t).1 = core (arun c s l) ∧ TInv c (threadStep c fuel s t).1 ∧
      LInv c (threadStep c fuel s t).1 := by
  intro fuel
  induction fuel with
  | zero => intro s t _ hT hL _; exact ⟨[], trivial, rfl, hT, hL⟩
  | succ fuel ih =>
    intro s t hI hT hL hW
    rw [threadStep]
    cases hcur : s.cur t with
    | some b =>
      dsimp only
      have hkb := hT.curK t b hcur
      have hrun : RunsAs c s t b := Or.inr ⟨hkb, hcur⟩
      have hw : s.pc b = Pc.blocked → s.flag b = true := by
        intro h; have := hI.kindW' hwf (Or.inr h); rw [hkb] at this; cases this
      obtain ⟨l0, hl0, he, hI1, hT1⟩ := sim_act hwf.1 hI hT hrun hw
      have hE := agentStep_exec hwf.1 s t b
      have hP := agentStep_place c s t b
      have hL1 : LInv c (agentStep c s t b).1 :=
        linv_agentStep hwf hI hL hrun (hL.live t (Or.inl (by rw [hcur]; simp)))
      -- the thread's own blocking contender is not blocked while a coroutine runs on the thread
      have hnb : (agentStep c s t b).1.tmain t = TMain.syncBody → (agentStep c s t b).1.pc t ≠ Pc.blocked := by
        intro htm hpc
        rw [hE.tmain] at htm
        have hbt : t ≠ b := by
          rintro rfl; have := hT.syncK t htm; rw [hkb] at this; cases this
        rw [(hI.step_frame t b).pc t hbt] at hpc
        split at hpc
        · cases hpc
        · have := (hT.blk t htm hpc).1; rw [hcur] at this; cases this
      generalize hs1 : (agentStep c s t b).fst = s1 at *
      generalize (agentStep c s t b).2.fst = e1
      generalize (agentStep c s t b).2.snd = o at *
      have hrec : ∀ s2, core s2 = core s1 → TInv c s2 → LInv c s2 → WakeOk s2 t →
          ∃ l, Guarded c s l ∧ core (threadStep c fuel s2 t).1 = core (arun c s l) ∧ TInv c (threadStep c fuel s2 t).1 ∧
            LInv c (threadStep c fuel s2 t).1 :=
        fun s2 h12 hT2 hL2 hW2 => sim_continue hl0 he h12 (ih s2 t (inv_core_congr h12.symm hI1) hT2 hL2 hW2)
      have hW1 : WakeOk s1 t := fun _ _ htm hpc => absurd hpc (hnb htm)
      have hfin : (canRun s1 b = false ∨ b ∈ s1.rq t) → ∃ l, Guarded c s l ∧
          core (threadStep c fuel (if s1.cur t = some b then { s1 with cur := upd s1.cur t none } else s1) t).1 =
            core (arun c s l) ∧
          TInv c (threadStep c fuel (if s1.cur t = some b then { s1 with cur := upd s1.cur t none } else s1) t).1 ∧
          LInv c (threadStep c fuel (if s1.cur t = some b then { s1 with cur := upd s1.cur t none } else s1) t).1 := by
        intro hnr
        split
        · rename_i hc1
          exact hrec _ rfl (tinv_clear_cur hT1 t) (linv_clear_cur hL1 hc1 hnr) (fun _ _ htm hpc => absurd hpc (hnb htm))
        · exact hrec _ rfl hT1 hL1 hW1
      cases o <;> dsimp only
      · exact ⟨l0, hl0, by rw [he], hT1, hL1⟩
      · exact ⟨l0, hl0, by rw [he], hT1, hL1⟩
      · exact hfin (Or.inl (by simp [canRun, (hP.fin rfl).1]))
      · refine hfin ?_
        rcases hP.susp rfl with h | h
        · exact Or.inl (by simp [canRun, h])
        · exact Or.inr h
      · exact hrec _ rfl hT1 hL1 hW1
    | none =>
      dsimp only
      have hrec0 : ∀ s2, core s2 = core s → TInv c s2 → LInv c s2 → WakeOk s2 t →
          ∃ l, Guarded c s l ∧ core (threadStep c fuel s2 t).1 = core (arun c s l) ∧ TInv c (threadStep c fuel s2 t).1 ∧
            LInv c (threadStep c fuel s2 t).1 :=
        fun s2 h12 hT2 hL2 hW2 =>
          sim_continue (l0 := []) trivial rfl h12 (ih s2 t (inv_core_congr h12.symm hI) hT2 hL2 hW2)
      cases hrq : s.rq t with
      | cons b rest =>
        dsimp only
        exact hrec0 _ rfl (tinv_pop hT hrq) (linv_pop hL hcur hrq) (fun h => by simp at h)
      | nil =>
        dsimp only
        cases htm : s.tmain t with
        | finished => exact ⟨[], trivial, rfl, hT, hL⟩
        | coroStart =>
          dsimp only
          exact hrec0 _ rfl (tinv_start hT htm) (linv_start hL hcur htm) (fun h => by simp at h)
        | coroFlush =>
          refine ⟨[], trivial, rfl, tinv_finish hT t, linv_finish hL hcur hrq (by rw [htm]; simp) ?_⟩
          intro hk
          have := hL.syncLive t hk
          rw [htm] at this
          exact Classical.byContradiction (fun h => by have := this h; cases this)
        | syncBody =>
          dsimp only
          have hkt := hT.syncK t htm
          have hrun : RunsAs c s t t := Or.inl ⟨hkt, rfl, hcur, hrq⟩
          obtain ⟨l0, hl0, he, hI1, hT1⟩ := sim_act hwf.1 hI hT hrun (hW hcur hrq htm)
          have hbo := agentStep_blocked_outcome c s t t
          have hE := agentStep_exec hwf.1 s t t
          have hP := agentStep_place c s t t
          have hL1 : LInv c (agentStep c s t t).1 := linv_agentStep hwf hI hL hrun (by rw [htm]; simp)
          generalize hs1 : (agentStep c s t t).fst = s1 at *
          generalize (agentStep c s t t).2.fst = e1
          generalize ho : (agentStep c s t t).2.snd = o at *
          have hrec : ∀ s2, core s2 = core s1 → TInv c s2 → LInv c s2 → WakeOk s2 t →
              ∃ l, Guarded c s l ∧ core (threadStep c fuel s2 t).1 = core (arun c s l) ∧
                TInv c (threadStep c fuel s2 t).1 ∧ LInv c (threadStep c fuel s2 t).1 :=
            fun s2 h12 hT2 hL2 hW2 => sim_continue hl0 he h12 (ih s2 t (inv_core_congr h12.symm hI1) hT2 hL2 hW2)
          cases o <;> dsimp only
          · exact ⟨l0, hl0, by rw [he], hT1, hL1⟩
          · exact ⟨l0, hl0, by rw [he], hT1, hL1⟩
          · obtain ⟨hd, hc, hr⟩ := hP.fin rfl
            refine ⟨l0, hl0, by rw [← he]; rfl, tinv_finish hT1 t, linv_finish hL1 (by rw [hc]; exact hcur)
              (by rw [hr]; exact hrq) (by rw [hE.tmain, htm]; simp) (fun _ => hd)⟩
          · exact hrec _ rfl hT1 hL1 (fun _ _ _ hpc => by have := hbo hpc; cases this)
          · exact hrec _ rfl hT1 hL1 (fun _ _ _ hpc => by have := hbo hpc; cases this)

/-- **Every `threadStep` is a (possibly empty) sequence of guarded agent activities.**  In a state satisfying the
    invariants, what OS thread `t` does between two scheduling points (when the scheduler may run it: `enabled`)
    leads — up to the executor's bookkeeping `cur`/`rq`/`tmain` — to the same state as a list `l` of agent activities
    each of which is permitted by `canRun`. -/
theorem threadStep_is_arun (hwf : c.WFT) (hI : Inv c s) (hT : TInv c s) (hL : LInv c s) (fuel t : Nat)
    (he : enabled s t = true) :
    ∃ l, Guarded c s l ∧ core (threadStep c fuel s t).1 = core (arun c s l) := by
  obtain ⟨l, hg, hc, _⟩ := threadStep_sim hwf fuel s t hI hT hL (wakeOk_of_enabled he)
  exact ⟨l, hg, hc⟩

/-- run a schedule of OS threads, as the driver does (`fuel` bounds the executor glue inside one `threadStep`) -/
def trun (c : Cfg) (fuel : Nat) (s : State) (ts : List Nat) : State :=
  ts.foldl (fun s t => (threadStep c fuel s t).1) s

/-- every scheduled thread is enabled when it is scheduled -/
def TGuarded (c : Cfg) (fuel : Nat) : State → List Nat → Prop
  | _, [] => True
  | s, t :: ts => enabled s t = true ∧ TGuarded c fuel (threadStep c fuel s t).1 ts

theorem threadStep_reachable (hwf : c.WFT) (hs : Reachable c s) (hT : TInv c s) (hL : LInv c s) (fuel t : Nat)
    (he : enabled s t = true) :
    Reachable c (threadStep c fuel s t).1 ∧ TInv c (threadStep c fuel s t).1 ∧ LInv c (threadStep c fuel s t).1 := by
  obtain ⟨l, hg, hc, hT', hL'⟩ := threadStep_sim hwf fuel s t (inv_reachable hs) hT hL (wakeOk_of_enabled he)
  exact ⟨reachable_core_congr hc.symm (reachable_arun hs l hg), hT', hL'⟩

/-- **Transfer to the OS-thread level.** Every state the driver/harness can reach by scheduling enabled threads is
    `Reachable`, hence all theorems about reachable states hold for it. -/
theorem treachable_reachable (hwf : c.WFT) (fuel : Nat) : ∀ (ts : List Nat) (s : State), Reachable c s → TInv c s →
    LInv c s → TGuarded c fuel s ts →
    Reachable c (trun c fuel s ts) ∧ TInv c (trun c fuel s ts) ∧ LInv c (trun c fuel s ts) := by
  intro ts
  induction ts with
  | nil => intro s hs hT hL _; exact ⟨hs, hT, hL⟩
  | cons t ts ih =>
    intro s hs hT hL hg
    obtain ⟨h1, h2, h3⟩ := threadStep_reachable hwf hs hT hL fuel t hg.1
    exact ih _ h1 h2 h3 hg.2

theorem trun_init_reachable (hwf : c.WFT) (fuel : Nat) (ts : List Nat) (hg : TGuarded c fuel (init c) ts) :
    Reachable c (trun c fuel (init c) ts) :=
  (treachable_reachable hwf fuel ts _ (reachable_init c) (tinv_init c) (linv_init c) hg).1

/-- agent level: if no agent's code can run, every agent is done -/
theorem inv_stuck_done (h : Inv c s) (hstuck : ∀ a, canRun s a = false) : ∀ a, s.pc a = Pc.done := by
  have hno : ∀ a, ¬ Owner s a := fun a ha => by have := owner_canRun ha; rw [hstuck a] at this; cases this
  obtain ⟨hr, hq⟩ := h.free hno
  intro a
  have hc := h.cnt a
  rw [hr, hq] at hc
  have hnl : ¬ Listed s a := by
    intro hl; rw [if_pos hl] at hc; simp at hc
  have hst := hstuck a
  unfold canRun at hst
  unfold Listed at hnl
  generalize s.pc a = p at *
  cases p <;> simp_all [isWaiting]

theorem enabled_false {s : State} {t : Nat} (h : enabled s t = false) (htm : s.tmain t ≠ TMain.finished) :
    (∃ b, s.cur t = some b ∧ s.pc b = Pc.blocked ∧ s.flag b = false) ∨
    (s.cur t = none ∧ s.rq t = [] ∧ s.pc t = Pc.blocked ∧ s.tmain t = TMain.syncBody ∧ s.flag t = false) := by
  unfold enabled at h
  split at h
  · rename_i hm; exact absurd hm htm
  · split at h
    · rename_i b hb
      left
      split at h
      · rename_i hp; exact ⟨b, hb, hp, h⟩
      · cases h
    · right
      split at h
      · cases h
      · split at h
        · rename_i hb; exact ⟨by assumption, by assumption, hb.1, hb.2, h⟩
        · cases h

/-- OS-thread level: if no thread is enabled, every agent is done and every thread has finished -/
theorem threads_stuck_done (hwf : c.WFT) (h : Inv c s) (hT : TInv c s) (hL : LInv c s)
    (hstuck : ∀ t, enabled s t = false) :
    (∀ a, s.pc a = Pc.done) ∧ ∀ t, s.tmain t = TMain.finished := by
  have hen : ∀ t, s.tmain t ≠ TMain.finished →
      s.cur t = none ∧ s.rq t = [] ∧ s.pc t = Pc.blocked ∧ s.tmain t = TMain.syncBody ∧ s.flag t = false := by
    intro t htm
    rcases enabled_false (hstuck t) htm with ⟨b, hb, hp, _⟩ | h2
    · exfalso
      have h1 := hT.curK t b hb
      have h2 := h.kindW' hwf (Or.inr hp)
      rw [h1] at h2; cases h2
    · exact h2
  have hcan : ∀ a, canRun s a = false := by
    intro a
    apply Classical.byContradiction
    intro hne
    have hca : canRun s a = true := by simpa using hne
    cases hk : c.kind a with
    | sync =>
      have hnd : s.pc a ≠ Pc.done := by intro hd; simp [canRun, hd] at hca
      have htm := hL.syncLive a hk hnd
      obtain ⟨_, _, hb, _, hf⟩ := hen a (by rw [htm]; simp)
      simp [canRun, hb, hf] at hca
    | coro =>
      rcases hL.loc a hk hca with ⟨t, h1⟩ | h1
      · have hlive := hL.live t (by
          rcases h1 with h1 | h1
          · left; rw [h1]; simp
          · right; intro e; rw [e] at h1; cases h1)
        obtain ⟨hc, hr, _⟩ := hen t hlive
        rcases h1 with h1 | h1
        · rw [hc] at h1; cases h1
        · rw [hr] at h1; cases h1
      · obtain ⟨_, _, _, hsb, _⟩ := hen a (by rw [h1]; simp)
        rw [h1] at hsb; cases hsb
  have hdone := inv_stuck_done h hcan
  refine ⟨hdone, ?_⟩
  intro t
  apply Classical.byContradiction
  intro htm
  obtain ⟨_, _, hb, _⟩ := hen t htm
  rw [hdone t] at hb; cases hb

/-! ## concrete scenarios used by the `example`s next to the property theorems -/

instance decGuarded (c : Cfg) : (s : State) → (l : List (Nat × Nat)) → Decidable (Guarded c s l)
  | _, [] => isTrue trivial
  | _, _ :: l => @instDecidableAnd _ _ inferInstance (decGuarded c _ l)

instance decTGuarded (c : Cfg) (fuel : Nat) : (s : State) → (ts : List Nat) → Decidable (TGuarded c fuel s ts)
  | _, [] => isTrue trivial
  | _, _ :: ts => @instDecidableAnd _ _ inferInstance (decTGuarded c fuel _ ts)

/-- one blocking contender (agent 0) and two coroutines (1: awaited release; 2: discarded release, then a `try_lock`) -/
def cfgEx : Cfg :=
  { n := 3, kind := fun i => if i = 0 then AKind.sync else AKind.coro,
    rounds := fun i => if i = 0 then [{ fl := Flavour.lock, rel := Rel.x }] else if i = 1 then [{ fl := Flavour.co, rel := Rel.a }]
                       else if i = 2 then [{ fl := Flavour.co, rel := Rel.x }, { fl := Flavour.try_, rel := Rel.d }] else [] }

theorem cfgEx_wf : cfgEx.WF := by
  intro a r hr hfl
  by_cases h0 : a = 0
  · subst h0; simp [cfgEx] at hr; subst hr; cases hfl
  · simp [cfgEx, h0]

/-- 0 takes the lock; 1 and 2 publish behind it (each needs three CAS attempts) and park -/
def runP : List (Nat × Nat) := [(0,0), (1,1), (1,1), (1,1), (2,2), (2,2), (2,2)]
/-- … 0 enters and leaves its critical section, its fast-path CAS fails, it rebuilds the queue (`queue = [1, 2]`) -/
def runA : List (Nat × Nat) := runP ++ [(0,0), (0,0), (0,0)]
/-- … and hands over to 1, which is resumed on thread 0 -/
def runB : List (Nat × Nat) := runA ++ [(0,0)]
/-- … everybody runs to the end (1 hands over to 2 by symmetric transfer, 2 releases and `try_lock`s successfully) -/
def runZ : List (Nat × Nat) :=
  runB ++ [(0,1), (0,1), (0,2), (0,2), (0,2), (0,2), (0,2), (0,2), (0,2), (0,2), (0,1), (0,1), (0,0), (0,0)]
/-- 1 fails `ready()`, 0 releases, 1's publishing CAS finds null (found-null acquirer, `build`), 2 publishes behind it -/
def runN : List (Nat × Nat) := [(0,0), (1,1), (0,0), (0,0), (1,1), (2,2), (2,2), (2,2)]

def sP : State := arun cfgEx (init cfgEx) runP
def sA : State := arun cfgEx (init cfgEx) runA
def sB : State := arun cfgEx (init cfgEx) runB
def sZ : State := arun cfgEx (init cfgEx) runZ
def sN : State := arun cfgEx (init cfgEx) runN

theorem reachable_of_run (c : Cfg) (l : List (Nat × Nat)) (h : Guarded c (init c) l) : Reachable c (arun c (init c) l) :=
  ⟨l, h, rfl⟩

/-- two blocking contenders and one `try_lock`er -/
def cfgSy : Cfg :=
  { n := 3, kind := fun _ => AKind.sync,
    rounds := fun i => if i = 2 then [{ fl := Flavour.try_, rel := Rel.x }] else if i < 2 then [{ fl := Flavour.lock, rel := Rel.d }] else [] }

theorem cfgSy_wf : cfgSy.WF := by
  intro a r hr hfl
  by_cases h2 : a = 2
  · subst h2; simp [cfgSy] at hr; subst hr; cases hfl
  · by_cases h : a < 2
    · simp [cfgSy, h2, h] at hr; subst hr; cases hfl
    · simp [cfgSy, h2, h] at hr

/-- 0 takes the lock, 1 publishes behind it and blocks, 2's `try_lock` fails -/
def runS : List (Nat × Nat) := [(0,0), (1,1), (1,1), (1,1), (1,1), (1,1), (2,2), (2,2)]

def sS : State := arun cfgSy (init cfgSy) runS

theorem cfgEx_wft : cfgEx.WFT := by
  refine ⟨cfgEx_wf, ?_⟩
  intro a r hr hk
  by_cases h0 : a = 0
  · subst h0; simp [cfgEx] at hk
  · by_cases h1 : a = 1
    · subst h1; simp [cfgEx] at hr; subst hr; exact Or.inl rfl
    · by_cases h2 : a = 2
      · subst h2; simp [cfgEx] at hr; rcases hr with rfl | rfl
        · exact Or.inl rfl
        · exact Or.inr rfl
      · simp [cfgEx, h0, h1, h2] at hr

/-- ownership-object scenario: 0 blocking lock, ownership kept in the shared slot, `release()`; 1 callback contender,
    shared slot, given up by assigning an empty ownership; 2 a coroutine whose helper function takes a blocking lock
    (the OS thread blocks), ownership moved into a temporary; 3 a coroutine, `co_await lock()`, hand-over-hand
    assignment of the ownership of its auxiliary mutex -/
def cfgOw : Cfg :=
  { n := 4, kind := fun i => if i < 2 then AKind.sync else AKind.coro,
    rounds := fun i => if i = 0 then [{ fl := Flavour.lock, rel := Rel.x, shared := true }]
                       else if i = 1 then [{ fl := Flavour.cb, rel := Rel.d, shared := true }]
                       else if i = 2 then [{ fl := Flavour.lock, rel := Rel.m }]
                       else if i = 3 then [{ fl := Flavour.co, rel := Rel.g }] else [] }

/-- 0 takes the lock, stores its ownership into the shared slot (object 4) and is inside its critical section;
    1 (callback), 2 (blocking lock inside a coroutine) and 3 (`co_await`) publish behind it -/
def runO1 : List (Nat × Nat) := [(0,0),(0,0), (1,1),(1,1),(1,1),(1,1), (2,2),(2,2),(2,2),(2,2), (3,3),(3,3),(3,3)]
/-- … 0 releases through the slot: fast path fails, queue rebuilt, hand-over to 1 whose callback stores 1's ownership
    into the same slot inside 0's `unlock` -/
def runO2 : List (Nat × Nat) := runO1 ++ [(0,0),(0,0),(0,0)]
/-- … 1 assigns an empty ownership over the slot (hand-over to 2 by its flag), 2 moves its ownership into a temporary
    (hand-over to coroutine 3), 3 locks its auxiliary mutex and assigns it over its ownership -/
def runO3 : List (Nat × Nat) := runO2 ++ [(0,0),(0,0), (1,1),(1,1),(1,1),(1,1),(1,1), (2,2),(2,2),(2,2),(2,2),(2,2), (3,3),(3,3)]
/-- … and everything is given up -/
def runOZ : List (Nat × Nat) := runO3 ++ [(3,3),(3,3),(3,3)]
def sO1 : State := arun cfgOw (init cfgOw) runO1
def sO2 : State := arun cfgOw (init cfgOw) runO2
def sO3 : State := arun cfgOw (init cfgOw) runO3
def sOZ : State := arun cfgOw (init cfgOw) runOZ

/-- the schedule of OS threads that produces `runB` (thread 0 runs the hand-over), and its completion -/
def schedB : List Nat := [0, 1, 1, 1, 2, 2, 2, 0, 0, 0, 0]
def schedZ : List Nat := schedB ++ [0, 0, 0, 0, 0, 0, 1, 2]

end Cocls.Mutex
