import CoclsModel.Mutex
/-!
# Invariant proofs for the mutex micro-step model (`Mutex.lean`) — C07 / C08

* **Logical agents.** `arun c s l` runs a list `l` of agent activities `(t, a)` (`agentStep c s t a`: the code of
  contender `a` runs on OS thread `t` up to and including its next atomic operation).  `Guarded c s l` demands of every
  activity only `canRun`: `pc a ∉ {parked, done}` and `pc a = blocked → flag a` — a parked coroutine runs again only
  after a hand-over made it `crit`, a thread blocked in `flag.wait` only once its flag is set; *everything else may
  run at any time on any thread*.  `Reachable c s`: `s` agrees with some `arun c (init c) l`, `l` guarded, on all fields
  but the executor's bookkeeping `cur`/`rq`/`tmain` (never read by `agentStep`: `agentStep_exec_irrel`).
* **Configurations.** Any `Cfg` (number of agents, kinds, rounds) with `Cfg.WF`: `co_await lock()` rounds occur only in
  coroutines (a blocking contender's `lock().wait()` constructs a fresh `sync_awaiter`, `Pc.subInit`; a `co` round of a
  `sync` agent would reuse a stale flag in the model, which no C++ program can do).
* **Invariant** `Inv` (Appendix B of DESIGN.md: I1–I6 plus grant accounting), `inv_init`, one preservation lemma per
  step (`inv_top_acq` … `inv_hand_coro`, closed clause by clause by `grind` after exposing the projections),
  `inv_step`, `inv_arun`, `inv_reachable`.
* **OS threads.** `threadStep_sim`/`threadStep_is_arun`: every `threadStep` of an enabled thread is a (possibly empty)
  guarded activity list (executor invariants `TInv`: who may sit in `cur`/`rq`; `LInv`: every runnable coroutine is
  hosted by a live thread).  `trun_init_reachable`: every schedule of enabled threads stays inside `Reachable`;
  `threads_stuck_done`: no enabled thread ⇒ everybody done.
-/
namespace Cocls.Mutex

/-! ## classification of program counters -/

/-- owner: between acquisition and the step that gives ownership away (a blocking waiter is owner from the
    moment its flag is stored) -/
def isOwner : Pc → Bool → Bool
  | Pc.crit, _ | Pc.afterCs, _ | Pc.relBuild, _ | Pc.relHand, _ | Pc.build, _ => true
  | Pc.waitFlag, f | Pc.blocked, f => f
  | _, _ => false

/-- published request that has not been granted yet -/
def isWaiting : Pc → Bool → Bool
  | Pc.parked, _ => true
  | Pc.waitFlag, f | Pc.blocked, f => !f
  | _, _ => false

/-- granted, round not yet completed -/
def isHolding : Pc → Bool → Bool
  | Pc.crit, _ | Pc.afterCs, _ | Pc.relBuild, _ | Pc.relHand, _ | Pc.relDone, _ => true
  | Pc.waitFlag, f | Pc.blocked, f => f
  | _, _ => false

/-- granted, critical section of this round not yet entered -/
def isEntering : Pc → Bool → Bool
  | Pc.crit, _ => true
  | Pc.waitFlag, f | Pc.blocked, f => f
  | _, _ => false

def Owner (s : State) (a : Nat) : Prop := isOwner (s.pc a) (s.flag a) = true
def Waiting (s : State) (a : Nat) : Prop := isWaiting (s.pc a) (s.flag a) = true
/-- has a node in the request stack or the queue -/
def Listed (s : State) (a : Nat) : Prop := isWaiting (s.pc a) (s.flag a) = true ∨ s.pc a = Pc.build
def Holding (s : State) (a : Nat) : Prop := isHolding (s.pc a) (s.flag a) = true
def Entering (s : State) (a : Nat) : Prop := isEntering (s.pc a) (s.flag a) = true

instance (s a) : Decidable (Owner s a) := by unfold Owner; infer_instance
instance (s a) : Decidable (Waiting s a) := by unfold Waiting; infer_instance
instance (s a) : Decidable (Listed s a) := by unfold Listed; infer_instance
instance (s a) : Decidable (Holding s a) := by unfold Holding; infer_instance
instance (s a) : Decidable (Entering s a) := by unfold Entering; infer_instance

/-- nodes above exactly one doorman at the bottom -/
def doorEnd : List Elem → Prop
  | [] => False
  | Elem.door :: r => r = []
  | Elem.node _ :: r => doorEnd r

@[simp] theorem doorEnd_nil : doorEnd [] = False := rfl
@[simp] theorem doorEnd_door (r) : doorEnd (Elem.door :: r) = (r = []) := rfl
@[simp] theorem doorEnd_node (a r) : doorEnd (Elem.node a :: r) = doorEnd r := rfl
/-- nodes only, the bottom one is `o`'s (the request that found the mutex free; its `_next` is null) -/
def nodeEnd (o : Nat) : List Elem → Prop
  | [] => False
  | Elem.door :: _ => False
  | Elem.node a :: r => (r = [] ∧ a = o) ∨ nodeEnd o r

@[simp] theorem nodeEnd_nil (o) : nodeEnd o [] = False := rfl
@[simp] theorem nodeEnd_door (o r) : nodeEnd o (Elem.door :: r) = False := rfl
@[simp] theorem nodeEnd_node (o a r) : nodeEnd o (Elem.node a :: r) = ((r = [] ∧ a = o) ∨ nodeEnd o r) := rfl
@[simp] theorem nodesOf_nil : nodesOf [] = [] := rfl
@[simp] theorem nodesOf_door (r) : nodesOf (Elem.door :: r) = [] := rfl
@[simp] theorem nodesOf_node (a r) : nodesOf (Elem.node a :: r) = a :: nodesOf r := rfl
@[simp] theorem seenOf_nil : seenOf [] = Seen.null := rfl
@[simp] theorem seenOf_door (r) : seenOf (Elem.door :: r) = Seen.door := rfl
@[simp] theorem seenOf_node (a r) : seenOf (Elem.node a :: r) = Seen.node a := rfl

theorem doorEnd_iff (r : List Elem) : doorEnd r ↔ ∃ xs : List Nat, r = xs.map Elem.node ++ [Elem.door] := by
  induction r with
  | nil => simp
  | cons e r ih =>
    cases e with
    | door =>
      simp only [doorEnd_door]
      constructor
      · intro h; exact ⟨[], by simp [h]⟩
      · rintro ⟨xs, h⟩
        cases xs with
        | nil => simpa using h
        | cons x xs => simp at h
    | node a =>
      simp only [doorEnd_node, ih]
      constructor
      · rintro ⟨xs, h⟩; exact ⟨a :: xs, by simp [h]⟩
      · rintro ⟨xs, h⟩
        cases xs with
        | nil => simp at h
        | cons x xs => simp at h; exact ⟨xs, h.2⟩

theorem nodeEnd_iff (o : Nat) (r : List Elem) : nodeEnd o r ↔ ∃ xs : List Nat, r = xs.map Elem.node ++ [Elem.node o] := by
  induction r with
  | nil => simp
  | cons e r ih =>
    cases e with
    | door =>
      simp only [nodeEnd_door, false_iff]
      rintro ⟨xs, h⟩
      cases xs <;> simp at h
    | node a =>
      simp only [nodeEnd_node, ih]
      constructor
      · rintro (⟨h1, h2⟩ | ⟨xs, h⟩)
        · exact ⟨[], by simp [h1, h2]⟩
        · exact ⟨a :: xs, by simp [h]⟩
      · rintro ⟨xs, h⟩
        cases xs with
        | nil => simp at h; exact Or.inl ⟨h.2, h.1⟩
        | cons x xs => simp at h; exact Or.inr ⟨xs, h.2⟩

theorem seenOf_eq_null {r : List Elem} : seenOf r = Seen.null ↔ r = [] := by
  cases r with
  | nil => simp
  | cons x xs => cases x <;> simp

theorem doorEnd_ne_nil {r : List Elem} (h : doorEnd r) : r ≠ [] := by
  cases r with
  | nil => simp at h
  | cons x xs => simp

theorem doorEnd_nodes {r : List Elem} (h : doorEnd r) (h2 : r ≠ [Elem.door]) : nodesOf r ≠ [] := by
  cases r with
  | nil => simp at h
  | cons x xs =>
    cases x with
    | door => simp at h; subst h; simp at h2
    | node a => simp

theorem mem_nodesOf_ne_nil {r : List Elem} {a : Nat} (h : a ∈ nodesOf r) : r ≠ [] := by
  cases r with
  | nil => simp at h
  | cons x xs => simp

/-- the request stack as seen by the invariant: pending requests in arrival order
    (the found-null acquirer's own node, which sits at the bottom until its `build_queue`, is not pending) -/
def pending (s : State) : List Nat :=
  s.queue ++ ((nodesOf s.req).filter (fun x => decide (s.pc x ≠ Pc.build))).reverse

/-! ## configurations -/

/-- totalisation: `co_await lock()` is only written in coroutines (a blocking contender uses `lock().wait()`,
    which constructs a fresh `sync_awaiter` with a cleared flag — `Pc.subInit`) -/
def Cfg.WF (c : Cfg) : Prop := ∀ a r, r ∈ c.rounds a → r.fl = Flavour.co → c.kind a = AKind.coro

/-! ## the guard: agent `a`'s code may run now -/

/-- A parked coroutine runs only after a hand-over made it `crit`; a finished agent has no code left; a blocked
    thread (`flag.wait`) runs only when its flag is set.  Everything else may run at any time on any thread. -/
def canRun (s : State) (a : Nat) : Bool :=
  match s.pc a with
  | Pc.parked | Pc.done => false
  | Pc.blocked => s.flag a
  | _ => true

/-- run a sequence of agent activities `(thread, agent)` -/
def arun (c : Cfg) (s : State) (l : List (Nat × Nat)) : State :=
  l.foldl (fun s p => (agentStep c s p.1 p.2).1) s

/-- every activity of the sequence is permitted by `canRun` in the state it starts from -/
def Guarded (c : Cfg) : State → List (Nat × Nat) → Prop
  | _, [] => True
  | s, p :: l => canRun s p.2 = true ∧ Guarded c (agentStep c s p.1 p.2).1 l

/-- everything but the executor's bookkeeping (`cur`, `rq`, `tmain`: which OS thread runs which coroutine), which
    `agentStep` writes but never reads (`agentStep_exec_irrel`) -/
def core (s : State) : State :=
  { s with cur := fun _ => none, rq := fun _ => [], tmain := fun _ => TMain.finished }

/-- reachable by guarded agent activities from the initial state (up to the executor's bookkeeping, so that the
    states reached by `threadStep` — which interleaves agent activities with updates of `cur`/`rq`/`tmain` — are
    covered as well: `treachable_reachable`) -/
def Reachable (c : Cfg) (s : State) : Prop := ∃ l, Guarded c (init c) l ∧ core s = core (arun c (init c) l)

/-! ## the invariant -/

structure Inv (c : Cfg) (s : State) : Prop where
  /-- (I1) at most one owner -/
  excl : ∀ a b, Owner s a → Owner s b → a = b
  /-- (I2/I3) no owner: stack and queue empty -/
  free : (∀ a, ¬ Owner s a) → s.req = [] ∧ s.queue = []
  /-- (I3) owner past its acquisition: nodes above exactly one doorman -/
  door : ∀ a, Owner s a → s.pc a ≠ Pc.build → doorEnd s.req
  /-- (I3) found-null acquirer before its exchange: its node is in the stack (no doorman), queue empty -/
  bld : ∀ a, s.pc a = Pc.build → a ∈ nodesOf s.req ∧ s.queue = []
  relB : ∀ a, s.pc a = Pc.relBuild → s.queue = [] ∧ nodesOf s.req ≠ []
  relH : ∀ a, s.pc a = Pc.relHand → s.queue ≠ []
  /-- (I4/I5) every waiting agent (and the found-null acquirer) has exactly one node in queue ++ stack, nobody else has one -/
  cnt : ∀ x, s.queue.count x + (nodesOf s.req).count x = if Listed s x then 1 else 0
  kindP : ∀ a, s.pc a = Pc.parked → c.kind a = AKind.coro
  kindW : ∀ a, s.pc a = Pc.waitFlag ∨ s.pc a = Pc.blocked → c.kind a = AKind.sync
  subF : ∀ a p, s.pc a = Pc.sub p → c.kind a = AKind.sync → s.flag a = false
  /-- (I6) queue ++ reversed stack is in arrival order -/
  stampQ : (s.queue ++ (nodesOf s.req).reverse).Pairwise (fun x y => s.stamp x < s.stamp y)
  stampC : ∀ x, Listed s x → s.stamp x < s.clock
  /-- rounds -/
  rnd : ∀ a, (s.pc a ≠ Pc.top → s.pc a ≠ Pc.done → s.round a < (c.rounds a).length) ∧
             s.round a ≤ (c.rounds a).length ∧ (s.pc a = Pc.done → a < c.n → s.round a = (c.rounds a).length)
  tryF : ∀ a, s.pc a = Pc.tryFail → ∃ r, curRound c s a = some r ∧ r.fl = Flavour.try_
  /-- grant accounting -/
  gr : ∀ a, s.grants a + s.fails a = s.round a + (if Holding s a then 1 else 0)
  greq : ∀ a r, s.grantReqs.count (a, r) + s.failReqs.count (a, r) =
            if r < s.round a ∨ (r = s.round a ∧ Holding s a) then 1 else 0
  glog : ∀ a, s.grantLog.count a + (if Entering s a then 1 else 0) = s.grants a
  /-- critical-section counter -/
  incsA : ∀ a, s.pc a = Pc.afterCs → s.incs = 1
  incsN : (∀ a, s.pc a ≠ Pc.afterCs) → s.incs = 0
  /-- only `try_lock` requests fail -/
  failT : ∀ a r, (a, r) ∈ s.failReqs → ∃ rd, (c.rounds a)[r]? = some rd ∧ rd.fl = Flavour.try_
  /-- the found-null acquirer is older than every request published behind it -/
  bldFirst : ∀ o y, s.pc o = Pc.build → y ∈ nodesOf s.req → y ≠ o → s.stamp o < s.stamp y
  /-- (I3) found-null acquirer before its exchange: the stack is `[xk, …, x1, o]`, no doorman -/
  bldEnd : ∀ o, s.pc o = Pc.build → nodeEnd o s.req

theorem inv_init (c : Cfg) : Inv c (init c) := by
  refine ⟨?_, ?_, ?_, ?_, ?_, ?_, ?_, ?_, ?_, ?_, ?_, ?_, ?_, ?_, ?_, ?_, ?_, ?_, ?_, ?_, ?_, ?_⟩ <;>
    simp only [init, Owner, Listed, Holding, Entering]
  all_goals try (intro a; split <;> simp [isOwner, isWaiting, isHolding, isEntering]; done)
  all_goals first | simp; done | (intro a; split <;> simp <;> omega)

/-! ## projections -/
@[simp] theorem setPc_pc (s : State) (a : Nat) (p : Pc) : (setPc s a p).pc = upd s.pc a p := rfl
theorem upd_apply {α} (f : Nat → α) (i j : Nat) (v : α) : upd f i v j = if j = i then v else f j := rfl


theorem count_filter_ne (l : List Nat) (a x : Nat) :
    List.count x (l.filter (fun y => decide ¬ y = a)) = if x = a then 0 else l.count x := by
  split
  · subst_vars; simp [List.count_eq_zero]
  · rw [List.count_filter]; simpa

theorem stampQ_push {st : Nat → Nat} {q l : List Nat} {a k : Nat} {L : Nat → Prop} [DecidablePred L]
    (cnt : ∀ x, q.count x + l.count x = if L x then 1 else 0) (stampC : ∀ x, L x → st x < k) (hna : ¬ L a)
    (hQ : (q ++ l.reverse).Pairwise (fun x y => st x < st y)) :
    (q ++ (a :: l).reverse).Pairwise (fun x y => (if x = a then k else st x) < (if y = a then k else st y)) := by
  have hmem : ∀ x, x ∈ q ++ l.reverse → L x ∧ x ≠ a := by
    intro x hx
    have hc := cnt x
    have : 0 < q.count x + l.count x := by
      rcases List.mem_append.1 hx with h | h
      · have := List.count_pos_iff.2 h; omega
      · have := List.count_pos_iff.2 (List.mem_reverse.1 h); omega
    split at hc
    · rename_i hl; exact ⟨hl, fun e => hna (e ▸ hl)⟩
    · omega
  rw [List.reverse_cons, ← List.append_assoc, List.pairwise_append]
  refine ⟨?_, by simp, ?_⟩
  · refine List.Pairwise.imp_of_mem ?_ hQ
    intro x y hx hy hxy
    simp only [(hmem x hx).2, (hmem y hy).2, if_false]; exact hxy
  · intro x hx y hy
    simp only [List.mem_singleton] at hy
    subst hy
    simp only [(hmem x hx).2, if_false, if_true]
    exact stampC x (hmem x hx).1

set_option hygiene false in
/-- destructure the invariant, split the goal into its clauses, expose the projections -/
macro "inv_split" h:ident : tactic => `(tactic| (
  obtain ⟨excl, free, door, bld, relB, relH, cnt, kindP, kindW, subF, stampQ, stampC, rnd, tryF, gr, greq, glog, incsA, incsN, failT, bldFirst, bldEnd⟩ := $h
  refine ⟨?_, ?_, ?_, ?_, ?_, ?_, ?_, ?_, ?_, ?_, ?_, ?_, ?_, ?_, ?_, ?_, ?_, ?_, ?_, ?_, ?_, ?_⟩ <;>
    simp only [setPc, upd_apply, Owner, Listed, Holding, Entering, curRound, List.append_nil, List.nil_append,
      List.reverse_eq_nil_iff, List.count_append, List.count_reverse, List.count_nil, List.reverse_nil,
      List.reverse_reverse, ne_eq, count_filter_ne, nodesOf_node, nodesOf_door, nodesOf_nil] at *))

/-- per-agent case analysis by `grind` -/
macro "inv_grind" : tactic => `(tactic|
    grind [isOwner, isWaiting, isHolding, isEntering, doorEnd_nil, nodesOf_door, nodesOf_nil, doorEnd_door,
           doorEnd_node, nodesOf_node, nodeEnd_nil, nodeEnd_door, nodeEnd_node, Cfg.WF])

macro "inv_auto" h:ident : tactic => `(tactic| (inv_split $h <;> inv_grind))

variable {c : Cfg} {s : State} {a : Nat}

/-- pcs at which an agent neither owns, waits nor holds anything -/
def Pc.neutral : Pc → Bool
  | Pc.top | Pc.tryFail | Pc.subInit | Pc.sub _ | Pc.done => true
  | _ => false

theorem neutral_facts {p : Pc} (f : Bool) (h : p.neutral = true) :
    isOwner p f = false ∧ isWaiting p f = false ∧ isHolding p f = false ∧ isEntering p f = false ∧
    p ≠ Pc.build ∧ p ≠ Pc.relBuild ∧ p ≠ Pc.relHand ∧ p ≠ Pc.parked ∧ p ≠ Pc.waitFlag ∧ p ≠ Pc.blocked ∧
    p ≠ Pc.afterCs := by
  cases p <;> simp [Pc.neutral, isOwner, isWaiting, isHolding, isEntering] at h ⊢

/-- moving an agent between neutral pcs (no other change) -/
theorem inv_neutral (h : Inv c s) (p : Pc) (hn : (s.pc a).neutral = true) (hp : p.neutral = true)
    (h1 : p ≠ Pc.top → p ≠ Pc.done → s.round a < (c.rounds a).length)
    (h2 : p = Pc.done → a < c.n → s.round a = (c.rounds a).length)
    (h3 : p = Pc.tryFail → ∃ r, curRound c s a = some r ∧ r.fl = Flavour.try_)
    (h4 : ∀ q, p = Pc.sub q → c.kind a = AKind.sync → s.flag a = false) :
    Inv c (setPc s a p) := by
  have n1 := neutral_facts (s.flag a) hn
  have n2 := neutral_facts (s.flag a) hp
  generalize hpa : s.pc a = pa at n1
  clear hn hp
  inv_auto h

/-! ## preservation, one lemma per step -/

theorem inv_top_none (h : Inv c s) (hpc : s.pc a = Pc.top) (hr : curRound c s a = none) :
    Inv c (setPc s a Pc.done) := by
  refine inv_neutral h _ (by simp [hpc, Pc.neutral]) rfl (by simp) ?_ (by simp) (by simp)
  intro _ _
  have := (h.rnd a).2.1
  simp only [curRound, List.getElem?_eq_none_iff] at hr
  omega

theorem inv_top_acq (h : Inv c s) (hpc : s.pc a = Pc.top) (r : Round)
    (hr : curRound c s a = some r) (hq : s.req = []) :
    Inv c { setPc s a Pc.crit with req := [Elem.door], grants := upd s.grants a (s.grants a + 1),
                                   grantReqs := s.grantReqs ++ [(a, s.round a)] } := by
  inv_auto h

theorem inv_top_fail (hwf : c.WF) (h : Inv c s) (hpc : s.pc a = Pc.top) (r : Round)
    (hr : curRound c s a = some r) :
    Inv c (setPc s a (match r.fl with
              | Flavour.try_ => Pc.tryFail
              | Flavour.lock => Pc.subInit
              | Flavour.co => Pc.sub Seen.null)) := by
  have hmem : r ∈ c.rounds a := List.mem_of_getElem? hr
  have hco := hwf a r hmem
  have hlt : s.round a < (c.rounds a).length := by
    simp only [curRound] at hr
    exact (List.getElem?_eq_some_iff.1 hr).1
  refine inv_neutral h _ (by simp [hpc, Pc.neutral]) ?_ (fun _ _ => hlt) ?_ ?_ ?_
  · cases r.fl <;> rfl
  · cases r.fl <;> simp
  · intro e; exact ⟨r, hr, by revert e; cases r.fl <;> simp⟩
  · intro q e hk
    cases hfl : r.fl <;> simp only [hfl] at e hco <;> simp_all

theorem inv_sub_fail (h : Inv c s) (p q : Seen) (hpc : s.pc a = Pc.sub p) :
    Inv c (setPc s a (Pc.sub q)) := by
  refine inv_neutral h _ (by simp [hpc, Pc.neutral]) rfl (fun _ _ => ((h.rnd a).1 (by simp [hpc]) (by simp [hpc])))
    (by simp) (by simp) ?_
  intro q' _ hk; exact h.subF a p hpc hk

theorem inv_tryFail (h : Inv c s) (hpc : s.pc a = Pc.tryFail) :
    Inv c { setPc s a Pc.top with round := upd s.round a (s.round a + 1), fails := upd s.fails a (s.fails a + 1),
                                  failReqs := s.failReqs ++ [(a, s.round a)] } := by
  inv_auto h

theorem inv_subInit (h : Inv c s) (hpc : s.pc a = Pc.subInit) :
    Inv c { setPc s a (Pc.sub Seen.null) with flag := upd s.flag a false, flagNo := upd s.flagNo a (s.flagNo a + 1) } := by
  inv_auto h

theorem inv_waitPass (h : Inv c s) (hpc : s.pc a = Pc.waitFlag ∨ s.pc a = Pc.blocked) (hf : s.flag a = true) :
    Inv c (setPc s a Pc.crit) := by
  inv_auto h

theorem inv_waitBlock (h : Inv c s) (hpc : s.pc a = Pc.waitFlag) (hf : ¬ s.flag a = true) :
    Inv c (setPc s a Pc.blocked) := by
  inv_auto h

theorem inv_crit (h : Inv c s) (hpc : s.pc a = Pc.crit) :
    Inv c { setPc s a Pc.afterCs with incs := s.incs + 1, grantLog := s.grantLog ++ [a] } := by
  inv_auto h

theorem inv_relDone (h : Inv c s) (hpc : s.pc a = Pc.relDone) :
    Inv c { setPc s a Pc.top with round := upd s.round a (s.round a + 1) } := by
  inv_auto h

theorem inv_release (h : Inv c s) (hpc : s.pc a = Pc.afterCs) (hq : s.queue = []) (hr : s.req = [Elem.door]) :
    Inv c { setPc { s with incs := s.incs - 1 } a Pc.relDone with req := [] } := by
  simp only [hq, hr] at h ⊢
  inv_auto h

theorem inv_relSlow (h : Inv c s) (hpc : s.pc a = Pc.afterCs) (hq : s.queue = []) (hr : s.req ≠ [Elem.door]) :
    Inv c (setPc { s with incs := s.incs - 1 } a Pc.relBuild) := by
  have hd := doorEnd_nodes (h.door a (by simp [Owner, hpc, isOwner]) (by simp [hpc])) hr
  inv_auto h

theorem inv_relBuild (h : Inv c s) (hpc : s.pc a = Pc.relBuild) :
    Inv c { setPc s a Pc.relHand with req := [Elem.door], queue := (nodesOf s.req).reverse ++ s.queue } := by
  have hq := (h.relB a hpc).1
  simp only [hq] at h ⊢
  inv_auto h

theorem inv_build (h : Inv c s) (hpc : s.pc a = Pc.build) :
    Inv c { setPc s a Pc.crit with req := [Elem.door], queue := ((nodesOf s.req).filter (· ≠ a)).reverse ++ s.queue,
                                     grants := upd s.grants a (s.grants a + 1),
                                     grantReqs := s.grantReqs ++ [(a, s.round a)] } := by
  have hq := (h.bld a hpc).2
  simp only [hq] at h ⊢
  inv_auto h

theorem inv_sub_null (h : Inv c s) (p : Seen) (hpc : s.pc a = Pc.sub p) (hr : s.req = []) (cu : Nat → Option Nat) :
    Inv c { setPc s a Pc.build with req := Elem.node a :: s.req, stamp := upd s.stamp a s.clock,
                                    clock := s.clock + 1, cur := cu } := by
  simp only [hr] at h ⊢
  inv_auto h

theorem inv_sub_sync (h : Inv c s) (p : Seen) (hpc : s.pc a = Pc.sub p) (hr : s.req ≠ []) (hk : c.kind a = AKind.sync)
    (cu : Nat → Option Nat) :
    Inv c { setPc s a Pc.waitFlag with req := Elem.node a :: s.req, stamp := upd s.stamp a s.clock,
                                       clock := s.clock + 1, cur := cu } := by
  inv_split h
  case refine_11 => exact stampQ_push cnt stampC (by simp [hpc, isWaiting]) stampQ
  all_goals inv_grind

theorem inv_sub_coro (h : Inv c s) (p : Seen) (hpc : s.pc a = Pc.sub p) (hr : s.req ≠ []) (hk : c.kind a = AKind.coro)
    (cu : Nat → Option Nat) :
    Inv c { setPc s a Pc.parked with req := Elem.node a :: s.req, stamp := upd s.stamp a s.clock,
                                     clock := s.clock + 1, cur := cu } := by
  inv_split h
  case refine_11 => exact stampQ_push cnt stampC (by simp [hpc, isWaiting]) stampQ
  all_goals inv_grind

theorem Inv.head_facts (h : Inv c s) {b : Nat} {rest : List Nat} (hq : s.queue = b :: rest) :
    isWaiting (s.pc b) (s.flag b) = true ∧ (∀ x, s.pc x ≠ Pc.build) ∧ rest.count b = 0 ∧ (nodesOf s.req).count b = 0 := by
  have hnb : ∀ x, s.pc x ≠ Pc.build := fun x hx => by have := (h.bld x hx).2; simp [hq] at this
  have hc := h.cnt b
  simp only [hq, List.count_cons_self, Listed, hnb, or_false] at hc
  split at hc
  · rename_i hw; exact ⟨hw, hnb, by omega, by omega⟩
  · omega

theorem inv_hand_sync (h : Inv c s) (hpc : s.pc a = Pc.afterCs ∨ s.pc a = Pc.relHand) (b : Nat) (rest : List Nat)
    (hq : s.queue = b :: rest) (hk : c.kind b = AKind.sync) (k : Nat)
    (hk' : k = if s.pc a = Pc.afterCs then s.incs - 1 else s.incs) :
    Inv c { setPc { s with incs := k, queue := rest,
                           grants := upd s.grants b (s.grants b + 1),
                           grantReqs := s.grantReqs ++ [(b, s.round b)] } a Pc.relDone with
            flag := upd s.flag b true } := by
  subst hk'
  obtain ⟨hw, hnb, hc1, hc2⟩ := h.head_facts hq
  have hb : (s.pc b = Pc.waitFlag ∨ s.pc b = Pc.blocked) ∧ s.flag b = false := by
    have hkp := h.kindP b
    generalize s.pc b = pb at *
    cases pb <;> simp_all [isWaiting]
  have hba : b ≠ a := by rintro rfl; rcases hpc with e | e <;> simp [e, isWaiting] at hw
  inv_auto h

theorem inv_hand_coro (h : Inv c s) (hpc : s.pc a = Pc.afterCs ∨ s.pc a = Pc.relHand) (b : Nat) (rest : List Nat)
    (hq : s.queue = b :: rest) (hk : c.kind b = AKind.coro) (cu : Nat → Option Nat) (r : Nat → List Nat) (k : Nat)
    (hk' : k = if s.pc a = Pc.afterCs then s.incs - 1 else s.incs) :
    Inv c { setPc (setPc { s with incs := k, queue := rest,
                                  grants := upd s.grants b (s.grants b + 1),
                                  grantReqs := s.grantReqs ++ [(b, s.round b)] } b Pc.crit) a Pc.relDone with
            cur := cu, rq := r } := by
  subst hk'
  obtain ⟨hw, hnb, hc1, hc2⟩ := h.head_facts hq
  have hb : s.pc b = Pc.parked := by
    have hkp := h.kindW b
    generalize s.pc b = pb at *
    cases pb <;> simp_all [isWaiting]
  have hba : b ≠ a := by rintro rfl; rcases hpc with e | e <;> simp [e, isWaiting] at hw
  inv_auto h

theorem inv_handOver (h : Inv c s) (hpc : s.pc a = Pc.afterCs ∨ s.pc a = Pc.relHand) (t k : Nat)
    (hk : k = if s.pc a = Pc.afterCs then s.incs - 1 else s.incs) (hq : s.queue ≠ []) :
    Inv c (handOver c { s with incs := k } t a).1 := by
  unfold handOver
  cases hq' : s.queue with
  | nil => exact absurd hq' hq
  | cons b rest =>
    dsimp only
    cases hkb : c.kind b with
    | sync => exact inv_hand_sync h hpc b rest hq' hkb k hk
    | coro =>
      simp only []
      cases hka : c.kind a with
      | sync => exact inv_hand_coro h hpc b rest hq' hkb _ _ k hk
      | coro =>
        simp only []
        split
        · exact inv_hand_coro h hpc b rest hq' hkb _ _ k hk
        · exact inv_hand_coro h hpc b rest hq' hkb _ _ k hk

/-! ## every activity preserves the invariant -/

theorem inv_incs_eta (h : Inv c s) : Inv c { s with incs := s.incs } := h

theorem inv_step (hwf : c.WF) (h : Inv c s) (t : Nat) (hg : canRun s a = true) : Inv c (agentStep c s t a).1 := by
  unfold agentStep
  split
  · exact h
  · exact h
  · -- top
    rename_i hpc
    split
    · rename_i hr; exact inv_top_none h hpc hr
    · rename_i r hr
      split
      · rename_i hq; exact inv_top_acq h hpc r hr hq
      · exact inv_top_fail hwf h hpc r hr
  · rename_i hpc; exact inv_tryFail h hpc
  · rename_i hpc; exact inv_subInit h hpc
  · -- sub
    rename_i prev hpc
    split
    · rename_i hseen
      by_cases hp : prev = Seen.null
      · subst hp
        simp only [if_true]
        exact inv_sub_null h _ hpc (seenOf_eq_null.1 hseen) _
      · have hr : s.req ≠ [] := fun e => hp (by rw [← hseen, e]; rfl)
        simp only [hp, if_false]
        cases hk : c.kind a with
        | sync => exact inv_sub_sync h _ hpc hr hk _
        | coro => exact inv_sub_coro h _ hpc hr hk _
    · exact inv_sub_fail h _ _ hpc
  · rename_i hpc; exact inv_build h hpc
  · rename_i hpc
    split
    · rename_i hf; exact inv_waitPass h (Or.inl hpc) hf
    · rename_i hf; exact inv_waitBlock h hpc hf
  · rename_i hpc
    have hf : s.flag a = true := by simpa [canRun, hpc] using hg
    exact inv_waitPass h (Or.inr hpc) hf
  · rename_i hpc; exact inv_crit h hpc
  · -- afterCs
    rename_i hpc
    dsimp only
    split
    · rename_i hq
      split
      · rename_i hr; exact inv_release h hpc hq hr
      · rename_i hr; exact inv_relSlow h hpc hq hr
    · rename_i hq
      exact inv_handOver h (Or.inl hpc) t (s.incs - 1) (by simp [hpc]) (by simpa using hq)
  · rename_i hpc; exact inv_relBuild h hpc
  · rename_i hpc
    have := inv_handOver h (Or.inr hpc) t s.incs (by simp [hpc]) (h.relH a hpc)
    exact this
  · rename_i hpc; exact inv_relDone h hpc

/-! ## the executor's bookkeeping is irrelevant -/

theorem handOver_exec_irrel (c : Cfg) (s : State) (t a : Nat) (cu : Nat → Option Nat) (r : Nat → List Nat) (tm : Nat → TMain) :
    core (handOver c { s with cur := cu, rq := r, tmain := tm } t a).1 = core (handOver c s t a).1 ∧
    (handOver c { s with cur := cu, rq := r, tmain := tm } t a).2 = (handOver c s t a).2 := by
  unfold handOver
  dsimp only
  cases hq : s.queue with
  | nil => simp [core, setPc, hq]
  | cons b rest =>
    dsimp only
    cases c.kind b with
    | sync => simp [core, setPc]
    | coro =>
      dsimp only
      cases c.kind a with
      | sync => simp [core, setPc]
      | coro =>
        dsimp only [curRound, setPc]
        split <;> simp [core]

theorem agentStep_exec_irrel (c : Cfg) (s : State) (t a : Nat) (cu : Nat → Option Nat) (r : Nat → List Nat) (tm : Nat → TMain) :
    core (agentStep c { s with cur := cu, rq := r, tmain := tm } t a).1 = core (agentStep c s t a).1 ∧
    (agentStep c { s with cur := cu, rq := r, tmain := tm } t a).2 = (agentStep c s t a).2 := by
  unfold agentStep
  dsimp only [curRound]
  split
  case h_11 =>
    split
    · split <;> simp_all [core, setPc]
    · exact handOver_exec_irrel c { s with incs := s.incs - 1 } t a cu r tm
  case h_13 => exact handOver_exec_irrel c s t a cu r tm
  all_goals (try split) <;> (try split) <;> (try split) <;> simp_all [core, setPc]


theorem agentStep_core_congr (c : Cfg) {s1 s2 : State} (t a : Nat) (h : core s1 = core s2) :
    core (agentStep c s1 t a).1 = core (agentStep c s2 t a).1 ∧ (agentStep c s1 t a).2 = (agentStep c s2 t a).2 := by
  have h1 := agentStep_exec_irrel c s1 t a (fun _ => none) (fun _ => []) (fun _ => TMain.finished)
  have h2 := agentStep_exec_irrel c s2 t a (fun _ => none) (fun _ => []) (fun _ => TMain.finished)
  have e : ({ s1 with cur := fun _ => none, rq := fun _ => [], tmain := fun _ => TMain.finished } : State) =
           { s2 with cur := fun _ => none, rq := fun _ => [], tmain := fun _ => TMain.finished } := h
  rw [e] at h1
  exact ⟨h1.1.symm.trans h2.1, h1.2.symm.trans h2.2⟩

theorem canRun_core_congr {s1 s2 : State} (a : Nat) (h : core s1 = core s2) : canRun s1 a = canRun s2 a := by
  have hp : s1.pc = s2.pc := (congrArg State.pc h : (core s1).pc = (core s2).pc)
  have hf : s1.flag = s2.flag := (congrArg State.flag h : (core s1).flag = (core s2).flag)
  unfold canRun
  rw [hp, hf]

theorem inv_core (h : Inv c s) : Inv c (core s) :=
  ⟨h.excl, h.free, h.door, h.bld, h.relB, h.relH, h.cnt, h.kindP, h.kindW, h.subF, h.stampQ, h.stampC, h.rnd, h.tryF,
   h.gr, h.greq, h.glog, h.incsA, h.incsN, h.failT, h.bldFirst, h.bldEnd⟩

theorem inv_of_core (h : Inv c (core s)) : Inv c s :=
  ⟨h.excl, h.free, h.door, h.bld, h.relB, h.relH, h.cnt, h.kindP, h.kindW, h.subF, h.stampQ, h.stampC, h.rnd, h.tryF,
   h.gr, h.greq, h.glog, h.incsA, h.incsN, h.failT, h.bldFirst, h.bldEnd⟩

theorem inv_core_congr {s1 s2 : State} (e : core s1 = core s2) (h : Inv c s1) : Inv c s2 :=
  inv_of_core (e ▸ inv_core h)

/-! ## runs -/

theorem inv_arun (hwf : c.WF) : ∀ (l : List (Nat × Nat)) (s : State), Inv c s → Guarded c s l → Inv c (arun c s l) := by
  intro l
  induction l with
  | nil => intro s h _; exact h
  | cons p l ih =>
    intro s h hg
    exact ih _ (inv_step hwf h p.1 hg.1) hg.2

theorem inv_reachable (hwf : c.WF) (hs : Reachable c s) : Inv c s := by
  obtain ⟨l, hg, e⟩ := hs
  exact inv_core_congr e.symm (inv_arun hwf l _ (inv_init c) hg)

theorem reachable_init (c : Cfg) : Reachable c (init c) := ⟨[], trivial, rfl⟩

theorem arun_append (c : Cfg) (s : State) (l1 l2 : List (Nat × Nat)) : arun c s (l1 ++ l2) = arun c (arun c s l1) l2 := by
  simp [arun, List.foldl_append]

theorem guarded_append {c : Cfg} : ∀ (l1 : List (Nat × Nat)) (s : State) (l2 : List (Nat × Nat)),
    Guarded c s (l1 ++ l2) ↔ Guarded c s l1 ∧ Guarded c (arun c s l1) l2 := by
  intro l1
  induction l1 with
  | nil => intro s l2; simp [Guarded, arun]
  | cons p l ih => intro s l2; simp only [List.cons_append, Guarded, ih, arun, List.foldl_cons, and_assoc]

theorem run_core_congr (c : Cfg) : ∀ (l : List (Nat × Nat)) {s1 s2 : State}, core s1 = core s2 →
    (Guarded c s1 l ↔ Guarded c s2 l) ∧ core (arun c s1 l) = core (arun c s2 l) := by
  intro l
  induction l with
  | nil => intro s1 s2 h; exact ⟨Iff.rfl, h⟩
  | cons p l ih =>
    intro s1 s2 h
    have hstep := (agentStep_core_congr c p.1 p.2 h).1
    have := ih hstep
    simp only [Guarded, arun, List.foldl_cons, canRun_core_congr p.2 h]
    exact ⟨and_congr_right (fun _ => this.1), this.2⟩

theorem reachable_arun (hs : Reachable c s) (l : List (Nat × Nat)) (hg : Guarded c s l) : Reachable c (arun c s l) := by
  obtain ⟨l0, hgl, e⟩ := hs
  have := run_core_congr c l e
  exact ⟨l0 ++ l, (guarded_append _ _ _).2 ⟨hgl, this.1.1 hg⟩, by rw [arun_append]; exact this.2⟩

theorem reachable_step (hs : Reachable c s) (t : Nat) {a : Nat} (hg : canRun s a = true) :
    Reachable c (agentStep c s t a).1 :=
  reachable_arun hs [(t, a)] ⟨hg, trivial⟩

theorem reachable_core_congr {s1 s2 : State} (e : core s1 = core s2) (hs : Reachable c s1) : Reachable c s2 := by
  obtain ⟨l, hg, e1⟩ := hs
  exact ⟨l, hg, e.symm.trans e1⟩

/-! ## hand-over -/

/-- whom agent `x`'s next activity hands the lock to -/
def grantee (s : State) (x : Nat) : Option Nat :=
  if s.pc x = Pc.afterCs ∨ s.pc x = Pc.relHand then s.queue.head? else none

theorem handOver_spec (c : Cfg) (s : State) (t x b : Nat) (rest : List Nat) (hq : s.queue = b :: rest) :
    (handOver c s t x).1.queue = rest ∧ (handOver c s t x).1.req = s.req ∧
    (handOver c s t x).1.grants = upd s.grants b (s.grants b + 1) ∧
    (handOver c s t x).1.stamp = s.stamp ∧ (handOver c s t x).1.clock = s.clock ∧
    (handOver c s t x).1.pc = (if c.kind b = AKind.coro then upd (upd s.pc b Pc.crit) x Pc.relDone else upd s.pc x Pc.relDone) ∧
    (handOver c s t x).1.flag = (if c.kind b = AKind.sync then upd s.flag b true else s.flag) := by
  unfold handOver
  simp only [hq]
  cases hkb : c.kind b with
  | sync => simp [setPc]
  | coro =>
    simp only []
    cases hka : c.kind x with
    | sync => simp [setPc]
    | coro =>
      simp only []
      split <;> simp [setPc]

theorem step_handOver (c : Cfg) (s : State) (t x b : Nat) (hg : grantee s x = some b) :
    ∃ k, (agentStep c s t x).1 = (handOver c { s with incs := k } t x).1 ∧ ∃ rest, s.queue = b :: rest := by
  unfold grantee at hg
  split at hg
  · rename_i hpc
    have hq : ∃ rest, s.queue = b :: rest := by
      cases hq : s.queue with
      | nil => simp [hq] at hg
      | cons b' rest => simp [hq] at hg; exact ⟨rest, by rw [hg]⟩
    obtain ⟨rest, hq⟩ := hq
    rcases hpc with hpc | hpc
    · refine ⟨s.incs - 1, ?_, rest, hq⟩
      unfold agentStep
      simp only [hpc, hq]
    · refine ⟨s.incs, ?_, rest, hq⟩
      unfold agentStep
      simp only [hpc]
  · simp at hg

theorem handOver_pc_other (c : Cfg) (s : State) (t x a : Nat) (hax : a ≠ x) :
    (handOver c s t x).1.pc a = if s.queue.head? = some a ∧ c.kind a = AKind.coro then Pc.crit else s.pc a := by
  cases hq : s.queue with
  | nil => simp [handOver, hq, setPc, hax]
  | cons b rest =>
    have h := (handOver_spec c s t x b rest hq).2.2.2.2.2.1
    rw [h]
    by_cases hab : a = b
    · subst hab; cases hk : c.kind a <;> simp [hax]
    · have : ¬ b = a := fun e => hab e.symm
      cases hk : c.kind b <;> simp [hax, hab, this]

/-- an activity of `x` changes the pc of another agent only by handing the lock to a parked coroutine -/
theorem step_pc_other (c : Cfg) (s : State) (t x a : Nat) (hax : a ≠ x) :
    (agentStep c s t x).1.pc a = if grantee s x = some a ∧ c.kind a = AKind.coro then Pc.crit else s.pc a := by
  by_cases hA : s.pc x = Pc.afterCs
  · unfold agentStep grantee
    simp only [hA, true_or, if_true]
    cases hq : s.queue with
    | nil => simp only []; split <;> simp [setPc, hax]
    | cons b rest => simp only []; rw [handOver_pc_other _ _ _ _ _ hax]
  by_cases hR : s.pc x = Pc.relHand
  · unfold agentStep grantee
    simp only [hR, or_true, if_true]
    rw [handOver_pc_other _ _ _ _ _ hax]
  · unfold agentStep grantee
    split <;> (try split) <;> (try split) <;> (try split) <;> simp_all [setPc]

theorem handOver_flag_other (c : Cfg) (s : State) (t x a : Nat) :
    (handOver c s t x).1.flag a = if s.queue.head? = some a ∧ c.kind a = AKind.sync then true else s.flag a := by
  cases hq : s.queue with
  | nil => simp [handOver, hq, setPc]
  | cons b rest =>
    have h := (handOver_spec c s t x b rest hq).2.2.2.2.2.2
    rw [h]
    by_cases hab : a = b
    · subst hab; cases hk : c.kind a <;> simp
    · have : ¬ b = a := fun e => hab e.symm
      cases hk : c.kind b <;> simp [hab, this]

/-- an activity of `x` changes the flag of another agent only by handing the lock to a blocking waiter -/
theorem step_flag_other (c : Cfg) (s : State) (t x a : Nat) (hax : a ≠ x) :
    (agentStep c s t x).1.flag a = if grantee s x = some a ∧ c.kind a = AKind.sync then true else s.flag a := by
  by_cases hA : s.pc x = Pc.afterCs
  · unfold agentStep grantee
    simp only [hA, true_or, if_true]
    cases hq : s.queue with
    | nil => simp only []; split <;> simp [setPc]
    | cons b rest => simp only []; rw [handOver_flag_other]
  by_cases hR : s.pc x = Pc.relHand
  · unfold agentStep grantee
    simp only [hR, or_true, if_true]
    rw [handOver_flag_other]
  · unfold agentStep grantee
    split <;> (try split) <;> (try split) <;> (try split) <;> simp_all [setPc]

theorem handOver_grants (c : Cfg) (s : State) (t x a : Nat) :
    (handOver c s t x).1.grants a = if s.queue.head? = some a then s.grants a + 1 else s.grants a := by
  cases hq : s.queue with
  | nil => simp [handOver, hq, setPc]
  | cons b rest =>
    rw [(handOver_spec c s t x b rest hq).2.2.1]
    by_cases hab : a = b
    · subst hab; simp
    · have : ¬ b = a := fun e => hab e.symm
      simp [hab, this]

/-- an activity of `x` grants the lock to another agent only by a hand-over -/
theorem step_grants_other (c : Cfg) (s : State) (t x a : Nat) (hax : a ≠ x) :
    (agentStep c s t x).1.grants a = if grantee s x = some a then s.grants a + 1 else s.grants a := by
  by_cases hA : s.pc x = Pc.afterCs
  · unfold agentStep grantee
    simp only [hA, true_or, if_true]
    cases hq : s.queue with
    | nil => simp only []; split <;> simp [setPc]
    | cons b rest => simp only []; rw [handOver_grants]
  by_cases hR : s.pc x = Pc.relHand
  · unfold agentStep grantee
    simp only [hR, or_true, if_true]
    rw [handOver_grants]
  · unfold agentStep grantee
    split <;> (try split) <;> (try split) <;> (try split) <;> simp_all [setPc]

/-! ## events, pending list -/

theorem handOver_no_cs (c : Cfg) (s : State) (t a x r : Nat) (ov : Bool) : Ev.cs x r ov ∉ (handOver c s t a).2.1 := by
  unfold handOver
  cases s.queue with
  | nil => simp
  | cons b rest =>
    dsimp only
    cases c.kind b with
    | sync => simp
    | coro =>
      dsimp only
      cases c.kind a with
      | sync => simp
      | coro => dsimp only; split <;> simp

/-- the only activity that emits a critical-section event is the `crit` step of the agent itself -/
theorem step_cs_event (c : Cfg) (s : State) (t a x r : Nat) (ov : Bool) (h : Ev.cs x r ov ∈ (agentStep c s t a).2.1) :
    s.pc a = Pc.crit ∧ x = a ∧ r = s.round a ∧ ov = decide (s.incs > 0) := by
  unfold agentStep at h
  split at h
  case h_10 hpc => simp at h; simp [hpc, h]
  case h_11 =>
    dsimp only at h
    split at h
    · split at h <;> simp at h
    · exact absurd h (handOver_no_cs _ _ _ _ _ _ _)
  case h_13 => exact absurd h (handOver_no_cs _ _ _ _ _ _ _)
  all_goals (try split at h) <;> (try split at h) <;> (try split at h) <;> (try simp at h)


theorem pending_sublist (s : State) : (pending s).Sublist (s.queue ++ (nodesOf s.req).reverse) :=
  List.Sublist.append (List.Sublist.refl _) (List.reverse_sublist.2 List.filter_sublist)

theorem owner_canRun {s : State} {a : Nat} (h : Owner s a) : canRun s a = true := by
  unfold Owner at h
  unfold canRun
  generalize s.pc a = p at *
  cases p <;> simp_all [isOwner]


/-! ## OS-thread level: every `threadStep` is a sequence of guarded agent activities -/

/-- what an activity does to the executor's bookkeeping -/
structure ExecEffect (c : Cfg) (s s' : State) (t a : Nat) : Prop where
  tmain : s'.tmain = s.tmain
  other : ∀ t', t' ≠ t → s'.cur t' = s.cur t' ∧ s'.rq t' = s.rq t'
  cur : ∀ b, s'.cur t = some b → s.cur t = some b ∨ c.kind b = AKind.coro
  rq : ∀ b, b ∈ s'.rq t → b ∈ s.rq t ∨ c.kind b = AKind.coro
  blocked : s'.pc a = Pc.blocked → s'.cur = s.cur ∧ s'.rq = s.rq

theorem handOver_exec (c : Cfg) (s : State) (t a : Nat) : ExecEffect c s (handOver c s t a).1 t a := by
  unfold handOver
  cases hq : s.queue with
  | nil => constructor <;> simp [setPc] <;> grind
  | cons b rest =>
    dsimp only
    cases hkb : c.kind b with
    | sync => constructor <;> simp [setPc] <;> grind
    | coro =>
      dsimp only
      cases hka : c.kind a with
      | sync => constructor <;> simp [setPc, upd_apply] <;> grind
      | coro =>
        dsimp only
        split <;> constructor <;> simp [setPc, upd_apply] <;> grind

theorem execEffect_incs {s s' : State} {t a k : Nat} (h : ExecEffect c { s with incs := k } s' t a) :
    ExecEffect c s s' t a := ⟨h.tmain, h.other, h.cur, h.rq, h.blocked⟩

theorem agentStep_exec (c : Cfg) (s : State) (t a : Nat) : ExecEffect c s (agentStep c s t a).1 t a := by
  unfold agentStep
  split
  case h_11 =>
    dsimp only
    split
    · split <;> constructor <;> simp [setPc] <;> grind
    · exact execEffect_incs (handOver_exec c _ t a)
  case h_13 => exact handOver_exec c s t a
  case h_6 prev hpc =>
    split
    · by_cases hc : prev ≠ Seen.null ∧ c.kind a = AKind.coro
      · rw [if_pos hc]; constructor <;> simp [setPc, upd_apply] <;> grind
      · rw [if_neg hc]; constructor <;> simp [setPc] <;> grind
    · constructor <;> simp [setPc] <;> grind
  all_goals (try split) <;> (try split) <;> (try split) <;> constructor <;> simp [setPc] <;> grind

theorem handOver_pc_self (c : Cfg) (s : State) (t a : Nat) : (handOver c s t a).1.pc a = Pc.relDone := by
  cases hq : s.queue with
  | nil => simp [handOver, hq, setPc]
  | cons b rest =>
    rw [(handOver_spec c s t a b rest hq).2.2.2.2.2.1]
    split <;> simp

/-- an agent becomes `blocked` only by the step that blocks its thread -/
theorem agentStep_blocked_outcome (c : Cfg) (s : State) (t a : Nat) (h : (agentStep c s t a).1.pc a = Pc.blocked) :
    (agentStep c s t a).2.2 = Outcome.blockedT := by
  unfold agentStep at h ⊢
  split
  case h_11 =>
    simp only [*] at h
    dsimp only at h ⊢
    split at h
    · split at h <;> simp [setPc] at h
    · rw [handOver_pc_self] at h; cases h
  case h_13 => simp only [*] at h; rw [handOver_pc_self] at h; cases h
  all_goals simp only [*] at h
  all_goals (try split at h) <;> (try split at h) <;> (try split at h) <;> simp_all [setPc]

/-- executor invariant of the thread-level runs -/
structure TInv (c : Cfg) (s : State) : Prop where
  curK : ∀ t b, s.cur t = some b → c.kind b = AKind.coro
  rqK : ∀ t b, b ∈ s.rq t → c.kind b = AKind.coro
  blk : ∀ t, s.tmain t = TMain.syncBody → s.pc t = Pc.blocked → s.cur t = none ∧ s.rq t = []
  startK : ∀ t, s.tmain t = TMain.coroStart → c.kind t = AKind.coro
  syncK : ∀ t, s.tmain t = TMain.syncBody → c.kind t = AKind.sync

theorem tinv_init (c : Cfg) : TInv c (init c) := by
  constructor <;> simp only [init]
  · intro t b h; cases h
  · intro t b h; cases h
  · intro t _ _; exact ⟨trivial, trivial⟩
  · intro t; split
    · split
      · intro h; cases h
      · rename_i hk; intro _; cases hc : c.kind t
        · exact absurd hc hk
        · rfl
    · intro h; cases h
  · intro t; split
    · split
      · rename_i hk; intro _; exact hk
      · intro h; cases h
    · intro h; cases h

/-- an activity as `threadStep` issues it: a blocking contender runs as the body of its own thread with nothing else
    on that thread, a coroutine runs as the thread's current coroutine -/
def RunsAs (c : Cfg) (s : State) (t a : Nat) : Prop :=
  (c.kind a = AKind.sync ∧ t = a ∧ s.cur a = none ∧ s.rq a = []) ∨ (c.kind a = AKind.coro ∧ s.cur t = some a)

theorem tinv_agentStep {t a : Nat} (hT : TInv c s) (hrun : RunsAs c s t a) : TInv c (agentStep c s t a).1 := by
  have hE := agentStep_exec c s t a
  have hpo := step_pc_other c s t a
  refine ⟨?_, ?_, ?_, ?_, ?_⟩
  · intro t' b hb
    by_cases ht : t' = t
    · subst ht; rcases hE.cur b hb with h | h
      · exact hT.curK _ _ h
      · exact h
    · rw [(hE.other t' ht).1] at hb; exact hT.curK _ _ hb
  · intro t' b hb
    by_cases ht : t' = t
    · subst ht; rcases hE.rq b hb with h | h
      · exact hT.rqK _ _ h
      · exact h
    · rw [(hE.other t' ht).2] at hb; exact hT.rqK _ _ hb
  · intro t' htm hpc
    rw [hE.tmain] at htm
    have hks := hT.syncK t' htm
    by_cases hta : t' = a
    · subst hta
      rcases hrun with ⟨_, rfl, hc, hr⟩ | ⟨hk, _⟩
      · obtain ⟨e1, e2⟩ := hE.blocked hpc
        rw [e1, e2]; exact ⟨hc, hr⟩
      · rw [hk] at hks; cases hks
    · have hpc0 : s.pc t' = Pc.blocked := by
        rw [hpo t' hta] at hpc
        split at hpc
        · cases hpc
        · exact hpc
      have hb := hT.blk t' htm hpc0
      by_cases ht : t' = t
      · subst ht
        rcases hrun with ⟨_, e, _, _⟩ | ⟨_, hc⟩
        · exact absurd e hta
        · rw [hb.1] at hc; cases hc
      · rw [(hE.other t' ht).1, (hE.other t' ht).2]; exact hb
  · intro t' h; rw [hE.tmain] at h; exact hT.startK t' h
  · intro t' h; rw [hE.tmain] at h; exact hT.syncK t' h

/-- what the scheduler guarantees through `enabled`: a thread blocked in `flag.wait` is only run when its flag is set -/
def WakeOk (s : State) (t : Nat) : Prop :=
  s.cur t = none → s.rq t = [] → s.tmain t = TMain.syncBody → s.pc t = Pc.blocked → s.flag t = true

theorem wakeOk_of_enabled {t : Nat} (h : enabled s t = true) : WakeOk s t := by
  intro hc hr htm hpc
  unfold enabled at h
  simp [htm, hc, hr, hpc] at h
  exact h

theorem agentStep_noop {t a : Nat} (h : canRun s a = false) (hw : s.pc a = Pc.blocked → s.flag a = true) :
    (agentStep c s t a).1 = s := by
  unfold canRun at h
  unfold agentStep
  split <;> simp_all

/-- one activity issued by `threadStep` is a guarded agent activity or a no-op (parked / finished coroutine) -/
theorem sim_act (hwf : c.WF) {t a : Nat} (hI : Inv c s) (hT : TInv c s) (hrun : RunsAs c s t a)
    (hw : s.pc a = Pc.blocked → s.flag a = true) :
    ∃ l0, Guarded c s l0 ∧ (agentStep c s t a).1 = arun c s l0 ∧ Inv c (agentStep c s t a).1 ∧
      TInv c (agentStep c s t a).1 := by
  by_cases hc : canRun s a = true
  · exact ⟨[(t, a)], ⟨hc, trivial⟩, rfl, inv_step hwf hI t hc, tinv_agentStep hT hrun⟩
  · have hc' : canRun s a = false := by simpa using hc
    have := agentStep_noop (c := c) (t := t) hc' hw
    exact ⟨[], trivial, this, by rw [this]; exact hI, by rw [this]; exact hT⟩

/-! ## OS-thread level: no runnable coroutine is ever lost by the executor glue (deadlock freedom for threads) -/

/-- where the executor glue puts agents -/
structure Placement (c : Cfg) (s s' : State) (t a : Nat) (o : Outcome) : Prop where
  /-- nothing leaves the thread's ready queue -/
  rqMono : ∀ x, x ∈ s.rq t → x ∈ s'.rq t
  /-- a coroutine that is handed the lock is put on this thread (current coroutine or ready queue) -/
  granted : ∀ b, grantee s a = some b → c.kind b = AKind.coro → s'.cur t = some b ∨ b ∈ s'.rq t
  /-- the running coroutine stays on the thread unless it parked or finished -/
  self : c.kind a = AKind.coro → s.cur t = some a → s'.cur t = some a ∨ a ∈ s'.rq t ∨ s'.pc a = Pc.parked ∨ s'.pc a = Pc.done
  fin : o = Outcome.finished → s'.pc a = Pc.done ∧ s'.cur = s.cur ∧ s'.rq = s.rq
  susp : o = Outcome.suspended → s'.pc a = Pc.parked ∨ a ∈ s'.rq t

theorem handOver_place (c : Cfg) (s : State) (t a : Nat) (hpc : s.pc a = Pc.afterCs ∨ s.pc a = Pc.relHand) :
    Placement c s (handOver c s t a).1 t a (handOver c s t a).2.2 := by
  have hg : grantee s a = s.queue.head? := by simp [grantee, hpc]
  unfold handOver
  cases hq : s.queue with
  | nil => constructor <;> simp [setPc, hg, hq] <;> grind
  | cons b rest =>
    dsimp only
    cases hkb : c.kind b with
    | sync => constructor <;> simp [setPc, hg, hq] <;> grind
    | coro =>
      dsimp only
      cases hka : c.kind a with
      | sync => constructor <;> simp [setPc, hg, hq] <;> grind
      | coro =>
        dsimp only
        split <;> constructor <;> simp [setPc, hg, hq] <;> grind

theorem placement_incs {s s' : State} {t a k : Nat} {o : Outcome}
    (h : Placement c { s with incs := k } s' t a o) : Placement c s s' t a o :=
  ⟨h.rqMono, h.granted, h.self, h.fin, h.susp⟩

theorem agentStep_afterCs_handOver (c : Cfg) (s : State) (t a : Nat) (hA : s.pc a = Pc.afterCs) (hq : s.queue ≠ []) :
    agentStep c s t a = handOver c { s with incs := s.incs - 1 } t a := by
  unfold agentStep
  simp only [hA]

theorem agentStep_place (c : Cfg) (s : State) (t a : Nat) :
    Placement c s (agentStep c s t a).1 t a (agentStep c s t a).2.2 := by
  by_cases hA : s.pc a = Pc.afterCs
  · have hg : grantee s a = s.queue.head? := by simp [grantee, hA]
    by_cases hq : s.queue = []
    · unfold agentStep
      simp only [hA, hq]
      split <;> constructor <;> simp [setPc, hg, hq] <;> grind
    · rw [agentStep_afterCs_handOver c s t a hA hq]
      exact placement_incs (handOver_place c { s with incs := s.incs - 1 } t a (Or.inl hA))
  by_cases hR : s.pc a = Pc.relHand
  · unfold agentStep
    simp only [hR]
    exact handOver_place c s t a (Or.inr hR)
  · have hg : grantee s a = none := by simp [grantee, hA, hR]
    unfold agentStep
    split <;> (try split) <;> (try split) <;> (try split) <;> constructor <;> simp_all [setPc] <;> grind

/-- location invariant of the thread-level runs: every runnable coroutine is hosted by a live thread -/
structure LInv (c : Cfg) (s : State) : Prop where
  loc : ∀ a, c.kind a = AKind.coro → canRun s a = true →
          (∃ t, s.cur t = some a ∨ a ∈ s.rq t) ∨ s.tmain a = TMain.coroStart
  live : ∀ t, (s.cur t ≠ none ∨ s.rq t ≠ []) → s.tmain t ≠ TMain.finished
  syncLive : ∀ a, c.kind a = AKind.sync → s.pc a ≠ Pc.done → s.tmain a = TMain.syncBody

theorem linv_init (c : Cfg) : LInv c (init c) := by
  refine ⟨?_, ?_, ?_⟩
  · intro a hk hcan
    right
    by_cases h : a < c.n
    · simp [init, h, hk]
    · simp [init, canRun, h] at hcan
  · intro t h; simp [init] at h
  · intro a hk hpc
    by_cases h : a < c.n
    · simp [init, h, hk]
    · simp [init, h] at hpc

theorem linv_agentStep {t a : Nat} (hI : Inv c s) (hL : LInv c s) (hrun : RunsAs c s t a)
    (hlive : s.tmain t ≠ TMain.finished) : LInv c (agentStep c s t a).1 := by
  have hE := agentStep_exec c s t a
  have hP := agentStep_place c s t a
  have hpo := step_pc_other c s t a
  refine ⟨?_, ?_, ?_⟩
  · intro x hkx hcan
    by_cases hxa : x = a
    · subst hxa
      rcases hrun with ⟨hk, _⟩ | ⟨_, hc⟩
      · rw [hk] at hkx; cases hkx
      · rcases hP.self hkx hc with h | h | h | h
        · exact Or.inl ⟨t, Or.inl h⟩
        · exact Or.inl ⟨t, Or.inr h⟩
        · simp [canRun, h] at hcan
        · simp [canRun, h] at hcan
    · by_cases hg : grantee s a = some x ∧ c.kind x = AKind.coro
      · exact Or.inl ⟨t, hP.granted x hg.1 hg.2⟩
      · have hpc : (agentStep c s t a).1.pc x = s.pc x := by rw [hpo x hxa, if_neg hg]
        have hnb : s.pc x ≠ Pc.blocked := by
          intro h; have := hI.kindW x (Or.inr h); rw [hkx] at this; cases this
        have hcan0 : canRun s x = true := by
          unfold canRun at hcan ⊢
          rw [hpc] at hcan
          generalize s.pc x = p at *
          cases p <;> simp_all
        rcases hL.loc x hkx hcan0 with ⟨t', h⟩ | h
        · left
          by_cases ht : t' = t
          · subst ht
            rcases h with h | h
            · exfalso
              rcases hrun with ⟨_, e, hc, _⟩ | ⟨_, hc⟩
              · subst e; rw [hc] at h; cases h
              · rw [hc] at h; exact hxa (Option.some.inj h).symm
            · exact ⟨t', Or.inr (hP.rqMono x h)⟩
          · exact ⟨t', by rw [(hE.other t' ht).1, (hE.other t' ht).2]; exact h⟩
        · right; rw [hE.tmain]; exact h
  · intro t' h
    rw [hE.tmain]
    by_cases ht : t' = t
    · subst ht; exact hlive
    · rw [(hE.other t' ht).1, (hE.other t' ht).2] at h; exact hL.live t' h
  · intro x hkx hpc
    rw [hE.tmain]
    apply hL.syncLive x hkx
    intro hd
    by_cases hxa : x = a
    · subst hxa
      have := agentStep_noop (c := c) (t := t) (s := s) (a := x) (by simp [canRun, hd]) (by simp [hd])
      rw [this] at hpc; exact hpc hd
    · rw [hpo x hxa] at hpc
      split at hpc
      · rename_i h; rw [hkx] at h; cases h.2
      · exact hpc hd

theorem linv_clear_cur (hL : LInv c s) {t b : Nat} (hb : s.cur t = some b) (hnr : canRun s b = false ∨ b ∈ s.rq t) :
    LInv c { s with cur := upd s.cur t none } := by
  obtain ⟨h1, h2, h3⟩ := hL
  refine ⟨?_, ?_, h3⟩
  · intro x hkx hcan'
    have hcan : canRun s x = true := hcan'
    clear hcan'
    rcases h1 x hkx hcan with ⟨t', h⟩ | h
    · left
      by_cases ht : t' = t
      · subst ht
        rcases h with h | h
        · rw [hb] at h
          have hxb : b = x := Option.some.inj h
          subst hxb
          rcases hnr with hn | hn
          · rw [hn] at hcan; cases hcan
          · exact ⟨t', Or.inr hn⟩
        · exact ⟨t', Or.inr h⟩
      · exact ⟨t', by simpa [upd_apply, ht] using h⟩
    · exact Or.inr h
  · intro t' h
    apply h2 t'
    by_cases ht : t' = t
    · subst ht; simp at h; exact Or.inr h
    · simpa [upd_apply, ht] using h

theorem linv_pop (hL : LInv c s) {t b : Nat} {rest : List Nat} (hcur : s.cur t = none) (hrq : s.rq t = b :: rest) :
    LInv c { s with rq := upd s.rq t rest, cur := upd s.cur t (some b) } := by
  obtain ⟨h1, h2, h3⟩ := hL
  refine ⟨?_, ?_, h3⟩
  · intro x hkx hcan'
    have hcan : canRun s x = true := hcan'
    clear hcan'
    rcases h1 x hkx hcan with ⟨t', h⟩ | h
    · left
      by_cases ht : t' = t
      · subst ht
        rcases h with h | h
        · rw [hcur] at h; cases h
        · rw [hrq] at h
          rcases List.mem_cons.1 h with e | e
          · exact ⟨t', Or.inl (by simp [e])⟩
          · exact ⟨t', Or.inr (by simpa using e)⟩
      · exact ⟨t', by simpa [upd_apply, ht] using h⟩
    · exact Or.inr h
  · intro t' h
    apply h2 t'
    by_cases ht : t' = t
    · subst ht; right; rw [hrq]; simp
    · simpa [upd_apply, ht] using h

theorem linv_start (hL : LInv c s) {t : Nat} (hcur : s.cur t = none) (htm : s.tmain t = TMain.coroStart) :
    LInv c { s with tmain := upd s.tmain t TMain.coroFlush, cur := upd s.cur t (some t) } := by
  obtain ⟨h1, h2, h3⟩ := hL
  refine ⟨?_, ?_, ?_⟩
  · intro x hkx hcan'
    have hcan : canRun s x = true := hcan'
    clear hcan'
    rcases h1 x hkx hcan with ⟨t', h⟩ | h
    · left
      by_cases ht : t' = t
      · subst ht
        rcases h with h | h
        · rw [hcur] at h; cases h
        · exact ⟨t', Or.inr h⟩
      · exact ⟨t', by simpa [upd_apply, ht] using h⟩
    · by_cases hx : x = t
      · subst hx; exact Or.inl ⟨x, Or.inl (by simp)⟩
      · right; simpa [upd_apply, hx] using h
  · intro t' h
    by_cases ht : t' = t
    · subst ht; simp
    · simp only [upd_apply, ht, if_false] at h ⊢; exact h2 t' h
  · intro x hkx hpc
    have := h3 x hkx hpc
    by_cases hx : x = t
    · subst hx; rw [htm] at this; cases this
    · simpa [upd_apply, hx] using this

theorem linv_finish (hL : LInv c s) {t : Nat} (hcur : s.cur t = none) (hrq : s.rq t = [])
    (hnc : s.tmain t ≠ TMain.coroStart) (hd : c.kind t = AKind.sync → s.pc t = Pc.done) :
    LInv c { s with tmain := upd s.tmain t TMain.finished } := by
  obtain ⟨h1, h2, h3⟩ := hL
  refine ⟨?_, ?_, ?_⟩
  · intro x hkx hcan'
    have hcan : canRun s x = true := hcan'
    clear hcan'
    rcases h1 x hkx hcan with h | h
    · exact Or.inl h
    · right
      by_cases hx : x = t
      · subst hx; exact absurd h hnc
      · simpa [upd_apply, hx] using h
  · intro t' h
    by_cases ht : t' = t
    · subst ht; rcases h with h | h
      · exact absurd hcur h
      · exact absurd hrq h
    · simp only [upd_apply, ht, if_false]; exact h2 t' h
  · intro x hkx hpc
    by_cases hx : x = t
    · subst hx; exact absurd (hd hkx) hpc
    · simpa [upd_apply, hx] using h3 x hkx hpc

theorem tinv_clear_cur (hT : TInv c s) (t : Nat) : TInv c { s with cur := upd s.cur t none } := by
  obtain ⟨h1, h2, h3, h4, h5⟩ := hT
  constructor <;> simp only [upd_apply] <;> grind

theorem tinv_pop (hT : TInv c s) {t b : Nat} {rest : List Nat} (hrq : s.rq t = b :: rest) :
    TInv c { s with rq := upd s.rq t rest, cur := upd s.cur t (some b) } := by
  obtain ⟨h1, h2, h3, h4, h5⟩ := hT
  constructor <;> simp only [upd_apply] <;> grind

theorem tinv_start (hT : TInv c s) {t : Nat} (htm : s.tmain t = TMain.coroStart) :
    TInv c { s with tmain := upd s.tmain t TMain.coroFlush, cur := upd s.cur t (some t) } := by
  obtain ⟨h1, h2, h3, h4, h5⟩ := hT
  constructor <;> simp only [upd_apply] <;> grind

theorem tinv_finish (hT : TInv c s) (t : Nat) : TInv c { s with tmain := upd s.tmain t TMain.finished } := by
  obtain ⟨h1, h2, h3, h4, h5⟩ := hT
  constructor <;> simp only [upd_apply] <;> grind

theorem sim_continue {s s1 s2 R : State} {l0 : List (Nat × Nat)} (hl0 : Guarded c s l0) (he : s1 = arun c s l0)
    (h12 : core s2 = core s1)
    (ih : ∃ l2, Guarded c s2 l2 ∧ core R = core (arun c s2 l2) ∧ TInv c R ∧ LInv c R) :
    ∃ l, Guarded c s l ∧ core R = core (arun c s l) ∧ TInv c R ∧ LInv c R := by
  obtain ⟨l2, hg2, hr, hT, hL⟩ := ih
  subst he
  have := run_core_congr c l2 h12
  exact ⟨l0 ++ l2, (guarded_append _ _ _).2 ⟨hl0, this.1.1 hg2⟩, by rw [arun_append, hr]; exact this.2, hT, hL⟩

theorem threadStep_sim (hwf : c.WF) : ∀ (fuel : Nat) (s : State) (t : Nat), Inv c s → TInv c s → LInv c s → WakeOk s t →
    ∃ l, Guarded c s l ∧ core (threadStep c fuel s t).1 = core (arun c s l) ∧ TInv c (threadStep c fuel s t).1 ∧
      LInv c (threadStep c fuel s t).1 := by
  intro fuel
  induction fuel with
  | zero => intro s t _ hT hL _; exact ⟨[], trivial, rfl, hT, hL⟩
  | succ fuel ih =>
    intro s t hI hT hL hW
    rw [threadStep]
    cases hcur : s.cur t with
    | some b =>
      dsimp only
      have hkb := hT.curK t b hcur
      have hrun : RunsAs c s t b := Or.inr ⟨hkb, hcur⟩
      have hw : s.pc b = Pc.blocked → s.flag b = true := by
        intro h; have := hI.kindW b (Or.inr h); rw [hkb] at this; cases this
      obtain ⟨l0, hl0, he, hI1, hT1⟩ := sim_act hwf hI hT hrun hw
      have hE := agentStep_exec c s t b
      have hP := agentStep_place c s t b
      have hL1 : LInv c (agentStep c s t b).1 :=
        linv_agentStep hI hL hrun (hL.live t (Or.inl (by rw [hcur]; simp)))
      -- the thread's own blocking contender is not blocked while a coroutine runs on the thread
      have hnb : (agentStep c s t b).1.tmain t = TMain.syncBody → (agentStep c s t b).1.pc t ≠ Pc.blocked := by
        intro htm hpc
        rw [hE.tmain] at htm
        have hbt : t ≠ b := by
          rintro rfl; have := hT.syncK t htm; rw [hkb] at this; cases this
        rw [step_pc_other c s t b t hbt] at hpc
        split at hpc
        · cases hpc
        · have := (hT.blk t htm hpc).1; rw [hcur] at this; cases this
      generalize hs1 : (agentStep c s t b).fst = s1 at *
      generalize (agentStep c s t b).2.fst = e1
      generalize (agentStep c s t b).2.snd = o at *
      have hrec : ∀ s2, core s2 = core s1 → TInv c s2 → LInv c s2 → WakeOk s2 t →
          ∃ l, Guarded c s l ∧ core (threadStep c fuel s2 t).1 = core (arun c s l) ∧ TInv c (threadStep c fuel s2 t).1 ∧
            LInv c (threadStep c fuel s2 t).1 :=
        fun s2 h12 hT2 hL2 hW2 => sim_continue hl0 he h12 (ih s2 t (inv_core_congr h12.symm hI1) hT2 hL2 hW2)
      have hW1 : WakeOk s1 t := fun _ _ htm hpc => absurd hpc (hnb htm)
      have hfin : (canRun s1 b = false ∨ b ∈ s1.rq t) → ∃ l, Guarded c s l ∧
          core (threadStep c fuel (if s1.cur t = some b then { s1 with cur := upd s1.cur t none } else s1) t).1 =
            core (arun c s l) ∧
          TInv c (threadStep c fuel (if s1.cur t = some b then { s1 with cur := upd s1.cur t none } else s1) t).1 ∧
          LInv c (threadStep c fuel (if s1.cur t = some b then { s1 with cur := upd s1.cur t none } else s1) t).1 := by
        intro hnr
        split
        · rename_i hc1
          exact hrec _ rfl (tinv_clear_cur hT1 t) (linv_clear_cur hL1 hc1 hnr) (fun _ _ htm hpc => absurd hpc (hnb htm))
        · exact hrec _ rfl hT1 hL1 hW1
      cases o <;> dsimp only
      · exact ⟨l0, hl0, by rw [he], hT1, hL1⟩
      · exact ⟨l0, hl0, by rw [he], hT1, hL1⟩
      · exact hfin (Or.inl (by simp [canRun, (hP.fin rfl).1]))
      · refine hfin ?_
        rcases hP.susp rfl with h | h
        · exact Or.inl (by simp [canRun, h])
        · exact Or.inr h
      · exact hrec _ rfl hT1 hL1 hW1
    | none =>
      dsimp only
      have hrec0 : ∀ s2, core s2 = core s → TInv c s2 → LInv c s2 → WakeOk s2 t →
          ∃ l, Guarded c s l ∧ core (threadStep c fuel s2 t).1 = core (arun c s l) ∧ TInv c (threadStep c fuel s2 t).1 ∧
            LInv c (threadStep c fuel s2 t).1 :=
        fun s2 h12 hT2 hL2 hW2 =>
          sim_continue (l0 := []) trivial rfl h12 (ih s2 t (inv_core_congr h12.symm hI) hT2 hL2 hW2)
      cases hrq : s.rq t with
      | cons b rest =>
        dsimp only
        exact hrec0 _ rfl (tinv_pop hT hrq) (linv_pop hL hcur hrq) (fun h => by simp at h)
      | nil =>
        dsimp only
        cases htm : s.tmain t with
        | finished => exact ⟨[], trivial, rfl, hT, hL⟩
        | coroStart =>
          dsimp only
          exact hrec0 _ rfl (tinv_start hT htm) (linv_start hL hcur htm) (fun h => by simp at h)
        | coroFlush =>
          refine ⟨[], trivial, rfl, tinv_finish hT t, linv_finish hL hcur hrq (by rw [htm]; simp) ?_⟩
          intro hk
          have := hL.syncLive t hk
          rw [htm] at this
          exact Classical.byContradiction (fun h => by have := this h; cases this)
        | syncBody =>
          dsimp only
          have hkt := hT.syncK t htm
          have hrun : RunsAs c s t t := Or.inl ⟨hkt, rfl, hcur, hrq⟩
          obtain ⟨l0, hl0, he, hI1, hT1⟩ := sim_act hwf hI hT hrun (hW hcur hrq htm)
          have hbo := agentStep_blocked_outcome c s t t
          have hE := agentStep_exec c s t t
          have hP := agentStep_place c s t t
          have hL1 : LInv c (agentStep c s t t).1 := linv_agentStep hI hL hrun (by rw [htm]; simp)
          generalize hs1 : (agentStep c s t t).fst = s1 at *
          generalize (agentStep c s t t).2.fst = e1
          generalize ho : (agentStep c s t t).2.snd = o at *
          have hrec : ∀ s2, core s2 = core s1 → TInv c s2 → LInv c s2 → WakeOk s2 t →
              ∃ l, Guarded c s l ∧ core (threadStep c fuel s2 t).1 = core (arun c s l) ∧
                TInv c (threadStep c fuel s2 t).1 ∧ LInv c (threadStep c fuel s2 t).1 :=
            fun s2 h12 hT2 hL2 hW2 => sim_continue hl0 he h12 (ih s2 t (inv_core_congr h12.symm hI1) hT2 hL2 hW2)
          cases o <;> dsimp only
          · exact ⟨l0, hl0, by rw [he], hT1, hL1⟩
          · exact ⟨l0, hl0, by rw [he], hT1, hL1⟩
          · obtain ⟨hd, hc, hr⟩ := hP.fin rfl
            refine ⟨l0, hl0, by rw [← he]; rfl, tinv_finish hT1 t, linv_finish hL1 (by rw [hc]; exact hcur)
              (by rw [hr]; exact hrq) (by rw [hE.tmain, htm]; simp) (fun _ => hd)⟩
          · exact hrec _ rfl hT1 hL1 (fun _ _ _ hpc => by have := hbo hpc; cases this)
          · exact hrec _ rfl hT1 hL1 (fun _ _ _ hpc => by have := hbo hpc; cases this)

/-- **Every `threadStep` is a (possibly empty) sequence of guarded agent activities.**  In a state satisfying the
    invariants, what OS thread `t` does between two scheduling points (when the scheduler may run it: `enabled`)
    leads — up to the executor's bookkeeping `cur`/`rq`/`tmain` — to the same state as a list `l` of agent activities
    each of which is permitted by `canRun`. -/
theorem threadStep_is_arun (hwf : c.WF) (hI : Inv c s) (hT : TInv c s) (hL : LInv c s) (fuel t : Nat)
    (he : enabled s t = true) :
    ∃ l, Guarded c s l ∧ core (threadStep c fuel s t).1 = core (arun c s l) := by
  obtain ⟨l, hg, hc, _⟩ := threadStep_sim hwf fuel s t hI hT hL (wakeOk_of_enabled he)
  exact ⟨l, hg, hc⟩

/-- run a schedule of OS threads, as the driver does (`fuel` bounds the executor glue inside one `threadStep`) -/
def trun (c : Cfg) (fuel : Nat) (s : State) (ts : List Nat) : State :=
  ts.foldl (fun s t => (threadStep c fuel s t).1) s

/-- every scheduled thread is enabled when it is scheduled -/
def TGuarded (c : Cfg) (fuel : Nat) : State → List Nat → Prop
  | _, [] => True
  | s, t :: ts => enabled s t = true ∧ TGuarded c fuel (threadStep c fuel s t).1 ts

theorem threadStep_reachable (hwf : c.WF) (hs : Reachable c s) (hT : TInv c s) (hL : LInv c s) (fuel t : Nat)
    (he : enabled s t = true) :
    Reachable c (threadStep c fuel s t).1 ∧ TInv c (threadStep c fuel s t).1 ∧ LInv c (threadStep c fuel s t).1 := by
  obtain ⟨l, hg, hc, hT', hL'⟩ := threadStep_sim hwf fuel s t (inv_reachable hwf hs) hT hL (wakeOk_of_enabled he)
  exact ⟨reachable_core_congr hc.symm (reachable_arun hs l hg), hT', hL'⟩

/-- **Transfer to the OS-thread level.** Every state the driver/harness can reach by scheduling enabled threads is
    `Reachable`, hence all theorems about reachable states hold for it. -/
theorem treachable_reachable (hwf : c.WF) (fuel : Nat) : ∀ (ts : List Nat) (s : State), Reachable c s → TInv c s →
    LInv c s → TGuarded c fuel s ts →
    Reachable c (trun c fuel s ts) ∧ TInv c (trun c fuel s ts) ∧ LInv c (trun c fuel s ts) := by
  intro ts
  induction ts with
  | nil => intro s hs hT hL _; exact ⟨hs, hT, hL⟩
  | cons t ts ih =>
    intro s hs hT hL hg
    obtain ⟨h1, h2, h3⟩ := threadStep_reachable hwf hs hT hL fuel t hg.1
    exact ih _ h1 h2 h3 hg.2

theorem trun_init_reachable (hwf : c.WF) (fuel : Nat) (ts : List Nat) (hg : TGuarded c fuel (init c) ts) :
    Reachable c (trun c fuel (init c) ts) :=
  (treachable_reachable hwf fuel ts _ (reachable_init c) (tinv_init c) (linv_init c) hg).1

/-- agent level: if no agent's code can run, every agent is done -/
theorem inv_stuck_done (h : Inv c s) (hstuck : ∀ a, canRun s a = false) : ∀ a, s.pc a = Pc.done := by
  have hno : ∀ a, ¬ Owner s a := fun a ha => by have := owner_canRun ha; rw [hstuck a] at this; cases this
  obtain ⟨hr, hq⟩ := h.free hno
  intro a
  have hc := h.cnt a
  rw [hr, hq] at hc
  have hnl : ¬ Listed s a := by
    intro hl; rw [if_pos hl] at hc; simp at hc
  have hst := hstuck a
  unfold canRun at hst
  unfold Listed at hnl
  generalize s.pc a = p at *
  cases p <;> simp_all [isWaiting]

theorem enabled_false {s : State} {t : Nat} (h : enabled s t = false) (htm : s.tmain t ≠ TMain.finished) :
    s.cur t = none ∧ s.rq t = [] ∧ s.pc t = Pc.blocked ∧ s.tmain t = TMain.syncBody ∧ s.flag t = false := by
  unfold enabled at h
  split at h
  · rename_i hm; exact absurd hm htm
  · split at h
    · cases h
    · split at h
      · cases h
      · split at h
        · rename_i hb; exact ⟨by assumption, by assumption, hb.1, hb.2, h⟩
        · cases h

/-- OS-thread level: if no thread is enabled, every agent is done and every thread has finished -/
theorem threads_stuck_done (h : Inv c s) (hL : LInv c s) (hstuck : ∀ t, enabled s t = false) :
    (∀ a, s.pc a = Pc.done) ∧ ∀ t, s.tmain t = TMain.finished := by
  have hen := fun t (htm : s.tmain t ≠ TMain.finished) => enabled_false (hstuck t) htm
  have hcan : ∀ a, canRun s a = false := by
    intro a
    apply Classical.byContradiction
    intro hne
    have hca : canRun s a = true := by simpa using hne
    cases hk : c.kind a with
    | sync =>
      have hnd : s.pc a ≠ Pc.done := by intro hd; simp [canRun, hd] at hca
      have htm := hL.syncLive a hk hnd
      obtain ⟨_, _, hb, _, hf⟩ := hen a (by rw [htm]; simp)
      simp [canRun, hb, hf] at hca
    | coro =>
      rcases hL.loc a hk hca with ⟨t, h1⟩ | h1
      · have hlive := hL.live t (by
          rcases h1 with h1 | h1
          · left; rw [h1]; simp
          · right; intro e; rw [e] at h1; cases h1)
        obtain ⟨hc, hr, _⟩ := hen t hlive
        rcases h1 with h1 | h1
        · rw [hc] at h1; cases h1
        · rw [hr] at h1; cases h1
      · obtain ⟨_, _, _, hsb, _⟩ := hen a (by rw [h1]; simp)
        rw [h1] at hsb; cases hsb
  have hdone := inv_stuck_done h hcan
  refine ⟨hdone, ?_⟩
  intro t
  apply Classical.byContradiction
  intro htm
  obtain ⟨_, _, hb, _⟩ := hen t htm
  rw [hdone t] at hb; cases hb

/-! ## concrete scenarios used by the `example`s next to the property theorems -/

instance decGuarded (c : Cfg) : (s : State) → (l : List (Nat × Nat)) → Decidable (Guarded c s l)
  | _, [] => isTrue trivial
  | _, _ :: l => @instDecidableAnd _ _ inferInstance (decGuarded c _ l)

instance decTGuarded (c : Cfg) (fuel : Nat) : (s : State) → (ts : List Nat) → Decidable (TGuarded c fuel s ts)
  | _, [] => isTrue trivial
  | _, _ :: ts => @instDecidableAnd _ _ inferInstance (decTGuarded c fuel _ ts)

/-- one blocking contender (agent 0) and two coroutines (1: awaited release; 2: discarded release, then a `try_lock`) -/
def cfgEx : Cfg :=
  { n := 3, kind := fun i => if i = 0 then AKind.sync else AKind.coro,
    rounds := fun i => if i = 0 then [⟨Flavour.lock, Rel.x⟩] else if i = 1 then [⟨Flavour.co, Rel.a⟩]
                       else if i = 2 then [⟨Flavour.co, Rel.x⟩, ⟨Flavour.try_, Rel.d⟩] else [] }

theorem cfgEx_wf : cfgEx.WF := by
  intro a r hr hfl
  by_cases h0 : a = 0
  · subst h0; simp [cfgEx] at hr; subst hr; cases hfl
  · simp [cfgEx, h0]

/-- 0 takes the lock; 1 and 2 publish behind it (each needs three CAS attempts) and park -/
def runP : List (Nat × Nat) := [(0,0), (1,1), (1,1), (1,1), (2,2), (2,2), (2,2)]
/-- … 0 enters and leaves its critical section, its fast-path CAS fails, it rebuilds the queue (`queue = [1, 2]`) -/
def runA : List (Nat × Nat) := runP ++ [(0,0), (0,0), (0,0)]
/-- … and hands over to 1, which is resumed on thread 0 -/
def runB : List (Nat × Nat) := runA ++ [(0,0)]
/-- … everybody runs to the end (1 hands over to 2 by symmetric transfer, 2 releases and `try_lock`s successfully) -/
def runZ : List (Nat × Nat) :=
  runB ++ [(0,1), (0,1), (0,2), (0,2), (0,2), (0,2), (0,2), (0,2), (0,2), (0,2), (0,1), (0,1), (0,0), (0,0)]
/-- 1 fails `ready()`, 0 releases, 1's publishing CAS finds null (found-null acquirer, `build`), 2 publishes behind it -/
def runN : List (Nat × Nat) := [(0,0), (1,1), (0,0), (0,0), (1,1), (2,2), (2,2), (2,2)]

def sP : State := arun cfgEx (init cfgEx) runP
def sA : State := arun cfgEx (init cfgEx) runA
def sB : State := arun cfgEx (init cfgEx) runB
def sZ : State := arun cfgEx (init cfgEx) runZ
def sN : State := arun cfgEx (init cfgEx) runN

theorem reachable_of_run (c : Cfg) (l : List (Nat × Nat)) (h : Guarded c (init c) l) : Reachable c (arun c (init c) l) :=
  ⟨l, h, rfl⟩

/-- two blocking contenders and one `try_lock`er -/
def cfgSy : Cfg :=
  { n := 3, kind := fun _ => AKind.sync,
    rounds := fun i => if i = 2 then [⟨Flavour.try_, Rel.x⟩] else if i < 2 then [⟨Flavour.lock, Rel.d⟩] else [] }

theorem cfgSy_wf : cfgSy.WF := by
  intro a r hr hfl
  by_cases h2 : a = 2
  · subst h2; simp [cfgSy] at hr; subst hr; cases hfl
  · by_cases h : a < 2
    · simp [cfgSy, h2, h] at hr; subst hr; cases hfl
    · simp [cfgSy, h2, h] at hr

/-- 0 takes the lock, 1 publishes behind it and blocks, 2's `try_lock` fails -/
def runS : List (Nat × Nat) := [(0,0), (1,1), (1,1), (1,1), (1,1), (1,1), (2,2), (2,2)]

def sS : State := arun cfgSy (init cfgSy) runS

/-- the schedule of OS threads that produces `runB` (thread 0 runs the hand-over), and its completion -/
def schedB : List Nat := [0, 1, 1, 1, 2, 2, 2, 0, 0, 0, 0]
def schedZ : List Nat := schedB ++ [0, 0, 0, 0, 0, 0, 1, 2]

end Cocls.Mutex
