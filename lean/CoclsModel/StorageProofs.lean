import CoclsModel.Storage
/-!
Invariant of the storage-policy machine (`Storage.lean`) and its preservation by every step
(helper lemmas for `Props/C19.lean`).
-/
namespace Cocls.Storage

@[simp] theorem Heap.new_next (h : Heap) (n : Nat) : (h.new n).next = h.next + 1 := by cases h; rfl
@[simp] theorem Heap.new_live (h : Heap) (n : Nat) : (h.new n).live = h.live ++ [(h.next, n)] := by cases h; rfl
@[simp] theorem Heap.new_dels (h : Heap) (n : Nat) : (h.new n).dels = h.dels := by cases h; rfl
@[simp] theorem Heap.del_next (h : Heap) (b : Nat) : (h.del b).next = h.next := by cases h; rfl
@[simp] theorem Heap.del_live (h : Heap) (b : Nat) : (h.del b).live = h.live.filter (fun p => p.1 != b) := by cases h; rfl
@[simp] theorem Heap.del_dels (h : Heap) (b : Nat) : (h.del b).dels = h.dels ++ [b] := by cases h; rfl

@[simp] theorem Heap.ids_new (h : Heap) (n : Nat) : (h.new n).ids = h.ids ++ [h.next] := by
  simp [Heap.ids]

@[simp] theorem Heap.ids_del (h : Heap) (b : Nat) : (h.del b).ids = h.ids.filter (fun x => x != b) := by
  simp only [Heap.ids, Heap.del_live, List.filter_map]
  rfl

theorem count_filter_ne (l : List Nat) (b x : Nat) :
    (l.filter (fun y => y != b)).count x = if x = b then 0 else l.count x := by
  by_cases hx : x = b
  · subst hx
    simp only [if_true]
    apply List.count_eq_zero.mpr
    simp [List.mem_filter]
  · simp only [hx, if_false]
    apply List.count_filter
    simp [hx]

theorem nodup_map_inj {α β : Type} {f : α → β} {l : List α} (h : (l.map f).Nodup) {a b : α} (ha : a ∈ l) (hb : b ∈ l)
    (e : f a = f b) : a = b := by
  induction l with
  | nil => cases ha
  | cons x xs ih =>
    simp only [List.map_cons, List.nodup_cons, List.mem_map, not_exists, not_and] at h
    rcases List.mem_cons.mp ha with rfl | ha' <;> rcases List.mem_cons.mp hb with rfl | hb'
    · rfl
    · exact absurd e.symm (h.1 b hb')
    · exact absurd e (h.1 a ha')
    · exact ih h.2 ha' hb'

theorem mem_ids_of_mem_live {h : Heap} {b n : Nat} (hm : (b, n) ∈ h.live) : b ∈ h.ids :=
  List.mem_map.mpr ⟨(b, n), hm, rfl⟩

theorem mem_live_del {h : Heap} {b c n : Nat} (hm : (b, n) ∈ h.live) (hne : b ≠ c) : (b, n) ∈ (h.del c).live := by
  simp only [Heap.del_live, List.mem_filter]
  exact ⟨hm, by simp [hne]⟩

theorem mem_live_new {h : Heap} {b n m : Nat} (hm : (b, n) ∈ h.live) : (b, n) ∈ (h.new m).live := by
  simp [hm]

/-- bytes of the storage's own block -/
def capBytes (s : State) : Nat :=
  match s.cfg.pol with
  | .buffer itemsz => s.cap * itemsz
  | _ => s.cap

/-- where a frame that is *not* in a private heap block may sit -/
def SharedAt (s : State) (b : Blk) : Prop :=
  match s.cfg.pol with
  | .default => False
  | .reusable => b = s.ptrBlk
  | .mtsafe => b = s.ptrBlk
  | .buffer _ => b = s.ptrBlk
  | .placement _ => b = Blk.ext 0
  | .static _ _ => b = Blk.ext 0
  | .stack _ => ∃ k, b = Blk.ext k ∧ k < s.objs.length

/-- frame bookkeeping: every frame id is created once and is either live or released once -/
structure Book (s : State) : Prop where
  fid_lt : ∀ f ∈ s.frames, f.id < s.nextFrame
  born_once : ∀ i, s.born.count i = if i < s.nextFrame then 1 else 0
  life : ∀ i, (s.frames.map (·.id)).count i + s.died.count i = if i < s.nextFrame then 1 else 0
  inv_last : ∀ i, s.inventory = some i → i + 1 = s.nextFrame

/-- memory accounting -/
structure Mem (s : State) : Prop where
  once : ∀ b, s.heap.ids.count b + s.heap.dels.count b = if b < s.heap.next then 1 else 0
  noleak : ∀ b, s.heap.ids.count b = s.ptr.toList.count b + s.optr.toList.count b + (privBlocks s.frames).count b
  fits : ∀ f ∈ s.frames, Fits s f
  excl : (s.frames.map (·.blk)).Nodup
  priv_heap : ∀ f ∈ s.frames, f.priv = true → ∃ b, f.blk = Blk.heap b
  shared_blk : ∀ f ∈ s.frames, f.priv = false → SharedAt s f.blk
  ptr_live : ∀ b, s.ptr = some b → (b, capBytes s) ∈ s.heap.live
  ptr_none : s.ptr = none → s.cap = 0
  vsize_le : s.vsize ≤ s.cap
  busy_iff : s.cfg.pol = Policy.mtsafe → (s.busy = true ↔ ∃ f ∈ s.frames, f.priv = false)
  optr_live : ∀ b, s.optr = some b → (b, s.ocap) ∈ s.heap.live
  optr_none : s.optr = none → s.ocap = 0

def CfgOK (c : Cfg) : Prop :=
  match c.pol with
  | .buffer itemsz => 0 < itemsz
  | _ => True

structure Inv (s : State) : Prop where
  book : Book s
  mem : Mem s

/-! #### consequences -/

theorem Mem.count_le_one {s : State} (h : Mem s) (b : Nat) : s.heap.ids.count b ≤ 1 := by
  have := h.once b; split at this <;> omega

theorem Mem.fresh_ids {s : State} (h : Mem s) : s.heap.ids.count s.heap.next = 0 := by
  have := h.once s.heap.next; simp at this; exact this.1

theorem Mem.fresh_dels {s : State} (h : Mem s) : s.heap.dels.count s.heap.next = 0 := by
  have := h.once s.heap.next; simp at this; exact this.2

theorem Mem.fresh_optr {s : State} (h : Mem s) : s.optr.toList.count s.heap.next = 0 := by
  have h1 := h.noleak s.heap.next
  have h2 := h.fresh_ids
  omega

theorem Mem.lt_of_mem_ids {s : State} (h : Mem s) {b : Nat} (hb : b ∈ s.heap.ids) : b < s.heap.next := by
  have h1 := h.once b
  have h2 : 0 < s.heap.ids.count b := List.count_pos_iff.mpr hb
  split at h1 <;> omega

theorem mem_privBlocks {fr : List Frame} {f : Frame} {b : Nat} (hf : f ∈ fr) (hp : f.priv = true)
    (hb : f.blk = Blk.heap b) : b ∈ privBlocks fr := by
  simp only [privBlocks, List.mem_filterMap]
  exact ⟨f, hf, by simp [Frame.privBlk?, hp, hb]⟩

theorem Mem.blk_in_ids {s : State} (h : Mem s) {f : Frame} {b : Nat} (hf : f ∈ s.frames) (hb : f.blk = Blk.heap b) :
    b ∈ s.heap.ids := by
  have := h.fits f hf
  simp only [Fits, hb] at this
  obtain ⟨n, hn, _⟩ := this
  exact mem_ids_of_mem_live hn

theorem Mem.fresh_not_frame {s : State} (h : Mem s) : Blk.heap s.heap.next ∉ s.frames.map (·.blk) := by
  intro hm
  obtain ⟨f, hf, hb⟩ := List.mem_map.mp hm
  have := h.lt_of_mem_ids (h.blk_in_ids hf hb)
  omega

theorem privBlocks_append (a b : List Frame) : privBlocks (a ++ b) = privBlocks a ++ privBlocks b := by
  simp [privBlocks]

theorem Fits.mono {s s' : State} {f : Frame} (hc : s'.cfg = s.cfg) (ho : ∀ k, f.blk = Blk.ext k → s.extSize k ≤ s'.extSize k)
    (hl : ∀ b n, f.blk = Blk.heap b → (b, n) ∈ s.heap.live → (b, n) ∈ s'.heap.live) (h : Fits s f) : Fits s' f := by
  unfold Fits at *
  cases hb : f.blk with
  | null => simp only [hb] at h ⊢; rw [hc]; exact h
  | heap b =>
    simp only [hb] at h ⊢
    obtain ⟨n, hn, hle⟩ := h
    exact ⟨n, hl b n hb hn, by rw [hc]; exact hle⟩
  | ext k =>
    simp only [hb] at h ⊢
    rw [hc]; exact Nat.le_trans h (ho k hb)

theorem extSize_congr {s s' : State} (hc : s'.cfg = s.cfg) (ho : s'.objs = s.objs) (k : Nat) : s'.extSize k = s.extSize k := by
  simp only [State.extSize, hc, ho]

theorem capBytes_congr {s s' : State} (hc : s'.cfg = s.cfg) (hcap : s'.cap = s.cap) : capBytes s' = capBytes s := by
  simp only [capBytes, hc, hcap]

theorem ptrBlk_congr {s s' : State} (hp : s'.ptr = s.ptr) : s'.ptrBlk = s.ptrBlk := by
  simp only [State.ptrBlk, hp]

theorem SharedAt_congr {s s' : State} (hc : s'.cfg = s.cfg) (hp : s'.ptr = s.ptr) (ho : s'.objs = s.objs) (b : Blk) :
    SharedAt s' b ↔ SharedAt s b := by
  simp only [SharedAt, hc, State.ptrBlk, hp, ho]

syntax "count_omega" ident : tactic
macro_rules | `(tactic| count_omega $h) => `(tactic| ((try split at $h:ident) <;> (repeat (first | omega | split))))

@[simp] theorem privBlocks_single_priv (i b sz : Nat) : privBlocks [⟨i, Blk.heap b, sz, true⟩] = [b] := rfl
@[simp] theorem privBlocks_single_shared (i : Nat) (blk : Blk) (sz : Nat) : privBlocks [⟨i, blk, sz, false⟩] = [] := rfl
@[simp] theorem privBlocks_nil : privBlocks [] = [] := rfl

theorem book_add {s s' : State} (h : Book s) (blk : Blk) (sz : Nat) (priv : Bool)
    (hf : s'.frames = s.frames ++ [⟨s.nextFrame, blk, sz, priv⟩]) (hn : s'.nextFrame = s.nextFrame + 1)
    (hb : s'.born = s.born ++ [s.nextFrame]) (hd : s'.died = s.died) (hi : s'.inventory = some s.nextFrame) :
    Book s' := by
  refine ⟨?_, ?_, ?_, ?_⟩
  · intro f hfm
    rw [hf] at hfm; rw [hn]
    rcases List.mem_append.mp hfm with h1 | h1
    · have := h.fid_lt f h1; omega
    · simp at h1; subst h1; simp
  · intro i
    have := h.born_once i
    rw [hb, hn]
    simp only [List.count_append, List.count_cons, List.count_nil, beq_iff_eq]
    split at this <;> (repeat (first | omega | split))
  · intro i
    have := h.life i
    rw [hf, hd, hn]
    simp only [List.map_append, List.map_cons, List.map_nil, List.count_append, List.count_cons, List.count_nil, beq_iff_eq]
    split at this <;> (repeat (first | omega | split))
  · intro i hi'
    rw [hi] at hi'
    injection hi' with hi'
    omega

/-- (A) a new frame in a fresh private heap block -/
theorem mem_privAlloc {s s' : State} (h : Mem s) (sz : Nat)
    (hheap : s'.heap = s.heap.new (need s.cfg sz))
    (hfr : s'.frames = s.frames ++ [⟨s.nextFrame, Blk.heap s.heap.next, sz, true⟩])
    (hcfg : s'.cfg = s.cfg) (hptr : s'.ptr = s.ptr) (hcap : s'.cap = s.cap) (hbusy : s'.busy = s.busy)
    (hobjs : s'.objs = s.objs) (hvs : s'.vsize = s.vsize)
    (hoth : s'.optr = s.optr ∧ s'.ocap = s.ocap) : Mem s' := by
  refine ⟨?_, ?_, ?_, ?_, ?_, ?_, ?_, ?_, ?_, ?_, ?_, ?_⟩
  · intro b
    have h1 := h.once b
    have h2 := h.fresh_ids
    have h3 := h.fresh_dels
    rw [hheap]
    simp only [Heap.ids_new, Heap.new_dels, Heap.new_next, List.count_append, List.count_cons, List.count_nil, beq_iff_eq]
    by_cases hb : b = s.heap.next
    · subst hb; simp [h2, h3]
    · have : ¬ s.heap.next = b := fun e => hb e.symm
      simp only [this, if_false]
      count_omega h1
  · intro b
    have h1 := h.noleak b
    rw [hheap, hfr, hptr, hoth.1, privBlocks_append]
    simp only [Heap.ids_new, List.count_append, List.count_cons, List.count_nil, beq_iff_eq, privBlocks_single_priv]
    omega
  · intro f hf
    rw [hfr] at hf
    rcases List.mem_append.mp hf with h1 | h1
    · apply Fits.mono hcfg (fun k _ => by rw [extSize_congr hcfg hobjs]; exact Nat.le_refl _) _ (h.fits f h1)
      intro b n _ hm; rw [hheap]; exact mem_live_new hm
    · simp at h1; subst h1
      simp only [Fits, hheap, hcfg]
      exact ⟨need s.cfg sz, by simp, Nat.le_refl _⟩
  · rw [hfr]
    simp only [List.map_append, List.map_cons, List.map_nil]
    rw [List.nodup_append]
    refine ⟨h.excl, by simp, ?_⟩
    intro a ha b hb
    simp at hb; subst hb
    intro e; subst e
    exact h.fresh_not_frame ha
  · intro f hf hp
    rw [hfr] at hf
    rcases List.mem_append.mp hf with h1 | h1
    · exact h.priv_heap f h1 hp
    · simp at h1; subst h1; exact ⟨_, rfl⟩
  · intro f hf hp
    rw [hfr] at hf
    rcases List.mem_append.mp hf with h1 | h1
    · exact (SharedAt_congr hcfg hptr hobjs _).mpr (h.shared_blk f h1 hp)
    · simp at h1; subst h1; simp at hp
  · intro b hb
    rw [hptr] at hb
    rw [capBytes_congr hcfg hcap, hheap]
    exact mem_live_new (h.ptr_live b hb)
  · intro hp; rw [hptr] at hp; rw [hcap]; exact h.ptr_none hp
  · rw [hvs, hcap]; exact h.vsize_le
  · intro hm
    rw [hcfg] at hm
    rw [hbusy, h.busy_iff hm, hfr]
    constructor
    · rintro ⟨f, hf, hp⟩; exact ⟨f, List.mem_append_left _ hf, hp⟩
    · rintro ⟨f, hf, hp⟩
      rcases List.mem_append.mp hf with h1 | h1
      · exact ⟨f, h1, hp⟩
      · simp at h1; subst h1; simp at hp
  · intro b hb
    rw [hoth.1] at hb
    rw [hoth.2, hheap]
    exact mem_live_new (h.optr_live b hb)
  · intro hq; rw [hoth.1] at hq; rw [hoth.2]; exact h.optr_none hq

theorem Mem.ptr_count {s : State} (h : Mem s) {p : Nat} (hp : s.ptr = some p) :
    s.heap.ids.count p = 1 ∧ s.heap.dels.count p = 0 ∧ (privBlocks s.frames).count p = 0 ∧ p < s.heap.next := by
  have h1 := h.once p
  have h2 := h.noleak p
  have h3 : p ∈ s.heap.ids := mem_ids_of_mem_live (h.ptr_live p hp)
  have h4 := h.lt_of_mem_ids h3
  have h5 : 0 < s.heap.ids.count p := List.count_pos_iff.mpr h3
  generalize s.optr.toList.count p = oc at h2
  simp only [hp, Option.toList, List.count_cons, List.count_nil, beq_self_eq_true, if_true] at h2
  rw [if_pos h4] at h1
  omega

/-- the two storage objects never own the same block -/
theorem Mem.optr_count_ptr {s : State} (h : Mem s) {p : Nat} (hp : s.ptr = some p) : s.optr.toList.count p = 0 := by
  have h2 := h.noleak p
  have h3 := h.count_le_one p
  generalize s.optr.toList.count p = oc at h2 ⊢
  simp only [hp, Option.toList, List.count_cons, List.count_nil, beq_self_eq_true, if_true] at h2
  omega

theorem Mem.optr_ne_of_count {s : State} {b q : Nat} (hq : s.optr = some q) (hc : s.optr.toList.count b = 0) : q ≠ b := by
  intro e; subst e
  simp [hq] at hc

theorem Mem.priv_ne_ptr {s : State} (h : Mem s) {p : Nat} (hp : s.ptr = some p) {f : Frame} (hf : f ∈ s.frames)
    (hpr : f.priv = true) : f.blk ≠ Blk.heap p := by
  intro hb
  have := (h.ptr_count hp).2.2.1
  have h2 : p ∈ privBlocks s.frames := mem_privBlocks hf hpr hb
  have := List.count_pos_iff.mpr h2
  omega

/-- (B1) `reusable_storage::alloc` grows: old block deleted, new block obtained, the frame is placed in it -/
theorem mem_sharedGrow {s s' : State} (h : Mem s) (sz n : Nat)
    (hpol : s.cfg.pol = Policy.reusable ∨ s.cfg.pol = Policy.mtsafe)
    (hpriv : ∀ f ∈ s.frames, f.priv = true)
    (hheap : s'.heap = (s.heap.delOpt s.ptr).new n)
    (hptr : s'.ptr = some s.heap.next) (hcap : s'.cap = n) (hn : need s.cfg sz ≤ n) (hge : s.cap ≤ n)
    (hfr : s'.frames = s.frames ++ [⟨s.nextFrame, Blk.heap s.heap.next, sz, false⟩])
    (hcfg : s'.cfg = s.cfg) (hbusy : s.cfg.pol = Policy.mtsafe → s'.busy = true)
    (hobjs : s'.objs = s.objs) (hvs : s'.vsize = s.vsize)
    (hoth : s'.optr = s.optr ∧ s'.ocap = s.ocap) : Mem s' := by
  have hcb : capBytes s' = n := by
    rcases hpol with hp | hp <;> simp [capBytes, hcfg, hp, hcap]
  -- the heap after the optional delete
  have hnext : (s.heap.delOpt s.ptr).next = s.heap.next := by
    cases hp : s.ptr <;> simp [Heap.delOpt]
  have hkeep : ∀ b m, (b, m) ∈ s.heap.live → s.ptr ≠ some b → (b, m) ∈ s'.heap.live := by
    intro b m hm hne
    rw [hheap]
    apply mem_live_new
    cases hp : s.ptr with
    | none => simpa [Heap.delOpt] using hm
    | some p =>
      simp only [Heap.delOpt]
      exact mem_live_del hm (fun e => hne (by rw [hp, e]))
  refine ⟨?_, ?_, ?_, ?_, ?_, ?_, ?_, ?_, ?_, ?_, ?_, ?_⟩
  · intro b
    have h1 := h.once b
    have h2 := h.fresh_ids
    have h3 := h.fresh_dels
    rw [hheap]
    cases hp : s.ptr with
    | none =>
      simp only [Heap.delOpt, Heap.ids_new, Heap.new_dels, Heap.new_next, List.count_append, List.count_cons, List.count_nil, beq_iff_eq]
      by_cases hb : b = s.heap.next
      · subst hb; simp [h2, h3]
      · have : ¬ s.heap.next = b := fun e => hb e.symm
        simp only [this, if_false]
        count_omega h1
    | some p =>
      obtain ⟨c1, c2, c3, c4⟩ := h.ptr_count hp
      simp only [Heap.delOpt, Heap.ids_new, Heap.new_dels, Heap.new_next, Heap.ids_del, Heap.del_dels, Heap.del_next,
        List.count_append, List.count_cons, List.count_nil, beq_iff_eq, count_filter_ne]
      by_cases hb : b = s.heap.next
      · subst hb
        have : ¬ s.heap.next = p := by omega
        have : ¬ p = s.heap.next := by omega
        simp [*]
      · have : ¬ s.heap.next = b := fun e => hb e.symm
        simp only [this, if_false]
        by_cases hbp : b = p
        · subst hbp; simp only [if_true]; rw [if_pos (by omega)]; omega
        · have : ¬ p = b := fun e => hbp e.symm
          simp only [hbp, this, if_false]
          count_omega h1
  · intro b
    have h1 := h.noleak b
    rw [hheap, hfr, hptr, hoth.1, privBlocks_append]
    cases hp : s.ptr with
    | none =>
      generalize s.optr.toList.count b = oc at h1 ⊢
      simp only [hp, Option.toList, List.count_nil] at h1
      simp only [Heap.delOpt, Heap.ids_new, Option.toList, List.count_append, List.count_cons, List.count_nil, beq_iff_eq,
        privBlocks_single_shared]
      omega
    | some p =>
      obtain ⟨c1, c2, c3, c4⟩ := h.ptr_count hp
      have c5 := h.optr_count_ptr hp
      by_cases hbp : b = p
      · subst hbp
        generalize s.optr.toList.count b = oc at h1 c5 ⊢
        simp only [hp, Option.toList, List.count_cons, List.count_nil, beq_iff_eq] at h1
        simp only [Heap.delOpt, Heap.ids_new, Heap.ids_del, Heap.del_next, Option.toList, List.count_append, List.count_cons,
          List.count_nil, beq_iff_eq, privBlocks_single_shared, count_filter_ne]
        simp only [if_true]; omega
      · have : ¬ p = b := fun e => hbp e.symm
        generalize s.optr.toList.count b = oc at h1 ⊢
        simp only [hp, Option.toList, List.count_cons, List.count_nil, beq_iff_eq] at h1
        simp only [Heap.delOpt, Heap.ids_new, Heap.ids_del, Heap.del_next, Option.toList, List.count_append, List.count_cons,
          List.count_nil, beq_iff_eq, privBlocks_single_shared, count_filter_ne]
        simp only [hbp, this, if_false] at h1 ⊢
        omega
  · intro f hf
    rw [hfr] at hf
    rcases List.mem_append.mp hf with h1 | h1
    · apply Fits.mono hcfg (fun k _ => by rw [extSize_congr hcfg hobjs]; exact Nat.le_refl _) _ (h.fits f h1)
      intro b m hb hm
      apply hkeep b m hm
      intro hp
      exact h.priv_ne_ptr hp h1 (hpriv f h1) hb
    · simp at h1; subst h1
      simp only [Fits, hheap, hcfg]
      exact ⟨n, by simp [hnext], hn⟩
  · rw [hfr]
    simp only [List.map_append, List.map_cons, List.map_nil]
    rw [List.nodup_append]
    refine ⟨h.excl, by simp, ?_⟩
    intro a ha b hb
    simp at hb; subst hb
    intro e; subst e
    exact h.fresh_not_frame ha
  · intro f hf hp
    rw [hfr] at hf
    rcases List.mem_append.mp hf with h1 | h1
    · exact h.priv_heap f h1 hp
    · simp at h1; subst h1; simp at hp
  · intro f hf hp
    rw [hfr] at hf
    rcases List.mem_append.mp hf with h1 | h1
    · rw [hpriv f h1] at hp; simp at hp
    · simp at h1; subst h1
      rcases hpol with hq | hq <;> simp [SharedAt, hcfg, hq, State.ptrBlk, hptr]
  · intro b hb
    rw [hptr] at hb
    injection hb with hb
    subst hb
    rw [hcb, hheap]
    simp [hnext]
  · intro hp; rw [hptr] at hp; simp at hp
  · rw [hvs, hcap]; exact Nat.le_trans h.vsize_le hge
  · intro hm
    rw [hcfg] at hm
    rw [hbusy hm, hfr]
    simp
  · intro q hq
    rw [hoth.1] at hq
    rw [hoth.2]
    apply hkeep q _ (h.optr_live q hq)
    intro hp
    have := h.optr_count_ptr hp
    simp [hq] at this
  · intro hq; rw [hoth.1] at hq; rw [hoth.2]; exact h.optr_none hq

/-- (B2) the storage's own block is large enough and not in use: the frame is placed in it, no heap call -/
theorem mem_sharedReuse {s s' : State} (h : Mem s) (sz : Nat)
    (hpol : s.cfg.pol = Policy.reusable ∨ s.cfg.pol = Policy.mtsafe ∨ ∃ i, s.cfg.pol = Policy.buffer i)
    (hpriv : ∀ f ∈ s.frames, f.priv = true)
    (hheap : s'.heap = s.heap) (hptr : s'.ptr = s.ptr) (hcap : s'.cap = s.cap) (hn : need s.cfg sz ≤ capBytes s)
    (hfr : s'.frames = s.frames ++ [⟨s.nextFrame, s.ptrBlk, sz, false⟩])
    (hcfg : s'.cfg = s.cfg) (hbusy : s.cfg.pol = Policy.mtsafe → s'.busy = true)
    (hobjs : s'.objs = s.objs) (hvs : s'.vsize ≤ s.cap)
    (hoth : s'.optr = s.optr ∧ s'.ocap = s.ocap) : Mem s' := by
  have hcap0 : s.ptr = none → capBytes s = 0 := by
    intro hp
    have := h.ptr_none hp
    simp only [capBytes, this]
    split <;> simp
  refine ⟨?_, ?_, ?_, ?_, ?_, ?_, ?_, ?_, ?_, ?_, ?_, ?_⟩
  · intro b; rw [hheap]; exact h.once b
  · intro b
    rw [hheap, hptr, hfr, hoth.1, privBlocks_append]
    simp only [privBlocks_single_shared, List.append_nil]
    exact h.noleak b
  · intro f hf
    rw [hfr] at hf
    rcases List.mem_append.mp hf with h1 | h1
    · apply Fits.mono hcfg (fun k _ => by rw [extSize_congr hcfg hobjs]; exact Nat.le_refl _) _ (h.fits f h1)
      intro b m _ hm; rw [hheap]; exact hm
    · simp at h1; subst h1
      simp only [Fits, State.ptrBlk]
      cases hp : s.ptr with
      | none => simp only []; rw [hcfg]; have := hcap0 hp; omega
      | some p =>
        simp only []
        refine ⟨capBytes s, ?_, by rw [hcfg]; exact hn⟩
        rw [hheap]; exact h.ptr_live p hp
  · rw [hfr]
    simp only [List.map_append, List.map_cons, List.map_nil]
    rw [List.nodup_append]
    refine ⟨h.excl, by simp, ?_⟩
    intro a ha b hb
    simp at hb; subst hb
    intro e; subst e
    obtain ⟨f, hf, hfb⟩ := List.mem_map.mp ha
    obtain ⟨b', hb'⟩ := h.priv_heap f hf (hpriv f hf)
    cases hp : s.ptr with
    | none => simp [State.ptrBlk, hp] at hfb; rw [hfb] at hb'; cases hb'
    | some p =>
      simp only [State.ptrBlk, hp] at hfb
      exact h.priv_ne_ptr hp hf (hpriv f hf) hfb
  · intro f hf hp
    rw [hfr] at hf
    rcases List.mem_append.mp hf with h1 | h1
    · exact h.priv_heap f h1 hp
    · simp at h1; subst h1; simp at hp
  · intro f hf hp
    rw [hfr] at hf
    rcases List.mem_append.mp hf with h1 | h1
    · rw [hpriv f h1] at hp; simp at hp
    · simp at h1; subst h1
      rcases hpol with hq | hq | ⟨i, hq⟩ <;> simp [SharedAt, hcfg, hq, State.ptrBlk, hptr]
  · intro b hb
    rw [hptr] at hb
    rw [capBytes_congr hcfg hcap, hheap]
    exact h.ptr_live b hb
  · intro hp; rw [hptr] at hp; rw [hcap]; exact h.ptr_none hp
  · rw [hcap]; exact hvs
  · intro hm
    rw [hcfg] at hm
    rw [hbusy hm, hfr]
    simp
  · intro q hq
    rw [hoth.1] at hq
    rw [hoth.2, hheap]
    exact h.optr_live q hq
  · intro hq; rw [hoth.1] at hq; rw [hoth.2]; exact h.optr_none hq

/-- (C) the frame is placed in caller supplied memory that no live frame uses -/
theorem mem_inplace {s s' : State} (h : Mem s) (sz k : Nat)
    (hfree : Blk.ext k ∉ s.frames.map (·.blk)) (hshared : SharedAt s (Blk.ext k)) (hn : need s.cfg sz ≤ s.extSize k)
    (hnm : s.cfg.pol ≠ Policy.mtsafe)
    (hheap : s'.heap = s.heap) (hptr : s'.ptr = s.ptr) (hcap : s'.cap = s.cap)
    (hfr : s'.frames = s.frames ++ [⟨s.nextFrame, Blk.ext k, sz, false⟩])
    (hcfg : s'.cfg = s.cfg) (hobjs : s'.objs = s.objs) (hvs : s'.vsize = s.vsize)
    (hoth : s'.optr = s.optr ∧ s'.ocap = s.ocap) : Mem s' := by
  refine ⟨?_, ?_, ?_, ?_, ?_, ?_, ?_, ?_, ?_, ?_, ?_, ?_⟩
  · intro b; rw [hheap]; exact h.once b
  · intro b
    rw [hheap, hptr, hfr, hoth.1, privBlocks_append]
    simp only [privBlocks_single_shared, List.append_nil]
    exact h.noleak b
  · intro f hf
    rw [hfr] at hf
    rcases List.mem_append.mp hf with h1 | h1
    · apply Fits.mono hcfg (fun k _ => by rw [extSize_congr hcfg hobjs]; exact Nat.le_refl _) _ (h.fits f h1)
      intro b m _ hm; rw [hheap]; exact hm
    · simp at h1; subst h1
      simp only [Fits]
      rw [hcfg, extSize_congr hcfg hobjs]; exact hn
  · rw [hfr]
    simp only [List.map_append, List.map_cons, List.map_nil]
    rw [List.nodup_append]
    refine ⟨h.excl, by simp, ?_⟩
    intro a ha b hb
    simp at hb; subst hb
    intro e; subst e
    exact hfree ha
  · intro f hf hp
    rw [hfr] at hf
    rcases List.mem_append.mp hf with h1 | h1
    · exact h.priv_heap f h1 hp
    · simp at h1; subst h1; simp at hp
  · intro f hf hp
    rw [hfr] at hf
    rcases List.mem_append.mp hf with h1 | h1
    · exact (SharedAt_congr hcfg hptr hobjs _).mpr (h.shared_blk f h1 hp)
    · simp at h1; subst h1
      exact (SharedAt_congr hcfg hptr hobjs _).mpr hshared
  · intro b hb
    rw [hptr] at hb
    rw [capBytes_congr hcfg hcap, hheap]
    exact h.ptr_live b hb
  · intro hp; rw [hptr] at hp; rw [hcap]; exact h.ptr_none hp
  · rw [hvs, hcap]; exact h.vsize_le
  · intro hm; rw [hcfg] at hm; exact absurd hm hnm
  · intro q hq
    rw [hoth.1] at hq
    rw [hoth.2, hheap]
    exact h.optr_live q hq
  · intro hq; rw [hoth.1] at hq; rw [hoth.2]; exact h.optr_none hq

theorem vresize_frames (s : State) (i n : Nat) : (vresize s i n).frames = s.frames := by
  unfold vresize; split <;> rfl
theorem vresize_cfg (s : State) (i n : Nat) : (vresize s i n).cfg = s.cfg := by
  unfold vresize; split <;> rfl
theorem vresize_objs (s : State) (i n : Nat) : (vresize s i n).objs = s.objs := by
  unfold vresize; split <;> rfl
theorem vresize_busy (s : State) (i n : Nat) : (vresize s i n).busy = s.busy := by
  unfold vresize; split <;> rfl
theorem vresize_vsize (s : State) (i n : Nat) : (vresize s i n).vsize = n := by
  unfold vresize; split <;> rfl
theorem vresize_cap_ge (s : State) (i n : Nat) : s.cap ≤ (vresize s i n).cap ∧ n ≤ (vresize s i n).cap := by
  unfold vresize
  split
  · simp only []; constructor <;> omega
  · simp only []; constructor <;> omega

/-- (D) `std::vector::resize` while no frame lives in the vector -/
theorem mem_vresize {s : State} (h : Mem s) (itemsz n : Nat) (hpol : s.cfg.pol = Policy.buffer itemsz)
    (hfr0 : s.frames = []) : Mem (vresize s itemsz n) := by
  unfold vresize
  by_cases hg : n > s.cap
  · simp only [hg, if_true]
    refine ⟨?_, ?_, ?_, ?_, ?_, ?_, ?_, ?_, ?_, ?_, ?_, ?_⟩
    · intro b
      have h1 := h.once b
      have h2 := h.fresh_ids
      have h3 := h.fresh_dels
      simp only []
      cases hp : s.ptr with
      | none =>
        simp only [Heap.delOpt, Heap.ids_new, Heap.new_dels, Heap.new_next, List.count_append, List.count_cons, List.count_nil, beq_iff_eq]
        by_cases hb : b = s.heap.next
        · subst hb; simp [h2, h3]
        · have : ¬ s.heap.next = b := fun e => hb e.symm
          simp only [this, if_false]
          count_omega h1
      | some p =>
        obtain ⟨c1, c2, c3, c4⟩ := h.ptr_count hp
        simp only [Heap.delOpt, Heap.ids_new, Heap.new_dels, Heap.new_next, Heap.ids_del, Heap.del_dels, Heap.del_next,
          List.count_append, List.count_cons, List.count_nil, beq_iff_eq, count_filter_ne]
        by_cases hb : b = s.heap.next
        · subst hb
          have : ¬ s.heap.next = p := by omega
          have : ¬ p = s.heap.next := by omega
          simp [*]
        · have : ¬ s.heap.next = b := fun e => hb e.symm
          by_cases hbp : b = p
          · subst hbp; simp only [if_true]; rw [if_pos (by omega)]; omega
          · have : ¬ p = b := fun e => hbp e.symm
            simp only [hbp, this, ‹¬ s.heap.next = b›, if_false]
            count_omega h1
    · intro b
      have h1 := h.noleak b
      simp only [hfr0, privBlocks_nil, List.count_nil, Nat.add_zero] at h1 ⊢
      cases hp : s.ptr with
      | none =>
        generalize s.optr.toList.count b = oc at h1 ⊢
        simp only [hp, Option.toList, List.count_nil] at h1
        simp only [Heap.delOpt, Heap.ids_new, Option.toList, List.count_append, List.count_cons, List.count_nil, beq_iff_eq]
        omega
      | some p =>
        obtain ⟨c1, c2, c3, c4⟩ := h.ptr_count hp
        have c5 := h.optr_count_ptr hp
        have hne : ¬ s.heap.next = p := by omega
        by_cases hbp : b = p
        · subst hbp
          have : ¬ s.heap.next = b := hne
          generalize s.optr.toList.count b = oc at h1 c5 ⊢
          simp only [Heap.delOpt, Heap.ids_new, Heap.ids_del, Option.toList, List.count_append, List.count_cons, List.count_nil,
            beq_iff_eq, count_filter_ne]
          simp only [if_true, this, if_false]
          omega
        · have : ¬ p = b := fun e => hbp e.symm
          generalize s.optr.toList.count b = oc at h1 ⊢
          simp only [hp, Option.toList, List.count_cons, List.count_nil, beq_iff_eq] at h1
          simp only [Heap.delOpt, Heap.ids_new, Heap.ids_del, Option.toList, List.count_append, List.count_cons, List.count_nil,
            beq_iff_eq, count_filter_ne]
          simp only [hbp, this, if_false] at h1 ⊢
          omega
    · intro f hf; simp only [hfr0] at hf; cases hf
    · simp only [hfr0]; exact List.nodup_nil
    · intro f hf; simp only [hfr0] at hf; cases hf
    · intro f hf; simp only [hfr0] at hf; cases hf
    · intro b hb
      simp only [] at hb
      injection hb with hb
      subst hb
      simp only [capBytes, hpol]
      cases hp : s.ptr with
      | none => simp [Heap.delOpt]
      | some p =>
        obtain ⟨c1, c2, c3, c4⟩ := h.ptr_count hp
        simp only [Heap.delOpt]
        apply mem_live_del (by simp) (by omega)
    · intro hp; simp only [] at hp; cases hp
    · simp only []; omega
    · intro hm; simp only [] at hm; rw [hpol] at hm; cases hm
    · intro q hq
      simp only [] at hq ⊢
      have hq' := h.optr_live q hq
      cases hp : s.ptr with
      | none => simp only [Heap.delOpt]; exact mem_live_new hq'
      | some p =>
        have c5 := h.optr_count_ptr hp
        simp only [Heap.delOpt]
        apply mem_live_del (mem_live_new hq')
        intro e; subst e
        simp [hq] at c5
    · exact h.optr_none
  · simp only [hg, if_false]
    refine ⟨h.once, h.noleak, ?_, h.excl, h.priv_heap, ?_, ?_, h.ptr_none, ?_, h.busy_iff, h.optr_live, h.optr_none⟩
    · intro f hf; simp only [hfr0] at hf; cases hf
    · intro f hf; simp only [hfr0] at hf; cases hf
    · exact h.ptr_live
    · simp only []; omega

theorem privBlocks_erase_count {fr : List Frame} {f : Frame} (hf : f ∈ fr) (x : Nat) :
    (privBlocks fr).count x = (privBlocks [f]).count x + (privBlocks (fr.erase f)).count x := by
  have hp : (privBlocks fr).Perm (privBlocks (f :: fr.erase f)) := (List.perm_cons_erase hf).filterMap _
  rw [hp.count_eq]
  have : privBlocks (f :: fr.erase f) = privBlocks [f] ++ privBlocks (fr.erase f) := by
    rw [← privBlocks_append]; rfl
  rw [this, List.count_append]

theorem blk_notin_erase {fr : List Frame} {f : Frame} (hn : (fr.map (·.blk)).Nodup) (hf : f ∈ fr) :
    f.blk ∉ (fr.erase f).map (·.blk) := by
  have hp : (fr.map (·.blk)).Perm ((f :: fr.erase f).map (·.blk)) := (List.perm_cons_erase hf).map _
  have := hp.nodup_iff.mp hn
  simp only [List.map_cons, List.nodup_cons] at this
  exact this.1

theorem ids_erase_count {fr : List Frame} {f : Frame} (hf : f ∈ fr) (x : Nat) :
    (fr.map (·.id)).count x = (if f.id = x then 1 else 0) + ((fr.erase f).map (·.id)).count x := by
  have hp : (fr.map (·.id)).Perm ((f :: fr.erase f).map (·.id)) := (List.perm_cons_erase hf).map _
  rw [hp.count_eq]
  simp only [List.map_cons, List.count_cons, beq_iff_eq]
  omega

theorem book_free {s s' : State} (h : Book s) (f : Frame) (hf : f ∈ s.frames)
    (hfr : s'.frames = s.frames.erase f) (hn : s'.nextFrame = s.nextFrame)
    (hb : s'.born = s.born) (hd : s'.died = s.died ++ [f.id]) (hi : s'.inventory = s.inventory) : Book s' := by
  refine ⟨?_, ?_, ?_, ?_⟩
  · intro g hg
    rw [hfr] at hg; rw [hn]
    exact h.fid_lt g (List.mem_of_mem_erase hg)
  · intro i; rw [hb, hn]; exact h.born_once i
  · intro i
    have h1 := h.life i
    have h2 := ids_erase_count hf i
    rw [hfr, hd, hn]
    simp only [List.count_append, List.count_cons, List.count_nil, beq_iff_eq]
    omega
  · intro i hi'; rw [hi] at hi'; rw [hn]; exact h.inv_last i hi'

/-- (E1) a frame in a private heap block is released: the block is deleted -/
theorem mem_freePriv {s s' : State} (h : Mem s) (f : Frame) (b : Nat) (hf : f ∈ s.frames) (hp : f.priv = true)
    (hb : f.blk = Blk.heap b)
    (hheap : s'.heap = s.heap.del b) (hfr : s'.frames = s.frames.erase f)
    (hptr : s'.ptr = s.ptr) (hcap : s'.cap = s.cap) (hcfg : s'.cfg = s.cfg) (hbusy : s'.busy = s.busy)
    (hobjs : s'.objs = s.objs) (hvs : s'.vsize = s.vsize)
    (hoth : s'.optr = s.optr ∧ s'.ocap = s.ocap) : Mem s' := by
  have hpb : privBlocks [f] = [b] := by
    simp [privBlocks, Frame.privBlk?, hp, hb]
  have hcnt : ∀ x, (privBlocks s.frames).count x = (if b = x then 1 else 0) + (privBlocks (s.frames.erase f)).count x := by
    intro x
    rw [privBlocks_erase_count hf x, hpb]
    simp [List.count_cons]
  have hbi : s.heap.ids.count b = 1 := by
    have h1 := h.count_le_one b
    have h2 := h.noleak b
    have h3 := hcnt b
    simp only [if_true] at h3
    omega
  have hbd : s.heap.dels.count b = 0 ∧ b < s.heap.next := by
    have h1 := h.once b
    split at h1 <;> omega
  have hpne : s.ptr ≠ some b := by
    intro e
    have h2 := h.noleak b
    have h3 := hcnt b
    generalize s.optr.toList.count b = oc at h2
    simp only [e, Option.toList, List.count_cons, List.count_nil, beq_self_eq_true, if_true] at h2 h3
    omega
  have hone : s.optr ≠ some b := by
    intro e
    have h2 := h.noleak b
    have h3 := hcnt b
    generalize s.ptr.toList.count b = pc at h2
    simp only [e, Option.toList, List.count_cons, List.count_nil, beq_self_eq_true, if_true] at h2 h3
    omega
  have hother : ∀ g ∈ s.frames.erase f, g.blk ≠ Blk.heap b := by
    intro g hg e
    have := blk_notin_erase h.excl hf
    rw [hb] at this
    exact this (List.mem_map.mpr ⟨g, hg, e⟩)
  refine ⟨?_, ?_, ?_, ?_, ?_, ?_, ?_, ?_, ?_, ?_, ?_, ?_⟩
  · intro x
    have h1 := h.once x
    rw [hheap]
    simp only [Heap.ids_del, Heap.del_dels, Heap.del_next, List.count_append, List.count_cons, List.count_nil, beq_iff_eq,
      count_filter_ne]
    by_cases hx : x = b
    · subst hx; simp only [if_true]; rw [if_pos hbd.2]; omega
    · have : ¬ b = x := fun e => hx e.symm
      simp only [hx, this, if_false]
      count_omega h1
  · intro x
    have h1 := h.noleak x
    have h2 := hcnt x
    rw [hheap, hfr, hptr, hoth.1]
    simp only [Heap.ids_del, count_filter_ne]
    by_cases hx : x = b
    · subst hx
      simp only [if_true] at h2 ⊢
      omega
    · have : ¬ b = x := fun e => hx e.symm
      simp only [hx, this, if_false] at h2 ⊢
      omega
  · intro g hg
    rw [hfr] at hg
    apply Fits.mono hcfg (fun k _ => by rw [extSize_congr hcfg hobjs]; exact Nat.le_refl _) _ (h.fits g (List.mem_of_mem_erase hg))
    intro c m hc hm
    rw [hheap]
    apply mem_live_del hm
    intro e; subst e
    exact hother g hg hc
  · rw [hfr]
    exact h.excl.sublist ((List.erase_sublist).map _)
  · intro g hg hq; rw [hfr] at hg; exact h.priv_heap g (List.mem_of_mem_erase hg) hq
  · intro g hg hq; rw [hfr] at hg
    exact (SharedAt_congr hcfg hptr hobjs _).mpr (h.shared_blk g (List.mem_of_mem_erase hg) hq)
  · intro c hc
    rw [hptr] at hc
    rw [capBytes_congr hcfg hcap, hheap]
    apply mem_live_del (h.ptr_live c hc)
    intro e; subst e; exact hpne hc
  · intro hq; rw [hptr] at hq; rw [hcap]; exact h.ptr_none hq
  · rw [hvs, hcap]; exact h.vsize_le
  · intro hm
    rw [hcfg] at hm
    rw [hbusy, h.busy_iff hm, hfr]
    constructor
    · rintro ⟨g, hg, hq⟩
      refine ⟨g, ?_, hq⟩
      apply (List.mem_erase_of_ne _).mpr hg
      intro e; subst e; rw [hp] at hq; cases hq
    · rintro ⟨g, hg, hq⟩; exact ⟨g, List.mem_of_mem_erase hg, hq⟩
  · intro q hq
    rw [hoth.1] at hq
    rw [hoth.2, hheap]
    apply mem_live_del (h.optr_live q hq)
    intro e; subst e; exact hone hq
  · intro hq; rw [hoth.1] at hq; rw [hoth.2]; exact h.optr_none hq

/-- (E2) a frame that is not in a private block is released: no heap call; mtsafe clears `_busy` -/
theorem mem_freeShared {s s' : State} (h : Mem s) (f : Frame) (hf : f ∈ s.frames) (hp : f.priv = false)
    (hheap : s'.heap = s.heap) (hfr : s'.frames = s.frames.erase f)
    (hptr : s'.ptr = s.ptr) (hcap : s'.cap = s.cap) (hcfg : s'.cfg = s.cfg)
    (hbusy : s.cfg.pol = Policy.mtsafe → s'.busy = false)
    (hobjs : s'.objs = s.objs) (hvs : s'.vsize = s.vsize)
    (hoth : s'.optr = s.optr ∧ s'.ocap = s.ocap) : Mem s' := by
  have hpb : privBlocks [f] = [] := by
    simp [privBlocks, Frame.privBlk?, hp]
  refine ⟨?_, ?_, ?_, ?_, ?_, ?_, ?_, ?_, ?_, ?_, ?_, ?_⟩
  · intro x; rw [hheap]; exact h.once x
  · intro x
    have h1 := h.noleak x
    rw [privBlocks_erase_count hf x, hpb] at h1
    rw [hheap, hfr, hptr, hoth.1]
    simpa using h1
  · intro g hg
    rw [hfr] at hg
    apply Fits.mono hcfg (fun k _ => by rw [extSize_congr hcfg hobjs]; exact Nat.le_refl _) _ (h.fits g (List.mem_of_mem_erase hg))
    intro c m _ hm; rw [hheap]; exact hm
  · rw [hfr]
    exact h.excl.sublist ((List.erase_sublist).map _)
  · intro g hg hq; rw [hfr] at hg; exact h.priv_heap g (List.mem_of_mem_erase hg) hq
  · intro g hg hq; rw [hfr] at hg
    exact (SharedAt_congr hcfg hptr hobjs _).mpr (h.shared_blk g (List.mem_of_mem_erase hg) hq)
  · intro c hc
    rw [hptr] at hc
    rw [capBytes_congr hcfg hcap, hheap]
    exact h.ptr_live c hc
  · intro hq; rw [hptr] at hq; rw [hcap]; exact h.ptr_none hq
  · rw [hvs, hcap]; exact h.vsize_le
  · intro hm
    rw [hcfg] at hm
    rw [hbusy hm, hfr]
    constructor
    · intro e; cases e
    · rintro ⟨g, hg, hq⟩
      exfalso
      -- both frames would sit in the storage's own block
      have h1 := h.shared_blk f hf hp
      have h2 := h.shared_blk g (List.mem_of_mem_erase hg) hq
      simp only [SharedAt, hm] at h1 h2
      have := blk_notin_erase h.excl hf
      rw [h1, ← h2] at this
      exact this (List.mem_map.mpr ⟨g, hg, rfl⟩)
  · intro q hq
    rw [hoth.1] at hq
    rw [hoth.2, hheap]
    exact h.optr_live q hq
  · intro hq; rw [hoth.1] at hq; rw [hoth.2]; exact h.optr_none hq

theorem ceil_mul_ge (n i : Nat) (hi : 0 < i) : n ≤ ((n + i - 1) / i) * i := by
  have h1 := Nat.div_add_mod (n + i - 1) i
  have h2 := Nat.mod_lt (n + i - 1) hi
  have h3 : i * ((n + i - 1) / i) = ((n + i - 1) / i) * i := Nat.mul_comm _ _
  omega

theorem inv_init (c : Cfg) : Inv (init c) := by
  refine ⟨⟨?_, ?_, ?_, ?_⟩, ⟨?_, ?_, ?_, ?_, ?_, ?_, ?_, ?_, ?_, ?_, ?_, ?_⟩⟩ <;> simp [init, Heap.ids, privBlocks]

/-! #### allocation -/

theorem inv_allocDefault {s : State} (h : Inv s) (sz : Nat) : Inv (allocDefault s sz) :=
  ⟨book_add h.book _ sz true rfl rfl rfl rfl rfl,
   mem_privAlloc h.mem sz rfl rfl rfl rfl rfl rfl rfl rfl ⟨rfl, rfl⟩⟩

theorem inv_allocReusable {s : State} (h : Inv s) (sz : Nat) (hpol : s.cfg.pol = Policy.reusable)
    (hok : (allocReusable s sz).ok = true) : Inv (allocReusable s sz) := by
  have hfr0 : s.frames = [] := by
    have : (s.ok && s.frames.isEmpty) = true := hok
    simp only [Bool.and_eq_true, List.isEmpty_iff] at this
    exact this.2
  have hpriv : ∀ f ∈ s.frames, f.priv = true := by intro f hf; rw [hfr0] at hf; cases hf
  unfold allocReusable rsAlloc
  by_cases hg : need s.cfg sz > s.cap
  · simp only [hg, if_true]
    exact ⟨book_add h.book _ sz false rfl rfl rfl rfl rfl,
      mem_sharedGrow h.mem sz (need s.cfg sz) (Or.inl hpol) hpriv rfl rfl rfl (Nat.le_refl _) (by omega) rfl rfl
        (fun hm => by rw [hpol] at hm; cases hm) rfl rfl ⟨rfl, rfl⟩⟩
  · simp only [hg, if_false]
    exact ⟨book_add h.book _ sz false rfl rfl rfl rfl rfl,
      mem_sharedReuse h.mem sz (Or.inl hpol) hpriv rfl rfl rfl (by simp only [capBytes, hpol]; omega) rfl rfl
        (fun hm => by rw [hpol] at hm; cases hm) rfl h.mem.vsize_le ⟨rfl, rfl⟩⟩

theorem inv_allocMtsafe {s : State} (h : Inv s) (sz : Nat) (hpol : s.cfg.pol = Policy.mtsafe) : Inv (allocMtsafe s sz) := by
  unfold allocMtsafe
  by_cases hb : s.busy = true
  · rw [if_pos hb]
    exact ⟨book_add h.book _ sz true rfl rfl rfl rfl rfl,
      mem_privAlloc h.mem sz rfl rfl rfl rfl rfl rfl rfl rfl ⟨rfl, rfl⟩⟩
  · have hpriv : ∀ f ∈ s.frames, f.priv = true := by
      intro f hf
      cases hp : f.priv with
      | true => rfl
      | false => exact absurd ((h.mem.busy_iff hpol).mpr ⟨f, hf, hp⟩) hb
    rw [if_neg hb]
    simp only [rsAlloc]
    by_cases hg : need s.cfg sz > s.cap
    · simp only [hg, if_true]
      exact ⟨book_add h.book _ sz false rfl rfl rfl rfl rfl,
        mem_sharedGrow h.mem sz (need s.cfg sz) (Or.inr hpol) hpriv rfl rfl rfl (Nat.le_refl _) (by omega) rfl rfl
          (fun _ => rfl) rfl rfl ⟨rfl, rfl⟩⟩
    · simp only [hg, if_false]
      exact ⟨book_add h.book _ sz false rfl rfl rfl rfl rfl,
        mem_sharedReuse h.mem sz (Or.inr (Or.inl hpol)) hpriv rfl rfl rfl (by simp only [capBytes, hpol]; omega) rfl rfl
          (fun _ => rfl) rfl h.mem.vsize_le ⟨rfl, rfl⟩⟩

theorem inv_allocStack {s : State} (h : Inv s) (k sz asz i : Nat) (hpol : s.cfg.pol = Policy.stack i)
    (hk : s.objs[k]? = some asz) (hok : (allocStack s k sz asz).ok = true) : Inv (allocStack s k sz asz) := by
  have hklt : k < s.objs.length := by
    rcases Nat.lt_or_ge k s.objs.length with h1 | h1
    · exact h1
    · rw [List.getElem?_eq_none h1] at hk; cases hk
  have hext : s.extSize k = asz := by
    simp only [State.extSize, hpol, List.getD, hk, Option.getD]
  unfold allocStack at hok ⊢
  by_cases hfit : need s.cfg sz ≤ asz
  · simp only [hfit, if_true] at hok ⊢
    have hfree : Blk.ext k ∉ s.frames.map (·.blk) := by
      have : (s.ok && s.frames.all (fun f => f.blk != Blk.ext k)) = true := hok
      simp only [Bool.and_eq_true, List.all_eq_true, bne_iff_ne, ne_eq] at this
      intro hm
      obtain ⟨f, hf, hfb⟩ := List.mem_map.mp hm
      exact this.2 f hf hfb
    exact ⟨book_add h.book _ sz false rfl rfl rfl rfl rfl,
      mem_inplace h.mem sz k hfree (by simp only [SharedAt, hpol]; exact ⟨k, rfl, hklt⟩) (by rw [hext]; exact hfit)
        (by rw [hpol]; intro e; cases e) rfl rfl rfl rfl rfl rfl rfl ⟨rfl, rfl⟩⟩
  · simp only [hfit, if_false]
    exact ⟨book_add h.book _ sz true rfl rfl rfl rfl rfl,
      mem_privAlloc h.mem sz rfl rfl rfl rfl rfl rfl rfl rfl ⟨rfl, rfl⟩⟩

theorem inv_allocPlacement {s : State} (h : Inv s) (sz bufsz : Nat) (hpol : s.cfg.pol = Policy.placement bufsz)
    (hok : (allocPlacement s sz bufsz).ok = true) : Inv (allocPlacement s sz bufsz) := by
  have hpre : s.frames = [] ∧ need s.cfg sz ≤ bufsz := by
    have : (s.ok && s.frames.isEmpty && decide (need s.cfg sz ≤ bufsz)) = true := hok
    simp only [Bool.and_eq_true, List.isEmpty_iff, decide_eq_true_eq] at this
    exact ⟨this.1.2, this.2⟩
  unfold allocPlacement
  exact ⟨book_add h.book _ sz false rfl rfl rfl rfl rfl,
    mem_inplace h.mem sz 0 (by rw [hpre.1]; simp) (by simp only [SharedAt, hpol])
      (by simp only [State.extSize, hpol, if_true]; exact hpre.2)
      (by rw [hpol]; intro e; cases e) rfl rfl rfl rfl rfl rfl rfl ⟨rfl, rfl⟩⟩

theorem bufResized_fields (s : State) (i sz : Nat) :
    (bufResized s i sz).frames = s.frames ∧ (bufResized s i sz).nextFrame = s.nextFrame ∧
    (bufResized s i sz).born = s.born ∧ (bufResized s i sz).died = s.died ∧ (bufResized s i sz).cfg = s.cfg ∧
    (bufResized s i sz).objs = s.objs ∧ (bufResized s i sz).busy = s.busy := by
  unfold bufResized vresize
  split
  · split <;> exact ⟨rfl, rfl, rfl, rfl, rfl, rfl, rfl⟩
  · exact ⟨rfl, rfl, rfl, rfl, rfl, rfl, rfl⟩

theorem inv_allocBuffer {s : State} (h : Inv s) (sz itemsz : Nat) (hpol : s.cfg.pol = Policy.buffer itemsz)
    (hi : 0 < itemsz) (hok : (allocBuffer s sz itemsz).ok = true) : Inv (allocBuffer s sz itemsz) := by
  have hfr0 : s.frames = [] := by
    have : (s.ok && s.frames.isEmpty) = true := hok
    simp only [Bool.and_eq_true, List.isEmpty_iff] at this
    exact this.2
  obtain ⟨f1, f2, f3, f4, f5, f6, f7⟩ := bufResized_fields s itemsz sz
  have hpol1 : (bufResized s itemsz sz).cfg.pol = Policy.buffer itemsz := by rw [f5]; exact hpol
  -- the state after the (possible) resize
  have hm1 : Mem (bufResized s itemsz sz) ∧ (need s.cfg sz + itemsz - 1) / itemsz ≤ (bufResized s itemsz sz).cap := by
    unfold bufResized
    by_cases hlt : s.vsize < (need s.cfg sz + itemsz - 1) / itemsz
    · simp only [hlt, if_true]
      exact ⟨mem_vresize h.mem itemsz _ hpol hfr0, (vresize_cap_ge s itemsz _).2⟩
    · simp only [hlt, if_false]
      exact ⟨h.mem, by have := h.mem.vsize_le; omega⟩
  have hpriv : ∀ f ∈ (bufResized s itemsz sz).frames, f.priv = true := by
    intro f hf; rw [f1, hfr0] at hf; cases hf
  have hneed : need (bufResized s itemsz sz).cfg sz ≤ capBytes (bufResized s itemsz sz) := by
    simp only [capBytes, f5, hpol]
    have h1 := ceil_mul_ge (need s.cfg sz) itemsz hi
    have h2 := Nat.mul_le_mul_right itemsz hm1.2
    omega
  unfold allocBuffer
  refine ⟨book_add h.book (bufResized s itemsz sz).ptrBlk sz false ?_ ?_ ?_ ?_ ?_, ?_⟩
  · show (bufResized s itemsz sz).frames ++ _ = _; rw [f1, f2]
  · show (bufResized s itemsz sz).nextFrame + 1 = _; rw [f2]
  · show (bufResized s itemsz sz).born ++ _ = _; rw [f3, f2]
  · show (bufResized s itemsz sz).died = _; rw [f4]
  · show some (bufResized s itemsz sz).nextFrame = _; rw [f2]
  · exact mem_sharedReuse hm1.1 sz (Or.inr (Or.inr ⟨itemsz, hpol1⟩)) hpriv rfl rfl rfl hneed rfl rfl
      (fun hm => by rw [hpol1] at hm; cases hm) rfl hm1.1.vsize_le ⟨rfl, rfl⟩

theorem inv_allocStatic {s : State} (h : Inv s) (sz space : Nat) (a : Bool) (hpol : s.cfg.pol = Policy.static space a)
    (hok : (allocStatic s sz space).ok = true) : Inv (allocStatic s sz space) := by
  unfold allocStatic at hok ⊢
  by_cases hfit : need s.cfg sz ≤ space
  · simp only [hfit, if_true] at hok ⊢
    have hfree : Blk.ext 0 ∉ s.frames.map (·.blk) := by
      have : (s.ok && s.frames.all (fun f => f.blk != Blk.ext 0)) = true := hok
      simp only [Bool.and_eq_true, List.all_eq_true, bne_iff_ne, ne_eq] at this
      intro hm
      obtain ⟨f, hf, hfb⟩ := List.mem_map.mp hm
      exact this.2 f hf hfb
    exact ⟨book_add h.book _ sz false rfl rfl rfl rfl rfl,
      mem_inplace h.mem sz 0 hfree (by simp only [SharedAt, hpol]) (by simp only [State.extSize, hpol, if_true]; exact hfit)
        (by rw [hpol]; intro e; cases e) rfl rfl rfl rfl rfl rfl rfl ⟨rfl, rfl⟩⟩
  · simp only [hfit, if_false]
    exact ⟨book_add h.book _ sz true rfl rfl rfl rfl rfl,
      mem_privAlloc h.mem sz rfl rfl rfl rfl rfl rfl rfl rfl ⟨rfl, rfl⟩⟩

theorem inv_stepAlloc {s : State} (hc : CfgOK s.cfg) (h : Inv s) (k sz : Nat) (hok : (stepAlloc s k sz).1.ok = true) :
    Inv (stepAlloc s k sz).1 := by
  unfold stepAlloc at hok ⊢
  cases hpol : s.cfg.pol with
  | default => simp only [hpol] at hok ⊢; exact inv_allocDefault h sz
  | reusable => simp only [hpol] at hok ⊢; exact inv_allocReusable h sz hpol hok
  | mtsafe => simp only [hpol] at hok ⊢; exact inv_allocMtsafe h sz hpol
  | stack i =>
    simp only [hpol] at hok ⊢
    cases hk : s.objs[k]? with
    | none => simp only [hk] at hok; cases hok
    | some asz => simp only [hk] at hok ⊢; exact inv_allocStack h k sz asz i hpol hk hok
  | placement bufsz => simp only [hpol] at hok ⊢; exact inv_allocPlacement h sz bufsz hpol hok
  | buffer itemsz =>
    simp only [hpol] at hok ⊢
    have hi : 0 < itemsz := by simpa [CfgOK, hpol] using hc
    exact inv_allocBuffer h sz itemsz hpol hi hok
  | static space a =>
    simp only [hpol] at hok ⊢
    split
    · exact h
    · rename_i hrej
      simp only [hrej] at hok
      exact inv_allocStatic h sz space a hpol hok

theorem inv_stepFree {s : State} (h : Inv s) (id : Nat) (hok : (stepFree s id).1.ok = true) : Inv (stepFree s id).1 := by
  unfold stepFree at hok ⊢
  cases hfind : s.frames.find? (fun f => f.id == id) with
  | none => simp only [hfind] at hok; cases hok
  | some f =>
    simp only []
    have hf : f ∈ s.frames := List.mem_of_find?_eq_some hfind
    have hid : f.id = id := by have := List.find?_some hfind; simpa using this
    unfold release
    cases hp : f.priv with
    | true =>
      obtain ⟨b, hb⟩ := h.mem.priv_heap f hf hp
      simp only [if_true, hb]
      exact ⟨book_free h.book f hf rfl rfl rfl (by rw [hid]) rfl,
        mem_freePriv h.mem f b hf hp hb rfl rfl rfl rfl rfl rfl rfl rfl ⟨rfl, rfl⟩⟩
    | false =>
      simp only [Bool.false_eq_true, if_false]
      by_cases hm : s.cfg.pol = Policy.mtsafe
      · rw [if_pos hm]
        exact ⟨book_free h.book f hf rfl rfl rfl (by rw [hid]) rfl,
          mem_freeShared h.mem f hf hp rfl rfl rfl rfl rfl (fun _ => rfl) rfl rfl ⟨rfl, rfl⟩⟩
      · rw [if_neg hm]
        exact ⟨book_free h.book f hf rfl rfl rfl (by rw [hid]) rfl,
          mem_freeShared h.mem f hf hp rfl rfl rfl rfl rfl (fun e => absurd e hm) rfl rfl ⟨rfl, rfl⟩⟩

theorem inv_stepNewobj {s : State} (h : Inv s) : Inv (stepNewobj s).1 := by
  unfold stepNewobj
  cases hpol : s.cfg.pol with
  | stack i =>
    simp only []
    refine ⟨⟨h.book.fid_lt, h.book.born_once, h.book.life, h.book.inv_last⟩,
      ⟨h.mem.once, h.mem.noleak, ?_, h.mem.excl, h.mem.priv_heap, ?_, h.mem.ptr_live, h.mem.ptr_none, h.mem.vsize_le, ?_,
        h.mem.optr_live, h.mem.optr_none⟩⟩
    · intro f hf
      refine Fits.mono (s := s) ?_ ?_ (fun _ _ _ hm => hm) (h.mem.fits f hf)
      · rfl
      intro k _
      simp only [State.extSize, hpol]
      rcases Nat.lt_or_ge k s.objs.length with h1 | h1
      · simp [List.getD, List.getElem?_append_left h1]
      · simp [List.getD, List.getElem?_eq_none h1]
    · intro f hf hp
      have := h.mem.shared_blk f hf hp
      simp only [SharedAt, hpol] at this ⊢
      obtain ⟨k, hk, hlt⟩ := this
      exact ⟨k, hk, by simp; omega⟩
    · intro hm; rw [hpol] at hm; cases hm
  | default => exact h
  | reusable => exact h
  | mtsafe => exact h
  | placement b => exact h
  | buffer i => exact h
  | static sp a => exact h

theorem vresize_book {s : State} (h : Book s) (i n : Nat) : Book (vresize s i n) := by
  unfold vresize
  split <;> exact ⟨h.fid_lt, h.born_once, h.life, h.inv_last⟩

theorem inv_stepBufset {s : State} (h : Inv s) (n : Nat) (hok : (stepBufset s n).1.ok = true) : Inv (stepBufset s n).1 := by
  unfold stepBufset at hok ⊢
  cases hpol : s.cfg.pol with
  | buffer itemsz =>
    simp only [hpol] at hok ⊢
    have hfr0 : s.frames = [] := by
      have : (s.ok && s.frames.isEmpty) = true := hok
      simp only [Bool.and_eq_true, List.isEmpty_iff] at this
      exact this.2
    have hb := vresize_book h.book itemsz n
    have hm := mem_vresize h.mem itemsz n hpol hfr0
    exact ⟨⟨hb.fid_lt, hb.born_once, hb.life, hb.inv_last⟩,
      ⟨hm.once, hm.noleak, hm.fits, hm.excl, hm.priv_heap, hm.shared_blk, hm.ptr_live, hm.ptr_none, hm.vsize_le, hm.busy_iff,
        hm.optr_live, hm.optr_none⟩⟩
  | default => exact h
  | reusable => exact h
  | mtsafe => exact h
  | placement b => exact h
  | stack i => exact h
  | static sp a => exact h

/-- whatever the other storage object owns is deleted (its destructor, or the first half of a move assignment onto
it); no frame lives there -/
theorem mem_dropOther {s : State} (h : Mem s) :
    Mem { s with heap := s.heap.delOpt s.optr, optr := none, ocap := 0 } := by
  cases hq : s.optr with
  | none =>
    have := h.optr_none hq
    refine ⟨h.once, ?_, ?_, h.excl, h.priv_heap, h.shared_blk, h.ptr_live, h.ptr_none, h.vsize_le, h.busy_iff, ?_, ?_⟩
    · intro b; have := h.noleak b; simp only [hq] at this; simpa [Heap.delOpt] using this
    · intro f hf; exact Fits.mono (s := s) rfl (fun _ _ => Nat.le_refl _) (fun _ _ _ hm => hm) (h.fits f hf)
    · intro b hb; cases hb
    · intro _; rfl
  | some q =>
    have hql := h.optr_live q hq
    have hqi : s.heap.ids.count q = 1 := by
      have h1 := h.count_le_one q
      have h3 : 0 < s.heap.ids.count q := List.count_pos_iff.mpr (mem_ids_of_mem_live hql)
      omega
    have hqd : s.heap.dels.count q = 0 ∧ q < s.heap.next := by
      have h1 := h.once q
      split at h1 <;> omega
    have hqn : s.ptr.toList.count q = 0 ∧ (privBlocks s.frames).count q = 0 := by
      have hqn := h.noleak q
      generalize s.ptr.toList.count q = pc at hqn ⊢
      simp only [hq, Option.toList, List.count_cons, List.count_nil, beq_self_eq_true, if_true] at hqn
      omega
    have hpq : s.ptr ≠ some q := by
      intro e; have := hqn.1; simp [e] at this
    have hframe : ∀ f ∈ s.frames, f.blk ≠ Blk.heap q := by
      intro f hf e
      cases hp : f.priv with
      | true =>
        have := List.count_pos_iff.mpr (mem_privBlocks hf hp e)
        have := hqn.2
        omega
      | false =>
        have hs := h.shared_blk f hf hp
        rw [e] at hs
        unfold SharedAt at hs
        split at hs
        · exact hs
        · simp only [State.ptrBlk] at hs; split at hs <;> first | (injection hs with hs; rename_i b hb; exact hpq (by rw [hb, hs])) | cases hs
        · simp only [State.ptrBlk] at hs; split at hs <;> first | (injection hs with hs; rename_i b hb; exact hpq (by rw [hb, hs])) | cases hs
        · simp only [State.ptrBlk] at hs; split at hs <;> first | (injection hs with hs; rename_i b hb; exact hpq (by rw [hb, hs])) | cases hs
        · cases hs
        · cases hs
        · obtain ⟨k, hk, _⟩ := hs; cases hk
    simp only [Heap.delOpt]
    refine ⟨?_, ?_, ?_, h.excl, h.priv_heap, h.shared_blk, ?_, h.ptr_none, h.vsize_le, h.busy_iff, ?_, ?_⟩
    · intro x
      have h1 := h.once x
      simp only [Heap.ids_del, Heap.del_dels, Heap.del_next, List.count_append, List.count_cons, List.count_nil, beq_iff_eq,
        count_filter_ne]
      by_cases hx : x = q
      · subst hx; simp only [if_true]; rw [if_pos hqd.2]; omega
      · have : ¬ q = x := fun e => hx e.symm
        simp only [hx, this, if_false]
        count_omega h1
    · intro x
      have h1 := h.noleak x
      by_cases hx : x = q
      · subst hx
        have c1 := hqn.1
        have c2 := hqn.2
        generalize s.ptr.toList.count x = pc at c1 ⊢
        simp only [Heap.ids_del, count_filter_ne, Option.toList, List.count_nil, if_true]; omega
      · have : ¬ q = x := fun e => hx e.symm
        generalize s.ptr.toList.count x = pc at h1 ⊢
        simp only [hq, Option.toList, List.count_cons, List.count_nil, beq_iff_eq, this, if_false] at h1
        simp only [Heap.ids_del, count_filter_ne, Option.toList, List.count_nil, hx, if_false]
        omega
    · intro f hf
      refine Fits.mono (s := s) rfl (fun _ _ => Nat.le_refl _) ?_ (h.fits f hf)
      intro b n hb hm
      exact mem_live_del hm (fun e => hframe f hf (by rw [hb, e]))
    · intro b hb
      exact mem_live_del (h.ptr_live b hb) (fun e => hpq (by rw [hb, e]))
    · intro b hb; cases hb
    · intro _; rfl

/-- the storage object (and its vector) is destroyed while no frame is live and the other object owns nothing -/
theorem mem_dropPtr {s : State} (h : Mem s) (hfr0 : s.frames = []) (ho : s.optr = none) (x : Bool) :
    Mem { s with heap := s.heap.delOpt s.ptr, ptr := none, cap := 0, vsize := 0, busy := false, ok := x } := by
  have hoc := h.optr_none ho
  refine ⟨?_, ?_, ?_, ?_, ?_, ?_, ?_, ?_, ?_, ?_, ?_, ?_⟩
  · intro b
    have h1 := h.once b
    simp only []
    cases hp : s.ptr with
    | none => exact h1
    | some p =>
      obtain ⟨c1, c2, c3, c4⟩ := h.ptr_count hp
      simp only [Heap.delOpt, Heap.ids_del, Heap.del_dels, Heap.del_next, List.count_append, List.count_cons, List.count_nil,
        beq_iff_eq, count_filter_ne]
      by_cases hbp : b = p
      · subst hbp; simp only [if_true]; rw [if_pos c4]; omega
      · have : ¬ p = b := fun e => hbp e.symm
        simp only [hbp, this, if_false]
        count_omega h1
  · intro b
    have h1 := h.noleak b
    simp only [hfr0, ho, privBlocks_nil, List.count_nil, Option.toList, Nat.add_zero] at h1 ⊢
    cases hp : s.ptr with
    | none => simp only [hp, List.count_nil] at h1; exact h1
    | some p =>
      simp only [hp, List.count_cons, List.count_nil, beq_iff_eq] at h1
      simp only [Heap.delOpt, Heap.ids_del, count_filter_ne]
      by_cases hbp : b = p
      · simp [hbp]
      · have : ¬ p = b := fun e => hbp e.symm
        simp only [hbp, this, if_false] at h1 ⊢
        omega
  · intro f hf; simp only [hfr0] at hf; cases hf
  · simp only [hfr0]; exact List.nodup_nil
  · intro f hf; simp only [hfr0] at hf; cases hf
  · intro f hf; simp only [hfr0] at hf; cases hf
  · intro b hb; cases hb
  · intro _; rfl
  · exact Nat.le_refl _
  · intro _; simp [hfr0]
  · intro b hb; simp only [ho] at hb; cases hb
  · intro _; exact hoc

/-- the storage's own block is deleted while no frame lives in it (a growth whose `operator new` failed): an empty,
usable storage remains -/
theorem mem_dropOwn {s : State} (h : Mem s) (hpriv : ∀ f ∈ s.frames, f.priv = true)
    (hpol : s.cfg.pol = Policy.reusable ∨ s.cfg.pol = Policy.mtsafe) (x b : Bool)
    (hbz : s.cfg.pol = Policy.mtsafe → b = false) :
    Mem { s with heap := s.heap.delOpt s.ptr, ptr := none, cap := 0, vsize := 0, busy := b, ok := x } := by
  cases hp : s.ptr with
  | none =>
    refine ⟨h.once, ?_, ?_, h.excl, h.priv_heap, ?_, ?_, ?_, Nat.le_refl _, ?_, h.optr_live, h.optr_none⟩
    · intro b; have := h.noleak b; simp only [hp] at this; simpa [Heap.delOpt] using this
    · intro f hf; exact Fits.mono (s := s) rfl (fun _ _ => Nat.le_refl _) (fun _ _ _ hm => hm) (h.fits f hf)
    · intro f hf hq; rw [hpriv f hf] at hq; cases hq
    · intro b hb; cases hb
    · intro _; rfl
    · intro hmt; simp only [] at hmt ⊢
      rw [hbz hmt]
      constructor
      · intro e; cases e
      · rintro ⟨f, hf, hq⟩; rw [hpriv f hf] at hq; cases hq
  | some p =>
    obtain ⟨c1, c2, c3, c4⟩ := h.ptr_count hp
    have c5 := h.optr_count_ptr hp
    simp only [Heap.delOpt]
    refine ⟨?_, ?_, ?_, h.excl, h.priv_heap, ?_, ?_, ?_, Nat.le_refl _, ?_, ?_, h.optr_none⟩
    · intro b
      have h1 := h.once b
      simp only [Heap.ids_del, Heap.del_dels, Heap.del_next, List.count_append, List.count_cons, List.count_nil,
        beq_iff_eq, count_filter_ne]
      by_cases hbp : b = p
      · subst hbp; simp only [if_true]; rw [if_pos c4]; omega
      · have : ¬ p = b := fun e => hbp e.symm
        simp only [hbp, this, if_false]
        count_omega h1
    · intro b
      have h1 := h.noleak b
      by_cases hbp : b = p
      · subst hbp
        generalize s.optr.toList.count b = oc at c5 ⊢
        simp only [Heap.ids_del, count_filter_ne, Option.toList, List.count_nil, if_true]; omega
      · have : ¬ p = b := fun e => hbp e.symm
        generalize s.optr.toList.count b = oc at h1 ⊢
        simp only [hp, Option.toList, List.count_cons, List.count_nil, beq_iff_eq, this, if_false] at h1
        simp only [Heap.ids_del, count_filter_ne, Option.toList, List.count_nil, hbp, if_false]
        omega
    · intro f hf
      refine Fits.mono (s := s) rfl (fun _ _ => Nat.le_refl _) ?_ (h.fits f hf)
      intro b n hb hm
      exact mem_live_del hm (fun e => h.priv_ne_ptr hp hf (hpriv f hf) (by rw [hb, e]))
    · intro f hf hq; rw [hpriv f hf] at hq; cases hq
    · intro b hb; cases hb
    · intro _; rfl
    · intro hmt; simp only [] at hmt ⊢
      rw [hbz hmt]
      constructor
      · intro e; cases e
      · rintro ⟨f, hf, hq⟩; rw [hpriv f hf] at hq; cases hq
    · intro q hq
      apply mem_live_del (h.optr_live q hq)
      intro e
      rw [hq] at c5
      simp [e] at c5

theorem inv_stepDestroy {s : State} (h : Inv s) (hok : (stepDestroy s).1.ok = true) : Inv (stepDestroy s).1 := by
  unfold stepDestroy at hok ⊢
  have hfr0 : s.frames = [] := by
    have : (s.ok && s.frames.isEmpty) = true := hok
    simp only [Bool.and_eq_true, List.isEmpty_iff] at this
    exact this.2
  refine ⟨⟨h.book.fid_lt, h.book.born_once, h.book.life, h.book.inv_last⟩, ?_⟩
  exact mem_dropPtr (mem_dropOther h.mem) hfr0 rfl _

theorem inv_stepMoveOut {s : State} (h : Inv s) : Inv (stepMoveOut s).1 := by
  unfold stepMoveOut
  split
  · exact ⟨⟨h.book.fid_lt, h.book.born_once, h.book.life, h.book.inv_last⟩, mem_dropOther h.mem⟩
  · exact h

theorem inv_stepSwapobj {s : State} (h : Inv s) (hok : (stepSwapobj s).1.ok = true) : Inv (stepSwapobj s).1 := by
  unfold stepSwapobj at hok ⊢
  split
  · rename_i hpol
    simp only [hpol] at hok
    have hfr0 : s.frames = [] := by
      have : (s.ok && s.frames.isEmpty) = true := hok
      simp only [Bool.and_eq_true, List.isEmpty_iff] at this
      exact this.2
    have hm := h.mem
    refine ⟨⟨h.book.fid_lt, h.book.born_once, h.book.life, h.book.inv_last⟩, ⟨hm.once, ?_, ?_, hm.excl, hm.priv_heap, ?_, ?_, ?_, ?_, ?_, ?_, ?_⟩⟩
    · intro b; have := hm.noleak b; simp only []; omega
    · intro f hf; simp only [hfr0] at hf; cases hf
    · intro f hf; simp only [hfr0] at hf; cases hf
    · intro b hb
      have := hm.optr_live b hb
      simpa [capBytes, hpol] using this
    · exact hm.optr_none
    · exact Nat.zero_le _
    · intro hmt; simp only [] at hmt; rw [hpol] at hmt; cases hmt
    · intro b hb
      have := hm.ptr_live b hb
      simpa [capBytes, hpol] using this
    · exact hm.ptr_none
  · exact h

theorem rsAlloc_cfg (s : State) (n : Nat) : (rsAlloc s n).cfg = s.cfg := by
  unfold rsAlloc; split <;> rfl

theorem step_cfg0 (s : State) (op : Op) (hop : ∀ k sz, op ≠ Op.allocThrow k sz ∧ op ≠ Op.allocFail k sz) :
    (step s op).1.cfg = s.cfg := by
  cases op with
  | alloc k sz =>
    simp only [step, stepAlloc]
    cases hpol : s.cfg.pol with
    | default => rfl
    | reusable => simp only [allocReusable, addFrame, rsAlloc_cfg]
    | mtsafe => simp only [allocMtsafe]; split <;> simp only [addFrame, rsAlloc_cfg]
    | stack i =>
      simp only []
      cases hk : s.objs[k]? with
      | none => rfl
      | some asz => simp only [allocStack]; split <;> rfl
    | placement b => rfl
    | buffer i => simp only [allocBuffer, addFrame]; exact (bufResized_fields s i sz).2.2.2.2.1
    | static sp a =>
      simp only []
      split
      · rfl
      · simp only [allocStatic]; split <;> rfl
  | free id =>
    simp only [step, stepFree]
    cases hfind : s.frames.find? (fun f => f.id == id) with
    | none => rfl
    | some f =>
      simp only [release]
      split
      · split <;> rfl
      · split <;> rfl
  | newobj => simp only [step, stepNewobj]; split <;> rfl
  | bufset n => simp only [step, stepBufset]; split <;> first | rfl | exact vresize_cfg _ _ _
  | destroy => rfl
  | moveOut => simp only [step, stepMoveOut]; split <;> rfl
  | swapobj => simp only [step, stepSwapobj]; split <;> rfl
  | allocThrow k sz => exact absurd rfl (hop k sz).1
  | allocFail k sz => exact absurd rfl (hop k sz).2

/-- how a request with a failing `operator new` ends -/
theorem allocFail_cases (s : State) (k sz : Nat) :
    stepAllocFail s k sz = stepAlloc s k sz ∨ stepAllocFail s k sz = (s, Res.failed) ∨
    (s.cfg.pol = Policy.reusable ∧ need s.cfg sz > s.cap ∧ stepAllocFail s k sz =
      ({ s with heap := s.heap.delOpt s.ptr, ptr := none, cap := 0, vsize := 0, ok := s.ok && s.frames.isEmpty }, Res.failed)) ∨
    (s.cfg.pol = Policy.mtsafe ∧ s.busy = false ∧ need s.cfg sz > s.cap ∧ stepAllocFail s k sz =
      ({ s with heap := s.heap.delOpt s.ptr, ptr := none, cap := 0, vsize := 0, busy := false }, Res.failed)) := by
  unfold stepAllocFail
  split
  · exact Or.inr (Or.inl rfl)
  · rename_i hp
    split
    · rename_i hg; exact Or.inr (Or.inr (Or.inl ⟨hp, hg, rfl⟩))
    · exact Or.inl rfl
  · rename_i hp
    split
    · exact Or.inr (Or.inl rfl)
    · rename_i hb
      split
      · rename_i hg
        have hb' : s.busy = false := by cases hx : s.busy <;> simp_all
        exact Or.inr (Or.inr (Or.inr ⟨hp, hb', hg, rfl⟩))
      · exact Or.inl rfl
  · split
    · exact Or.inl rfl
    · split
      · exact Or.inl rfl
      · exact Or.inr (Or.inl rfl)
  · exact Or.inl rfl
  · split
    · exact Or.inr (Or.inl rfl)
    · exact Or.inl rfl
  · split
    · exact Or.inl rfl
    · split
      · exact Or.inl rfl
      · exact Or.inr (Or.inl rfl)

theorem step_cfg (s : State) (op : Op) : (step s op).1.cfg = s.cfg := by
  cases op with
  | allocThrow k sz =>
    have h1 : (stepAlloc s k sz).1.cfg = s.cfg := step_cfg0 s (Op.alloc k sz) (fun _ _ => ⟨(fun e => by cases e), (fun e => by cases e)⟩)
    simp only [step, stepAllocThrow]
    split
    · rename_i id blk hres
      show (stepFree (stepAlloc s k sz).1 id).1.cfg = s.cfg
      have h2 : (stepFree (stepAlloc s k sz).1 id).1.cfg = (stepAlloc s k sz).1.cfg :=
        step_cfg0 _ (Op.free id) (fun _ _ => ⟨(fun e => by cases e), (fun e => by cases e)⟩)
      rw [h2, h1]
    · exact h1
  | alloc k sz => exact step_cfg0 s _ (fun _ _ => ⟨(fun e => by cases e), (fun e => by cases e)⟩)
  | free id => exact step_cfg0 s _ (fun _ _ => ⟨(fun e => by cases e), (fun e => by cases e)⟩)
  | newobj => exact step_cfg0 s _ (fun _ _ => ⟨(fun e => by cases e), (fun e => by cases e)⟩)
  | bufset n => exact step_cfg0 s _ (fun _ _ => ⟨(fun e => by cases e), (fun e => by cases e)⟩)
  | destroy => exact step_cfg0 s _ (fun _ _ => ⟨(fun e => by cases e), (fun e => by cases e)⟩)
  | moveOut => exact step_cfg0 s _ (fun _ _ => ⟨(fun e => by cases e), (fun e => by cases e)⟩)
  | swapobj => exact step_cfg0 s _ (fun _ _ => ⟨(fun e => by cases e), (fun e => by cases e)⟩)
  | allocFail k sz =>
    have h1 : (stepAlloc s k sz).1.cfg = s.cfg :=
      step_cfg0 s (Op.alloc k sz) (fun _ _ => ⟨(fun e => by cases e), (fun e => by cases e)⟩)
    show (stepAllocFail s k sz).1.cfg = s.cfg
    rcases allocFail_cases s k sz with e | e | ⟨_, _, e⟩ | ⟨_, _, _, e⟩ <;> rw [e]
    · exact h1

theorem stepAlloc_ok_mono (s : State) (k sz : Nat) (hok : (stepAlloc s k sz).1.ok = true) : s.ok = true := by
  simp only [stepAlloc] at hok
  cases hpol : s.cfg.pol with
  | default => simp only [hpol] at hok; exact hok
  | reusable =>
    simp only [hpol] at hok
    have : (s.ok && s.frames.isEmpty) = true := hok
    simp only [Bool.and_eq_true] at this; exact this.1
  | mtsafe =>
    simp only [hpol, allocMtsafe] at hok
    split at hok
    · exact hok
    · simp only [rsAlloc] at hok; split at hok <;> exact hok
  | stack i =>
    simp only [hpol] at hok
    cases hk : s.objs[k]? with
    | none => simp only [hk] at hok; cases hok
    | some asz =>
      simp only [hk, allocStack] at hok
      split at hok
      · have : (s.ok && s.frames.all (fun f => f.blk != Blk.ext k)) = true := hok
        simp only [Bool.and_eq_true] at this; exact this.1
      · exact hok
  | placement b =>
    simp only [hpol] at hok
    have : (s.ok && s.frames.isEmpty && decide (need s.cfg sz ≤ b)) = true := hok
    simp only [Bool.and_eq_true] at this; exact this.1.1
  | buffer i =>
    simp only [hpol] at hok
    have : (s.ok && s.frames.isEmpty) = true := hok
    simp only [Bool.and_eq_true] at this; exact this.1
  | static sp a =>
    simp only [hpol] at hok
    split at hok
    · exact hok
    · simp only [allocStatic] at hok
      split at hok
      · have : (s.ok && s.frames.all (fun f => f.blk != Blk.ext 0)) = true := hok
        simp only [Bool.and_eq_true] at this; exact this.1
      · exact hok

theorem stepFree_ok_mono (s : State) (id : Nat) (hok : (stepFree s id).1.ok = true) : s.ok = true := by
  simp only [stepFree] at hok
  cases hfind : s.frames.find? (fun f => f.id == id) with
  | none => simp only [hfind] at hok; cases hok
  | some f =>
    simp only [hfind, release] at hok
    split at hok
    · split at hok <;> exact hok
    · split at hok <;> exact hok

/-- the contract flag only ever goes down -/
theorem step_ok_mono (s : State) (op : Op) (hok : (step s op).1.ok = true) : s.ok = true := by
  cases op with
  | alloc k sz => exact stepAlloc_ok_mono s k sz hok
  | free id => exact stepFree_ok_mono s id hok
  | newobj => simp only [step, stepNewobj] at hok; split at hok <;> exact hok
  | bufset n =>
    simp only [step, stepBufset] at hok
    split at hok
    · have : (s.ok && s.frames.isEmpty) = true := hok
      simp only [Bool.and_eq_true] at this; exact this.1
    · exact hok
  | destroy =>
    have : (s.ok && s.frames.isEmpty) = true := hok
    simp only [Bool.and_eq_true] at this; exact this.1
  | moveOut => simp only [step, stepMoveOut] at hok; split at hok <;> exact hok
  | swapobj =>
    simp only [step, stepSwapobj] at hok
    split at hok
    · have : (s.ok && s.frames.isEmpty) = true := hok
      simp only [Bool.and_eq_true] at this; exact this.1
    · exact hok
  | allocThrow k sz =>
    simp only [step, stepAllocThrow] at hok
    split at hok
    · rename_i id blk hres
      exact stepAlloc_ok_mono s k sz (stepFree_ok_mono _ id hok)
    · exact stepAlloc_ok_mono s k sz hok
  | allocFail k sz =>
    have hok' : (stepAllocFail s k sz).1.ok = true := hok
    rcases allocFail_cases s k sz with e | e | ⟨_, _, e⟩ | ⟨_, _, _, e⟩ <;> rw [e] at hok'
    · exact stepAlloc_ok_mono s k sz hok'
    · exact hok'
    · have : (s.ok && s.frames.isEmpty) = true := hok'
      simp only [Bool.and_eq_true] at this; exact this.1
    · exact hok'

macro "fin_tac" : tactic => `(tactic| (refine ⟨?_, ?_, ?_, ?_, ?_⟩ <;> first | rfl | trivial | exact ⟨_, rfl⟩))

theorem rsAlloc_fields (s : State) (n : Nat) :
    (rsAlloc s n).frames = s.frames ∧ (rsAlloc s n).nextFrame = s.nextFrame ∧
    (rsAlloc s n).born = s.born ∧ (rsAlloc s n).died = s.died := by
  unfold rsAlloc
  split <;> exact ⟨rfl, rfl, rfl, rfl⟩

/-- every successful `alloc` ends by recording the frame: it is the last live frame, the extra object (if any) was
constructed for it, and `inventory` points at that object — before any line of the coroutine body can run -/
theorem alloc_result (s : State) (k sz id : Nat) (blk : Blk) (hres : (step s (Op.alloc k sz)).2 = Res.alloc id blk) :
    id = s.nextFrame ∧ (step s (Op.alloc k sz)).1.inventory = some id ∧
    (step s (Op.alloc k sz)).1.born = s.born ++ [id] ∧ (step s (Op.alloc k sz)).1.died = s.died ∧
    ∃ p, (step s (Op.alloc k sz)).1.frames = s.frames ++ [⟨id, blk, sz, p⟩] := by
  simp only [step, stepAlloc] at hres ⊢
  cases hp : s.cfg.pol with
  | default =>
    simp only [hp] at hres ⊢
    injection hres with h1 h2; subst h1; subst h2
    fin_tac
  | reusable =>
    simp only [hp] at hres ⊢
    injection hres with h1 h2; subst h1; subst h2
    obtain ⟨r1, r2, r3, r4⟩ := rsAlloc_fields s (need s.cfg sz)
    simp only [allocReusable, addFrame, r1, r2, r3, r4]
    fin_tac
  | mtsafe =>
    simp only [hp] at hres ⊢
    injection hres with h1 h2; subst h1; subst h2
    obtain ⟨r1, r2, r3, r4⟩ := rsAlloc_fields s (need s.cfg sz)
    simp only [allocMtsafe, addFrame]
    by_cases hb : s.busy = true
    · simp only [hb, if_true]; fin_tac
    · simp only [hb, r1, r2, r3, r4]; fin_tac
  | stack i =>
    simp only [hp] at hres ⊢
    cases hk : s.objs[k]? with
    | none => simp only [hk] at hres; cases hres
    | some asz =>
      simp only [hk] at hres ⊢
      injection hres with h1 h2; subst h1; subst h2
      simp only [allocStack, addFrame]
      by_cases hf : need s.cfg sz ≤ asz
      · simp only [hf, if_true]; fin_tac
      · simp only [hf, if_false]; fin_tac
  | placement b =>
    simp only [hp] at hres ⊢
    injection hres with h1 h2; subst h1; subst h2
    fin_tac
  | buffer i =>
    simp only [hp] at hres ⊢
    injection hres with h1 h2; subst h1; subst h2
    obtain ⟨f1, f2, f3, f4, _⟩ := bufResized_fields s i sz
    simp only [allocBuffer, addFrame, f1, f2, f3, f4]
    fin_tac
  | static sp a =>
    simp only [hp] at hres ⊢
    split at hres
    · cases hres
    · rename_i hrej
      simp only [hrej]
      injection hres with h1 h2; subst h1; subst h2
      simp only [allocStatic, addFrame]
      by_cases hf : need s.cfg sz ≤ sp
      · simp only [hf, if_true]; fin_tac
      · simp only [hf, if_false]; fin_tac

theorem stepFree_frames {s : State} {id : Nat} {f : Frame} (hfind : s.frames.find? (fun g => g.id == id) = some f) :
    (stepFree s id).1.frames = s.frames.erase f ∧ (stepFree s id).1.cfg = s.cfg := by
  unfold stepFree release
  simp only [hfind]
  split
  · split <;> exact ⟨rfl, rfl⟩
  · split <;> exact ⟨rfl, rfl⟩

theorem mem_sameFramesAs {t s : State} (h : Mem t) : Mem (t.sameFramesAs s) :=
  ⟨h.once, h.noleak, h.fits, h.excl, h.priv_heap, h.shared_blk, h.ptr_live, h.ptr_none, h.vsize_le, h.busy_iff,
    h.optr_live, h.optr_none⟩

theorem inv_stepAllocThrow {s : State} (hc : CfgOK s.cfg) (h : Inv s) (k sz : Nat)
    (hok : (stepAllocThrow s k sz).1.ok = true) : Inv (stepAllocThrow s k sz).1 := by
  unfold stepAllocThrow at hok ⊢
  cases hres : (stepAlloc s k sz).2 with
  | alloc id blk =>
    simp only [hres] at hok ⊢
    obtain ⟨hid, _, _, _, p, hfr⟩ := alloc_result s k sz id blk hres
    have hfr' : (stepAlloc s k sz).1.frames = s.frames ++ [⟨id, blk, sz, p⟩] := hfr
    have hok2 : (stepFree (stepAlloc s k sz).1 id).1.ok = true := hok
    have hfind : (stepAlloc s k sz).1.frames.find? (fun g => g.id == id) = some ⟨id, blk, sz, p⟩ := by
      rw [hfr', List.find?_append]
      have : s.frames.find? (fun g => g.id == id) = none := by
        apply List.find?_eq_none.mpr
        intro g hg
        have := h.book.fid_lt g hg
        simp only [beq_iff_eq]; omega
      simp [this]
    have hok1 : (stepAlloc s k sz).1.ok = true := by
      exact stepFree_ok_mono _ id hok2
    have hi1 : Inv (stepAlloc s k sz).1 := inv_stepAlloc hc h k sz hok1
    have hi2 : Inv (stepFree (stepAlloc s k sz).1 id).1 := inv_stepFree hi1 id hok2
    have hnot : (⟨id, blk, sz, p⟩ : Frame) ∉ s.frames := by
      intro hm; have := h.book.fid_lt _ hm; simp only [] at this; omega
    have hframes : (stepFree (stepAlloc s k sz).1 id).1.frames = s.frames := by
      rw [(stepFree_frames hfind).1, hfr', List.erase_append_right _ hnot]
      simp
    refine ⟨⟨?_, h.book.born_once, ?_, h.book.inv_last⟩, mem_sameFramesAs hi2.mem⟩
    · intro f hf
      have : f ∈ s.frames := by rw [← hframes]; exact hf
      exact h.book.fid_lt f this
    · intro i
      show ((stepFree (stepAlloc s k sz).1 id).1.frames.map (·.id)).count i + s.died.count i = _
      rw [hframes]; exact h.book.life i
  | free id => simp only [hres] at hok ⊢; exact inv_stepAlloc hc h k sz hok
  | obj a b => simp only [hres] at hok ⊢; exact inv_stepAlloc hc h k sz hok
  | unit => simp only [hres] at hok ⊢; exact inv_stepAlloc hc h k sz hok
  | rejected => simp only [hres] at hok ⊢; exact inv_stepAlloc hc h k sz hok
  | failed => simp only [hres] at hok ⊢; exact inv_stepAlloc hc h k sz hok
  | bad => simp only [hres] at hok ⊢; exact inv_stepAlloc hc h k sz hok

theorem inv_stepAllocFail {s : State} (hc : CfgOK s.cfg) (h : Inv s) (k sz : Nat)
    (hok : (stepAllocFail s k sz).1.ok = true) : Inv (stepAllocFail s k sz).1 := by
  rcases allocFail_cases s k sz with e | e | ⟨hp, _, e⟩ | ⟨hp, hb, _, e⟩ <;> rw [e] at hok ⊢
  · exact inv_stepAlloc hc h k sz hok
  · exact h
  · have hfr0 : s.frames = [] := by
      have : (s.ok && s.frames.isEmpty) = true := hok
      simp only [Bool.and_eq_true, List.isEmpty_iff] at this
      exact this.2
    refine ⟨⟨h.book.fid_lt, h.book.born_once, h.book.life, h.book.inv_last⟩, ?_⟩
    exact mem_dropOwn h.mem (by intro f hf; rw [hfr0] at hf; cases hf) (Or.inl hp) (s.ok && s.frames.isEmpty) s.busy
      (fun hmt => by rw [hp] at hmt; cases hmt)
  · have hpriv : ∀ f ∈ s.frames, f.priv = true := by
      intro f hf
      cases hq : f.priv with
      | true => rfl
      | false =>
        have := (h.mem.busy_iff hp).mpr ⟨f, hf, hq⟩
        rw [hb] at this; cases this
    exact ⟨⟨h.book.fid_lt, h.book.born_once, h.book.life, h.book.inv_last⟩, mem_dropOwn h.mem hpriv (Or.inr hp) s.ok false (fun _ => rfl)⟩

theorem inv_step {s : State} (hc : CfgOK s.cfg) (h : Inv s) (op : Op) (hok : (step s op).1.ok = true) : Inv (step s op).1 := by
  cases op with
  | alloc k sz => exact inv_stepAlloc hc h k sz hok
  | free id => exact inv_stepFree h id hok
  | newobj => exact inv_stepNewobj h
  | bufset n => exact inv_stepBufset h n hok
  | destroy => exact inv_stepDestroy h hok
  | moveOut => exact inv_stepMoveOut h
  | swapobj => exact inv_stepSwapobj h hok
  | allocThrow k sz => exact inv_stepAllocThrow hc h k sz hok
  | allocFail k sz => exact inv_stepAllocFail hc h k sz hok

theorem run_ok_mono (s : State) (ops : List Op) (hok : (run s ops).ok = true) : s.ok = true := by
  induction ops generalizing s with
  | nil => exact hok
  | cons op ops ih => exact step_ok_mono s op (ih (step s op).1 hok)

theorem run_cfg (s : State) (ops : List Op) : (run s ops).cfg = s.cfg := by
  induction ops generalizing s with
  | nil => rfl
  | cons op ops ih => exact (ih (step s op).1).trans (step_cfg s op)

theorem inv_run {s : State} (hc : CfgOK s.cfg) (h : Inv s) (ops : List Op) (hok : (run s ops).ok = true) :
    Inv (run s ops) := by
  induction ops generalizing s with
  | nil => exact h
  | cons op ops ih =>
    have hok1 : (step s op).1.ok = true := run_ok_mono _ ops hok
    exact ih (by rw [step_cfg]; exact hc) (inv_step hc h op hok1) hok

/-! #### capacity only grows, and a request that fits causes no heap call -/

def Reusing (p : Policy) : Prop := p = Policy.reusable ∨ p = Policy.mtsafe ∨ ∃ i, p = Policy.buffer i

theorem rsAlloc_capBytes (s : State) (n : Nat) (hp : s.cfg.pol = Policy.reusable ∨ s.cfg.pol = Policy.mtsafe) :
    n ≤ capBytes (rsAlloc s n) ∧ capBytes s ≤ capBytes (rsAlloc s n) := by
  have e : ∀ t : State, t.cfg = s.cfg → capBytes t = t.cap := by
    intro t ht; rcases hp with h | h <;> simp [capBytes, ht, h]
  rw [e _ (rsAlloc_cfg s n), e s rfl]
  unfold rsAlloc
  split
  · simp only []; omega
  · omega

theorem ceil_le_of_le_mul (a i c : Nat) (hi : 0 < i) (h : a ≤ c * i) : (a + i - 1) / i ≤ c := by
  have : (a + i - 1) / i < c + 1 := by
    rw [Nat.div_lt_iff_lt_mul hi, Nat.add_mul]
    omega
  omega

theorem bufResized_capBytes (s : State) (i sz : Nat) (hp : s.cfg.pol = Policy.buffer i) (hi : 0 < i)
    (hv : s.vsize ≤ s.cap) :
    need s.cfg sz ≤ capBytes (bufResized s i sz) ∧ capBytes s ≤ capBytes (bufResized s i sz) := by
  have e : ∀ t : State, t.cfg = s.cfg → capBytes t = t.cap * i := by
    intro t ht; simp [capBytes, ht, hp]
  rw [e _ (bufResized_fields s i sz).2.2.2.2.1, e s rfl]
  have h1 := ceil_mul_ge (need s.cfg sz) i hi
  unfold bufResized
  split
  · have h2 := vresize_cap_ge s i ((need s.cfg sz + i - 1) / i)
    have h3 := Nat.mul_le_mul_right i h2.1
    have h4 := Nat.mul_le_mul_right i h2.2
    omega
  · have h3 : (need s.cfg sz + i - 1) / i ≤ s.cap := by omega
    have h4 := Nat.mul_le_mul_right i h3
    omega

/-- serving a frame from the storage's own block leaves it at least as large as the request -/
theorem alloc_capBytes_ge (s : State) (hc : CfgOK s.cfg) (hv : s.vsize ≤ s.cap) (hr : Reusing s.cfg.pol)
    (hb : s.cfg.pol = Policy.mtsafe → s.busy = false) (k sz : Nat) :
    need s.cfg sz ≤ capBytes (step s (Op.alloc k sz)).1 := by
  simp only [step, stepAlloc]
  rcases hr with hp | hp | ⟨i, hp⟩
  · simp only [hp, allocReusable]
    exact (rsAlloc_capBytes s _ (Or.inl hp)).1
  · simp only [hp, allocMtsafe, hb hp]
    exact (rsAlloc_capBytes s _ (Or.inr hp)).1
  · simp only [hp, allocBuffer]
    have hi : 0 < i := by simpa [CfgOK, hp] using hc
    exact (bufResized_capBytes s i sz hp hi hv).1

theorem capBytes_addFrame (s : State) (b : Blk) (sz : Nat) (p : Bool) : capBytes (addFrame s b sz p) = capBytes s := rfl

theorem capBytes_mono_step (s : State) (hc : CfgOK s.cfg) (hv : s.vsize ≤ s.cap) (op : Op)
    (hd : op ≠ Op.destroy ∧ op ≠ Op.swapobj ∧ ∀ k sz, op ≠ Op.allocThrow k sz ∧ op ≠ Op.allocFail k sz) :
    capBytes s ≤ capBytes (step s op).1 := by
  cases op with
  | alloc k sz =>
    simp only [step, stepAlloc]
    cases hp : s.cfg.pol with
    | default => exact Nat.le_refl _
    | reusable => simp only [allocReusable]; exact (rsAlloc_capBytes s _ (Or.inl hp)).2
    | mtsafe =>
      simp only [allocMtsafe]
      split
      · exact Nat.le_refl _
      · exact (rsAlloc_capBytes s _ (Or.inr hp)).2
    | stack i =>
      simp only []
      cases hk : s.objs[k]? with
      | none => exact Nat.le_refl _
      | some asz => simp only [allocStack]; split <;> exact Nat.le_refl _
    | placement b => exact Nat.le_refl _
    | buffer i =>
      simp only [allocBuffer]
      have hi : 0 < i := by simpa [CfgOK, hp] using hc
      exact (bufResized_capBytes s i sz hp hi hv).2
    | static sp a =>
      simp only []
      split
      · exact Nat.le_refl _
      · simp only [allocStatic]; split <;> exact Nat.le_refl _
  | free id =>
    simp only [step, stepFree]
    cases hfind : s.frames.find? (fun f => f.id == id) with
    | none => exact Nat.le_refl _
    | some f =>
      simp only [release]
      split
      · split <;> exact Nat.le_refl _
      · split <;> exact Nat.le_refl _
  | newobj => simp only [step, stepNewobj]; split <;> exact Nat.le_refl _
  | bufset n =>
    simp only [step, stepBufset]
    split
    · rename_i i hp
      have h2 := vresize_cap_ge s i n
      have e : ∀ t : State, t.cfg = s.cfg → capBytes t = t.cap * i := by
        intro t ht; simp [capBytes, ht, hp]
      rw [e s rfl]
      show _ ≤ capBytes (vresize s i n)
      rw [e _ (vresize_cfg s i n)]
      exact Nat.mul_le_mul_right i h2.1
    · exact Nat.le_refl _
  | destroy => exact absurd rfl hd.1
  | moveOut => simp only [step, stepMoveOut]; split <;> exact Nat.le_refl _
  | swapobj => exact absurd rfl hd.2.1
  | allocThrow k sz => exact absurd rfl (hd.2.2 k sz).1
  | allocFail k sz => exact absurd rfl (hd.2.2 k sz).2

/-- a request that fits into the storage's own (free) block causes no heap call -/
theorem alloc_no_heap (s : State) (hc : CfgOK s.cfg) (hr : Reusing s.cfg.pol)
    (hb : s.cfg.pol = Policy.mtsafe → s.busy = false) (k sz : Nat) (hfit : need s.cfg sz ≤ capBytes s) :
    (step s (Op.alloc k sz)).1.heap = s.heap := by
  simp only [step, stepAlloc]
  rcases hr with hp | hp | ⟨i, hp⟩
  · simp only [hp, allocReusable, addFrame, rsAlloc]
    have : ¬ need s.cfg sz > s.cap := by simp only [capBytes, hp] at hfit; omega
    simp only [this, if_false]
  · simp only [hp, allocMtsafe, hb hp, addFrame, rsAlloc]
    have : ¬ need s.cfg sz > s.cap := by simp only [capBytes, hp] at hfit; omega
    simp [this]
  · simp only [hp, allocBuffer, addFrame]
    have hi : 0 < i := by simpa [CfgOK, hp] using hc
    have hle : (need s.cfg sz + i - 1) / i ≤ s.cap := by
      apply ceil_le_of_le_mul _ _ _ hi
      simpa [capBytes, hp] using hfit
    unfold bufResized vresize
    split
    · have : ¬ (need s.cfg sz + i - 1) / i > s.cap := by omega
      simp only [this, if_false]
    · rfl

end Cocls.Storage
