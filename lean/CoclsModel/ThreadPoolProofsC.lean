import CoclsModel.ThreadPoolInv
/-! Preservation of the thread-pool invariant: closures destroyed without having run, futures being watched. -/
namespace Cocls.Pool
set_option maxHeartbeats 4000000

theorem inCoro_ret {s : State} {t : Nat} (h : inCoro s t = true) : s.ret t = Ret.body := by
  unfold inCoro at h
  split at h
  · simp only [Bool.and_eq_true, beq_iff_eq] at h; exact h.1
  · cases h

theorem inv_stopDrop {c : Cfg} {s : State} {t k : Nat} (h : Inv c s) (hpc : s.pc t = Pc.stopDrop) :
    Inv c (stepStopDrop c s t k).1 := by
  have hex : s.exit = true := by
    cases hx : s.exit with
    | true => rfl
    | false => have := (h.n_noexit hx t).1; rw [hpc] at this; cases this
  have htm : s.tmp t = [] := by
    have := h.s_tmp_pc t; grind
  unfold stepStopDrop
  rcases pick_cases (s.dq t) k with ⟨hdq, hp⟩ | ⟨j, hj, hp⟩
  · rw [hp]
    dsimp only
    split
    · inv_step h
    · unfold setPc
      inv_step h
  · rw [hp]
    dsimp only
    generalize hrest : (s.dq t).erase j = rest
    have hl : s.loc j = Loc.swapped t := (h.l_swap t j).1 hj
    have hnd0 := h.l_dqnd t
    have hjr : j ∉ rest := by rw [← hrest]; exact fun hm => (hnd0.mem_erase_iff.1 hm).1 rfl
    have hrn : rest.Nodup := by rw [← hrest]; exact hnd0.erase j
    have hmem : ∀ x, x ∈ s.dq t ↔ x = j ∨ x ∈ rest := by
      intro x; rw [← hrest, hnd0.mem_erase_iff]
      by_cases hx : x = j
      · subst hx; simp [hj]
      · simp [hx]
    have hc := h.c_once j
    rw [hl] at hc
    simp only [reduceCtorEq, ↓reduceIte] at hc
    have hr0 : s.ran j = 0 := by omega
    have hd0 : s.dropped j = 0 := by omega
    have hjn : j < s.nextJob := by
      have := h.l_fresh j; grind
    have hco : inCoro { s with dq := upd s.dq t rest } t = inCoro s t := rfl
    unfold dropJob
    dsimp only
    split
    · rename_i hk
      have hb := h.b_co j hk
      have hdo : s.deferOn j = none := by
        cases hd : s.deferOn j with
        | none => rfl
        | some x => rw [hd] at hb; simp at hb; omega
      have hcz : s.cancelled j = 0 := by rw [hdo] at hb; simp at hb; omega
      have hjd : ∀ u, j ∉ s.defer u := by
        intro u hm; have := (h.b_defer u j).1 hm; rw [hdo] at this; cases this
      rw [hco]
      split
      · rename_i hic
        have hrb := inCoro_ret hic
        have hdn : (s.defer t ++ [j]).Nodup := by
          rw [List.nodup_append]
          refine ⟨h.b_defnd t, by simp, ?_⟩
          intro a ha b hb; simp at hb; subst hb; intro e; subst e; exact hjd t ha
        have hdm : ∀ x, x ∈ s.defer t ++ [j] ↔ x ∈ s.defer t ∨ x = j := by intro x; simp
        inv_step h
      · inv_step h
    · rename_i hk
      have hb := h.b_guard j hk
      inv_step h
    · rename_i hk
      have hb := h.b_fut j hk
      have hf := h.f_broken j hk
      have hhf := dropKind_bp_hasFut hk
      rw [hd0] at hf
      have hnb : s.fut j ≠ Fut.broken := by
        intro e; rw [e] at hf; simp at hf
      split
      · inv_step h
      · inv_step h
    · rename_i hk
      have hb := h.b_none j hk
      inv_step h

theorem hasFut_dropKind {c : Cfg} {k : Kind} (h : hasFut k = true) :
    dropKind c k = DropAct.breakPromise ∨ dropKind c k = DropAct.nothing := by
  cases k <;> simp_all [dropKind, hasFut]

theorem inv_afterEnq {c : Cfg} {s : State} {t j : Nat} {acc : Bool} (h : Inv c s) (hpc : s.pc t = Pc.afterEnq j acc) :
    Inv c (stepAfterEnq c s t j acc).1 := by
  have hjn : j < s.nextJob := h.t_enq t j acc hpc
  have hown := h.f_own t j acc hpc
  have hdq : s.dq t = [] := by
    have := h.l_dqpc t; grind [Pc.inStop]
  have htm : s.tmp t = [] := by
    have := h.s_tmp_pc t; grind
  have huniq : ∀ j' a, s.pc t = Pc.afterEnq j' a → j' = j := by
    intro j' a e; rw [hpc] at e; injection e with e1 e2; exact e1.symm
  unfold stepAfterEnq
  split
  · -- accepted
    rename_i hacc
    subst hacc
    split
    · rename_i hhf
      have hfs := h.f_some j hhf hjn
      have hfv := h.f_valued j hhf
      have hdk := hasFut_dropKind (c := c) hhf
      unfold arm setPc
      dsimp only
      split
      · rename_i hfu
        have := h.f_value j hhf hfu
        inv_step h
      · rename_i hfu
        inv_step h
      · inv_step h
    · unfold setPc
      inv_step h
  · -- rejected: the closure is destroyed by the submitter
    rename_i hacc
    simp only [Bool.not_eq_true] at hacc
    subst hacc
    have hex : s.exit = true := h.x_rej_exit t j hpc
    have hl : s.loc j = Loc.rejected t := (h.l_rej t j).1 (Or.inl hpc)
    have hc := h.c_once j
    rw [hl] at hc
    simp only [reduceCtorEq, ↓reduceIte] at hc
    have hr0 : s.ran j = 0 := by omega
    have hd0 : s.dropped j = 0 := by omega
    have hco : inCoro (setPc s t Pc.idle) t = inCoro s t := rfl
    split
    · rename_i hhf
      have hfs := h.f_some j hhf hjn
      have hfv := h.f_valued j hhf
      have hfval : s.fut j ≠ Fut.value := by
        intro e; have := h.f_value j hhf e; omega
      unfold dropJob
      rw [hco]
      unfold setPc
      dsimp only
      split
      · rename_i hk
        exfalso
        rcases hasFut_dropKind (c := c) hhf with h1 | h1 <;> rw [hk] at h1 <;> cases h1
      · rename_i hk
        exfalso
        rcases hasFut_dropKind (c := c) hhf with h1 | h1 <;> rw [hk] at h1 <;> cases h1
      · rename_i hk
        have hb := h.b_fut j hk
        have hf := h.f_broken j hk
        rw [hd0] at hf
        have hnb : s.fut j ≠ Fut.broken := by
          intro e; rw [e] at hf; simp at hf
        simp only [hown.2, Bool.false_eq_true, ↓reduceIte]
        unfold arm
        simp only [upd_same]
        inv_step h
      · rename_i hk
        have hb := h.b_none j hk
        have hnbp : dropKind c (s.kind j) ≠ DropAct.breakPromise := by rw [hk]; decide
        unfold arm
        dsimp only
        split
        · rename_i hfu; exact absurd hfu hfval
        · rename_i hfu
          inv_step h
        · inv_step h
    · rename_i hhf
      simp only [Bool.not_eq_true] at hhf
      unfold dropJob
      rw [hco]
      unfold setPc
      dsimp only
      split
      · rename_i hk
        have hb := h.b_co j hk
        have hdo : s.deferOn j = none := by
          cases hd : s.deferOn j with
          | none => rfl
          | some x => rw [hd] at hb; simp at hb; omega
        have hcz : s.cancelled j = 0 := by rw [hdo] at hb; simp at hb; omega
        have hjd : ∀ u, j ∉ s.defer u := by
          intro u hm; have := (h.b_defer u j).1 hm; rw [hdo] at this; cases this
        split
        · rename_i hic
          have hrb := inCoro_ret hic
          have hdn : (s.defer t ++ [j]).Nodup := by
            rw [List.nodup_append]
            refine ⟨h.b_defnd t, by simp, ?_⟩
            intro a ha b hb; simp at hb; subst hb; intro e; subst e; exact hjd t ha
          have hdm : ∀ x, x ∈ s.defer t ++ [j] ↔ x ∈ s.defer t ∨ x = j := by intro x; simp
          inv_step h
        · inv_step h
      · rename_i hk
        have hb := h.b_guard j hk
        inv_step h
      · rename_i hk
        have := dropKind_bp_hasFut hk
        rw [hhf] at this; cases this
      · rename_i hk
        have hb := h.b_none j hk
        inv_step h

end Cocls.Pool
