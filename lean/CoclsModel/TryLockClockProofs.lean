import CoclsModel.TryLockClock
import CoclsModel.StorageMtProofs

/-
Bridge between the happens-before machine of the try-lock (`TryLockClock.lean`) and the interleaving model of
`reusable_storage_mtsafe` that C19 compares with the real headers (`StorageMt.lean`, invariant `MInv` in `StorageMtProofs.lean`).

`TryLockClock.proj_run` erases the clocks: a run of the machine is a run of the sequentially consistent flag system `Sc`.  Here the
other half: every run of `StorageMt` is simulated (forward simulation with 0–3 `Sc` steps per `StorageMt` step, `mt_sim_step`) by a
run of `Sc`, hence of the machine: `storageMt_refines`.  What `Sim` relates — and everything else of `StorageMt.State` is projected
away (heap, frames with ids / sizes / blocks, private frames, `_ptr/_capacity`, `dangling`, `died`):

  `_busy`                                  =  `Sc.busy`
  thread in `needDel` / `needNew`          ↦  `won`            (it won the exchange and is inside `reusable_storage::alloc`)
  thread in `needUnbusy`                   ↦  `giveback`
  thread in `idle` / `needPriv`            ↦  `idle`, or `use` if the `Sc` side made it the holder of the live shared frame
  a live frame in the shared block (⇔ `busy` and no thread in `needDel/needNew/needUnbusy`, by `MInv.busy_iff`)
                                           ⇔  exactly one thread in `use`

Granularity: `StorageMt` performs the exchange and a fitting allocation in one step (two `Sc` steps), a whole `dealloc` in one step and
by whichever thread is scheduled (in `Sc`: a hand-over of the frame to that thread if it is not the holder — the synchronising
hand-over the machine assumes —, the trailer read, the store), and has steps at `operator delete/new` that `Sc` does not see
(`needDel → needNew`: no `Sc` step).  A contended exchange does not change the projection (`scAlloc_busy_id`) and is matched by a stutter.
The simulation goes from `StorageMt` to `Sc` only: `Sc` lets the schedule choose "fits / grows / throws" freely and lets the frame
migrate, so it has more behaviours than `StorageMt` (which computes them from sizes) — the race-freedom theorem covers them all.
-/

namespace Cocls.TryLock
open Cocls Cocls.Clock Cocls.Storage

/-- every hand-over allowed, `N` threads -/
def cfgAll (N : Nat) : Cfg := { threads := N, migrate := fun _ _ => true }

/-- the simulation relation between a `StorageMt` state and an `Sc` state (see the header); `N` bounds the thread ids -/
structure Sim (N : Nat) (m : Mt.State) (x : Sc) : Prop where
  flag : x.busy = m.busy
  del : ∀ t fid sz, m.pc t = Mt.Pc.needDel fid sz → x.pc t = Pc.won
  new : ∀ t fid sz, m.pc t = Mt.Pc.needNew fid sz → x.pc t = Pc.won
  unb : ∀ t fid, m.pc t = Mt.Pc.needUnbusy fid → x.pc t = Pc.giveback
  non : ∀ t, (m.pc t).holder = false → x.pc t = Pc.idle ∨ x.pc t = Pc.use
  excl : ∀ t u, (x.pc t).owner = true → (x.pc u).owner = true → t = u
  useOf : m.busy = true → (∀ t, (m.pc t).holder = false) → ∃ h, h < N ∧ x.pc h = Pc.use
  useOnly : ∀ h, x.pc h = Pc.use → m.busy = true ∧ ∀ t, (m.pc t).holder = false

theorem sim_init (N : Nat) : Sim N Mt.init Sc.init := by
  refine ⟨?_, ?_, ?_, ?_, ?_, ?_, ?_, ?_⟩ <;> simp [Mt.init, Sc.init, Pc.owner]

/-- K1: the flag and the holder status of every thread are unchanged -/
theorem sim_same {N : Nat} {m m' : Mt.State} {x : Sc} (hs : Sim N m x) (hb : m'.busy = m.busy) (t : Nat)
    (hpc : ∀ u, u ≠ t → m'.pc u = m.pc u) (h0 : (m.pc t).holder = false) (h1 : (m'.pc t).holder = false) : Sim N m' x := by
  obtain ⟨flag, del, new, unb, non, excl, useOf, useOnly⟩ := hs
  refine ⟨?_, ?_, ?_, ?_, ?_, ?_, ?_, ?_⟩ <;> grind [Mt.Pc.holder]


/-- K2: thread `t` wins the flag and must grow the block -/
theorem sim_win {N : Nat} {m m' : Mt.State} {x x' : Sc} (hs : Sim N m x) (t : Nat) (hb : m.busy = false) (hb' : m'.busy = true)
    (hF1 : ∀ u, (m.pc u).holder = false)
    (hpc : ∀ u, u ≠ t → m'.pc u = m.pc u) (h1 : (∃ fid sz, m'.pc t = Mt.Pc.needDel fid sz) ∨ (∃ fid sz, m'.pc t = Mt.Pc.needNew fid sz))
    (hxb : x'.busy = true) (hxpc : ∀ u, x'.pc u = if u = t then Pc.won else x.pc u) : Sim N m' x' := by
  obtain ⟨flag, del, new, unb, non, excl, useOf, useOnly⟩ := hs
  have hxt : x.pc t = Pc.idle := by grind
  have hno : ∀ u, (x.pc u).owner = false := by
    intro u
    have := non u (hF1 u)
    have := useOnly u
    grind [Pc.owner]
  refine ⟨?_, ?_, ?_, ?_, ?_, ?_, ?_, ?_⟩ <;> grind [Mt.Pc.holder, Pc.owner]

/-- K3: thread `t` wins the flag, the frame fits: a shared frame exists from now on -/
theorem sim_winfit {N : Nat} {m m' : Mt.State} {x x' : Sc} (hs : Sim N m x) (t : Nat) (ht : t < N) (hb : m.busy = false)
    (hb' : m'.busy = true) (hF1 : ∀ u, (m.pc u).holder = false) (hpc : ∀ u, m'.pc u = m.pc u)
    (hxb : x'.busy = true) (hxpc : ∀ u, x'.pc u = if u = t then Pc.use else x.pc u) : Sim N m' x' := by
  obtain ⟨flag, del, new, unb, non, excl, useOf, useOnly⟩ := hs
  have hno : ∀ u, (x.pc u).owner = false := by
    intro u
    have := non u (hF1 u)
    have := useOnly u
    grind [Pc.owner]
  have hw : x'.pc t = Pc.use := by rw [hxpc]; simp
  refine ⟨?_, ?_, ?_, ?_, ?_, ?_, fun _ _ => ⟨t, ht, hw⟩, ?_⟩ <;> grind [Mt.Pc.holder, Pc.owner]

/-- K4: `operator delete` of the old block: nothing the projection sees -/
theorem sim_del {N : Nat} {m m' : Mt.State} {x : Sc} (hs : Sim N m x) (t : Nat) (hb : m'.busy = m.busy)
    (hpc : ∀ u, u ≠ t → m'.pc u = m.pc u) (h0 : ∃ fid sz, m.pc t = Mt.Pc.needDel fid sz)
    (h1 : ∃ fid sz, m'.pc t = Mt.Pc.needNew fid sz) : Sim N m' x := by
  obtain ⟨flag, del, new, unb, non, excl, useOf, useOnly⟩ := hs
  refine ⟨?_, ?_, ?_, ?_, ?_, ?_, ?_, ?_⟩ <;> grind [Mt.Pc.holder]

/-- K5: the growth's `operator new` returned: the frame lives in the shared block -/
theorem sim_grown {N : Nat} {m m' : Mt.State} {x x' : Sc} (hs : Sim N m x) (t : Nat) (ht : t < N) (hbusy : m.busy = true)
    (hb : m'.busy = m.busy) (hU : ∀ u, (m.pc u).holder = true → u = t)
    (hpc : ∀ u, u ≠ t → m'.pc u = m.pc u) (h0 : ∃ fid sz, m.pc t = Mt.Pc.needNew fid sz) (h1 : m'.pc t = Mt.Pc.idle)
    (hxb : x'.busy = x.busy) (hxpc : ∀ u, x'.pc u = if u = t then Pc.use else x.pc u) : Sim N m' x' := by
  obtain ⟨flag, del, new, unb, non, excl, useOf, useOnly⟩ := hs
  refine ⟨?_, ?_, ?_, ?_, ?_, ?_, ?_, ?_⟩ <;> grind [Mt.Pc.holder, Pc.owner]

/-- K6: the growth's `operator new` threw -/
theorem sim_failed {N : Nat} {m m' : Mt.State} {x x' : Sc} (hs : Sim N m x) (t : Nat)
    (hb : m'.busy = m.busy)
    (hpc : ∀ u, u ≠ t → m'.pc u = m.pc u) (h0 : ∃ fid sz, m.pc t = Mt.Pc.needNew fid sz) (h1 : ∃ fid, m'.pc t = Mt.Pc.needUnbusy fid)
    (hxb : x'.busy = x.busy) (hxpc : ∀ u, x'.pc u = if u = t then Pc.giveback else x.pc u) : Sim N m' x' := by
  obtain ⟨flag, del, new, unb, non, excl, useOf, useOnly⟩ := hs
  refine ⟨?_, ?_, ?_, ?_, ?_, ?_, ?_, ?_⟩ <;> grind [Mt.Pc.holder, Pc.owner]

/-- K7: the give-back store -/
theorem sim_unbusy {N : Nat} {m m' : Mt.State} {x x' : Sc} (hs : Sim N m x) (t : Nat)
    (hb : m'.busy = false)
    (hpc : ∀ u, u ≠ t → m'.pc u = m.pc u) (h0 : ∃ fid, m.pc t = Mt.Pc.needUnbusy fid) (h1 : m'.pc t = Mt.Pc.idle)
    (hxb : x'.busy = false) (hxpc : ∀ u, x'.pc u = if u = t then Pc.idle else x.pc u) : Sim N m' x' := by
  obtain ⟨flag, del, new, unb, non, excl, useOf, useOnly⟩ := hs
  refine ⟨?_, ?_, ?_, ?_, ?_, ?_, ?_, ?_⟩ <;> grind [Mt.Pc.holder, Pc.owner]

/-- K8: `dealloc` of the frame in the shared block, executed by thread `t` while the Sc-side holder is `h` -/
theorem sim_freed {N : Nat} {m m' : Mt.State} {x x' : Sc} (hs : Sim N m x) (t h : Nat) (hh : x.pc h = Pc.use)
    (hb : m'.busy = false) (hpc : ∀ u, m'.pc u = m.pc u)
    (hxb : x'.busy = false) (hxpc : ∀ u, x'.pc u = if u = t ∨ u = h then Pc.idle else x.pc u) : Sim N m' x' := by
  obtain ⟨flag, del, new, unb, non, excl, useOf, useOnly⟩ := hs
  have := useOnly h hh
  refine ⟨?_, ?_, ?_, ?_, ?_, ?_, ?_, ?_⟩ <;> grind [Mt.Pc.holder, Pc.owner]


/-! facts of the C19 invariant the simulation uses -/

theorem mt_holder_busy {m : Mt.State} (h : Mt.MInv m) {t : Nat} (ht : (m.pc t).holder = true) : m.busy = true :=
  h.busy_iff.mpr (Or.inl ⟨t, ht⟩)

theorem mt_noholder_of_free {m : Mt.State} (h : Mt.MInv m) (hb : m.busy = false) (u : Nat) : (m.pc u).holder = false := by
  cases hu : (m.pc u).holder with
  | false => rfl
  | true => rw [mt_holder_busy h hu] at hb; cases hb

theorem mt_shared_frame {m : Mt.State} (h : Mt.MInv m) {f : Frame} (hf : f ∈ m.frames) (hp : f.priv = false) :
    m.busy = true ∧ ∀ u, (m.pc u).holder = false := by
  refine ⟨h.busy_iff.mpr (Or.inr ⟨f, hf, hp⟩), fun u => ?_⟩
  cases hu : (m.pc u).holder with
  | false => rfl
  | true => have := h.holder_noshared u hu f hf; rw [hp] at this; cases this

theorem sim_idle_of_free {N : Nat} {m : Mt.State} {x : Sc} (hs : Sim N m x) (hb : m.busy = false)
    (hF1 : ∀ u, (m.pc u).holder = false) (t : Nat) : x.pc t = Pc.idle := by
  rcases hs.non t (hF1 t) with h | h
  · exact h
  · have := (hs.useOnly t h).1; rw [hb] at this; cases this

/-- a contended exchange is the identity on the projection (so the simulation below matches it by a stutter) -/
theorem scAlloc_busy_id (x : Sc) (t : Nat) (h : x.busy = true) : (scAlloc x t).busy = x.busy ∧ ∀ u, (scAlloc x t).pc u = x.pc u := by
  refine ⟨by simp [scAlloc, h], fun u => ?_⟩
  simp only [scAlloc, h, upd_apply]
  split
  · next hu => simp [hu]
  · rfl

theorem mt_sim_begin {N : Nat} {m : Mt.State} {x : Sc} (hm : Mt.MInv m) (hs : Sim N m x) (t : Nat) (ht : t < N)
    (hidle : m.pc t = Mt.Pc.idle) (sz : Nat) :
    ∃ es : List (Nat × Nat), Sim N (Mt.stepBegin m t sz).1 (es.foldl (scStep (cfgAll N)) x) := by
  have h0 : (m.pc t).holder = false := by rw [hidle]; rfl
  unfold Mt.stepBegin
  split
  · -- contended: private block
    refine ⟨[], sim_same hs rfl t (fun u hu => by simp [hu]) h0 (by simp [Mt.Pc.holder])⟩
  · next hb =>
    have hb : m.busy = false := by simpa using hb
    have hF1 := mt_noholder_of_free hm hb
    have hxt := sim_idle_of_free hs hb hF1 t
    have hxb : x.busy = false := by rw [hs.flag]; exact hb
    have hst : scStep (cfgAll N) x (t, 0) = scAlloc x t := by simp [scStep, cfgAll, ht, hxt]
    split
    · split
      · refine ⟨[(t, 0)], ?_⟩
        simp only [List.foldl_cons, List.foldl_nil, hst]
        refine sim_win hs t hb rfl hF1 (fun u hu => by simp [hu]) (Or.inl ⟨m.nextFrame, sz, by simp⟩) rfl
          (fun u => by simp [scAlloc, upd_apply, hxb])
      · refine ⟨[(t, 0)], ?_⟩
        simp only [List.foldl_cons, List.foldl_nil, hst]
        refine sim_win hs t hb rfl hF1 (fun u hu => by simp [hu]) (Or.inr ⟨m.nextFrame, sz, by simp⟩) rfl
          (fun u => by simp [scAlloc, upd_apply, hxb])
    · refine ⟨[(t, 0), (t, 0)], ?_⟩
      have hst2 : scStep (cfgAll N) (scAlloc x t) (t, 0) = scSetPc (scAlloc x t) t Pc.use := by
        simp [scStep, cfgAll, ht, scAlloc, hxb, scWon]
      simp only [List.foldl_cons, List.foldl_nil, hst, hst2]
      refine sim_winfit hs t ht hb rfl hF1 (fun u => rfl) rfl (fun u => by simp only [scSetPc, scAlloc, upd_apply]; split <;> rfl)


theorem mt_sim_free {N : Nat} {m : Mt.State} {x : Sc} (hm : Mt.MInv m) (hs : Sim N m x) (t : Nat) (ht : t < N)
    (hidle : m.pc t = Mt.Pc.idle) (id : Nat) :
    ∃ es : List (Nat × Nat), Sim N (Mt.stepFree m id).1 (es.foldl (scStep (cfgAll N)) x) := by
  have h0 : (m.pc t).holder = false := by rw [hidle]; rfl
  unfold Mt.stepFree
  split
  · exact ⟨[], hs⟩
  · next f hfind =>
    have hf : f ∈ m.frames := List.mem_of_find?_eq_some hfind
    split
    · exact ⟨[], sim_same hs rfl t (fun u _ => rfl) h0 h0⟩
    · next hp =>
      have hp : f.priv = false := by simpa using hp
      obtain ⟨hbusy, hF3⟩ := mt_shared_frame hm hf hp
      obtain ⟨h, hh, hxh⟩ := hs.useOf hbusy hF3
      by_cases hth : h = t
      · subst hth
        refine ⟨[(h, 3), (h, 0)], ?_⟩
        have h1 : scStep (cfgAll N) x (h, 3) = scSetPc x h Pc.rel := by simp [scStep, cfgAll, hh, hxh, scUse]
        have h2 : scStep (cfgAll N) (scSetPc x h Pc.rel) (h, 0) = scStore (scSetPc x h Pc.rel) h := by
          simp [scStep, cfgAll, hh, scSetPc]
        simp only [List.foldl_cons, List.foldl_nil, h1, h2]
        refine sim_freed hs h h hxh rfl (fun u => rfl) rfl (fun u => ?_)
        simp only [scStore, scSetPc, upd_apply]
        split <;> simp_all
      · have hxt : x.pc t = Pc.idle := by
          rcases hs.non t h0 with hx | hx
          · exact hx
          · exact absurd (hs.excl t h (by rw [hx]; rfl) (by rw [hxh]; rfl)).symm hth
        refine ⟨[(h, t + 4), (t, 3), (t, 0)], ?_⟩
        have h1 : scStep (cfgAll N) x (h, t + 4) = scHandover x h t := by
          simp [scStep, cfgAll, hh, hxh, scUse, ht, hxt, Ne.symm hth]
        have h2 : scStep (cfgAll N) (scHandover x h t) (t, 3) = scSetPc (scHandover x h t) t Pc.rel := by
          simp [scStep, cfgAll, ht, scHandover, scUse]
        have h3 : scStep (cfgAll N) (scSetPc (scHandover x h t) t Pc.rel) (t, 0) = scStore (scSetPc (scHandover x h t) t Pc.rel) t := by
          simp [scStep, cfgAll, ht, scSetPc]
        simp only [List.foldl_cons, List.foldl_nil, h1, h2, h3]
        refine sim_freed hs t h hxh rfl (fun u => rfl) rfl (fun u => ?_)
        simp only [scStore, scSetPc, scHandover, upd_apply]
        split <;> simp_all

theorem mt_sim_go {N : Nat} {m : Mt.State} {x : Sc} (hm : Mt.MInv m) (hs : Sim N m x) (t : Nat) (ht : t < N) :
    ∃ es : List (Nat × Nat), Sim N (Mt.stepGo m t).1 (es.foldl (scStep (cfgAll N)) x) := by
  unfold Mt.stepGo
  split
  · exact ⟨[], hs⟩
  · next fid sz hpc =>
    exact ⟨[], sim_del hs t rfl (fun u hu => by simp [hu]) ⟨fid, sz, hpc⟩ ⟨fid, sz, by simp⟩⟩
  · next fid sz hpc =>
    have hh : (m.pc t).holder = true := by rw [hpc]; rfl
    have hxt : x.pc t = Pc.won := hs.new t fid sz hpc
    refine ⟨[(t, 1)], ?_⟩
    have h1 : scStep (cfgAll N) x (t, 1) = scSetPc x t Pc.use := by simp [scStep, cfgAll, ht, hxt, scWon]
    simp only [List.foldl_cons, List.foldl_nil, h1]
    exact sim_grown hs t ht (mt_holder_busy hm hh) rfl (fun u hu => hm.holder_unique u t hu hh) (fun u hu => by simp [hu])
      ⟨fid, sz, hpc⟩ (by simp) rfl (fun u => by simp [scSetPc, upd_apply])
  · next fid sz hpc =>
    exact ⟨[], sim_same hs rfl t (fun u hu => by simp [hu]) (by rw [hpc]; rfl) (by simp [Mt.Pc.holder])⟩
  · next fid hpc =>
    have hxt : x.pc t = Pc.giveback := hs.unb t fid hpc
    refine ⟨[(t, 0)], ?_⟩
    have h1 : scStep (cfgAll N) x (t, 0) = scStore x t := by simp [scStep, cfgAll, ht, hxt]
    simp only [List.foldl_cons, List.foldl_nil, h1]
    exact sim_unbusy hs t rfl (fun u hu => by simp [hu]) ⟨fid, hpc⟩ (by simp) rfl (fun u => by simp [scStore, upd_apply])

theorem mt_sim_gofail {N : Nat} {m : Mt.State} {x : Sc} (hm : Mt.MInv m) (hs : Sim N m x) (t : Nat) (ht : t < N) :
    ∃ es : List (Nat × Nat), Sim N (Mt.stepGoFail m t).1 (es.foldl (scStep (cfgAll N)) x) := by
  unfold Mt.stepGoFail
  split
  · next fid sz hpc =>
    have hxt : x.pc t = Pc.won := hs.new t fid sz hpc
    refine ⟨[(t, 2)], ?_⟩
    have h1 : scStep (cfgAll N) x (t, 2) = scSetPc x t Pc.giveback := by simp [scStep, cfgAll, ht, hxt, scWon]
    simp only [List.foldl_cons, List.foldl_nil, h1]
    exact sim_failed hs t rfl (fun u hu => by simp [hu]) ⟨fid, sz, hpc⟩ ⟨fid, by simp⟩ rfl (fun u => by simp [scSetPc, upd_apply])
  · next fid sz hpc =>
    exact ⟨[], sim_same hs rfl t (fun u hu => by simp [hu]) (by rw [hpc]; rfl) (by simp [Mt.Pc.holder])⟩
  · exact mt_sim_go hm hs t ht

/-- one step of the C19 model is matched by zero to three steps of the SC flag system -/
theorem mt_sim_step {N : Nat} {m : Mt.State} {x : Sc} (hm : Mt.MInv m) (hs : Sim N m x) (t : Nat) (ht : t < N) (a : Mt.Act) :
    ∃ es : List (Nat × Nat), Sim N (Mt.step m t a).1 (es.foldl (scStep (cfgAll N)) x) := by
  unfold Mt.step
  split
  · next hidle =>
    cases a with
    | alloc sz => exact mt_sim_begin hm hs t ht hidle sz
    | free id => exact mt_sim_free hm hs t ht hidle id
    | go => exact ⟨[], hs⟩
    | fail => exact ⟨[], hs⟩
  · cases a with
    | fail => exact mt_sim_gofail hm hs t ht
    | alloc sz => exact mt_sim_go hm hs t ht
    | free id => exact mt_sim_go hm hs t ht
    | go => exact mt_sim_go hm hs t ht


theorem mt_sim_run {N : Nat} (sched : List (Nat × Mt.Act)) (hN : ∀ e ∈ sched, e.1 < N) :
    ∃ es : List (Nat × Nat), Sim N (Mt.run Mt.init sched) (es.foldl (scStep (cfgAll N)) Sc.init) := by
  unfold Mt.run
  suffices ∀ (m : Mt.State) (x : Sc), Mt.MInv m → Sim N m x →
      ∃ es : List (Nat × Nat), Sim N (sched.foldl (fun s e => (Mt.step s e.1 e.2).1) m) (es.foldl (scStep (cfgAll N)) x) from
    this _ _ Mt.minv_init (sim_init N)
  induction sched with
  | nil => intro m x _ hs; exact ⟨[], hs⟩
  | cons e rest ih =>
    intro m x hm hs
    obtain ⟨es1, h1⟩ := mt_sim_step hm hs e.1 (hN e (by simp)) e.2
    obtain ⟨es2, h2⟩ := ih (fun e' he' => hN e' (by simp [he'])) _ _ (Mt.minv_step hm e.1 e.2) h1
    exact ⟨es1 ++ es2, by rw [List.foldl_append]; exact h2⟩

/-- **Bridge to the C19 model**: for every run of `StorageMt` (the interleaving model that is compared operation by operation with the
real `reusable_storage_mtsafe` under the deterministic scheduler) there is a schedule of the happens-before machine — every hand-over
allowed, same threads — whose clock-erased state has the same `_busy` value and the corresponding control state (`Sim`).  With
`trylock_race_free`: every flag behaviour the real storage showed in the correspondence runs is covered by the race-freedom proof. -/
theorem storageMt_refines (o : TryLockOrders) {N : Nat} (sched : List (Nat × Mt.Act)) (hN : ∀ e ∈ sched, e.1 < N) :
    ∃ es : List (Nat × Nat), Sim N (Mt.run Mt.init sched) (proj (run o (cfgAll N) es)) := by
  obtain ⟨es, h⟩ := mt_sim_run sched hN
  exact ⟨es, by rw [proj_run]; exact h⟩

theorem storageMt_flag_refines (o : TryLockOrders) {N : Nat} (sched : List (Nat × Mt.Act)) (hN : ∀ e ∈ sched, e.1 < N) :
    ∃ es : List (Nat × Nat), ((lastMsg (run o (cfgAll N) es)).val != 0) = (Mt.run Mt.init sched).busy := by
  obtain ⟨es, h⟩ := storageMt_refines o sched hN
  exact ⟨es, h.flag⟩

end Cocls.TryLock
