/-
Model of `cocls::publisher<T>::queue` + `cocls::subscriber<T>` (publisher.h), one step per lock region.

The queue is pure bookkeeping under one mutex: stream position `_pos`, retained window `_q` (newest first),
registrations `_regs` with an intrusive free list (`_next_free`, the `_pos` field of an unused slot is the
link), `_closed`, `_min_queue_len/_max_queue_len`.  A subscriber's `next()` is the sequence of lock regions
`advance` (`ready()`), optionally `advanceSuspend` (`subscribe(awaiter*)`), then `getValue` (`check_next()`),
and any other party's lock regions may come in between; therefore a history of any number of publishers and
subscribers on any number of threads is an operation list, and the theorems quantify over all of them.

Wake-ups (`awaiter::resume()` outside the lock) are decided under the lock by clearing `_awt`; the step reports
which subscribers were released (`Res.woken`), and the released subscriber continues with `getValue` whenever it is
scheduled.

Per registration the model also keeps the paired `subscriber` object's own state: its subscription type `_t`
(`mode`) and where it is inside `next()` (`phase`): the co_await protocol fixes the order of the calls, and calls out
of that order are rejected (`Res.bad`, explicit totalisation).  Ghost fields (never read by the control flow):
`stream` (everything published so far), and per registration `start`, `got`, `gotPos`, `covered`.
-/
namespace Cocls.Pub

inductive Mode where
  | all | behind | recent
  deriving DecidableEq, Repr, Inhabited

/-- where a subscriber is inside `next()`: not in it / has to call `check_next()` (possibly after being woken) / saw end of stream -/
inductive Phase where
  | idle | fetch | done
  deriving DecidableEq, Repr, Inhabited

structure Reg where
  pos : Nat := 0            -- `_pos`: position of the value last moved to (next-free link when unused)
  sub : Nat := 0            -- `_sub` (identity of the subscriber object)
  awt : Bool := false       -- `_awt != nullptr`: parked, a wake-up is owed
  used : Bool := false
  kicked : Bool := false
  mode : Mode := Mode.all   -- `subscriber::_t`
  phase : Phase := Phase.idle
  -- ghost
  start : Nat := 0          -- position at subscription
  got : List Nat := []      -- values fetched so far (up to the first end of stream)
  gotPos : List Nat := []   -- `position()` at each fetched value
  covered : Bool := true    -- the start position was inside the retained window at subscription time
  deriving DecidableEq, Repr, Inhabited

structure State where
  maxLen : Option Nat       -- `none` = unlimited (`size_t` max)
  minLen : Nat
  regs : List Reg := []
  nextFree : Nat := 0
  q : List Nat := []        -- `_q`, newest first
  pos : Nat := 1            -- `_pos`: position the next published value will get
  closed : Bool := false
  -- ghost
  stream : List Nat := []   -- all published values, oldest first; the value at position p is `stream[p-1]`
  inWake : Nat := 0         -- `push_lk` calls that have unlocked for their wake-up pass and not yet re-locked
  deriving Repr

inductive Op where
  | subRecent (sid : Nat) (m : Mode)
  | subAt (sid : Nat) (m : Mode) (p : Nat)
  | subCopy (sid : Nat) (h : Nat)
  | advance (h : Nat)
  | advanceSuspend (h : Nat)
  | getValue (h : Nat)
  | push (vals : List Nat)
  | close
  | kick (sid : Nat)
  | leave (h : Nat)
  | relock                      -- second lock region of `push_lk`: after the wake-up pass
  deriving Repr, DecidableEq

inductive Res where
  | handle (h : Nat)
  | flag (b : Bool)
  | value (v : Option Nat)
  | woken (subs : List Nat)     -- subscribers whose awaiter was taken for resumption, in `_regs` order
  | unit
  | bad
  deriving Repr, DecidableEq

def init (maxLen : Option Nat) (minLen : Nat) : State := { maxLen := maxLen, minLen := minLen }

/-- `std::min(n, _max_queue_len)` -/
def capMin (m : Option Nat) (n : Nat) : Nat :=
  match m with
  | none => n
  | some k => min k n

/-- ghost: a registration at position `p` is served by the retained window (up to `max`) -/
def covers (s : State) (p : Nat) : Prop :=
  min (capMin s.maxLen (s.pos - p)) (s.pos - 1) ≤ s.q.length

instance (s : State) (p : Nat) : Decidable (covers s p) := by unfold covers; infer_instance

def newReg (sid : Nat) (m : Mode) (p : Nat) (cov : Bool) : Reg :=
  { pos := p, sub := sid, awt := false, used := true, kicked := false, mode := m, phase := Phase.idle,
    start := p, got := [], gotPos := [], covered := cov }

/-- `subscribe_lk(sub, pos)`: take a slot from the free list or append one -/
def subscribeLk (s : State) (sid : Nat) (m : Mode) (p : Nat) : State × Res :=
  if s.regs.length ≤ s.nextFree then
    ({ s with regs := s.regs ++ [newReg sid m p (decide (covers s p))], nextFree := s.regs.length + 1 },
     Res.handle s.regs.length)
  else
    ({ s with regs := s.regs.set s.nextFree (newReg sid m p (decide (covers s p))),
              nextFree := (s.regs.getD s.nextFree default).pos },
     Res.handle s.nextFree)

/-- `subscriber(pub, t)`: start behind the most recent value -/
def stepSubRecent (s : State) (sid : Nat) (m : Mode) : State × Res := subscribeLk s sid m (s.pos - 1)

/-- `subscriber(pub, pos, t)`; `Pre`: the position is not in the future -/
def stepSubAt (s : State) (sid : Nat) (m : Mode) (p : Nat) : State × Res :=
  if p < s.pos then subscribeLk s sid m p else (s, Res.bad)

/-- copy constructor (`subscribe_lk(h, sub)`, repaired code): the source may be anywhere inside `next()` — a waiting
source already stands at the position of the next, not yet published value, so the copy starts at most at the last
published one. `Pre`: the source is a live subscriber. -/
def stepSubCopy (s : State) (sid : Nat) (h : Nat) : State × Res :=
  match s.regs[h]? with
  | none => (s, Res.bad)
  | some r =>
    if r.used = true then subscribeLk s sid r.mode (min r.pos (s.pos - 1)) else (s, Res.bad)

/-- `advance_lk`: is there something to move to (a value, or the end after close)? -/
def canAdvance (s : State) (r : Reg) : Prop :=
  r.kicked = false ∧ ¬ (r.pos + 1 = s.pos ∧ s.closed = false)

instance (s : State) (r : Reg) : Decidable (canAdvance s r) := by unfold canAdvance; infer_instance

/-- `advance_lk`: the position moved to -/
def advPos (s : State) (r : Reg) : Nat :=
  match r.mode with
  | Mode.all => r.pos + 1
  | Mode.behind => max (r.pos + 1) (s.pos - s.q.length)
  | Mode.recent => max (r.pos + 1) (s.pos - 1)

def setReg (s : State) (h : Nat) (r : Reg) : State := { s with regs := s.regs.set h r }

/-- `subscriber::ready()` = `queue::advance` -/
def stepAdvance (s : State) (h : Nat) : State × Res :=
  match s.regs[h]? with
  | none => (s, Res.bad)
  | some r =>
    if r.used = true ∧ r.phase = Phase.idle then
      if canAdvance s r then
        (setReg s h { r with pos := advPos s r, phase := Phase.fetch }, Res.flag true)
      else (s, Res.flag false)
    else (s, Res.bad)

/-- `subscriber::subscribe(awaiter*)` = `queue::advance_suspend` (repaired code: advance first, park only
when there is nothing to read); `true` = parked -/
def stepAdvanceSuspend (s : State) (h : Nat) : State × Res :=
  match s.regs[h]? with
  | none => (s, Res.bad)
  | some r =>
    if r.used = true ∧ r.phase = Phase.idle then
      if canAdvance s r then
        (setReg s h { r with pos := advPos s r, phase := Phase.fetch }, Res.flag false)
      else if r.kicked = true then
        (setReg s h { r with phase := Phase.fetch }, Res.flag false)
      else
        (setReg s h { r with pos := r.pos + 1, awt := true, phase := Phase.fetch }, Res.flag true)
    else (s, Res.bad)

/-- `_pos - l._pos - 1` in `size_t`: `none` stands for the wrapped (huge) value -/
def relpos (s : State) (r : Reg) : Option Nat :=
  if r.pos < s.pos then some (s.pos - r.pos - 1) else none

/-- `get_value_lk` -/
def valueAt (s : State) (r : Reg) : Option Nat :=
  if r.kicked = true ∨ r.pos = s.pos then none
  else match r.mode with
    | Mode.all =>
        match relpos s r with
        | some i => s.q[i]?
        | none => none
    | Mode.behind =>
        match relpos s r with
        | some i => s.q[min i (s.q.length - 1)]?
        | none => s.q[s.q.length - 1]?
    | Mode.recent => s.q[0]?

/-- `subscriber::check_next()` = `queue::get_value`; allowed once `ready()` said yes, `subscribe()` said no,
or the parked awaiter has been resumed -/
def stepGetValue (s : State) (h : Nat) : State × Res :=
  match s.regs[h]? with
  | none => (s, Res.bad)
  | some r =>
    if r.used = true ∧ r.phase = Phase.fetch ∧ r.awt = false then
      match valueAt s r with
      | some v =>
          (setReg s h { r with phase := Phase.idle, got := r.got ++ [v], gotPos := r.gotPos ++ [r.pos] },
           Res.value (some v))
      | none => (setReg s h { r with phase := Phase.done }, Res.value none)
    else (s, Res.bad)

/-- the loop of `push_lk`: `need_len` -/
def needLen (regs : List Reg) (p : Nat) (m : Nat) : Nat :=
  match regs with
  | [] => m
  | x :: xs => if x.used = true then max (p - x.pos) (needLen xs p m) else needLen xs p m

/-- the loop of `push_lk`: take the awaiter of every used registration -/
def wake (r : Reg) : Reg := if r.used = true then { r with awt := false } else r

def wokenOf (regs : List Reg) : List Nat :=
  (regs.filter (fun x => x.used && x.awt)).map (·.sub)

/-- `push_lk(count)`, first lock region (after the values were put in front of `_q`): advance the position, take the
awaiters, trim, then *unlock* — the resumptions run outside the lock, so any step of any party (in particular a
resumed coroutine going straight into another `next()`) can come before the second region `stepRelock`.
`cl` is the value of `_closed` it runs with (`close()` sets the flag *before* calling `push_lk`, in this region). -/
def pushLk (s : State) (vals : List Nat) (cl : Bool) : State × Res :=
  ({ s with pos := s.pos + vals.length,
            q := (vals.reverse ++ s.q).take
                   (min (needLen s.regs (s.pos + vals.length) s.minLen) (capMin s.maxLen (vals.length + s.q.length))),
            regs := s.regs.map wake,
            closed := cl,
            stream := s.stream ++ vals,
            inWake := s.inWake + 1 },
   Res.woken (wokenOf s.regs))

/-- `push_lk`, second lock region: `lk.lock(); std::swap(wk, _wakeup_buffer);` and the caller's unlock — nothing of the
modelled state changes (for `close()` too: the flag was set in the first region) -/
def stepRelock (s : State) : State × Res := ({ s with inWake := s.inWake - 1 }, Res.unit)

/-- `push(val)` / `push(from, to)`; an empty batch does nothing -/
def stepPush (s : State) (vals : List Nat) : State × Res :=
  if vals = [] then (s, Res.woken []) else pushLk s vals s.closed

def stepClose (s : State) : State × Res :=
  if s.closed = true then (s, Res.unit) else pushLk s [] true

/-- `std::find_if` of `kick_lk`: index of the first used registration of that subscriber -/
def kickIdx : List Reg → Nat → Option Nat
  | [], _ => none
  | x :: xs, sid => if x.used = true ∧ x.sub = sid then some 0 else (kickIdx xs sid).map (· + 1)

/-- `kick_lk` -/
def stepKick (s : State) (sid : Nat) : State × Res :=
  match kickIdx s.regs sid with
  | none => (s, Res.woken [])
  | some i =>
    match s.regs[i]? with
    | none => (s, Res.woken [])
    | some r => (setReg s i { r with awt := false, kicked := true }, Res.woken (if r.awt = true then [r.sub] else []))

/-- `~subscriber` = `leave_lk`; `Pre`: not inside `next()` -/
def stepLeave (s : State) (h : Nat) : State × Res :=
  match s.regs[h]? with
  | none => (s, Res.bad)
  | some r =>
    if r.used = true ∧ (r.phase = Phase.idle ∨ r.phase = Phase.done) then
      ({ s with regs := s.regs.set h { r with pos := s.nextFree, used := false }, nextFree := h }, Res.unit)
    else (s, Res.bad)

def step (s : State) (op : Op) : State × Res :=
  match op with
  | Op.subRecent sid m => stepSubRecent s sid m
  | Op.subAt sid m p => stepSubAt s sid m p
  | Op.subCopy sid h => stepSubCopy s sid h
  | Op.advance h => stepAdvance s h
  | Op.advanceSuspend h => stepAdvanceSuspend s h
  | Op.getValue h => stepGetValue s h
  | Op.push vals => stepPush s vals
  | Op.close => stepClose s
  | Op.kick sid => stepKick s sid
  | Op.leave h => stepLeave s h
  | Op.relock => stepRelock s

def run (s : State) (ops : List Op) : State := ops.foldl (fun s op => (step s op).1) s

/-! ### the pinned (unrepaired) code, kept for the witnesses in `Props/C16.lean` -/

/-- `advance_suspend_lk` as pinned: returns without moving when closed -/
def stepAdvanceSuspendAsIs (s : State) (h : Nat) : State × Res :=
  match s.regs[h]? with
  | none => (s, Res.bad)
  | some r =>
    if r.used = true ∧ r.phase = Phase.idle then
      if r.kicked = true ∨ s.closed = true then
        (setReg s h { r with phase := Phase.fetch }, Res.flag false)
      else if r.pos + 1 = s.pos then
        (setReg s h { r with pos := r.pos + 1, awt := true, phase := Phase.fetch }, Res.flag true)
      else
        (setReg s h { r with pos := r.pos + 1, phase := Phase.fetch }, Res.flag false)
    else (s, Res.bad)

/-- what a *blocking* `next()` did after its wait as pinned: `co_awaiter::wait()` ends in `subscriber::value()`
(the previously fetched value, converted to bool) instead of `check_next()`: nothing is fetched, the old value
is reported again -/
def stepBlockingResumeAsIs (s : State) (h : Nat) : State × Res :=
  match s.regs[h]? with
  | none => (s, Res.bad)
  | some r =>
    if r.used = true ∧ r.phase = Phase.fetch ∧ r.awt = false then
      match r.got.getLast? with
      | some v =>
          (setReg s h { r with phase := Phase.idle, got := r.got ++ [v], gotPos := r.gotPos ++ [r.pos] },
           Res.value (some v))
      | none => (setReg s h { r with phase := Phase.idle }, Res.value none)
    else (s, Res.bad)

/-- the copy constructor as pinned: the source's raw position, also when the source is waiting at the position of
the value that is not yet published -/
def stepSubCopyAsIs (s : State) (sid : Nat) (h : Nat) : State × Res :=
  match s.regs[h]? with
  | none => (s, Res.bad)
  | some r =>
    if r.used = true then subscribeLk s sid r.mode r.pos else (s, Res.bad)

/-- a `close()` that sets `_closed` only *after* `push_lk` (second region instead of first): the wake-up pass runs
while the queue still reports open.  Not the code; kept to show (Props/C16) why the order matters. -/
def stepCloseLateBegin (s : State) : State × Res :=
  if s.closed = true then (s, Res.unit) else pushLk s [] false

def stepCloseLateEnd (s : State) : State × Res :=
  ({ s with closed := true, inWake := s.inWake - 1 }, Res.unit)

inductive OpAsIs where
  | op (o : Op)
  | blockingResume (h : Nat)
  | closeLateBegin
  | closeLateEnd
  | subCopyAsIs (sid : Nat) (h : Nat)
  deriving Repr, DecidableEq

def stepAsIs (s : State) (o : OpAsIs) : State × Res :=
  match o with
  | OpAsIs.op (Op.advanceSuspend h) => stepAdvanceSuspendAsIs s h
  | OpAsIs.op o => step s o
  | OpAsIs.blockingResume h => stepBlockingResumeAsIs s h
  | OpAsIs.closeLateBegin => stepCloseLateBegin s
  | OpAsIs.closeLateEnd => stepCloseLateEnd s
  | OpAsIs.subCopyAsIs sid h => stepSubCopyAsIs s sid h

def runAsIs (s : State) (ops : List OpAsIs) : State := ops.foldl (fun s op => (stepAsIs s op).1) s

end Cocls.Pub
