/-
Model of `cocls::suspend_point<void>` / `suspend_point<X>` (suspend_point.h) at the level of the real
representation, plus the part of `coro_queue` (coro_queue.h) it talks to.

* one object = `_count_flag` (`cf`: bit 0 = heap storage in use, the other bits = number of handles), the
  inline array `_local._handles[3]` (`inl`), the heap variant `_ext = {_handles, _capacity}` (`ext`, `cap`)
  and, for `suspend_point<X>`, the attached `value`.  `_local` and `_ext` share storage in the code (a union);
  the model keeps two fields and only ever reads the one selected by the flag, exactly like the code.
* a pool of any number of such objects (`objs`, a slot is `none` before construction / after destruction),
* a heap: `mem` maps the address of a live `new Ptr[n]` block to its cells, `nextAddr` is the next fresh
  address; ghost: `live` (addresses of live blocks), and the event `trace` (`alloc`/`free`/`badfree`/`oob`
  events and every coroutine resumption, in order),
* the thread's ready queue (`queue`) and whether the code performing the operations runs under an installed
  `coro_queue` (`active`: "coroutine mode") or not ("normal mode").

Handles are coroutine identities (`Ptr = Nat`).  Resumed coroutines are *trivial*: they count and suspend
again, they do not touch suspend points or the queue (assumption of the whole check).

Ghost fields (`live`, `trace`, `given`, `popped`) are never consulted by the control flow.
-/
namespace Cocls.SP

abbrev Ptr := Nat

/-- content of a cell that was never written (`new Ptr[n]` does not initialise) -/
def junk : Ptr := 0

/-- `suspend_point<void>::inline_count` -/
def inlineCount : Nat := 3

inductive Ev where
  | res (h : Ptr)        -- coroutine `h` resumed
  | alloc (cap : Nat)    -- `new Ptr[cap]`
  | free (cap : Nat)     -- `delete[]` of a live block of `cap` cells
  | badfree              -- `delete[]` of an address that is not a live block (double / invalid free)
  | oob                  -- write outside a live block
  deriving DecidableEq, Repr, Inhabited

/-! ### heap memory: association list address ↦ cells -/

abbrev Mem := List (Nat × List Ptr)

def Mem.get : Mem → Nat → Option (List Ptr)
  | [], _ => none
  | (k, v) :: m, a => if a = k then some v else Mem.get m a

def Mem.del : Mem → Nat → Mem
  | [], _ => []
  | (k, v) :: m, a => if a = k then Mem.del m a else (k, v) :: Mem.del m a

def Mem.set (m : Mem) (a : Nat) (v : List Ptr) : Mem := (a, v) :: Mem.del m a

/-! ### one suspend point object -/

structure Obj where
  cf : Nat := 0                       -- `_count_flag`
  inl : List Ptr := [junk, junk, junk] -- `_local._handles`
  ext : Nat := 0                      -- `_ext._handles`
  cap : Nat := 0                      -- `_ext._capacity`
  typed : Bool := false               -- `suspend_point<X>` (true) or `suspend_point<void>`
  value : Option Nat := none          -- `value` of `suspend_point<X>`; `none` = moved from (content unspecified) / no value
  deriving DecidableEq, Repr, Inhabited

/-- `_count_flag >> 1` -/
def Obj.count (o : Obj) : Nat := o.cf / 2
/-- `_count_flag & 1` -/
def Obj.flag (o : Obj) : Bool := o.cf % 2 == 1

structure State where
  objs : List (Option Obj)
  mem : Mem := []
  nextAddr : Nat := 1
  active : Bool := false
  queue : List Ptr := []
  -- ghost
  live : List Nat := []
  trace : List Ev := []
  given : List Ptr := []     -- every handle handed in by the environment (constructors, `<< h`, awaiting coroutine)
  popped : List Ptr := []    -- handles handed back to the caller by `pop()`
  deriving Repr

/-- `n` empty slots; `active` = the operations are performed from inside a coroutine running under a `coro_queue` -/
def init (n : Nat) (active : Bool) : State := { objs := List.replicate n none, active := active }

def State.obj (s : State) (i : Nat) : Option Obj := (s.objs[i]?).getD none

def setObj (s : State) (i : Nat) (o : Option Obj) : State := { s with objs := s.objs.set i o }

def cellsOf (s : State) (a : Nat) : List Ptr := (s.mem.get a).getD []

/-- `new Ptr[cap]`; the address of the new block is `s.nextAddr` -/
def allocBlk (s : State) (cap : Nat) : State :=
  { s with mem := s.mem.set s.nextAddr (List.replicate cap junk), nextAddr := s.nextAddr + 1,
           live := s.live ++ [s.nextAddr], trace := s.trace ++ [Ev.alloc cap] }

/-- `delete[] a` -/
def freeBlk (s : State) (a : Nat) : State :=
  match s.mem.get a with
  | some cells => { s with mem := s.mem.del a, live := s.live.erase a, trace := s.trace ++ [Ev.free cells.length] }
  | none => { s with trace := s.trace ++ [Ev.badfree] }

/-- `a[k] = h` -/
def writeCell (s : State) (a k : Nat) (h : Ptr) : State :=
  match s.mem.get a with
  | some cells =>
      if k < cells.length then { s with mem := s.mem.set a (cells.set k h) }
      else { s with trace := s.trace ++ [Ev.oob] }
  | none => { s with trace := s.trace ++ [Ev.oob] }

/-- `std::copy(src.begin(), src.end(), a)` -/
def copyInto (s : State) (a : Nat) (src : List Ptr) : State :=
  match s.mem.get a with
  | some cells =>
      if src.length ≤ cells.length then { s with mem := s.mem.set a (src ++ cells.drop src.length) }
      else { s with trace := s.trace ++ [Ev.oob] }
  | none => { s with trace := s.trace ++ [Ev.oob] }

/-- `[begin(), end())`: the handles an object holds, in order.  This is both what the code iterates over
and the abstraction function of the representation. -/
def handlesOf (s : State) (o : Obj) : List Ptr :=
  if o.cf % 2 = 1 then (cellsOf s o.ext).take (o.cf / 2) else o.inl.take (o.cf / 2)

def handles (s : State) (i : Nat) : List Ptr :=
  match s.obj i with
  | none => []
  | some o => handlesOf s o

/-- coroutine resumptions recorded so far, in order -/
def Ev.res? : Ev → Option Ptr
  | Ev.res h => some h
  | _ => none
def resumed (s : State) : List Ptr := s.trace.filterMap Ev.res?
def Ev.isAlloc : Ev → Bool
  | Ev.alloc _ => true
  | _ => false
def Ev.isFree : Ev → Bool
  | Ev.free _ => true
  | _ => false
def news (s : State) : Nat := (s.trace.filter Ev.isAlloc).length
def deletes (s : State) : Nat := (s.trace.filter Ev.isFree).length

/-! ### `add` (suspend_point.h:226-270) -/

/-- heap storage, capacity reached: allocate twice the size, copy, free the old block -/
def addGrow (s : State) (i : Nat) (o : Obj) (h : Ptr) : State :=
  setObj
    (writeCell
      (freeBlk (copyInto (allocBlk s (o.cf / 2 * 2)) s.nextAddr ((cellsOf s o.ext).take (o.cf / 2))) o.ext)
      s.nextAddr (o.cf / 2) h)
    i (some { o with ext := s.nextAddr, cap := o.cf / 2 * 2, cf := o.cf + 2 })

/-- heap storage, room left -/
def addExt (s : State) (i : Nat) (o : Obj) (h : Ptr) : State :=
  setObj (writeCell s o.ext (o.cf / 2) h) i (some { o with cf := o.cf + 2 })

/-- inline storage, room left -/
def addInl (s : State) (i : Nat) (o : Obj) (h : Ptr) : State :=
  setObj s i (some { o with inl := o.inl.set (o.cf / 2) h, cf := o.cf + 2 })

/-- inline storage full: move to the heap (`new Ptr[count*2]`, copy the whole inline array) -/
def addSpill (s : State) (i : Nat) (o : Obj) (h : Ptr) : State :=
  setObj
    (writeCell (copyInto (allocBlk s (o.cf / 2 * 2)) s.nextAddr o.inl) s.nextAddr (o.cf / 2) h)
    i (some { o with ext := s.nextAddr, cap := o.cf / 2 * 2, cf := o.cf + 3, inl := [junk, junk, junk] })

def addObj (s : State) (i : Nat) (o : Obj) (h : Ptr) : State :=
  if o.cf % 2 = 1 then
    if o.cf / 2 = o.cap then addGrow s i o h else addExt s i o h
  else
    if o.cf / 2 < inlineCount then addInl s i o h else addSpill s i o h

def add (s : State) (i : Nat) (h : Ptr) : State :=
  match s.obj i with
  | none => s
  | some o => addObj s i o h

def addAll (s : State) (i : Nat) (hs : List Ptr) : State := hs.foldl (fun s h => add s i h) s

/-! ### consumers -/

def resumeAll (s : State) (hs : List Ptr) : State := { s with trace := s.trace ++ hs.map Ev.res }

def enqueue (s : State) (hs : List Ptr) : State := { s with queue := s.queue ++ hs }

/-- `clear_internal()` -/
def clearInternal (s : State) (i : Nat) (o : Obj) : State :=
  setObj (if o.cf % 2 = 1 then freeBlk s o.ext else s) i (some { o with cf := 0 })

/-- `suspend_now()`: under a queue the handles are enqueued in order, otherwise they are resumed in order
(inside a temporarily installed queue, which stays empty because the coroutines are trivial) -/
def suspendNow (s : State) (i : Nat) (o : Obj) : State :=
  clearInternal
    (if o.cf / 2 = 0 then s
     else if s.active then enqueue s (handlesOf s o) else resumeAll s (handlesOf s o))
    i o

/-- the value `pop()` reads: `from[idx-1]` with `from` chosen by the flag *after* the decrement -/
def popValue (s : State) (o : Obj) : Ptr :=
  if (o.cf - 2) % 2 = 1 then (cellsOf s o.ext).getD (o.cf / 2 - 1) junk else o.inl.getD (o.cf / 2 - 1) junk

/-- `flush_queue()` -/
def flushAll (s : State) : State := { s with trace := s.trace ++ s.queue.map Ev.res, queue := [] }

/-- the scheduler runs the ready queue from the front until coroutine `me` gets control again -/
def flushUntil (s : State) (me : Ptr) : State :=
  { s with trace := s.trace ++ (s.queue.take (s.queue.idxOf me + 1)).map Ev.res,
           queue := s.queue.drop (s.queue.idxOf me + 1) }

/-- what `await_suspend(me)` pushes behind the remaining handles: the awaiting coroutine, unless it is one of them -/
def awaitExtra (s : State) (o : Obj) (me : Ptr) : List Ptr :=
  -- `me_included = out.address() == me_addr` (the popped handle), then `|=` over the remaining handles
  if popValue s o = me ∨ me ∈ handlesOf s { o with cf := o.cf - 2 } then [] else [me]

/-- `await_suspend(me)` with an active queue, up to the point where it returns `out` (the popped handle):
pop, push the remaining handles and `me`, `clear_internal()`.  (ghost: `me` was handed to the queue) -/
def awaitQueue (s : State) (i : Nat) (o : Obj) (me : Ptr) : State :=
  clearInternal
    (enqueue { setObj s i (some { o with cf := o.cf - 2 }) with given := s.given ++ awaitExtra s o me }
      (handlesOf s { o with cf := o.cf - 2 } ++ awaitExtra s o me))
    i { o with cf := o.cf - 2 }

/-- `co_await sp` by coroutine `me` -/
def awaitObj (s : State) (i : Nat) (o : Obj) (me : Ptr) : State :=
  if o.cf / 2 = 0 then s                         -- await_ready(): no suspension
  else if s.active then
    -- symmetric transfer to the popped handle, then the scheduler runs the queue up to (the first entry of) `me`.
    -- If the popped handle is `me` itself (own handle last) the transfer resumes `me` at once and the scheduler
    -- does not run.
    if popValue s o = me then resumeAll (awaitQueue s i o me) [popValue s o]
    else flushUntil (resumeAll (awaitQueue s i o me) [popValue s o]) me
  else
    -- install_queue_and_call: await_suspend(h).resume(), then flush_queue() by the trailer
    { flushAll (resumeAll (awaitQueue { s with active := true } i o me) [popValue s o]) with active := false }

inductive Res where
  | unit
  | bad                       -- precondition of the operation violated: nothing done
  | handle (h : Option Ptr)   -- pop(): `none` = noop_coroutine
  | num (n : Nat)
  | flag (b : Bool)
  | gone                      -- a value that has been moved from was read
  | threw                     -- the operation was left by an exception (`std::bad_alloc` / the callable's own), caught by the caller
  deriving DecidableEq, Repr

/-! ### faults: allocation failure and exceptions out of callables

A *fault plan* makes one `new Ptr[n]` of an operation throw `std::bad_alloc` (the caller catches it and goes on using
the same objects); a *throwing callable* is a function run under a freshly installed queue
(`coro_queue::install_queue_and_call(fn)`, `coro_queue::create_suspend_point(fn)`) that ends by throwing after it has
made coroutines ready. -/

inductive FOp where
  | addF (i : Nat) (h : Ptr)                -- `sp_i << h` while the next `new[]` fails
  | mergeF (i j : Nat) (k : Nat)            -- `sp_i << std::move(sp_j)` / `sp_i = std::move(sp_j)` (base) while the
                                            -- `k`-th (0-based) `new[]` of the operation fails
  | call (hs : List Ptr) (j : Option Nat) (throws : Bool)
      -- `coro_queue::install_queue_and_call(fn)`: `fn` makes the coroutines `hs` ready (`coro_queue::resume`), then
      -- `sp_j.clear()` (if `j` is given), then returns or throws
  | createX (hs : List Ptr)                 -- `coro_queue::create_suspend_point(fn)`, `fn` makes `hs` ready and throws
  | isActive                                -- `coro_queue::is_active()`
  deriving DecidableEq, Repr

/-- `add` on this object calls `new[]`: inline storage full, or heap storage at capacity -/
def needsAlloc (o : Obj) : Bool :=
  if o.cf % 2 = 1 then o.cf / 2 == o.cap else !(decide (o.cf / 2 < inlineCount))

/-- the loop `for (i = 0; i < count; i++) add(other[i])` of `operator<<` while the `k`-th `new[]` from now fails:
the state when the loop has ended (`none`) or is left by `std::bad_alloc` (`some m`, `m` = the value of the loop
counter `i` = number of handles already added; `m0` = its value at entry) -/
def addAllF (s : State) (i : Nat) : List Ptr → Nat → Nat → State × Option Nat
  | [], _, _ => (s, none)
  | h :: t, k, m0 =>
      match s.obj i with
      | none => (s, none)
      | some o =>
          if needsAlloc o then
            if k = 0 then (s, some m0) else addAllF (add s i h) i t (k - 1) (m0 + 1)
          else addAllF (add s i h) i t k (m0 + 1)

/-- the handler of `operator<<` (/repo fix "merging … under bad_alloc"): `_count_flag -= 2*i` — the handles taken
over so far are dropped from the target again (they still belong to the source); storage that was acquired on the way
(spill to the heap, doublings) is kept -/
def undoAdds (s : State) (i : Nat) (m : Nat) : State :=
  match s.obj i with
  | none => s
  | some o => setObj s i (some { o with cf := o.cf - 2 * m })

/-- `sp_i << std::move(sp_j)` (two distinct objects) under the fault plan `k` -/
def stepMergeF (s : State) (i j : Nat) (oj : Obj) (k : Nat) : State × Res :=
  match addAllF s i (handlesOf s oj) k 0 with
  | (s1, none) => (clearInternal s1 j oj, Res.unit)
  | (s1, some m) => (undoAdds s1 i m, Res.threw)

/-- the unrepaired `operator<<` had no handler: the exception left the handles added so far in the target *and* in
the source -/
def stepMergeFAsIs (s : State) (i j : Nat) (oj : Obj) (k : Nat) : State × Res :=
  match addAllF s i (handlesOf s oj) k 0 with
  | (s1, none) => (clearInternal s1 j oj, Res.unit)
  | (s1, some _) => (s1, Res.threw)

/-- the coroutines `hs` are made ready by `coro_queue::resume` under an installed queue: handed in (ghost), queued -/
def ready (s : State) (hs : List Ptr) : State := enqueue { s with given := s.given ++ hs } hs

/-- body of the callable of `FOp.call`, run with the queue installed -/
def callBody (s : State) (hs : List Ptr) (j : Option Nat) : State :=
  match j with
  | none => ready s hs
  | some j =>
      match s.obj j with
      | none => ready s hs
      | some o => suspendNow (ready s hs) j o

/-- `install_queue_and_call(fn)`: `instance` is pointed at the thread's queue, `fn` runs; whether it returns or throws, the
`trailer` object's destructor flushes the queue and restores `instance` (`prev`) -/
def stepCall (s : State) (hs : List Ptr) (j : Option Nat) : State :=
  { flushAll (callBody { s with active := true } hs j) with active := s.active }

/-- `FOp.call` names a slot that holds no object -/
def callRefused (s : State) (j : Option Nat) : Bool :=
  match j with
  | some j => (s.obj j).isNone
  | none => false

def stepF (s : State) (f : FOp) : State × Res :=
  match f with
  | FOp.addF i h =>
      match s.obj i with
      | some o =>
          -- `new Ptr[count*2]` is the first statement of both growth paths that touches anything: nothing has changed
          if needsAlloc o then (s, Res.threw) else (add { s with given := s.given ++ [h] } i h, Res.unit)
      | none => (s, Res.bad)
  | FOp.mergeF i j k =>
      match s.obj i, s.obj j with
      | some _, some oj => if i = j then (s, Res.unit) else stepMergeF s i j oj k
      | _, _ => (s, Res.bad)
  | FOp.call hs j throws =>
      if callRefused s j then (s, Res.bad)
      else (stepCall s hs j, if throws then Res.threw else Res.unit)
  | FOp.createX hs =>
      -- under a queue: `fn()` throws inside `create_suspend_point`, the (empty) local `ss` is destroyed, what `fn` queued
      -- stays queued; in normal mode the whole thing runs inside `install_queue_and_call`
      (if s.active then ready s hs else stepCall s hs none, Res.threw)
  | FOp.isActive => (s, Res.flag s.active)

/-! ### operations -/

inductive Op where
  | ctor (i : Nat)                         -- suspend_point<void>()
  | ctorH (i : Nat) (h : Ptr)              -- suspend_point<void>(h)
  | ctorV (i : Nat) (v : Nat)              -- suspend_point<X>(v)
  | ctorHV (i : Nat) (h : Ptr) (v : Nat)   -- suspend_point<X>(h, v)
  | ctorSV (i j : Nat) (v : Nat)           -- suspend_point<X>(std::move(sp_j), v)
  | mov (i j : Nat)                        -- T sp_i(std::move(sp_j)), T the type of sp_j
  | movBase (i j : Nat)                    -- suspend_point<void> sp_i(std::move(sp_j))
  | merge (i j : Nat)                      -- sp_i << std::move(sp_j)
  | assign (i j : Nat)                     -- sp_i = std::move(sp_j)
  | addH (i : Nat) (h : Ptr)               -- sp_i << h
  | pop (i : Nat)
  | clear (i : Nat)
  | dtor (i : Nat)
  | await (i : Nat) (me : Ptr)             -- co_await sp_i  in coroutine `me`
  | yield (me : Ptr)                       -- co_await pause()  in coroutine `me`
  | size (i : Nat)
  | empty (i : Nat)
  | value (i : Nat)                        -- all three reads in a row: operator X(), operator const X() const, await_resume()
  | conv (i : Nat)                         -- X(sp)   on a non-const lvalue: `operator X()`
  | cconv (i : Nat)                        -- X(sp)   on a const lvalue: `operator const X() const`
  | ares (i : Nat)                         -- sp.await_resume()
  | finish                                 -- the running coroutine ends: the queue is flushed
  | create (i : Nat) (hs : List Ptr) (v : Option Nat)
      -- sp_i = coro_queue::create_suspend_point(fn), `fn` makes the coroutines `hs` ready (coro_queue::resume, in
      -- that order) and returns nothing (`v = none`: suspend_point<void>) or the value `v` (suspend_point<X>)
  | fault (f : FOp)                        -- operations under a fault plan / with a throwing callable, see `FOp`
  deriving DecidableEq, Repr

/-- a fresh object can be constructed in slot `i` -/
def vacant (s : State) (i : Nat) : Bool := i < s.objs.length && (s.obj i).isNone

/-- the move constructor of the base: copies `_count_flag` and the storage variant selected by the flag,
resets the source's `_count_flag` -/
def moveFrom (oj : Obj) (typed : Bool) (value : Option Nat) : Obj :=
  if oj.cf % 2 = 1 then { cf := oj.cf, ext := oj.ext, cap := oj.cap, typed := typed, value := value }
  else { cf := oj.cf, inl := oj.inl, typed := typed, value := value }

def stepMove (s : State) (i j : Nat) (typed : Bool) (value : Option Nat) (oj : Obj) : State :=
  setObj (setObj s i (some (moveFrom oj typed value))) j (some { oj with cf := 0 })

/-- `operator<<(suspend_point &&)` for two distinct objects (`&other == this` returns at once, see `step`): every
handle of the source is `add`ed, the source's block is freed, its `_count_flag` reset.  (The loop reads the source
while adding to the target; for two distinct objects this is the same as reading the source first, because `add`
never writes another object's storage — `AddSpec.mem_other` in the proofs.) -/
def stepMerge (s : State) (i j : Nat) (oj : Obj) : State :=
  -- `delete[] other._ext._handles` if flagged, `other._count_flag = 0`: the same statements as `clear_internal()`
  clearInternal (addAll s i (handlesOf s oj)) j oj

/-- `ss << h` for every handle of the list, each one handed in by the environment (ghost `given`) -/
def createAll (s : State) (i : Nat) (hs : List Ptr) : State :=
  hs.foldl (fun s h => add { s with given := s.given ++ [h] } i h) s

/-- the `value` member of object `i` is assigned / moved from (no other member changes) -/
def setVal (s : State) (i : Nat) (v : Option Nat) : State :=
  match s.obj i with
  | none => s
  | some o => setObj s i (some { o with value := v })

/-- what reading the value of a typed suspend point yields; reading never changes the object -/
def readVal (o : Obj) : Res :=
  match o.value with
  | some v => Res.num v
  | none => Res.gone

def step (s : State) (op : Op) : State × Res :=
  match op with
  | Op.ctor i => if vacant s i then (setObj s i (some {}), Res.unit) else (s, Res.bad)
  | Op.ctorH i h =>
      if vacant s i then
        (setObj { s with given := s.given ++ [h] } i (some { cf := 2, inl := [h, junk, junk] }), Res.unit)
      else (s, Res.bad)
  | Op.ctorV i v => if vacant s i then (setObj s i (some { typed := true, value := some v }), Res.unit) else (s, Res.bad)
  | Op.ctorHV i h v =>
      if vacant s i then
        (setObj { s with given := s.given ++ [h] } i
          (some { cf := 2, inl := [h, junk, junk], typed := true, value := some v }), Res.unit)
      else (s, Res.bad)
  | Op.ctorSV i j v =>
      match s.obj j with
      | some oj => if vacant s i then (stepMove s i j true (some v) oj, Res.unit) else (s, Res.bad)
      | none => (s, Res.bad)
  | Op.mov i j =>
      match s.obj j with
      | some oj =>
          if vacant s i then
            -- implicit move constructor of suspend_point<X>: base moved, `value(std::move(other.value))`
            (if oj.typed then setVal (stepMove s i j oj.typed oj.value oj) j none
             else stepMove s i j oj.typed oj.value oj, Res.unit)
          else (s, Res.bad)
      | none => (s, Res.bad)
  | Op.movBase i j =>
      match s.obj j with
      | some oj => if vacant s i then (stepMove s i j false none oj, Res.unit) else (s, Res.bad)
      | none => (s, Res.bad)
  | Op.merge i j =>
      match s.obj i, s.obj j with
      | some _, some oj => if i = j then (s, Res.unit) else (stepMerge s i j oj, Res.unit)   -- `&other == this`: no-op
      | _, _ => (s, Res.bad)
  | Op.assign i j =>
      match s.obj i, s.obj j with
      | some oi, some oj =>
          if i = j then (s, Res.unit)                              -- `&other == this`: no-op
          else if oi.typed && !oj.typed then (s, Res.bad)          -- does not compile
          else if oi.typed then
            -- implicit move assignment of suspend_point<X>: base `operator=` (merge), `value = std::move(other.value)`
            (setVal (setVal (stepMerge s i j oj) i oj.value) j none, Res.unit)
          else (stepMerge s i j oj, Res.unit)
      | _, _ => (s, Res.bad)
  | Op.addH i h =>
      match s.obj i with
      | some _ => (add { s with given := s.given ++ [h] } i h, Res.unit)
      | none => (s, Res.bad)
  | Op.pop i =>
      match s.obj i with
      | some o =>
          if o.cf / 2 = 0 then (s, Res.handle none)
          else ({ setObj s i (some { o with cf := o.cf - 2 }) with popped := s.popped ++ [popValue s o] },
                Res.handle (some (popValue s o)))
      | none => (s, Res.bad)
  | Op.clear i =>
      match s.obj i with
      | some o => (suspendNow s i o, Res.unit)
      | none => (s, Res.bad)
  | Op.dtor i =>
      match s.obj i with
      | some o => (setObj (if o.cf = 0 then s else suspendNow s i o) i none, Res.unit)
      | none => (s, Res.bad)
  | Op.await i me =>
      match s.obj i with
      | some o => (awaitObj s i o me, if o.typed then readVal o else Res.unit)   -- co_await yields await_resume()
      | none => (s, Res.bad)
  | Op.yield me =>
      if s.active then (flushUntil (enqueue { s with given := s.given ++ [me] } [me]) me, Res.unit)
      else (s, Res.bad)                                              -- pause() needs an installed queue
  | Op.size i =>
      match s.obj i with
      | some o => (s, Res.num (o.cf / 2))
      | none => (s, Res.bad)
  | Op.empty i =>
      match s.obj i with
      | some o => (s, Res.flag (o.cf / 2 == 0))
      | none => (s, Res.bad)
  | Op.value i =>
      match s.obj i with
      | some o => if o.typed then (s, readVal o) else (s, Res.bad)
      | none => (s, Res.bad)
  | Op.conv i =>
      match s.obj i with
      | some o => if o.typed then (s, readVal o) else (s, Res.bad)
      | none => (s, Res.bad)
  | Op.cconv i =>
      match s.obj i with
      | some o => if o.typed then (s, readVal o) else (s, Res.bad)
      | none => (s, Res.bad)
  | Op.ares i =>
      match s.obj i with
      | some o => if o.typed then (s, readVal o) else (s, Res.bad)
      | none => (s, Res.bad)
  | Op.finish => if s.active then (flushAll s, Res.unit) else (s, Res.unit)
  | Op.fault f => stepF s f
  | Op.create i hs v =>
      -- `create_suspend_point`: under a queue (installed temporarily in normal mode) `fn` runs, the handles it made ready
      -- went to the back of the ready queue; they are taken off again front to back from the position where the queue ended
      -- before (`ss << queue[sz]; erase(begin()+sz)`, /repo fix 34c6158 — the pinned code took them off the back, which reversed
      -- them: `createAsIs`), so the queue is as before and the new suspend point holds them in the order they were made ready;
      -- a non-void result is attached by `suspend_point<X>(std::move(ss), std::move(v))` (same storage, the temporary `ss` is
      -- left empty and destroyed)
      if vacant s i then
        (createAll (setObj s i (some { typed := v.isSome, value := v })) i hs, Res.unit)
      else (s, Res.bad)

def run (s : State) (ops : List Op) : State := ops.foldl (fun s op => (step s op).1) s

/-- `create_suspend_point` as the pinned commit had it (before `/repo` commit 34c6158): the readied handles were taken off the
*back* of the ready queue (`ss << queue.back(); pop_back()`), i.e. collected in reverse order.  Every handle is still held exactly
once: the order is the business of C05 (FIFO), not of C06 -/
def createAsIs (s : State) (i : Nat) (hs : List Ptr) (v : Option Nat) : State :=
  if vacant s i then createAll (setObj s i (some { typed := v.isSome, value := v })) i hs.reverse else s

/-! ### the unrepaired code (pinned commit, before `/repo` commit a20835f): merging a suspend point into itself -/

/-- the loop of the unrepaired `operator<<` when `other` is the object itself: `count` and the flag were read once
before the loop (`flag0`), every iteration re-reads the object's own, changing, storage and `add`s to it -/
def selfMergeLoopAsIs (flag0 : Bool) (i : Nat) : Nat → Nat → State → State
  | 0, _, s => s
  | fuel + 1, k, s =>
      match s.obj i with
      | none => s
      | some o =>
          selfMergeLoopAsIs flag0 i fuel (k + 1)
            (add s i (if flag0 then (cellsOf s o.ext).getD k junk else o.inl.getD k junk))

/-- after the loop: `delete[]` of the *current* block if the flag was set at entry, then `_count_flag = 0` -/
def stepMergeSelfAsIs (s : State) (i : Nat) (o : Obj) : State :=
  match (selfMergeLoopAsIs (o.cf % 2 == 1) i (o.cf / 2) 0 s).obj i with
  | none => selfMergeLoopAsIs (o.cf % 2 == 1) i (o.cf / 2) 0 s
  | some o1 =>
      setObj (if o.cf % 2 = 1 then freeBlk (selfMergeLoopAsIs (o.cf % 2 == 1) i (o.cf / 2) 0 s) o1.ext
              else selfMergeLoopAsIs (o.cf % 2 == 1) i (o.cf / 2) 0 s)
        i (some { o1 with cf := 0 })

/-- the unrepaired `await_suspend` (before `/repo` commit e49d44d): the guard against a double insert looked only at the
handles that remain after `pop()`, not at the popped handle itself -/
def awaitExtraAsIs (s : State) (o : Obj) (me : Ptr) : List Ptr :=
  if me ∈ handlesOf s { o with cf := o.cf - 2 } then [] else [me]

def awaitQueueAsIs (s : State) (i : Nat) (o : Obj) (me : Ptr) : State :=
  clearInternal
    (enqueue (setObj s i (some { o with cf := o.cf - 2 }))
      (handlesOf s { o with cf := o.cf - 2 } ++ awaitExtraAsIs s o me))
    i { o with cf := o.cf - 2 }

/-- `co_await sp` as the pinned commit had it (before `/repo` commit e49d44d "fix: co_await on a suspend point whose last handle
is the awaiting coroutine resumed it twice"): `awaitObj` with the incomplete guard `awaitExtraAsIs` -/
def awaitObjAsIs (s : State) (i : Nat) (o : Obj) (me : Ptr) : State :=
  if o.cf / 2 = 0 then s
  else if s.active then
    if popValue s o = me then resumeAll (awaitQueueAsIs s i o me) [popValue s o]
    else flushUntil (resumeAll (awaitQueueAsIs s i o me) [popValue s o]) me
  else
    { flushAll (resumeAll (awaitQueueAsIs { s with active := true } i o me) [popValue s o]) with active := false }

/-- the step function of the pinned commit: `co_await` before `/repo` commit e49d44d, self-merge / self move-assignment before
`/repo` commit a20835f; everything else as `step` -/
def stepAsIs (s : State) (op : Op) : State × Res :=
  match op with
  | Op.await i me =>
      match s.obj i with
      | some o => (awaitObjAsIs s i o me, Res.unit)
      | none => (s, Res.bad)
  | Op.merge i j | Op.assign i j =>
      if i = j then
        match s.obj i with
        | some o => (stepMergeSelfAsIs s i o, Res.unit)
        | none => (s, Res.bad)
      else step s op
  | _ => step s op

def runAsIs (s : State) (ops : List Op) : State := ops.foldl (fun s op => (stepAsIs s op).1) s

/-- end of life: every object of the pool is destroyed (in slot order), then the running coroutine ends -/
def endOps (n : Nat) : List Op := (List.range n).map Op.dtor ++ [Op.finish]

end Cocls.SP
