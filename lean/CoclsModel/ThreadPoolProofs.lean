import CoclsModel.ThreadPoolProofsA
import CoclsModel.ThreadPoolProofsB
import CoclsModel.ThreadPoolProofsC
/-! The thread-pool invariant holds initially and is preserved by every scheduled step, hence in every reachable state. -/
namespace Cocls.Pool

theorem inv_init (c : Cfg) (hout : c.dtorOutside = true) (hnw : 0 < c.nw) (hnt : c.nw ≤ c.nt) : Inv c (init c) := by
  constructor <;> (try simp only [init]) <;> (try dsimp only)
  all_goals (try assumption)
  all_goals (try (intros; first | rfl | omega | contradiction))
  all_goals (try (simp; done))
  all_goals inv_grind

theorem inv_step {c : Cfg} {s : State} (h : Inv c s) (t k : Nat) (hen : enabled s t = true) :
    Inv c (step c s t k).1 := by
  unfold step
  split
  · -- idle
    rename_i hpc
    unfold stepIdle
    split
    · rename_i htd
      split
      · rename_i hr; exact inv_fin h (Or.inr (Or.inl ⟨hpc, hr, htd⟩))
      · rename_i hr; exact inv_bodyEnd h hpc hr
      · rename_i hr; exact inv_toAfterJob h hpc hr
      · rename_i hr; exact absurd hr (h.t_noB t)
    · exact inv_submit h hpc
    · exact inv_stopCS h hpc
    · split
      · exact inv_destroySkip h
      · exact inv_stopCS h hpc
  · rename_i j acc hpc; exact inv_afterEnq h hpc
  · rename_i hpc; exact inv_stopJoin h hpc
  · rename_i hpc; exact inv_joinBlocked h hpc hen
  · rename_i hpc; exact inv_stopDrop h hpc
  · rename_i hpc; exact inv_wLoop h hpc
  · rename_i hpc; exact inv_wCvCheck h hpc
  · rename_i hpc
    have hw : s.woken t = true := by
      unfold enabled at hen; simp only [hpc] at hen; exact hen
    exact inv_wCvBlocked h hpc hw
  · rename_i j hpc; exact inv_wRun h hpc
  · rename_i hpc; exact inv_wFlush h hpc
  · rename_i hpc
    cases hcur : s.cur t with
    | true => exact inv_wAfterJob h hpc hcur
    | false =>
      have hout := h.wf_out
      unfold stepWAfterJob
      simp only [hcur, hout, Bool.false_eq_true, ↓reduceIte, Bool.not_true, Bool.false_and]
      exact inv_fin h (Or.inr (Or.inr ⟨hpc, hcur⟩))
  · rename_i hpc; exact inv_fin h (Or.inl hpc)
  · exact h
  · exact h

theorem inv_sstep {c : Cfg} {s : State} (h : Inv c s) (tk : Nat × Nat) : Inv c (sstep c s tk) := by
  unfold sstep
  split
  · rename_i hen; exact inv_step h tk.1 tk.2 hen
  · exact h

theorem inv_run {c : Cfg} (sched : List (Nat × Nat)) : ∀ {s : State}, Inv c s → Inv c (run c s sched) := by
  induction sched with
  | nil => intro s h; exact h
  | cons tk rest ih => intro s h; exact ih (inv_sstep h tk)

end Cocls.Pool
