import CoclsModel.ThreadPoolProofsA
import CoclsModel.ThreadPoolProofsB
import CoclsModel.ThreadPoolProofsC
/-! The thread-pool invariant holds initially and is preserved by every scheduled step, hence in every reachable state. -/
namespace Cocls.Pool

theorem inv_init (c : Cfg) (hout : c.dtorOutside = true) (hnw : 0 < c.nw) (hnt : c.nw ≤ c.nt)
    (hb : c.hasB = true → c.nw < c.nt) (hcur : c.curNullOk = true) (haw : c.awHandleFirst = true) : Inv c (init c) := by
  constructor <;> (try simp only [init]) <;> (try dsimp only)
  all_goals (try assumption)
  all_goals (try (intros; first | rfl | omega | contradiction))
  all_goals (try (simp; done))
  all_goals inv_grind

set_option maxHeartbeats 4000000 in
theorem inv_waitSkip {c : Cfg} {s : State} {t : Nat} {rest : List Act} (h : Inv c s) :
    Inv c { s with todo := upd s.todo t rest } := by
  inv_step h

set_option maxHeartbeats 4000000 in
theorem inv_setFlag {c : Cfg} {s : State} {t f : Nat} {rest : List Act} (h : Inv c s) :
    Inv c { s with todo := upd s.todo t rest, flag := upd s.flag f true } := by
  inv_step h

set_option maxHeartbeats 4000000 in
theorem inv_waitBlock {c : Cfg} {s : State} {t f : Nat} {rest : List Act} (h : Inv c s) (hpc : s.pc t = Pc.idle) :
    Inv c { s with todo := upd s.todo t rest, pc := upd s.pc t (Pc.waitFlag f) } := by
  have hdq : s.dq t = [] := by
    have := h.l_dqpc t; grind [Pc.inStop]
  have htm : s.tmp t = [] := by
    have := h.s_tmp_pc t; grind
  inv_step h

set_option maxHeartbeats 4000000 in
theorem inv_waitPass {c : Cfg} {s : State} {t f : Nat} (h : Inv c s) (hpc : s.pc t = Pc.waitFlag f) :
    Inv c (setPc s t Pc.idle) := by
  have hdq : s.dq t = [] := by
    have := h.l_dqpc t; grind [Pc.inStop]
  have htm : s.tmp t = [] := by
    have := h.s_tmp_pc t; grind
  unfold setPc
  inv_step h

section poolB
set_option maxHeartbeats 4000000

theorem inv_peekBegin {c : Cfg} {s : State} {t : Nat} {rest : List Act} {k : Peek} (h : Inv c s) (hpc : s.pc t = Pc.idle) :
    Inv c { s with todo := upd s.todo t rest, pc := upd s.pc t (Pc.peekCS k) } := by
  have hdq : s.dq t = [] := by
    have := h.l_dqpc t; grind [Pc.inStop]
  have htm : s.tmp t = [] := by
    have := h.s_tmp_pc t; grind
  inv_step h

theorem inv_peekMove {c : Cfg} {s : State} {t : Nat} {p : Pc}
    (h : Inv c s) (hpc : (∃ k, s.pc t = Pc.peekCS k) ∨ ∃ k r, s.pc t = Pc.peekDone k r)
    (hp : p = Pc.idle ∨ ∃ k r, p = Pc.peekDone k r) : Inv c (setPc s t p) := by
  have hdq : s.dq t = [] := by
    have := h.l_dqpc t; grind [Pc.inStop]
  have htm : s.tmp t = [] := by
    have := h.s_tmp_pc t; grind
  unfold setPc
  rcases hpc with ⟨k, hpc⟩ | ⟨k, r, hpc⟩ <;> rcases hp with hp | ⟨k', r', hp⟩ <;> subst hp <;> inv_step h

theorem inv_park {c : Cfg} {s : State} {t n : Nat} {rest : List Act} {bd : List Prim} (h : Inv c s) :
    Inv c { s with todo := upd s.todo t rest, slotReg := upd s.slotReg n true, slotHandle := upd s.slotHandle n true,
                   slotBody := upd s.slotBody n bd, flag := upd s.flag (10 + n) true } := by
  inv_step h

theorem inv_setHandle {c : Cfg} {s : State} {t n : Nat} {rest : List Act} (h : Inv c s) :
    Inv c { s with todo := upd s.todo t rest, slotHandle := upd s.slotHandle n true } := by
  inv_step h

theorem inv_slotUsed {c : Cfg} {s : State} {n : Nat} (h : Inv c s) :
    Inv c { s with slotUsed := upd s.slotUsed n true } := by
  inv_step h

theorem inv_bBegin {c : Cfg} {s : State} {t : Nat} {rest : List Act} {isD : Bool} (h : Inv c s) (hpc : s.pc t = Pc.idle) :
    Inv c { s with todo := upd s.todo t rest, pc := upd s.pc t (Pc.bStopCS isD) } := by
  have hdq : s.dq t = [] := by
    have := h.l_dqpc t; grind [Pc.inStop]
  have htm : s.tmp t = [] := by
    have := h.s_tmp_pc t; grind
  inv_step h

theorem inv_bStopCS {c : Cfg} {s : State} {t : Nat} {isD : Bool} (h : Inv c s) (hpc : s.pc t = Pc.bStopCS isD) :
    Inv c (stepBStopCS s t isD).1 := by
  have hdq : s.dq t = [] := by
    have := h.l_dqpc t; grind [Pc.inStop]
  have htm : s.tmp t = [] := by
    have := h.s_tmp_pc t; grind
  unfold stepBStopCS
  inv_step h

theorem inv_bStopJoin {c : Cfg} {s : State} {t : Nat} (h : Inv c s) (hpc : s.pc t = Pc.bStopJoin) :
    Inv c (stepBStopJoin s t).1 := by
  have hdq : s.dq t = [] := by
    have := h.l_dqpc t; grind [Pc.inStop]
  have htm : s.tmp t = [] := by
    have := h.s_tmp_pc t; grind
  unfold stepBStopJoin
  split
  · split
    · inv_step h
    · unfold setPc
      inv_step h
  · split
    · inv_step h
    · unfold setPc
      inv_step h

theorem inv_bJoinBlocked {c : Cfg} {s : State} {t : Nat} (h : Inv c s) (hpc : s.pc t = Pc.bJoinBlocked) :
    Inv c (stepBJoinBlocked s t).1 := by
  have hdq : s.dq t = [] := by
    have := h.l_dqpc t; grind [Pc.inStop]
  have htm : s.tmp t = [] := by
    have := h.s_tmp_pc t; grind
  unfold stepBJoinBlocked
  inv_step h

theorem inv_bWorker {c : Cfg} {s : State} {t : Nat} {p : Pc} (h : Inv c s)
    (hpc : s.pc t = Pc.bLoop ∨ s.pc t = Pc.bCvCheck ∨ s.pc t = Pc.bCvBlocked)
    (hp : p = Pc.bExitPc ∨ p = Pc.bCvCheck ∨ p = Pc.bCvBlocked) : Inv c (setPc s t p) := by
  have hisB : (s.pc t).isB = true := by rcases hpc with e | e | e <;> rw [e] <;> rfl
  have hb := h.bb_pc t hisB
  have hdq : s.dq t = [] := by
    have := h.l_dqpc t; grind [Pc.inStop]
  have htm : s.tmp t = [] := by
    have := h.s_tmp_pc t; grind
  have hdf : s.defer t = [] := by
    have := h.b_defpc t; grind [Pc.bodyPhase]
  have hnt := h.wf_nt
  unfold setPc
  rcases hp with hp | hp | hp <;> subst hp <;> inv_step h

end poolB

set_option maxHeartbeats 4000000 in
theorem inv_lockWait {c : Cfg} {s : State} (f : Nat → Bool) (h : Inv c s) : Inv c { s with lockWait := f } := by
  inv_step h

/-- `enabled` for a thread that is not about to lock the mutex -/
theorem enabled_noLock {s : State} {t : Nat} (hl : (s.pc t).wantsLock = false) : enabled s t = enabledPc s t := by
  unfold enabled
  simp [hl]

theorem inv_stepPc {c : Cfg} {s : State} (h : Inv c s) (t k : Nat)
    (hen : (s.pc t).wantsLock = false → enabled s t = true)
    (hmx : (s.pc t).wantsLock = true → s.mx = none) : Inv c (stepPc c s t k).1 := by
  unfold stepPc
  split
  · -- idle
    rename_i hpc
    unfold stepIdle
    split
    · rename_i htd
      split
      · rename_i hr; exact inv_fin h (Or.inr (Or.inl ⟨hpc, hr, htd⟩))
      · rename_i hr; exact inv_bodyEnd h hpc hr
      · rename_i hr; exact inv_toAfterJob h hpc hr
      · rename_i hr; exact absurd hr (h.t_noB t)
    · exact inv_submit h hpc
    · exact inv_stopBegin h hpc
    · split
      · exact inv_destroySkip h
      · exact inv_stopBegin h hpc
    · split
      · exact inv_waitSkip h
      · exact inv_waitBlock h hpc
    · exact inv_setFlag h
    · exact inv_waitSkip h
    · split
      · exact inv_peekBegin h hpc
      · exact inv_waitSkip h
    · split
      · exact inv_peekBegin h hpc
      · exact inv_waitSkip h
    · split
      · exact inv_peekBegin h hpc
      · split
        · exact inv_waitSkip h
        · rename_i hn; exact absurd h.wf_cur hn
    · split
      · exact inv_park h
      · rename_i hn; exact absurd h.wf_aw hn
    · exact inv_setHandle h
    · split
      · split
        · exact inv_newJob (inv_slotUsed h) (Or.inl hpc)
        · rename_i hr hh
          simp only [Bool.and_eq_true] at hr
          have := h.a_handle _ hr.1
          exact absurd this hh
      · exact inv_waitSkip h
    · exact inv_bBegin h hpc
    · split
      · exact inv_waitSkip h
      · exact inv_bBegin h hpc
  · rename_i j hpc; exact inv_enqCS h hpc (hmx (by rw [hpc]; rfl))
  · rename_i j acc hpc; exact inv_afterEnq h hpc
  · rename_i isD hpc; exact inv_stopCS h hpc (hmx (by rw [hpc]; rfl))
  · rename_i pk hpc
    unfold stepPeekCS
    exact inv_peekMove h (Or.inl ⟨pk, hpc⟩) (Or.inr ⟨_, _, rfl⟩)
  · rename_i pk r hpc
    unfold stepPeekDone
    split
    · exact inv_peekMove h (Or.inr ⟨_, _, hpc⟩) (Or.inl rfl)
    · exact inv_peekMove h (Or.inr ⟨_, _, hpc⟩) (Or.inl rfl)
    · split
      · exact inv_peekMove h (Or.inr ⟨_, _, hpc⟩) (Or.inl rfl)
      · exact inv_newJob h (Or.inr ⟨r, hpc⟩)
  · rename_i f hpc; exact inv_waitPass h hpc
  · rename_i hpc; exact inv_stopJoin h hpc
  · rename_i hpc
    have hen' := hen (by rw [hpc]; rfl)
    exact inv_joinBlocked h hpc hen'
  · rename_i hpc; exact inv_stopDrop h hpc
  · rename_i hpc; exact inv_wRelock h hpc (hmx (by rw [hpc]; rfl))
  · rename_i hpc; exact inv_wLoop h hpc
  · rename_i hpc; exact inv_wCvEnter h hpc
  · rename_i hpc; exact inv_wCvCheck h hpc
  · rename_i hpc
    have hw : s.woken t = true := by
      have hen' := hen (by rw [hpc]; rfl)
      rw [enabled_noLock (by rw [hpc]; rfl)] at hen'
      unfold enabledPc at hen'
      simp only [hpc] at hen'; exact hen'
    exact inv_wCvBlocked h hpc hw
  · rename_i j hpc; exact inv_wRun h hpc
  · rename_i hpc; exact inv_wFlush h hpc
  · rename_i hpc
    cases hcur : s.cur t with
    | true => exact inv_wAfterJob h hpc hcur
    | false =>
      have hout := h.wf_out
      unfold stepWAfterJob
      simp only [hcur, hout, Bool.false_eq_true, ↓reduceIte, Bool.not_true, Bool.false_and]
      exact inv_fin h (Or.inr (Or.inr (Or.inl ⟨hpc, hcur⟩)))
  · rename_i hpc; exact inv_fin h (Or.inl hpc)
  · rename_i hpc
    unfold stepBLoop
    split
    · exact inv_bWorker h (Or.inl hpc) (Or.inl rfl)
    · exact inv_bWorker h (Or.inl hpc) (Or.inr (Or.inl rfl))
  · rename_i hpc
    unfold stepBCvCheck
    split
    · exact inv_bWorker h (Or.inr (Or.inl hpc)) (Or.inl rfl)
    · exact inv_bWorker h (Or.inr (Or.inl hpc)) (Or.inr (Or.inr rfl))
  · rename_i hpc
    unfold stepBCvBlocked
    exact inv_bWorker h (Or.inr (Or.inr hpc)) (Or.inl rfl)
  · rename_i hpc; exact inv_fin h (Or.inr (Or.inr (Or.inr hpc)))
  · rename_i isD hpc; exact inv_bStopCS h hpc
  · rename_i hpc; exact inv_bStopJoin h hpc
  · rename_i hpc; exact inv_bJoinBlocked h hpc
  · exact h
  · exact h

theorem inv_step {c : Cfg} {s : State} (h : Inv c s) (t k : Nat) (hen : enabled s t = true) :
    Inv c (step c s t k).1 := by
  unfold step
  split
  · exact inv_lockWait _ h
  · rename_i hnl
    simp only [Bool.and_eq_true, not_and, Bool.not_eq_true] at hnl
    apply inv_stepPc (inv_lockWait _ h)
    · intro hl
      have hl' : (s.pc t).wantsLock = false := hl
      have := enabled_noLock hl'
      rw [this] at hen
      rw [enabled_noLock (s := { s with lockWait := upd s.lockWait t false }) hl]
      exact hen
    · intro hl
      have := hnl hl
      cases hm : s.mx with
      | none => rfl
      | some u => rw [hm] at this; simp at this

theorem inv_sstep {c : Cfg} {s : State} (h : Inv c s) (tk : Nat × Nat) : Inv c (sstep c s tk) := by
  unfold sstep
  split
  · rename_i hen; exact inv_step h tk.1 tk.2 hen
  · exact h

theorem inv_run {c : Cfg} (sched : List (Nat × Nat)) : ∀ {s : State}, Inv c s → Inv c (run c s sched) := by
  induction sched with
  | nil => intro s h; exact h
  | cons tk rest ih => intro s h; exact ih (inv_sstep h tk)

/-- cancellation / loss is always backed by the destruction of the un-invoked closure -/
theorem cancelled_le_dropped {c : Cfg} {s : State} (h : Inv c s) (j : Nat) :
    s.cancelled j + s.lost j ≤ s.dropped j := by
  have h1 := h.b_co j
  have h2 := h.b_guard j
  have h3 := h.b_fut j
  have h4 := h.b_none j
  have h5 := h.b_lost j
  cases hk : dropKind c (s.kind j) with
  | resume =>
    have a := h1 hk
    have b := h5 (by rw [hk]; decide)
    split at a <;> omega
  | guard =>
    have a := h2 hk
    have b := h5 (by rw [hk]; decide)
    omega
  | breakPromise =>
    have a := h3 hk
    have b := h5 (by rw [hk]; decide)
    cases ha : s.armed j with
    | true => have := a.1 ha; omega
    | false => have := a.2 ha; omega
  | nothing => have := h4 hk; omega

theorem run_append (c : Cfg) (s : State) (a b : List (Nat × Nat)) : run c s (a ++ b) = run c (run c s a) b := by
  induction a generalizing s with
  | nil => rfl
  | cons x xs ih => exact ih (sstep c s x)

/-- one step of a thread under the baton scheduler (what `harness/h_pool.cpp` replays against the real header) is a
sequence of small steps of that thread -/
theorem threadStep_is_run (c : Cfg) (fuel : Nat) : ∀ (s : State) (t : Nat),
    ∃ n, (threadStep c fuel s t).1 = run c s (List.replicate n (t, 0)) := by
  induction fuel with
  | zero => intro s t; exact ⟨0, rfl⟩
  | succ f ih =>
    intro s t
    unfold threadStep
    split
    · rename_i hen
      have hs : sstep c s (t, 0) = (step c s t 0).1 := by simp [sstep, hen]
      split
      · rename_i s1 e1 heq
        obtain ⟨n, hn⟩ := ih s1 t
        refine ⟨n + 1, ?_⟩
        simp only [List.replicate_succ, run, hs, heq]
        exact hn
      · rename_i s1 e1 o _ heq
        refine ⟨1, ?_⟩
        simp only [List.replicate_succ, List.replicate_zero, run, hs, heq]
    · exact ⟨0, rfl⟩

end Cocls.Pool
