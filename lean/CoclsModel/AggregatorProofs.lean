import CoclsModel.Aggregator
/-!
Invariants of the generator-aggregator model (`CoclsModel/Aggregator.lean`), proved preserved by every step and
hence (`inv_run`, induction over the op list) true in every reachable state:

* `Inv1` control structure: queue ↔ source states, the active-source counter, where the aggregator can be parked,
  the controller-destructor drain (no frame destroyed while in flight);
* `Inv2` values: delivered ++ waiting = yielded, per source; what an ended source left behind;
* `Inv3` exceptions: the stored exception is the one caught last, caught exceptions ↔ throwing sources;
* `Inv4` argument routing;
* `Inv5` every delivered value names a source; the drain pops distinct sources;
* `Inv6` argument storage: the object a source's argument reference points to holds the argument the source was
  charged with last, so every later fetch returns that argument.

Every lemma quantifies over all configurations (`Cfg`: any number of sources, any scripts) and all states.

## part 1: control structure
-/
namespace Cocls.Agg

def active : SSt → Bool
  | SSt.fin | SSt.dropped => false
  | _ => true

/-- number of indices `j < n` with `p (st j)` -/
def nWith (p : SSt → Bool) (st : Nat → SSt) : Nat → Nat
  | 0 => 0
  | n + 1 => nWith p st n + (if p (st n) then 1 else 0)

theorem upd_apply {α : Type} (f : Nat → α) (k j : Nat) (x : α) : upd f k x j = if j = k then x else f j := rfl

theorem nWith_upd (p : SSt → Bool) (st : Nat → SSt) (k : Nat) (x : SSt) (n : Nat) :
    nWith p (upd st k x) n + (if k < n ∧ p (st k) then 1 else 0)
      = nWith p st n + (if k < n ∧ p x then 1 else 0) := by
  induction n with
  | zero => simp [nWith]
  | succ n ih =>
    simp only [nWith, upd_apply]
    by_cases h : n = k
    · subst h
      have : ¬ (n < n) := Nat.lt_irrefl n
      simp only [this, false_and, if_false, Nat.add_zero] at ih
      simp only [if_true, Nat.lt_succ_self, true_and]
      omega
    · have h1 : (k < n + 1) = (k < n) := by
        apply propext; constructor <;> intro hh <;> omega
      simp only [h, if_false, h1]
      omega

theorem nWith_pos (p : SSt → Bool) (st : Nat → SSt) (k n : Nat) (hk : k < n) (hp : p (st k) = true) :
    0 < nWith p st n := by
  induction n with
  | zero => omega
  | succ n ih =>
    simp only [nWith]
    by_cases h : k = n
    · subst h; simp [hp]
    · have : k < n := by omega
      have := ih this
      omega

theorem nWith_zero (p : SSt → Bool) (st : Nat → SSt) (n : Nat) (h : nWith p st n = 0) (k : Nat) (hk : k < n) :
    p (st k) = false := by
  cases hp : p (st k) with
  | false => rfl
  | true => have := nWith_pos p st k n hk hp; omega

theorem nWith_two (p : SSt → Bool) (st : Nat → SSt) (j k n : Nat) (hj : j < n) (hk : k < n) (hjk : j ≠ k)
    (pj : p (st j) = true) (pk : p (st k) = true) : 2 ≤ nWith p st n := by
  induction n with
  | zero => omega
  | succ n ih =>
    simp only [nWith]
    by_cases hjn : j = n
    · subst hjn
      have := nWith_pos p st k j (by omega) pk
      simp [pj]; omega
    · by_cases hkn : k = n
      · subst hkn
        have := nWith_pos p st j k (by omega) pj
        simp [pk]; omega
      · have := ih (by omega) (by omega)
        omega

theorem nWith_all (p : SSt → Bool) (st : Nat → SSt) (n : Nat) (h : ∀ k, k < n → p (st k) = true) :
    nWith p st n = n := by
  induction n with
  | zero => rfl
  | succ n ih =>
    simp only [nWith, h n (by omega), if_true]
    rw [ih (fun k hk => h k (by omega))]

def curAllowed : Ag → Nat → Prop
  | Ag.parkedYield j, k => j = k
  | Ag.recharge j _, k => j = k
  | Ag.draining, _ | Ag.drainWait, _ | Ag.destroyed, _ => True
  | _, _ => False

def isCharging : Ag → Nat → Prop
  | Ag.charging i _, k => i ≤ k
  | _, _ => False

def destructing : Ag → Prop
  | Ag.draining | Ag.drainWait | Ag.destroyed => True
  | _ => False

structure Inv1 (c : Cfg) (s : State) : Prop where
  oob : ∀ k, c.n ≤ k → s.st k = SSt.fresh
  qcount : ∀ k, s.q.count k = if s.st k = SSt.queued then 1 else 0
  cntc : s.started = true → s.count = nWith active s.st c.n
  unstarted : s.started = false → (∀ k, s.st k = SSt.fresh) ∧ s.count = 0 ∧ (s.ag = Ag.init ∨ destructing s.ag)
  init_calls : s.ag = Ag.init → s.started = false
  fresh_only : ∀ k, k < c.n → s.st k = SSt.fresh → s.started = false ∨ isCharging s.ag k
  cur_only : ∀ k, s.st k = SSt.cur → curAllowed s.ag k
  cur_unique : ∀ j k, s.st j = SSt.cur → s.st k = SSt.cur → j = k
  yield_cur : ∀ k, s.ag = Ag.parkedYield k → s.st k = SSt.cur
  recharge_cur : ∀ k a, s.ag = Ag.recharge k a → s.st k = SSt.cur
  charging_le : ∀ i a, s.ag = Ag.charging i a → i ≤ c.n
  charging_fresh : ∀ i a, s.ag = Ag.charging i a → ∀ k, i ≤ k → s.st k = SSt.fresh
  park_pop : s.ag = Ag.parkedPop → s.q = [] ∧ 0 < s.count
  woken_q : s.ag = Ag.woken → s.q ≠ []
  drain_wait : s.ag = Ag.drainWait → s.q = [] ∧ 1 < s.count
  drain_cur : ∀ k, s.dcur = some k → s.ag = Ag.draining ∨ s.ag = Ag.drainWait → s.st k = SSt.cur
  dcur_only : ∀ k, s.dcur = some k → destructing s.ag
  drain_none : s.dcur = none → s.ag = Ag.draining ∨ s.ag = Ag.drainWait → s.count = 0
  ended_cnt : (s.ag = Ag.done ∨ ∃ e, s.ag = Ag.failed e) → s.count = 0
  dropped_only : ∀ k, s.st k = SSt.dropped → destructing s.ag
  bad : s.badDestroy = []
  no_abort : s.ag ≠ Ag.aborted


theorem active_fresh : active SSt.fresh = true := rfl
theorem active_queued : active SSt.queued = true := rfl
theorem active_inflight : active SSt.inflight = true := rfl
theorem active_cur : active SSt.cur = true := rfl
theorem active_fin : active SSt.fin = false := rfl
theorem active_dropped : active SSt.dropped = false := rfl


theorem snoc_ne_nil (l : List Nat) (k : Nat) : l ++ [k] ≠ [] := by simp
theorem count_snoc (l : List Nat) (k j : Nat) : (l ++ [k]).count j = l.count j + (if k = j then 1 else 0) := by
  simp [List.count_append, List.count_cons]

macro "inv1_close" : tactic => `(tactic| first
  | (constructor <;> assumption)
  | (constructor <;> grind [curAllowed, destructing, isCharging, upd_apply, active, snoc_ne_nil, count_snoc]))

theorem inv1_next (c : Cfg) (s : State) (a : Nat) (h : Inv1 c s) : Inv1 c (stepNext c s a) := by
  obtain ⟨h1,h2,h3,h4,h5,h6,h7,h8,h9,h10,h11,h12,h13,h14,h15,h16,h17,h18,h19,h20,h21,h22⟩ := h
  unfold stepNext
  split
  · have hu := h4 (h5 ‹_›)
    have := nWith_all active s.st c.n (by intro k _; simp [hu.1 k, active])
    inv1_close
  · inv1_close
  · inv1_close

theorem inv1_destroy (c : Cfg) (s : State) (b : Bool) (h : Inv1 c s) : Inv1 c (stepDestroy s b) := by
  obtain ⟨h1,h2,h3,h4,h5,h6,h7,h8,h9,h10,h11,h12,h13,h14,h15,h16,h17,h18,h19,h20,h21,h22⟩ := h
  unfold stepDestroy
  split <;> inv1_close


theorem inflightList_nil (s : State) (n : Nat) (h : ∀ k, k < n → s.st k ≠ SSt.inflight) : inflightList s n = [] := by
  induction n with
  | zero => rfl
  | succ n ih =>
    simp only [inflightList]
    rw [ih (fun k hk => h k (by omega))]
    simp [h n (by omega)]

/-- fetching the argument again touches the ghost log `late` only -/
theorem lateRead_eq (c : Cfg) (s : State) (k : Nat) : ∃ l, lateRead c s k = { s with late := l } := by
  unfold lateRead
  split
  · exact ⟨_, rfl⟩
  · exact ⟨s.late, rfl⟩

theorem inv1_late (c : Cfg) (s : State) (l : Nat → List (Nat × Option Nat)) (h : Inv1 c s) :
    Inv1 c { s with late := l } := by
  obtain ⟨h1,h2,h3,h4,h5,h6,h7,h8,h9,h10,h11,h12,h13,h14,h15,h16,h17,h18,h19,h20,h21,h22⟩ := h
  exact ⟨h1,h2,h3,h4,h5,h6,h7,h8,h9,h10,h11,h12,h13,h14,h15,h16,h17,h18,h19,h20,h21,h22⟩

theorem inv1_srcRun_inflight (c : Cfg) (s : State) (k : Nat) (h : Inv1 c s) (hk : s.st k = SSt.inflight) :
    Inv1 c (srcRun c s k) := by
  obtain ⟨h1,h2,h3,h4,h5,h6,h7,h8,h9,h10,h11,h12,h13,h14,h15,h16,h17,h18,h19,h20,h21,h22⟩ := h
  have hq := nWith_upd active s.st k SSt.queued c.n
  have hi := nWith_upd active s.st k SSt.inflight c.n
  unfold srcRun push
  split <;> inv1_close

theorem inv1_resolve (c : Cfg) (s : State) (k : Nat) (h : Inv1 c s) : Inv1 c (stepResolve c s k) := by
  unfold stepResolve
  split
  · obtain ⟨l, hl⟩ := lateRead_eq c s k
    rw [hl]
    exact inv1_srcRun_inflight c _ k (inv1_late c s l h) ‹_›
  · exact h


theorem count_cons' (l : List Nat) (k j : Nat) : (k :: l).count j = l.count j + (if k = j then 1 else 0) := by
  simp [List.count_cons]

theorem inv1_popHandle (c : Cfg) (s : State) (h : Inv1 c s) (hag : s.ag = Ag.loop ∨ s.ag = Ag.woken) :
    Inv1 c (popHandle s) := by
  obtain ⟨h1,h2,h3,h4,h5,h6,h7,h8,h9,h10,h11,h12,h13,h14,h15,h16,h17,h18,h19,h20,h21,h22⟩ := h
  unfold popHandle
  split
  · inv1_close
  · rename_i k r hq
    have hf := nWith_upd active s.st k SSt.fin c.n
    have hcu := nWith_upd active s.st k SSt.cur c.n
    have hk := h2 k
    rw [hq] at h2 hk
    simp only [count_cons'] at h2 hk
    split <;> inv1_close


/-- the argument bookkeeping (`got`, `cell`, `aggArg`) is not part of the control structure -/
theorem inv1_args (c : Cfg) (s : State) (g : Nat → List Nat) (ce : Nat → Option Nat) (x : Option Nat) (h : Inv1 c s) :
    Inv1 c { s with got := g, cell := ce, aggArg := x } := by
  obtain ⟨h1,h2,h3,h4,h5,h6,h7,h8,h9,h10,h11,h12,h13,h14,h15,h16,h17,h18,h19,h20,h21,h22⟩ := h
  exact ⟨h1,h2,h3,h4,h5,h6,h7,h8,h9,h10,h11,h12,h13,h14,h15,h16,h17,h18,h19,h20,h21,h22⟩

theorem inv1_srcRun_charging (c : Cfg) (s : State) (k b : Nat) (h : Inv1 c s) (hk : k < c.n)
    (hb : s.ag = Ag.charging k b) : Inv1 c { srcRun c s k with ag := Ag.charging (k + 1) b } := by
  obtain ⟨h1,h2,h3,h4,h5,h6,h7,h8,h9,h10,h11,h12,h13,h14,h15,h16,h17,h18,h19,h20,h21,h22⟩ := h
  have hq := nWith_upd active s.st k SSt.queued c.n
  have hi := nWith_upd active s.st k SSt.inflight c.n
  have := h12 k b hb k (Nat.le_refl k)
  unfold srcRun push
  dsimp only
  split <;> inv1_close

theorem inv1_srcRun_recharge (c : Cfg) (s : State) (k b : Nat) (h : Inv1 c s) (hk : k < c.n)
    (hb : s.ag = Ag.recharge k b) : Inv1 c { srcRun c s k with ag := Ag.loop } := by
  obtain ⟨h1,h2,h3,h4,h5,h6,h7,h8,h9,h10,h11,h12,h13,h14,h15,h16,h17,h18,h19,h20,h21,h22⟩ := h
  have hq := nWith_upd active s.st k SSt.queued c.n
  have hi := nWith_upd active s.st k SSt.inflight c.n
  have := h10 k b hb
  unfold srcRun push
  dsimp only
  split <;> inv1_close

theorem inv1_srcRun_charged (c : Cfg) (s : State) (k : Nat) (ag' : Ag) (h : Inv1 c s) (hk : k < c.n)
    (hst : (∃ b, s.ag = Ag.charging k b ∧ ag' = Ag.charging (k + 1) b) ∨ (∃ b, s.ag = Ag.recharge k b ∧ ag' = Ag.loop)) :
    Inv1 c { srcRun c s k with ag := ag' } := by
  rcases hst with ⟨b, hb, rfl⟩ | ⟨b, hb, rfl⟩
  · exact inv1_srcRun_charging c s k b h hk hb
  · exact inv1_srcRun_recharge c s k b h hk hb

theorem inv1_charge (c : Cfg) (s : State) (k a : Nat) (ag' : Ag) (h : Inv1 c s) (hk : k < c.n)
    (hst : (∃ b, s.ag = Ag.charging k b ∧ ag' = Ag.charging (k + 1) b) ∨ (∃ b, s.ag = Ag.recharge k b ∧ ag' = Ag.loop)) :
    Inv1 c { charge c s k a with ag := ag' } :=
  inv1_srcRun_charged c { s with got := upd s.got k (s.got k ++ [a]), cell := upd s.cell k (some a) } k ag'
    (inv1_args c s _ _ s.aggArg h) hk hst

theorem inv1_agg (c : Cfg) (s : State) (h : Inv1 c s) : Inv1 c (aggStep c s) := by
  unfold aggStep
  split
  · rename_i i a hag
    split
    · exact inv1_charge c s i a _ h ‹_› (Or.inl ⟨a, hag, rfl⟩)
    · obtain ⟨h1,h2,h3,h4,h5,h6,h7,h8,h9,h10,h11,h12,h13,h14,h15,h16,h17,h18,h19,h20,h21,h22⟩ := h
      inv1_close
  · rename_i k a hag
    have hk : k < c.n := by
      have := h.recharge_cur k a hag
      have := h.oob k
      grind
    exact inv1_args c _ _ _ none (inv1_charge c s k a _ h hk (Or.inr ⟨a, hag, rfl⟩))
  · rename_i hag
    split
    · obtain ⟨h1,h2,h3,h4,h5,h6,h7,h8,h9,h10,h11,h12,h13,h14,h15,h16,h17,h18,h19,h20,h21,h22⟩ := h
      unfold finish
      split <;> inv1_close
    · split
      · obtain ⟨h1,h2,h3,h4,h5,h6,h7,h8,h9,h10,h11,h12,h13,h14,h15,h16,h17,h18,h19,h20,h21,h22⟩ := h
        inv1_close
      · exact inv1_popHandle c s h (Or.inl hag)
  · rename_i hag
    exact inv1_popHandle c s h (Or.inr hag)
  · rename_i hag
    split
    · split
      · obtain ⟨h1,h2,h3,h4,h5,h6,h7,h8,h9,h10,h11,h12,h13,h14,h15,h16,h17,h18,h19,h20,h21,h22⟩ := h
        inv1_close
      · rename_i k r hq
        obtain ⟨h1,h2,h3,h4,h5,h6,h7,h8,h9,h10,h11,h12,h13,h14,h15,h16,h17,h18,h19,h20,h21,h22⟩ := h
        have hf := nWith_upd active s.st k SSt.dropped c.n
        have hk := h2 k
        rw [hq] at h2 hk
        simp only [count_cons'] at h2 hk
        inv1_close
    · have hb : inflightList s c.n = [] := by
        apply inflightList_nil
        intro j hj hst
        obtain ⟨h1,h2,h3,h4,h5,h6,h7,h8,h9,h10,h11,h12,h13,h14,h15,h16,h17,h18,h19,h20,h21,h22⟩ := h
        cases hs : s.started with
        | false => have := (h4 hs).1 j; grind
        | true =>
          have hc := h3 hs
          cases hd : s.dcur with
          | none =>
            have := h18 hd (Or.inl hag)
            have := nWith_zero active s.st c.n (by omega) j hj
            grind [active]
          | some k =>
            have hk := h16 k hd (Or.inl hag)
            have hkn : k < c.n := by have := h1 k; grind
            have := nWith_two active s.st j k c.n hj hkn (by grind) (by grind [active]) (by grind [active])
            omega
      obtain ⟨h1,h2,h3,h4,h5,h6,h7,h8,h9,h10,h11,h12,h13,h14,h15,h16,h17,h18,h19,h20,h21,h22⟩ := h
      inv1_close
  · exact h


theorem inv1_step (c : Cfg) (s : State) (op : Op) (h : Inv1 c s) : Inv1 c (step c s op) := by
  cases op with
  | next a => exact inv1_next c s a h
  | agg => exact inv1_agg c s h
  | resolve k => exact inv1_resolve c s k h
  | destroy b => exact inv1_destroy c s b h

theorem inv1_init (c : Cfg) : Inv1 c init := by
  constructor <;> simp [init, destructing]

/-! ## part 2: values — what the consumer received from a source, plus the at most one value waiting, is what the
source has yielded -/


def consumed (s : State) (k : Nat) : List Nat := (s.out.filter (fun p => p.1 == k)).map (·.2)

def held (s : State) (k : Nat) : List Nat :=
  match s.st k, s.res k with
  | SSt.queued, SRes.val v => [v]
  | SSt.dropped, SRes.val v => [v]
  | _, _ => []

def yieldsUpTo (f : Nat → Option Act) : Nat → List Nat
  | 0 => []
  | n + 1 => yieldsUpTo f n ++ (match f n with | some (Act.yield v) => [v] | _ => [])

def isEnd : SRes → Bool
  | SRes.done | SRes.exc _ => true
  | _ => false

structure Inv2 (c : Cfg) (s : State) : Prop where
  eqn : ∀ k, consumed s k ++ held s k = yieldsUpTo (c.script k) (s.pc k)
  queued_res : ∀ k, s.st k = SSt.queued → s.res k ≠ SRes.none
  fin_res : ∀ k, s.st k = SSt.fin → isEnd (s.res k) = true
  ended_st : ∀ k, isEnd (s.res k) = true → s.st k = SSt.queued ∨ s.st k = SSt.fin ∨ s.st k = SSt.dropped
  res_done : ∀ k, s.res k = SRes.done → c.script k (s.pc k) = none
  res_exc : ∀ k e, s.res k = SRes.exc e → 0 < s.pc k ∧ c.script k (s.pc k - 1) = some (Act.throw e)

/-- a source is resumed only while it is neither queued nor finished -/
theorem inv2_srcRun (c : Cfg) (s : State) (k : Nat) (h : Inv2 c s)
    (hst : s.st k = SSt.inflight ∨ s.st k = SSt.fresh ∨ s.st k = SSt.cur) : Inv2 c (srcRun c s k) := by
  obtain ⟨e1, e2, e3, e4, e5, e6⟩ := h
  have hk := e1 k
  have hheld : held s k = [] := by unfold held; rcases hst with h | h | h <;> simp [h]
  have hne : isEnd (s.res k) = false := by
    cases hh : isEnd (s.res k) with
    | false => rfl
    | true => have := e4 k hh; grind
  rw [hheld, List.append_nil] at hk
  unfold srcRun push
  split
  all_goals
    rename_i hv
    refine ⟨?_, ?_, ?_, ?_, ?_, ?_⟩
    · intro j
      by_cases hj : j = k
      · subst hj
        simp [consumed, held, yieldsUpTo, hv] at hk ⊢
        first | exact hk | (rcases hst with h | h | h <;> simp [h] <;> exact hk)
      · have := e1 j
        simp [consumed, held, hj] at this ⊢
        exact this
    all_goals grind [upd_apply, isEnd]

theorem consumed_snoc (s : State) (k v j : Nat) (out' : List (Nat × Nat)) (h : out' = s.out ++ [(k, v)]) :
    (((out'.filter (fun p => p.1 == j)).map (·.2)) = consumed s j ++ (if k = j then [v] else [])) := by
  subst h
  by_cases hkj : k = j <;> simp [consumed, List.filter_append, hkj]

theorem inv2_popHandle (c : Cfg) (s : State) (h : Inv2 c s) (h1 : Inv1 c s) : Inv2 c (popHandle s) := by
  obtain ⟨e1, e2, e3, e4, e5, e6⟩ := h
  unfold popHandle
  split
  · exact ⟨e1, e2, e3, e4, e5, e6⟩
  · rename_i k r hq
    have hkq : s.st k = SSt.queued := by
      have := h1.qcount k
      rw [hq] at this
      simp at this
      grind
    have hk := e1 k
    split
    all_goals
      rename_i hres
      refine ⟨?_, ?_, ?_, ?_, ?_, ?_⟩
      · intro j
        by_cases hj : j = k
        · subst hj
          simp [consumed, held, hkq, hres, List.filter_append] at hk ⊢
          first | exact hk | skip
        · have := e1 j
          have hjk : ¬ k = j := fun h => hj h.symm
          simp [consumed, held, hj, hjk, List.filter_append] at this ⊢
          first | exact this | skip
      all_goals grind [upd_apply, isEnd]


theorem inv2_congr (c : Cfg) (s s' : State) (h : Inv2 c s) (ho : s'.out = s.out) (hs : s'.st = s.st)
    (hr : s'.res = s.res) (hp : s'.pc = s.pc) : Inv2 c s' := by
  obtain ⟨e1, e2, e3, e4, e5, e6⟩ := h
  refine ⟨?_, ?_, ?_, ?_, ?_, ?_⟩
  · intro k; have := e1 k; simp only [consumed, held, ho, hs, hr, hp] at this ⊢; exact this
  all_goals (simp only [hs, hr, hp]; assumption)

theorem inv2_step (c : Cfg) (s : State) (op : Op) (h : Inv2 c s) (h1 : Inv1 c s) : Inv2 c (step c s op) := by
  cases op with
  | next a =>
    simp only [step, stepNext]
    split <;> first | exact h | exact inv2_congr c s _ h rfl rfl rfl rfl
  | destroy b =>
    simp only [step, stepDestroy]
    split <;> first | exact h | exact inv2_congr c s _ h rfl rfl rfl rfl
  | resolve k =>
    simp only [step, stepResolve]
    split
    · obtain ⟨l, hl⟩ := lateRead_eq c s k
      rw [hl]
      exact inv2_srcRun c _ k (inv2_congr c s _ h rfl rfl rfl rfl) (Or.inl ‹_›)
    · exact h
  | agg =>
    simp only [step, aggStep]
    split
    · rename_i i a hag
      split
      · refine inv2_congr c (charge c s i a) _ ?_ rfl rfl rfl rfl
        refine inv2_srcRun c _ i (inv2_congr c s _ h rfl rfl rfl rfl) ?_
        exact Or.inr (Or.inl (h1.charging_fresh i a hag i (Nat.le_refl i)))
      · exact inv2_congr c s _ h rfl rfl rfl rfl
    · rename_i k a hag
      refine inv2_congr c (charge c s k a) _ ?_ rfl rfl rfl rfl
      refine inv2_srcRun c _ k (inv2_congr c s _ h rfl rfl rfl rfl) ?_
      exact Or.inr (Or.inr (h1.recharge_cur k a hag))
    · split
      · unfold finish
        split <;> exact inv2_congr c s _ h rfl rfl rfl rfl
      · split
        · exact inv2_congr c s _ h rfl rfl rfl rfl
        · exact inv2_popHandle c s h h1
    · exact inv2_popHandle c s h h1
    · split
      · split
        · exact inv2_congr c s _ h rfl rfl rfl rfl
        · rename_i k r hq
          have hkq : s.st k = SSt.queued := by
            have := h1.qcount k
            rw [hq] at this
            simp at this
            grind
          obtain ⟨e1, e2, e3, e4, e5, e6⟩ := h
          refine ⟨?_, ?_, ?_, ?_, ?_, ?_⟩
          · intro j
            by_cases hj : j = k
            · subst hj
              have := e1 j
              simp [consumed, held, hkq] at this ⊢
              cases hr : s.res j <;> simp [hr] at this ⊢ <;> exact this
            · have := e1 j
              simp [consumed, held, hj] at this ⊢
              exact this
          all_goals grind [upd_apply, isEnd]
      · exact inv2_congr c s _ h rfl rfl rfl rfl
    · exact h


theorem inv2_init (c : Cfg) : Inv2 c init := by
  constructor <;> simp [init, consumed, held, yieldsUpTo, isEnd]

/-! ## part 3: exceptions -/


structure Inv3 (s : State) : Prop where
  exp_last : s.exp = (s.thrown.getLast?).map (·.2)
  thrown_mem : ∀ k e, (k, e) ∈ s.thrown → s.st k = SSt.fin ∧ s.res k = SRes.exc e
  thrown_all : ∀ k e, s.st k = SSt.fin → s.res k = SRes.exc e → (k, e) ∈ s.thrown
  done_exp : s.ag = Ag.done → s.exp = none
  failed_exp : ∀ e, s.ag = Ag.failed e → s.exp = some e

theorem inv3_congr (s s' : State) (h : Inv3 s) (h1 : s'.exp = s.exp) (h2 : s'.thrown = s.thrown) (h3 : s'.st = s.st)
    (h4 : s'.res = s.res) (h5 : s'.ag = s.ag) : Inv3 s' := by
  obtain ⟨e1, e2, e3, e4, e5⟩ := h
  refine ⟨?_, ?_, ?_, ?_, ?_⟩ <;> simp only [h1, h2, h3, h4, h5] <;> assumption

theorem inv3_srcRun (c : Cfg) (s : State) (k : Nat) (h : Inv3 s)
    (hst : s.st k = SSt.inflight ∨ s.st k = SSt.fresh ∨ s.st k = SSt.cur) (ag' : Ag)
    (hag : ag' ≠ Ag.done ∧ ∀ e, ag' ≠ Ag.failed e) : Inv3 { srcRun c s k with ag := ag' } := by
  obtain ⟨e1, e2, e3, e4, e5⟩ := h
  unfold srcRun push
  split <;> (refine ⟨?_, ?_, ?_, ?_, ?_⟩ <;> grind [upd_apply])

theorem inv3_srcRun_inflight (c : Cfg) (s : State) (k : Nat) (h : Inv3 s) (hk : s.st k = SSt.inflight) :
    Inv3 (srcRun c s k) := by
  obtain ⟨e1, e2, e3, e4, e5⟩ := h
  unfold srcRun push
  split <;> (refine ⟨?_, ?_, ?_, ?_, ?_⟩ <;> grind [upd_apply])

theorem inv3_popHandle (c : Cfg) (s : State) (h : Inv3 s) (h1 : Inv1 c s) (hag : s.ag = Ag.loop ∨ s.ag = Ag.woken) :
    Inv3 (popHandle s) := by
  obtain ⟨e1, e2, e3, e4, e5⟩ := h
  unfold popHandle
  split
  · exact ⟨e1, e2, e3, e4, e5⟩
  · rename_i k r hq
    have hkq : s.st k = SSt.queued := by
      have := h1.qcount k
      rw [hq] at this
      simp at this
      grind
    split
    all_goals
      refine ⟨?_, ?_, ?_, ?_, ?_⟩
      all_goals (try simp only [List.getLast?_append, List.mem_append, List.mem_singleton])
      all_goals grind [upd_apply]


theorem inv3_step (c : Cfg) (s : State) (op : Op) (h : Inv3 s) (h1 : Inv1 c s) : Inv3 (step c s op) := by
  cases op with
  | next a =>
    obtain ⟨e1, e2, e3, e4, e5⟩ := h
    simp only [step, stepNext]
    split <;> (refine ⟨?_, ?_, ?_, ?_, ?_⟩ <;> grind)
  | destroy b =>
    obtain ⟨e1, e2, e3, e4, e5⟩ := h
    simp only [step, stepDestroy]
    split <;> (refine ⟨?_, ?_, ?_, ?_, ?_⟩ <;> grind)
  | resolve k =>
    simp only [step, stepResolve]
    split
    · rename_i hk
      obtain ⟨l, hl⟩ := lateRead_eq c s k
      rw [hl]
      exact inv3_srcRun_inflight c _ k (inv3_congr s _ h rfl rfl rfl rfl rfl) hk
    · exact h
  | agg =>
    simp only [step, aggStep]
    split
    · rename_i i a hag
      split
      · have := inv3_srcRun c { s with got := upd s.got i (s.got i ++ [a]), cell := upd s.cell i (some a) } i
          (inv3_congr s _ h rfl rfl rfl rfl rfl)
          (Or.inr (Or.inl (h1.charging_fresh i a hag i (Nat.le_refl i)))) (Ag.charging (i + 1) a) (by simp)
        exact this
      · obtain ⟨e1, e2, e3, e4, e5⟩ := h
        refine ⟨?_, ?_, ?_, ?_, ?_⟩ <;> grind
    · rename_i k a hag
      have := inv3_srcRun c { s with got := upd s.got k (s.got k ++ [a]), cell := upd s.cell k (some a) } k
          (inv3_congr s _ h rfl rfl rfl rfl rfl)
          (Or.inr (Or.inr (h1.recharge_cur k a hag))) Ag.loop (by simp)
      exact inv3_congr _ _ this rfl rfl rfl rfl rfl
    · rename_i hag
      split
      · obtain ⟨e1, e2, e3, e4, e5⟩ := h
        unfold finish
        split <;> (refine ⟨?_, ?_, ?_, ?_, ?_⟩ <;> grind)
      · split
        · obtain ⟨e1, e2, e3, e4, e5⟩ := h
          refine ⟨?_, ?_, ?_, ?_, ?_⟩ <;> grind
        · exact inv3_popHandle c s h h1 (Or.inl hag)
    · rename_i hag
      exact inv3_popHandle c s h h1 (Or.inr hag)
    · split
      · split
        · obtain ⟨e1, e2, e3, e4, e5⟩ := h
          refine ⟨?_, ?_, ?_, ?_, ?_⟩ <;> grind
        · rename_i k r hq
          have hkq : s.st k = SSt.queued := by
            have := h1.qcount k
            rw [hq] at this
            simp at this
            grind
          obtain ⟨e1, e2, e3, e4, e5⟩ := h
          refine ⟨?_, ?_, ?_, ?_, ?_⟩ <;> grind [upd_apply]
      · obtain ⟨e1, e2, e3, e4, e5⟩ := h
        refine ⟨?_, ?_, ?_, ?_, ?_⟩ <;> grind
    · exact h


theorem inv3_init : Inv3 init := by
  constructor <;> simp [init]

/-! ## part 4: argument routing -/


/-- the arguments source `k` must have received: the first access's argument, then the argument of every access
made right after a value of source `k` was returned -/
def routed (calls : List Nat) (out : List (Nat × Nat)) (k : Nat) : List Nat :=
  match calls with
  | [] => []
  | a0 :: rest => a0 :: ((out.zip rest).filter (fun p => p.1.1 == k)).map (·.2)

theorem routed_out_snoc (calls : List Nat) (out : List (Nat × Nat)) (x : Nat × Nat) (k : Nat)
    (h : calls.length = out.length + 1) : routed calls (out ++ [x]) k = routed calls out k := by
  cases calls with
  | nil => rfl
  | cons a0 rest =>
    simp only [routed]
    have hl : out.length = rest.length := by simp at h; omega
    have := List.zip_append (l₁ := out) (l₂ := rest) (r₁ := [x]) (r₂ := []) hl
    simp only [List.append_nil, List.zip_nil_right] at this
    rw [this]

theorem routed_calls_snoc (cs : List Nat) (o : List (Nat × Nat)) (j v a k : Nat)
    (h : cs.length = o.length + 1) :
    routed (cs ++ [a]) (o ++ [(j, v)]) k = routed cs (o ++ [(j, v)]) k ++ (if j = k then [a] else []) := by
  cases cs with
  | nil => simp at h
  | cons a0 rest =>
    simp only [routed, List.cons_append]
    have hl : o.length = rest.length := by simp at h; omega
    have h1 := List.zip_append (l₁ := o) (l₂ := rest) (r₁ := [(j, v)]) (r₂ := [a]) hl
    have h2 := List.zip_append (l₁ := o) (l₂ := rest) (r₁ := [(j, v)]) (r₂ := []) hl
    simp only [List.append_nil, List.zip_nil_right] at h2
    rw [h1, h2]
    by_cases hjk : j = k <;> simp [List.filter_append, hjk]

theorem srcRun_ghost (c : Cfg) (s : State) (k : Nat) :
    (srcRun c s k).got = s.got ∧ (srcRun c s k).calls = s.calls ∧ (srcRun c s k).out = s.out
    ∧ (srcRun c s k).started = s.started := by
  unfold srcRun push
  split <;> simp

theorem srcRun_ag (c : Cfg) (s : State) (k : Nat) :
    (srcRun c s k).ag = s.ag ∨ (s.ag = Ag.parkedPop ∧ (srcRun c s k).ag = Ag.woken)
      ∨ (s.ag = Ag.drainWait ∧ (srcRun c s k).ag = Ag.draining) := by
  unfold srcRun push
  split <;> (cases h : s.ag <;> simp)

structure Inv4 (c : Cfg) (s : State) : Prop where
  init_empty : s.ag = Ag.init → s.calls = [] ∧ s.out = []
  charging : ∀ i a, s.ag = Ag.charging i a →
    s.calls = [a] ∧ s.out = [] ∧ ∀ k, k < c.n → s.got k = if k < i then [a] else []
  recharge : ∀ j a, s.ag = Ag.recharge j a →
    ∃ cs o v, s.calls = cs ++ [a] ∧ s.out = o ++ [(j, v)] ∧ cs.length = o.length + 1
      ∧ ∀ k, k < c.n → s.got k = routed cs s.out k
  settled : (∀ i a, s.ag ≠ Ag.charging i a) → (∀ j a, s.ag ≠ Ag.recharge j a) →
    ∀ k, k < c.n → s.got k = routed s.calls s.out k
  len_wait : s.ag = Ag.loop ∨ s.ag = Ag.parkedPop ∨ s.ag = Ag.woken → s.calls.length = s.out.length + 1
  len_yield : ∀ k, s.ag = Ag.parkedYield k → s.calls.length = s.out.length ∧ ∃ o v, s.out = o ++ [(k, v)]

theorem inv4_congr (c : Cfg) (s s' : State) (h : Inv4 c s) (h1 : s'.ag = s.ag) (h2 : s'.calls = s.calls)
    (h3 : s'.out = s.out) (h4 : s'.got = s.got) : Inv4 c s' := by
  obtain ⟨e1, e2, e3, e4, e5, e6⟩ := h
  refine ⟨?_, ?_, ?_, ?_, ?_, ?_⟩ <;> simp only [h1, h2, h3, h4] <;> assumption

/-- a source completing asynchronously changes none of the routing data; it can only wake the parked aggregator -/
theorem inv4_resolve (c : Cfg) (s : State) (k : Nat) (h : Inv4 c s) : Inv4 c (srcRun c s k) := by
  obtain ⟨e1, e2, e3, e4, e5, e6⟩ := h
  obtain ⟨g1, g2, g3, _⟩ := srcRun_ghost c s k
  rcases srcRun_ag c s k with ha | ⟨hp, ha⟩ | ⟨hp, ha⟩
  · refine ⟨?_, ?_, ?_, ?_, ?_, ?_⟩ <;> simp only [ha, g1, g2, g3] <;> assumption
  · refine ⟨?_, ?_, ?_, ?_, ?_, ?_⟩ <;> simp only [ha, g1, g2, g3]
    · intro h; cases h
    · intro i a h; cases h
    · intro i a h; cases h
    · intro _ _; exact e4 (by simp [hp]) (by simp [hp])
    · intro _; exact e5 (Or.inr (Or.inl hp))
    · intro i h; cases h
  · refine ⟨?_, ?_, ?_, ?_, ?_, ?_⟩ <;> simp only [ha, g1, g2, g3]
    · intro h; cases h
    · intro i a h; cases h
    · intro i a h; cases h
    · intro _ _; exact e4 (by simp [hp]) (by simp [hp])
    · intro h; rcases h with h | h | h <;> cases h
    · intro i h; cases h


theorem inv4_popHandle (c : Cfg) (s : State) (h : Inv4 c s) (hag : s.ag = Ag.loop ∨ s.ag = Ag.woken) :
    Inv4 c (popHandle s) := by
  have hnc : ∀ i a, s.ag ≠ Ag.charging i a := by intro i a h; rcases hag with h' | h' <;> simp [h'] at h
  have hnr : ∀ i a, s.ag ≠ Ag.recharge i a := by intro i a h; rcases hag with h' | h' <;> simp [h'] at h
  have hlen : s.calls.length = s.out.length + 1 := h.len_wait (by rcases hag with h' | h' <;> simp [h'])
  obtain ⟨e1, e2, e3, e4, e5, e6⟩ := h
  unfold popHandle
  split
  · exact ⟨e1, e2, e3, e4, e5, e6⟩
  · rename_i k r hq
    split
    · refine ⟨?_, ?_, ?_, ?_, ?_, ?_⟩ <;> simp
      · exact e4 hnc hnr
      · exact hlen
    · refine ⟨?_, ?_, ?_, ?_, ?_, ?_⟩ <;> simp
      · exact e4 hnc hnr
      · exact hlen
    · rename_i v hv
      refine ⟨?_, ?_, ?_, ?_, ?_, ?_⟩ <;> simp
      · intro j hj
        rw [routed_out_snoc _ _ _ _ hlen]
        exact e4 hnc hnr j hj
      · exact hlen
    · exact ⟨e1, e2, e3, e4, e5, e6⟩

theorem inv4_step (c : Cfg) (s : State) (op : Op) (h : Inv4 c s) (h1 : Inv1 c s) : Inv4 c (step c s op) := by
  cases op with
  | next a =>
    simp only [step, stepNext]
    split
    · rename_i hag
      obtain ⟨e1, e2, e3, e4, e5, e6⟩ := h
      have hs := e4 (by simp [hag]) (by simp [hag])
      obtain ⟨hc, ho⟩ := e1 hag
      refine ⟨?_, ?_, ?_, ?_, ?_, ?_⟩ <;> simp
      · refine ⟨ho, ?_⟩
        intro k hk
        rw [hs k hk, hc]; simp [routed]
    · rename_i k hag
      obtain ⟨e1, e2, e3, e4, e5, e6⟩ := h
      have hs := e4 (by simp [hag]) (by simp [hag])
      obtain ⟨hl, o, v, ho⟩ := e6 k hag
      refine ⟨?_, ?_, ?_, ?_, ?_, ?_⟩ <;> simp
      refine ⟨o, ⟨v, ho⟩, ?_, hs⟩
      rw [hl, ho]; simp
    · exact h
  | destroy b =>
    simp only [step, stepDestroy]
    split
    all_goals first
      | exact h
      | (rename_i hag
         obtain ⟨e1, e2, e3, e4, e5, e6⟩ := h
         have hs := e4 (by simp [hag]) (by simp [hag])
         refine ⟨?_, ?_, ?_, ?_, ?_, ?_⟩ <;> simp
         exact hs)
  | resolve k =>
    simp only [step, stepResolve]
    split
    · obtain ⟨l, hl⟩ := lateRead_eq c s k
      rw [hl]
      exact inv4_resolve c _ k (inv4_congr c s _ h rfl rfl rfl rfl)
    · exact h
  | agg =>
    simp only [step, aggStep]
    split
    · rename_i i a hag
      obtain ⟨e1, e2, e3, e4, e5, e6⟩ := h
      obtain ⟨hc, ho, hg⟩ := e2 i a hag
      split
      · rename_i hi
        obtain ⟨g1, g2, g3, _⟩ := srcRun_ghost c { s with got := upd s.got i (s.got i ++ [a]), cell := upd s.cell i (some a) } i
        refine ⟨?_, ?_, ?_, ?_, ?_, ?_⟩ <;> simp [charge, g1, g2, g3]
        refine ⟨hc, ho, ?_⟩
        intro k hk
        by_cases hki : k = i
        · subst hki; simp [hg k hk]
        · have : (k < i + 1) = (k < i) := by apply propext; constructor <;> intro _ <;> omega
          simp [hki, hg k hk, this]
      · rename_i hi
        have hin := h1.charging_le i a hag
        refine ⟨?_, ?_, ?_, ?_, ?_, ?_⟩ <;> simp
        · intro k hk
          rw [hg k hk, hc, ho]
          have : k < i := by omega
          simp [routed, this]
        · rw [hc, ho]; simp
    · rename_i j a hag
      obtain ⟨e1, e2, e3, e4, e5, e6⟩ := h
      obtain ⟨cs, o, v, hc, ho, hl, hg⟩ := e3 j a hag
      obtain ⟨g1, g2, g3, _⟩ := srcRun_ghost c { s with got := upd s.got j (s.got j ++ [a]), cell := upd s.cell j (some a) } j
      refine ⟨?_, ?_, ?_, ?_, ?_, ?_⟩ <;> simp [charge, g1, g2, g3]
      · intro k hk
        rw [hc, ho, routed_calls_snoc cs o j v a k hl]
        by_cases hkj : k = j
        · subst hkj; simp [hg k hk, ho]
        · have : ¬ j = k := fun h => hkj h.symm
          simp [hkj, this, hg k hk, ho]
      · rw [hc, ho]; simp; omega
    · rename_i hag
      split
      · obtain ⟨e1, e2, e3, e4, e5, e6⟩ := h
        have hs := e4 (by simp [hag]) (by simp [hag])
        unfold finish
        split <;> (refine ⟨?_, ?_, ?_, ?_, ?_, ?_⟩ <;> simp <;> exact hs)
      · split
        · obtain ⟨e1, e2, e3, e4, e5, e6⟩ := h
          have hs := e4 (by simp [hag]) (by simp [hag])
          have hl := e5 (Or.inl hag)
          refine ⟨?_, ?_, ?_, ?_, ?_, ?_⟩ <;> simp
          · exact hs
          · exact hl
        · exact inv4_popHandle c s h (Or.inl hag)
    · rename_i hag
      exact inv4_popHandle c s h (Or.inr hag)
    · rename_i hag
      obtain ⟨e1, e2, e3, e4, e5, e6⟩ := h
      have hs := e4 (by simp [hag]) (by simp [hag])
      split
      · split <;> (refine ⟨?_, ?_, ?_, ?_, ?_, ?_⟩ <;> simp [hag] <;> exact hs)
      · refine ⟨?_, ?_, ?_, ?_, ?_, ?_⟩ <;> simp <;> exact hs
    · exact h


theorem inv4_init (c : Cfg) : Inv4 c init := by
  constructor <;> simp [init, routed]

/-! ## part 5: every delivered value comes from a source; the drain pops distinct sources -/


def isDropped : SSt → Bool
  | SSt.dropped => true
  | _ => false

structure Inv5 (c : Cfg) (s : State) : Prop where
  out_src : ∀ p, p ∈ s.out → p.1 < c.n
  drained_eq : s.drained = nWith isDropped s.st c.n

theorem inv5_congr (c : Cfg) (s s' : State) (h : Inv5 c s) (h1 : s'.out = s.out) (h2 : s'.drained = s.drained)
    (h3 : s'.st = s.st) : Inv5 c s' := by
  obtain ⟨e1, e2⟩ := h
  refine ⟨?_, ?_⟩ <;> simp only [h1, h2, h3] <;> assumption

theorem inv5_srcRun (c : Cfg) (s : State) (k : Nat) (h : Inv5 c s)
    (hst : s.st k = SSt.inflight ∨ s.st k = SSt.fresh ∨ s.st k = SSt.cur) : Inv5 c (srcRun c s k) := by
  obtain ⟨e1, e2⟩ := h
  have hq := nWith_upd isDropped s.st k SSt.queued c.n
  have hi := nWith_upd isDropped s.st k SSt.inflight c.n
  have hd : isDropped (s.st k) = false := by rcases hst with h | h | h <;> simp [h, isDropped]
  rw [hd] at hq hi
  simp [isDropped] at hq hi
  unfold srcRun push
  split <;> (refine ⟨e1, ?_⟩; simp; omega)

theorem head_queued (c : Cfg) (s : State) (h1 : Inv1 c s) (k : Nat) (r : List Nat) (hq : s.q = k :: r) :
    s.st k = SSt.queued ∧ k < c.n := by
  have := h1.qcount k
  rw [hq] at this
  simp at this
  have hk : s.st k = SSt.queued := by grind
  refine ⟨hk, ?_⟩
  have := h1.oob k
  grind

theorem inv5_popHandle (c : Cfg) (s : State) (h : Inv5 c s) (h1 : Inv1 c s) : Inv5 c (popHandle s) := by
  obtain ⟨e1, e2⟩ := h
  unfold popHandle
  split
  · exact ⟨e1, e2⟩
  · rename_i k r hq
    obtain ⟨hk, hkn⟩ := head_queued c s h1 k r hq
    have hf := nWith_upd isDropped s.st k SSt.fin c.n
    have hc := nWith_upd isDropped s.st k SSt.cur c.n
    rw [hk] at hf hc
    simp [isDropped] at hf hc
    split
    · refine ⟨e1, ?_⟩; simp; omega
    · refine ⟨e1, ?_⟩; simp; omega
    · refine ⟨?_, ?_⟩
      · intro p hp
        simp at hp
        rcases hp with h | rfl
        · exact e1 _ h
        · exact hkn
      · simp; omega
    · exact ⟨e1, e2⟩

theorem inv5_step (c : Cfg) (s : State) (op : Op) (h : Inv5 c s) (h1 : Inv1 c s) : Inv5 c (step c s op) := by
  cases op with
  | next a =>
    simp only [step, stepNext]
    split <;> first | exact h | exact inv5_congr c s _ h rfl rfl rfl
  | destroy b =>
    simp only [step, stepDestroy]
    split <;> first | exact h | exact inv5_congr c s _ h rfl rfl rfl
  | resolve k =>
    simp only [step, stepResolve]
    split
    · obtain ⟨l, hl⟩ := lateRead_eq c s k
      rw [hl]
      exact inv5_srcRun c _ k (inv5_congr c s _ h rfl rfl rfl) (Or.inl ‹_›)
    · exact h
  | agg =>
    simp only [step, aggStep]
    split
    · rename_i i a hag
      split
      · refine inv5_congr c (charge c s i a) _ ?_ rfl rfl rfl
        refine inv5_srcRun c _ i (inv5_congr c s _ h rfl rfl rfl) ?_
        exact Or.inr (Or.inl (h1.charging_fresh i a hag i (Nat.le_refl i)))
      · exact inv5_congr c s _ h rfl rfl rfl
    · rename_i k a hag
      refine inv5_congr c (charge c s k a) _ ?_ rfl rfl rfl
      refine inv5_srcRun c _ k (inv5_congr c s _ h rfl rfl rfl) ?_
      exact Or.inr (Or.inr (h1.recharge_cur k a hag))
    · split
      · unfold finish
        split <;> exact inv5_congr c s _ h rfl rfl rfl
      · split
        · exact inv5_congr c s _ h rfl rfl rfl
        · exact inv5_popHandle c s h h1
    · exact inv5_popHandle c s h h1
    · split
      · split
        · exact inv5_congr c s _ h rfl rfl rfl
        · rename_i k r hq
          obtain ⟨hk, hkn⟩ := head_queued c s h1 k r hq
          obtain ⟨e1, e2⟩ := h
          have hd := nWith_upd isDropped s.st k SSt.dropped c.n
          rw [hk] at hd
          simp [isDropped, hkn] at hd
          refine ⟨e1, ?_⟩
          simp
          omega
      · exact inv5_congr c s _ h rfl rfl rfl
    · exact h


theorem inv5_init (c : Cfg) : Inv5 c init := by
  constructor
  · simp [init]
  · have : ∀ n, nWith isDropped (fun _ => SSt.fresh) n = 0 := by
      intro n; induction n with
      | zero => rfl
      | succ n ih => simp [nWith, ih, isDropped]
    simp [init, this]

/-! ## part 6: argument storage — a source reads the argument it was charged with, whenever it reads -/

structure Inv6 (s : State) : Prop where
  /-- the `GenCallback`'s copy is the argument of the last charge -/
  cell_last : ∀ k, s.cell k = (s.got k).getLast?
  /-- a source that has been started has received an argument -/
  charged : ∀ k, s.st k ≠ SSt.fresh → s.got k ≠ []
  /-- every fetch after an await returned the argument received last before it -/
  late_ok : ∀ k p, p ∈ s.late k → ∃ a, p.2 = some a ∧ 0 < p.1 ∧ (s.got k)[p.1 - 1]? = some a

theorem inv6_mono (s s' : State) (h : Inv6 s) (hc : s'.cell = s.cell) (hg : s'.got = s.got) (hl : s'.late = s.late)
    (hst : ∀ k, s'.st k ≠ SSt.fresh → s.st k ≠ SSt.fresh ∨ s.got k ≠ []) : Inv6 s' := by
  obtain ⟨e1, e2, e3⟩ := h
  refine ⟨?_, ?_, ?_⟩
  · intro k; rw [hc, hg]; exact e1 k
  · intro k hk
    rw [hg]
    rcases hst k hk with h | h
    · exact e2 k h
    · exact h
  · intro k p hp; rw [hl] at hp; rw [hg]; exact e3 k p hp

theorem srcRun_args (c : Cfg) (s : State) (k : Nat) :
    (srcRun c s k).cell = s.cell ∧ (srcRun c s k).late = s.late ∧ (srcRun c s k).aggArg = s.aggArg
    ∧ ∀ j, j ≠ k → (srcRun c s k).st j = s.st j := by
  unfold srcRun push
  split <;> (refine ⟨rfl, rfl, rfl, ?_⟩; intro j hj; simp [hj])

/-- a source that runs has been charged before -/
theorem inv6_srcRun (c : Cfg) (s : State) (k : Nat) (h : Inv6 s) (hk : s.got k ≠ []) : Inv6 (srcRun c s k) := by
  obtain ⟨g1, _, _, _⟩ := srcRun_ghost c s k
  obtain ⟨a1, a2, _, a4⟩ := srcRun_args c s k
  refine inv6_mono s _ h a1 g1 a2 ?_
  intro j hj
  by_cases hjk : j = k
  · subst hjk; exact Or.inr hk
  · rw [a4 j hjk] at hj; exact Or.inl hj

/-- `gcb->charge(a)`: the copy is replaced, the source receives `a`; earlier fetches keep pointing at earlier entries -/
theorem inv6_charge (c : Cfg) (s : State) (k a : Nat) (h : Inv6 s) : Inv6 (charge c s k a) := by
  unfold charge
  apply inv6_srcRun
  · obtain ⟨e1, e2, e3⟩ := h
    refine ⟨?_, ?_, ?_⟩
    · intro j
      by_cases hj : j = k
      · subst hj; simp
      · simp [hj]; exact e1 j
    · intro j hj
      by_cases hjk : j = k
      · subst hjk; simp
      · simp [hjk]; exact e2 j hj
    · intro j p hp
      obtain ⟨b, hb, hpos, hget⟩ := e3 j p hp
      refine ⟨b, hb, hpos, ?_⟩
      by_cases hjk : j = k
      · subst hjk
        simp only [upd_same]
        have hlt : p.1 - 1 < (s.got j).length := by
          rcases Nat.lt_or_ge (p.1 - 1) (s.got j).length with h | h
          · exact h
          · rw [List.getElem?_eq_none h] at hget; cases hget
        rw [List.getElem?_append_left hlt]
        exact hget
      · simp [hjk]; exact hget
  · simp

theorem inv6_lateRead (c : Cfg) (s : State) (k : Nat) (h : Inv6 s) (hk : s.st k = SSt.inflight) :
    Inv6 (lateRead c s k) := by
  unfold lateRead
  split
  · obtain ⟨e1, e2, e3⟩ := h
    have hne : s.got k ≠ [] := e2 k (by simp [hk])
    refine ⟨e1, e2, ?_⟩
    intro j p hp
    by_cases hjk : j = k
    · subst hjk
      simp only [upd_same, List.mem_append, List.mem_singleton] at hp
      rcases hp with hp | rfl
      · exact e3 j p hp
      · obtain ⟨a, ha⟩ : ∃ a, (s.got j).getLast? = some a := by
          cases hl : (s.got j).getLast? with
          | none => exact absurd (List.getLast?_eq_none_iff.mp hl) hne
          | some a => exact ⟨a, rfl⟩
        refine ⟨a, ?_, ?_, ?_⟩
        · simp only []; rw [e1 j, ha]
        · exact List.length_pos_iff.mpr hne
        · simp only []; rw [← ha, List.getLast?_eq_getElem?]
    · simp only [upd_other _ _ _ _ hjk] at hp
      exact e3 j p hp
  · exact h

theorem inv6_popHandle (c : Cfg) (s : State) (h : Inv6 s) (h1 : Inv1 c s) : Inv6 (popHandle s) := by
  unfold popHandle
  split
  · exact h
  · rename_i k r hq
    obtain ⟨hk, _⟩ := head_queued c s h1 k r hq
    have key : ∀ x j, upd s.st k x j ≠ SSt.fresh → s.st j ≠ SSt.fresh ∨ s.got j ≠ [] := by
      intro x j hj
      by_cases hjk : j = k
      · subst hjk; left; simp [hk]
      · simp [hjk] at hj; exact Or.inl hj
    split
    · exact inv6_mono s _ h rfl rfl rfl (key _)
    · exact inv6_mono s _ h rfl rfl rfl (key _)
    · exact inv6_mono s _ h rfl rfl rfl (key _)
    · exact h

theorem inv6_same (s s' : State) (h : Inv6 s) (hc : s'.cell = s.cell) (hg : s'.got = s.got) (hl : s'.late = s.late)
    (hst : s'.st = s.st) : Inv6 s' :=
  inv6_mono s s' h hc hg hl (fun k hk => Or.inl (by rw [hst] at hk; exact hk))

theorem inv6_step (c : Cfg) (s : State) (op : Op) (h : Inv6 s) (h1 : Inv1 c s) : Inv6 (step c s op) := by
  cases op with
  | next a =>
    simp only [step, stepNext]
    split <;> first | exact h | exact inv6_same s _ h rfl rfl rfl rfl
  | destroy b =>
    simp only [step, stepDestroy]
    split <;> first | exact h | exact inv6_same s _ h rfl rfl rfl rfl
  | resolve k =>
    simp only [step, stepResolve]
    split
    · rename_i hk
      have h' := inv6_lateRead c s k h hk
      apply inv6_srcRun c _ k h'
      obtain ⟨l, hl⟩ := lateRead_eq c s k
      rw [hl]
      exact h.charged k (by simp [hk])
    · exact h
  | agg =>
    simp only [step, aggStep]
    split
    · split
      · exact inv6_same _ _ (inv6_charge c s _ _ h) rfl rfl rfl rfl
      · exact inv6_same s _ h rfl rfl rfl rfl
    · exact inv6_same _ _ (inv6_charge c s _ _ h) rfl rfl rfl rfl
    · split
      · unfold finish
        split <;> exact inv6_same s _ h rfl rfl rfl rfl
      · split
        · exact inv6_same s _ h rfl rfl rfl rfl
        · exact inv6_popHandle c s h h1
    · exact inv6_popHandle c s h h1
    · split
      · split
        · exact inv6_same s _ h rfl rfl rfl rfl
        · rename_i k r hq
          obtain ⟨hk, _⟩ := head_queued c s h1 k r hq
          refine inv6_mono s _ h rfl rfl rfl ?_
          intro j hj
          by_cases hjk : j = k
          · subst hjk; left; simp [hk]
          · simp [hjk] at hj; exact Or.inl hj
      · exact inv6_same s _ h rfl rfl rfl rfl
    · exact h

theorem inv6_init : Inv6 init := by
  constructor <;> simp [init]

/-! ## all together -/

structure Inv (c : Cfg) (s : State) : Prop where
  ctl : Inv1 c s
  vals : Inv2 c s
  excs : Inv3 s
  args : Inv4 c s
  misc : Inv5 c s
  cells : Inv6 s

theorem inv_init (c : Cfg) : Inv c init := ⟨inv1_init c, inv2_init c, inv3_init, inv4_init c, inv5_init c, inv6_init⟩

theorem inv_step (c : Cfg) (s : State) (op : Op) (h : Inv c s) : Inv c (step c s op) :=
  ⟨inv1_step c s op h.ctl, inv2_step c s op h.vals h.ctl, inv3_step c s op h.excs h.ctl, inv4_step c s op h.args h.ctl,
   inv5_step c s op h.misc h.ctl, inv6_step c s op h.cells h.ctl⟩

theorem inv_run (c : Cfg) (s : State) (ops : List Op) (h : Inv c s) : Inv c (run c s ops) := by
  induction ops generalizing s with
  | nil => exact h
  | cons op ops ih => exact ih (step c s op) (inv_step c s op h)

/-! ## consequences used by the property theorems -/

/-- the aggregate has ended: returned, or rethrew the stored exception -/
def ended (s : State) : Prop := s.ag = Ag.done ∨ ∃ e, s.ag = Ag.failed e

/-- the coroutine of source `k` has run to completion: end of its script, or its last act was a throw -/
def srcEnded (c : Cfg) (s : State) (k : Nat) : Prop :=
  c.script k (s.pc k) = none ∨ (0 < s.pc k ∧ ∃ e, c.script k (s.pc k - 1) = some (Act.throw e))

theorem nWith_exists (p : SSt → Bool) (st : Nat → SSt) (n : Nat) (h : 0 < nWith p st n) :
    ∃ k, k < n ∧ p (st k) = true := by
  induction n with
  | zero => simp [nWith] at h
  | succ n ih =>
    simp only [nWith] at h
    by_cases hp : p (st n) = true
    · exact ⟨n, by omega, hp⟩
    · simp [hp] at h
      obtain ⟨k, hk, hpk⟩ := ih h
      exact ⟨k, by omega, hpk⟩

theorem nWith_none (p : SSt → Bool) (st : Nat → SSt) (n : Nat) (h : ∀ k, k < n → p (st k) = false) :
    nWith p st n = 0 := by
  induction n with
  | zero => rfl
  | succ n ih => simp [nWith, h n (by omega), ih (fun k hk => h k (by omega))]

theorem started_of_ag {c : Cfg} {s : State} (h : Inv1 c s) (h1 : s.ag ≠ Ag.init) (h2 : ¬ destructing s.ag) :
    s.started = true := by
  cases hs : s.started with
  | true => rfl
  | false => rcases (h.unstarted hs).2.2 with h | h <;> contradiction

/-- when the aggregate has ended every source has been examined after it ended -/
theorem ended_all_fin {c : Cfg} {s : State} (h : Inv c s) (he : ended s) (k : Nat) (hk : k < c.n) :
    s.st k = SSt.fin := by
  have hc := h.ctl.ended_cnt he
  have hs : s.started = true := by
    apply started_of_ag h.ctl <;> rcases he with h | ⟨e, h⟩ <;> simp [h, destructing]
  have hz := nWith_zero active s.st c.n (by rw [← h.ctl.cntc hs]; exact hc) k hk
  cases hst : s.st k <;> simp [hst, active] at hz
  · rfl
  · have := h.ctl.dropped_only k hst
    rcases he with h | ⟨e, h⟩ <;> simp [h, destructing] at this

theorem count_out_consumed (out : List (Nat × Nat)) (k v : Nat) :
    out.count (k, v) = (((out.filter (fun p => p.1 == k)).map (·.2))).count v := by
  induction out with
  | nil => rfl
  | cons p out ih =>
    obtain ⟨a, b⟩ := p
    by_cases ha : a = k
    · subst ha
      by_cases hb : b = v
      · subst hb; simp [ih]
      · have : ¬ (a, b) = (a, v) := by simp [hb]
        simp [ih, hb]
    · have : ¬ (a, b) = (k, v) := by simp [ha]
      simp [ih, ha]

theorem popHandle_not_ended (s : State) (h : ¬ ended s) : ¬ ended (popHandle s) := by
  unfold popHandle
  split
  · exact h
  · split <;> first | exact h | (unfold ended; simp)

end Cocls.Agg
