/-
Model of the per-thread executor of cocls ("coroutine mode" scheduling), single thread:
`coro_queue.h` (`resume`, `install_queue_and_call`, `flush_queue`, `swap_coroutine`, `pause`,
`create_suspend_point`, `resume_handle_next`), `suspend_point.h` (`~suspend_point`/`suspend_now`,
`await_suspend`), `async.h` (`start`, `detach`, `co_await async`, `final_awaiter`), and the scheduling side of
`generator.h` (`next_sync` / `next_future` / `next_awt::subscribe` → `resume_in_queue`, `yield_suspend`).

The model is *open*: one step = one act performed by whoever is executing right now (`cur = some c`: the
coroutine `c`; `cur = none`: ordinary, non-coroutine code).  A program of N scripted coroutines induces one
act list, so a theorem over all act lists covers every program, every N and every step count
(adaptive programs included).  What the scheduler does between two acts (return into the flush loop, into the
`suspend_now` loop, into a nested `start()` caller) is deterministic and is part of the step (`settle`).

Control state
* `ready`   – `coro_queue::queue_impl::_queue` (thread-local FIFO of handles)
* `active`  – `coro_queue::instance != nullptr`
* `blocks`  – open `install_queue_and_call(fn)` blocks whose `fn` is being executed by ordinary code;
              each entry is the saved `prev` of that call (there is one thread-local queue object: a nested
              install re-installs the same queue, its trailer flushes it and restores `prev`)
* `base`    – what ordinary code is blocked in while coroutines run: the body/trailer of an
              `install_queue_and_call` (`loop rest prev`: handles of a `suspend_now` still to be resumed one
              by one, then `flush_queue`, then `instance = prev`), or a direct `h.resume()` made by
              `async::start()` from inside an installed block (`callMain`)
* `calls`   – coroutines blocked in a nested `h.resume()` (they called `async::start()` in coroutine mode),
              innermost first
* `st`      – per coroutine status; `waiter d`/`starter d` – who awaits the completion of `d` / who holds
              the future returned by `start()` of `d`

Ghost (never read by the control flow): `enq`/`deq` – every handle pushed to / taken from the front of
`ready`, in order; `made`/`runs` – every time a coroutine is made ready / is resumed.
-/
namespace Cocls.Exec

inductive St where
  | fresh               -- coroutine object not created yet
  | ready               -- its handle sits in `ready` or in a `suspend_now` loop, exactly once
  | running             -- it is `cur`
  | parked              -- suspended on an unresolved future / locked mutex / empty queue; wakeable
  | pparked             -- suspended on an unresolved future through `co_await parallel(f)` (resume.h): its
                        -- awaiter is a resume function that hands the handle to a brand new thread
  | waiting (d : Nat)   -- suspended in `co_await` of coroutine `d` (its async or its future)
  | stacked             -- blocked in a nested `start()` (on the C stack, in `calls`)
  | yielded             -- a generator body (generator.h) suspended in `co_yield` after it handed the value to a synchronous /
                        -- future access: nothing can make it ready, only the next access resumes it (directly)
  | done
  deriving DecidableEq, Repr, Inhabited

/-- what the caller does with the returned `suspend_point` -/
inductive Mode where
  | discard   -- destructor (also when run by stack unwinding) / `clear()` / `coro_queue::resume(h)`
  | await     -- `co_await sp`
  | par       -- `parallel_resume(std::move(sp))` (resume.h): a new thread runs `sp.clear()`
  deriving DecidableEq, Repr, Inhabited

inductive Act where
  /-- make the wakeable among `cs` ready (resolve their promises / release their mutexes / push to their
  queues / `detach()` the fresh ones), collecting the handles in one `suspend_point` in the order of `cs`
  (`rev`: through `coro_queue::create_suspend_point`, which keeps that order since /repo fix 34c6158 — the pinned code
  collected in reverse, `handlesAsIs`), then discard or await it -/
  | wake (cs : List Nat) (m : Mode) (rev : Bool)
  | park                -- `co_await` an unresolved future (await_suspend returns `true`)
  | parkNext            -- same, but await_suspend returns `coro_queue::resume_handle_next()`
  | pause               -- `co_await pause()` / `coro_queue::swap_coroutine`
  /-- `async::start()` / `async::operator()` (`fut = true`: the caller keeps the future) or a coroutine whose
  `initial_suspend` is `coro_queue::initial_awaiter` (`fut = false`): queue installed first when not active,
  then the body runs directly on the caller's stack -/
  | start (d : Nat) (fut : Bool)
  | parkPar             -- `co_await parallel(f)` on an unresolved future
  | wakePar (d : Nat)   -- resolve the future a `pparked` coroutine awaits: `parallel::perform_resume`
  | hop                 -- `co_await pool` (thread_pool::co_awaiter): continue in a pool worker
  | hopCur              -- `co_await thread_pool::current()`: re-enqueue to the pool when running in a worker
  | job                 -- another thread (pool worker / new thread) takes its next job; see `jobs`
  /-- `future::force_wait()` / `force_sync()` on a pending future that another thread resolves: the thread
  blocks (`sync_awaiter`, `flag.wait`) and comes back; whoever called it is still the one executing -/
  | fwait
  /-- synchronous / future access to the generator `d` (generator.h: `bool(gen.next())` → `next_sync`, `gen()` → `next_future`,
  `gen.next().subscribe(a)`): the body — not started yet, or suspended in `co_yield` — is resumed by `resume_in_queue(h)`: a
  direct `h.resume()` on the caller's stack when a queue is installed, `coro_queue::install_queue_and_resume(h)` when the
  caller is ordinary code outside coroutine mode (/repo fix 191263e; the pinned code called `h.resume()` in both cases:
  `mainGnextAsIs`). A no-op for anything else (a busy or finished generator is not accessed, `next()` of a finished one
  answers without resuming). -/
  | gnext (d : Nat)
  /-- the generator body executes `co_yield v` with the internal awaiter as its caller (synchronous / future access):
  `yield_suspend::await_suspend` wakes the blocked consumer (`unblock_sync`: a flag) resp. resolves the future nobody awaits,
  gets an empty suspend point and returns `noop_coroutine()`: control is back in whoever resumed the body. A no-op in a
  coroutine that is not a generator body. -/
  | gyield
  /-- `sp = <make pre ready>; sp << co_await self(); sp << <make post ready>; co_await sp`: the awaited suspend point holds the
  awaiting coroutine's OWN handle (self.h) behind the handles of `pre` and before those of `post`.
  `suspend_point::await_suspend` (coroutine mode) pops the last handle for the symmetric transfer, pushes the remaining ones to
  the ready queue in order, and pushes the awaiting coroutine itself only if its handle was neither the popped one nor among the
  remaining ones (`me_included`): the awaiting coroutine is resumed exactly once — at once when its handle is the last one (the
  transfer goes to itself and it is NOT queued), from the queue otherwise. -/
  | awaitSelf (pre post : List Nat)
  | call (d : Nat)      -- `co_await async`: symmetric transfer into the child
  | join (d : Nat)      -- `co_await` the future returned by an earlier `start d` of the same coroutine
  | fin                 -- `co_return`: `final_awaiter`
  | enter               -- ordinary code: begin of an `install_queue_and_call(fn)` body
  | leave               -- ordinary code: end of that body, by return or by an exception (`trailer::~trailer`
                        -- runs its function unconditionally, also during stack unwinding)
  deriving DecidableEq, Repr, Inhabited

inductive Base where
  | loop (rest : List Nat) (prev : Bool)
  | callMain
  deriving DecidableEq, Repr, Inhabited

structure State where
  st : Nat → St := fun _ => St.fresh
  waiter : Nat → Option Nat := fun _ => none
  starter : Nat → Option Nat := fun _ => none
  ready : List Nat := []
  active : Bool := false
  cur : Option Nat := none
  blocks : List Bool := []
  base : Option Base := none
  calls : List Nat := []
  /-- Work handed to other threads, oldest first: `(handles, pool)`. A pool job / a `parallel` thread runs
  `coro_queue::resume(h)`, a `parallel_resume` thread runs `sp.clear()`: both are ordinary code of a thread that is
  outside every activation, and such a thread carries no executor state (`c05_drain`): the model runs the job
  in the one context, as soon as that context is idle (`Act.job`); the harness schedules the real threads
  exactly like that (one at a time, to completion, while the others are outside every activation). -/
  jobs : List (List Nat × Bool) := []
  /-- the current activation runs in a pool worker (`thread_pool::_current != nullptr`) -/
  worker : Bool := false
  /-- coroutine `d` is a generator body (its first activation was an access, `Act.gnext d`) -/
  gen : Nat → Bool := fun _ => false
  -- ghost
  enq : List Nat := []
  deq : List Nat := []
  made : List Nat := []
  runs : List Nat := []

def init : State := {}

def upd {α : Type} (f : Nat → α) (i : Nat) (v : α) : Nat → α := fun j => if j = i then v else f j

def wakeable : St → Bool
  | St.fresh => true
  | St.parked => true
  | _ => false

/-- the targets are processed one after the other: a wakeable one becomes ready and contributes its handle -/
def collect (st : Nat → St) : List Nat → (Nat → St) × List Nat
  | [] => (st, [])
  | c :: cs =>
      if wakeable (st c) then ((collect (upd st c St.ready) cs).1, c :: (collect (upd st c St.ready) cs).2)
      else collect st cs

def handles (st : Nat → St) (cs : List Nat) (_rev : Bool) : List Nat := (collect st cs).2

/-- as the pinned commit had it (before `/repo` commit 34c6158): `create_suspend_point` took the readied handles off the *back*
of the ready queue -/
def handlesAsIs (st : Nat → St) (cs : List Nat) (rev : Bool) : List Nat :=
  if rev then (collect st cs).2.reverse else (collect st cs).2

def loopIds : Option Base → List Nat
  | some (Base.loop rest _) => rest
  | _ => []

def jobIds (jobs : List (List Nat × Bool)) : List Nat := jobs.flatMap (·.1)

/-- `coro_queue::can_block()`: blocking the thread would starve nobody -/
def canBlock (s : State) : Bool := !s.active || s.ready.isEmpty

def depth (s : State) : Nat := s.blocks.length + (if s.base.isSome then 1 else 0) + s.calls.length

/-- The running chain of coroutines has returned (`await_suspend` returned `true`/`void`/`noop_coroutine`):
control is back in the innermost resumer. -/
def settle (s : State) : State :=
  match s.calls with
  | p :: ps => { s with calls := ps, cur := some p, st := upd s.st p St.running }
  | [] =>
    match s.base with
    | none => { s with cur := none }
    | some Base.callMain => { s with base := none, cur := none }
    | some (Base.loop (h :: rest) prev) =>
        { s with base := some (Base.loop rest prev), cur := some h, st := upd s.st h St.running,
                 runs := s.runs ++ [h] }
    | some (Base.loop [] prev) =>
        match s.ready with
        | x :: q => { s with ready := q, deq := s.deq ++ [x], cur := some x, st := upd s.st x St.running,
                             runs := s.runs ++ [x] }
        | [] => { s with active := prev, base := none, cur := none, worker := false }

/-- `suspend_now` in coroutine mode / `coro_queue::resume` with a queue installed: append, keep running -/
def enqueue (s : State) (cs : List Nat) (rev : Bool) : State :=
  { s with st := (collect s.st cs).1, ready := s.ready ++ handles s.st cs rev,
           enq := s.enq ++ handles s.st cs rev, made := s.made ++ handles s.st cs rev }

/-- `suspend_point::await_suspend` in coroutine mode: last handle by symmetric transfer, the others and the
awaiting coroutine to the tail of the queue -/
def coAwaitSp (s : State) (c : Nat) (cs : List Nat) (rev : Bool) : State :=
  match (handles s.st cs rev).getLast? with
  | none => s
  | some out =>
      { s with st := upd (upd (collect s.st cs).1 c St.ready) out St.running,
               ready := s.ready ++ (handles s.st cs rev).dropLast ++ [c],
               enq := s.enq ++ (handles s.st cs rev).dropLast ++ [c],
               made := s.made ++ handles s.st cs rev ++ [c],
               runs := s.runs ++ [out],
               cur := some out }

/-- `co_await` of a suspend point that holds the awaiting coroutine's own handle between the handles of `pre` and of `post` -/
def coAwaitSelf (s : State) (c : Nat) (pre post : List Nat) : State :=
  match (collect (collect s.st pre).1 post).2.getLast? with
  | none =>
      -- own handle last: symmetric transfer to the awaiting coroutine itself; it is not queued
      { s with st := (collect (collect s.st pre).1 post).1,
               ready := s.ready ++ (collect s.st pre).2,
               enq := s.enq ++ (collect s.st pre).2,
               made := s.made ++ (collect s.st pre).2 ++ [c],
               runs := s.runs ++ [c] }
  | some out =>
      { s with st := upd (upd (collect (collect s.st pre).1 post).1 c St.ready) out St.running,
               ready := s.ready ++ (collect s.st pre).2 ++ [c] ++ (collect (collect s.st pre).1 post).2.dropLast,
               enq := s.enq ++ (collect s.st pre).2 ++ [c] ++ (collect (collect s.st pre).1 post).2.dropLast,
               made := s.made ++ (collect s.st pre).2 ++ [c] ++ (collect (collect s.st pre).1 post).2,
               runs := s.runs ++ [out],
               cur := some out }

def coPark (s : State) (c : Nat) : State :=
  settle { s with st := upd s.st c St.parked }

def coParkNext (s : State) (c : Nat) : State :=
  match s.ready with
  | x :: q => { s with st := upd (upd s.st c St.parked) x St.running, ready := q, deq := s.deq ++ [x],
                       runs := s.runs ++ [x], cur := some x }
  | [] => settle { s with st := upd s.st c St.parked }

/-- `pause::await_suspend`: push self, pop the front (self when the queue was empty) -/
def coPause (s : State) (c : Nat) : State :=
  match s.ready with
  | [] => { s with enq := s.enq ++ [c], deq := s.deq ++ [c], made := s.made ++ [c], runs := s.runs ++ [c] }
  | x :: q => { s with st := upd (upd s.st c St.ready) x St.running, ready := q ++ [c],
                       enq := s.enq ++ [c], deq := s.deq ++ [x], made := s.made ++ [c], runs := s.runs ++ [x],
                       cur := some x }

def coStart (s : State) (c d : Nat) (fut : Bool) : State :=
  if s.st d = St.fresh then
    { s with st := upd (upd s.st c St.stacked) d St.running, calls := c :: s.calls,
             starter := upd s.starter d (if fut then some c else none), cur := some d,
             made := s.made ++ [d], runs := s.runs ++ [d] }
  else s

def coCall (s : State) (c d : Nat) : State :=
  if s.st d = St.fresh then
    { s with st := upd (upd s.st c (St.waiting d)) d St.running, waiter := upd s.waiter d (some c),
             cur := some d, made := s.made ++ [d], runs := s.runs ++ [d] }
  else s

/-- the generator `d` can be accessed: its body has not started yet or is suspended in `co_yield` -/
def resumable (s : State) (d : Nat) : Bool := s.st d == St.fresh || s.st d == St.yielded

/-- a coroutine accesses generator `d` synchronously: a queue is installed (the caller runs in coroutine mode), so
`resume_in_queue` is a plain nested `h.resume()`; the caller is blocked on the C stack until the body yields -/
def coGnext (s : State) (c d : Nat) : State :=
  if resumable s d then
    { s with st := upd (upd s.st c St.stacked) d St.running, calls := c :: s.calls, gen := upd s.gen d true,
             cur := some d, made := s.made ++ [d], runs := s.runs ++ [d] }
  else s

/-- `co_yield` answered to the internal awaiter: back to the resumer -/
def coGyield (s : State) (c : Nat) : State :=
  if s.gen c then settle { s with st := upd s.st c St.yielded } else s

def coJoin (s : State) (c d : Nat) : State :=
  if s.starter d = some c ∧ s.st d ≠ St.done ∧ s.waiter d = none then
    settle { s with st := upd s.st c (St.waiting d), waiter := upd s.waiter d (some c) }
  else s

/-- `final_awaiter::await_suspend`: resolve the bound future, destroy the frame, transfer to the awaiter -/
def coFin (s : State) (c : Nat) : State :=
  match s.waiter c with
  | some p => { s with st := upd (upd s.st c St.done) p St.running, waiter := upd s.waiter c none,
                       cur := some p, made := s.made ++ [p], runs := s.runs ++ [p] }
  | none => settle { s with st := upd s.st c St.done }

/-- `parallel_resume(sp)`: a non-empty suspend point is moved into a new thread, the caller goes on -/
def postJob (s : State) (cs : List Nat) (rev : Bool) : State :=
  if handles s.st cs rev = [] then s
  else { s with st := (collect s.st cs).1, jobs := s.jobs ++ [(handles s.st cs rev, false)],
                made := s.made ++ handles s.st cs rev }

def coParkPar (s : State) (c : Nat) : State :=
  settle { s with st := upd s.st c St.pparked }

/-- `parallel::perform_resume`: the handle goes to a new thread, the resolver gets an empty suspend point -/
def wakePar (s : State) (d : Nat) : State :=
  if s.st d = St.pparked then
    { s with st := upd s.st d St.ready, jobs := s.jobs ++ [([d], false)], made := s.made ++ [d] }
  else s

/-- `thread_pool::co_awaiter::await_suspend`: the handle is enqueued in the pool, control returns to the resumer -/
def coHop (s : State) (c : Nat) : State :=
  settle { s with st := upd s.st c St.ready, jobs := s.jobs ++ [([c], true)], made := s.made ++ [c] }

def coHopCur (s : State) (c : Nat) : State :=
  if s.worker then coHop s c else s

def coStep (s : State) (c : Nat) : Act → State
  | Act.wake cs Mode.discard rev => enqueue s cs rev
  | Act.wake cs Mode.await rev => coAwaitSp s c cs rev
  | Act.wake cs Mode.par rev => postJob s cs rev
  | Act.parkPar => coParkPar s c
  | Act.wakePar d => wakePar s d
  | Act.hop => coHop s c
  | Act.hopCur => coHopCur s c
  | Act.job => s
  | Act.fwait => s
  | Act.park => coPark s c
  | Act.parkNext => coParkNext s c
  | Act.pause => coPause s c
  | Act.start d fut => coStart s c d fut
  | Act.gnext d => coGnext s c d
  | Act.gyield => coGyield s c
  | Act.awaitSelf pre post => coAwaitSelf s c pre post
  | Act.call d => coCall s c d
  | Act.join d => coJoin s c d
  | Act.fin => coFin s c
  | Act.enter => s
  | Act.leave => s

/-- a suspend point dropped by ordinary code: enqueue when a queue is installed, otherwise
`install_queue_and_call([&]{ for (h : sp) h.resume(); })` -/
def mainWake (s : State) (cs : List Nat) (rev : Bool) : State :=
  if s.active then enqueue s cs rev
  else if handles s.st cs rev = [] then s
  else settle { s with st := (collect s.st cs).1, active := true,
                       base := some (Base.loop (handles s.st cs rev) s.active),
                       made := s.made ++ handles s.st cs rev }

def mainStart (s : State) (d : Nat) : State :=
  if s.st d = St.fresh then
    if s.active then
      { s with st := upd s.st d St.running, base := some Base.callMain, cur := some d,
               made := s.made ++ [d], runs := s.runs ++ [d] }
    else
      { s with st := upd s.st d St.running, active := true, base := some (Base.loop [] s.active),
               cur := some d, made := s.made ++ [d], runs := s.runs ++ [d] }
  else s

/-- ordinary code accesses generator `d`: inside an installed block the body is resumed directly (`callMain`, like
`start()` there); outside coroutine mode `resume_in_queue` installs the queue for this activation
(`install_queue_and_resume`): whatever the body makes ready is queued and run — after the body has yielded — by the
trailer, before the access returns -/
def mainGnext (s : State) (d : Nat) : State :=
  if resumable s d then
    if s.active then
      { s with st := upd s.st d St.running, base := some Base.callMain, cur := some d, gen := upd s.gen d true,
               made := s.made ++ [d], runs := s.runs ++ [d] }
    else
      { s with st := upd s.st d St.running, active := true, base := some (Base.loop [] s.active),
               cur := some d, gen := upd s.gen d true, made := s.made ++ [d], runs := s.runs ++ [d] }
  else s

def mainEnter (s : State) : State :=
  { s with blocks := s.active :: s.blocks, active := true }

def mainLeave (s : State) : State :=
  match s.blocks with
  | p :: bs => settle { s with blocks := bs, base := some (Base.loop [] p) }
  | [] => s

/-- A thread that is outside every activation takes the oldest job: `coro_queue::resume(h)` resp. `sp.clear()`
in ordinary code, i.e. `install_queue_and_call([&]{ for (h : job) h.resume(); })`. -/
def mainJob (s : State) : State :=
  if s.active = false ∧ s.blocks = [] then
    match s.jobs with
    | (hs, k) :: js =>
        settle { s with jobs := js, active := true, base := some (Base.loop hs s.active), worker := k }
    | [] => s
  else s

/-- acts of ordinary code (it cannot suspend: the awaiting forms degrade to the discarding ones) -/
def mainStep (s : State) : Act → State
  | Act.wake cs Mode.par rev => postJob s cs rev
  | Act.wake cs Mode.discard rev => mainWake s cs rev
  | Act.wake cs Mode.await rev => mainWake s cs rev
  | Act.wakePar d => wakePar s d
  | Act.job => mainJob s
  | Act.start d _ => mainStart s d
  | Act.gnext d => mainGnext s d
  | Act.enter => mainEnter s
  | Act.leave => mainLeave s
  | _ => s

def step (s : State) (a : Act) : State :=
  match s.cur with
  | some c => coStep s c a
  | none => mainStep s a

def run (s : State) (acts : List Act) : State := acts.foldl step s

/-! ## The unrepaired `parallel::perform_resume` (pinned commit, before `/repo` commit b372584)

The thread created for the awaiting coroutine called `h.resume()` directly: the coroutine ran on a thread with
`coro_queue::instance == nullptr`. Only what is needed to exhibit the consequence is modelled: the job of such a
thread starts the coroutine with no queue installed, and a suspend point dropped by a coroutine that runs without
a queue goes through the `install_queue_and_call` branch of `suspend_now`, i.e. its first handle is resumed at
once, nested in the running coroutine (the other handles are left in `ready`; what happens after the nested
coroutine returns is not modelled). -/

def mainJobAsIs (s : State) : State :=
  if s.active = false ∧ s.blocks = [] then
    match s.jobs with
    | ([h], false) :: js =>
        { s with jobs := js, st := upd s.st h St.running, cur := some h, base := some Base.callMain,
                 runs := s.runs ++ [h] }
    | _ => mainJob s
  else s

def enqueueAsIs (s : State) (c : Nat) (cs : List Nat) (rev : Bool) : State :=
  if s.active then enqueue s cs rev
  else
    match handles s.st cs rev with
    | [] => s
    | h :: rest =>
        { s with st := upd (upd (collect s.st cs).1 c St.stacked) h St.running, calls := c :: s.calls,
                 active := true, ready := s.ready ++ rest, cur := some h,
                 made := s.made ++ handles s.st cs rev, runs := s.runs ++ [h] }

def stepAsIs (s : State) (a : Act) : State :=
  match s.cur, a with
  | some c, Act.wake cs Mode.discard rev => enqueueAsIs s c cs rev
  | none, Act.job => mainJobAsIs s
  | _, _ => step s a

def runAsIs (s : State) (acts : List Act) : State := acts.foldl stepAsIs s

/-! ## The unrepaired `coro_queue::create_suspend_point` (pinned commit, before `/repo` commit 34c6158)

`fn()` made the coroutines ready one after the other — each was pushed to the thread's ready queue in that order — and
`create_suspend_point` then moved them into the returned suspend point from the *back* of the queue
(`ss << queue.back(); pop_back()`): the suspend point held them in reverse (`handlesAsIs`), and dropping it queued them
in reverse.  `made` keeps the order in which they were made ready. -/

/-- a running coroutine drops the suspend point returned by the unrepaired `create_suspend_point` (`rev = true`) -/
def enqueueGatherAsIs (s : State) (cs : List Nat) (rev : Bool) : State :=
  { s with st := (collect s.st cs).1, ready := s.ready ++ handlesAsIs s.st cs rev,
           enq := s.enq ++ handlesAsIs s.st cs rev, made := s.made ++ handles s.st cs rev }

/-- the step function before `/repo` commit 34c6158 ("fix: create_suspend_point returned the readied coroutines in reverse
order"), for the discarded suspend point of a running coroutine; everything else as `step` -/
def stepGatherAsIs (s : State) (a : Act) : State :=
  match s.cur, a with
  | some _, Act.wake cs Mode.discard rev => enqueueGatherAsIs s cs rev
  | _, _ => step s a

def runGatherAsIs (s : State) (acts : List Act) : State := acts.foldl stepGatherAsIs s

/-! ## The unrepaired generator access (pinned commit, before `/repo` commit 191263e)

`next_sync()`, `next_future()` and `next_awt::subscribe()` resumed the generator body by a bare `h.resume()`.  Called from
ordinary code outside coroutine mode the body ran with `coro_queue::instance == nullptr`.  As for the unrepaired `parallel`
above, only what is needed to exhibit the consequence is modelled: the body starts with no queue installed, and a suspend
point it drops goes through the `install_queue_and_call` branch of `suspend_now` (`enqueueAsIs`): its first handle is resumed
at once, nested in the running body.  (`co_await pause()` in such a body dereferences the null `instance`: not modelled.) -/

/-- ordinary code accesses generator `d` as the pinned commit had it: `h.resume()`, whether or not a queue is installed -/
def mainGnextAsIs (s : State) (d : Nat) : State :=
  if resumable s d then
    { s with st := upd s.st d St.running, base := some Base.callMain, cur := some d, gen := upd s.gen d true,
             made := s.made ++ [d], runs := s.runs ++ [d] }
  else s

/-- the step function before `/repo` commit 191263e ("fix: synchronous and future access to a generator ran its body without
a coroutine queue"): access from ordinary code by a bare `h.resume()`; a dropped suspend point does what `suspend_now` does
when no queue is installed; everything else as `step` -/
def stepGenAsIs (s : State) (a : Act) : State :=
  match s.cur, a with
  | none, Act.gnext d => mainGnextAsIs s d
  | some c, Act.wake cs Mode.discard rev => enqueueAsIs s c cs rev
  | _, _ => step s a

def runGenAsIs (s : State) (acts : List Act) : State := acts.foldl stepGenAsIs s

end Cocls.Exec
