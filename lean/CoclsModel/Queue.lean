/-
Model of `cocls::queue<T>` and `cocls::queue<void>` (queue.h:138-239, std_queue<void> queue.h:45-55).

One step per lock region.  The promise resolutions that the code performs *after* dropping the lock
(`push` handing the item to the oldest parked promise, queue.h:151-154; `unblock_pop`, queue.h:226-229)
are kept as separate in-flight steps (`Op.deliver k`), so an operation list is an arbitrary interleaving
of the lock regions and out-of-lock resolutions of any number of producer and consumer threads.
`pop` resolves its *own* promise inside the lock region (queue.h:203-209), so that is one step.

Ghost data (never consulted by the control flow): the serial number and the producer label of every
item, the consumer label of every pop, and the logs `pushed`, `served`, `completed`.
-/
namespace Cocls.Q

/-- a queued item: `(serial number of its push, producer label, value)`; only `val` is real -/
structure Item where
  id : Nat
  prod : Nat
  val : Nat
  deriving DecidableEq, Repr, Inhabited

/-- one call of `pop()` = one future: `(serial number, consumer label)`; the label is ghost -/
structure Pop where
  id : Nat
  cons : Nat
  deriving DecidableEq, Repr, Inhabited

/-- outcome of a pop future -/
inductive Out where
  | val (it : Item)     -- `queue<T>`: resolved with an item
  | ok                  -- `queue<void>`: resolved (one count taken)
  | exc (c : Nat)       -- failed by `unblock_pop` with exception code `c`
  | canceled            -- promise destroyed with the queue (`await_canceled_exception`)
  deriving DecidableEq, Repr, Inhabited

/-- a resolution of the future of one pop -/
structure Ev where
  pop : Pop
  out : Out
  deriving DecidableEq, Repr, Inhabited

inductive Op where
  | push (prod : Nat) (v : Nat)
  | pushthrow             -- `push` whose item constructor throws
  | pop (cons : Nat)
  | popthrow (cons : Nat)   -- `pop` while the item's move constructor throws on the hand-over
  | upop (c : Nat)
  | size
  | empty
  | destroy
  | deliver (k : Nat)     -- perform the k-th in-flight (decided, out-of-lock) resolution
  deriving Repr, DecidableEq

inductive Res where
  | push (id : Nat) (woke : Bool)     -- return value of `push`: a parked consumer was taken
  | pop (id : Nat) (o : Option Out)   -- `none`: the future is pending (promise parked)
  | flag (b : Bool)
  | num (n : Nat)
  | unit
  | threw                             -- the exception of the item's constructor left `push`
  | full                              -- the backing store refused the element (`single_item_queue`: std::runtime_error)
  | bad                               -- outside the precondition (queue already destroyed / no such k)
  deriving Repr, DecidableEq

/-! ## `queue<T>` -/

structure State where
  -- configuration (template arguments `Queue` / `CoroQueue`): `none` = `std_queue` (unbounded), `some n` = a backing store
  -- that refuses the (n+1)-th element - `primitives::single_item_queue` is `some 1`: `emplace` throws
  -- std::runtime_error("Single item queue is full") *before* touching anything (queue.h:77-80).  The `Lock` argument
  -- (`std::mutex`, `primitives::no_lock`, the harness's parking lock) has no field: a lock region is a step.
  cap : Option Nat := none      -- capacity of `Queue<T>` (items)
  wcap : Option Nat := none     -- capacity of `CoroQueue<promise<T>>` (parked pops)
  items : List Item := []       -- `_queue`, oldest first
  waiters : List Pop := []      -- `_awaiters` (parked promises), oldest first
  inflight : List Ev := []      -- promise moved out under the lock, resolution not yet performed
  nextPop : Nat := 0
  nextPush : Nat := 0
  alive : Bool := true
  -- ghost
  pushed : List Item := []      -- every item ever pushed, in lock order
  served : List Ev := []        -- every decision about a pop future, in lock order
  completed : List Ev := []     -- resolutions performed so far, in order
  unblocks : List (Pop × Nat) := []   -- successful `unblock_pop(c)` calls: (pop that was failed, c)
  throws : List Pop := []       -- pops failed by a `push` whose item constructor threw
  rethrown : List Item := []    -- items whose hand-over to a pop threw (they stay queued)
  deriving Repr

def init : State := {}

/-- the empty queue of a given configuration -/
def initCfg (cap wcap : Option Nat) : State := { cap := cap, wcap := wcap }

def itemsFull (s : State) : Bool :=
  match s.cap with
  | some n => decide (n ≤ s.items.length)
  | none => false

def waitersFull (s : State) : Bool :=
  match s.wcap with
  | some n => decide (n ≤ s.waiters.length)
  | none => false

/-- `queue::push` lock region (queue.h:148-160) -/
def stepPush (s : State) (p v : Nat) : State × Res :=
  match s.waiters with
  | w :: ws =>
      ({ s with waiters := ws, nextPush := s.nextPush + 1,
                inflight := s.inflight ++ [⟨w, Out.val ⟨s.nextPush, p, v⟩⟩],
                pushed := s.pushed ++ [⟨s.nextPush, p, v⟩],
                served := s.served ++ [⟨w, Out.val ⟨s.nextPush, p, v⟩⟩] }, Res.push s.nextPush true)
  | [] =>
      ({ s with items := s.items ++ [⟨s.nextPush, p, v⟩], nextPush := s.nextPush + 1,
                pushed := s.pushed ++ [⟨s.nextPush, p, v⟩] }, Res.push s.nextPush false)

/-- `queue::push` whose item constructor throws.
No pop waiting (queue.h:157): `_queue.emplace` throws inside the lock region, `std::deque::emplace_back` has no effect
when it throws and the `unique_lock` releases the lock during unwinding - nothing changes.
A pop waiting (queue.h:151-154): the oldest parked promise is moved out under the lock, the lock is dropped, and
`p(args)` constructs the item inside the future: the constructor throws after `promise::set_value` claimed the
promise, which resolves the future *without a value* (future.h:645-653) before the exception leaves `push` - the
waiting pop completes as canceled (`await_canceled_exception`), out of the lock, hence in flight first.
Either way the exception reaches the caller and no item exists (`pushed`, `nextPush` unchanged). -/
def stepPushThrow (s : State) : State × Res :=
  match s.waiters with
  | [] => (s, Res.threw)
  | w :: ws =>
      ({ s with waiters := ws, inflight := s.inflight ++ [⟨w, Out.canceled⟩],
                served := s.served ++ [⟨w, Out.canceled⟩], throws := s.throws ++ [w] }, Res.threw)

/-- `queue::pop` lock region (queue.h:197-212): park the promise, or resolve it with the head -/
def stepPop (s : State) (c : Nat) : State × Res :=
  match s.items with
  | [] => ({ s with waiters := s.waiters ++ [⟨s.nextPop, c⟩], nextPop := s.nextPop + 1 },
           Res.pop s.nextPop none)
  | x :: xs =>
      ({ s with items := xs, nextPop := s.nextPop + 1,
                served := s.served ++ [⟨⟨s.nextPop, c⟩, Out.val x⟩],
                completed := s.completed ++ [⟨⟨s.nextPop, c⟩, Out.val x⟩] },
       Res.pop s.nextPop (some (Out.val x)))

/-! With a bounded backing store the `emplace` of the lock region throws when the store is full: `_queue.emplace` in
`push` (nobody waiting, queue.h:157), `_awaiters.emplace` in `pop` (queue empty, queue.h:201).  The check is the first
thing `emplace` does, the `unique_lock` unlocks during unwinding, the promise of the refused `pop` dies with the
future that was being constructed: nothing changes, the caller sees the exception (`Res.full`), no push/pop serial is used. -/

def stepPushC (s : State) (p v : Nat) : State × Res :=
  if s.waiters.isEmpty && itemsFull s then (s, Res.full) else stepPush s p v

/-- the full-check of `single_item_queue::emplace` comes before the item is constructed -/
def stepPushThrowC (s : State) : State × Res :=
  if s.waiters.isEmpty && itemsFull s then (s, Res.full) else stepPushThrow s

def stepPopC (s : State) (c : Nat) : State × Res :=
  if s.items.isEmpty && waitersFull s then (s, Res.full) else stepPop s c

/-- `queue::pop` while the item's move constructor throws on the hand-over (queue.h:203-209).  Empty queue: nothing is
handed over, an ordinary `pop`.  Otherwise `promise(std::move(_queue.front()))` throws out of the construction of the
future's value: `promise::set_value` resolves the future that is being constructed and rethrows, the exception leaves the
initialiser of `future<T>` and `pop()` itself - the caller gets no future (no pop serial) - *before* `_queue.pop()`
(queue.h:208) is reached, and the `unique_lock` unlocks during unwinding: the item stays at the front of the queue, to be
delivered to the next pop.  Only the ghost log `rethrown` changes. -/
def stepPopThrowC (s : State) (c : Nat) : State × Res :=
  match s.items with
  | [] => stepPopC s c
  | x :: _ => ({ s with rethrown := s.rethrown ++ [x] }, Res.threw)

/-- `queue::unblock_pop` lock region (queue.h:223-230) -/
def stepUpop (s : State) (c : Nat) : State × Res :=
  match s.waiters with
  | [] => (s, Res.flag false)
  | w :: ws => ({ s with waiters := ws, inflight := s.inflight ++ [⟨w, Out.exc c⟩],
                         served := s.served ++ [⟨w, Out.exc c⟩],
                         unblocks := s.unblocks ++ [(w, c)] }, Res.flag true)

/-- destructor: `_awaiters` is destroyed front to back, every parked promise is dropped (resolved
without a value); the queued items die with the queue -/
def stepDestroy (s : State) : State × Res :=
  ({ s with alive := false, waiters := [],
            served := s.served ++ s.waiters.map (fun w => ⟨w, Out.canceled⟩),
            completed := s.completed ++ s.waiters.map (fun w => ⟨w, Out.canceled⟩) }, Res.unit)

def stepDeliver (s : State) (k : Nat) : State × Res :=
  match s.inflight[k]? with
  | none => (s, Res.bad)
  | some e => ({ s with inflight := s.inflight.eraseIdx k, completed := s.completed ++ [e] }, Res.unit)

def stepLive (s : State) (op : Op) : State × Res :=
  match op with
  | Op.push p v => stepPushC s p v
  | Op.pushthrow => stepPushThrowC s
  | Op.pop c => stepPopC s c
  | Op.popthrow c => stepPopThrowC s c
  | Op.upop c => stepUpop s c
  | Op.size => (s, Res.num s.items.length)
  | Op.empty => (s, Res.flag s.items.isEmpty)
  | Op.destroy => stepDestroy s
  | Op.deliver k => stepDeliver s k

/-- precondition of the real code made explicit: no member call after the destructor (`Res.bad`) -/
def step (s : State) (op : Op) : State × Res :=
  match op with
  | Op.deliver k => stepDeliver s k
  | _ => if s.alive then stepLive s op else (s, Res.bad)

def run (s : State) (ops : List Op) : State := ops.foldl (fun s op => (step s op).1) s

end Cocls.Q

/-! ## `queue<void>`: `std_queue<void>` is a counter (`emplace`: `++_sz`; `pop`: `_sz = max(1,_sz)-1`) -/
namespace Cocls.VQ
open Cocls.Q

structure State where
  wcap : Option Nat := none     -- capacity of `CoroQueue<promise<void>>` (`single_item_queue` does not exist for `void` items)
  sz : Nat := 0                 -- `std_queue<void>::_sz`
  waiters : List Pop := []
  inflight : List Ev := []
  nextPop : Nat := 0
  nPush : Nat := 0
  alive : Bool := true
  -- ghost
  served : List Ev := []
  completed : List Ev := []
  unblocks : List (Pop × Nat) := []
  deriving Repr

def init : State := {}

def initCfg (wcap : Option Nat) : State := { wcap := wcap }

def waitersFull (s : State) : Bool :=
  match s.wcap with
  | some n => decide (n ≤ s.waiters.length)
  | none => false

def stepPush (s : State) : State × Res :=
  match s.waiters with
  | w :: ws =>
      ({ s with waiters := ws, nPush := s.nPush + 1,
                inflight := s.inflight ++ [⟨w, Out.ok⟩],
                served := s.served ++ [⟨w, Out.ok⟩] }, Res.push s.nPush true)
  | [] => ({ s with sz := s.sz + 1, nPush := s.nPush + 1 }, Res.push s.nPush false)

/-- mirror of `Q.stepPushThrow` (`void` has no item whose construction could throw; kept so that every operation of
the `queue<T>` model has its image) -/
def stepPushThrow (s : State) : State × Res :=
  match s.waiters with
  | [] => (s, Res.threw)
  | w :: ws =>
      ({ s with waiters := ws, inflight := s.inflight ++ [⟨w, Out.canceled⟩],
                served := s.served ++ [⟨w, Out.canceled⟩] }, Res.threw)

def stepPop (s : State) (c : Nat) : State × Res :=
  if s.sz = 0 then
    ({ s with waiters := s.waiters ++ [⟨s.nextPop, c⟩], nextPop := s.nextPop + 1 }, Res.pop s.nextPop none)
  else
    ({ s with sz := Nat.max 1 s.sz - 1, nextPop := s.nextPop + 1,
              served := s.served ++ [⟨⟨s.nextPop, c⟩, Out.ok⟩],
              completed := s.completed ++ [⟨⟨s.nextPop, c⟩, Out.ok⟩] }, Res.pop s.nextPop (some Out.ok))

def stepPopC (s : State) (c : Nat) : State × Res :=
  if (s.sz == 0) && waitersFull s then (s, Res.full) else stepPop s c

/-- mirror of `Q.stepPopThrowC` (`void` has no item whose hand-over could throw) -/
def stepPopThrowC (s : State) (c : Nat) : State × Res :=
  if s.sz = 0 then stepPopC s c else (s, Res.threw)

def stepUpop (s : State) (c : Nat) : State × Res :=
  match s.waiters with
  | [] => (s, Res.flag false)
  | w :: ws => ({ s with waiters := ws, inflight := s.inflight ++ [⟨w, Out.exc c⟩],
                         served := s.served ++ [⟨w, Out.exc c⟩],
                         unblocks := s.unblocks ++ [(w, c)] }, Res.flag true)

def stepDestroy (s : State) : State × Res :=
  ({ s with alive := false, waiters := [],
            served := s.served ++ s.waiters.map (fun w => ⟨w, Out.canceled⟩),
            completed := s.completed ++ s.waiters.map (fun w => ⟨w, Out.canceled⟩) }, Res.unit)

def stepDeliver (s : State) (k : Nat) : State × Res :=
  match s.inflight[k]? with
  | none => (s, Res.bad)
  | some e => ({ s with inflight := s.inflight.eraseIdx k, completed := s.completed ++ [e] }, Res.unit)

def stepLive (s : State) (op : Op) : State × Res :=
  match op with
  | Op.push _ _ => stepPush s
  | Op.pushthrow => stepPushThrow s
  | Op.pop c => stepPopC s c
  | Op.popthrow c => stepPopThrowC s c
  | Op.upop c => stepUpop s c
  | Op.size => (s, Res.num s.sz)
  | Op.empty => (s, Res.flag (s.sz == 0))
  | Op.destroy => stepDestroy s
  | Op.deliver k => stepDeliver s k

def step (s : State) (op : Op) : State × Res :=
  match op with
  | Op.deliver k => stepDeliver s k
  | _ => if s.alive then stepLive s op else (s, Res.bad)

def run (s : State) (ops : List Op) : State := ops.foldl (fun s op => (step s op).1) s

end Cocls.VQ
