import CoclsModel.StorageSel
import CoclsModel.StorageProofs
/-!
Invariant of the storage-selection machine (`StorageSel.lean`) and its preservation by every step
(helper lemmas for `Props/C19.lean`).
-/
namespace Cocls.StorageSel
open Cocls.Storage (Heap Blk HEv count_filter_ne mem_ids_of_mem_live mem_live_del mem_live_new)

/-- every block number below `next` is live or deleted exactly once, nothing else -/
def HeapOnce (h : Heap) : Prop := ∀ b, h.ids.count b + h.dels.count b = if b < h.next then 1 else 0

theorem HeapOnce.new {h : Heap} (ho : HeapOnce h) (n : Nat) : HeapOnce (h.new n) := by
  intro b
  have h1 := ho b
  have h2 := ho h.next
  simp only [Nat.lt_irrefl, if_false] at h2
  simp only [Heap.ids_new, Heap.new_dels, Heap.new_next, List.count_append, List.count_cons, List.count_nil, beq_iff_eq]
  by_cases hb : b = h.next
  · subst hb; simp; omega
  · have : ¬ h.next = b := fun e => hb e.symm
    simp only [this, if_false]
    split at h1 <;> (repeat (first | omega | split))

theorem HeapOnce.del {h : Heap} (ho : HeapOnce h) {b : Nat} (hb : b ∈ h.ids) : HeapOnce (h.del b) := by
  intro x
  have h1 := ho x
  have hpos : 0 < h.ids.count b := List.count_pos_iff.mpr hb
  simp only [Heap.ids_del, Heap.del_dels, Heap.del_next, List.count_append, List.count_cons, List.count_nil, beq_iff_eq,
    count_filter_ne]
  by_cases hx : x = b
  · subst hx
    simp only [if_true]
    split at h1 <;> (repeat (first | omega | split))
  · have : ¬ b = x := fun e => hx e.symm
    simp only [hx, this, if_false]
    omega

theorem HeapOnce.lt {h : Heap} (ho : HeapOnce h) {b : Nat} (hb : b ∈ h.ids) : b < h.next := by
  have h1 := ho b
  have : 0 < h.ids.count b := List.count_pos_iff.mpr hb
  split at h1 <;> omega

theorem HeapOnce.dels_le_one {h : Heap} (ho : HeapOnce h) (b : Nat) : h.dels.count b ≤ 1 := by
  have h1 := ho b
  split at h1 <;> omega

structure Inv (s : State) : Prop where
  once : HeapOnce s.heap
  ptr_live : ∀ k b, s.ptr k = some b → (b, s.cap k) ∈ s.heap.live
  ptr_inj : ∀ j k b, s.ptr j = some b → s.ptr k = some b → j = k
  ptr_none : ∀ k, s.ptr k = none → s.cap k = 0
  owned : ∀ b, b ∈ s.heap.ids → ∃ k, s.ptr k = some b
  sel : ∀ f ∈ s.frames, select f.args = some f.obj
  home : s.ok = true → ∀ f ∈ s.frames, f.blk = ptrBlk (s.ptr f.obj) ∧ f.sz ≤ s.cap f.obj
  one : s.ok = true → (s.frames.map (·.obj)).Nodup

theorem inv_init : Inv init := by
  refine ⟨?_, ?_, ?_, ?_, ?_, ?_, ?_, ?_⟩ <;> simp [init, HeapOnce, Heap.ids]

/-- `reusable_storage::alloc` on object `k` keeps the memory part of the invariant; the other objects keep their block -/
theorem inv_rsAlloc {s : State} (h : Inv s) (k n : Nat) :
    HeapOnce (rsAlloc s k n).heap ∧
    (∀ j b, (rsAlloc s k n).ptr j = some b → (b, (rsAlloc s k n).cap j) ∈ (rsAlloc s k n).heap.live) ∧
    (∀ i j b, (rsAlloc s k n).ptr i = some b → (rsAlloc s k n).ptr j = some b → i = j) ∧
    (∀ j, (rsAlloc s k n).ptr j = none → (rsAlloc s k n).cap j = 0) ∧
    (∀ b, b ∈ (rsAlloc s k n).heap.ids → ∃ j, (rsAlloc s k n).ptr j = some b) ∧
    (∀ j, j ≠ k → (rsAlloc s k n).ptr j = s.ptr j ∧ (rsAlloc s k n).cap j = s.cap j) ∧
    n ≤ (rsAlloc s k n).cap k ∧ (rsAlloc s k n).frames = s.frames ∧ (rsAlloc s k n).ok = s.ok := by
  unfold rsAlloc
  by_cases hg : n > s.cap k
  · simp only [hg, if_true]
    -- the heap after the optional delete
    have hone : HeapOnce (s.heap.delOpt (s.ptr k)) := by
      cases hp : s.ptr k with
      | none => exact h.once
      | some p => exact h.once.del (mem_ids_of_mem_live (h.ptr_live k p hp))
    have hnext : (s.heap.delOpt (s.ptr k)).next = s.heap.next := by
      cases hp : s.ptr k <;> simp [Heap.delOpt]
    have hkeep : ∀ b m, (b, m) ∈ s.heap.live → s.ptr k ≠ some b → (b, m) ∈ ((s.heap.delOpt (s.ptr k)).new n).live := by
      intro b m hm hne
      apply mem_live_new
      cases hp : s.ptr k with
      | none => simpa [Heap.delOpt] using hm
      | some p =>
        simp only [Heap.delOpt]
        exact mem_live_del hm (fun e => hne (by rw [hp, e]))
    have hsub : ∀ b, b ∈ (s.heap.delOpt (s.ptr k)).ids → b ∈ s.heap.ids ∧ s.ptr k ≠ some b := by
      intro b hb
      cases hp : s.ptr k with
      | none => rw [hp] at hb; exact ⟨hb, by simp⟩
      | some p =>
        rw [hp] at hb
        simp only [Heap.delOpt, Heap.ids_del, List.mem_filter, bne_iff_ne, ne_eq] at hb
        exact ⟨hb.1, fun e => hb.2 (by injection e with e; exact e.symm)⟩
    refine ⟨hone.new n, ?_, ?_, ?_, ?_, ?_, ?_, trivial, trivial⟩
    · intro j b hj
      by_cases hjk : j = k
      · subst hjk
        simp only [if_true] at hj ⊢
        injection hj with hj
        subst hj
        simp only [Heap.new_live, hnext, List.mem_append, List.mem_singleton]
        exact Or.inr trivial
      · simp only [hjk, if_false] at hj ⊢
        exact hkeep b _ (h.ptr_live j b hj) (fun e => hjk (h.ptr_inj j k b hj e))
    · intro i j b hi hj
      have hfresh : ∀ m, s.ptr m = some b → b < s.heap.next := fun m hm =>
        h.once.lt (mem_ids_of_mem_live (h.ptr_live m b hm))
      by_cases hik : i = k <;> by_cases hjk : j = k
      · rw [hik, hjk]
      · simp only [hik, hjk, if_true, if_false] at hi hj
        injection hi with hi
        have := hfresh j hj
        omega
      · simp only [hik, hjk, if_true, if_false] at hi hj
        injection hj with hj
        have := hfresh i hi
        omega
      · simp only [hik, hjk, if_false] at hi hj
        exact h.ptr_inj i j b hi hj
    · intro j hj
      by_cases hjk : j = k
      · simp [hjk] at hj
      · simp only [hjk, if_false] at hj ⊢
        exact h.ptr_none j hj
    · intro b hb
      simp only [Heap.ids_new, List.mem_append, List.mem_singleton, hnext] at hb
      rcases hb with hb | hb
      · obtain ⟨hb1, hb2⟩ := hsub b hb
        obtain ⟨j, hj⟩ := h.owned b hb1
        have hjk : j ≠ k := fun e => hb2 (by rw [← e]; exact hj)
        exact ⟨j, by simp only [hjk, if_false]; exact hj⟩
      · exact ⟨k, by simp [hb]⟩
    · intro j hjk
      simp [hjk]
    · simp
  · simp only [hg, if_false]
    exact ⟨h.once, h.ptr_live, h.ptr_inj, h.ptr_none, h.owned, fun _ _ => ⟨trivial, trivial⟩, by omega, trivial, trivial⟩

theorem inv_coro {s : State} (h : Inv s) (args : List Arg) (sz : Nat) : Inv (stepCoro s args sz).1 := by
  unfold stepCoro
  cases hs : select args with
  | none => exact h
  | some k =>
    obtain ⟨r1, r2, r3, r4, r5, r6, r7, r8, r9⟩ := inv_rsAlloc h k sz
    refine ⟨r1, r2, r3, r4, r5, ?_, ?_, ?_⟩
    · intro f hf
      simp only [List.mem_append, List.mem_singleton] at hf
      rcases hf with hf | hf
      · exact h.sel f hf
      · subst hf; exact hs
    · intro hok f hf
      simp only [Bool.and_eq_true, List.all_eq_true, bne_iff_ne, ne_eq] at hok
      simp only [List.mem_append, List.mem_singleton] at hf
      rcases hf with hf | hf
      · have hne : f.obj ≠ k := hok.2 f hf
        obtain ⟨hb, hsz⟩ := h.home hok.1 f hf
        obtain ⟨e1, e2⟩ := r6 f.obj hne
        show f.blk = ptrBlk ((rsAlloc s k sz).ptr f.obj) ∧ f.sz ≤ (rsAlloc s k sz).cap f.obj
        rw [e1, e2]
        exact ⟨hb, hsz⟩
      · subst hf
        exact ⟨rfl, r7⟩
    · intro hok
      simp only [Bool.and_eq_true, List.all_eq_true, bne_iff_ne, ne_eq] at hok
      simp only [List.map_append, List.map_cons, List.map_nil]
      apply List.nodup_append.mpr
      refine ⟨h.one hok.1, by simp, ?_⟩
      intro a ha b hb
      simp only [List.mem_singleton] at hb
      subst hb
      obtain ⟨f, hf, rfl⟩ := List.mem_map.mp ha
      exact hok.2 f hf

theorem inv_free {s : State} (h : Inv s) (id : Nat) : Inv (stepFree s id).1 := by
  unfold stepFree
  cases hf : s.frames.find? (fun f => f.id == id) with
  | none => exact h
  | some f0 =>
    have hsub : ∀ f, f ∈ s.frames.filter (fun f => f.id != id) → f ∈ s.frames := fun f hf => (List.mem_filter.mp hf).1
    refine ⟨h.once, h.ptr_live, h.ptr_inj, h.ptr_none, h.owned, fun f hf => h.sel f (hsub f hf),
      fun hok f hf => h.home hok f (hsub f hf), ?_⟩
    intro hok
    exact ((h.one hok).sublist (List.Sublist.map _ List.filter_sublist))

theorem inv_destroy {s : State} (h : Inv s) (k : Nat) : Inv (stepDestroy s k).1 := by
  unfold stepDestroy
  have hone : HeapOnce (s.heap.delOpt (s.ptr k)) := by
    cases hp : s.ptr k with
    | none => exact h.once
    | some p => exact h.once.del (mem_ids_of_mem_live (h.ptr_live k p hp))
  refine ⟨hone, ?_, ?_, ?_, ?_, h.sel, ?_, ?_⟩
  · intro j b hj
    by_cases hjk : j = k
    · simp [hjk] at hj
    · simp only [hjk, if_false] at hj ⊢
      have hm := h.ptr_live j b hj
      cases hp : s.ptr k with
      | none => simpa [Heap.delOpt] using hm
      | some p =>
        simp only [Heap.delOpt]
        exact mem_live_del hm (fun e => hjk (h.ptr_inj j k b hj (by rw [hp, e])))
  · intro i j b hi hj
    by_cases hik : i = k
    · simp [hik] at hi
    · by_cases hjk : j = k
      · simp [hjk] at hj
      · simp only [hik, hjk, if_false] at hi hj
        exact h.ptr_inj i j b hi hj
  · intro j hj
    by_cases hjk : j = k
    · simp [hjk]
    · simp only [hjk, if_false] at hj ⊢
      exact h.ptr_none j hj
  · intro b hb
    have hb' : b ∈ s.heap.ids ∧ s.ptr k ≠ some b := by
      cases hp : s.ptr k with
      | none => rw [hp] at hb; exact ⟨hb, by simp⟩
      | some p =>
        rw [hp] at hb
        simp only [Heap.delOpt, Heap.ids_del, List.mem_filter, bne_iff_ne, ne_eq] at hb
        exact ⟨hb.1, fun e => hb.2 (by injection e with e; exact e.symm)⟩
    obtain ⟨j, hj⟩ := h.owned b hb'.1
    have hjk : j ≠ k := fun e => hb'.2 (by rw [← e]; exact hj)
    exact ⟨j, by simp only [hjk, if_false]; exact hj⟩
  · intro hok f hf
    simp only [Bool.and_eq_true, List.all_eq_true, bne_iff_ne, ne_eq] at hok
    have hne : f.obj ≠ k := hok.2 f hf
    simp only [hne, if_false]
    exact h.home hok.1 f hf
  · intro hok
    simp only [Bool.and_eq_true] at hok
    exact h.one hok.1

theorem inv_step {s : State} (h : Inv s) (op : Op) : Inv (step s op).1 := by
  cases op with
  | coro args sz => exact inv_coro h args sz
  | free id => exact inv_free h id
  | destroy k => exact inv_destroy h k

theorem inv_run {s : State} (h : Inv s) (ops : List Op) : Inv (run s ops) := by
  induction ops generalizing s with
  | nil => exact h
  | cons op ops ih => exact ih (inv_step h op)

end Cocls.StorageSel
