/-
Shared vocabulary between the extractor (extract/ -> Generated/*.lean), the happens-before machine (Clock.lean)
and the C03/C20 property files: memory orders, kinds of synchronising operations, extracted site records.
-/
namespace Cocls

inductive Order where
  | relaxed | consume | acquire | release | acq_rel | seq_cst
  deriving DecidableEq, Repr, Inhabited

/-- the operation has (at least) acquire semantics when it reads -/
def Order.isAcq : Order → Bool
  | Order.acquire | Order.acq_rel | Order.seq_cst => true
  | _ => false

/-- the operation has (at least) release semantics when it writes -/
def Order.isRel : Order → Bool
  | Order.release | Order.acq_rel | Order.seq_cst => true
  | _ => false

inductive OpKind where
  | load | store | xchg | cas | rmw | fence | wait | notify
  deriving DecidableEq, Repr, Inhabited

/-- one synchronising operation found in the source -/
structure Site where
  cls : String      -- enclosing class
  fn : String       -- enclosing function
  idx : Nat         -- position among the synchronising operations of that function (source order)
  kind : OpKind
  obj : String      -- the atomic object (member / parameter name) operated on; "" for fences
  succ : Order      -- order (success order for CAS)
  fail : Order      -- failure order for CAS (= succ-derived when a single order is given), else = succ
  inAssert : Bool   -- the operation sits inside an `assert(...)`
  deriving DecidableEq, Repr, Inhabited

/-- one access to a lock-guarded field -/
structure GuardedAccess where
  cls : String
  fn : String
  field : String
  locked : Bool     -- inside a lock_guard / unique_lock region on the object's mutex (or fn is a `*_lk` helper whose callers hold it)
  ctorDtor : Bool   -- in a constructor or destructor
  deriving DecidableEq, Repr, Inhabited

/-- one allocation-capable construct -/
structure AllocSite where
  file : String
  cls : String
  fn : String
  what : String     -- "new", "new[]", "make_shared", "member:std::vector", "local:std::function", ...
  deriving DecidableEq, Repr, Inhabited

/-- plain (non-atomic) access to a designated shared field relative to the atomic ops of a function -/
structure PlainAccess where
  cls : String
  fn : String
  base : String     -- object expression ("" = this): local / parameter / member name
  field : String    -- member name, or "call:<name>" for a designated call
  write : Bool
  pos : Nat         -- position among the rows of this function (source order)
  nOps : Nat        -- number of (non-assert) synchronising operations of the function that precede it lexically
  inAssert : Bool
  deriving DecidableEq, Repr, Inhabited

end Cocls
