import CoclsModel.ChainClock
import CoclsModel.Signal

/-!
Happens-before machine for `cocls::signal<T>` AS A WHOLE (C03; `signal.h`, `awaiter.h:65-107`).

## Who touches what (read off `signal.h` line by line)

Threading contract of the class documentation: the collector is NOT MT-safe ("only one call is allowed at time", the returned
suspend point has to be protected as well: signal.h:91-92, 243); emitters may be awaited / `connect`ed from any thread; while a
resumed listener processes the value "the collector is blocked until the coroutine is suspended" (signal.h:156-160) — the
reference returned by `await_resume` is good until the coroutine's next suspension, on the thread that resumed it.

| plain location | written by | read by | what orders each pair |
|---|---|---|---|
| `state::_cur_val` | collector call (`operator()`, signal.h:98/116/137), `~state` (signal.h:48) | `emitter::await_resume` (signal.h:207) — of a coroutine: when the collector's suspend point is flushed; of a callback: inside `resume_chain_lk` (`Awt::resume`, signal.h:282/290) | PROGRAM ORDER: every reader runs on the collector's thread, inside the call (callback) or at the flush of the returned suspend point (coroutine), which precedes the next call by the documented contract.  The chain orders nothing here and need not.  `~state` on another thread than the last call: the `shared_ptr` control block (acq_rel reference count), not an atomic of `signal.h` |
| `state::_value_storage` | `operator()` by value / rvalue (`emplace`, signal.h:97/115), `~state` (member destruction) | through `_cur_val` only | as `_cur_val` |
| the value `*_cur_val` (`*_value_storage` or the caller's lvalue) | the collector's thread before the exchange | the resumed listener (coroutine body after `await_resume`, `_fn(*v)`) — on the collector's thread, until its next suspension | program order (same thread); a listener that keeps the reference across a suspension is outside the contract |
| node `awaiter::_next` | its owner before publishing (constructor; the failed-CAS write-back of `subscribe`, awaiter.h:69), the walker (`y->_next = nullptr`, awaiter.h:105) | `subscribe` (expected value of the CAS), the walker (`chain->_next`, awaiter.h:104) | owner → walker: subscribe CAS (release) … `resume_chain` exchange (acquire), through the release sequence of the later CASes.  walker → owner's next `subscribe`: program order when the listener re-subscribes on the collector's thread (callback: always; coroutine: `for(;;) co_await em`), otherwise the synchronising hand-over that moved the coroutine to the other thread |
| node handle / resume fn (`_handle_addr`, `_resume_fn`; with them the rest of the awaiter object: `_wk_state`, the callback `_fn`, the coroutine frame) | owner before publishing (`set_handle`, signal.h:195; `set_resume_fn` in `Awt`'s constructor) | the walker (`y->resume()`, awaiter.h:106), the resumed listener | as `_next` |

So the VALUE needs nothing from the chain's memory orders (`signal_value_needs_no_order`: the separate sticky flag `racedV` stays false for
EVERY order table): `sufficient` = subscribe CAS ⊇ release ∧ `resume_chain` exchange ⊇ acquire, both for the NODES.  (The relaxed `chain.load` inside `assert` does not count; the CAS failure order is unconstrained: a failed try only
makes the owner write its own, still private `_next`.)

## The machine

Threads = vector-clock indices.  Thread 0 is the collector's; emitter `x ≥ 1` has a thread `x` of its own for everything it does while
it is NOT running inside the collector's call (first `co_await` / `connect`, re-await after having been elsewhere).  A listener
resumed by the collector runs ON THREAD 0: its accesses are stamped with thread 0's clock — that is the point of the table above.
Every plain location of the table carries FastTrack metadata (`cur`, `val`, `stor`, per node `nxt`, `hnd`); the first unordered access
sets the sticky `raced`, and `racedV` as well when it is an access to `_cur_val`, the value or `_value_storage`.
Per step (one schedule entry `(agent, choice)`; granularity: at most one node's plain code up to and including the next
synchronising operation — finer than `Chain.lean` in the walk, which only adds interleavings):

* emitter `x`, `EPc.idle`: `_wk_state.lock()`; state gone → `done` (`await_suspend` false, `await_resume` throws; `initial_reg` deletes);
  else initialise the node (`_next`, handle / resume fn), read `_next`, CAS try: choice 0 succeeds (→ `sub`), otherwise it fails
  (weak CAS: spuriously or because the head moved; failure order load, write-back into `_next`; → `cas`, holding the strong reference).
  `EPc.cas`: read `_next`, CAS try, as before.
* collector, `CPc.idle`: choice 0: call by value (`emplace`: writes `_value_storage`, the value, `_cur_val`), choice 1: call with an lvalue
  (writes the value — the caller's own assignment before the call — and `_cur_val`); then the exchange; → `walk chain []`.
  choice ≥ 2: `~state` (enabled when no emitter holds a strong reference, see below): `_cur_val = nullptr`, exchange, → `walk chain []`, dead.
* `CPc.walk (y :: l) ret`: `resume_chain_lk` on node `y`: read `_next`, write `_next`, read handle / resume fn.  Coroutine: handle appended to
  the suspend point `ret`.  Callback: `Awt::resume` runs inline: (alive) reads `_cur_val` and the value, calls `fn`; choice 0: re-subscribe CAS
  succeeds, 1: fails (→ `CPc.cas`), ≥ 2: `fn` said false → `delete this` (node written, `done`).  Dead: `delete this`.
* `CPc.walk [] (y :: ret)`: the suspend point is flushed: coroutine `y` resumes on thread 0: (alive) `await_resume` reads `_cur_val`, the body
  reads the value; choice 0 / 1: re-await at once (`set_handle`, read `_next`, CAS try succeeds / fails), 2: the coroutine suspends on
  something else and will come back on its own thread (hand-over, below), ≥ 3: it ends (frame and emitter destroyed: node written).
* `CPc.walk [] []`: the call returns (alive) or `~state` finishes (`_value_storage` destroyed).   `CPc.cas y l ret`: retry of `y`'s CAS on thread 0.

Modelled assumptions (outside `signal.h`):
* HAND-OVER: a coroutine that left the collector's thread continues on thread `x` only after a synchronising transfer (executor queue,
  another awaitable of this library — each one of C03's protocols): thread `x` obtains thread 0's clock as of the moment the coroutine
  suspended, thread 0 starts a new epoch (as `PingPongClock` / `C03b.soloHop`).
* `shared_ptr`: `lock()` and the release of the temporary strong reference are reference-count RMWs; the model takes NO clock from them.
  The temporary reference held during `await_suspend` defers `~state` until the subscribe is complete: `~state` is disabled while
  `locked ≠ 0`.  It is run on thread 0; when the last reference is really dropped elsewhere the control block orders it after thread 0's
  and every reference holder's accesses (assumption on `std::shared_ptr`, not on an atomic of cocls).
* contract: the suspend point of a call is flushed before the next call / before the collector lets go of the state (built in: the
  collector's pc; `Signal.Flushed` is the same contract at the operation level).
* a FAILING CAS try is a load of the latest message with the failure order (as `ChainClock.lean`); all other atomic operations on the
  chain head are RMWs and read the latest message by definition, so there are no stale-read choices in this protocol.

NOT modelled: `hook_up` (single-threaded set-up of a fresh state), two collector calls at a time (excluded by the contract),
`emitter::operator=`, consume, release fences, seq_cst total order (seq_cst = acq_rel: weaker, sound).
-/

namespace Cocls.SignalClock
open Cocls
open Cocls.Clock (VC relVc acqVc tickIf)
open Cocls.ChainClock (FT rdRace wrRace)

/-- the memory orders written at the atomic sites of the signal's chain -/
structure SignalOrders where
  /-- `awaiter::subscribe`: CAS on the chain head, success order -/
  casSucc : Order
  /-- … failure order -/
  casFail : Order
  /-- `awaiter::resume_chain`: exchange on the chain head -/
  xchg : Order
  deriving DecidableEq, Repr, Inhabited

/-- what is REALLY needed: the subscribe CAS releases, the `resume_chain` exchange acquires (for the nodes); nothing for the value,
nothing of the failure order -/
def SignalOrders.sufficient (o : SignalOrders) : Bool := o.casSucc.isRel && o.xchg.isAcq

/-! ### the sequentially consistent base system (what is left when the clocks are erased) -/

inductive EPc where
  | idle    -- not awaiting: before the first `co_await` / `connect`, or busy elsewhere after a value
  | cas     -- inside `subscribe` after a failed try, on its own thread, holding the `lock()`ed strong reference
  | sub     -- subscribed: in the chain, or detached and held by the walker / the suspend point
  | done
  deriving DecidableEq, Repr, Inhabited

inductive CPc where
  | idle
  | walk (l ret : List Nat)
  | cas (y : Nat) (l ret : List Nat)
  | dead
  deriving DecidableEq, Repr, Inhabited

/-- flavour of every emitter: `true` = `connect`ed callback, `false` = coroutine -/
structure Cfg where
  cb : Nat → Bool

structure Base where
  alive : Bool
  chain : List Nat
  epc : Nat → EPc
  cpc : CPc
  /-- emitters inside `subscribe` with a strong reference -/
  locked : Nat
  /-- ghost: number of collector calls so far -/
  emitted : Nat
  /-- ghost: (listener, number of the call) for every value read -/
  reads : List (Nat × Nat)

def Base.init : Base :=
  { alive := true, chain := [], epc := fun _ => EPc.idle, cpc := CPc.idle, locked := 0, emitted := 0, reads := [] }

/-- the nodes the collector's thread holds: detached chain, suspend point, the node whose CAS it retries -/
def held : CPc → List Nat
  | CPc.walk l ret => l ++ ret
  | CPc.cas y l ret => y :: (l ++ ret)
  | _ => []

def setEpc (b : Base) (x : Nat) (p : EPc) : Base := { b with epc := Clock.upd b.epc x p }
/-- successful CAS of node `x` -/
def push (b : Base) (x : Nat) : Base := { b with chain := x :: b.chain, epc := Clock.upd b.epc x EPc.sub }
def setCpc (b : Base) (p : CPc) : Base := { b with cpc := p }
/-- ghost: listener `y` read the value of the current call (only used while the state is alive) -/
def noteRead (b : Base) (y : Nat) : Base := { b with reads := (y, b.emitted) :: b.reads }

def bEmitter (b : Base) (x ch : Nat) : Base :=
  match b.epc x with
  | EPc.idle =>
      if b.alive then
        (if ch = 0 then push b x else { setEpc b x EPc.cas with locked := b.locked + 1 })
      else setEpc b x EPc.done
  | EPc.cas => if ch = 0 then { push b x with locked := b.locked - 1 } else b
  | _ => b

def bCollector (c : Cfg) (b : Base) (ch : Nat) : Base :=
  match b.cpc with
  | CPc.idle =>
      if ch ≤ 1 then { b with chain := [], cpc := CPc.walk b.chain [], emitted := b.emitted + 1 }
      else if b.locked = 0 then { b with chain := [], cpc := CPc.walk b.chain [], alive := false }
      else b
  | CPc.walk (y :: l) ret =>
      if c.cb y then
        (if b.alive then
          (if ch = 0 then setCpc (push (noteRead b y) y) (CPc.walk l ret)
           else if ch = 1 then setCpc (noteRead b y) (CPc.cas y l ret)
           else setCpc (setEpc (noteRead b y) y EPc.done) (CPc.walk l ret))
         else setCpc (setEpc b y EPc.done) (CPc.walk l ret))
      else setCpc b (CPc.walk l (ret ++ [y]))
  | CPc.walk [] (y :: ret) =>
      if b.alive then
        (if ch = 0 then setCpc (push (noteRead b y) y) (CPc.walk [] ret)
         else if ch = 1 then setCpc (noteRead b y) (CPc.cas y [] ret)
         else if ch = 2 then setCpc (setEpc (noteRead b y) y EPc.idle) (CPc.walk [] ret)
         else setCpc (setEpc (noteRead b y) y EPc.done) (CPc.walk [] ret))
      else (if ch = 2 then setCpc (setEpc b y EPc.idle) (CPc.walk [] ret)
            else setCpc (setEpc b y EPc.done) (CPc.walk [] ret))
  | CPc.walk [] [] => setCpc b (if b.alive then CPc.idle else CPc.dead)
  | CPc.cas y l ret => if ch = 0 then setCpc (push b y) (CPc.walk l ret) else b
  | CPc.dead => b

/-- one schedule entry `(agent, choice)`: agent 0 is the collector, every other id an emitter -/
def bstep (c : Cfg) (b : Base) (e : Nat × Nat) : Base :=
  if e.1 = 0 then bCollector c b e.2 else bEmitter b e.1 e.2

def brun (c : Cfg) (sched : List (Nat × Nat)) : Base := sched.foldl (bstep c) Base.init

/-! ### state of the machine -/

structure St where
  base : Base
  clk : Nat → VC
  /-- release-sequence clock of the latest message of `state::_chain` -/
  chainRs : VC
  /-- `_cur_val` -/
  cur : FT
  /-- the object `_cur_val` points to -/
  val : FT
  /-- `_value_storage` -/
  stor : FT
  /-- per node: `_next` -/
  nxt : Nat → FT
  /-- per node: `_handle_addr` / `_resume_fn` (and the rest of the awaiter object) -/
  hnd : Nat → FT
  raced : Bool
  /-- sticky like `raced`, but set only by an unordered access to `_cur_val`, the value or `_value_storage` -/
  racedV : Bool

def init : St :=
  { base := Base.init, clk := VC.init, chainRs := VC.bot, cur := FT.init, val := FT.init, stor := FT.init,
    nxt := fun _ => FT.init, hnd := fun _ => FT.init, raced := false, racedV := false }

def setBase (s : St) (b : Base) : St := { s with base := b }

/-! ### atomic operations on the chain head (happens-before effect) -/

/-- successful subscribe CAS by thread `t` -/
def hbCasOk (o : SignalOrders) (s : St) (t : Nat) : St :=
  { s with
    clk := Clock.upd s.clk t (tickIf o.casSucc (acqVc o.casSucc (s.clk t) s.chainRs) t)
    chainRs := VC.join (relVc o.casSucc (acqVc o.casSucc (s.clk t) s.chainRs)) s.chainRs }

/-- failing CAS try: a load with the failure order -/
def hbCasFail (o : SignalOrders) (s : St) (t : Nat) : St :=
  { s with clk := Clock.upd s.clk t (acqVc o.casFail (s.clk t) s.chainRs) }

/-- `resume_chain`: exchange by thread `t` -/
def hbXchg (o : SignalOrders) (s : St) (t : Nat) : St :=
  { s with
    clk := Clock.upd s.clk t (tickIf o.xchg (acqVc o.xchg (s.clk t) s.chainRs) t)
    chainRs := VC.join (relVc o.xchg (acqVc o.xchg (s.clk t) s.chainRs)) s.chainRs }

/-- synchronising hand-over of a suspended coroutine from thread `t` to thread `y` (modelled assumption) -/
def hbHand (s : St) (t y : Nat) : St :=
  { s with clk := Clock.upd (Clock.upd s.clk y (VC.join (s.clk y) (s.clk t))) t (VC.tick (s.clk t) t) }

/-! ### plain accesses -/

def hbNxtRead (s : St) (t y : Nat) : St :=
  { s with nxt := Clock.upd s.nxt y ((s.nxt y).read t (s.clk t)), raced := s.raced || rdRace (s.nxt y) (s.clk t) }
def hbNxtWrite (s : St) (t y : Nat) : St :=
  { s with nxt := Clock.upd s.nxt y ((s.nxt y).write t (s.clk t)), raced := s.raced || wrRace (s.nxt y) (s.clk t) }
def hbHndRead (s : St) (t y : Nat) : St :=
  { s with hnd := Clock.upd s.hnd y ((s.hnd y).read t (s.clk t)), raced := s.raced || rdRace (s.hnd y) (s.clk t) }
def hbHndWrite (s : St) (t y : Nat) : St :=
  { s with hnd := Clock.upd s.hnd y ((s.hnd y).write t (s.clk t)), raced := s.raced || wrRace (s.hnd y) (s.clk t) }

def hbCurRead (s : St) (t : Nat) : St :=
  { s with cur := s.cur.read t (s.clk t), raced := s.raced || rdRace s.cur (s.clk t),
           racedV := s.racedV || rdRace s.cur (s.clk t) }
def hbCurWrite (s : St) (t : Nat) : St :=
  { s with cur := s.cur.write t (s.clk t), raced := s.raced || wrRace s.cur (s.clk t),
           racedV := s.racedV || wrRace s.cur (s.clk t) }
def hbValRead (s : St) (t : Nat) : St :=
  { s with val := s.val.read t (s.clk t), raced := s.raced || rdRace s.val (s.clk t),
           racedV := s.racedV || rdRace s.val (s.clk t) }
def hbValWrite (s : St) (t : Nat) : St :=
  { s with val := s.val.write t (s.clk t), raced := s.raced || wrRace s.val (s.clk t),
           racedV := s.racedV || wrRace s.val (s.clk t) }
def hbStorWrite (s : St) (t : Nat) : St :=
  { s with stor := s.stor.write t (s.clk t), raced := s.raced || wrRace s.stor (s.clk t),
           racedV := s.racedV || wrRace s.stor (s.clk t) }

/-! ### composite pieces -/

/-- one try of the CAS loop of `subscribe` for node `y` on thread `t`: read the expected value, then success, or failure + write-back -/
def hbTry (o : SignalOrders) (s : St) (t y ch : Nat) : St :=
  if ch = 0 then hbCasOk o (hbNxtRead s t y) t else hbNxtWrite (hbCasFail o (hbNxtRead s t y) t) t y

/-- the owner sets its node up (constructor / `set_handle` / `set_resume_fn`) -/
def hbNodeInit (s : St) (t y : Nat) : St := hbHndWrite (hbNxtWrite s t y) t y

/-- `resume_chain_lk` on node `y`: `chain = chain->_next; y->_next = nullptr; y->resume()` -/
def hbWalkNode (s : St) (t y : Nat) : St := hbHndRead (hbNxtWrite (hbNxtRead s t y) t y) t y

/-- `await_resume` + use of the value, while the state is alive; with the state gone `lock()` fails and nothing is read -/
def hbResume (s : St) (t : Nat) : St := if s.base.alive then hbValRead (hbCurRead s t) t else s

def hEmitter (o : SignalOrders) (s : St) (x ch : Nat) : St :=
  match s.base.epc x with
  | EPc.idle => if s.base.alive then hbTry o (hbNodeInit s x x) x x ch else s
  | EPc.cas => hbTry o s x x ch
  | _ => s

def hCollector (o : SignalOrders) (c : Cfg) (s : St) (ch : Nat) : St :=
  match s.base.cpc with
  | CPc.idle =>
      if ch = 0 then hbXchg o (hbCurWrite (hbValWrite (hbStorWrite s 0) 0) 0) 0
      else if ch = 1 then hbXchg o (hbCurWrite (hbValWrite s 0) 0) 0
      else if s.base.locked = 0 then hbXchg o (hbCurWrite s 0) 0
      else s
  | CPc.walk (y :: _) _ =>
      if c.cb y then
        (if s.base.alive then
          (if ch ≤ 1 then hbTry o (hbResume (hbWalkNode s 0 y) 0) 0 y ch
           else hbNodeInit (hbResume (hbWalkNode s 0 y) 0) 0 y)
         else hbNodeInit (hbWalkNode s 0 y) 0 y)
      else hbWalkNode s 0 y
  | CPc.walk [] (y :: _) =>
      if s.base.alive then
        (if ch ≤ 1 then hbTry o (hbHndWrite (hbResume s 0) 0 y) 0 y ch
         else if ch = 2 then hbHand (hbResume s 0) 0 y
         else hbNodeInit (hbResume s 0) 0 y)
      else (if ch = 2 then hbHand s 0 y else hbNodeInit s 0 y)
  | CPc.walk [] [] => if s.base.alive then s else hbStorWrite s 0
  | CPc.cas y _ _ => hbTry o s 0 y ch
  | CPc.dead => s

/-- happens-before effect of one schedule entry; never touches `base` -/
def hstep (o : SignalOrders) (c : Cfg) (s : St) (e : Nat × Nat) : St :=
  if e.1 = 0 then hCollector o c s e.2 else hEmitter o s e.1 e.2

/-- one schedule entry: the happens-before effect, then the base transition -/
def step (o : SignalOrders) (c : Cfg) (s : St) (e : Nat × Nat) : St :=
  setBase (hstep o c s e) (bstep c s.base e)

def run (o : SignalOrders) (c : Cfg) (sched : List (Nat × Nat)) : St := sched.foldl (step o c) init

/-! ### relation to `Signal.Pub` (the micro-model of `awaiter::subscribe` in `Signal.lean`)

`Signal.Pub` has two kinds of events for the repaired code: `cas l` (the publishing CAS of listener `l`) and `release` (exchange + walk +
end of every listener as ONE event).  That granularity does not fit a happens-before analysis: the walk, the listeners' continuations on
the collector's thread and their re-subscription are one event there, there are no failed CAS tries, no flavours and no second round.
Hence the base system `bstep` / `brun` above is defined here; `SignalClockProofs.base_run` says that erasing clocks, release-sequence
clock, FastTrack metadata and the two `raced` flags from a run of the machine gives exactly `brun` on the same schedule, and
`SignalClockProofs.base_refines_pub` that the chain component of every `brun` is the chain of a `Signal.Pub` run over `cas` / `release`
events only (every base step leaves the chain alone, pushes one node, or detaches it as a whole).  Projected away by the second bridge:
pcs, the held nodes, `alive`, the ghost counters. -/

end Cocls.SignalClock
