import CoclsModel.ThreadPool
/-!
Invariant of the thread-pool micro-step model and its preservation by every small step
(`inv_init`, `inv_step`, `inv_run`).  The property theorems are in `Props/C11.lean`.
-/
namespace Cocls.Pool

def Pc.isWorker : Pc → Bool
  | Pc.wRelock | Pc.wLoop | Pc.wCvEnter | Pc.wCvCheck | Pc.wCvBlocked | Pc.wRun _ | Pc.wFlush | Pc.wAfterJob | Pc.wExit | Pc.stuck => true
  | _ => false
/-- code of `worker()` itself that touches the pool object -/
def Pc.isLoop : Pc → Bool
  | Pc.wRelock | Pc.wLoop | Pc.wCvEnter | Pc.wCvCheck | Pc.wCvBlocked | Pc.wRun _ | Pc.wExit => true
  | _ => false
/-- program counters of pool B's worker -/
def Pc.isB : Pc → Bool
  | Pc.bLoop | Pc.bCvCheck | Pc.bCvBlocked | Pc.bExitPc => true
  | _ => false
def Pc.inStop : Pc → Bool
  | Pc.stopJoin | Pc.joinBlocked | Pc.stopDrop => true
  | _ => false
/-- pcs a thread can be at while it executes an activity (script, job body, closure destructor) -/
def Pc.inBody : Pc → Bool
  | Pc.idle | Pc.enqCS _ | Pc.afterEnq _ _ | Pc.stopCS _ | Pc.peekCS _ | Pc.peekDone _ _ | Pc.waitFlag _ | Pc.bStopCS _ | Pc.bStopJoin | Pc.bJoinBlocked | Pc.stopJoin | Pc.joinBlocked | Pc.stopDrop => true
  | _ => false
def Pc.bodyPhase : Pc → Bool
  | Pc.idle | Pc.enqCS _ | Pc.afterEnq _ _ | Pc.stopCS _ | Pc.peekCS _ | Pc.peekDone _ _ | Pc.waitFlag _ | Pc.bStopCS _ | Pc.bStopJoin | Pc.bJoinBlocked | Pc.stopJoin | Pc.joinBlocked | Pc.stopDrop | Pc.wFlush => true
  | _ => false

structure Inv (c : Cfg) (s : State) : Prop where
  -- configuration: the repaired worker loop, at least one worker, workers are threads
  wf_out : c.dtorOutside = true
  wf_nw : 0 < c.nw
  wf_nt : c.nw ≤ c.nt
  wf_b : c.hasB = true → c.nw < c.nt
  wf_cur : c.curNullOk = true
  wf_aw : c.awHandleFirst = true
  -- who can be where
  t_out : ∀ t, c.nt ≤ t → s.pc t = Pc.done
  t_worker : ∀ t, (s.pc t).isWorker = true → t < c.nw
  t_ret : ∀ t, s.ret t ≠ Ret.script → t < c.nw
  t_script : ∀ t, s.ret t = Ret.script → c.nw ≤ t
  t_noB : ∀ t, s.ret t ≠ Ret.dtorB
  t_enq : ∀ t j a, s.pc t = Pc.afterEnq j a → j < s.nextJob
  t_enq2 : ∀ t j, s.pc t = Pc.enqCS j → j < s.nextJob
  -- where every closure is
  l_q : ∀ j, j ∈ s.q ↔ s.loc j = Loc.queued
  l_qnd : s.q.Nodup
  l_held : ∀ t j, s.pc t = Pc.wRun j ↔ s.loc j = Loc.held t
  l_rej : ∀ t j, (s.pc t = Pc.afterEnq j false ∨ s.pc t = Pc.enqCS j) ↔ s.loc j = Loc.rejected t
  l_swap : ∀ t j, j ∈ s.dq t ↔ s.loc j = Loc.swapped t
  l_dqnd : ∀ t, (s.dq t).Nodup
  l_dqpc : ∀ t, s.dq t ≠ [] → (s.pc t).inStop = true
  l_fresh : ∀ j, s.loc j = Loc.fresh ↔ s.nextJob ≤ j
  -- exactly once
  c_once : ∀ j, s.ran j + s.dropped j = if s.loc j = Loc.done then 1 else 0
  z_fresh : ∀ j, s.nextJob ≤ j → s.cancelled j = 0 ∧ s.lost j = 0 ∧ s.valued j = 0 ∧ s.armed j = false
                ∧ s.deferOn j = none ∧ s.fut j = Fut.none
  r_on : ∀ j, 0 < s.ran j → ∃ w, w < c.nw ∧ s.ranOn j = some w
  r_job : ∀ t j, s.job t = some j → 0 < s.ran j
  -- cancellation happens only when stopping, and is observed
  x_exit_q : s.exit = true → s.q = []
  x_rej_exit : ∀ t j, s.pc t = Pc.afterEnq j false → s.exit = true
  x_drop_exit : ∀ j, 0 < s.dropped j → s.exit = true
  b_co : ∀ j, dropKind c (s.kind j) = DropAct.resume →
            s.cancelled j + (if s.deferOn j = none then 0 else 1) = s.dropped j
  b_defer : ∀ t j, j ∈ s.defer t ↔ s.deferOn j = some t
  b_defnd : ∀ t, (s.defer t).Nodup
  b_defpc : ∀ t, s.defer t ≠ [] → s.ret t = Ret.body ∧ (s.pc t).bodyPhase = true
  b_defkind : ∀ j, s.deferOn j ≠ none → dropKind c (s.kind j) = DropAct.resume
  b_guard : ∀ j, dropKind c (s.kind j) = DropAct.guard → s.cancelled j = s.dropped j
  b_none : ∀ j, dropKind c (s.kind j) = DropAct.nothing → s.lost j = s.dropped j ∧ s.cancelled j = 0
  b_lost : ∀ j, dropKind c (s.kind j) ≠ DropAct.nothing → s.lost j = 0
  b_fut : ∀ j, dropKind c (s.kind j) = DropAct.breakPromise →
            (s.armed j = true → s.cancelled j = s.dropped j) ∧ (s.armed j = false → s.cancelled j = 0)
  f_own : ∀ t j a, s.pc t = Pc.afterEnq j a → s.owner j = t ∧ s.armed j = false
  f_own2 : ∀ t j, s.pc t = Pc.enqCS j → s.owner j = t ∧ s.armed j = false
  f_arm : ∀ j, hasFut (s.kind j) = true → j < s.nextJob → s.armed j = false →
            s.pc (s.owner j) = Pc.afterEnq j true ∨ s.pc (s.owner j) = Pc.afterEnq j false ∨ s.pc (s.owner j) = Pc.enqCS j
  f_broken : ∀ j, dropKind c (s.kind j) = DropAct.breakPromise → s.dropped j = if s.fut j = Fut.broken then 1 else 0
  f_brk : ∀ j, s.fut j = Fut.broken → dropKind c (s.kind j) = DropAct.breakPromise
  f_some : ∀ j, hasFut (s.kind j) = true → j < s.nextJob → s.fut j ≠ Fut.none
  f_valued : ∀ j, hasFut (s.kind j) = true → s.valued j = if s.armed j = true ∧ s.fut j = Fut.value then 1 else 0
  f_value : ∀ j, hasFut (s.kind j) = true → s.fut j = Fut.value → 0 < s.ran j
  f_pending : ∀ j, hasFut (s.kind j) = true → 0 < s.ran j → s.fut j = Fut.pending →
                ∃ t, s.job t = some j ∧ s.ret t = Ret.body ∧ (s.pc t).inBody = true
  -- condition variable
  s_exit_wq : s.exit = true → s.waitq = []
  s_wqnd : s.waitq.Nodup
  s_wq_pc : ∀ t, t ∈ s.waitq → (s.pc t = Pc.wCvCheck ∨ s.pc t = Pc.wCvBlocked) ∧ s.woken t = false
  s_woken : ∀ t, s.woken t = true → s.pc t = Pc.wCvCheck ∨ s.pc t = Pc.wCvBlocked
  s_cv : ∀ t, (s.pc t = Pc.wCvCheck ∨ s.pc t = Pc.wCvBlocked) → s.woken t = true ∨ t ∈ s.waitq
  n_wake : s.exit = false → s.q ≠ [] → ∃ w, w < c.nw ∧ w ∉ s.waitq
  -- no stranded job: while somebody sleeps un-notified, every queued job is matched by a worker that will look at the queue
  a_nd : s.exit = false → s.awake.Nodup
  a_mem : s.exit = false → ∀ t, t ∈ s.awake ↔ (s.woken t = true ∨ s.pc t = Pc.wLoop ∨ s.pc t = Pc.wRelock)
  a_len : s.exit = false → s.waitq ≠ [] → s.q.length ≤ s.awake.length
  -- the pool mutex: only a worker at its loop head keeps it across a step; nothing changes under its feet
  m_own : ∀ t, s.mx = some t ↔ (s.pc t = Pc.wLoop ∨ s.pc t = Pc.wCvEnter)
  m_enter : ∀ t, s.pc t = Pc.wCvEnter → s.q = [] ∧ s.exit = false
  n_noexit : s.exit = false → ∀ t, (s.pc t).inStop = false ∧ s.pc t ≠ Pc.wExit ∧ (t < c.nw → s.pc t ≠ Pc.done)
                ∧ s.detached t = false
  -- stop(): joins
  s_tmp_pc : ∀ t, s.tmp t ≠ [] → s.pc t = Pc.stopJoin ∨ s.pc t = Pc.joinBlocked
  s_tmp_uniq : ∀ t u, s.tmp t ≠ [] → s.tmp u ≠ [] → t = u
  s_thr_tmp : s.threads ≠ [] → ∀ u, s.tmp u = []
  s_jb_head : ∀ t, s.pc t = Pc.joinBlocked → (s.tmp t).head? ≠ some t
  s_tmp_w : ∀ t u, u ∈ s.tmp t → u < c.nw
  s_nostuck : ∀ t, s.pc t ≠ Pc.stuck
  j_all : s.exit = true → ∀ w, w < c.nw → s.pc w = Pc.done ∨ s.detached w = true ∨ ∃ t, w ∈ s.tmp t
  j_thr : s.exit = false → ∀ w, w < c.nw → w ∈ s.threads
  j_thr0 : s.exit = true → s.threads = []
  j_thrw : ∀ u, u ∈ s.threads → u < c.nw
  -- pool B: its worker is thread `nw`; once B is stopped its worker is (being) woken
  bb_pc : ∀ t, (s.pc t).isB = true → c.hasB = true ∧ t = c.nw
  bb_bw : s.bw = c.nw
  bb_exit : s.bExit = true → s.bWoken = true
  bb_stop : ∀ t, (s.pc t = Pc.bStopJoin ∨ s.pc t = Pc.bJoinBlocked) → s.bExit = true
  bb_w : c.hasB = true → (s.pc c.nw).isB = true ∨ s.pc c.nw = Pc.done
  bb_tmp : ∀ t, s.btmp t = true → c.hasB = true
  bb_ht : s.bHasThread = true → c.hasB = true
  bb_jb : ∀ t, s.pc t = Pc.bJoinBlocked → s.btmp t = true
  -- `co_await pool(awaitable)`: once a resolution can wake the awaiter, it finds the coroutine handle
  a_handle : ∀ n, s.slotReg n = true → s.slotHandle n = true
  -- a worker that detached itself
  z_det : ∀ t, s.detached t = true → s.cur t = false ∧ (s.pc t).isLoop = false
  z_cur : ∀ t, t < c.nw → s.cur t = false → s.detached t = true
  z_touch : s.touchedAfterDetach = false
  d_exit : s.destroyed = true → s.exit = true

theorem dropKind_bp_hasFut {c : Cfg} {k : Kind} (h : dropKind c k = DropAct.breakPromise) : hasFut k = true := by
  cases k <;> simp_all [dropKind, hasFut]

theorem notifyOne_cases (s : State) (k : Nat) :
    (s.waitq = [] ∧ notifyOne s k = s) ∨
    (∃ w, w ∈ s.waitq ∧ notifyOne s k = { s with waitq := s.waitq.erase w, woken := upd s.woken w true, awake := w :: s.awake }) := by
  unfold notifyOne
  cases hw : s.waitq[k % s.waitq.length]? with
  | none =>
    left
    refine ⟨?_, rfl⟩
    rw [List.getElem?_eq_none_iff] at hw
    cases hq : s.waitq with
    | nil => rfl
    | cons a l =>
      rw [hq] at hw
      have := Nat.mod_lt k (show 0 < l.length + 1 by omega)
      simp only [List.length_cons] at hw
      omega
  | some w => right; exact ⟨w, List.mem_of_getElem? hw, rfl⟩

theorem pick_cases (l : List Nat) (k : Nat) :
    (l = [] ∧ l[k % l.length]? = none) ∨ (∃ j, j ∈ l ∧ l[k % l.length]? = some j) := by
  cases hw : l[k % l.length]? with
  | none =>
    left
    refine ⟨?_, rfl⟩
    rw [List.getElem?_eq_none_iff] at hw
    cases l with
    | nil => rfl
    | cons a l =>
      have := Nat.mod_lt k (show 0 < l.length + 1 by omega)
      simp only [List.length_cons] at hw
      omega
  | some w => right; exact ⟨w, List.mem_of_getElem? hw, rfl⟩

macro "inv_simp" : tactic =>
  `(tactic| ((try dsimp only [newJob, setPc]); try simp only [upd_apply]))
macro "inv_grind" : tactic =>
  `(tactic| grind [Pc.isWorker, Pc.isLoop, Pc.inStop, Pc.inBody, Pc.bodyPhase, Pc.isB])

/-- prove `Inv c s'` from `h : Inv c s`: every clause first from its own old version (plus the local context), then
from the clauses of its group, then from the whole old invariant; clauses that resist stay open (tagged by name) -/
macro "inv_step" h:ident : tactic => `(tactic| (
  constructor
  case wf_out => exact ($h).wf_out
  case wf_nw => exact ($h).wf_nw
  case wf_nt => exact ($h).wf_nt
  case wf_b => exact ($h).wf_b
  case wf_cur => exact ($h).wf_cur
  case wf_aw => exact ($h).wf_aw
  case' t_out => (have hf_ := ($h).t_out; inv_simp; try (first | exact hf_ | inv_grind | (have hg0_ := ($h).t_worker; have hg1_ := ($h).t_ret; have hg2_ := ($h).t_script; have hg3_ := ($h).t_noB; have hg4_ := ($h).t_enq; have hg5_ := ($h).t_enq2; have hg6_ := ($h).n_noexit; have hg7_ := ($h).wf_nt; inv_grind) | (have hh_ := $h; cases hh_; inv_grind)))
  case' t_worker => (have hf_ := ($h).t_worker; inv_simp; try (first | exact hf_ | inv_grind | (have hg0_ := ($h).t_out; have hg1_ := ($h).t_ret; have hg2_ := ($h).t_script; have hg3_ := ($h).t_noB; have hg4_ := ($h).t_enq; have hg5_ := ($h).t_enq2; have hg6_ := ($h).n_noexit; have hg7_ := ($h).wf_nt; inv_grind) | (have hh_ := $h; cases hh_; inv_grind)))
  case' t_ret => (have hf_ := ($h).t_ret; inv_simp; try (first | exact hf_ | inv_grind | (have hg0_ := ($h).t_out; have hg1_ := ($h).t_worker; have hg2_ := ($h).t_script; have hg3_ := ($h).t_noB; have hg4_ := ($h).t_enq; have hg5_ := ($h).t_enq2; have hg6_ := ($h).n_noexit; have hg7_ := ($h).wf_nt; inv_grind) | (have hh_ := $h; cases hh_; inv_grind)))
  case' t_script => (have hf_ := ($h).t_script; inv_simp; try (first | exact hf_ | inv_grind | (have hg0_ := ($h).t_out; have hg1_ := ($h).t_worker; have hg2_ := ($h).t_ret; have hg3_ := ($h).t_noB; have hg4_ := ($h).t_enq; have hg5_ := ($h).t_enq2; have hg6_ := ($h).n_noexit; have hg7_ := ($h).wf_nt; inv_grind) | (have hh_ := $h; cases hh_; inv_grind)))
  case' t_noB => (have hf_ := ($h).t_noB; inv_simp; try (first | exact hf_ | inv_grind | (have hg0_ := ($h).t_out; have hg1_ := ($h).t_worker; have hg2_ := ($h).t_ret; have hg3_ := ($h).t_script; have hg4_ := ($h).t_enq; have hg5_ := ($h).t_enq2; have hg6_ := ($h).n_noexit; have hg7_ := ($h).wf_nt; inv_grind) | (have hh_ := $h; cases hh_; inv_grind)))
  case' t_enq => (have hf_ := ($h).t_enq; inv_simp; try (first | exact hf_ | inv_grind | (have hg0_ := ($h).t_enq2; have hg1_ := ($h).l_q; have hg2_ := ($h).l_qnd; have hg3_ := ($h).l_held; have hg4_ := ($h).l_rej; have hg5_ := ($h).l_swap; have hg6_ := ($h).l_dqnd; have hg7_ := ($h).l_dqpc; have hg8_ := ($h).l_fresh; have hg9_ := ($h).c_once; have hg10_ := ($h).z_fresh; have hg11_ := ($h).r_on; have hg12_ := ($h).r_job; inv_grind) | (have hh_ := $h; cases hh_; inv_grind)))
  case' t_enq2 => (have hf_ := ($h).t_enq2; inv_simp; try (first | exact hf_ | inv_grind | (have hg0_ := ($h).t_enq; have hg1_ := ($h).l_q; have hg2_ := ($h).l_qnd; have hg3_ := ($h).l_held; have hg4_ := ($h).l_rej; have hg5_ := ($h).l_swap; have hg6_ := ($h).l_dqnd; have hg7_ := ($h).l_dqpc; have hg8_ := ($h).l_fresh; have hg9_ := ($h).c_once; have hg10_ := ($h).z_fresh; have hg11_ := ($h).r_on; have hg12_ := ($h).r_job; inv_grind) | (have hh_ := $h; cases hh_; inv_grind)))
  case' l_q => (have hf_ := ($h).l_q; inv_simp; try (first | exact hf_ | inv_grind | (have hg0_ := ($h).t_enq; have hg1_ := ($h).t_enq2; have hg2_ := ($h).l_qnd; have hg3_ := ($h).l_held; have hg4_ := ($h).l_rej; have hg5_ := ($h).l_swap; have hg6_ := ($h).l_dqnd; have hg7_ := ($h).l_dqpc; have hg8_ := ($h).l_fresh; have hg9_ := ($h).c_once; have hg10_ := ($h).z_fresh; have hg11_ := ($h).r_on; have hg12_ := ($h).r_job; inv_grind) | (have hh_ := $h; cases hh_; inv_grind)))
  case' l_qnd => (have hf_ := ($h).l_qnd; inv_simp; try (first | exact hf_ | inv_grind | (have hg0_ := ($h).t_enq; have hg1_ := ($h).t_enq2; have hg2_ := ($h).l_q; have hg3_ := ($h).l_held; have hg4_ := ($h).l_rej; have hg5_ := ($h).l_swap; have hg6_ := ($h).l_dqnd; have hg7_ := ($h).l_dqpc; have hg8_ := ($h).l_fresh; have hg9_ := ($h).c_once; have hg10_ := ($h).z_fresh; have hg11_ := ($h).r_on; have hg12_ := ($h).r_job; inv_grind) | (have hh_ := $h; cases hh_; inv_grind)))
  case' l_held => (have hf_ := ($h).l_held; inv_simp; try (first | exact hf_ | inv_grind | (have hg0_ := ($h).t_enq; have hg1_ := ($h).t_enq2; have hg2_ := ($h).l_q; have hg3_ := ($h).l_qnd; have hg4_ := ($h).l_rej; have hg5_ := ($h).l_swap; have hg6_ := ($h).l_dqnd; have hg7_ := ($h).l_dqpc; have hg8_ := ($h).l_fresh; have hg9_ := ($h).c_once; have hg10_ := ($h).z_fresh; have hg11_ := ($h).r_on; have hg12_ := ($h).r_job; inv_grind) | (have hh_ := $h; cases hh_; inv_grind)))
  case' l_rej => (have hf_ := ($h).l_rej; inv_simp; try (first | exact hf_ | inv_grind | (have hg0_ := ($h).t_enq; have hg1_ := ($h).t_enq2; have hg2_ := ($h).l_q; have hg3_ := ($h).l_qnd; have hg4_ := ($h).l_held; have hg5_ := ($h).l_swap; have hg6_ := ($h).l_dqnd; have hg7_ := ($h).l_dqpc; have hg8_ := ($h).l_fresh; have hg9_ := ($h).c_once; have hg10_ := ($h).z_fresh; have hg11_ := ($h).r_on; have hg12_ := ($h).r_job; inv_grind) | (have hh_ := $h; cases hh_; inv_grind)))
  case' l_swap => (have hf_ := ($h).l_swap; inv_simp; try (first | exact hf_ | inv_grind | (have hg0_ := ($h).t_enq; have hg1_ := ($h).t_enq2; have hg2_ := ($h).l_q; have hg3_ := ($h).l_qnd; have hg4_ := ($h).l_held; have hg5_ := ($h).l_rej; have hg6_ := ($h).l_dqnd; have hg7_ := ($h).l_dqpc; have hg8_ := ($h).l_fresh; have hg9_ := ($h).c_once; have hg10_ := ($h).z_fresh; have hg11_ := ($h).r_on; have hg12_ := ($h).r_job; inv_grind) | (have hh_ := $h; cases hh_; inv_grind)))
  case' l_dqnd => (have hf_ := ($h).l_dqnd; inv_simp; try (first | exact hf_ | inv_grind | (have hg0_ := ($h).t_enq; have hg1_ := ($h).t_enq2; have hg2_ := ($h).l_q; have hg3_ := ($h).l_qnd; have hg4_ := ($h).l_held; have hg5_ := ($h).l_rej; have hg6_ := ($h).l_swap; have hg7_ := ($h).l_dqpc; have hg8_ := ($h).l_fresh; have hg9_ := ($h).c_once; have hg10_ := ($h).z_fresh; have hg11_ := ($h).r_on; have hg12_ := ($h).r_job; inv_grind) | (have hh_ := $h; cases hh_; inv_grind)))
  case' l_dqpc => (have hf_ := ($h).l_dqpc; inv_simp; try (first | exact hf_ | inv_grind | (have hg0_ := ($h).t_enq; have hg1_ := ($h).t_enq2; have hg2_ := ($h).l_q; have hg3_ := ($h).l_qnd; have hg4_ := ($h).l_held; have hg5_ := ($h).l_rej; have hg6_ := ($h).l_swap; have hg7_ := ($h).l_dqnd; have hg8_ := ($h).l_fresh; have hg9_ := ($h).c_once; have hg10_ := ($h).z_fresh; have hg11_ := ($h).r_on; have hg12_ := ($h).r_job; inv_grind) | (have hh_ := $h; cases hh_; inv_grind)))
  case' l_fresh => (have hf_ := ($h).l_fresh; inv_simp; try (first | exact hf_ | inv_grind | (have hg0_ := ($h).t_enq; have hg1_ := ($h).t_enq2; have hg2_ := ($h).l_q; have hg3_ := ($h).l_qnd; have hg4_ := ($h).l_held; have hg5_ := ($h).l_rej; have hg6_ := ($h).l_swap; have hg7_ := ($h).l_dqnd; have hg8_ := ($h).l_dqpc; have hg9_ := ($h).c_once; have hg10_ := ($h).z_fresh; have hg11_ := ($h).r_on; have hg12_ := ($h).r_job; inv_grind) | (have hh_ := $h; cases hh_; inv_grind)))
  case' c_once => (have hf_ := ($h).c_once; inv_simp; try (first | exact hf_ | inv_grind | (have hg0_ := ($h).t_enq; have hg1_ := ($h).t_enq2; have hg2_ := ($h).l_q; have hg3_ := ($h).l_qnd; have hg4_ := ($h).l_held; have hg5_ := ($h).l_rej; have hg6_ := ($h).l_swap; have hg7_ := ($h).l_dqnd; have hg8_ := ($h).l_dqpc; have hg9_ := ($h).l_fresh; have hg10_ := ($h).z_fresh; have hg11_ := ($h).r_on; have hg12_ := ($h).r_job; inv_grind) | (have hh_ := $h; cases hh_; inv_grind)))
  case' z_fresh => (have hf_ := ($h).z_fresh; inv_simp; try (first | exact hf_ | inv_grind | (have hg0_ := ($h).t_enq; have hg1_ := ($h).t_enq2; have hg2_ := ($h).l_q; have hg3_ := ($h).l_qnd; have hg4_ := ($h).l_held; have hg5_ := ($h).l_rej; have hg6_ := ($h).l_swap; have hg7_ := ($h).l_dqnd; have hg8_ := ($h).l_dqpc; have hg9_ := ($h).l_fresh; have hg10_ := ($h).c_once; have hg11_ := ($h).r_on; have hg12_ := ($h).r_job; inv_grind) | (have hh_ := $h; cases hh_; inv_grind)))
  case' r_on => (have hf_ := ($h).r_on; inv_simp; try (first | exact hf_ | inv_grind | (have hg0_ := ($h).t_enq; have hg1_ := ($h).t_enq2; have hg2_ := ($h).l_q; have hg3_ := ($h).l_qnd; have hg4_ := ($h).l_held; have hg5_ := ($h).l_rej; have hg6_ := ($h).l_swap; have hg7_ := ($h).l_dqnd; have hg8_ := ($h).l_dqpc; have hg9_ := ($h).l_fresh; have hg10_ := ($h).c_once; have hg11_ := ($h).z_fresh; have hg12_ := ($h).r_job; inv_grind) | (have hh_ := $h; cases hh_; inv_grind)))
  case' r_job => (have hf_ := ($h).r_job; inv_simp; try (first | exact hf_ | inv_grind | (have hg0_ := ($h).t_enq; have hg1_ := ($h).t_enq2; have hg2_ := ($h).l_q; have hg3_ := ($h).l_qnd; have hg4_ := ($h).l_held; have hg5_ := ($h).l_rej; have hg6_ := ($h).l_swap; have hg7_ := ($h).l_dqnd; have hg8_ := ($h).l_dqpc; have hg9_ := ($h).l_fresh; have hg10_ := ($h).c_once; have hg11_ := ($h).z_fresh; have hg12_ := ($h).r_on; inv_grind) | (have hh_ := $h; cases hh_; inv_grind)))
  case' x_exit_q => (have hf_ := ($h).x_exit_q; inv_simp; try (first | exact hf_ | inv_grind | (have hg0_ := ($h).x_rej_exit; have hg1_ := ($h).x_drop_exit; have hg2_ := ($h).b_co; have hg3_ := ($h).b_defer; have hg4_ := ($h).b_defnd; have hg5_ := ($h).b_defpc; have hg6_ := ($h).b_defkind; have hg7_ := ($h).b_guard; have hg8_ := ($h).b_none; have hg9_ := ($h).b_lost; have hg10_ := ($h).b_fut; have hg11_ := ($h).f_brk; have hg12_ := ($h).c_once; have hg13_ := ($h).l_rej; have hg14_ := ($h).l_swap; have hg15_ := ($h).z_fresh; have hg16_ := ($h).n_noexit; inv_grind) | (have hh_ := $h; cases hh_; inv_grind)))
  case' x_rej_exit => (have hf_ := ($h).x_rej_exit; inv_simp; try (first | exact hf_ | inv_grind | (have hg0_ := ($h).x_exit_q; have hg1_ := ($h).x_drop_exit; have hg2_ := ($h).b_co; have hg3_ := ($h).b_defer; have hg4_ := ($h).b_defnd; have hg5_ := ($h).b_defpc; have hg6_ := ($h).b_defkind; have hg7_ := ($h).b_guard; have hg8_ := ($h).b_none; have hg9_ := ($h).b_lost; have hg10_ := ($h).b_fut; have hg11_ := ($h).f_brk; have hg12_ := ($h).c_once; have hg13_ := ($h).l_rej; have hg14_ := ($h).l_swap; have hg15_ := ($h).z_fresh; have hg16_ := ($h).n_noexit; inv_grind) | (have hh_ := $h; cases hh_; inv_grind)))
  case' x_drop_exit => (have hf_ := ($h).x_drop_exit; inv_simp; try (first | exact hf_ | inv_grind | (have hg0_ := ($h).x_exit_q; have hg1_ := ($h).x_rej_exit; have hg2_ := ($h).b_co; have hg3_ := ($h).b_defer; have hg4_ := ($h).b_defnd; have hg5_ := ($h).b_defpc; have hg6_ := ($h).b_defkind; have hg7_ := ($h).b_guard; have hg8_ := ($h).b_none; have hg9_ := ($h).b_lost; have hg10_ := ($h).b_fut; have hg11_ := ($h).f_brk; have hg12_ := ($h).c_once; have hg13_ := ($h).l_rej; have hg14_ := ($h).l_swap; have hg15_ := ($h).z_fresh; have hg16_ := ($h).n_noexit; inv_grind) | (have hh_ := $h; cases hh_; inv_grind)))
  case' b_co => (have hf_ := ($h).b_co; inv_simp; try (first | exact hf_ | inv_grind | (have hg0_ := ($h).x_exit_q; have hg1_ := ($h).x_rej_exit; have hg2_ := ($h).x_drop_exit; have hg3_ := ($h).b_defer; have hg4_ := ($h).b_defnd; have hg5_ := ($h).b_defpc; have hg6_ := ($h).b_defkind; have hg7_ := ($h).b_guard; have hg8_ := ($h).b_none; have hg9_ := ($h).b_lost; have hg10_ := ($h).b_fut; have hg11_ := ($h).f_brk; have hg12_ := ($h).c_once; have hg13_ := ($h).l_rej; have hg14_ := ($h).l_swap; have hg15_ := ($h).z_fresh; have hg16_ := ($h).n_noexit; inv_grind) | (have hh_ := $h; cases hh_; inv_grind)))
  case' b_defer => (have hf_ := ($h).b_defer; inv_simp; try (first | exact hf_ | inv_grind | (have hg0_ := ($h).x_exit_q; have hg1_ := ($h).x_rej_exit; have hg2_ := ($h).x_drop_exit; have hg3_ := ($h).b_co; have hg4_ := ($h).b_defnd; have hg5_ := ($h).b_defpc; have hg6_ := ($h).b_defkind; have hg7_ := ($h).b_guard; have hg8_ := ($h).b_none; have hg9_ := ($h).b_lost; have hg10_ := ($h).b_fut; have hg11_ := ($h).f_brk; have hg12_ := ($h).c_once; have hg13_ := ($h).l_rej; have hg14_ := ($h).l_swap; have hg15_ := ($h).z_fresh; have hg16_ := ($h).n_noexit; inv_grind) | (have hh_ := $h; cases hh_; inv_grind)))
  case' b_defnd => (have hf_ := ($h).b_defnd; inv_simp; try (first | exact hf_ | inv_grind | (have hg0_ := ($h).x_exit_q; have hg1_ := ($h).x_rej_exit; have hg2_ := ($h).x_drop_exit; have hg3_ := ($h).b_co; have hg4_ := ($h).b_defer; have hg5_ := ($h).b_defpc; have hg6_ := ($h).b_defkind; have hg7_ := ($h).b_guard; have hg8_ := ($h).b_none; have hg9_ := ($h).b_lost; have hg10_ := ($h).b_fut; have hg11_ := ($h).f_brk; have hg12_ := ($h).c_once; have hg13_ := ($h).l_rej; have hg14_ := ($h).l_swap; have hg15_ := ($h).z_fresh; have hg16_ := ($h).n_noexit; inv_grind) | (have hh_ := $h; cases hh_; inv_grind)))
  case' b_defpc => (have hf_ := ($h).b_defpc; inv_simp; try (first | exact hf_ | inv_grind | (have hg0_ := ($h).x_exit_q; have hg1_ := ($h).x_rej_exit; have hg2_ := ($h).x_drop_exit; have hg3_ := ($h).b_co; have hg4_ := ($h).b_defer; have hg5_ := ($h).b_defnd; have hg6_ := ($h).b_defkind; have hg7_ := ($h).b_guard; have hg8_ := ($h).b_none; have hg9_ := ($h).b_lost; have hg10_ := ($h).b_fut; have hg11_ := ($h).f_brk; have hg12_ := ($h).c_once; have hg13_ := ($h).l_rej; have hg14_ := ($h).l_swap; have hg15_ := ($h).z_fresh; have hg16_ := ($h).n_noexit; inv_grind) | (have hh_ := $h; cases hh_; inv_grind)))
  case' b_defkind => (have hf_ := ($h).b_defkind; inv_simp; try (first | exact hf_ | inv_grind | (have hg0_ := ($h).x_exit_q; have hg1_ := ($h).x_rej_exit; have hg2_ := ($h).x_drop_exit; have hg3_ := ($h).b_co; have hg4_ := ($h).b_defer; have hg5_ := ($h).b_defnd; have hg6_ := ($h).b_defpc; have hg7_ := ($h).b_guard; have hg8_ := ($h).b_none; have hg9_ := ($h).b_lost; have hg10_ := ($h).b_fut; have hg11_ := ($h).f_brk; have hg12_ := ($h).c_once; have hg13_ := ($h).l_rej; have hg14_ := ($h).l_swap; have hg15_ := ($h).z_fresh; have hg16_ := ($h).n_noexit; inv_grind) | (have hh_ := $h; cases hh_; inv_grind)))
  case' b_guard => (have hf_ := ($h).b_guard; inv_simp; try (first | exact hf_ | inv_grind | (have hg0_ := ($h).x_exit_q; have hg1_ := ($h).x_rej_exit; have hg2_ := ($h).x_drop_exit; have hg3_ := ($h).b_co; have hg4_ := ($h).b_defer; have hg5_ := ($h).b_defnd; have hg6_ := ($h).b_defpc; have hg7_ := ($h).b_defkind; have hg8_ := ($h).b_none; have hg9_ := ($h).b_lost; have hg10_ := ($h).b_fut; have hg11_ := ($h).f_brk; have hg12_ := ($h).c_once; have hg13_ := ($h).l_rej; have hg14_ := ($h).l_swap; have hg15_ := ($h).z_fresh; have hg16_ := ($h).n_noexit; inv_grind) | (have hh_ := $h; cases hh_; inv_grind)))
  case' b_none => (have hf_ := ($h).b_none; inv_simp; try (first | exact hf_ | inv_grind | (have hg0_ := ($h).x_exit_q; have hg1_ := ($h).x_rej_exit; have hg2_ := ($h).x_drop_exit; have hg3_ := ($h).b_co; have hg4_ := ($h).b_defer; have hg5_ := ($h).b_defnd; have hg6_ := ($h).b_defpc; have hg7_ := ($h).b_defkind; have hg8_ := ($h).b_guard; have hg9_ := ($h).b_lost; have hg10_ := ($h).b_fut; have hg11_ := ($h).f_brk; have hg12_ := ($h).c_once; have hg13_ := ($h).l_rej; have hg14_ := ($h).l_swap; have hg15_ := ($h).z_fresh; have hg16_ := ($h).n_noexit; inv_grind) | (have hh_ := $h; cases hh_; inv_grind)))
  case' b_lost => (have hf_ := ($h).b_lost; inv_simp; try (first | exact hf_ | inv_grind | (have hg0_ := ($h).x_exit_q; have hg1_ := ($h).x_rej_exit; have hg2_ := ($h).x_drop_exit; have hg3_ := ($h).b_co; have hg4_ := ($h).b_defer; have hg5_ := ($h).b_defnd; have hg6_ := ($h).b_defpc; have hg7_ := ($h).b_defkind; have hg8_ := ($h).b_guard; have hg9_ := ($h).b_none; have hg10_ := ($h).b_fut; have hg11_ := ($h).f_brk; have hg12_ := ($h).c_once; have hg13_ := ($h).l_rej; have hg14_ := ($h).l_swap; have hg15_ := ($h).z_fresh; have hg16_ := ($h).n_noexit; inv_grind) | (have hh_ := $h; cases hh_; inv_grind)))
  case' b_fut => (have hf_ := ($h).b_fut; inv_simp; try (first | exact hf_ | inv_grind | (have hg0_ := ($h).x_exit_q; have hg1_ := ($h).x_rej_exit; have hg2_ := ($h).x_drop_exit; have hg3_ := ($h).b_co; have hg4_ := ($h).b_defer; have hg5_ := ($h).b_defnd; have hg6_ := ($h).b_defpc; have hg7_ := ($h).b_defkind; have hg8_ := ($h).b_guard; have hg9_ := ($h).b_none; have hg10_ := ($h).b_lost; have hg11_ := ($h).f_brk; have hg12_ := ($h).c_once; have hg13_ := ($h).l_rej; have hg14_ := ($h).l_swap; have hg15_ := ($h).z_fresh; have hg16_ := ($h).n_noexit; inv_grind) | (have hh_ := $h; cases hh_; inv_grind)))
  case' f_own => (have hf_ := ($h).f_own; inv_simp; try (first | exact hf_ | inv_grind | (have hg0_ := ($h).f_own2; have hg1_ := ($h).f_arm; have hg2_ := ($h).f_broken; have hg3_ := ($h).f_brk; have hg4_ := ($h).f_some; have hg5_ := ($h).f_valued; have hg6_ := ($h).f_value; have hg7_ := ($h).f_pending; have hg8_ := ($h).b_fut; have hg9_ := ($h).z_fresh; have hg10_ := ($h).c_once; have hg11_ := ($h).t_enq; have hg12_ := ($h).t_enq2; have hg13_ := ($h).r_job; have hg14_ := ($h).l_rej; have hg15_ := ($h).l_swap; inv_grind) | (have hh_ := $h; cases hh_; inv_grind)))
  case' f_own2 => (have hf_ := ($h).f_own2; inv_simp; try (first | exact hf_ | inv_grind | (have hg0_ := ($h).f_own; have hg1_ := ($h).f_arm; have hg2_ := ($h).f_broken; have hg3_ := ($h).f_brk; have hg4_ := ($h).f_some; have hg5_ := ($h).f_valued; have hg6_ := ($h).f_value; have hg7_ := ($h).f_pending; have hg8_ := ($h).b_fut; have hg9_ := ($h).z_fresh; have hg10_ := ($h).c_once; have hg11_ := ($h).t_enq; have hg12_ := ($h).t_enq2; have hg13_ := ($h).r_job; have hg14_ := ($h).l_rej; have hg15_ := ($h).l_swap; inv_grind) | (have hh_ := $h; cases hh_; inv_grind)))
  case' f_arm => (have hf_ := ($h).f_arm; inv_simp; try (first | exact hf_ | inv_grind | (have hg0_ := ($h).f_own; have hg1_ := ($h).f_own2; have hg2_ := ($h).f_broken; have hg3_ := ($h).f_brk; have hg4_ := ($h).f_some; have hg5_ := ($h).f_valued; have hg6_ := ($h).f_value; have hg7_ := ($h).f_pending; have hg8_ := ($h).b_fut; have hg9_ := ($h).z_fresh; have hg10_ := ($h).c_once; have hg11_ := ($h).t_enq; have hg12_ := ($h).t_enq2; have hg13_ := ($h).r_job; have hg14_ := ($h).l_rej; have hg15_ := ($h).l_swap; inv_grind) | (have hh_ := $h; cases hh_; inv_grind)))
  case' f_broken => (have hf_ := ($h).f_broken; inv_simp; try (first | exact hf_ | inv_grind | (have hg0_ := ($h).f_own; have hg1_ := ($h).f_own2; have hg2_ := ($h).f_arm; have hg3_ := ($h).f_brk; have hg4_ := ($h).f_some; have hg5_ := ($h).f_valued; have hg6_ := ($h).f_value; have hg7_ := ($h).f_pending; have hg8_ := ($h).b_fut; have hg9_ := ($h).z_fresh; have hg10_ := ($h).c_once; have hg11_ := ($h).t_enq; have hg12_ := ($h).t_enq2; have hg13_ := ($h).r_job; have hg14_ := ($h).l_rej; have hg15_ := ($h).l_swap; inv_grind) | (have hh_ := $h; cases hh_; inv_grind)))
  case' f_brk => (have hf_ := ($h).f_brk; inv_simp; try (first | exact hf_ | inv_grind | (have hg0_ := ($h).f_own; have hg1_ := ($h).f_own2; have hg2_ := ($h).f_arm; have hg3_ := ($h).f_broken; have hg4_ := ($h).f_some; have hg5_ := ($h).f_valued; have hg6_ := ($h).f_value; have hg7_ := ($h).f_pending; have hg8_ := ($h).b_fut; have hg9_ := ($h).z_fresh; have hg10_ := ($h).c_once; have hg11_ := ($h).t_enq; have hg12_ := ($h).t_enq2; have hg13_ := ($h).r_job; have hg14_ := ($h).l_rej; have hg15_ := ($h).l_swap; inv_grind) | (have hh_ := $h; cases hh_; inv_grind)))
  case' f_some => (have hf_ := ($h).f_some; inv_simp; try (first | exact hf_ | inv_grind | (have hg0_ := ($h).f_own; have hg1_ := ($h).f_own2; have hg2_ := ($h).f_arm; have hg3_ := ($h).f_broken; have hg4_ := ($h).f_brk; have hg5_ := ($h).f_valued; have hg6_ := ($h).f_value; have hg7_ := ($h).f_pending; have hg8_ := ($h).b_fut; have hg9_ := ($h).z_fresh; have hg10_ := ($h).c_once; have hg11_ := ($h).t_enq; have hg12_ := ($h).t_enq2; have hg13_ := ($h).r_job; have hg14_ := ($h).l_rej; have hg15_ := ($h).l_swap; inv_grind) | (have hh_ := $h; cases hh_; inv_grind)))
  case' f_valued => (have hf_ := ($h).f_valued; inv_simp; try (first | exact hf_ | inv_grind | (have hg0_ := ($h).f_own; have hg1_ := ($h).f_own2; have hg2_ := ($h).f_arm; have hg3_ := ($h).f_broken; have hg4_ := ($h).f_brk; have hg5_ := ($h).f_some; have hg6_ := ($h).f_value; have hg7_ := ($h).f_pending; have hg8_ := ($h).b_fut; have hg9_ := ($h).z_fresh; have hg10_ := ($h).c_once; have hg11_ := ($h).t_enq; have hg12_ := ($h).t_enq2; have hg13_ := ($h).r_job; have hg14_ := ($h).l_rej; have hg15_ := ($h).l_swap; inv_grind) | (have hh_ := $h; cases hh_; inv_grind)))
  case' f_value => (have hf_ := ($h).f_value; inv_simp; try (first | exact hf_ | inv_grind | (have hg0_ := ($h).f_own; have hg1_ := ($h).f_own2; have hg2_ := ($h).f_arm; have hg3_ := ($h).f_broken; have hg4_ := ($h).f_brk; have hg5_ := ($h).f_some; have hg6_ := ($h).f_valued; have hg7_ := ($h).f_pending; have hg8_ := ($h).b_fut; have hg9_ := ($h).z_fresh; have hg10_ := ($h).c_once; have hg11_ := ($h).t_enq; have hg12_ := ($h).t_enq2; have hg13_ := ($h).r_job; have hg14_ := ($h).l_rej; have hg15_ := ($h).l_swap; inv_grind) | (have hh_ := $h; cases hh_; inv_grind)))
  case' f_pending => (have hf_ := ($h).f_pending; inv_simp; try (first | exact hf_ | inv_grind | (have hg0_ := ($h).f_own; have hg1_ := ($h).f_own2; have hg2_ := ($h).f_arm; have hg3_ := ($h).f_broken; have hg4_ := ($h).f_brk; have hg5_ := ($h).f_some; have hg6_ := ($h).f_valued; have hg7_ := ($h).f_value; have hg8_ := ($h).b_fut; have hg9_ := ($h).z_fresh; have hg10_ := ($h).c_once; have hg11_ := ($h).t_enq; have hg12_ := ($h).t_enq2; have hg13_ := ($h).r_job; have hg14_ := ($h).l_rej; have hg15_ := ($h).l_swap; inv_grind) | (have hh_ := $h; cases hh_; inv_grind)))
  case' s_exit_wq => (have hf_ := ($h).s_exit_wq; inv_simp; try (first | exact hf_ | inv_grind | (have hg0_ := ($h).s_wqnd; have hg1_ := ($h).s_wq_pc; have hg2_ := ($h).s_woken; have hg3_ := ($h).s_cv; have hg4_ := ($h).n_wake; have hg5_ := ($h).a_nd; have hg6_ := ($h).a_mem; have hg7_ := ($h).a_len; have hg8_ := ($h).m_own; have hg9_ := ($h).m_enter; have hg10_ := ($h).n_noexit; have hg11_ := ($h).t_worker; have hg12_ := ($h).wf_nw; inv_grind) | (have hh_ := $h; cases hh_; inv_grind)))
  case' s_wqnd => (have hf_ := ($h).s_wqnd; inv_simp; try (first | exact hf_ | inv_grind | (have hg0_ := ($h).s_exit_wq; have hg1_ := ($h).s_wq_pc; have hg2_ := ($h).s_woken; have hg3_ := ($h).s_cv; have hg4_ := ($h).n_wake; have hg5_ := ($h).a_nd; have hg6_ := ($h).a_mem; have hg7_ := ($h).a_len; have hg8_ := ($h).m_own; have hg9_ := ($h).m_enter; have hg10_ := ($h).n_noexit; have hg11_ := ($h).t_worker; have hg12_ := ($h).wf_nw; inv_grind) | (have hh_ := $h; cases hh_; inv_grind)))
  case' s_wq_pc => (have hf_ := ($h).s_wq_pc; inv_simp; try (first | exact hf_ | inv_grind | (have hg0_ := ($h).s_exit_wq; have hg1_ := ($h).s_wqnd; have hg2_ := ($h).s_woken; have hg3_ := ($h).s_cv; have hg4_ := ($h).n_wake; have hg5_ := ($h).a_nd; have hg6_ := ($h).a_mem; have hg7_ := ($h).a_len; have hg8_ := ($h).m_own; have hg9_ := ($h).m_enter; have hg10_ := ($h).n_noexit; have hg11_ := ($h).t_worker; have hg12_ := ($h).wf_nw; inv_grind) | (have hh_ := $h; cases hh_; inv_grind)))
  case' s_woken => (have hf_ := ($h).s_woken; inv_simp; try (first | exact hf_ | inv_grind | (have hg0_ := ($h).s_exit_wq; have hg1_ := ($h).s_wqnd; have hg2_ := ($h).s_wq_pc; have hg3_ := ($h).s_cv; have hg4_ := ($h).n_wake; have hg5_ := ($h).a_nd; have hg6_ := ($h).a_mem; have hg7_ := ($h).a_len; have hg8_ := ($h).m_own; have hg9_ := ($h).m_enter; have hg10_ := ($h).n_noexit; have hg11_ := ($h).t_worker; have hg12_ := ($h).wf_nw; inv_grind) | (have hh_ := $h; cases hh_; inv_grind)))
  case' s_cv => (have hf_ := ($h).s_cv; inv_simp; try (first | exact hf_ | inv_grind | (have hg0_ := ($h).s_exit_wq; have hg1_ := ($h).s_wqnd; have hg2_ := ($h).s_wq_pc; have hg3_ := ($h).s_woken; have hg4_ := ($h).n_wake; have hg5_ := ($h).a_nd; have hg6_ := ($h).a_mem; have hg7_ := ($h).a_len; have hg8_ := ($h).m_own; have hg9_ := ($h).m_enter; have hg10_ := ($h).n_noexit; have hg11_ := ($h).t_worker; have hg12_ := ($h).wf_nw; inv_grind) | (have hh_ := $h; cases hh_; inv_grind)))
  case' n_wake => (have hf_ := ($h).n_wake; inv_simp; try (first | exact hf_ | inv_grind | (have hg0_ := ($h).s_exit_wq; have hg1_ := ($h).s_wqnd; have hg2_ := ($h).s_wq_pc; have hg3_ := ($h).s_woken; have hg4_ := ($h).s_cv; have hg5_ := ($h).a_nd; have hg6_ := ($h).a_mem; have hg7_ := ($h).a_len; have hg8_ := ($h).m_own; have hg9_ := ($h).m_enter; have hg10_ := ($h).n_noexit; have hg11_ := ($h).t_worker; have hg12_ := ($h).wf_nw; inv_grind) | (have hh_ := $h; cases hh_; inv_grind)))
  case' a_nd => (have hf_ := ($h).a_nd; inv_simp; try (first | exact hf_ | inv_grind | (have hg0_ := ($h).s_exit_wq; have hg1_ := ($h).s_wqnd; have hg2_ := ($h).s_wq_pc; have hg3_ := ($h).s_woken; have hg4_ := ($h).s_cv; have hg5_ := ($h).n_wake; have hg6_ := ($h).a_mem; have hg7_ := ($h).a_len; have hg8_ := ($h).m_own; have hg9_ := ($h).m_enter; have hg10_ := ($h).n_noexit; have hg11_ := ($h).t_worker; have hg12_ := ($h).wf_nw; inv_grind) | (have hh_ := $h; cases hh_; inv_grind)))
  case' a_mem => (have hf_ := ($h).a_mem; inv_simp; try (first | exact hf_ | inv_grind | (have hg0_ := ($h).s_exit_wq; have hg1_ := ($h).s_wqnd; have hg2_ := ($h).s_wq_pc; have hg3_ := ($h).s_woken; have hg4_ := ($h).s_cv; have hg5_ := ($h).n_wake; have hg6_ := ($h).a_nd; have hg7_ := ($h).a_len; have hg8_ := ($h).m_own; have hg9_ := ($h).m_enter; have hg10_ := ($h).n_noexit; have hg11_ := ($h).t_worker; have hg12_ := ($h).wf_nw; inv_grind) | (have hh_ := $h; cases hh_; inv_grind)))
  case' a_len => (have hf_ := ($h).a_len; inv_simp; try (first | exact hf_ | inv_grind | (have hg0_ := ($h).s_exit_wq; have hg1_ := ($h).s_wqnd; have hg2_ := ($h).s_wq_pc; have hg3_ := ($h).s_woken; have hg4_ := ($h).s_cv; have hg5_ := ($h).n_wake; have hg6_ := ($h).a_nd; have hg7_ := ($h).a_mem; have hg8_ := ($h).m_own; have hg9_ := ($h).m_enter; have hg10_ := ($h).n_noexit; have hg11_ := ($h).t_worker; have hg12_ := ($h).wf_nw; inv_grind) | (have hh_ := $h; cases hh_; inv_grind)))
  case' m_own => (have hf_ := ($h).m_own; inv_simp; try (first | exact hf_ | inv_grind | (have hg0_ := ($h).s_exit_wq; have hg1_ := ($h).s_wqnd; have hg2_ := ($h).s_wq_pc; have hg3_ := ($h).s_woken; have hg4_ := ($h).s_cv; have hg5_ := ($h).n_wake; have hg6_ := ($h).a_nd; have hg7_ := ($h).a_mem; have hg8_ := ($h).a_len; have hg9_ := ($h).m_enter; have hg10_ := ($h).n_noexit; have hg11_ := ($h).t_worker; have hg12_ := ($h).wf_nw; inv_grind) | (have hh_ := $h; cases hh_; inv_grind)))
  case' m_enter => (have hf_ := ($h).m_enter; inv_simp; try (first | exact hf_ | inv_grind | (have hg0_ := ($h).s_exit_wq; have hg1_ := ($h).s_wqnd; have hg2_ := ($h).s_wq_pc; have hg3_ := ($h).s_woken; have hg4_ := ($h).s_cv; have hg5_ := ($h).n_wake; have hg6_ := ($h).a_nd; have hg7_ := ($h).a_mem; have hg8_ := ($h).a_len; have hg9_ := ($h).m_own; have hg10_ := ($h).n_noexit; have hg11_ := ($h).t_worker; have hg12_ := ($h).wf_nw; inv_grind) | (have hh_ := $h; cases hh_; inv_grind)))
  case' n_noexit => (have hf_ := ($h).n_noexit; inv_simp; try (first | exact hf_ | inv_grind | (have hg0_ := ($h).s_exit_wq; have hg1_ := ($h).s_wqnd; have hg2_ := ($h).s_wq_pc; have hg3_ := ($h).s_woken; have hg4_ := ($h).s_cv; have hg5_ := ($h).n_wake; have hg6_ := ($h).a_nd; have hg7_ := ($h).a_mem; have hg8_ := ($h).a_len; have hg9_ := ($h).m_own; have hg10_ := ($h).m_enter; have hg11_ := ($h).t_worker; have hg12_ := ($h).wf_nw; inv_grind) | (have hh_ := $h; cases hh_; inv_grind)))
  case' s_tmp_pc => (have hf_ := ($h).s_tmp_pc; inv_simp; try (first | exact hf_ | inv_grind | (have hg0_ := ($h).n_noexit; have hg1_ := ($h).s_tmp_uniq; have hg2_ := ($h).s_thr_tmp; have hg3_ := ($h).s_jb_head; have hg4_ := ($h).s_tmp_w; have hg5_ := ($h).s_nostuck; have hg6_ := ($h).j_all; have hg7_ := ($h).j_thr; have hg8_ := ($h).j_thr0; have hg9_ := ($h).j_thrw; have hg10_ := ($h).z_det; have hg11_ := ($h).z_cur; have hg12_ := ($h).z_touch; have hg13_ := ($h).d_exit; have hg14_ := ($h).t_worker; have hg15_ := ($h).t_ret; have hg16_ := ($h).t_script; have hg17_ := ($h).wf_nt; inv_grind) | (have hh_ := $h; cases hh_; inv_grind)))
  case' s_tmp_uniq => (have hf_ := ($h).s_tmp_uniq; inv_simp; try (first | exact hf_ | inv_grind | (have hg0_ := ($h).n_noexit; have hg1_ := ($h).s_tmp_pc; have hg2_ := ($h).s_thr_tmp; have hg3_ := ($h).s_jb_head; have hg4_ := ($h).s_tmp_w; have hg5_ := ($h).s_nostuck; have hg6_ := ($h).j_all; have hg7_ := ($h).j_thr; have hg8_ := ($h).j_thr0; have hg9_ := ($h).j_thrw; have hg10_ := ($h).z_det; have hg11_ := ($h).z_cur; have hg12_ := ($h).z_touch; have hg13_ := ($h).d_exit; have hg14_ := ($h).t_worker; have hg15_ := ($h).t_ret; have hg16_ := ($h).t_script; have hg17_ := ($h).wf_nt; inv_grind) | (have hh_ := $h; cases hh_; inv_grind)))
  case' s_thr_tmp => (have hf_ := ($h).s_thr_tmp; inv_simp; try (first | exact hf_ | inv_grind | (have hg0_ := ($h).n_noexit; have hg1_ := ($h).s_tmp_pc; have hg2_ := ($h).s_tmp_uniq; have hg3_ := ($h).s_jb_head; have hg4_ := ($h).s_tmp_w; have hg5_ := ($h).s_nostuck; have hg6_ := ($h).j_all; have hg7_ := ($h).j_thr; have hg8_ := ($h).j_thr0; have hg9_ := ($h).j_thrw; have hg10_ := ($h).z_det; have hg11_ := ($h).z_cur; have hg12_ := ($h).z_touch; have hg13_ := ($h).d_exit; have hg14_ := ($h).t_worker; have hg15_ := ($h).t_ret; have hg16_ := ($h).t_script; have hg17_ := ($h).wf_nt; inv_grind) | (have hh_ := $h; cases hh_; inv_grind)))
  case' s_jb_head => (have hf_ := ($h).s_jb_head; inv_simp; try (first | exact hf_ | inv_grind | (have hg0_ := ($h).n_noexit; have hg1_ := ($h).s_tmp_pc; have hg2_ := ($h).s_tmp_uniq; have hg3_ := ($h).s_thr_tmp; have hg4_ := ($h).s_tmp_w; have hg5_ := ($h).s_nostuck; have hg6_ := ($h).j_all; have hg7_ := ($h).j_thr; have hg8_ := ($h).j_thr0; have hg9_ := ($h).j_thrw; have hg10_ := ($h).z_det; have hg11_ := ($h).z_cur; have hg12_ := ($h).z_touch; have hg13_ := ($h).d_exit; have hg14_ := ($h).t_worker; have hg15_ := ($h).t_ret; have hg16_ := ($h).t_script; have hg17_ := ($h).wf_nt; inv_grind) | (have hh_ := $h; cases hh_; inv_grind)))
  case' s_tmp_w => (have hf_ := ($h).s_tmp_w; inv_simp; try (first | exact hf_ | inv_grind | (have hg0_ := ($h).n_noexit; have hg1_ := ($h).s_tmp_pc; have hg2_ := ($h).s_tmp_uniq; have hg3_ := ($h).s_thr_tmp; have hg4_ := ($h).s_jb_head; have hg5_ := ($h).s_nostuck; have hg6_ := ($h).j_all; have hg7_ := ($h).j_thr; have hg8_ := ($h).j_thr0; have hg9_ := ($h).j_thrw; have hg10_ := ($h).z_det; have hg11_ := ($h).z_cur; have hg12_ := ($h).z_touch; have hg13_ := ($h).d_exit; have hg14_ := ($h).t_worker; have hg15_ := ($h).t_ret; have hg16_ := ($h).t_script; have hg17_ := ($h).wf_nt; inv_grind) | (have hh_ := $h; cases hh_; inv_grind)))
  case' s_nostuck => (have hf_ := ($h).s_nostuck; inv_simp; try (first | exact hf_ | inv_grind | (have hg0_ := ($h).n_noexit; have hg1_ := ($h).s_tmp_pc; have hg2_ := ($h).s_tmp_uniq; have hg3_ := ($h).s_thr_tmp; have hg4_ := ($h).s_jb_head; have hg5_ := ($h).s_tmp_w; have hg6_ := ($h).j_all; have hg7_ := ($h).j_thr; have hg8_ := ($h).j_thr0; have hg9_ := ($h).j_thrw; have hg10_ := ($h).z_det; have hg11_ := ($h).z_cur; have hg12_ := ($h).z_touch; have hg13_ := ($h).d_exit; have hg14_ := ($h).t_worker; have hg15_ := ($h).t_ret; have hg16_ := ($h).t_script; have hg17_ := ($h).wf_nt; inv_grind) | (have hh_ := $h; cases hh_; inv_grind)))
  case' j_all => (have hf_ := ($h).j_all; inv_simp; try (first | exact hf_ | inv_grind | (have hg0_ := ($h).n_noexit; have hg1_ := ($h).s_tmp_pc; have hg2_ := ($h).s_tmp_uniq; have hg3_ := ($h).s_thr_tmp; have hg4_ := ($h).s_jb_head; have hg5_ := ($h).s_tmp_w; have hg6_ := ($h).s_nostuck; have hg7_ := ($h).j_thr; have hg8_ := ($h).j_thr0; have hg9_ := ($h).j_thrw; have hg10_ := ($h).z_det; have hg11_ := ($h).z_cur; have hg12_ := ($h).z_touch; have hg13_ := ($h).d_exit; have hg14_ := ($h).t_worker; have hg15_ := ($h).t_ret; have hg16_ := ($h).t_script; have hg17_ := ($h).wf_nt; inv_grind) | (have hh_ := $h; cases hh_; inv_grind)))
  case' j_thr => (have hf_ := ($h).j_thr; inv_simp; try (first | exact hf_ | inv_grind | (have hg0_ := ($h).n_noexit; have hg1_ := ($h).s_tmp_pc; have hg2_ := ($h).s_tmp_uniq; have hg3_ := ($h).s_thr_tmp; have hg4_ := ($h).s_jb_head; have hg5_ := ($h).s_tmp_w; have hg6_ := ($h).s_nostuck; have hg7_ := ($h).j_all; have hg8_ := ($h).j_thr0; have hg9_ := ($h).j_thrw; have hg10_ := ($h).z_det; have hg11_ := ($h).z_cur; have hg12_ := ($h).z_touch; have hg13_ := ($h).d_exit; have hg14_ := ($h).t_worker; have hg15_ := ($h).t_ret; have hg16_ := ($h).t_script; have hg17_ := ($h).wf_nt; inv_grind) | (have hh_ := $h; cases hh_; inv_grind)))
  case' j_thr0 => (have hf_ := ($h).j_thr0; inv_simp; try (first | exact hf_ | inv_grind | (have hg0_ := ($h).n_noexit; have hg1_ := ($h).s_tmp_pc; have hg2_ := ($h).s_tmp_uniq; have hg3_ := ($h).s_thr_tmp; have hg4_ := ($h).s_jb_head; have hg5_ := ($h).s_tmp_w; have hg6_ := ($h).s_nostuck; have hg7_ := ($h).j_all; have hg8_ := ($h).j_thr; have hg9_ := ($h).j_thrw; have hg10_ := ($h).z_det; have hg11_ := ($h).z_cur; have hg12_ := ($h).z_touch; have hg13_ := ($h).d_exit; have hg14_ := ($h).t_worker; have hg15_ := ($h).t_ret; have hg16_ := ($h).t_script; have hg17_ := ($h).wf_nt; inv_grind) | (have hh_ := $h; cases hh_; inv_grind)))
  case' j_thrw => (have hf_ := ($h).j_thrw; inv_simp; try (first | exact hf_ | inv_grind | (have hg0_ := ($h).n_noexit; have hg1_ := ($h).s_tmp_pc; have hg2_ := ($h).s_tmp_uniq; have hg3_ := ($h).s_thr_tmp; have hg4_ := ($h).s_jb_head; have hg5_ := ($h).s_tmp_w; have hg6_ := ($h).s_nostuck; have hg7_ := ($h).j_all; have hg8_ := ($h).j_thr; have hg9_ := ($h).j_thr0; have hg10_ := ($h).z_det; have hg11_ := ($h).z_cur; have hg12_ := ($h).z_touch; have hg13_ := ($h).d_exit; have hg14_ := ($h).t_worker; have hg15_ := ($h).t_ret; have hg16_ := ($h).t_script; have hg17_ := ($h).wf_nt; inv_grind) | (have hh_ := $h; cases hh_; inv_grind)))
  case' bb_pc => (have hf_ := ($h).bb_pc; inv_simp; try (first | exact hf_ | inv_grind | (have hg0_ := ($h).bb_bw; have hg1_ := ($h).bb_exit; have hg2_ := ($h).bb_stop; have hg3_ := ($h).bb_w; have hg4_ := ($h).bb_tmp; have hg5_ := ($h).bb_ht; have hg6_ := ($h).bb_jb; have hg7_ := ($h).wf_b; have hg8_ := ($h).wf_nt; have hg9_ := ($h).t_out; inv_grind) | (have hh_ := $h; cases hh_; inv_grind)))
  case' bb_bw => (have hf_ := ($h).bb_bw; inv_simp; try (first | exact hf_ | inv_grind | (have hg0_ := ($h).bb_pc; have hg1_ := ($h).bb_exit; have hg2_ := ($h).bb_stop; have hg3_ := ($h).bb_w; have hg4_ := ($h).bb_tmp; have hg5_ := ($h).bb_ht; have hg6_ := ($h).bb_jb; have hg7_ := ($h).wf_b; have hg8_ := ($h).wf_nt; have hg9_ := ($h).t_out; inv_grind) | (have hh_ := $h; cases hh_; inv_grind)))
  case' bb_exit => (have hf_ := ($h).bb_exit; inv_simp; try (first | exact hf_ | inv_grind | (have hg0_ := ($h).bb_pc; have hg1_ := ($h).bb_bw; have hg2_ := ($h).bb_stop; have hg3_ := ($h).bb_w; have hg4_ := ($h).bb_tmp; have hg5_ := ($h).bb_ht; have hg6_ := ($h).bb_jb; have hg7_ := ($h).wf_b; have hg8_ := ($h).wf_nt; have hg9_ := ($h).t_out; inv_grind) | (have hh_ := $h; cases hh_; inv_grind)))
  case' bb_stop => (have hf_ := ($h).bb_stop; inv_simp; try (first | exact hf_ | inv_grind | (have hg0_ := ($h).bb_pc; have hg1_ := ($h).bb_bw; have hg2_ := ($h).bb_exit; have hg3_ := ($h).bb_w; have hg4_ := ($h).bb_tmp; have hg5_ := ($h).bb_ht; have hg6_ := ($h).bb_jb; have hg7_ := ($h).wf_b; have hg8_ := ($h).wf_nt; have hg9_ := ($h).t_out; inv_grind) | (have hh_ := $h; cases hh_; inv_grind)))
  case' bb_w => (have hf_ := ($h).bb_w; inv_simp; try (first | exact hf_ | inv_grind | (have hg0_ := ($h).bb_pc; have hg1_ := ($h).bb_bw; have hg2_ := ($h).bb_exit; have hg3_ := ($h).bb_stop; have hg4_ := ($h).bb_tmp; have hg5_ := ($h).bb_ht; have hg6_ := ($h).bb_jb; have hg7_ := ($h).wf_b; have hg8_ := ($h).wf_nt; have hg9_ := ($h).t_out; inv_grind) | (have hh_ := $h; cases hh_; inv_grind)))
  case' bb_tmp => (have hf_ := ($h).bb_tmp; inv_simp; try (first | exact hf_ | inv_grind | (have hg0_ := ($h).bb_pc; have hg1_ := ($h).bb_bw; have hg2_ := ($h).bb_exit; have hg3_ := ($h).bb_stop; have hg4_ := ($h).bb_w; have hg5_ := ($h).bb_ht; have hg6_ := ($h).bb_jb; have hg7_ := ($h).wf_b; have hg8_ := ($h).wf_nt; have hg9_ := ($h).t_out; inv_grind) | (have hh_ := $h; cases hh_; inv_grind)))
  case' bb_ht => (have hf_ := ($h).bb_ht; inv_simp; try (first | exact hf_ | inv_grind | (have hg0_ := ($h).bb_pc; have hg1_ := ($h).bb_bw; have hg2_ := ($h).bb_exit; have hg3_ := ($h).bb_stop; have hg4_ := ($h).bb_w; have hg5_ := ($h).bb_tmp; have hg6_ := ($h).bb_jb; have hg7_ := ($h).wf_b; have hg8_ := ($h).wf_nt; have hg9_ := ($h).t_out; inv_grind) | (have hh_ := $h; cases hh_; inv_grind)))
  case' bb_jb => (have hf_ := ($h).bb_jb; inv_simp; try (first | exact hf_ | inv_grind | (have hg0_ := ($h).bb_pc; have hg1_ := ($h).bb_bw; have hg2_ := ($h).bb_exit; have hg3_ := ($h).bb_stop; have hg4_ := ($h).bb_w; have hg5_ := ($h).bb_tmp; have hg6_ := ($h).bb_ht; have hg7_ := ($h).wf_b; have hg8_ := ($h).wf_nt; have hg9_ := ($h).t_out; inv_grind) | (have hh_ := $h; cases hh_; inv_grind)))
  case' a_handle => (have hf_ := ($h).a_handle; inv_simp; try (first | exact hf_ | inv_grind))
  case' z_det => (have hf_ := ($h).z_det; inv_simp; try (first | exact hf_ | inv_grind | (have hg0_ := ($h).n_noexit; have hg1_ := ($h).s_tmp_pc; have hg2_ := ($h).s_tmp_uniq; have hg3_ := ($h).s_thr_tmp; have hg4_ := ($h).s_jb_head; have hg5_ := ($h).s_tmp_w; have hg6_ := ($h).s_nostuck; have hg7_ := ($h).j_all; have hg8_ := ($h).j_thr; have hg9_ := ($h).j_thr0; have hg10_ := ($h).j_thrw; have hg11_ := ($h).z_cur; have hg12_ := ($h).z_touch; have hg13_ := ($h).d_exit; have hg14_ := ($h).t_worker; have hg15_ := ($h).t_ret; have hg16_ := ($h).t_script; have hg17_ := ($h).wf_nt; inv_grind) | (have hh_ := $h; cases hh_; inv_grind)))
  case' z_cur => (have hf_ := ($h).z_cur; inv_simp; try (first | exact hf_ | inv_grind | (have hg0_ := ($h).n_noexit; have hg1_ := ($h).s_tmp_pc; have hg2_ := ($h).s_tmp_uniq; have hg3_ := ($h).s_thr_tmp; have hg4_ := ($h).s_jb_head; have hg5_ := ($h).s_tmp_w; have hg6_ := ($h).s_nostuck; have hg7_ := ($h).j_all; have hg8_ := ($h).j_thr; have hg9_ := ($h).j_thr0; have hg10_ := ($h).j_thrw; have hg11_ := ($h).z_det; have hg12_ := ($h).z_touch; have hg13_ := ($h).d_exit; have hg14_ := ($h).t_worker; have hg15_ := ($h).t_ret; have hg16_ := ($h).t_script; have hg17_ := ($h).wf_nt; inv_grind) | (have hh_ := $h; cases hh_; inv_grind)))
  case' z_touch => (have hf_ := ($h).z_touch; inv_simp; try (first | exact hf_ | inv_grind | (have hg0_ := ($h).n_noexit; have hg1_ := ($h).s_tmp_pc; have hg2_ := ($h).s_tmp_uniq; have hg3_ := ($h).s_thr_tmp; have hg4_ := ($h).s_jb_head; have hg5_ := ($h).s_tmp_w; have hg6_ := ($h).s_nostuck; have hg7_ := ($h).j_all; have hg8_ := ($h).j_thr; have hg9_ := ($h).j_thr0; have hg10_ := ($h).j_thrw; have hg11_ := ($h).z_det; have hg12_ := ($h).z_cur; have hg13_ := ($h).d_exit; have hg14_ := ($h).t_worker; have hg15_ := ($h).t_ret; have hg16_ := ($h).t_script; have hg17_ := ($h).wf_nt; inv_grind) | (have hh_ := $h; cases hh_; inv_grind)))
  case' d_exit => (have hf_ := ($h).d_exit; inv_simp; try (first | exact hf_ | inv_grind | (have hg0_ := ($h).n_noexit; have hg1_ := ($h).s_tmp_pc; have hg2_ := ($h).s_tmp_uniq; have hg3_ := ($h).s_thr_tmp; have hg4_ := ($h).s_jb_head; have hg5_ := ($h).s_tmp_w; have hg6_ := ($h).s_nostuck; have hg7_ := ($h).j_all; have hg8_ := ($h).j_thr; have hg9_ := ($h).j_thr0; have hg10_ := ($h).j_thrw; have hg11_ := ($h).z_det; have hg12_ := ($h).z_cur; have hg13_ := ($h).z_touch; have hg14_ := ($h).t_worker; have hg15_ := ($h).t_ret; have hg16_ := ($h).t_script; have hg17_ := ($h).wf_nt; inv_grind) | (have hh_ := $h; cases hh_; inv_grind)))
  ))

end Cocls.Pool
