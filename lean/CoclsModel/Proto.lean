/-
Line-protocol helpers shared by all drivers (core Lean only; nothing here imports Mathlib, so the
drivers link as `lean_exe`).
-/
namespace Cocls.Proto

def words (line : String) : List String :=
  (line.trimAscii.toString.splitOn " ").filter (· ≠ "")

def natArg (ws : List String) (i : Nat) : Option Nat :=
  match ws[i]? with
  | some w => w.toNat?
  | none => none

def intArg (ws : List String) (i : Nat) : Option Int :=
  match ws[i]? with
  | some w => w.toInt?
  | none => none

def joinWith (sep : String) (xs : List String) : String :=
  sep.intercalate xs

/-- `head ; e1 e2 ...` — the canonical form of one output line. -/
def withEvents (head : String) (evs : List String) : String :=
  if evs.isEmpty then head else head ++ " ; " ++ joinWith " " evs

def boolStr (b : Bool) : String := if b then "1" else "0"

/-- Read all of stdin as lines (without the trailing newline). -/
partial def readLines (h : IO.FS.Stream) (acc : Array String := #[]) : IO (Array String) := do
  let line ← h.getLine
  if line.isEmpty then return acc
  else readLines h (acc.push (line.dropEndWhile (· == '\n')).toString)

/-- insertion sort on a key (stable), enough for the short event lists we print -/
def sortBy {α} (key : α → Nat × Nat) (xs : List α) : List α :=
  let le (a b : α) : Bool :=
    let ka := key a; let kb := key b
    ka.1 < kb.1 || (ka.1 == kb.1 && ka.2 ≤ kb.2)
  xs.mergeSort le

end Cocls.Proto
