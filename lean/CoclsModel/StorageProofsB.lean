import CoclsModel.StorageProofs
namespace Cocls.Storage
/-- `alloc` answers with a frame, a rejection (static_storage's assert) or `bad` (no such stack_storage object) -/
theorem alloc_res_kind (s : State) (k sz : Nat) :
    (∃ id blk, (stepAlloc s k sz).2 = Res.alloc id blk) ∨ (stepAlloc s k sz).2 = Res.rejected ∨ (stepAlloc s k sz).2 = Res.bad := by
  unfold stepAlloc
  split
  · exact Or.inl ⟨_, _, rfl⟩
  · exact Or.inl ⟨_, _, rfl⟩
  · exact Or.inl ⟨_, _, rfl⟩
  · split
    · exact Or.inr (Or.inr rfl)
    · exact Or.inl ⟨_, _, rfl⟩
  · exact Or.inl ⟨_, _, rfl⟩
  · exact Or.inl ⟨_, _, rfl⟩
  · split
    · exact Or.inr (Or.inl rfl)
    · exact Or.inl ⟨_, _, rfl⟩

theorem alloc_rejected_same (s : State) (k sz : Nat) (h : (stepAlloc s k sz).2 = Res.rejected) : (stepAlloc s k sz).1 = s := by
  unfold stepAlloc at h ⊢
  split at h <;> try (cases h)
  · split at h <;> cases h
  · split at h
    · rename_i hh; simp only [hh, if_true]
    · cases h

theorem alloc_bad_not_ok (s : State) (k sz : Nat) (h : (stepAlloc s k sz).2 = Res.bad) : (stepAlloc s k sz).1.ok = false := by
  unfold stepAlloc at h ⊢
  split at h <;> try (cases h)
  · split at h
    · rename_i hh; simp only [hh]
    · cases h
  · split at h <;> cases h

theorem stepFree_sstate (s : State) (id : Nat) :
    (stepFree s id).1.sstate = s.sstate ∧ (stepFree s id).1.objs = s.objs ∧ (stepFree s id).1.cfg = s.cfg := by
  unfold stepFree
  cases hfind : s.frames.find? (fun f => f.id == id) with
  | none => exact ⟨rfl, rfl, rfl⟩
  | some f =>
    simp only [release]
    split
    · split <;> exact ⟨rfl, rfl, rfl⟩
    · split <;> exact ⟨rfl, rfl, rfl⟩

def Quiet (op : Op) : Prop := (∃ id, op = Op.free id) ∨ op = Op.newobj

theorem quiet_step_sstate (s : State) (op : Op) (hq : Quiet op) :
    (step s op).1.sstate = s.sstate ∧ (step s op).1.cfg = s.cfg := by
  rcases hq with ⟨id, rfl⟩ | rfl
  · exact ⟨(stepFree_sstate s id).1, (stepFree_sstate s id).2.2⟩
  · simp only [step, stepNewobj]; split <;> exact ⟨rfl, rfl⟩

theorem quiet_run_sstate (s : State) (ops : List Op) (hq : ∀ op ∈ ops, Quiet op) :
    (run s ops).sstate = s.sstate ∧ (run s ops).cfg = s.cfg := by
  induction ops generalizing s with
  | nil => exact ⟨rfl, rfl⟩
  | cons op ops ih =>
    have h1 := quiet_step_sstate s op (hq op (by simp))
    have h2 := ih (step s op).1 (fun o ho => hq o (List.mem_cons_of_mem _ ho))
    exact ⟨h2.1.trans h1.1, h2.2.trans h1.2⟩

/-- **`stack_storage` after warm-up.** A frame of `n` bytes that did not fit went to the heap and left its size in the
shared state; after any number of completions and further objects, an object constructed from that state serves
*every* frame of at most `n` bytes in place, without a heap call. -/
theorem warm_stack (s : State) (i : Nat) (hp : s.cfg.pol = Policy.stack i) (k n asz : Nat)
    (hk : s.objs[k]? = some asz) (hbig : ¬ need s.cfg n ≤ asz)
    (ops : List Op) (hq : ∀ op ∈ ops, Quiet op) (m : Nat) (hm : m ≤ n) :
    (step (step (run (step s (Op.alloc k n)).1 ops) Op.newobj).1
        (Op.alloc (run (step s (Op.alloc k n)).1 ops).objs.length m)).1.heap
      = (run (step s (Op.alloc k n)).1 ops).heap ∧
    (step (step (run (step s (Op.alloc k n)).1 ops) Op.newobj).1
        (Op.alloc (run (step s (Op.alloc k n)).1 ops).objs.length m)).2
      = Res.alloc (run (step s (Op.alloc k n)).1 ops).nextFrame (Blk.ext (run (step s (Op.alloc k n)).1 ops).objs.length) := by
  have h0 : (step s (Op.alloc k n)).1.sstate = need s.cfg n ∧ (step s (Op.alloc k n)).1.cfg = s.cfg := by
    simp only [step, stepAlloc, hp, hk, allocStack, hbig, if_false, addFrame]
    constructor <;> first | rfl | trivial
  have h1 := quiet_run_sstate (step s (Op.alloc k n)).1 ops hq
  generalize run (step s (Op.alloc k n)).1 ops = t at h1 ⊢
  have hst : t.sstate = need s.cfg n := h1.1.trans h0.1
  have hcfg : t.cfg = s.cfg := h1.2.trans h0.2
  have hpt : t.cfg.pol = Policy.stack i := by rw [hcfg]; exact hp
  have hnew : (step t Op.newobj).1 = { t with objs := t.objs ++ [t.sstate] } := by
    simp only [step, stepNewobj, hpt]
  rw [hnew]
  have hget : (t.objs ++ [t.sstate])[t.objs.length]? = some t.sstate := by simp
  have hfit : need t.cfg m ≤ t.sstate := by rw [hst, hcfg]; simp only [need]; omega
  simp only [step, stepAlloc, hpt, hget, allocStack, hfit, if_true, addFrame]
  constructor <;> first | rfl | trivial

/-- every state a storage object can be in: any sequence of frame creations / completions / policy-specific
operations, starting from a freshly constructed storage -/
def Reachable (c : Cfg) (s : State) : Prop := ∃ ops, s = run (init c) ops

theorem reachable_inv {c : Cfg} (hc : CfgOK c) {s : State} (h : Reachable c s) (hok : s.ok = true) : Inv s := by
  obtain ⟨ops, rfl⟩ := h
  exact inv_run (s := init c) hc (inv_init c) ops hok

theorem reachable_cfg {c : Cfg} {s : State} (h : Reachable c s) : s.cfg = c := by
  obtain ⟨ops, rfl⟩ := h
  exact run_cfg (init c) ops

theorem capBytes_mono_allocThrow {s : State} (hc : CfgOK s.cfg) (h : Inv s) (k sz : Nat)
    (hok : (stepAllocThrow s k sz).1.ok = true) : capBytes s ≤ capBytes (stepAllocThrow s k sz).1 := by
  have h1 : capBytes s ≤ capBytes (stepAlloc s k sz).1 :=
    capBytes_mono_step s hc h.mem.vsize_le (Op.alloc k sz) ⟨(fun e => by cases e), (fun e => by cases e), (fun _ _ => ⟨(fun e => by cases e), (fun e => by cases e)⟩)⟩
  unfold stepAllocThrow at hok ⊢
  split
  · rename_i id blk hres
    simp only [hres] at hok
    have hok2 : (stepFree (stepAlloc s k sz).1 id).1.ok = true := hok
    have hok1 := stepFree_ok_mono _ id hok2
    have hi1 : Inv (stepAlloc s k sz).1 := inv_stepAlloc hc h k sz hok1
    have hc1 : CfgOK (stepAlloc s k sz).1.cfg := by
      have : (stepAlloc s k sz).1.cfg = s.cfg := step_cfg s (Op.alloc k sz)
      rw [this]; exact hc
    have h2 : capBytes (stepAlloc s k sz).1 ≤ capBytes (stepFree (stepAlloc s k sz).1 id).1 :=
      capBytes_mono_step _ hc1 hi1.mem.vsize_le (Op.free id) ⟨(fun e => by cases e), (fun e => by cases e), (fun _ _ => ⟨(fun e => by cases e), (fun e => by cases e)⟩)⟩
    exact Nat.le_trans h1 h2
  · exact h1

theorem capBytes_mono_run {s : State} (hc : CfgOK s.cfg) (h : Inv s) (ops : List Op)
    (hnd : Op.destroy ∉ ops ∧ Op.swapobj ∉ ops ∧ ∀ k sz, Op.allocFail k sz ∉ ops)
    (hok : (run s ops).ok = true) : capBytes s ≤ capBytes (run s ops) := by
  induction ops generalizing s with
  | nil => exact Nat.le_refl _
  | cons op ops ih =>
    have hok1 : (step s op).1.ok = true := run_ok_mono _ ops hok
    have h1 : capBytes s ≤ capBytes (step s op).1 := by
      by_cases hth : ∃ k sz, op = Op.allocThrow k sz
      · obtain ⟨k, sz, rfl⟩ := hth
        exact capBytes_mono_allocThrow hc h k sz hok1
      · exact capBytes_mono_step s hc h.mem.vsize_le op
          ⟨fun e => hnd.1 (by simp [e]), fun e => hnd.2.1 (by simp [e]),
            fun k sz => ⟨fun e => hth ⟨k, sz, e⟩, fun e => hnd.2.2 k sz (by simp [e])⟩⟩
    have h2 := ih (s := (step s op).1) (by rw [step_cfg]; exact hc) (inv_step hc h op hok1)
      ⟨fun e => hnd.1 (List.mem_cons_of_mem _ e), fun e => hnd.2.1 (List.mem_cons_of_mem _ e),
        fun k sz e => hnd.2.2 k sz (List.mem_cons_of_mem _ e)⟩ hok
    exact Nat.le_trans h1 h2

end Cocls.Storage
