import CoclsModel.StorageProofs
namespace Cocls.Storage
theorem stepFree_sstate (s : State) (id : Nat) :
    (stepFree s id).1.sstate = s.sstate ∧ (stepFree s id).1.objs = s.objs ∧ (stepFree s id).1.cfg = s.cfg := by
  unfold stepFree
  cases hfind : s.frames.find? (fun f => f.id == id) with
  | none => exact ⟨rfl, rfl, rfl⟩
  | some f =>
    simp only [release]
    split
    · split <;> exact ⟨rfl, rfl, rfl⟩
    · split <;> exact ⟨rfl, rfl, rfl⟩

def Quiet (op : Op) : Prop := (∃ id, op = Op.free id) ∨ op = Op.newobj

theorem quiet_step_sstate (s : State) (op : Op) (hq : Quiet op) :
    (step s op).1.sstate = s.sstate ∧ (step s op).1.cfg = s.cfg := by
  rcases hq with ⟨id, rfl⟩ | rfl
  · exact ⟨(stepFree_sstate s id).1, (stepFree_sstate s id).2.2⟩
  · simp only [step, stepNewobj]; split <;> exact ⟨rfl, rfl⟩

theorem quiet_run_sstate (s : State) (ops : List Op) (hq : ∀ op ∈ ops, Quiet op) :
    (run s ops).sstate = s.sstate ∧ (run s ops).cfg = s.cfg := by
  induction ops generalizing s with
  | nil => exact ⟨rfl, rfl⟩
  | cons op ops ih =>
    have h1 := quiet_step_sstate s op (hq op (by simp))
    have h2 := ih (step s op).1 (fun o ho => hq o (List.mem_cons_of_mem _ ho))
    exact ⟨h2.1.trans h1.1, h2.2.trans h1.2⟩

/-- **`stack_storage` after warm-up.** A frame of `n` bytes that did not fit went to the heap and left its size in the
shared state; after any number of completions and further objects, an object constructed from that state serves
*every* frame of at most `n` bytes in place, without a heap call. -/
theorem warm_stack (s : State) (i : Nat) (hp : s.cfg.pol = Policy.stack i) (k n asz : Nat)
    (hk : s.objs[k]? = some asz) (hbig : ¬ need s.cfg n ≤ asz)
    (ops : List Op) (hq : ∀ op ∈ ops, Quiet op) (m : Nat) (hm : m ≤ n) :
    (step (step (run (step s (Op.alloc k n)).1 ops) Op.newobj).1
        (Op.alloc (run (step s (Op.alloc k n)).1 ops).objs.length m)).1.heap
      = (run (step s (Op.alloc k n)).1 ops).heap ∧
    (step (step (run (step s (Op.alloc k n)).1 ops) Op.newobj).1
        (Op.alloc (run (step s (Op.alloc k n)).1 ops).objs.length m)).2
      = Res.alloc (run (step s (Op.alloc k n)).1 ops).nextFrame (Blk.ext (run (step s (Op.alloc k n)).1 ops).objs.length) := by
  have h0 : (step s (Op.alloc k n)).1.sstate = need s.cfg n ∧ (step s (Op.alloc k n)).1.cfg = s.cfg := by
    simp only [step, stepAlloc, hp, hk, allocStack, hbig, if_false, addFrame]
    constructor <;> first | rfl | trivial
  have h1 := quiet_run_sstate (step s (Op.alloc k n)).1 ops hq
  generalize run (step s (Op.alloc k n)).1 ops = t at h1 ⊢
  have hst : t.sstate = need s.cfg n := h1.1.trans h0.1
  have hcfg : t.cfg = s.cfg := h1.2.trans h0.2
  have hpt : t.cfg.pol = Policy.stack i := by rw [hcfg]; exact hp
  have hnew : (step t Op.newobj).1 = { t with objs := t.objs ++ [t.sstate] } := by
    simp only [step, stepNewobj, hpt]
  rw [hnew]
  have hget : (t.objs ++ [t.sstate])[t.objs.length]? = some t.sstate := by simp
  have hfit : need t.cfg m ≤ t.sstate := by rw [hst, hcfg]; simp only [need]; omega
  simp only [step, stepAlloc, hpt, hget, allocStack, hfit, if_true, addFrame]
  constructor <;> first | rfl | trivial

/-- every state a storage object can be in: any sequence of frame creations / completions / policy-specific
operations, starting from a freshly constructed storage -/
def Reachable (c : Cfg) (s : State) : Prop := ∃ ops, s = run (init c) ops

theorem reachable_inv {c : Cfg} (hc : CfgOK c) {s : State} (h : Reachable c s) (hok : s.ok = true) : Inv s := by
  obtain ⟨ops, rfl⟩ := h
  exact inv_run (s := init c) hc (inv_init c) ops hok

theorem reachable_cfg {c : Cfg} {s : State} (h : Reachable c s) : s.cfg = c := by
  obtain ⟨ops, rfl⟩ := h
  exact run_cfg (init c) ops

theorem capBytes_mono_run {s : State} (hc : CfgOK s.cfg) (h : Inv s) (ops : List Op)
    (hnd : Op.destroy ∉ ops ∧ Op.swapobj ∉ ops)
    (hok : (run s ops).ok = true) : capBytes s ≤ capBytes (run s ops) := by
  induction ops generalizing s with
  | nil => exact Nat.le_refl _
  | cons op ops ih =>
    have hok1 : (step s op).1.ok = true := run_ok_mono _ ops hok
    have h1 := capBytes_mono_step s hc h.mem.vsize_le op ⟨fun e => hnd.1 (by simp [e]), fun e => hnd.2 (by simp [e])⟩
    have h2 := ih (s := (step s op).1) (by rw [step_cfg]; exact hc) (inv_step hc h op hok1)
      ⟨fun e => hnd.1 (List.mem_cons_of_mem _ e), fun e => hnd.2 (List.mem_cons_of_mem _ e)⟩ hok
    exact Nat.le_trans h1 h2

end Cocls.Storage
