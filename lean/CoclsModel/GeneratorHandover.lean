/-
Micro-step model of the hand-over at a `co_yield` between two threads (generator.h:143-157 and 193-232):

* thread **B** executes `yield_suspend::await_suspend` on behalf of the body it has just run (it completed the operation the body
  awaited): as the code is, `_arg = nullptr`, `caller = exchange(_caller, nullptr)`, then `caller->resume()` — the notification
  (`_block.store(true)`, the promise resolution, the consumer's callback) comes **last**;
* thread **A**, the consumer, may run as soon as it has been notified: its next access does `set_arg` (`_arg = &a`), the
  "Generator is busy" assert (`_caller == nullptr`), `_caller = &_internal`, `h.resume()` — the body then reads `*_arg`, and at its
  next `co_yield` it dereferences `_caller`.

Every interleaving of the two threads is a path of `Step`. `c13_yield_notifies_last` (Props/C13.lean) shows that with the as-is
order the next access always finds an idle generator, its argument reaches the body and its caller slot survives; the
`late` order (notify first, clear afterwards) has interleavings where the assert fires or the new argument / caller is wiped.
The same reasoning covers a re-entrant access issued from inside the notification (A's steps then run *inside* B's `notify`).
Core Lean only; everything is finite and decided by the kernel.
-/
namespace Cocls.Gen.Handover

/-- what `_arg` points at: nothing, the argument of the access that is being served, the argument of the next access -/
inductive ArgSt | null | old | new
  deriving DecidableEq, Repr

/-- micro-steps of `yield_suspend::await_suspend` -/
inductive BOp | clearArg | clearCaller | notify
  deriving DecidableEq, Repr

/-- generator.h as it is: clear both, notify last -/
def asIs : List BOp := [.clearArg, .clearCaller, .notify]
/-- the rejected variant: notify first, clear afterwards -/
def late : List BOp := [.notify, .clearCaller, .clearArg]

structure HS where
  pcB : Nat                 -- next micro-step of the yielding thread
  pcA : Nat                 -- next micro-step of the consumer's next access (4 = done)
  caller : Bool             -- `_caller != nullptr`
  arg : ArgSt               -- `_arg`
  notified : Bool           -- the consumer has been notified
  assertOk : Bool           -- the "Generator is busy" assert of the next access held
  got : Option ArgSt        -- what the body, resumed by the next access, read through `_arg`
  callerAtResume : Option Bool   -- whether `_caller` was still set when that body ran on (it is dereferenced at the next co_yield)
  deriving DecidableEq, Repr

def init : HS :=
  { pcB := 0, pcA := 0, caller := true, arg := .old, notified := false, assertOk := true, got := none, callerAtResume := none }

def stepB (prog : List BOp) (s : HS) : HS :=
  match prog[s.pcB]? with
  | some .clearArg => { s with pcB := s.pcB + 1, arg := .null }
  | some .clearCaller => { s with pcB := s.pcB + 1, caller := false }
  | some .notify => { s with pcB := s.pcB + 1, notified := true }
  | none => s

def stepA (s : HS) : HS :=
  match s.pcA with
  | 0 => { s with pcA := 1, arg := .new }                                         -- set_arg
  | 1 => { s with pcA := 2, assertOk := !s.caller }                               -- assert(_caller == nullptr)
  | 2 => { s with pcA := 3, caller := true }                                      -- _caller = &_internal
  | 3 => { s with pcA := 4, got := some s.arg, callerAtResume := some s.caller }  -- h.resume(): the body reads *_arg
  | _ => s

/-- one step of either thread; the consumer runs only once it has been notified -/
def succs (prog : List BOp) (s : HS) : List HS :=
  (if s.pcB < prog.length then [stepB prog s] else []) ++ (if s.notified && s.pcA < 4 then [stepA s] else [])

/-- every state reachable by any interleaving -/
inductive Reach (prog : List BOp) : HS → Prop
  | init : Reach prog init
  | step {s t : HS} : Reach prog s → t ∈ succs prog s → Reach prog t

/-- the as-is order admits exactly one interleaving: B's three steps, then A's four -/
def chain : List HS :=
  let b1 := stepB asIs init
  let b2 := stepB asIs b1
  let b3 := stepB asIs b2
  let a1 := stepA b3
  let a2 := stepA a1
  let a3 := stepA a2
  let a4 := stepA a3
  [init, b1, b2, b3, a1, a2, a3, a4]

theorem chain_closed : ∀ s ∈ chain, ∀ t ∈ succs asIs s, t ∈ chain := by decide

theorem reach_chain {s : HS} (h : Reach asIs s) : s ∈ chain := by
  induction h with
  | init => decide
  | step _ ht ih => exact chain_closed _ ih _ ht

theorem chain_ok : ∀ s ∈ chain, s.pcA = 4 → s.assertOk = true ∧ s.got = some .new ∧ s.callerAtResume = some true := by
  decide

end Cocls.Gen.Handover
