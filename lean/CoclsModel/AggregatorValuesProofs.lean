import CoclsModel.AggregatorValues
import CoclsModel.AggregatorProofs
/-!
Invariants of the value / result layer (`AggregatorValues.lean`): facts about one step of the aggregator model
(`step_src`: which source runs and what it leaves behind, `step_outcome`: a step either completes the access in progress
— with a value of a parked source, the end, or the stored exception — or hands nothing to the consumer), the bridge
`base_run`, and the invariant `VInv` (the object a parked source yielded holds the value the source put there; a source
finds the lvalue it yielded unchanged; what the consumer read — in whatever access style — is the sequence of delivered
values, and the end / the exception is the last thing it learned).
-/
namespace Cocls.AggV
open Cocls.Agg (Act SRes SSt Ag upd srcRun push charge popHandle finish aggStep stepNext stepResolve stepDestroy
  lateRead waiting isEnd)

/-! ## facts about one step of the aggregator model (`Agg.step`) -/

def pcAfter (c : Agg.Cfg) (pc : Nat → Nat) (k : Nat) : Nat → Nat :=
  match c.script k (pc k) with
  | some _ => upd pc k (pc k + 1)
  | none => pc

def resAfter (c : Agg.Cfg) (pc : Nat → Nat) (res : Nat → SRes) (k : Nat) : Nat → SRes :=
  match c.script k (pc k) with
  | some (Act.yield v) => upd res k (SRes.val v)
  | some (Act.throw e) => upd res k (SRes.exc e)
  | some _ => res
  | none => upd res k SRes.done

theorem srcRun_pc_res (c : Agg.Cfg) (s : Agg.State) (k : Nat) :
    (srcRun c s k).pc = pcAfter c s.pc k ∧ (srcRun c s k).res = resAfter c s.pc s.res k := by
  unfold srcRun push pcAfter resAfter
  split <;> simp_all

theorem popHandle_pc_res (s : Agg.State) : (popHandle s).pc = s.pc ∧ (popHandle s).res = s.res := by
  unfold popHandle
  split <;> (try split) <;> simp

theorem finish_pc_res (s : Agg.State) : (finish s).pc = s.pc ∧ (finish s).res = s.res := by
  unfold finish
  split <;> simp

/-- the only source coroutine that runs inside a step is `runner`, and it runs exactly one act -/
theorem step_src (c : Agg.Cfg) (b : Agg.State) (op : Agg.Op) :
    (Agg.step c b op).pc = (match runner c b op with | some k => pcAfter c b.pc k | none => b.pc) ∧
    (Agg.step c b op).res = (match runner c b op with | some k => resAfter c b.pc b.res k | none => b.res) := by
  cases op with
  | next a =>
    simp only [Agg.step, runner, stepNext]
    split <;> exact ⟨rfl, rfl⟩
  | destroy d =>
    simp only [Agg.step, runner, stepDestroy]
    split <;> exact ⟨rfl, rfl⟩
  | resolve k =>
    simp only [Agg.step, runner, stepResolve]
    by_cases h : b.st k = SSt.inflight
    · obtain ⟨l, hl⟩ := Agg.lateRead_eq c b k
      simp only [h, if_true, hl]
      exact srcRun_pc_res c { b with late := l } k
    · simp [h]
  | agg =>
    simp only [Agg.step, runner, aggStep]
    cases hag : b.ag with
    | charging i a =>
      simp only
      by_cases h : i < c.n
      · simp only [h, if_true, charge]
        exact srcRun_pc_res c { b with got := upd b.got i (b.got i ++ [a]), cell := upd b.cell i (some a) } i
      · simp [h]
    | recharge k a =>
      simp only [charge]
      exact srcRun_pc_res c { b with got := upd b.got k (b.got k ++ [a]), cell := upd b.cell k (some a) } k
    | loop =>
      simp only
      by_cases h : b.count = 0
      · simp only [h, if_true]; exact finish_pc_res b
      · simp only [h, if_false]
        split
        · exact ⟨rfl, rfl⟩
        · exact popHandle_pc_res b
    | woken => exact popHandle_pc_res b
    | draining =>
      simp only
      split
      · split <;> exact ⟨rfl, rfl⟩
      · exact ⟨rfl, rfl⟩
    | init => exact ⟨rfl, rfl⟩
    | parkedPop => exact ⟨rfl, rfl⟩
    | parkedYield k => exact ⟨rfl, rfl⟩
    | done => exact ⟨rfl, rfl⟩
    | failed e => exact ⟨rfl, rfl⟩
    | drainWait => exact ⟨rfl, rfl⟩
    | destroyed => exact ⟨rfl, rfl⟩
    | aborted => exact ⟨rfl, rfl⟩

/-- how an access completes -/
inductive Delivery (b b' : Agg.State) : Prop
  | value (k v : Nat) : b'.ag = Ag.parkedYield k → b'.out = b.out ++ [(k, v)] → b'.res k = SRes.val v → Delivery b b'
  | ended : b'.ag = Ag.done → b'.out = b.out → Delivery b b'
  | failed (e : Nat) : b'.ag = Ag.failed e → b'.out = b.out → Delivery b b'

/-- nothing is handed to the consumer and the aggregate does not end in this step -/
def Quiet (b b' : Agg.State) : Prop :=
  b'.out = b.out ∧ (b'.ag = Ag.done → b.ag = Ag.done) ∧ ∀ e, b'.ag = Ag.failed e → b.ag = Ag.failed e

def Outcome (b b' : Agg.State) : Prop :=
  (waiting b = true ∧ waiting b' = false ∧ Delivery b b') ∨ (¬ (waiting b = true ∧ waiting b' = false) ∧ Quiet b b')

theorem popHandle_outcome (s : Agg.State) (hw : waiting s = true) : Outcome s (popHandle s) := by
  unfold popHandle
  split
  · exact Or.inr ⟨by simp [hw], rfl, id, fun _ => id⟩
  · rename_i k r hq
    split
    · exact Or.inr ⟨by simp [waiting], rfl, by simp, by simp⟩
    · exact Or.inr ⟨by simp [waiting], rfl, by simp, by simp⟩
    · rename_i v hv
      exact Or.inl ⟨hw, by simp [waiting], Delivery.value k v rfl rfl hv⟩
    · exact Or.inr ⟨by simp [hw], rfl, id, fun _ => id⟩

theorem srcRun_outcome (c : Agg.Cfg) (s : Agg.State) (k : Nat) (s0 : Agg.State) (h0 : s0.out = s.out) (ha : s0.ag = s.ag) :
    Outcome s0 (srcRun c s k) := by
  have hg := (Agg.srcRun_ghost c s k).2.2.1
  have hag := Agg.srcRun_ag c s k
  refine Or.inr ⟨?_, by rw [hg, h0], ?_, ?_⟩
  · rcases hag with h | ⟨h1, h2⟩ | ⟨h1, h2⟩
    · simp [waiting, ha, h]
    · simp [waiting, ha, h1, h2]
    · simp [waiting, ha, h1, h2]
  · rcases hag with h | ⟨h1, h2⟩ | ⟨h1, h2⟩
    · simp [ha, h]
    · simp [h2]
    · simp [h2]
  · rcases hag with h | ⟨h1, h2⟩ | ⟨h1, h2⟩
    · simp [ha, h]
    · simp [h2]
    · simp [h2]

theorem step_outcome (c : Agg.Cfg) (b : Agg.State) (op : Agg.Op) : Outcome b (Agg.step c b op) := by
  cases op with
  | next a =>
    simp only [Agg.step, stepNext]
    split
    · exact Or.inr ⟨by simp [waiting], rfl, by simp, by simp⟩
    · exact Or.inr ⟨by simp [waiting], rfl, by simp, by simp⟩
    · exact Or.inr ⟨by simp, rfl, id, fun _ => id⟩
  | destroy d =>
    simp only [Agg.step, stepDestroy]
    split
    all_goals first
      | exact Or.inr ⟨by simp_all [waiting], rfl, by simp, by simp⟩
      | exact Or.inr ⟨by simp, rfl, id, fun _ => id⟩
  | resolve k =>
    simp only [Agg.step, stepResolve]
    by_cases h : b.st k = SSt.inflight
    · obtain ⟨l, hl⟩ := Agg.lateRead_eq c b k
      simp only [h, if_true, hl]
      exact srcRun_outcome c { b with late := l } k b rfl rfl
    · simp only [h, if_false]
      exact Or.inr ⟨by simp, rfl, id, fun _ => id⟩
  | agg =>
    simp only [Agg.step, aggStep]
    cases hag : b.ag with
    | charging i a =>
      simp only
      by_cases h : i < c.n
      · simp only [h, if_true, charge]
        have hg := (Agg.srcRun_ghost c { b with got := upd b.got i (b.got i ++ [a]), cell := upd b.cell i (some a) } i).2.2.1
        exact Or.inr ⟨by simp [waiting], hg, by simp, by simp⟩
      · simp only [h, if_false]
        exact Or.inr ⟨by simp [waiting], rfl, by simp, by simp⟩
    | recharge k a =>
      simp only [charge]
      have hg := (Agg.srcRun_ghost c { b with got := upd b.got k (b.got k ++ [a]), cell := upd b.cell k (some a) } k).2.2.1
      exact Or.inr ⟨by simp [waiting], hg, by simp, by simp⟩
    | loop =>
      have hw : waiting b = true := by simp [waiting, hag]
      simp only
      by_cases h : b.count = 0
      · simp only [h, if_true]
        unfold finish
        split
        · exact Or.inl ⟨hw, by simp [waiting], Delivery.ended rfl rfl⟩
        · rename_i e he
          exact Or.inl ⟨hw, by simp [waiting], Delivery.failed e rfl rfl⟩
      · simp only [h, if_false]
        split
        · exact Or.inr ⟨by simp [waiting], rfl, by simp, by simp⟩
        · exact popHandle_outcome b hw
    | woken => exact popHandle_outcome b (by simp [waiting, hag])
    | draining =>
      simp only
      split
      · split
        · exact Or.inr ⟨by simp [waiting, hag], rfl, by simp, by simp⟩
        · exact Or.inr ⟨by simp [waiting, hag], rfl, by simp [hag], by simp [hag]⟩
      · exact Or.inr ⟨by simp [waiting, hag], rfl, by simp, by simp⟩
    | init => exact Or.inr ⟨by simp [waiting, hag], rfl, by simp [hag], by simp [hag]⟩
    | parkedPop => exact Or.inr ⟨by simp [waiting, hag], rfl, by simp [hag], by simp [hag]⟩
    | parkedYield k => exact Or.inr ⟨by simp [waiting, hag], rfl, by simp [hag], by simp [hag]⟩
    | done => exact Or.inr ⟨by simp [waiting, hag], rfl, by simp [hag], by simp [hag]⟩
    | failed e => exact Or.inr ⟨by simp [waiting, hag], rfl, by simp [hag], by simp [hag]⟩
    | drainWait => exact Or.inr ⟨by simp [waiting, hag], rfl, by simp [hag], by simp [hag]⟩
    | destroyed => exact Or.inr ⟨by simp [waiting, hag], rfl, by simp [hag], by simp [hag]⟩
    | aborted => exact Or.inr ⟨by simp [waiting, hag], rfl, by simp [hag], by simp [hag]⟩

/-! ## the layer's own steps -/

theorem deliver_fields (s : State) :
    (deliver s).base = s.base ∧ (deliver s).slot = s.slot ∧ (deliver s).kept = s.kept ∧
    (deliver s).obs = s.obs ++ [(s.acc, report s.acc (promiseOf s.base) s.slot)] := by
  unfold deliver report
  split <;> simp_all

theorem report_yielded (st : Style) (k : Nat) (slot : Nat → Option Nat) :
    report st (PSt.yielded k) slot = Rep.val (slot k) := by
  cases st <;> rfl

theorem report_finished (st : Style) (slot : Nat → Option Nat) : report st PSt.finished slot = Rep.ended := by
  cases st <;> rfl

theorem report_threw (st : Style) (e : Nat) (slot : Nat → Option Nat) : report st (PSt.threw e) slot = Rep.exc e := by
  cases st <;> rfl

theorem noteStyle_fields (s : State) (op : Op) :
    (noteStyle s op).base = s.base ∧ (noteStyle s op).slot = s.slot ∧ (noteStyle s op).kept = s.kept ∧
    (noteStyle s op).obs = s.obs := by
  unfold noteStyle
  split
  · split <;> simp
  · simp

theorem reread_fields (c : Cfg) (s : State) (k : Nat) :
    (reread c s k).base = s.base ∧ (reread c s k).slot = s.slot ∧ (reread c s k).obs = s.obs ∧
    (reread c s k).kept = (match yieldedLval c s.base k with
      | some v => upd s.kept k (s.kept k ++ [(v, s.slot k)])
      | none => s.kept) := by
  unfold reread
  split <;> simp_all

theorem produce_fields (c : Cfg) (s : State) (k : Nat) :
    (produce c s k).base = s.base ∧ (produce c s k).kept = s.kept ∧ (produce c s k).obs = s.obs ∧
    (produce c s k).slot = (match c.base.script k (s.base.pc k) with
      | some (Act.yield v) => upd s.slot k (some v)
      | _ => s.slot) := by
  unfold produce
  split <;> simp_all

theorem srcSide_base (c : Cfg) (s : State) (op : Agg.Op) :
    (srcSide c s op).base = s.base ∧ (srcSide c s op).obs = s.obs := by
  unfold srcSide
  split
  · rw [(produce_fields c _ _).1, (reread_fields c _ _).1, (produce_fields c _ _).2.2.1, (reread_fields c _ _).2.2.1]
    exact ⟨rfl, rfl⟩
  · exact ⟨rfl, rfl⟩

theorem stepG_base (d : State → State) (hd : ∀ s, (d s).base = s.base) (c : Cfg) (s : State) (op : Op) :
    (stepG d c s op).base = Agg.step c.base s.base (erase op) := by
  unfold stepG
  split
  · rw [hd]; rfl
  · rfl

/-- **Bridge.**  Every step of this layer is a step of the aggregator model on `base`. -/
theorem step_base (c : Cfg) (s : State) (op : Op) : (step c s op).base = Agg.step c.base s.base (erase op) :=
  stepG_base deliver (fun s => (deliver_fields s).1) c s op

theorem base_run (c : Cfg) (s : State) (ops : List Op) :
    (run c s ops).base = Agg.run c.base s.base (ops.map erase) := by
  induction ops generalizing s with
  | nil => rfl
  | cons op ops ih =>
    simp only [run, List.foldl_cons, List.map_cons, Agg.run] at ih ⊢
    rw [ih, step_base]

/-! ## invariant -/

def repVal : Style × Rep → Option (Option Nat)
  | (_, Rep.val v) => some v
  | _ => none

structure VInv (c : Cfg) (s : State) : Prop where
  /-- the object a parked source yielded still holds the value the source put there -/
  slot_ok : ∀ k v, s.base.res k = SRes.val v → s.slot k = some v
  prev_ok : ∀ k v, 0 < s.base.pc k → c.base.script k (s.base.pc k - 1) = some (Act.yield v) →
    s.base.res k = SRes.val v ∨ isEnd (s.base.res k) = true
  kept_ok : ∀ k p, p ∈ s.kept k → p.2 = some p.1
  obs_vals : s.obs.filterMap repVal = s.base.out.map (fun p => some p.2)
  obs_done : s.base.ag = Ag.done → ∃ st, s.obs.getLast? = some (st, Rep.ended)
  obs_failed : ∀ e, s.base.ag = Ag.failed e → ∃ st, s.obs.getLast? = some (st, Rep.exc e)

theorem vinv_init (c : Cfg) : VInv c init := by
  refine ⟨?_, ?_, ?_, ?_, ?_, ?_⟩ <;> simp [init]

/-- a source that is resumed has not ended -/
theorem runner_not_ended {c : Agg.Cfg} {b : Agg.State} (hb : Agg.Inv c b) (op : Agg.Op) (k : Nat)
    (hr : runner c b op = some k) : isEnd (b.res k) = false := by
  have hst : b.st k = SSt.fresh ∨ b.st k = SSt.cur ∨ b.st k = SSt.inflight := by
    cases op with
    | next a => simp [runner] at hr
    | destroy d => simp [runner] at hr
    | resolve j =>
      simp only [runner] at hr
      by_cases h : b.st j = SSt.inflight
      · simp only [h, if_true, Option.some.injEq] at hr
        subst hr; exact Or.inr (Or.inr h)
      · simp [h] at hr
    | agg =>
      simp only [runner] at hr
      cases hag : b.ag <;> simp only [hag] at hr <;> try (simp at hr; done)
      · rename_i i a
        by_cases h : i < c.n
        · simp only [h, if_true, Option.some.injEq] at hr
          subst hr
          exact Or.inl (hb.ctl.charging_fresh i a hag i (Nat.le_refl i))
        · simp [h] at hr
      · rename_i j a
        simp only [Option.some.injEq] at hr
        subst hr
        exact Or.inr (Or.inl (hb.ctl.recharge_cur j a hag))
  cases he : isEnd (b.res k) with
  | false => rfl
  | true =>
    have := hb.vals.ended_st k he
    rcases hst with h | h | h <;> simp [h] at this

theorem mid_inv (c : Cfg) (s : State) (op : Op) (h : VInv c s) (hb : Agg.Inv c.base s.base) :
    (∀ k v, (Agg.step c.base s.base (erase op)).res k = SRes.val v →
        (srcSide c (noteStyle s op) (erase op)).slot k = some v) ∧
    (∀ k v, 0 < (Agg.step c.base s.base (erase op)).pc k →
        c.base.script k ((Agg.step c.base s.base (erase op)).pc k - 1) = some (Act.yield v) →
        (Agg.step c.base s.base (erase op)).res k = SRes.val v ∨ isEnd ((Agg.step c.base s.base (erase op)).res k) = true) ∧
    (∀ k p, p ∈ (srcSide c (noteStyle s op) (erase op)).kept k → p.2 = some p.1) := by
  obtain ⟨hpc, hres⟩ := step_src c.base s.base (erase op)
  obtain ⟨nb, ns, nk, _⟩ := noteStyle_fields s op
  unfold srcSide
  rw [nb]
  cases hr : runner c.base s.base (erase op) with
  | none =>
    simp only [hr] at hpc hres ⊢
    rw [hpc, hres, ns, nk]
    exact ⟨h.slot_ok, h.prev_ok, h.kept_ok⟩
  | some k =>
    simp only [hr] at hpc hres ⊢
    obtain ⟨pb, pk, _, ps⟩ := produce_fields c (reread c (noteStyle s op) k) k
    obtain ⟨rb, rs, _, rk⟩ := reread_fields c (noteStyle s op) k
    rw [ps, pk, rk, rb, rs, nb, ns, nk, hpc, hres]
    have hne := runner_not_ended hb (erase op) k hr
    refine ⟨?_, ?_, ?_⟩
    · intro j v
      unfold resAfter
      by_cases hj : j = k
      · subst hj
        cases hact : c.base.script j (s.base.pc j) with
        | none => simp
        | some act =>
          cases act with
          | yield v0 => simp
          | throw e => simp
          | await => simp only; exact h.slot_ok j v
          | awaitRead => simp only; exact h.slot_ok j v
      · cases hact : c.base.script k (s.base.pc k) with
        | none => simp [hj]; exact h.slot_ok j v
        | some act =>
          cases act <;> simp [hj] <;> exact h.slot_ok j v
    · intro j v
      unfold pcAfter resAfter
      by_cases hj : j = k
      · subst hj
        cases hact : c.base.script j (s.base.pc j) with
        | none =>
          simp only [Agg.upd_same]
          intro _ _
          exact Or.inr rfl
        | some act =>
          simp only [Agg.upd_same, Nat.add_sub_cancel, hact]
          intro _ hy
          cases act with
          | yield v0 =>
            simp only [Option.some.injEq, Act.yield.injEq] at hy
            subst hy
            simp
          | throw e => simp at hy
          | await => simp at hy
          | awaitRead => simp at hy
      · cases hact : c.base.script k (s.base.pc k) with
        | none => simp [hj]; exact h.prev_ok j v
        | some act =>
          cases act <;> simp [hj] <;> exact h.prev_ok j v
    · intro j p
      cases hy : yieldedLval c s.base k with
      | none => simp only; exact h.kept_ok j p
      | some v =>
        simp only
        by_cases hj : j = k
        · subst hj
          simp only [Agg.upd_same, List.mem_append, List.mem_singleton]
          rintro (hm | rfl)
          · exact h.kept_ok j p hm
          · simp only
            unfold yieldedLval at hy
            split at hy
            · rename_i hc
              split at hy
              · rename_i v' hs
                simp only [Option.some.injEq] at hy
                subst hy
                rcases h.prev_ok j v' hc.1 hs with h1 | h1
                · exact h.slot_ok j v' h1
                · rw [hne] at h1; cases h1
              · cases hy
            · cases hy
        · simp only [Agg.upd_other _ _ _ _ hj]
          exact h.kept_ok j p

theorem vinv_step (c : Cfg) (s : State) (op : Op) (h : VInv c s) (hb : Agg.Inv c.base s.base) :
    VInv c (step c s op) := by
  obtain ⟨m1, m2, m3⟩ := mid_inv c s op h hb
  obtain ⟨sb, so⟩ := srcSide_base c (noteStyle s op) (erase op)
  obtain ⟨_, _, _, no⟩ := noteStyle_fields s op
  unfold step stepG
  rcases step_outcome c.base s.base (erase op) with ⟨hw, hn, hd⟩ | ⟨hq, ho, hdn, hfl⟩
  · simp only [hw, hn, and_self, if_true]
    obtain ⟨db, ds, dk, dobs⟩ := deliver_fields (setBase (srcSide c (noteStyle s op) (erase op)) (Agg.step c.base s.base (erase op)))
    have hobs0 : (setBase (srcSide c (noteStyle s op) (erase op)) (Agg.step c.base s.base (erase op))).obs = s.obs := by
      simp only [setBase]; rw [so, no]
    rw [hobs0] at dobs
    simp only [setBase] at db ds dk dobs ⊢
    cases hd with
    | value k v hag hout hres =>
      have hp : promiseOf (Agg.step c.base s.base (erase op)) = PSt.yielded k := by simp [promiseOf, hag]
      rw [hp, report_yielded, m1 k v hres] at dobs
      refine ⟨?_, ?_, ?_, ?_, ?_, ?_⟩
      · rw [db, ds]; exact m1
      · rw [db]; exact m2
      · rw [dk]; exact m3
      · rw [dobs, db, hout, List.filterMap_append, h.obs_vals]; simp [repVal]
      · rw [db, hag]; intro hx; cases hx
      · rw [db, hag]; intro e hx; cases hx
    | ended hag hout =>
      have hp : promiseOf (Agg.step c.base s.base (erase op)) = PSt.finished := by simp [promiseOf, hag]
      rw [hp, report_finished] at dobs
      refine ⟨?_, ?_, ?_, ?_, ?_, ?_⟩
      · rw [db, ds]; exact m1
      · rw [db]; exact m2
      · rw [dk]; exact m3
      · rw [dobs, db, hout, List.filterMap_append, h.obs_vals]; simp [repVal]
      · intro _; rw [dobs]; exact ⟨(srcSide c (noteStyle s op) (erase op)).acc, by simp⟩
      · rw [db, hag]; intro e hx; cases hx
    | failed e hag hout =>
      have hp : promiseOf (Agg.step c.base s.base (erase op)) = PSt.threw e := by simp [promiseOf, hag]
      rw [hp, report_threw] at dobs
      refine ⟨?_, ?_, ?_, ?_, ?_, ?_⟩
      · rw [db, ds]; exact m1
      · rw [db]; exact m2
      · rw [dk]; exact m3
      · rw [dobs, db, hout, List.filterMap_append, h.obs_vals]; simp [repVal]
      · rw [db, hag]; intro hx; cases hx
      · rw [db, hag]; intro e' hx
        simp only [Ag.failed.injEq] at hx
        subst hx
        rw [dobs]; exact ⟨(srcSide c (noteStyle s op) (erase op)).acc, by simp⟩
  · simp only [hq, if_false]
    refine ⟨?_, ?_, ?_, ?_, ?_, ?_⟩ <;> simp only [setBase]
    · exact m1
    · exact m2
    · exact m3
    · rw [so, no, ho]; exact h.obs_vals
    · intro hx; rw [so, no]; exact h.obs_done (hdn hx)
    · intro e hx; rw [so, no]; exact h.obs_failed e (hfl e hx)

theorem vinv_run (c : Cfg) (s : State) (ops : List Op) (h : VInv c s) (hb : Agg.Inv c.base s.base) :
    VInv c (run c s ops) ∧ Agg.Inv c.base (run c s ops).base := by
  induction ops generalizing s with
  | nil => exact ⟨h, hb⟩
  | cons op ops ih =>
    simp only [run, List.foldl_cons] at ih ⊢
    refine ih (step c s op) (vinv_step c s op h hb) ?_
    rw [step_base]
    exact Agg.inv_step c.base s.base (erase op) hb

/-- the access in progress completes in the style the consumer chose: `acc` is not touched while the aggregator works -/
theorem srcSide_acc (c : Cfg) (s : State) (op : Agg.Op) : (srcSide c s op).acc = s.acc := by
  unfold srcSide
  split
  · unfold produce reread
    split <;> split <;> rfl
  · rfl

theorem noteStyle_acc_waiting (s : State) (op : Op) (hw : waiting s.base = true) : (noteStyle s op).acc = s.acc := by
  unfold noteStyle
  split
  · simp [hw]
  · rfl

theorem step_completes_in_style (c : Cfg) (s : State) (op : Op) (hw : waiting s.base = true)
    (hn : waiting (Agg.step c.base s.base (erase op)) = false) :
    (step c s op).obs = s.obs ++ [(s.acc, report s.acc (promiseOf (step c s op).base) (step c s op).slot)] := by
  rw [step_base]
  unfold step stepG
  simp only [hw, hn, and_self, if_true]
  obtain ⟨_, ds, _, dobs⟩ := deliver_fields (setBase (srcSide c (noteStyle s op) (erase op)) (Agg.step c.base s.base (erase op)))
  rw [dobs, ds]
  simp only [setBase]
  rw [srcSide_acc, noteStyle_acc_waiting s op hw, (srcSide_base c _ _).2, (noteStyle_fields s op).2.2.2]

theorem step_next_style (c : Cfg) (s : State) (a : Nat) (st : Style) (hw : waiting s.base = false) :
    (step c s (Op.next a st)).acc = st := by
  have hq : ¬ (waiting s.base = true ∧ waiting (Agg.step c.base s.base (erase (Op.next a st))) = false) := by simp [hw]
  unfold step stepG
  simp only [hq, if_false, setBase]
  rw [srcSide_acc]
  simp [noteStyle, hw]

end Cocls.AggV
