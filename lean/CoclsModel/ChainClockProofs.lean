import CoclsModel.ChainClock
import CoclsModel.ChainProofs
/-!
Race freedom of the whole promise / future / awaiter-chain protocol on the happens-before machine of `ChainClock.lean`:
the clock-domination invariant `Inv` (it contains `Chain.Inv` of the base state), its preservation by every step of every agent
under every stale-read choice, `chain_race_free`, `chain_sees_payload`, the necessity witnesses, and the bridge `base_latest`
to `Chain.run`.

Structure: all steps but the publishing CAS and the resolving exchange only make clocks grow, read the payload, touch the
stepping waiter's own unpublished node or store a flag — relation `Mono`, closed under composition — and are handled by one frame
lemma (`inv_frame`); `inv_casOk` and `inv_resolve` are the two steps where a release sequence is extended.
-/

namespace Cocls.ChainClock
open Cocls
open Cocls.Clock (VC relVc acqVc tickIf)
open Cocls.Chain (Cfg Pc Act WK Kind RK Slot Seen Outcome)

/-! ### vector-clock facts -/

theorem le_acqVc (ord : Order) (c m : VC) (i : Nat) : c i ≤ acqVc ord c m i := by
  simp only [Clock.acqVc_apply]; split <;> omega
theorem le_acqVc_msg (ord : Order) (h : ord.isAcq = true) (c m : VC) (i : Nat) : m i ≤ acqVc ord c m i := by
  simp only [Clock.acqVc_apply, h, if_true]; omega
theorem le_tickIf (ord : Order) (c : VC) (t i : Nat) : c i ≤ tickIf ord c t i := by
  simp only [Clock.tickIf_apply]; split <;> (try split) <;> omega
theorem le_relVc (ord : Order) (h : ord.isRel = true) (c : VC) (i : Nat) : c i ≤ relVc ord c i := by
  simp only [Clock.relVc_apply, h, if_true]; omega
theorem le_join_left (a b : VC) (i : Nat) : a i ≤ VC.join a b i := by simp only [VC.join_apply]; omega
theorem le_join_right (a b : VC) (i : Nat) : b i ≤ VC.join a b i := by simp only [VC.join_apply]; omega

theorem upd_mono (f : Nat → VC) (t : Nat) (v : VC) (h : ∀ i, f t i ≤ v i) (u i : Nat) : f u i ≤ Clock.upd f t v u i := by
  rw [Clock.upd_apply2]; split
  · subst_vars; exact h i
  · omega

/-! ### FastTrack facts -/

/-- every epoch of the location is below the clock `v` -/
def FT.le (f : FT) (v : VC) : Prop := f.wr.2 ≤ v f.wr.1 ∧ ∀ e ∈ f.rd, e.2 ≤ v e.1
/-- the location has been accessed by thread `x` only, at epochs `≤ n` -/
def FT.own (f : FT) (x n : Nat) : Prop :=
  (f.wr.2 = 0 ∨ (f.wr.1 = x ∧ f.wr.2 ≤ n)) ∧ ∀ e ∈ f.rd, (e.2 = 0 ∨ (e.1 = x ∧ e.2 ≤ n))

theorem FT.init_own (x n : Nat) : FT.init.own x n := by simp [FT.own, FT.init]

theorem FT.own_mono {f : FT} {x n m : Nat} (h : f.own x n) (hm : n ≤ m) : f.own x m := by
  refine ⟨?_, fun e he => ?_⟩
  · rcases h.1 with h1 | ⟨h1, h2⟩
    · exact Or.inl h1
    · exact Or.inr ⟨h1, by omega⟩
  · rcases h.2 e he with h1 | ⟨h1, h2⟩
    · exact Or.inl h1
    · exact Or.inr ⟨h1, by omega⟩

theorem FT.own_le {f : FT} {x n : Nat} {v : VC} (h : f.own x n) (hv : n ≤ v x) : f.le v := by
  refine ⟨?_, fun e he => ?_⟩
  · rcases h.1 with h1 | ⟨h1, h2⟩
    · omega
    · rw [h1]; omega
  · rcases h.2 e he with h1 | ⟨h1, h2⟩
    · omega
    · rw [h1]; omega

theorem FT.le_mono {f : FT} {v w : VC} (h : f.le v) (hw : ∀ i, v i ≤ w i) : f.le w :=
  ⟨Nat.le_trans h.1 (hw _), fun e he => Nat.le_trans (h.2 e he) (hw _)⟩

theorem FT.own_read {f : FT} {x n : Nat} {c : VC} (h : f.own x n) (hc : c x ≤ n) : (f.read x c).own x n := by
  refine ⟨h.1, fun e he => ?_⟩
  simp only [FT.read, List.mem_cons] at he
  rcases he with he | he
  · subst he; exact Or.inr ⟨rfl, hc⟩
  · exact h.2 e he

theorem FT.own_write (f : FT) {x n : Nat} {c : VC} (hc : c x ≤ n) : (f.write x c).own x n := by
  refine ⟨Or.inr ⟨rfl, hc⟩, fun e he => ?_⟩
  simp [FT.write] at he

theorem norace_of_le {f : FT} {c : VC} (h : f.le c) : wrRace f c = false ∧ rdRace f c = false := by
  have h1 : ordW f c = true := by simp [ordW, h.1]
  have h2 : ordR f c = true := by
    simp only [ordR, List.all_eq_true, decide_eq_true_eq]
    exact h.2
  simp [wrRace, rdRace, h1, h2]

theorem norace_of_own {f : FT} {x : Nat} {c : VC} (h : f.own x (c x)) : wrRace f c = false ∧ rdRace f c = false :=
  norace_of_le (FT.own_le h (Nat.le_refl _))

/-! ### the invariant -/

/-- Clock domination for the whole protocol.  `cinv`: the base state satisfies the invariant of `Chain.lean` (single winner, chain =
subscribed waiters, who reads when).  Payload: untouched while the slot is still a chain (`payChain`); its only write is the winner's,
inside the winner's own clock (`payW`, `paySelf`), a real epoch whenever the future holds something (`pos`, `payReal`); the latest slot
message once it is the ready marker (`slotPub`), every set flag (`flagPub`) and every waiter about to read (`rdr`) carry that write;
no older slot message is the marker (`oldNR`: what a stale `ready()` load can return).  Nodes: the node of a waiter that has not
subscribed has been accessed by that waiter only, within its own clock (`nodePriv`); every epoch of a node that is in the chain is
below the release-sequence clock of the latest slot message (`nodePub`) — what the acquiring exchange hands to the walker.
`ownerRs` (the `_owner` location: `claim`, `~promise` load) and `pend` occur nowhere. -/
structure Inv (c : Cfg) (s : St) : Prop where
  cinv : Chain.Inv c s.base
  nr : s.raced = false
  payChain : ∀ l, s.base.slot = Slot.chain l → s.pay.wr.2 = 0 ∧ s.pay.rd = []
  payW : ∀ w, s.base.winner = some w → s.pay.wr.2 = 0 ∨ s.pay.wr.1 = w
  paySelf : s.pay.wr.2 ≤ s.clk s.pay.wr.1 s.pay.wr.1
  slotPub : s.base.slot = Slot.ready → s.pay.wr.2 ≤ s.slotRs s.pay.wr.1
  oldNR : ∀ m ∈ s.slotOld, m.1 = false
  flagPub : ∀ x, s.base.flag x = true → s.pay.wr.2 ≤ s.flagRs x s.pay.wr.1
  rdr : ∀ t, s.base.pc t = Pc.wRead → s.pay.wr.2 ≤ s.clk t s.pay.wr.1
  nodePriv : ∀ x, s.base.subscribed x = false → (s.nxt x).own x (s.clk x x) ∧ (s.hnd x).own x (s.clk x x)
  nodePub : ∀ l, s.base.slot = Slot.chain l → ∀ y ∈ l, (s.nxt y).le s.slotRs ∧ (s.hnd y).le s.slotRs
  pos : ∀ t, 1 ≤ s.clk t t
  payReal : s.base.payload ≠ Outcome.none → 1 ≤ s.pay.wr.2

theorem inv_init (c : Cfg) : Inv c (init c) := by
  refine ⟨Chain.inv_init c, rfl, ?_, ?_, ?_, ?_, ?_, ?_, ?_, ?_, ?_, ?_, ?_⟩ <;>
    simp [init, FT.init, Chain.init, FT.own, FT.le, Clock.VC.init, Clock.upd_apply]

/-- what a step of agent `t` that is not the publishing CAS / the resolving exchange does to the happens-before state -/
structure Mono (t : Nat) (s s' : St) : Prop where
  raced : s'.raced = s.raced
  paywr : s'.pay.wr = s.pay.wr
  nxt : ∀ x, x ≠ t → s'.nxt x = s.nxt x
  hnd : ∀ x, x ≠ t → s'.hnd x = s.hnd x
  nxtT : (s.nxt t).own t (s.clk t t) → (s'.nxt t).own t (s'.clk t t)
  hndT : (s.hnd t).own t (s.clk t t) → (s'.hnd t).own t (s'.clk t t)
  slotRs : s'.slotRs = s.slotRs
  slotOld : s'.slotOld = s.slotOld
  clk : ∀ u i, s.clk u i ≤ s'.clk u i
  flag : ∀ x, s'.flagRs x = s.flagRs x ∨ s.pay.wr.2 ≤ s'.flagRs x s.pay.wr.1

theorem Mono.refl (t : Nat) (s : St) : Mono t s s :=
  ⟨rfl, rfl, fun _ _ => rfl, fun _ _ => rfl, id, id, rfl, rfl, fun _ _ => Nat.le_refl _, fun _ => Or.inl rfl⟩

theorem Mono.trans {t : Nat} {s s' s'' : St} (a : Mono t s s') (b : Mono t s' s'') : Mono t s s'' := by
  refine ⟨b.raced.trans a.raced, b.paywr.trans a.paywr, fun x hx => (b.nxt x hx).trans (a.nxt x hx),
    fun x hx => (b.hnd x hx).trans (a.hnd x hx), fun h => b.nxtT (a.nxtT h), fun h => b.hndT (a.hndT h),
    b.slotRs.trans a.slotRs, b.slotOld.trans a.slotOld, fun u i => Nat.le_trans (a.clk u i) (b.clk u i), fun x => ?_⟩
  rcases b.flag x with h | h
  · rw [h]; exact a.flag x
  · right; rw [a.paywr] at h; exact h

/-- the frame lemma -/
theorem inv_frame {c : Cfg} {t : Nat} {s s' : St} (h : Inv c s) (m : Mono t s s') (b' : Chain.State)
    (hb : Chain.Inv c b') (hslot : b'.slot = s.base.slot) (hsub : b'.subscribed = s.base.subscribed)
    (hpay : b'.payload = s.base.payload)
    (hwin : ∀ w, b'.winner = some w → s.base.winner = some w ∨ ∃ l, s.base.slot = Slot.chain l)
    (hrd : s'.pay.rd = s.pay.rd ∨ s.base.slot = Slot.ready)
    (hself : s.base.subscribed t = false ∨ (s'.nxt t = s.nxt t ∧ s'.hnd t = s.hnd t))
    (hflag : ∀ x, b'.flag x = true → s.base.flag x = true ∨ s.pay.wr.2 ≤ s'.flagRs x s.pay.wr.1)
    (hpc : ∀ u, b'.pc u = Pc.wRead → s.base.pc u = Pc.wRead ∨ s.pay.wr.2 ≤ s'.clk u s.pay.wr.1) :
    Inv c (setBase s' b') := by
  have hnx : ∀ x, s.base.subscribed x = true → s'.nxt x = s.nxt x ∧ s'.hnd x = s.hnd x := by
    intro x hx
    by_cases hxt : x = t
    · subst hxt
      rcases hself with h1 | h1
      · rw [h1] at hx; cases hx
      · exact h1
    · exact ⟨m.nxt x hxt, m.hnd x hxt⟩
  refine ⟨hb, m.raced.trans h.nr, ?_, ?_, ?_, ?_, ?_, ?_, ?_, ?_, ?_, fun u => Nat.le_trans (h.pos u) (m.clk u u), ?_⟩ <;>
    simp only [setBase, m.paywr, m.slotRs, m.slotOld]
  · intro l hl
    rw [hslot] at hl
    refine ⟨(h.payChain l hl).1, ?_⟩
    rcases hrd with h1 | h1
    · rw [h1]; exact (h.payChain l hl).2
    · rw [h1] at hl; cases hl
  · intro w hw
    rcases hwin w hw with h1 | ⟨l, hl⟩
    · exact h.payW w h1
    · exact Or.inl (h.payChain l hl).1
  · exact Nat.le_trans h.paySelf (m.clk _ _)
  · intro hs; rw [hslot] at hs; exact h.slotPub hs
  · exact h.oldNR
  · intro x hx
    rcases hflag x hx with h1 | h1
    · rcases m.flag x with h2 | h2
      · rw [h2]; exact h.flagPub x h1
      · exact h2
    · exact h1
  · intro u hu
    rcases hpc u hu with h1 | h1
    · exact Nat.le_trans (h.rdr u h1) (m.clk _ _)
    · exact h1
  · intro x hx
    rw [hsub] at hx
    obtain ⟨p1, p2⟩ := h.nodePriv x hx
    by_cases hxt : x = t
    · subst hxt; exact ⟨m.nxtT p1, m.hndT p2⟩
    · rw [m.nxt x hxt, m.hnd x hxt]
      exact ⟨FT.own_mono p1 (m.clk _ _), FT.own_mono p2 (m.clk _ _)⟩
  · intro l hl y hy
    rw [hslot] at hl
    have hsy : s.base.subscribed y = true := by
      have := h.cinv.chainW l hl y
      cases hq : s.base.subscribed y
      · rw [hq] at this; exact absurd hy (List.count_eq_zero.mp (by simpa using this))
      · rfl
    rw [(hnx y hsy).1, (hnx y hsy).2]
    exact h.nodePub l hl y hy
  · intro hp; rw [hpay] at hp; exact h.payReal hp

/-! ### the primitives are `Mono` -/

/-- a primitive that only makes clocks grow -/
theorem mono_of_clk {t : Nat} {s s' : St} (hr : s'.raced = s.raced) (hp : s'.pay = s.pay) (hn : s'.nxt = s.nxt)
    (hh : s'.hnd = s.hnd) (h1 : s'.slotRs = s.slotRs) (h2 : s'.slotOld = s.slotOld) (hf : s'.flagRs = s.flagRs)
    (hc : ∀ u i, s.clk u i ≤ s'.clk u i) : Mono t s s' :=
  ⟨hr, by rw [hp], fun _ _ => by rw [hn], fun _ _ => by rw [hh], fun h => by rw [hn]; exact FT.own_mono h (hc _ _),
    fun h => by rw [hh]; exact FT.own_mono h (hc _ _), h1, h2, hc, fun x => Or.inl (by rw [hf])⟩

theorem mono_claim (o : ChainOrders) (s : St) (t : Nat) : Mono t s (hbClaim o s t) :=
  mono_of_clk rfl rfl rfl rfl rfl rfl rfl
    (upd_mono _ _ _ (fun i => Nat.le_trans (le_acqVc _ _ _ i) (le_tickIf _ _ _ i)))

theorem mono_ownerLoad (o : ChainOrders) (s : St) (t : Nat) : Mono t s (hbOwnerLoad o s t) :=
  mono_of_clk rfl rfl rfl rfl rfl rfl rfl (upd_mono _ _ _ (fun i => le_acqVc _ _ _ i))

theorem mono_casFail (o : ChainOrders) (s : St) (t : Nat) : Mono t s (hbCasFail o s t) :=
  mono_of_clk rfl rfl rfl rfl rfl rfl rfl (upd_mono _ _ _ (fun i => le_acqVc _ _ _ i))

theorem mono_loadReady (o : ChainOrders) (s : St) (t ch : Nat) : Mono t s (hbLoadReady o s t ch) :=
  mono_of_clk rfl rfl rfl rfl rfl rfl rfl (upd_mono _ _ _ (fun i => le_acqVc _ _ _ i))

theorem mono_pending (o : ChainOrders) (s : St) (t : Nat) : Mono t s (hbPending o s t) :=
  mono_of_clk rfl rfl rfl rfl rfl rfl rfl (upd_mono _ _ _ (fun i => le_acqVc _ _ _ i))

theorem mono_flagAcq (o : ChainOrders) (s : St) (t : Nat) : Mono t s (hbFlagAcq o s t) :=
  mono_of_clk rfl rfl rfl rfl rfl rfl rfl (upd_mono _ _ _ (fun i => le_acqVc _ _ _ i))

theorem mono_fence (o : ChainOrders) (s : St) (t : Nat) : Mono t s (hbFence o s t) := by
  unfold hbFence
  split
  · exact mono_of_clk rfl rfl rfl rfl rfl rfl rfl (upd_mono _ _ _ (fun i => le_join_left _ _ i))
  · exact Mono.refl t s

/-- the stepping agent has the payload write in its clock -/
def PS (t : Nat) (s : St) : Prop := s.pay.wr.2 ≤ s.clk t s.pay.wr.1
/-- the stepping waiter's node is still private to it -/
def NO (t : Nat) (s : St) : Prop := (s.nxt t).own t (s.clk t t) ∧ (s.hnd t).own t (s.clk t t)

theorem Mono.ps {t : Nat} {s s' : St} (m : Mono t s s') (h : PS t s) : PS t s' := by
  unfold PS at *; rw [m.paywr]; exact Nat.le_trans h (m.clk _ _)
theorem Mono.no {t : Nat} {s s' : St} (m : Mono t s s') (h : NO t s) : NO t s' := ⟨m.nxtT h.1, m.hndT h.2⟩

theorem mono_payRead (s : St) (t : Nat) (h : PS t s) : Mono t s (hbPayRead s t) := by
  have hr : rdRace s.pay (s.clk t) = false := by simp [rdRace, ordW, PS] at *; exact h
  refine ⟨?_, rfl, fun _ _ => rfl, fun _ _ => rfl, id, id, rfl, rfl, fun _ _ => Nat.le_refl _, fun _ => Or.inl rfl⟩
  simp [hbPayRead, hr]

theorem mono_flagStore (o : ChainOrders) (ho : o.flagStore.isRel = true) (s : St) (t x : Nat) (h : PS t s) :
    Mono t s (hbFlagStore o s t x) := by
  refine ⟨rfl, rfl, fun _ _ => rfl, fun _ _ => rfl, fun h => FT.own_mono h ?_, fun h => FT.own_mono h ?_, rfl, rfl, ?_, ?_⟩
  · exact upd_mono _ _ _ (fun i => le_tickIf _ _ _ i) _ _
  · exact upd_mono _ _ _ (fun i => le_tickIf _ _ _ i) _ _
  · exact upd_mono _ _ _ (fun i => le_tickIf _ _ _ i)
  · intro y
    by_cases hy : y = x
    · right; subst hy
      simp only [hbFlagStore, Clock.upd_same]
      exact Nat.le_trans h (le_relVc _ ho _ _)
    · left; simp only [hbFlagStore]; rw [Clock.upd_other _ _ hy]

theorem mono_nxtRead (s : St) (t : Nat) (h : NO t s) : Mono t s (hbNxtRead s t) := by
  have hr : rdRace (s.nxt t) (s.clk t) = false := (norace_of_own h.1).2
  refine ⟨?_, rfl, fun x hx => ?_, fun _ _ => rfl, fun h => ?_, id, rfl, rfl, fun _ _ => Nat.le_refl _, fun _ => Or.inl rfl⟩
  · simp [hbNxtRead, hr]
  · simp only [hbNxtRead]; rw [Clock.upd_other _ _ hx]
  · simp only [hbNxtRead, Clock.upd_same]; exact FT.own_read h (Nat.le_refl _)

theorem mono_nxtWrite (s : St) (t : Nat) (h : NO t s) : Mono t s (hbNxtWrite s t) := by
  have hr : wrRace (s.nxt t) (s.clk t) = false := (norace_of_own h.1).1
  refine ⟨?_, rfl, fun x hx => ?_, fun _ _ => rfl, fun _ => ?_, id, rfl, rfl, fun _ _ => Nat.le_refl _, fun _ => Or.inl rfl⟩
  · simp [hbNxtWrite, hr]
  · simp only [hbNxtWrite]; rw [Clock.upd_other _ _ hx]
  · simp only [hbNxtWrite, Clock.upd_same]; exact FT.own_write _ (Nat.le_refl _)

theorem mono_nodeInit (s : St) (t : Nat) (h : NO t s) : Mono t s (hbNodeInit s t) := by
  have hr1 : wrRace (s.nxt t) (s.clk t) = false := (norace_of_own h.1).1
  have hr2 : wrRace (s.hnd t) (s.clk t) = false := (norace_of_own h.2).1
  refine ⟨?_, rfl, fun x hx => ?_, fun x hx => ?_, fun _ => ?_, fun _ => ?_, rfl, rfl, fun _ _ => Nat.le_refl _, fun _ => Or.inl rfl⟩
  · simp [hbNodeInit, hr1, hr2]
  · simp only [hbNodeInit]; rw [Clock.upd_other _ _ hx]
  · simp only [hbNodeInit]; rw [Clock.upd_other _ _ hx]
  · simp only [hbNodeInit, Clock.upd_same]; exact FT.own_write _ (Nat.le_refl _)
  · simp only [hbNodeInit, Clock.upd_same]; exact FT.own_write _ (Nat.le_refl _)

/-! ### facts about the base step -/

theorem base_winner {c : Cfg} (b : Chain.State) (h : Chain.Inv c b) (t : Nat) :
    ∀ w, (Chain.astep c b t).1.winner = some w → b.winner = some w ∨ ∃ l, b.slot = Slot.chain l := by
  intro w hw
  rcases Chain.slot_cases b with hs | hs
  · obtain ⟨w0, hw0, _⟩ := h.ready_phase hs
    have := (Chain.astep_winner c t b h w0 hw0).1
    rw [this] at hw; injection hw with hw; subst hw
    exact Or.inl hw0
  · exact Or.inr hs

/-- the step changes neither the slot, nor the subscriptions, nor a flag -/
structure Simple (b b' : Chain.State) : Prop where
  slot : b'.slot = b.slot
  sub : b'.subscribed = b.subscribed
  flag : b'.flag = b.flag
  payload : b'.payload = b.payload

theorem simple_ownerOp {b : Chain.State} {t : Nat} {r : Chain.State × List Chain.Ev} (h : Chain.OwnerOp b t r) : Simple b r.1 :=
  ⟨h.slot, h.subscribed, h.flag, h.payload⟩

theorem astep_simple (c : Cfg) (b : Chain.State) (t : Nat) (h1 : ∀ dt, b.pc t ≠ Pc.rResolve dt)
    (h2 : ∀ e, b.pc t ≠ Pc.wCas e) (h3 : ∀ dt a, b.pc t ≠ Pc.rRun dt a) : Simple b (Chain.astep c b t).1 := by
  unfold Chain.astep
  split
  · exact ⟨rfl, rfl, rfl, rfl⟩
  · split <;> exact ⟨rfl, rfl, rfl, rfl⟩
  · exact ⟨rfl, rfl, rfl, rfl⟩
  · rename_i dt hpc; exact absurd hpc (h1 dt)
  · rename_i dt a hpc; exact absurd hpc (h3 dt a)
  · split
    · exact simple_ownerOp (Chain.ownerOp_dtorEnter c t b)
    · exact ⟨rfl, rfl, rfl, rfl⟩
  · exact simple_ownerOp (Chain.ownerOp_dtorEnter c t b)
  · exact simple_ownerOp (Chain.ownerOp_dtorLoad t b)
  · exact ⟨rfl, rfl, rfl, rfl⟩
  · split <;> exact ⟨rfl, rfl, rfl, rfl⟩
  · rename_i e hpc; exact absurd hpc (h2 e)
  · exact ⟨rfl, rfl, rfl, rfl⟩
  · split <;> exact ⟨rfl, rfl, rfl, rfl⟩
  · exact ⟨rfl, rfl, rfl, rfl⟩
  · unfold Chain.readStep; split <;> exact ⟨rfl, rfl, rfl, rfl⟩
  · exact ⟨rfl, rfl, rfl, rfl⟩

/-- frame lemma for a `Chain.astep` of agent `t` -/
theorem inv_frame_astep {c : Cfg} {t : Nat} {s s' : St} (h : Inv c s) (hen : Chain.enabled c s.base t = true)
    (m : Mono t s s')
    (hslot : (Chain.astep c s.base t).1.slot = s.base.slot)
    (hsub : (Chain.astep c s.base t).1.subscribed = s.base.subscribed)
    (hpay : (Chain.astep c s.base t).1.payload = s.base.payload)
    (hrd : s'.pay.rd = s.pay.rd ∨ s.base.slot = Slot.ready)
    (hself : s.base.subscribed t = false ∨ (s'.nxt t = s.nxt t ∧ s'.hnd t = s.hnd t))
    (hflag : ∀ x, (Chain.astep c s.base t).1.flag x = true → s.base.flag x = true ∨ s.pay.wr.2 ≤ s'.flagRs x s.pay.wr.1)
    (hpc : (Chain.astep c s.base t).1.pc t = Pc.wRead → s.pay.wr.2 ≤ s'.clk t s.pay.wr.1) :
    Inv c (setBase s' (Chain.astep c s.base t).1) := by
  refine inv_frame h m _ (Chain.inv_astep c t s.base h.cinv hen) hslot hsub hpay (base_winner s.base h.cinv t) hrd hself hflag ?_
  intro u hu
  by_cases hut : u = t
  · subst hut; exact Or.inr (hpc hu)
  · rw [Chain.astep_pc_other c t s.base u hut] at hu; exact Or.inl hu

/-- … when moreover the base step is `Simple` and the happens-before step leaves the payload and `t`'s node alone -/
theorem inv_simple {c : Cfg} {t : Nat} {s s' : St} (h : Inv c s) (hen : Chain.enabled c s.base t = true)
    (m : Mono t s s') (hs : Simple s.base (Chain.astep c s.base t).1)
    (hrd : s'.pay.rd = s.pay.rd ∨ s.base.slot = Slot.ready)
    (hself : s.base.subscribed t = false ∨ (s'.nxt t = s.nxt t ∧ s'.hnd t = s.hnd t))
    (hpc : (Chain.astep c s.base t).1.pc t = Pc.wRead → s.pay.wr.2 ≤ s'.clk t s.pay.wr.1) :
    Inv c (setBase s' (Chain.astep c s.base t).1) :=
  inv_frame_astep h hen m hs.slot hs.sub hs.payload hrd hself (fun x hx => Or.inl (by rw [hs.flag] at hx; exact hx)) hpc

theorem ownerOp_pc_ne {b : Chain.State} {t : Nat} {r : Chain.State × List Chain.Ev} (h : Chain.OwnerOp b t r) : r.1.pc t ≠ Pc.wRead := by
  rcases h.own with ⟨_, _, _, _, h1 | h1⟩ | ⟨_, _, h1⟩
  · rw [h1]; simp
  · rw [h1]; simp
  · intro h2; rw [h2] at h1; simp [Chain.isResolve] at h1

/-- only a waiter at its `ready()` load, its CAS or its `flag.wait` moves on to reading the result -/
theorem astep_pc_wRead (c : Cfg) (b : Chain.State) (t : Nat) (h : (Chain.astep c b t).1.pc t = Pc.wRead) :
    b.pc t = Pc.wLoad ∨ (∃ e, b.pc t = Pc.wCas e) ∨ b.pc t = Pc.wWait ∨ b.pc t = Pc.wBlocked ∨ b.pc t = Pc.done := by
  revert h
  unfold Chain.astep
  split
  · rename_i hpc; intro _; simp [hpc]
  · split <;> simp
  · simp
  · simp
  · rename_i dt acts hpc
    unfold Chain.stepRun
    simp only
    split
    · simp
    · rcases Chain.finishRun_spec c t (Chain.runActs c t b acts).1 dt (Chain.runActs c t b acts).2.1 with ⟨h1, _, _⟩ | ⟨_, _, h1, _⟩
      · rw [h1]; simp
      · rw [h1]; intro h; exact absurd h (ownerOp_pc_ne (Chain.ownerOp_dtorLoad t _))
  · split
    · intro h; exact absurd h (ownerOp_pc_ne (Chain.ownerOp_dtorEnter c t b))
    · simp
  · intro h; exact absurd h (ownerOp_pc_ne (Chain.ownerOp_dtorEnter c t b))
  · intro h; exact absurd h (ownerOp_pc_ne (Chain.ownerOp_dtorLoad t b))
  · simp
  · rename_i hpc; intro _; simp [hpc]
  · rename_i e hpc; intro _; simp [hpc]
  · simp
  · rename_i hpc; intro _; simp [hpc]
  · rename_i hpc; intro _; simp [hpc]
  · unfold Chain.readStep; split <;> simp
  · unfold Chain.readStep2; simp

theorem unsub_of_pc {c : Cfg} {b : Chain.State} (h : Chain.Inv c b) (t : Nat)
    (hpc : b.pc t = Pc.wLoad ∨ ∃ e, b.pc t = Pc.wCas e) : b.subscribed t = false := by
  cases hs : b.subscribed t
  · rfl
  · have := (h.sub t hs).2
    rcases hpc with hpc | ⟨e, hpc⟩ <;> (rw [hpc] at this; split at this <;> simp [Chain.afterWait] at this)

variable {c : Cfg} {s : St} {t : Nat} (o : ChainOrders)

theorem inv_rClaim (h : Inv c s) (hen : Chain.enabled c s.base t = true) (hpc : s.base.pc t = Pc.rClaim) :
    Inv c (setBase (hbClaim o s t) (Chain.astep c s.base t).1) := by
  refine inv_simple h hen (mono_claim o s t) (astep_simple c _ t ?_ ?_ ?_) (Or.inl rfl) (Or.inr ⟨rfl, rfl⟩) ?_
  · simp [hpc]
  · simp [hpc]
  · simp [hpc]
  · intro h1; have := astep_pc_wRead c _ t h1; simp [hpc] at this

/-- the steps without any happens-before effect -/
theorem inv_noop (h : Inv c s) (hen : Chain.enabled c s.base t = true)
    (hpc : s.base.pc t = Pc.rFinLost ∨ s.base.pc t = Pc.dFin ∨ s.base.pc t = Pc.wFinParked ∨ ∃ e, s.base.pc t = Pc.wRead2 e) :
    Inv c (setBase s (Chain.astep c s.base t).1) := by
  refine inv_simple h hen (Mono.refl t s) (astep_simple c _ t ?_ ?_ ?_) (Or.inl rfl) (Or.inr ⟨rfl, rfl⟩) ?_
  · rcases hpc with h1 | h1 | h1 | ⟨e, h1⟩ <;> simp [h1]
  · rcases hpc with h1 | h1 | h1 | ⟨e, h1⟩ <;> simp [h1]
  · rcases hpc with h1 | h1 | h1 | ⟨e, h1⟩ <;> simp [h1]
  · intro h1; have := astep_pc_wRead c _ t h1
    rcases hpc with h1 | h1 | h1 | ⟨e, h1⟩ <;> simp [h1] at this

theorem mono_dtorEnter (c : Cfg) (s : St) (t : Nat) : Mono t s (hbDtorEnter o c s t) := by
  unfold hbDtorEnter
  split
  · exact mono_claim o s t
  · exact mono_ownerLoad o s t

theorem inv_dtor (h : Inv c s) (hen : Chain.enabled c s.base t = true) (s' : St) (m : Mono t s s')
    (hp : s'.pay = s.pay) (hn : s'.nxt = s.nxt) (hh : s'.hnd = s.hnd)
    (hpc : s.base.pc t = Pc.dArrive ∨ s.base.pc t = Pc.dBlocked ∨ s.base.pc t = Pc.dLoad) :
    Inv c (setBase s' (Chain.astep c s.base t).1) := by
  refine inv_simple h hen m (astep_simple c _ t ?_ ?_ ?_) (Or.inl (by rw [hp])) (Or.inr ⟨by rw [hn], by rw [hh]⟩) ?_
  · rcases hpc with h1 | h1 | h1 <;> simp [h1]
  · rcases hpc with h1 | h1 | h1 <;> simp [h1]
  · rcases hpc with h1 | h1 | h1 <;> simp [h1]
  · intro h1; have := astep_pc_wRead c _ t h1
    rcases hpc with h1 | h1 | h1 <;> simp [h1] at this

theorem hbDtorEnter_frame (c : Cfg) (s : St) (t : Nat) :
    (hbDtorEnter o c s t).pay = s.pay ∧ (hbDtorEnter o c s t).nxt = s.nxt ∧ (hbDtorEnter o c s t).hnd = s.hnd := by
  unfold hbDtorEnter; split <;> exact ⟨rfl, rfl, rfl⟩

theorem inv_dArrive (h : Inv c s) (hen : Chain.enabled c s.base t = true) (hpc : s.base.pc t = Pc.dArrive) :
    Inv c (setBase (hbArrive o c s t) (Chain.astep c s.base t).1) := by
  unfold hbArrive
  split
  · obtain ⟨a, b, d⟩ := hbDtorEnter_frame o c s t
    exact inv_dtor h hen _ (mono_dtorEnter o c s t) a b d (Or.inl hpc)
  · exact inv_dtor h hen _ (Mono.refl t s) rfl rfl rfl (Or.inl hpc)

theorem inv_dBlocked (h : Inv c s) (hen : Chain.enabled c s.base t = true) (hpc : s.base.pc t = Pc.dBlocked) :
    Inv c (setBase (hbDtorEnter o c s t) (Chain.astep c s.base t).1) := by
  obtain ⟨a, b, d⟩ := hbDtorEnter_frame o c s t
  exact inv_dtor h hen _ (mono_dtorEnter o c s t) a b d (Or.inr (Or.inl hpc))

theorem inv_dLoad (h : Inv c s) (hen : Chain.enabled c s.base t = true) (hpc : s.base.pc t = Pc.dLoad) :
    Inv c (setBase (hbOwnerLoad o s t) (Chain.astep c s.base t).1) :=
  inv_dtor h hen _ (mono_ownerLoad o s t) rfl rfl rfl (Or.inr (Or.inr hpc))

theorem inv_wBlocked (ho : o.flagWait.isAcq = true) (h : Inv c s) (hen : Chain.enabled c s.base t = true)
    (hpc : s.base.pc t = Pc.wBlocked) :
    Inv c (setBase (hbFlagAcq o s t) (Chain.astep c s.base t).1) := by
  have hf : s.base.flag t = true := by simpa [Chain.enabled, hpc] using hen
  refine inv_simple h hen (mono_flagAcq o s t) (astep_simple c _ t ?_ ?_ ?_) (Or.inl rfl) (Or.inr ⟨rfl, rfl⟩) ?_
  · simp [hpc]
  · simp [hpc]
  · simp [hpc]
  · intro _
    simp only [hbFlagAcq, Clock.upd_same]
    exact Nat.le_trans (h.flagPub t hf) (le_acqVc_msg _ ho _ _ _)

theorem inv_wWait (ho : o.flagWait.isAcq = true) (h : Inv c s) (hen : Chain.enabled c s.base t = true)
    (hpc : s.base.pc t = Pc.wWait) (ch : Nat) : Inv c (stepWWait o c s t ch) := by
  unfold stepWWait
  split
  · have hs : Simple s.base (Chain.astep c s.base t).1 := astep_simple c _ t (by simp [hpc]) (by simp [hpc]) (by simp [hpc])
    split
    · rename_i hf
      refine inv_simple h hen (mono_flagAcq o s t) hs (Or.inl rfl) (Or.inr ⟨rfl, rfl⟩) ?_
      intro _
      simp only [hbFlagAcq, Clock.upd_same]
      exact Nat.le_trans (h.flagPub t hf) (le_acqVc_msg _ ho _ _ _)
    · rename_i hf
      refine inv_simple h hen (Mono.refl t s) hs (Or.inl rfl) (Or.inr ⟨rfl, rfl⟩) ?_
      intro h1
      simp [Chain.astep, hpc, hf] at h1
  · refine inv_frame h (Mono.refl t s) _ (Chain.inv_wWait_block c s.base t h.cinv hpc) rfl rfl rfl (fun w hw => Or.inl hw)
      (Or.inl rfl) (Or.inr ⟨rfl, rfl⟩) (fun x hx => Or.inl hx) ?_
    intro u hu
    by_cases hut : u = t
    · subst hut; simp [Chain.setPc] at hu
    · left; simpa [Chain.setPc, Chain.upd, hut] using hu

theorem inv_wRead (h : Inv c s) (hen : Chain.enabled c s.base t = true) (hpc : s.base.pc t = Pc.wRead) :
    Inv c (setBase (hbWRead o c s t) (Chain.astep c s.base t).1) := by
  have hps : PS t s := h.rdr t hpc
  have hs : Simple s.base (Chain.astep c s.base t).1 := astep_simple c _ t (by simp [hpc]) (by simp [hpc]) (by simp [hpc])
  have hr : s.base.slot = Slot.ready := (h.cinv.reader t).1 hpc
  have hne : (Chain.astep c s.base t).1.pc t = Pc.wRead → False := by
    intro h1; simp only [Chain.astep, hpc, Chain.readStep] at h1; split at h1 <;> simp [Chain.setPc] at h1
  unfold hbWRead
  split
  · exact inv_simple h hen ((mono_payRead s t hps).trans (mono_pending o _ t)) hs (Or.inr hr) (Or.inr ⟨rfl, rfl⟩)
      (fun h1 => (hne h1).elim)
  · exact inv_simple h hen (mono_payRead s t hps) hs (Or.inr hr) (Or.inr ⟨rfl, rfl⟩) (fun h1 => (hne h1).elim)

variable {c : Cfg} {s : St} {t : Nat} (o : ChainOrders)

/-- a `ready()` load that returns "ready" read the latest message, whatever the choice: older messages are never the marker -/
theorem rdSlot_ready (h : Inv c s) (ch : Nat) (hr : (rdSlot s ch).1 = true) :
    s.base.slot = Slot.ready ∧ s.pay.wr.2 ≤ (rdSlot s ch).2 s.pay.wr.1 := by
  have key : ∀ m : Bool × VC, (m = (decide (s.base.slot = Slot.ready), s.slotRs) ∨ m ∈ s.slotOld) → m.1 = true →
      s.base.slot = Slot.ready ∧ s.pay.wr.2 ≤ m.2 s.pay.wr.1 := by
    intro m hm h1
    rcases hm with hm | hm
    · subst hm
      have : s.base.slot = Slot.ready := by simpa using h1
      exact ⟨this, h.slotPub this⟩
    · rw [h.oldNR m hm] at h1; cases h1
  unfold rdSlot at hr ⊢
  split at hr
  · rename_i h0; simp only [h0, if_true]; exact key _ (Or.inl rfl) hr
  · rename_i h0; simp only [h0, if_false]
    refine Clock.getD_prop (fun m : Bool × VC => m.1 = true → s.base.slot = Slot.ready ∧ s.pay.wr.2 ≤ m.2 s.pay.wr.1)
      _ _ _ (key _ (Or.inl rfl)) (fun m hm => key m (Or.inr hm)) ?_
    simpa [h0] using hr

theorem setPc_pc_other (b : Chain.State) (t u : Nat) (p : Pc) (h : u ≠ t) : (Chain.setPc b t p).pc u = b.pc u := by
  simp [Chain.setPc, Chain.upd, h]

theorem inv_wLoad (ho : o.ready.isAcq = true) (h : Inv c s) (hpc : s.base.pc t = Pc.wLoad) (ch : Nat) :
    Inv c (stepWLoad o s t ch) := by
  unfold stepWLoad
  split
  · rename_i hr
    obtain ⟨hs, hp⟩ := rdSlot_ready h ch hr
    refine inv_frame h (mono_loadReady o s t ch) _ (Chain.inv_wLoad_ready c s.base t h.cinv hpc hs) rfl rfl rfl
      (fun w hw => Or.inl hw) (Or.inl rfl) (Or.inr ⟨rfl, rfl⟩) (fun x hx => Or.inl hx) ?_
    intro u hu
    by_cases hut : u = t
    · subst hut; right
      simp only [hbLoadReady, Clock.upd_same]
      exact Nat.le_trans hp (le_acqVc_msg _ ho _ _ _)
    · left; rwa [setPc_pc_other _ _ _ _ hut] at hu
  · have hun := unsub_of_pc h.cinv t (Or.inl hpc)
    have hno : NO t s := h.nodePriv t hun
    have m1 := mono_loadReady o s t ch
    refine inv_frame h (m1.trans (mono_nodeInit _ t (m1.no hno))) _ (Chain.inv_wLoad_chain c s.base t h.cinv hpc Seen.null) rfl rfl rfl
      (fun w hw => Or.inl hw) (Or.inl rfl) (Or.inl hun) (fun x hx => Or.inl hx) ?_
    intro u hu
    by_cases hut : u = t
    · subst hut; simp [Chain.setPc] at hu
    · left; rwa [setPc_pc_other _ _ _ _ hut] at hu

theorem inv_wCas_refused (ho : o.casFail.isAcq = true ∨ o.fence = true) (h : Inv c s) (hen : Chain.enabled c s.base t = true)
    (exp : Seen) (hpc : s.base.pc t = Pc.wCas exp) (hs : s.base.slot = Slot.ready) :
    Inv c (setBase (hbCasRefused o s t) (Chain.astep c s.base t).1) := by
  have hun := unsub_of_pc h.cinv t (Or.inr ⟨exp, hpc⟩)
  have hno : NO t s := h.nodePriv t hun
  have m1 := mono_nxtRead s t hno
  have m2 := m1.trans (mono_casFail o _ t)
  have m3 := m2.trans (mono_nxtWrite _ t (m2.no hno))
  have m4 := m3.trans (mono_nxtWrite _ t (m3.no hno))
  have m5 := m4.trans (mono_fence o _ t)
  have hst : (Chain.astep c s.base t).1 = Chain.setPc s.base t Pc.wRead := by simp [Chain.astep, hpc, hs]
  refine inv_frame_astep h hen m5 (by rw [hst]; rfl) (by rw [hst]; rfl) (by rw [hst]; rfl)
    (Or.inl (by unfold hbCasRefused hbFence; split <;> rfl)) (Or.inl hun)
    (fun x hx => Or.inl (by rw [hst] at hx; exact hx)) ?_
  intro _
  have hp := h.slotPub hs
  rcases ho with ho | ho
  · -- the failing CAS acquires
    have : PS t (hbCasFail o (hbNxtRead s t) t) := by
      simp only [PS, hbCasFail, hbNxtRead, Clock.upd_same]
      exact Nat.le_trans hp (le_acqVc_msg _ ho _ _ _)
    have hfin := (((mono_nxtWrite _ t (m2.no hno)).trans (mono_nxtWrite _ t (m3.no hno))).trans (mono_fence o _ t)).ps this
    unfold PS at hfin; rw [m5.paywr] at hfin; exact hfin
  · -- the fence joins the pending clock, which holds the marker's clock since the failing CAS
    simp only [hbCasRefused, hbFence, ho, if_true, hbNxtWrite, hbCasFail, hbNxtRead, Clock.upd_same]
    refine Nat.le_trans hp (Nat.le_trans ?_ (le_join_right _ _ _))
    exact le_join_right _ _ _

theorem inv_wCas_retry (h : Inv c s) (hen : Chain.enabled c s.base t = true)
    (exp : Seen) (hpc : s.base.pc t = Pc.wCas exp) (l : List Nat) (hs : s.base.slot = Slot.chain l)
    (hne : ¬ (Slot.chain l).seen = exp) :
    Inv c (setBase (hbCasRetry o s t) (Chain.astep c s.base t).1) := by
  have hun := unsub_of_pc h.cinv t (Or.inr ⟨exp, hpc⟩)
  have hno : NO t s := h.nodePriv t hun
  have m1 := mono_nxtRead s t hno
  have m2 := m1.trans (mono_casFail o _ t)
  have m3 := m2.trans (mono_nxtWrite _ t (m2.no hno))
  have hst : (Chain.astep c s.base t).1 = Chain.setPc s.base t (Pc.wCas (Slot.chain l).seen) := by
    simp [Chain.astep, hpc, hs, hne]
  refine inv_frame_astep h hen m3 (by rw [hst]; rfl) (by rw [hst]; rfl) (by rw [hst]; rfl) (Or.inl rfl) (Or.inl hun)
    (fun x hx => Or.inl (by rw [hst] at hx; exact hx)) ?_
  intro h1; rw [hst] at h1; simp [Chain.setPc] at h1

variable {c : Cfg} {s : St} {t : Nat} (o : ChainOrders)

theorem mem_chain_iff {b : Chain.State} (h : Chain.Inv c b) (l : List Nat) (hl : b.slot = Slot.chain l) (y : Nat) :
    y ∈ l ↔ b.subscribed y = true := by
  have := h.chainW l hl y
  cases hq : b.subscribed y
  · rw [hq] at this; simp at this; simp [List.count_eq_zero.mp (by simpa using this)]
  · rw [hq] at this; simp at this
    constructor
    · intro _; rfl
    · intro _; exact List.count_pos_iff.mp (by omega)

/-- what a releasing-and-acquiring RMW on the slot by `t` leaves in the slot's release sequence -/
theorem rmw_rs_self (ord : Order) (hr : ord.isRel = true) (ck m : VC) (i : Nat) :
    ck i ≤ VC.join (relVc ord (acqVc ord ck m)) m i :=
  Nat.le_trans (Nat.le_trans (le_acqVc _ _ _ i) (le_relVc _ hr _ i)) (le_join_left _ _ i)

/-- the publishing CAS (after the read of its expected value) -/
theorem inv_casOk_core (ho : o.casSucc.isRel = true) (h : Inv c s) (hen : Chain.enabled c s.base t = true)
    (exp : Seen) (hpc : s.base.pc t = Pc.wCas exp) (l : List Nat) (hs : s.base.slot = Slot.chain l)
    (heq : (Slot.chain l).seen = exp) :
    Inv c (setBase (hbCasOk o s t) (Chain.astep c s.base t).1) := by
  have hun := unsub_of_pc h.cinv t (Or.inr ⟨exp, hpc⟩)
  have hslot : (Chain.astep c s.base t).1.slot = Slot.chain (t :: l) := by simp [Chain.astep, hpc, hs, heq]
  have hsub : (Chain.astep c s.base t).1.subscribed = Chain.upd s.base.subscribed t true := by simp [Chain.astep, hpc, hs, heq]
  have hwin : (Chain.astep c s.base t).1.winner = s.base.winner := by simp [Chain.astep, hpc, hs, heq]
  have hflag : (Chain.astep c s.base t).1.flag = s.base.flag := by simp [Chain.astep, hpc, hs, heq]
  have hpcT : (Chain.astep c s.base t).1.pc t ≠ Pc.wRead := by
    simp only [Chain.astep, hpc, hs, heq, if_true]; split <;> simp [Chain.setPc]
  have hclk : ∀ u i, s.clk u i ≤ (hbCasOk o s t).clk u i :=
    upd_mono _ _ _ (fun i => Nat.le_trans (le_acqVc _ _ _ i) (le_tickIf _ _ _ i))
  have hpay : (Chain.astep c s.base t).1.payload = s.base.payload := by simp [Chain.astep, hpc, hs, heq]
  refine ⟨Chain.inv_astep c t s.base h.cinv hen, h.nr, ?_, ?_, ?_, ?_, ?_, ?_, ?_, ?_, ?_, fun u => Nat.le_trans (h.pos u) (hclk u u),
    fun hp => h.payReal (by
      have hp' : (Chain.astep c s.base t).1.payload ≠ Outcome.none := hp
      rw [hpay] at hp'; exact hp')⟩ <;> simp only [setBase]
  · intro l' _; exact h.payChain l hs
  · intro w hw; rw [hwin] at hw; exact h.payW w hw
  · exact Nat.le_trans h.paySelf (hclk _ _)
  · intro h1; rw [hslot] at h1; cases h1
  · intro m hm
    simp only [hbCasOk, List.mem_append, List.mem_singleton] at hm
    rcases hm with hm | hm
    · exact h.oldNR m hm
    · subst hm; simp [hs]
  · intro x hx; rw [hflag] at hx; exact h.flagPub x hx
  · intro u hu
    by_cases hut : u = t
    · subst hut; exact absurd hu hpcT
    · rw [Chain.astep_pc_other c t s.base u hut] at hu
      exact Nat.le_trans (h.rdr u hu) (hclk _ _)
  · intro x hx
    rw [hsub] at hx
    have hxt : x ≠ t := by intro e; subst e; simp at hx
    rw [Chain.upd_other _ _ _ _ hxt] at hx
    obtain ⟨p1, p2⟩ := h.nodePriv x hx
    exact ⟨FT.own_mono p1 (hclk _ _), FT.own_mono p2 (hclk _ _)⟩
  · intro l' hl' y hy
    rw [hslot] at hl'; injection hl' with hl'; subst hl'
    have hrs : ∀ i, s.slotRs i ≤ (hbCasOk o s t).slotRs i := fun i => le_join_right _ _ i
    rcases List.mem_cons.mp hy with hy | hy
    · subst hy
      obtain ⟨p1, p2⟩ := h.nodePriv y hun
      have hle : s.clk y y ≤ (hbCasOk o s y).slotRs y := rmw_rs_self _ ho _ _ _
      exact ⟨FT.own_le p1 hle, FT.own_le p2 hle⟩
    · obtain ⟨p1, p2⟩ := h.nodePub l hs y hy
      exact ⟨FT.le_mono p1 hrs, FT.le_mono p2 hrs⟩

theorem inv_wCas_ok (ho : o.casSucc.isRel = true) (h : Inv c s) (hen : Chain.enabled c s.base t = true)
    (exp : Seen) (hpc : s.base.pc t = Pc.wCas exp) (l : List Nat) (hs : s.base.slot = Slot.chain l)
    (heq : (Slot.chain l).seen = exp) :
    Inv c (setBase (hbCasOk o (hbNxtRead s t) t) (Chain.astep c s.base t).1) := by
  have hun := unsub_of_pc h.cinv t (Or.inr ⟨exp, hpc⟩)
  have h1 : Inv c (hbNxtRead s t) :=
    inv_frame h (mono_nxtRead s t (h.nodePriv t hun)) s.base h.cinv rfl rfl rfl (fun w hw => Or.inl hw) (Or.inl rfl) (Or.inl hun)
      (fun x hx => Or.inl hx) (fun u hu => Or.inl hu)
  exact inv_casOk_core o ho h1 hen exp hpc l hs heq

variable {c : Cfg} {s : St} {t : Nat} (o : ChainOrders)

/-- the resolving exchange and the walk over the detached chain, from a state `s1` = `s` after the optional payload write
(given by field equations) -/
theorem inv_resolve_core (hrel : o.resolve.isRel = true) (hacq : o.resolve.isAcq = true)
    (h : Inv c s) (hen : Chain.enabled c s.base t = true) (dt : Bool) (hpc : s.base.pc t = Pc.rResolve dt)
    (s1 : St) (e1 : s1.base = s.base) (e2 : s1.clk = s.clk) (e3 : s1.slotRs = s.slotRs) (e4 : s1.slotOld = s.slotOld)
    (e6 : s1.nxt = s.nxt) (e7 : s1.hnd = s.hnd) (e8 : s1.raced = false)
    (e9 : (s1.pay.wr.2 = 0 ∧ (Chain.astep c s.base t).1.payload = Outcome.none) ∨ s1.pay.wr = (t, s.clk t t)) :
    Inv c (setBase (hbWalk (hbXchg o s1 t) t (Chain.chainOf s.base.slot)) (Chain.astep c s.base t).1) := by
  obtain ⟨l, hs⟩ := Chain.chain_of_resolve c t s.base h.cinv dt hpc
  have hwt : s.base.winner = some t := h.cinv.active t (Or.inl (by simp [hpc, Chain.isResolve]))
  have hslot : (Chain.astep c s.base t).1.slot = Slot.ready := by simp [Chain.astep, hpc]
  have hsub : (Chain.astep c s.base t).1.subscribed = s.base.subscribed := by simp [Chain.astep, hpc]
  have hwin : (Chain.astep c s.base t).1.winner = s.base.winner := by simp [Chain.astep, hpc]
  have hflag : (Chain.astep c s.base t).1.flag = s.base.flag := by simp [Chain.astep, hpc]
  have hpcT : (Chain.astep c s.base t).1.pc t ≠ Pc.wRead := by simp [Chain.astep, hpc, Chain.setPc]
  have hclk : ∀ u i, s.clk u i ≤ (hbXchg o s1 t).clk u i := by
    intro u i; simp only [hbXchg, e2, e3]
    exact upd_mono _ _ _ (fun i => Nat.le_trans (le_acqVc _ _ _ i) (le_tickIf _ _ _ i)) u i
  have hrs : ∀ i, s.slotRs i ≤ (hbXchg o s1 t).clk t i := by
    intro i; simp only [hbXchg, e2, e3, Clock.upd_same]
    exact Nat.le_trans (le_acqVc_msg _ hacq _ _ i) (le_tickIf _ _ _ i)
  have hnew : s.clk t t ≤ (hbXchg o s1 t).slotRs t := by
    simp only [hbXchg, e2, e3]; exact rmw_rs_self _ hrel _ _ _
  simp only [hs, Chain.chainOf]
  refine ⟨Chain.inv_astep c t s.base h.cinv hen, ?_, ?_, ?_, ?_, ?_, ?_, ?_, ?_, ?_, ?_, fun u => Nat.le_trans (h.pos u) (hclk u u), ?_⟩ <;>
    simp only [setBase, hbWalk]
  · -- no access of the walk races
    have : (hbXchg o s1 t).raced = false := e8
    rw [this, Bool.false_or, List.any_eq_false]
    intro y hy
    obtain ⟨p1, p2⟩ := h.nodePub l hs y hy
    have q1 : ((hbXchg o s1 t).nxt y).le ((hbXchg o s1 t).clk t) := by
      show (s1.nxt y).le _; rw [e6]; exact FT.le_mono p1 hrs
    have q2 : ((hbXchg o s1 t).hnd y).le ((hbXchg o s1 t).clk t) := by
      show (s1.hnd y).le _; rw [e7]; exact FT.le_mono p2 hrs
    simp [(norace_of_le q1).1, (norace_of_le q2).2]
  · intro l' hl'; rw [hslot] at hl'; cases hl'
  · intro w hw
    rw [hwin, hwt] at hw; injection hw with hw; subst hw
    show s1.pay.wr.2 = 0 ∨ s1.pay.wr.1 = _
    rcases e9 with e9 | e9
    · exact Or.inl e9.1
    · right; rw [e9]
  · show s1.pay.wr.2 ≤ (hbXchg o s1 t).clk s1.pay.wr.1 s1.pay.wr.1
    rcases e9 with e9 | e9
    · have := e9.1; omega
    · rw [e9]; exact hclk _ _
  · intro _
    show s1.pay.wr.2 ≤ (hbXchg o s1 t).slotRs s1.pay.wr.1
    rcases e9 with e9 | e9
    · have := e9.1; omega
    · rw [e9]; exact hnew
  · intro m hm
    simp only [hbXchg, List.mem_append, List.mem_singleton, e4] at hm
    rcases hm with hm | hm
    · exact h.oldNR m hm
    · subst hm; simp [e1, hs]
  · intro x hx; rw [hflag] at hx
    have := ((h.cinv.chain_phase l hs).2.1 x).2
    rw [this] at hx; cases hx
  · intro u hu
    by_cases hut : u = t
    · subst hut; exact absurd hu hpcT
    · rw [Chain.astep_pc_other c t s.base u hut] at hu
      have := (h.cinv.reader u).1 hu
      rw [hs] at this; cases this
  · intro x hx
    rw [hsub] at hx
    have hxl : ¬ x ∈ l := by
      rw [mem_chain_iff h.cinv l hs x, hx]; simp
    simp only [hxl, if_false]
    obtain ⟨p1, p2⟩ := h.nodePriv x hx
    show (s1.nxt x).own x _ ∧ (s1.hnd x).own x _
    rw [e6, e7]
    exact ⟨FT.own_mono p1 (hclk _ _), FT.own_mono p2 (hclk _ _)⟩
  · intro l' hl'; rw [hslot] at hl'; cases hl'
  · intro hp
    show 1 ≤ s1.pay.wr.2
    rcases e9 with e9 | e9
    · exact absurd e9.2 hp
    · rw [e9]; exact h.pos t

theorem inv_rResolve (hrel : o.resolve.isRel = true) (hacq : o.resolve.isAcq = true)
    (h : Inv c s) (hen : Chain.enabled c s.base t = true) (dt : Bool) (hpc : s.base.pc t = Pc.rResolve dt) :
    Inv c (setBase (hbResolve o c s t dt) (Chain.astep c s.base t).1) := by
  unfold hbResolve
  split
  · obtain ⟨l, hs⟩ := Chain.chain_of_resolve c t s.base h.cinv dt hpc
    obtain ⟨p1, p2⟩ := h.payChain l hs
    refine inv_resolve_core o hrel hacq h hen dt hpc (hbPayWrite s t) rfl rfl rfl rfl rfl rfl ?_ (Or.inr rfl)
    have : wrRace s.pay (s.clk t) = false := (norace_of_le (f := s.pay) (c := s.clk t) ⟨by rw [p1]; exact Nat.zero_le _, by rw [p2]; simp⟩).1
    simp [hbPayWrite, h.nr, this]
  · obtain ⟨l, hs⟩ := Chain.chain_of_resolve c t s.base h.cinv dt hpc
    rename_i hwp
    have hp0 := (h.cinv.chain_phase l hs).1
    have hnone : (Chain.astep c s.base t).1.payload = Outcome.none := by
      cases dt <;> cases hk : c.kind t <;> simp_all [Chain.astep, writesPayload]
      all_goals (rename_i k; cases k <;> simp_all [Chain.RK.payload])
    exact inv_resolve_core o hrel hacq h hen dt hpc s rfl rfl rfl rfl rfl rfl h.nr (Or.inl ⟨(h.payChain l hs).1, hnone⟩)

variable {c : Cfg} {s : St} {t : Nat} (o : ChainOrders)

theorem needsLoad_congr (b b' : Chain.State) (h : b.payload = b'.payload) (k : WK) :
    Chain.needsLoad b k = Chain.needsLoad b' k := by
  unfold Chain.needsLoad; rw [h]

/-- the walker's step on both levels at once: the happens-before side is `Mono`, leaves the nodes alone, and every flag the
base step sets has been stored with a clock that holds the payload write -/
theorem hbActs_spec (hrel : o.flagStore.isRel = true) (c : Cfg) (t : Nat) : ∀ (acts : List Act) (s : St) (b : Chain.State),
    b.payload = s.base.payload → PS t s →
    Mono t s (hbActs o c t s acts) ∧ (hbActs o c t s acts).nxt = s.nxt ∧ (hbActs o c t s acts).hnd = s.hnd
      ∧ (∀ x, (Chain.runActs c t b acts).1.flag x = true →
          b.flag x = true ∨ s.pay.wr.2 ≤ (hbActs o c t s acts).flagRs x s.pay.wr.1) := by
  intro acts
  induction acts with
  | nil =>
    intro s b _ _
    exact ⟨Mono.refl t s, rfl, rfl, fun x hx => Or.inl hx⟩
  | cons a rest ih =>
    intro s b hp hps
    cases a with
    | store x =>
      simp only [hbActs, Chain.runActs]
      refine ⟨mono_flagStore o hrel s t x hps, rfl, rfl, fun y hy => ?_⟩
      by_cases hyx : y = x
      · subst hyx; right
        simp only [hbFlagStore, Clock.upd_same]
        exact Nat.le_trans hps (le_relVc _ hrel _ _)
      · left; simpa [Chain.upd, hyx] using hy
    | wake x =>
      have hn := needsLoad_congr b s.base hp (Chain.wkOf c x)
      simp only [hbActs, Chain.runActs, hn]
      split
      · exact ⟨(mono_payRead s t hps).trans (mono_pending o _ t), rfl, rfl, fun y hy => Or.inl hy⟩
      · have m1 := mono_payRead s t hps
        obtain ⟨a1, a2, a3, a4⟩ := ih (hbPayRead s t)
          { b with woken := Chain.upd b.woken x (b.woken x + 1),
                   observed := Chain.upd b.observed x (b.observed x + 1) } hp (m1.ps hps)
        exact ⟨m1.trans a1, a2, a3, a4⟩
    | obsAfter x sn =>
      simp only [hbActs, Chain.runActs]
      exact ih s { b with observed := Chain.upd b.observed x (b.observed x + 1) } hp hps

theorem stepRun_flag (c : Cfg) (t : Nat) (b : Chain.State) (dt : Bool) (acts : List Act) :
    (Chain.stepRun c b t dt acts).1.flag = (Chain.runActs c t b acts).1.flag := by
  unfold Chain.stepRun
  simp only
  split
  · rfl
  · rcases Chain.finishRun_spec c t (Chain.runActs c t b acts).1 dt (Chain.runActs c t b acts).2.1 with ⟨h1, _, _⟩ | ⟨_, _, h1, _⟩
    · rw [h1]; rfl
    · rw [h1]; exact (Chain.ownerOp_dtorLoad t _).flag

theorem hbFinish_spec (c : Cfg) (s : St) (t : Nat) (dt : Bool) :
    Mono t s (hbFinish o c s t dt) ∧ (hbFinish o c s t dt).nxt = s.nxt ∧ (hbFinish o c s t dt).hnd = s.hnd
      ∧ (hbFinish o c s t dt).flagRs = s.flagRs := by
  unfold hbFinish
  split
  · exact ⟨Mono.refl t s, rfl, rfl, rfl⟩
  · split
    · exact ⟨mono_ownerLoad o s t, rfl, rfl, rfl⟩
    · exact ⟨Mono.refl t s, rfl, rfl, rfl⟩

theorem inv_rRun (hrel : o.flagStore.isRel = true) (h : Inv c s) (hen : Chain.enabled c s.base t = true)
    (dt : Bool) (acts : List Act) (hpc : s.base.pc t = Pc.rRun dt acts) :
    Inv c (setBase (hbRun o c s t dt acts) (Chain.astep c s.base t).1) := by
  obtain ⟨hready, hwt⟩ := Chain.ready_of_run c t s.base h.cinv dt acts hpc
  have hps : PS t s := by
    rcases h.payW t hwt with h1 | h1
    · unfold PS; omega
    · have := h.paySelf; rw [h1] at this; unfold PS; rw [h1]; exact this
  have hst : Chain.astep c s.base t = Chain.stepRun c s.base t dt acts := by simp [Chain.astep, hpc]
  obtain ⟨f1, f2, f3⟩ := Chain.stepRun_frame c t s.base dt acts
  obtain ⟨a1, a2, a3, a4⟩ := hbActs_spec o hrel c t acts s s.base rfl hps
  have key : Mono t s (hbRun o c s t dt acts) ∧ (hbRun o c s t dt acts).nxt = s.nxt ∧ (hbRun o c s t dt acts).hnd = s.hnd
      ∧ (hbRun o c s t dt acts).flagRs = (hbActs o c t s acts).flagRs := by
    unfold hbRun
    split
    · exact ⟨a1, a2, a3, rfl⟩
    · obtain ⟨g1, g2, g3, g4⟩ := hbFinish_spec o c (hbActs o c t s acts) t dt
      exact ⟨a1.trans g1, g2.trans a2, g3.trans a3, g4⟩
  obtain ⟨k1, k2, k3, k4⟩ := key
  refine inv_frame_astep h hen k1 (by rw [hst]; exact f1) (by rw [hst]; exact f3) (by rw [hst]; exact f2) (Or.inr hready)
    (Or.inr ⟨by rw [k2], by rw [k3]⟩) ?_ ?_
  · intro x hx
    rw [hst, stepRun_flag] at hx
    rw [k4]; exact a4 x hx
  · intro h1
    have := astep_pc_wRead c _ t h1
    simp [hpc] at this

/-! ### every step preserves the invariant -/

theorem inv_astepC {o : ChainOrders} (hs : o.sufficient = true) {c : Cfg} {s : St} {t : Nat} (h : Inv c s)
    (hen : Chain.enabled c s.base t = true) (ch : Nat) : Inv c (astepC o c s t ch) := by
  simp only [ChainOrders.sufficient, Bool.and_eq_true, Bool.or_eq_true] at hs
  obtain ⟨⟨⟨⟨⟨⟨h1, h2⟩, h3⟩, h4⟩, h5⟩, h6⟩, h7⟩ := hs
  unfold astepC
  split
  · exact h
  · rename_i hpc; exact inv_rClaim o h hen hpc
  · rename_i hpc; exact inv_noop h hen (Or.inl hpc)
  · rename_i dt hpc; exact inv_rResolve o h1 h2 h hen dt hpc
  · rename_i dt acts hpc; exact inv_rRun o h6 h hen dt acts hpc
  · rename_i hpc; exact inv_dArrive o h hen hpc
  · rename_i hpc; exact inv_dBlocked o h hen hpc
  · rename_i hpc; exact inv_dLoad o h hen hpc
  · rename_i hpc; exact inv_noop h hen (Or.inr (Or.inl hpc))
  · rename_i hpc; exact inv_wLoad o h4 h hpc ch
  · rename_i exp hpc
    unfold hbWCas
    split
    · rename_i hsl; exact inv_wCas_refused o h5 h hen exp hpc hsl
    · rename_i l hsl
      split
      · rename_i heq; exact inv_wCas_ok o h3 h hen exp hpc l hsl heq
      · rename_i hne; exact inv_wCas_retry o h hen exp hpc l hsl hne
  · rename_i hpc; exact inv_noop h hen (Or.inr (Or.inr (Or.inl hpc)))
  · rename_i hpc; exact inv_wWait o h7 h hen hpc ch
  · rename_i hpc; exact inv_wBlocked o h7 h hen hpc
  · rename_i hpc; exact inv_wRead o h hen hpc
  · rename_i e hpc; exact inv_noop h hen (Or.inr (Or.inr (Or.inr ⟨e, hpc⟩)))

theorem inv_step {o : ChainOrders} (hs : o.sufficient = true) {c : Cfg} {s : St} (h : Inv c s) (e : Nat × Nat) :
    Inv c (step o c s e) := by
  unfold step
  split
  · rename_i hen; exact inv_astepC hs h hen e.2
  · exact h

theorem inv_run {o : ChainOrders} (hs : o.sufficient = true) (c : Cfg) (sched : List (Nat × Nat)) : Inv c (run o c sched) := by
  unfold run
  suffices ∀ s, Inv c s → Inv c (sched.foldl (step o c) s) from this _ (inv_init c)
  induction sched with
  | nil => intro s h; exact h
  | cons e es ih => intro s h; exact ih _ (inv_step hs h e)

/-! ### main theorems -/

/-- MAIN THEOREM.  Under sufficient orders NO plain access of the promise / future / awaiter-chain protocol races: the payload
(`_state/_value/_exception`), every waiter node's `_next` and handle / resume function — for every configuration (any number of
resolver calls, destructors, `promise_with_default` destructors and waiters of every kind), every schedule and every stale-read
choice.  No hypothesis on `o.claim`, `o.dtorLoad`, `o.pending`: these three sites may be relaxed. -/
theorem chain_race_free (o : ChainOrders) (hs : o.sufficient = true) :
    ∀ (c : Cfg) (sched : List (Nat × Nat)), (run o c sched).raced = false :=
  fun c sched => (inv_run hs c sched).nr

/-- the three hint sites do not occur in `sufficient`: any orders there, relaxed included, leave race freedom intact -/
theorem chain_hint_orders_free (o : ChainOrders) (hs : o.sufficient = true) (a b d : Order) :
    ∀ (c : Cfg) (sched : List (Nat × Nat)), (run { o with claim := a, dtorLoad := b, pending := d } c sched).raced = false :=
  chain_race_free _ hs

/-- Safe publication.  A waiter about to read the result (`wRead`: it learnt of readiness from `ready()`, from a refused
subscribe, or from its flag) has the payload write in its clock, and that write is the winner's (or there is none: `drop`,
`~promise`).  The walker, which reads the payload for the coroutines / callbacks it resumes, is the winner itself. -/
theorem chain_sees_payload (o : ChainOrders) (hs : o.sufficient = true) (c : Cfg) (sched : List (Nat × Nat)) (t : Nat)
    (hpc : (run o c sched).base.pc t = Pc.wRead) :
    (run o c sched).pay.wr.2 ≤ (run o c sched).clk t (run o c sched).pay.wr.1
      ∧ ∃ w, (run o c sched).base.winner = some w ∧ ((run o c sched).pay.wr.2 = 0 ∨ (run o c sched).pay.wr.1 = w) := by
  have h := inv_run hs c sched
  refine ⟨h.rdr t hpc, ?_⟩
  obtain ⟨w, hw, _⟩ := h.cinv.ready_phase ((h.cinv.reader t).1 hpc)
  exact ⟨w, hw, h.payW w hw⟩

/-- … and the walker: whoever walks the chain (and reads the payload on behalf of the resumed waiters) is the winner and has its
own write in its clock -/
theorem chain_walker_sees_payload (o : ChainOrders) (hs : o.sufficient = true) (c : Cfg) (sched : List (Nat × Nat)) (t : Nat)
    (dt : Bool) (acts : List Act) (hpc : (run o c sched).base.pc t = Pc.rRun dt acts) :
    (run o c sched).base.winner = some t
      ∧ (run o c sched).pay.wr.2 ≤ (run o c sched).clk t (run o c sched).pay.wr.1 := by
  have h := inv_run hs c sched
  obtain ⟨_, hwt⟩ := Chain.ready_of_run c t _ h.cinv dt acts hpc
  refine ⟨hwt, ?_⟩
  rcases h.payW t hwt with h1 | h1
  · omega
  · have := h.paySelf; rw [h1] at this; rw [h1]; exact this

/-- the base state of every run (stale reads included) satisfies the invariant of `Chain.lean` -/
theorem chain_base_inv (o : ChainOrders) (hs : o.sufficient = true) (c : Cfg) (sched : List (Nat × Nat)) :
    Chain.Inv c (run o c sched).base := (inv_run hs c sched).cinv

/-! ### bridge to `Chain.lean` -/

/-- erasing the instrumentation from a step that reads the latest messages gives the step of `Chain.lean` -/
theorem astepC_base (o : ChainOrders) (c : Cfg) (s : St) (t : Nat) : (astepC o c s t 0).base = (Chain.astep c s.base t).1 := by
  unfold astepC
  split
  · rename_i hpc; simp [Chain.astep, hpc]
  all_goals try rfl
  · rename_i hpc
    by_cases hr : s.base.slot = Slot.ready <;> simp [stepWLoad, rdSlot, setBase, Chain.astep, hpc, hr]

theorem step_base (o : ChainOrders) (c : Cfg) (s : St) (t : Nat) :
    (step o c s (t, 0)).base = if Chain.enabled c s.base t then (Chain.astep c s.base t).1 else s.base := by
  unfold step
  split
  · exact astepC_base o c s t
  · rfl

/-- BRIDGE.  With every load reading the latest message, the base component of a run is exactly `Chain.run` on the same
schedule: the executions `chain_race_free` speaks about contain the executions the C01 / C02 theorems speak about (and the
additional, stale-read ones still satisfy `Chain.Inv`: `chain_base_inv`). -/
theorem base_latest (o : ChainOrders) (c : Cfg) (sched : List Nat) :
    (run o c (sched.map (fun t => (t, 0)))).base = Chain.run c (Chain.init c) sched := by
  unfold run Chain.run
  suffices ∀ s : St, ((sched.map (fun t => (t, 0))).foldl (step o c) s).base =
      sched.foldl (fun b t => if Chain.enabled c b t then (Chain.astep c b t).1 else b) s.base from this (init c)
  induction sched with
  | nil => intro s; rfl
  | cons t r ih =>
    intro s
    simp only [List.map_cons, List.foldl_cons]
    rw [ih, step_base]

/-- race freedom of the executions of `Chain.run` -/
theorem chain_run_race_free (o : ChainOrders) (hs : o.sufficient = true) (c : Cfg) (sched : List Nat) :
    (run o c (sched.map (fun t => (t, 0)))).raced = false
      ∧ (run o c (sched.map (fun t => (t, 0)))).base = Chain.run c (Chain.init c) sched :=
  ⟨chain_race_free o hs c _, base_latest o c sched⟩

/-! ### necessity: every clause of `sufficient`, weakened alone, has a racing execution (`decide`) -/

/-- the orders written in `awaiter.h` / `future.h` when this file was written (the witnesses below weaken them one at a time; the
obligation on the CURRENT source is `c03_chain_orders_current` over the extracted table, which does not mention this constant) -/
def srcOrders : ChainOrders :=
  { resolve := Order.acq_rel, casSucc := Order.release, casFail := Order.relaxed, ready := Order.acquire, fence := true,
    flagStore := Order.seq_cst, flagWait := Order.seq_cst, claim := Order.relaxed, dtorLoad := Order.relaxed,
    pending := Order.relaxed }

theorem srcOrders_sufficient : srcOrders.sufficient = true := by decide

/-- agent 0 resolves with a value, agent 1 is a coroutine waiter -/
def cfgCoro : Cfg := { n := 2, kind := fun t => if t = 0 then Kind.res (RK.value 7) else Kind.wait WK.coro }
/-- agent 0 resolves with a value, agent 1 waits blocking -/
def cfgSync : Cfg := { n := 2, kind := fun t => if t = 0 then Kind.res (RK.value 7) else Kind.wait WK.sync }

/-- the waiter subscribes (load, CAS, parks), then the resolver claims, resolves and walks -/
def schedAwait : List (Nat × Nat) := [(1, 0), (1, 0), (1, 0), (0, 0), (0, 0), (0, 0), (0, 0)]
/-- the resolver finishes first, then the waiter polls `ready()` and reads -/
def schedPoll : List (Nat × Nat) := [(0, 0), (0, 0), (0, 0), (1, 0), (1, 0)]
/-- `ready()` says no, the resolver finishes, the subscribe is refused, the waiter reads -/
def schedRefused : List (Nat × Nat) := [(1, 0), (0, 0), (0, 0), (0, 0), (1, 0), (1, 0)]
/-- the blocking waiter subscribes and blocks, the resolver stores its flag, the waiter wakes up and reads -/
def schedBlock : List (Nat × Nat) := [(1, 0), (1, 0), (1, 0), (0, 0), (0, 0), (0, 0), (0, 0), (1, 0), (1, 0)]

/-- release → relaxed on the subscribe CAS: the walker's read of the node races with the waiter's initialisation -/
theorem chain_needs_release_cas : (run { srcOrders with casSucc := Order.relaxed } cfgCoro schedAwait).raced = true := by decide
/-- acq_rel → acquire on the resolving exchange (the pinned commit's defect, DESIGN §6 row 9): `future::set` races with `value()` -/
theorem chain_needs_release_xchg : (run { srcOrders with resolve := Order.acquire } cfgCoro schedPoll).raced = true := by decide
/-- acq_rel → release on the resolving exchange: the walker reads the subscribed node without having acquired it -/
theorem chain_needs_acquire_xchg : (run { srcOrders with resolve := Order.release } cfgCoro schedAwait).raced = true := by decide
/-- acquire → relaxed on `ready()` -/
theorem chain_needs_acquire_ready : (run { srcOrders with ready := Order.relaxed } cfgCoro schedPoll).raced = true := by decide
/-- the acquire fence of the refused subscribe dropped (the failure order being relaxed) -/
theorem chain_needs_fence : (run { srcOrders with fence := false } cfgCoro schedRefused).raced = true := by decide
/-- … an acquire failure order instead of the fence is enough -/
theorem chain_fence_or_acquire_failure :
    (run { srcOrders with fence := false, casFail := Order.acquire } cfgCoro schedRefused).raced = false := by decide
/-- the flag store relaxed -/
theorem chain_needs_release_flag : (run { srcOrders with flagStore := Order.relaxed } cfgSync schedBlock).raced = true := by decide
/-- the flag wait relaxed -/
theorem chain_needs_acquire_flag : (run { srcOrders with flagWait := Order.relaxed } cfgSync schedBlock).raced = true := by decide

/-- the same four schedules under the source's orders: no race, and the waiter did read the result (non-vacuity) -/
example : (run srcOrders cfgCoro schedAwait).raced = false ∧ (run srcOrders cfgCoro schedAwait).base.observed 1 = 1
    ∧ (run srcOrders cfgCoro schedPoll).raced = false ∧ (run srcOrders cfgCoro schedPoll).base.observed 1 = 1
    ∧ (run srcOrders cfgCoro schedRefused).raced = false ∧ (run srcOrders cfgCoro schedRefused).base.observed 1 = 1
    ∧ (run srcOrders cfgSync schedBlock).raced = false ∧ (run srcOrders cfgSync schedBlock).base.observed 1 = 1 := by decide

/-- a stale `ready()` load (the future is resolved, the load reads the initial message): the waiter goes on to the CAS, is refused
there, and reads the result without a race -/
example : (run srcOrders cfgCoro [(0, 0), (0, 0), (0, 0), (1, 1), (1, 0), (1, 0)]).raced = false
    ∧ (run srcOrders cfgCoro [(0, 0), (0, 0), (0, 0), (1, 1), (1, 0), (1, 0)]).base.observed 1 = 1
    ∧ (run srcOrders cfgCoro [(0, 0), (0, 0), (0, 0), (1, 1)]).base.pc 1 = Pc.wCas Seen.null := by decide

/-- three waiters of different kinds (1 coroutine, 2 blocking, 3 callback), a competing resolver (5, loses), a late `has_value`
waiter (4); CAS retries: waiters 1, 2, 3 all load the empty slot, then 1 subscribes, 2 fails once and retries, 3 fails once and
retries.  Every kind of plain access happens: node initialisation, `_next` reads and CAS write-backs, the payload write, the walk
over three nodes, a flag store and wait, payload reads by the walker (callback, coroutine), by the woken blocking thread, by the
late poller. -/
def cfgMany : Cfg :=
  { n := 6, kind := fun t => if t = 0 then Kind.res (RK.value 7) else if t = 1 then Kind.wait WK.coro
      else if t = 2 then Kind.wait WK.sync else if t = 3 then Kind.wait WK.cb else if t = 4 then Kind.wait WK.hasv
      else Kind.res (RK.exc 3) }

def schedMany : List (Nat × Nat) :=
  [(1, 0), (2, 0), (3, 0),            -- three `ready()` loads: not ready
   (1, 0),                            -- 1 subscribes
   (2, 0), (3, 0),                    -- 2 and 3 fail (expected null, found 1)
   (2, 0),                            -- 2 subscribes
   (3, 0), (3, 0),                    -- 3 fails again (found 2), then subscribes
   (1, 0), (3, 0), (2, 0),            -- 1 and 3 return parked, 2 blocks on its flag
   (0, 0), (5, 0), (5, 0),            -- 0 claims, 5 loses
   (0, 0),                            -- payload write, exchange, walk over 3, 2, 1
   (0, 0),                            -- callback 3 invoked (reads), flag of 2 stored
   (2, 0), (2, 0),                    -- 2 wakes up and reads
   (0, 0),                            -- coroutine 1 resumed (reads), call returns
   (4, 0), (4, 0)]                    -- the late waiter polls and reads

example : (run srcOrders cfgMany schedMany).raced = false
    ∧ (∀ t, t < 6 → (run srcOrders cfgMany schedMany).base.pc t = Pc.done)
    ∧ (run srcOrders cfgMany schedMany).base.observed 1 = 1 ∧ (run srcOrders cfgMany schedMany).base.observed 2 = 1
    ∧ (run srcOrders cfgMany schedMany).base.observed 3 = 1 ∧ (run srcOrders cfgMany schedMany).base.observed 4 = 1
    ∧ (run srcOrders cfgMany schedMany).pay.wr = (0, 1) ∧ (run srcOrders cfgMany schedMany).pay.rd.length = 4
    ∧ ((run srcOrders cfgMany schedMany).nxt 3).wr.1 = 0 ∧ ((run srcOrders cfgMany schedMany).nxt 1).wr.1 = 0 := by decide

/-- the same run with the subscribe CAS relaxed races -/
example : (run { srcOrders with casSucc := Order.relaxed } cfgMany schedMany).raced = true := by decide

/-- the clock facts of `chain_sees_payload` are not vacuous: whenever the future holds a value or an exception, the payload's
last-write epoch is a real epoch (`≥ 1`; epoch 0 is "never written") of the winner — so "in its clock" means ordered after the
winner's `future::set` -/
theorem chain_payload_write_real (o : ChainOrders) (hs : o.sufficient = true) (c : Cfg) (sched : List (Nat × Nat))
    (hp : (run o c sched).base.payload ≠ Outcome.none) :
    ∃ w, (run o c sched).base.winner = some w ∧ (run o c sched).pay.wr.1 = w ∧ 1 ≤ (run o c sched).pay.wr.2 := by
  have h := inv_run hs c sched
  have h1 := h.payReal hp
  rcases Chain.slot_cases (run o c sched).base with hsl | ⟨l, hsl⟩
  · obtain ⟨w, hw, _⟩ := h.cinv.ready_phase hsl
    refine ⟨w, hw, ?_, h1⟩
    rcases h.payW w hw with h2 | h2
    · omega
    · exact h2
  · exact absurd (h.cinv.chain_phase l hsl).1 hp

end Cocls.ChainClock
