import CoclsModel.Clock

/-
Happens-before machine for C03, part 2a: the try-lock of `reusable_storage_mtsafe` (coro_storage.h) used REPEATEDLY.

`Clock.lean` decides one-shot message passing.  `reusable_storage_mtsafe::_busy` is a try-lock that is taken and given back any
number of times by any number of threads, and what it guards — the fields `_ptr/_capacity` of the base `reusable_storage`
(location `fld`) and the bytes of the shared block: trailer and coroutine frame (location `blk`) — is re-used by each successive
owner.  This file runs that protocol on the same machine (vector clocks `Clock.VC`, messages `Clock.Msg` with release-sequence
clocks, `relVc / acqVc / tickIf`, FastTrack metadata per plain location) and proves that round k+1's plain accesses are ordered
after round k's, for every number of threads and rounds and every schedule.

The code (one step of a thread = plain code up to and including its next synchronising operation, except that the frame's
accesses, unbounded in number, are single steps):

  alloc:    `_busy.exchange(true, oA)`                                   `stepAlloc`     (RMW: reads the mo-latest message)
              saw true  → heap path: `operator new`, trailer of the PRIVATE block — no access to `fld`/`blk`: the thread's pc does
                          not change (`idle`, or `use` when the current owner allocates again while its frame is alive)
              saw false → pc `won`; then `reusable_storage::alloc`:
                 fits     : read `fld`; write the trailer (`blk`)                                      `stepWonFit`   → `use`
                 grows    : read `fld`; `operator delete(_ptr)` (a write of `blk`); write `fld`; trailer  `stepWonGrow`  → `use`
                 new throws: read `fld`; delete (write `blk`); `_ptr = nullptr; _capacity = 0` (write `fld`) `stepWonFail` → `giveback`
            `_busy.store(false, oG)` (fix a532e23) and the exception leaves: no frame          `stepGiveback` → `idle`
  frame:    plain reads / writes of `blk` by whoever runs the coroutine               `stepUseRead`, `stepUseWrite`
  hand-over of the live frame to another thread (the coroutine is resumed / destroyed elsewhere)   `stepHandover`
            MODELLED ASSUMPTION: the hand-over itself synchronises (it goes through a queue under a mutex, a future, a thread
            start …: C03's other protocols), i.e. at that point the receiving thread's clock becomes the join of its own and the
            giving thread's clock; the giver starts a new epoch (as after any release).  `Cfg.migrate` says which hand-overs exist;
            `migrate = fun _ _ => false` is the same-thread case (alloc and dealloc on one thread).
  dealloc:  read the trailer (`blk`)                                                   `stepUseTrailer` → `rel`
            `_busy.store(false, oD)`                                                   `stepRel`        → `idle`

There is no plain load of `_busy` anywhere, hence no stale read: every read of the flag is the exchange, which reads the
modification-order-latest message.  The exchange that sees `true` joins whatever that message carries into the loser's clock (if `oA`
acquires) and continues the release sequence; the loser needs none of it because it touches neither `fld` nor `blk`
(`stepAlloc_loser_touches_nothing`), and the theorems hold whatever it imports.

Ghost: `log` = the epochs (tid, clock) of ALL plain accesses ever made to `fld`/`blk` (FastTrack keeps only the last write and the
reads since); never consulted by `step`.

Results
* `trylock_mutual_exclusion` — at most one thread is past a winning exchange and before its store (whatever the orders are: RMW atomicity).
* `trylock_race_free`        — `o.sufficient` (exchange ⊇ acquire ∧ both stores ⊇ release) ⇒ no run races.
* `trylock_owner_sees_previous` — the owner's clock dominates every access epoch of all earlier owners (and its own).
* `trylock_free_carries_all`  — while the flag is free its latest message carries all those epochs (what the next winner acquires).
* `trylock_needs_acquire / _release_dealloc / _release_giveback` (`decide`), `trylock_race_free_iff` — the condition is necessary.
* `proj_run` — erasing clocks gives a run of the sequentially consistent system `Sc` (flag value + control state); every run of
  `StorageMt.lean` (C19's model) is simulated by `Sc`: `TryLockClockProofs.lean`, `storageMt_refines`.

NOT modelled: the private heap blocks (thread-private until handed over together with the frame; the reading of their trailer by a
deallocating thread is ordered by the assumed hand-over alone), `operator new/delete` internals, the destructor of the storage
(the owner of the storage object must have joined all users: outside the protocol), and everything `Clock.lean` does not model.
-/

namespace Cocls.TryLock
open Cocls Cocls.Clock

/-- the orders written in the source at the three sites of the protocol -/
structure TryLockOrders where
  xchg : Order       -- `oA`: `_busy.exchange(true, ·)` in `alloc`
  dealloc : Order    -- `oD`: `_busy.store(false, ·)` in `dealloc`
  giveback : Order   -- `oG`: `_busy.store(false, ·)` in `alloc`'s catch block
  deriving DecidableEq, Repr, Inhabited

/-- exchange ⊇ acquire ∧ both stores ⊇ release -/
def TryLockOrders.sufficient (o : TryLockOrders) : Bool := o.xchg.isAcq && o.dealloc.isRel && o.giveback.isRel

inductive Pc where
  | idle | won | use | rel | giveback
  deriving DecidableEq, Repr, Inhabited

/-- past a winning exchange and before the store that gives the block back -/
def Pc.owner : Pc → Bool
  | Pc.idle => false
  | _ => true

/-- plain location 0: the fields `_ptr/_capacity` -/
abbrev fld : Nat := 0
/-- plain location 1: the bytes of the shared block (trailer + frame); `operator delete` of the block counts as a write -/
abbrev blk : Nat := 1

/-- machine state; `clk pc` are indexed by thread id, `wr rd` by plain location -/
structure St where
  clk : Nat → VC
  pc : Nat → Pc
  hist : List Msg
  wr : Nat → Nat × Nat
  rd : Nat → List (Nat × Nat)
  log : List (Nat × Nat)
  raced : Bool

def St.init : St :=
  { clk := VC.init, pc := fun _ => Pc.idle, hist := [Msg.init], wr := fun _ => (0, 0), rd := fun _ => [], log := [],
    raced := false }

def setPc (s : St) (t : Nat) (p : Pc) : St := { s with pc := upd s.pc t p }

/-- modification-order-latest message of `_busy` (what the exchange reads); value 0 = false, 1 = true -/
def lastMsg (s : St) : Msg := s.hist.getLastD Msg.init

/-! ### atomic primitives on `_busy` (as `Clock.doRmw` / `Clock.doStore`) -/

def doXchg (ord : Order) (s : St) (t : Nat) : St :=
  { s with
    hist := s.hist ++ [⟨1, relVc ord (acqVc ord (s.clk t) (lastMsg s).relSeqVc),
                        VC.join (relVc ord (acqVc ord (s.clk t) (lastMsg s).relSeqVc)) (lastMsg s).relSeqVc⟩]
    clk := upd s.clk t (tickIf ord (acqVc ord (s.clk t) (lastMsg s).relSeqVc) t) }

def doStore (ord : Order) (s : St) (t : Nat) : St :=
  { s with
    hist := s.hist ++ [⟨0, relVc ord (s.clk t), relVc ord (s.clk t)⟩]
    clk := upd s.clk t (tickIf ord (s.clk t) t) }

/-! ### plain accesses (FastTrack, one metadata record per location) -/

def ordW (s : St) (t l : Nat) : Bool := decide ((s.wr l).2 ≤ s.clk t (s.wr l).1)
def ordR (s : St) (t l : Nat) : Bool := (s.rd l).all (fun e => decide (e.2 ≤ s.clk t e.1))

def doRead (s : St) (t l : Nat) : St :=
  { s with
    rd := upd s.rd l ((t, s.clk t t) :: s.rd l)
    log := (t, s.clk t t) :: s.log
    raced := s.raced || !ordW s t l }

def doWrite (s : St) (t l : Nat) : St :=
  { s with
    wr := upd s.wr l (t, s.clk t t)
    rd := upd s.rd l []
    log := (t, s.clk t t) :: s.log
    raced := s.raced || !(ordW s t l && ordR s t l) }

/-- `threads`: thread ids `≥ threads` never run; `migrate t u`: a live frame may be handed from thread `t` to thread `u` -/
structure Cfg where
  threads : Nat
  migrate : Nat → Nat → Bool

/-! ### the steps, one per pc / choice -/

def stepAlloc (o : TryLockOrders) (s : St) (t : Nat) : St :=
  setPc (doXchg o.xchg s t) t (if (lastMsg s).val = 0 then Pc.won else s.pc t)
def stepWonFit (s : St) (t : Nat) : St := setPc (doWrite (doRead s t fld) t blk) t Pc.use
def stepWonGrow (s : St) (t : Nat) : St :=
  setPc (doWrite (doWrite (doWrite (doRead s t fld) t blk) t fld) t blk) t Pc.use
def stepWonFail (s : St) (t : Nat) : St := setPc (doWrite (doWrite (doRead s t fld) t blk) t fld) t Pc.giveback
def stepGiveback (o : TryLockOrders) (s : St) (t : Nat) : St := setPc (doStore o.giveback s t) t Pc.idle
def stepUseRead (s : St) (t : Nat) : St := doRead s t blk
def stepUseWrite (s : St) (t : Nat) : St := doWrite s t blk
def stepUseTrailer (s : St) (t : Nat) : St := setPc (doRead s t blk) t Pc.rel
def stepRel (o : TryLockOrders) (s : St) (t : Nat) : St := setPc (doStore o.dealloc s t) t Pc.idle
/-- the assumed synchronising hand-over of the live frame from `t` to `u` -/
def stepHandover (s : St) (t u : Nat) : St :=
  { s with
    clk := upd (upd s.clk u (VC.join (s.clk u) (s.clk t))) t (VC.tick (s.clk t) t)
    pc := upd (upd s.pc t Pc.idle) u Pc.use }

/-- after a winning exchange: choice 0 = the block is large enough, 1 = growth, otherwise growth whose `operator new` throws -/
def stepWon (s : St) (t c : Nat) : St :=
  match c with
  | 0 => stepWonFit s t
  | 1 => stepWonGrow s t
  | _ => stepWonFail s t

/-- the frame is alive on thread `t`: choice 0/1 = the coroutine reads/writes its frame, 2 = it allocates again on the same storage
(the exchange sees `true`), 3 = `dealloc` begins, `u + 4` = the frame moves to thread `u` -/
def stepUse (o : TryLockOrders) (cfg : Cfg) (s : St) (t c : Nat) : St :=
  match c with
  | 0 => stepUseRead s t
  | 1 => stepUseWrite s t
  | 2 => stepAlloc o s t
  | 3 => stepUseTrailer s t
  | u + 4 => if cfg.migrate t u = true ∧ u ≠ t ∧ u < cfg.threads ∧ s.pc u = Pc.idle then stepHandover s t u else s

/-- one schedule entry `(tid, choice)` -/
def step (o : TryLockOrders) (cfg : Cfg) (s : St) (e : Nat × Nat) : St :=
  if e.1 < cfg.threads then
    match s.pc e.1 with
    | Pc.idle => stepAlloc o s e.1
    | Pc.won => stepWon s e.1 e.2
    | Pc.use => stepUse o cfg s e.1 e.2
    | Pc.rel => stepRel o s e.1
    | Pc.giveback => stepGiveback o s e.1
  else s

def run (o : TryLockOrders) (cfg : Cfg) (sched : List (Nat × Nat)) : St := sched.foldl (step o cfg) St.init

/-! ### projection lemmas -/

@[simp] theorem lastMsg_mk (c : Nat → VC) (pc : Nat → Pc) (h : List Msg) (x : Msg) (w : Nat → Nat × Nat)
    (r : Nat → List (Nat × Nat)) (lg : List (Nat × Nat)) (ra : Bool) : lastMsg ⟨c, pc, h ++ [x], w, r, lg, ra⟩ = x := by
  simp [lastMsg]

theorem lastMsg_same (s : St) (c : Nat → VC) (pc : Nat → Pc) (w : Nat → Nat × Nat)
    (r : Nat → List (Nat × Nat)) (lg : List (Nat × Nat)) (ra : Bool) : lastMsg ⟨c, pc, s.hist, w, r, lg, ra⟩ = lastMsg s := rfl

@[simp] theorem pc_doRead (s : St) (t l : Nat) : (doRead s t l).pc = s.pc := rfl
@[simp] theorem pc_doWrite (s : St) (t l : Nat) : (doWrite s t l).pc = s.pc := rfl

theorem owner_of_eq {s : St} {t : Nat} {p : Pc} (h : s.pc t = p) (hp : p.owner = true) : (s.pc t).owner = true := by
  rw [h]; exact hp

/-- the exchange that sees `true` touches no plain location, logs nothing and does not change any pc -/
theorem stepAlloc_loser_touches_nothing (o : TryLockOrders) (s : St) (t : Nat) (h : (lastMsg s).val ≠ 0) :
    (stepAlloc o s t).wr = s.wr ∧ (stepAlloc o s t).rd = s.rd ∧ (stepAlloc o s t).log = s.log ∧
      (stepAlloc o s t).raced = s.raced ∧ ∀ u, (stepAlloc o s t).pc u = s.pc u := by
  refine ⟨rfl, rfl, rfl, rfl, ?_⟩
  intro u
  simp only [stepAlloc, setPc, doXchg, if_neg h, upd_apply]
  split
  · next hu => rw [hu]
  · rfl

/-! ### mutual exclusion (for ALL orders: atomicity of the exchange) -/

/-- at most one owner (`excl`), and while there is one the flag's latest value is `true` (`busy`) -/
structure Excl (s : St) : Prop where
  excl : ∀ t u, (s.pc t).owner = true → (s.pc u).owner = true → t = u
  busy : ∀ t, (s.pc t).owner = true → (lastMsg s).val = 1

theorem excl_init : Excl St.init := by
  refine ⟨?_, ?_⟩ <;> simp [St.init, Pc.owner]

macro "excl_close" : tactic => `(tactic|
  (refine ⟨?_, ?_⟩ <;>
    simp only [stepAlloc, stepHandover, setPc, doWrite, doRead, doStore, doXchg, lastMsg_mk, lastMsg_same] <;>
    (try generalize lastMsg _ = lm at *) <;>
    grind [upd_apply, Pc.owner]))

theorem excl_alloc {o : TryLockOrders} {s : St} (h : Excl s) (t : Nat) : Excl (stepAlloc o s t) := by
  obtain ⟨excl, busy⟩ := h
  excl_close

theorem excl_read {s : St} (h : Excl s) (t l : Nat) : Excl (doRead s t l) := ⟨h.excl, h.busy⟩
theorem excl_write {s : St} (h : Excl s) (t l : Nat) : Excl (doWrite s t l) := ⟨h.excl, h.busy⟩

theorem excl_setPc {s : St} (h : Excl s) {t : Nat} {p : Pc} (hp : (s.pc t).owner = true) :
    Excl (setPc s t p) := by
  obtain ⟨excl, busy⟩ := h
  excl_close

theorem excl_store {s : St} (h : Excl s) {t : Nat} (ord : Order) (hp : (s.pc t).owner = true) :
    Excl (setPc (doStore ord s t) t Pc.idle) := by
  obtain ⟨excl, busy⟩ := h
  excl_close

theorem excl_handover {s : St} (h : Excl s) {t u : Nat} (hp : s.pc t = Pc.use) (hu : s.pc u = Pc.idle) (_hne : u ≠ t) :
    Excl (stepHandover s t u) := by
  obtain ⟨excl, busy⟩ := h
  excl_close

theorem excl_step (o : TryLockOrders) (cfg : Cfg) {s : St} (h : Excl s) (e : Nat × Nat) : Excl (step o cfg s e) := by
  unfold step
  split
  · split
    · exact excl_alloc h _
    · next hpc =>
      have hw : (s.pc e.1).owner = true := owner_of_eq hpc rfl
      unfold stepWon
      split
      · exact excl_setPc (excl_write (excl_read h _ fld) _ blk) hw
      · exact excl_setPc (excl_write (excl_write (excl_write (excl_read h _ fld) _ blk) _ fld) _ blk) hw
      · exact excl_setPc (excl_write (excl_write (excl_read h _ fld) _ blk) _ fld) hw
    · next hpc =>
      have hw : (s.pc e.1).owner = true := owner_of_eq hpc rfl
      unfold stepUse
      split
      · exact excl_read h _ blk
      · exact excl_write h _ blk
      · exact excl_alloc h _
      · exact excl_setPc (excl_read h _ blk) hw
      · split
        · next hc => exact excl_handover h hpc hc.2.2.2 hc.2.1
        · exact h
    · next hpc => exact excl_store h _ (owner_of_eq hpc rfl)
    · next hpc => exact excl_store h _ (owner_of_eq hpc rfl)
  · exact h

theorem excl_run (o : TryLockOrders) (cfg : Cfg) (sched : List (Nat × Nat)) : Excl (run o cfg sched) := by
  unfold run
  suffices ∀ s, Excl s → Excl (sched.foldl (step o cfg) s) from this _ excl_init
  induction sched with
  | nil => intro s h; exact h
  | cons e es ih => intro s h; exact ih _ (excl_step o cfg h e)

/-- **Mutual exclusion**: whatever the memory orders, at most one thread is between a winning exchange and its store. -/
theorem trylock_mutual_exclusion (o : TryLockOrders) (cfg : Cfg) (sched : List (Nat × Nat)) (t u : Nat)
    (ht : ((run o cfg sched).pc t).owner = true) (hu : ((run o cfg sched).pc u).owner = true) : t = u :=
  (excl_run o cfg sched).excl t u ht hu

/-- …and while there is an owner every exchange sees `true` -/
theorem trylock_owner_keeps_busy (o : TryLockOrders) (cfg : Cfg) (sched : List (Nat × Nat)) (t : Nat)
    (ht : ((run o cfg sched).pc t).owner = true) : (lastMsg (run o cfg sched)).val = 1 :=
  (excl_run o cfg sched).busy t ht

/-! ### the clock-domination invariant -/

/-- The token argument.  Every FastTrack record is in the ghost log (`wrlog`, `rdlog`).  The log is dominated by the clock of the
owner while there is one (`own`) and by the release-sequence clock of the flag's latest message while the flag is free (`free`):
the right to touch `fld`/`blk` travels owner → releasing store → acquiring exchange → next owner, or owner → hand-over → owner. -/
structure Inv (s : St) : Prop where
  nr : s.raced = false
  excl : ∀ t u, (s.pc t).owner = true → (s.pc u).owner = true → t = u
  busy : ∀ t, (s.pc t).owner = true → (lastMsg s).val = 1
  wrlog : ∀ l, (s.wr l).2 = 0 ∨ s.wr l ∈ s.log
  rdlog : ∀ l, ∀ e ∈ s.rd l, e ∈ s.log
  own : ∀ t, (s.pc t).owner = true → ∀ e ∈ s.log, e.2 ≤ s.clk t e.1
  free : (lastMsg s).val = 0 → ∀ e ∈ s.log, e.2 ≤ (lastMsg s).relSeqVc e.1

theorem inv_init : Inv St.init := by
  refine ⟨?_, ?_, ?_, ?_, ?_, ?_, ?_⟩ <;> simp [St.init, Pc.owner, lastMsg, Msg.init]

macro "inv_close" : tactic => `(tactic|
  (refine ⟨?_, ?_, ?_, ?_, ?_, ?_, ?_⟩ <;>
    simp only [stepAlloc, stepHandover, setPc, doWrite, doRead, doStore, doXchg, lastMsg_mk, lastMsg_same] <;>
    (try generalize lastMsg _ = lm at *) <;>
    (try simp only [ordW, ordR, List.all_eq_true, decide_eq_true_eq] at *) <;>
    grind [upd_apply, upd_apply2, VC.join_apply, VC.bot_apply, relVc_apply, acqVc_apply, tickIf_apply, Pc.owner, VC.tick]))

theorem inv_alloc {o : TryLockOrders} {s : St} (h : Inv s) (ho : o.xchg.isAcq = true) (t : Nat) :
    Inv (stepAlloc o s t) := by
  obtain ⟨nr, excl, busy, wrlog, rdlog, own, free⟩ := h
  inv_close

theorem inv_read {s : St} (h : Inv s) {t : Nat} (l : Nat) (hp : (s.pc t).owner = true) : Inv (doRead s t l) := by
  obtain ⟨nr, excl, busy, wrlog, rdlog, own, free⟩ := h
  inv_close

theorem inv_write {s : St} (h : Inv s) {t : Nat} (l : Nat) (hp : (s.pc t).owner = true) : Inv (doWrite s t l) := by
  obtain ⟨nr, excl, busy, wrlog, rdlog, own, free⟩ := h
  inv_close

theorem inv_setPc {s : St} (h : Inv s) {t : Nat} {p : Pc} (hp : (s.pc t).owner = true) (_hq : p.owner = true) :
    Inv (setPc s t p) := by
  obtain ⟨nr, excl, busy, wrlog, rdlog, own, free⟩ := h
  inv_close

theorem inv_store {s : St} (h : Inv s) {t : Nat} {ord : Order} (ho : ord.isRel = true) (hp : (s.pc t).owner = true) :
    Inv (setPc (doStore ord s t) t Pc.idle) := by
  obtain ⟨nr, excl, busy, wrlog, rdlog, own, free⟩ := h
  inv_close

theorem inv_handover {s : St} (h : Inv s) {t u : Nat} (hp : s.pc t = Pc.use) (hu : s.pc u = Pc.idle) (hne : u ≠ t) :
    Inv (stepHandover s t u) := by
  obtain ⟨nr, excl, busy, wrlog, rdlog, own, free⟩ := h
  inv_close

theorem inv_step {o : TryLockOrders} (cfg : Cfg) (hA : o.xchg.isAcq = true) (hD : o.dealloc.isRel = true)
    (hG : o.giveback.isRel = true) {s : St} (h : Inv s) (e : Nat × Nat) : Inv (step o cfg s e) := by
  unfold step
  split
  · split
    · exact inv_alloc h hA _
    · next hpc =>
      have hw : (s.pc e.1).owner = true := owner_of_eq hpc rfl
      unfold stepWon
      split
      · exact inv_setPc (inv_write (inv_read h fld hw) blk hw) hw rfl
      · exact inv_setPc (inv_write (inv_write (inv_write (inv_read h fld hw) blk hw) fld hw) blk hw) hw rfl
      · exact inv_setPc (inv_write (inv_write (inv_read h fld hw) blk hw) fld hw) hw rfl
    · next hpc =>
      have hw : (s.pc e.1).owner = true := owner_of_eq hpc rfl
      unfold stepUse
      split
      · exact inv_read h blk hw
      · exact inv_write h blk hw
      · exact inv_alloc h hA _
      · exact inv_setPc (inv_read h blk hw) hw rfl
      · split
        · next hc => exact inv_handover h hpc hc.2.2.2 hc.2.1
        · exact h
    · next hpc => exact inv_store h hD (owner_of_eq hpc rfl)
    · next hpc => exact inv_store h hG (owner_of_eq hpc rfl)
  · exact h

theorem inv_run {o : TryLockOrders} (cfg : Cfg) (hA : o.xchg.isAcq = true) (hD : o.dealloc.isRel = true)
    (hG : o.giveback.isRel = true) (sched : List (Nat × Nat)) : Inv (run o cfg sched) := by
  unfold run
  suffices ∀ s, Inv s → Inv (sched.foldl (step o cfg) s) from this _ inv_init
  induction sched with
  | nil => intro s h; exact h
  | cons e es ih => intro s h; exact ih _ (inv_step cfg hA hD hG h e)

theorem sufficient_iff (o : TryLockOrders) :
    o.sufficient = true ↔ (o.xchg.isAcq = true ∧ o.dealloc.isRel = true ∧ o.giveback.isRel = true) := by
  simp only [TryLockOrders.sufficient, Bool.and_eq_true, and_assoc]

/-- **Main theorem**: with an acquiring exchange and releasing stores the try-lock protocol is race free on `_ptr/_capacity` and on
the bytes of the shared block — for every number of threads, every number of rounds per thread (winning, contended, failed growth,
nested allocation by the owner), every admissible migration of frames and every schedule. -/
theorem trylock_race_free (o : TryLockOrders) (h : o.sufficient = true) :
    ∀ (cfg : Cfg) (sched : List (Nat × Nat)), (run o cfg sched).raced = false := by
  obtain ⟨hA, hD, hG⟩ := (sufficient_iff o).mp h
  exact fun cfg sched => (inv_run cfg hA hD hG sched).nr

/-- The thread that currently owns the block (it won the exchange, or the live frame was handed to it) has EVERY plain access ever
made to `_ptr/_capacity` and to the block — by all previous owners, in all previous rounds — in its clock. -/
theorem trylock_owner_sees_previous (o : TryLockOrders) (h : o.sufficient = true) (cfg : Cfg) (sched : List (Nat × Nat))
    (t : Nat) (ht : ((run o cfg sched).pc t).owner = true) :
    ∀ e ∈ (run o cfg sched).log, e.2 ≤ (run o cfg sched).clk t e.1 := by
  obtain ⟨hA, hD, hG⟩ := (sufficient_iff o).mp h
  exact (inv_run cfg hA hD hG sched).own t ht

/-- While the flag is free, its latest message carries every access epoch: that is what the next winning exchange acquires. -/
theorem trylock_free_carries_all (o : TryLockOrders) (h : o.sufficient = true) (cfg : Cfg) (sched : List (Nat × Nat))
    (hf : (lastMsg (run o cfg sched)).val = 0) :
    ∀ e ∈ (run o cfg sched).log, e.2 ≤ (lastMsg (run o cfg sched)).relSeqVc e.1 := by
  obtain ⟨hA, hD, hG⟩ := (sufficient_iff o).mp h
  exact (inv_run cfg hA hD hG sched).free hf

/-- the FastTrack records are log entries: the log is not a weaker notion than what the race check looks at -/
theorem trylock_records_logged (o : TryLockOrders) (h : o.sufficient = true) (cfg : Cfg) (sched : List (Nat × Nat)) (l : Nat) :
    (((run o cfg sched).wr l).2 = 0 ∨ (run o cfg sched).wr l ∈ (run o cfg sched).log) ∧
      ∀ e ∈ (run o cfg sched).rd l, e ∈ (run o cfg sched).log := by
  obtain ⟨hA, hD, hG⟩ := (sufficient_iff o).mp h
  exact ⟨(inv_run cfg hA hD hG sched).wrlog l, (inv_run cfg hA hD hG sched).rdlog l⟩

/-! ### necessity -/

/-- three threads, every migration allowed -/
def cfg3 : Cfg := { threads := 3, migrate := fun _ _ => true }
/-- two threads, frames never migrate (alloc and dealloc on the same thread) -/
def cfgSame : Cfg := { threads := 2, migrate := fun _ _ => false }

/-- thread 0: wins, grows the block (writes `_ptr/_capacity`), trailer, dealloc; thread 1: wins, reads `_capacity` -/
def schedRound : List (Nat × Nat) := [(0, 0), (0, 1), (0, 3), (0, 0), (1, 0), (1, 0)]
/-- thread 0: wins, growth throws (`_ptr = nullptr; _capacity = 0`), gives the flag back; thread 1: wins, reads `_capacity` -/
def schedFail : List (Nat × Nat) := [(0, 0), (0, 2), (0, 0), (1, 0), (1, 0)]

theorem trylock_needs_acquire :
    (run ⟨Order.relaxed, Order.release, Order.release⟩ cfgSame schedRound).raced = true := by decide

theorem trylock_needs_release_dealloc :
    (run ⟨Order.acquire, Order.relaxed, Order.release⟩ cfgSame schedRound).raced = true := by decide

theorem trylock_needs_release_giveback :
    (run ⟨Order.acquire, Order.release, Order.relaxed⟩ cfgSame schedFail).raced = true := by decide

/-- the orders of the current source on the same schedules -/
example : (run ⟨Order.acquire, Order.release, Order.release⟩ cfgSame schedRound).raced = false
    ∧ (run ⟨Order.acquire, Order.release, Order.release⟩ cfgSame schedFail).raced = false := by decide

theorem acquire_necessary (o : TryLockOrders) (h : o.xchg.isAcq = false) :
    ∃ cfg sched, (run o cfg sched).raced = true := by
  refine ⟨cfgSame, schedRound, ?_⟩
  obtain ⟨a, d, g⟩ := o
  cases a <;> cases d <;> cases g <;> first | (simp [Order.isAcq] at h; done) | rfl

theorem release_dealloc_necessary (o : TryLockOrders) (h : o.dealloc.isRel = false) :
    ∃ cfg sched, (run o cfg sched).raced = true := by
  refine ⟨cfgSame, schedRound, ?_⟩
  obtain ⟨a, d, g⟩ := o
  cases a <;> cases d <;> cases g <;> first | (simp [Order.isRel] at h; done) | rfl

theorem release_giveback_necessary (o : TryLockOrders) (h : o.giveback.isRel = false) :
    ∃ cfg sched, (run o cfg sched).raced = true := by
  refine ⟨cfgSame, schedFail, ?_⟩
  obtain ⟨a, d, g⟩ := o
  cases a <;> cases d <;> cases g <;> first | (simp [Order.isRel] at h; done) | rfl

/-- `sufficient` is exactly what race freedom of the protocol needs -/
theorem trylock_race_free_iff (o : TryLockOrders) :
    (∀ (cfg : Cfg) (sched : List (Nat × Nat)), (run o cfg sched).raced = false) ↔ o.sufficient = true := by
  constructor
  · intro h
    rw [sufficient_iff]
    refine ⟨?_, ?_, ?_⟩
    · cases hr : o.xchg.isAcq with
      | true => rfl
      | false => obtain ⟨cfg, sched, hx⟩ := acquire_necessary o hr; rw [h cfg sched] at hx; cases hx
    · cases hr : o.dealloc.isRel with
      | true => rfl
      | false => obtain ⟨cfg, sched, hx⟩ := release_dealloc_necessary o hr; rw [h cfg sched] at hx; cases hx
    · cases hr : o.giveback.isRel with
      | true => rfl
      | false => obtain ⟨cfg, sched, hx⟩ := release_giveback_necessary o hr; rw [h cfg sched] at hx; cases hx
  · exact trylock_race_free o

/-! ### erasing the clocks: the sequentially consistent projection

`Sc` keeps the value of the flag and the control state and forgets the clocks, the clocks inside the messages and all messages but
the latest, the FastTrack records, the log and `raced`.  `proj_run`: the projection of a run of the machine is the run of `scStep`
on the same schedule — the machine adds bookkeeping to the SC behaviour and never changes it (an RMW reads the latest value and
nothing loads the flag, so the weak-memory machine has no extra behaviours on the flag).

Relation to `StorageMt.lean` (the model C19 runs against the real headers): same flag, different granularity — `StorageMt` steps at
the *hooked* operations of the harness (`operator new/delete`, a whole `dealloc` on a frame *id* by whichever thread is scheduled),
carries heap, frame ids, sizes and private frames and has no per-thread "holds the block" state — so the bridge has two halves:
`proj_run` below (machine → `Sc`, an equality) and the forward simulation `StorageMt → Sc` proved in `TryLockClockProofs.lean`
(`mt_sim_step`, `storageMt_refines`; the relation `Sim` there says precisely what is projected away). -/

structure Sc where
  busy : Bool
  pc : Nat → Pc

def Sc.init : Sc := ⟨false, fun _ => Pc.idle⟩

def proj (s : St) : Sc := ⟨(lastMsg s).val != 0, s.pc⟩

def scAlloc (x : Sc) (t : Nat) : Sc := ⟨true, upd x.pc t (if x.busy = false then Pc.won else x.pc t)⟩
def scSetPc (x : Sc) (t : Nat) (p : Pc) : Sc := ⟨x.busy, upd x.pc t p⟩
def scStore (x : Sc) (t : Nat) : Sc := ⟨false, upd x.pc t Pc.idle⟩
def scHandover (x : Sc) (t u : Nat) : Sc := ⟨x.busy, upd (upd x.pc t Pc.idle) u Pc.use⟩

def scWon (x : Sc) (t c : Nat) : Sc :=
  match c with
  | 0 => scSetPc x t Pc.use
  | 1 => scSetPc x t Pc.use
  | _ => scSetPc x t Pc.giveback

def scUse (cfg : Cfg) (x : Sc) (t c : Nat) : Sc :=
  match c with
  | 0 => x
  | 1 => x
  | 2 => scAlloc x t
  | 3 => scSetPc x t Pc.rel
  | u + 4 => if cfg.migrate t u = true ∧ u ≠ t ∧ u < cfg.threads ∧ x.pc u = Pc.idle then scHandover x t u else x

def scStep (cfg : Cfg) (x : Sc) (e : Nat × Nat) : Sc :=
  if e.1 < cfg.threads then
    match x.pc e.1 with
    | Pc.idle => scAlloc x e.1
    | Pc.won => scWon x e.1 e.2
    | Pc.use => scUse cfg x e.1 e.2
    | Pc.rel => scStore x e.1
    | Pc.giveback => scStore x e.1
  else x

theorem proj_alloc (o : TryLockOrders) (s : St) (t : Nat) : proj (stepAlloc o s t) = scAlloc (proj s) t := by
  simp only [proj, stepAlloc, setPc, doXchg, lastMsg_mk, scAlloc]
  by_cases h : (lastMsg s).val = 0 <;> simp [h]

theorem proj_step (o : TryLockOrders) (cfg : Cfg) (s : St) (e : Nat × Nat) :
    proj (step o cfg s e) = scStep cfg (proj s) e := by
  unfold step scStep
  have hpc : (proj s).pc = s.pc := rfl
  rw [hpc]
  split
  · split
    · exact proj_alloc o s _
    · unfold stepWon scWon
      split <;> rfl
    · unfold stepUse scUse
      split
      · rfl
      · rfl
      · exact proj_alloc o s _
      · rfl
      · rw [hpc]; split <;> rfl
    · simp [proj, stepRel, setPc, doStore, scStore]
    · simp [proj, stepGiveback, setPc, doStore, scStore]
  · rfl

/-- **Bridge**: forgetting all happens-before bookkeeping, a run of the machine is the run of the SC flag system on the same
schedule (for all orders). -/
theorem proj_run (o : TryLockOrders) (cfg : Cfg) (sched : List (Nat × Nat)) :
    proj (run o cfg sched) = sched.foldl (scStep cfg) Sc.init := by
  unfold run
  have h0 : proj St.init = Sc.init := by simp [proj, St.init, Sc.init, lastMsg, Msg.init]
  rw [← h0]
  generalize St.init = s
  induction sched generalizing s with
  | nil => rfl
  | cons e es ih => simp only [List.foldl_cons]; rw [ih, proj_step]

end Cocls.TryLock
