import CoclsModel.SharedFuture
/-!
Invariant of the shared_future micro-step model (`SharedFuture.lean`): definition, automation, initial state.
The preservation lemmas are in `SharedFutureSteps.lean`, the inductions and derived theorems in `SharedFutureProofs.lean`.
-/
namespace Cocls.SharedFuture

/-! ## counting helpers -/

/-- pending wake-ups of `x` in the walker's list (`store x` / `wake x`) -/
def cntW (x : Nat) : List WAct → Nat
  | [] => 0
  | WAct.store y :: l => (if y = x then 1 else 0) + cntW x l
  | WAct.wake y :: l => (if y = x then 1 else 0) + cntW x l
  | _ :: l => cntW x l

/-- pending observations of `x` in the walker's list (`wake x` / `obsAfter x`) -/
def cntO (x : Nat) : List WAct → Nat
  | [] => 0
  | WAct.wake y :: l => (if y = x then 1 else 0) + cntO x l
  | WAct.obsAfter y _ :: l => (if y = x then 1 else 0) + cntO x l
  | _ :: l => cntO x l

/-- pending `store x` -/
def cntS (x : Nat) : List WAct → Nat
  | [] => 0
  | WAct.store y :: l => (if y = x then 1 else 0) + cntS x l
  | _ :: l => cntS x l

def cntRel : List WAct → Nat
  | [] => 0
  | WAct.release :: l => 1 + cntRel l
  | _ :: l => cntRel l

def nCharge : List CI → Nat
  | [] => 0
  | CI.charge _ :: l => 1 + nCharge l
  | _ :: l => nCharge l

def inflight : Pc → Nat
  | Pc.hCas _ _ _ => 1
  | Pc.hRead k _ => if k = WK.peek then 0 else 1
  | Pc.hRead2 k _ _ => if k = WK.peek then 0 else 1
  | Pc.hWait _ => 1
  | Pc.hBlocked _ => 1
  | _ => 0

def actsOf : Pc → List WAct
  | Pc.rRun a => a
  | _ => []

/-- the walker's remaining actions -/
def wacts (c : Cfg) (s : State) : List WAct := actsOf (s.pc c.rtid)

def isCtor : Pc → Bool
  | Pc.cRun _ => true
  | _ => false

/-- the program counter belongs to the thread's kind -/
def pcOK (c : Cfg) (t : Nat) : Pc → Prop
  | Pc.done => True
  | Pc.cRun _ => t = 0 ∧ t < c.n
  | Pc.hStart => kindOf c t = Kind.handle ∧ t < c.n
  | Pc.hGate => kindOf c t = Kind.handle ∧ t < c.n
  | Pc.hRun _ => kindOf c t ≠ Kind.res ∧ t < c.n
  | Pc.hCas _ _ _ => kindOf c t ≠ Kind.res ∧ t < c.n
  | Pc.hWait _ => kindOf c t ≠ Kind.res ∧ t < c.n
  | Pc.hBlocked _ => kindOf c t ≠ Kind.res ∧ t < c.n
  | Pc.hRead _ _ => kindOf c t ≠ Kind.res ∧ t < c.n
  | Pc.hRead2 _ _ _ => kindOf c t ≠ Kind.res ∧ t < c.n
  | Pc.rStart => kindOf c t = Kind.res ∧ t < c.n
  | Pc.rGate => kindOf c t = Kind.res ∧ t < c.n
  | Pc.rResolve => kindOf c t = Kind.res ∧ t < c.n
  | Pc.rRun _ => kindOf c t = Kind.res ∧ t < c.n

/-- program counters of a thread that already holds its handle after the construction -/
def postCtor : Pc → Bool
  | Pc.hRun _ => true
  | Pc.hCas _ _ _ => true
  | Pc.hWait _ => true
  | Pc.hBlocked _ => true
  | Pc.hRead _ _ => true
  | Pc.hRead2 _ _ _ => true
  | _ => false

/-- before the resolver's exchange -/
def preResolve : Pc → Bool
  | Pc.rStart => true
  | Pc.rGate => true
  | Pc.rResolve => true
  | _ => false

def preClaim : Pc → Bool
  | Pc.rStart => true
  | Pc.rGate => true
  | _ => false

def finalPayload (c : Cfg) : Outcome := if c.mode.hasPromise then c.rk.payload else c.mode.initPayload

def Fixed (c : Cfg) : Prop := c.asIsInit = false ∧ c.asIsLshift = false

structure Inv (c : Cfg) (s : State) : Prop where
  pcok : ∀ t, pcOK c t (s.pc t)
  aCas : ∀ t k e p, s.pc t = Pc.hCas k e p →
    k ≠ WK.peek ∧ s.akind t = k ∧ s.awaited t = true ∧ s.subscribed t = false ∧ 1 ≤ s.held t
  aRead : ∀ t k p, s.pc t = Pc.hRead k p →
    (k = WK.peek ∨ (s.akind t = k ∧ s.awaited t = true)) ∧ 1 ≤ s.held t ∧ s.slot = Slot.ready
  aRead2 : ∀ t k sn p, s.pc t = Pc.hRead2 k sn p →
    (k = WK.peek ∨ (s.akind t = k ∧ s.awaited t = true)) ∧ 1 ≤ s.held t ∧ s.slot = Slot.ready ∧ sn = Seen.ready
  aWait : ∀ t p, (s.pc t = Pc.hWait p ∨ s.pc t = Pc.hBlocked p) →
    s.akind t = WK.sync ∧ s.awaited t = true ∧ s.subscribed t = true ∧ 1 ≤ s.held t
  aCtor : ∀ t is, s.pc t = Pc.cRun is →
    1 ≤ s.held t ∧ s.constructed = false ∧ nCharge is ≤ 1 ∧ (nCharge is = 1 → s.tracerRef = false) ∧
      (s.slot ≠ Slot.ready → s.tracerRef = false → nCharge is = 1) ∧ (CI.loadTmp ∈ is → c.mode.hasPromise = true)
  aGate : ∀ t, (s.pc t = Pc.hStart ∨ s.pc t = Pc.hGate) → s.held t = if s.given then 1 else 0
  aDone : ∀ t, s.pc t = Pc.done → s.held t = 0
  aRun : ∀ t a, s.pc t = Pc.rRun a → s.slot = Slot.ready ∧ s.published = true
  aResolve : ∀ t, s.pc t = Pc.rResolve → s.published = true
  -- gating
  ctor0 : s.constructed = false → ∀ t, s.awaited t = false
  pub : s.published = false → ∀ t, kindOf c t = Kind.res → t < c.n → preClaim (s.pc t) = true
  nopromise : c.mode.hasPromise = false → s.published = false ∧ s.slot = Slot.ready
  -- resolution
  pending : ∀ t, kindOf c t = Kind.res → t < c.n → preResolve (s.pc t) = true → c.mode.hasPromise = true → s.slot ≠ Slot.ready
  resolved : ∀ t, kindOf c t = Kind.res → t < c.n → preResolve (s.pc t) = false → s.slot = Slot.ready
  pay : s.slot = Slot.ready → s.payload = finalPayload c
  obsAfterReady : ∀ x sn, WAct.obsAfter x sn ∈ wacts c s → sn = Seen.ready
  -- life time
  alive : s.slot ≠ Slot.ready → s.tracerRef = true ∨ isCtor (s.pc 0) = true
  refsLen : s.refs = s.holders.length
  hThread : ∀ t, s.holders.count (Holder.thread t) = s.held t
  hCtx : ∀ t, s.holders.count (Holder.ctx t) = if s.ctx t then 1 else 0
  hTracer : s.holders.count Holder.tracer = if s.tracerRef then 1 else 0
  freedIff : s.freed = if s.refs = 0 then 1 else 0
  noUaf : s.uaf = 0
  noCrash : s.crashed = false
  tracerCnt : (chainOf s.slot).count Node.tracer + cntRel (wacts c s) = if s.tracerRef then 1 else 0
  tracerLast : Node.tracer ∈ chainOf s.slot → (chainOf s.slot).getLast? = some Node.tracer
  -- awaiters
  wake : ∀ x, (chainOf s.slot).count (Node.aw x) + cntW x (wacts c s) + s.woken x = if s.subscribed x then 1 else 0
  obsv : ∀ x, s.observed x + inflight (s.pc x) + (if s.akind x = WK.sync then 0 else (chainOf s.slot).count (Node.aw x)) +
            cntO x (wacts c s) = if s.awaited x then 1 else 0
  subAw : ∀ x, s.subscribed x = true → s.awaited x = true
  awKind : ∀ x, s.awaited x = true → s.akind x ≠ WK.peek
  ctxIff : ∀ x, s.ctx x = true ↔ (s.awaited x = true ∧ ownsCtx (s.akind x) = true ∧ s.observed x = 0)
  wakeKind : ∀ x, 0 < cntO x (wacts c s) → s.akind x ≠ WK.sync
  storeKind : ∀ x, 0 < cntS x (wacts c s) → s.akind x = WK.sync
  flagIff : ∀ x, s.flag x = true ↔ (s.akind x = WK.sync ∧ 1 ≤ s.woken x)
  wokenReady : ∀ x, 1 ≤ s.woken x → s.slot = Slot.ready
  resHeld : ∀ t, kindOf c t = Kind.res → s.held t = 0
  aProg : ∀ t, postCtor (s.pc t) = true → s.constructed = true
  aPre : s.constructed = false → ∀ t, t < c.n → kindOf c t = Kind.handle → (s.pc t = Pc.hStart ∨ s.pc t = Pc.hGate)
  ctorPc : s.constructed = false → isCtor (s.pc 0) = true
  pubPc : s.published = false → c.mode.hasPromise = true → ∀ is, s.pc 0 = Pc.cRun is → CI.loadTmp ∈ is
  pubCtor : s.published = false → c.mode.hasPromise = true → isCtor (s.pc 0) = true
  givenC : s.constructed = true → s.given = true

macro "inv_facts" h:ident : tactic => `(tactic| (
  have := ($h).pcok
  have := ($h).aCas
  have := ($h).aRead
  have := ($h).aRead2
  have := ($h).aWait
  have := ($h).aCtor
  have := ($h).aGate
  have := ($h).aDone
  have := ($h).aRun
  have := ($h).aResolve
  have := ($h).ctor0
  have := ($h).pub
  have := ($h).nopromise
  have := ($h).pending
  have := ($h).resolved
  have := ($h).pay
  have := ($h).obsAfterReady
  have := ($h).alive
  have := ($h).refsLen
  have := ($h).hThread
  have := ($h).hCtx
  have := ($h).hTracer
  have := ($h).freedIff
  have := ($h).noUaf
  have := ($h).noCrash
  have := ($h).tracerCnt
  have := ($h).tracerLast
  have := ($h).wake
  have := ($h).obsv
  have := ($h).subAw
  have := ($h).awKind
  have := ($h).ctxIff
  have := ($h).wakeKind
  have := ($h).storeKind
  have := ($h).flagIff
  have := ($h).wokenReady
  have := ($h).resHeld
  have := ($h).aProg
  have := ($h).aPre
  have := ($h).ctorPc
  have := ($h).pubPc
  have := ($h).pubCtor
  have := ($h).givenC))

macro "inv_auto" h:ident : tactic => `(tactic| (
  constructor
  case pcok => first | exact ($h).pcok | (have := ($h).pcok; grind [upd, pcOK, preClaim, preResolve, isCtor, inflight, ownsCtx, postCtor]) | (inv_facts $h; grind [upd, pcOK, preClaim, preResolve, isCtor, inflight, ownsCtx, postCtor]) | fail "clause pcok"
  case aCas => first | exact ($h).aCas | (have := ($h).aCas; grind [upd, pcOK, preClaim, preResolve, isCtor, inflight, ownsCtx, postCtor]) | (inv_facts $h; grind [upd, pcOK, preClaim, preResolve, isCtor, inflight, ownsCtx, postCtor]) | fail "clause aCas"
  case aRead => first | exact ($h).aRead | (have := ($h).aRead; grind [upd, pcOK, preClaim, preResolve, isCtor, inflight, ownsCtx, postCtor]) | (inv_facts $h; grind [upd, pcOK, preClaim, preResolve, isCtor, inflight, ownsCtx, postCtor]) | fail "clause aRead"
  case aRead2 => first | exact ($h).aRead2 | (have := ($h).aRead2; grind [upd, pcOK, preClaim, preResolve, isCtor, inflight, ownsCtx, postCtor]) | (inv_facts $h; grind [upd, pcOK, preClaim, preResolve, isCtor, inflight, ownsCtx, postCtor]) | fail "clause aRead2"
  case aWait => first | exact ($h).aWait | (have := ($h).aWait; grind [upd, pcOK, preClaim, preResolve, isCtor, inflight, ownsCtx, postCtor]) | (inv_facts $h; grind [upd, pcOK, preClaim, preResolve, isCtor, inflight, ownsCtx, postCtor]) | fail "clause aWait"
  case aCtor => first | exact ($h).aCtor | (have := ($h).aCtor; grind [upd, pcOK, preClaim, preResolve, isCtor, inflight, ownsCtx, postCtor]) | (inv_facts $h; grind [upd, pcOK, preClaim, preResolve, isCtor, inflight, ownsCtx, postCtor]) | fail "clause aCtor"
  case aGate => first | exact ($h).aGate | (have := ($h).aGate; grind [upd, pcOK, preClaim, preResolve, isCtor, inflight, ownsCtx, postCtor]) | (inv_facts $h; grind [upd, pcOK, preClaim, preResolve, isCtor, inflight, ownsCtx, postCtor]) | fail "clause aGate"
  case aDone => first | exact ($h).aDone | (have := ($h).aDone; grind [upd, pcOK, preClaim, preResolve, isCtor, inflight, ownsCtx, postCtor]) | (inv_facts $h; grind [upd, pcOK, preClaim, preResolve, isCtor, inflight, ownsCtx, postCtor]) | fail "clause aDone"
  case aRun => first | exact ($h).aRun | (have := ($h).aRun; grind [upd, pcOK, preClaim, preResolve, isCtor, inflight, ownsCtx, postCtor]) | (inv_facts $h; grind [upd, pcOK, preClaim, preResolve, isCtor, inflight, ownsCtx, postCtor]) | fail "clause aRun"
  case aResolve => first | exact ($h).aResolve | (have := ($h).aResolve; grind [upd, pcOK, preClaim, preResolve, isCtor, inflight, ownsCtx, postCtor]) | (inv_facts $h; grind [upd, pcOK, preClaim, preResolve, isCtor, inflight, ownsCtx, postCtor]) | fail "clause aResolve"
  case ctor0 => first | exact ($h).ctor0 | (have := ($h).ctor0; grind [upd, pcOK, preClaim, preResolve, isCtor, inflight, ownsCtx, postCtor]) | (inv_facts $h; grind [upd, pcOK, preClaim, preResolve, isCtor, inflight, ownsCtx, postCtor]) | fail "clause ctor0"
  case pub => first | exact ($h).pub | (have := ($h).pub; grind [upd, pcOK, preClaim, preResolve, isCtor, inflight, ownsCtx, postCtor]) | (inv_facts $h; grind [upd, pcOK, preClaim, preResolve, isCtor, inflight, ownsCtx, postCtor]) | fail "clause pub"
  case nopromise => first | exact ($h).nopromise | (have := ($h).nopromise; grind [upd, pcOK, preClaim, preResolve, isCtor, inflight, ownsCtx, postCtor]) | (inv_facts $h; grind [upd, pcOK, preClaim, preResolve, isCtor, inflight, ownsCtx, postCtor]) | fail "clause nopromise"
  case pending => first | exact ($h).pending | (have := ($h).pending; grind [upd, pcOK, preClaim, preResolve, isCtor, inflight, ownsCtx, postCtor]) | (inv_facts $h; grind [upd, pcOK, preClaim, preResolve, isCtor, inflight, ownsCtx, postCtor]) | fail "clause pending"
  case resolved => first | exact ($h).resolved | (have := ($h).resolved; grind [upd, pcOK, preClaim, preResolve, isCtor, inflight, ownsCtx, postCtor]) | (inv_facts $h; grind [upd, pcOK, preClaim, preResolve, isCtor, inflight, ownsCtx, postCtor]) | fail "clause resolved"
  case pay => first | exact ($h).pay | (have := ($h).pay; grind [upd, pcOK, preClaim, preResolve, isCtor, inflight, ownsCtx, postCtor]) | (inv_facts $h; grind [upd, pcOK, preClaim, preResolve, isCtor, inflight, ownsCtx, postCtor]) | fail "clause pay"
  case obsAfterReady => first | exact ($h).obsAfterReady | (have := ($h).obsAfterReady; grind [upd, pcOK, preClaim, preResolve, isCtor, inflight, ownsCtx, postCtor]) | (inv_facts $h; grind [upd, pcOK, preClaim, preResolve, isCtor, inflight, ownsCtx, postCtor]) | fail "clause obsAfterReady"
  case alive => first | exact ($h).alive | (have := ($h).alive; grind [upd, pcOK, preClaim, preResolve, isCtor, inflight, ownsCtx, postCtor]) | (inv_facts $h; grind [upd, pcOK, preClaim, preResolve, isCtor, inflight, ownsCtx, postCtor]) | fail "clause alive"
  case refsLen => first | exact ($h).refsLen | (have := ($h).refsLen; grind [upd, pcOK, preClaim, preResolve, isCtor, inflight, ownsCtx, postCtor]) | (inv_facts $h; grind [upd, pcOK, preClaim, preResolve, isCtor, inflight, ownsCtx, postCtor]) | fail "clause refsLen"
  case hThread => first | exact ($h).hThread | (have := ($h).hThread; grind [upd, pcOK, preClaim, preResolve, isCtor, inflight, ownsCtx, postCtor]) | (inv_facts $h; grind [upd, pcOK, preClaim, preResolve, isCtor, inflight, ownsCtx, postCtor]) | fail "clause hThread"
  case hCtx => first | exact ($h).hCtx | (have := ($h).hCtx; grind [upd, pcOK, preClaim, preResolve, isCtor, inflight, ownsCtx, postCtor]) | (inv_facts $h; grind [upd, pcOK, preClaim, preResolve, isCtor, inflight, ownsCtx, postCtor]) | fail "clause hCtx"
  case hTracer => first | exact ($h).hTracer | (have := ($h).hTracer; grind [upd, pcOK, preClaim, preResolve, isCtor, inflight, ownsCtx, postCtor]) | (inv_facts $h; grind [upd, pcOK, preClaim, preResolve, isCtor, inflight, ownsCtx, postCtor]) | fail "clause hTracer"
  case freedIff => first | exact ($h).freedIff | (have := ($h).freedIff; grind [upd, pcOK, preClaim, preResolve, isCtor, inflight, ownsCtx, postCtor]) | (inv_facts $h; grind [upd, pcOK, preClaim, preResolve, isCtor, inflight, ownsCtx, postCtor]) | fail "clause freedIff"
  case noUaf => first | exact ($h).noUaf | (have := ($h).noUaf; grind [upd, pcOK, preClaim, preResolve, isCtor, inflight, ownsCtx, postCtor]) | (inv_facts $h; grind [upd, pcOK, preClaim, preResolve, isCtor, inflight, ownsCtx, postCtor]) | fail "clause noUaf"
  case noCrash => first | exact ($h).noCrash | (have := ($h).noCrash; grind [upd, pcOK, preClaim, preResolve, isCtor, inflight, ownsCtx, postCtor]) | (inv_facts $h; grind [upd, pcOK, preClaim, preResolve, isCtor, inflight, ownsCtx, postCtor]) | fail "clause noCrash"
  case tracerCnt => first | exact ($h).tracerCnt | (have := ($h).tracerCnt; grind [upd, pcOK, preClaim, preResolve, isCtor, inflight, ownsCtx, postCtor]) | (inv_facts $h; grind [upd, pcOK, preClaim, preResolve, isCtor, inflight, ownsCtx, postCtor]) | fail "clause tracerCnt"
  case tracerLast => first | exact ($h).tracerLast | (have := ($h).tracerLast; grind [upd, pcOK, preClaim, preResolve, isCtor, inflight, ownsCtx, postCtor]) | (inv_facts $h; grind [upd, pcOK, preClaim, preResolve, isCtor, inflight, ownsCtx, postCtor]) | fail "clause tracerLast"
  case wake => first | exact ($h).wake | (have := ($h).wake; grind [upd, pcOK, preClaim, preResolve, isCtor, inflight, ownsCtx, postCtor]) | (inv_facts $h; grind [upd, pcOK, preClaim, preResolve, isCtor, inflight, ownsCtx, postCtor]) | fail "clause wake"
  case obsv => first | exact ($h).obsv | (have := ($h).obsv; grind [upd, pcOK, preClaim, preResolve, isCtor, inflight, ownsCtx, postCtor]) | (inv_facts $h; grind [upd, pcOK, preClaim, preResolve, isCtor, inflight, ownsCtx, postCtor]) | fail "clause obsv"
  case subAw => first | exact ($h).subAw | (have := ($h).subAw; grind [upd, pcOK, preClaim, preResolve, isCtor, inflight, ownsCtx, postCtor]) | (inv_facts $h; grind [upd, pcOK, preClaim, preResolve, isCtor, inflight, ownsCtx, postCtor]) | fail "clause subAw"
  case awKind => first | exact ($h).awKind | (have := ($h).awKind; grind [upd, pcOK, preClaim, preResolve, isCtor, inflight, ownsCtx, postCtor]) | (inv_facts $h; grind [upd, pcOK, preClaim, preResolve, isCtor, inflight, ownsCtx, postCtor]) | fail "clause awKind"
  case ctxIff => first | exact ($h).ctxIff | (have := ($h).ctxIff; grind [upd, pcOK, preClaim, preResolve, isCtor, inflight, ownsCtx, postCtor]) | (inv_facts $h; grind [upd, pcOK, preClaim, preResolve, isCtor, inflight, ownsCtx, postCtor]) | fail "clause ctxIff"
  case wakeKind => first | exact ($h).wakeKind | (have := ($h).wakeKind; grind [upd, pcOK, preClaim, preResolve, isCtor, inflight, ownsCtx, postCtor]) | (inv_facts $h; grind [upd, pcOK, preClaim, preResolve, isCtor, inflight, ownsCtx, postCtor]) | fail "clause wakeKind"
  case storeKind => first | exact ($h).storeKind | (have := ($h).storeKind; grind [upd, pcOK, preClaim, preResolve, isCtor, inflight, ownsCtx, postCtor]) | (inv_facts $h; grind [upd, pcOK, preClaim, preResolve, isCtor, inflight, ownsCtx, postCtor]) | fail "clause storeKind"
  case flagIff => first | exact ($h).flagIff | (have := ($h).flagIff; grind [upd, pcOK, preClaim, preResolve, isCtor, inflight, ownsCtx, postCtor]) | (inv_facts $h; grind [upd, pcOK, preClaim, preResolve, isCtor, inflight, ownsCtx, postCtor]) | fail "clause flagIff"
  case wokenReady => first | exact ($h).wokenReady | (have := ($h).wokenReady; grind [upd, pcOK, preClaim, preResolve, isCtor, inflight, ownsCtx, postCtor]) | (inv_facts $h; grind [upd, pcOK, preClaim, preResolve, isCtor, inflight, ownsCtx, postCtor]) | fail "clause wokenReady"
  case resHeld => first | exact ($h).resHeld | (have := ($h).resHeld; grind [upd, pcOK, preClaim, preResolve, isCtor, inflight, ownsCtx, postCtor]) | (inv_facts $h; grind [upd, pcOK, preClaim, preResolve, isCtor, inflight, ownsCtx, postCtor]) | fail "clause resHeld"
  case aProg => first | exact ($h).aProg | (have := ($h).aProg; grind [upd, pcOK, preClaim, preResolve, isCtor, inflight, ownsCtx, postCtor]) | (inv_facts $h; grind [upd, pcOK, preClaim, preResolve, isCtor, inflight, ownsCtx, postCtor]) | fail "clause aProg"
  case aPre => first | exact ($h).aPre | (have := ($h).aPre; grind [upd, pcOK, preClaim, preResolve, isCtor, inflight, ownsCtx, postCtor]) | (inv_facts $h; grind [upd, pcOK, preClaim, preResolve, isCtor, inflight, ownsCtx, postCtor]) | fail "clause aPre"
  case ctorPc => first | exact ($h).ctorPc | (have := ($h).ctorPc; grind [upd, pcOK, preClaim, preResolve, isCtor, inflight, ownsCtx, postCtor]) | (inv_facts $h; grind [upd, pcOK, preClaim, preResolve, isCtor, inflight, ownsCtx, postCtor]) | fail "clause ctorPc"
  case pubPc => first | exact ($h).pubPc | (have := ($h).pubPc; grind [upd, pcOK, preClaim, preResolve, isCtor, inflight, ownsCtx, postCtor]) | (inv_facts $h; grind [upd, pcOK, preClaim, preResolve, isCtor, inflight, ownsCtx, postCtor]) | fail "clause pubPc"
  case pubCtor => first | exact ($h).pubCtor | (have := ($h).pubCtor; grind [upd, pcOK, preClaim, preResolve, isCtor, inflight, ownsCtx, postCtor]) | (inv_facts $h; grind [upd, pcOK, preClaim, preResolve, isCtor, inflight, ownsCtx, postCtor]) | fail "clause pubCtor"
  case givenC => first | exact ($h).givenC | (have := ($h).givenC; grind [upd, pcOK, preClaim, preResolve, isCtor, inflight, ownsCtx, postCtor]) | (inv_facts $h; grind [upd, pcOK, preClaim, preResolve, isCtor, inflight, ownsCtx, postCtor]) | fail "clause givenC"))

variable {c : Cfg} {s : State} {t : Nat}

theorem touch_eq (hf : s.freed = 0) : touch s = s := by cases s; simp_all [touch]

theorem alive_of_mem (h : Inv c s) (x : Holder) (hx : x ∈ s.holders) : 1 ≤ s.refs ∧ s.freed = 0 := by
  have h1 := h.refsLen
  have h2 := h.freedIff
  have : 0 < s.holders.length := List.length_pos_of_mem hx
  constructor
  · omega
  · rw [h2]; simp; omega

theorem alive_of_held (h : Inv c s) (hh : s.held t ≠ 0) : 1 ≤ s.refs ∧ s.freed = 0 := by
  apply alive_of_mem h (Holder.thread t)
  have := h.hThread t
  apply List.count_pos_iff.1
  omega

theorem alive_of_ctx (h : Inv c s) (x : Nat) (hh : s.ctx x = true) : 1 ≤ s.refs ∧ s.freed = 0 := by
  apply alive_of_mem h (Holder.ctx x)
  have := h.hCtx x
  apply List.count_pos_iff.1
  simp [hh] at this
  omega

theorem alive_of_tracer (h : Inv c s) (hh : s.tracerRef = true) : 1 ≤ s.refs ∧ s.freed = 0 := by
  apply alive_of_mem h Holder.tracer
  have := h.hTracer
  apply List.count_pos_iff.1
  simp [hh] at this
  omega

theorem wacts_setPc (c : Cfg) (s s' : State) (t : Nat) (p : Pc) (hpc : s'.pc = upd s.pc t p) (h1 : actsOf (s.pc t) = []) (h2 : actsOf p = []) :
    wacts c s' = wacts c s := by
  unfold wacts
  rw [hpc]
  by_cases hr : c.rtid = t
  · subst hr; simp [h1, h2]
  · simp [hr]

/-- the state after `~shared_ptr`, as one expression -/
theorem dropRef_fst (x : Holder) (hf : s.freed = 0) :
    (dropRef s t x).1 = { s with refs := s.refs - 1, holders := s.holders.erase x, freed := if s.refs = 1 then 1 else 0 } := by
  unfold dropRef
  split
  · rename_i h1; simp [touch_eq hf, h1, hf]
  · simp [touch_eq hf, hf]

theorem cntS_le_cntW (x : Nat) (l : List WAct) : cntS x l ≤ cntW x l := by
  induction l with
  | nil => simp [cntS, cntW]
  | cons a l ih => cases a <;> simp [cntS, cntW] <;> omega

/-- a thread that has not awaited yet left no trace in the awaiter bookkeeping -/
theorem not_awaited_clean (h : Inv c s) (ha : s.awaited t = false) :
    s.observed t = 0 ∧ cntO t (wacts c s) = 0 ∧ cntW t (wacts c s) = 0 ∧ cntS t (wacts c s) = 0 ∧
    (chainOf s.slot).count (Node.aw t) = 0 ∧ s.woken t = 0 ∧ s.subscribed t = false ∧ s.ctx t = false ∧ s.flag t = false ∧
    inflight (s.pc t) = 0 := by
  have h1 := h.obsv t
  have h2 := h.wake t
  have h3 := h.subAw t
  have h4 := (h.ctxIff t).1
  have h5 := (h.flagIff t).1
  have h6 := cntS_le_cntW t (wacts c s)
  have hsub : s.subscribed t = false := by
    cases hq : s.subscribed t
    · rfl
    · have := h3 hq; simp [ha] at this
  simp only [ha, hsub] at h1 h2
  simp at h1 h2
  refine ⟨by omega, by omega, by omega, by omega, by omega, by omega, hsub, ?_, ?_, by omega⟩
  · cases hq : s.ctx t
    · rfl
    · have := (h4 hq).1; simp [ha] at this
  · cases hq : s.flag t
    · rfl
    · have := (h5 hq).2; omega

theorem kindOf_zero (c : Cfg) : kindOf c 0 = Kind.creator := by simp [kindOf]

theorem kind_creator_iff (c : Cfg) (t : Nat) : kindOf c t = Kind.creator ↔ t = 0 := by
  unfold kindOf; by_cases h0 : t = 0 <;> by_cases h1 : t = c.rtid <;> simp_all <;> omega

theorem kind_res_iff (c : Cfg) (t : Nat) : kindOf c t = Kind.res ↔ (t ≠ 0 ∧ t = c.rtid) := by
  unfold kindOf; by_cases h0 : t = 0 <;> by_cases h1 : t = c.rtid <;> simp_all <;> omega

theorem kind_handle_iff (c : Cfg) (t : Nat) : kindOf c t = Kind.handle ↔ (t ≠ 0 ∧ t ≠ c.rtid) := by
  unfold kindOf; by_cases h0 : t = 0 <;> by_cases h1 : t = c.rtid <;> simp_all <;> omega

theorem nCharge_script (c : Cfg) (h : Fixed c) : nCharge c.script = 1 := by
  obtain ⟨_, h2⟩ := h
  unfold Cfg.script
  cases hm : c.mode <;> simp [h2, nCharge]

theorem initPc_cases (c : Cfg) (t : Nat) :
    (initPc c t = Pc.done ∧ ¬ t < c.n) ∨ (initPc c t = Pc.cRun c.script ∧ t = 0 ∧ t < c.n) ∨
    (initPc c t = Pc.hStart ∧ kindOf c t = Kind.handle ∧ t < c.n) ∨ (initPc c t = Pc.rStart ∧ kindOf c t = Kind.res ∧ t < c.n) := by
  unfold initPc
  split
  · cases hk : kindOf c t
    · have := (kind_creator_iff c t).1 hk; simp_all
    · simp_all
    · simp_all
  · simp_all

theorem inv_init (c : Cfg) (h : Fixed c) (hn : 0 < c.n) : Inv c (init c) := by
  have hs := nCharge_script c h
  have hp : ∀ t, (init c).pc t = initPc c t := fun _ => rfl
  have hc := initPc_cases c
  have hw : wacts c (init c) = [] := by
    simp only [wacts, hp]
    rcases hc c.rtid with h1 | h1 | h1 | h1 <;> simp [h1.1, actsOf]
  have hk := kind_handle_iff c
  have hk2 := kind_res_iff c
  constructor
  all_goals (try simp only [hw, hp])
  all_goals (try (simp [init, cntW, cntO, cntS, cntRel, inflight, chainOf, ownsCtx]; done))
  all_goals (try (simp only [init]; grind [pcOK, preClaim, preResolve, isCtor, postCtor, finalPayload, chainOf, Mode.hasPromise, Mode.initPayload, cntRel]; done))
  case pcok =>
    intro t
    rcases hc t with h1 | h1 | h1 | h1
    · rw [h1.1]; trivial
    · rw [h1.1]; exact ⟨h1.2.1, h1.2.2⟩
    · rw [h1.1]; exact h1.2
    · rw [h1.1]; exact h1.2
  case aCtor =>
    intro t is hq
    rcases hc t with h1 | h1 | h1 | h1
    · rw [h1.1] at hq; cases hq
    · rw [h1.1] at hq
      cases hq
      have h2 := h1.2.1
      subst h2
      refine ⟨by simp [init], rfl, by omega, fun _ => rfl, fun _ _ => hs, ?_⟩
      unfold Cfg.script
      cases hm : c.mode <;> simp [Mode.hasPromise]
    · rw [h1.1] at hq; cases hq
    · rw [h1.1] at hq; cases hq
  case pubPc =>
    intro _ hpm is hq
    rcases hc 0 with h1 | h1 | h1 | h1
    · exact absurd hn h1.2
    · rw [h1.1] at hq
      cases hq
      unfold Cfg.script
      cases hm : c.mode <;> simp_all [Mode.hasPromise, h.2]
    · rw [h1.1] at hq; cases hq
    · rw [h1.1] at hq; cases hq
  case wake =>
    intro x
    have hch : chainOf (init c).slot = [] := by simp only [init]; split <;> rfl
    rw [hch]; simp [cntW, init]
  case obsv =>
    intro x
    have hch : chainOf (init c).slot = [] := by simp only [init]; split <;> rfl
    rw [hch]
    rcases hc x with h1 | h1 | h1 | h1 <;> simp [cntO, init, h1.1, inflight]

end Cocls.SharedFuture
