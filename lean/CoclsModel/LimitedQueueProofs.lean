import CoclsModel.LimitedQueue
/-!
Invariant of the `limited_queue` model and its preservation by every step (helper lemmas for
`Props/C10.lean`).
-/
namespace Cocls.LQ

def Ev.popId? : Ev → Option Nat
  | Ev.pop id _ => some id
  | Ev.push _ _ => none

def Ev.pushId? : Ev → Option Nat
  | Ev.pop _ _ => none
  | Ev.push id _ => some id

def popIds (l : List Ev) : List Nat := l.filterMap Ev.popId?
def pushIds (l : List Ev) : List Nat := l.filterMap Ev.pushId?

@[simp] theorem popIds_nil : popIds [] = [] := rfl
@[simp] theorem pushIds_nil : pushIds [] = [] := rfl
@[simp] theorem popIds_append (a b : List Ev) : popIds (a ++ b) = popIds a ++ popIds b := by
  simp [popIds]
@[simp] theorem pushIds_append (a b : List Ev) : pushIds (a ++ b) = pushIds a ++ pushIds b := by
  simp [pushIds]
@[simp] theorem popIds_cons_pop (id o l) : popIds (Ev.pop id o :: l) = id :: popIds l := by
  simp [popIds, Ev.popId?]
@[simp] theorem popIds_cons_push (id o l) : popIds (Ev.push id o :: l) = popIds l := by
  simp [popIds, List.filterMap_cons, Ev.popId?]
@[simp] theorem pushIds_cons_pop (id o l) : pushIds (Ev.pop id o :: l) = pushIds l := by
  simp [pushIds, List.filterMap_cons, Ev.pushId?]
@[simp] theorem pushIds_cons_push (id o l) : pushIds (Ev.push id o :: l) = id :: pushIds l := by
  simp [pushIds, Ev.pushId?]

/-- ids of the pushes whose items are (or were) held by the queue, in hand-over/queue order -/
def heldIds (s : State) : List Nat :=
  s.assigned.map (·.2.1) ++ s.items.map (·.1) ++ s.blocked.map (·.1)

structure Inv (s : State) : Prop where
  len_le : s.items.length ≤ s.limit
  blocked_full : s.blocked ≠ [] → s.items.length = s.limit
  waiters_empty : s.waiters ≠ [] → s.items = [] ∧ s.blocked = []
  -- conservation of items: every push id is held exactly once or was withdrawn exactly once
  item_once : ∀ i, (heldIds s).count i + s.withdrawn.count i = if i < s.nextPush then 1 else 0
  held_sorted : (heldIds s).Pairwise (· < ·)
  -- consumers are served in arrival order
  pops_sorted : (s.assigned.map (·.1) ++ s.waiters).Pairwise (· < ·)
  pops_lt : ∀ i ∈ s.assigned.map (·.1) ++ s.waiters, i < s.nextPop
  -- every future has exactly one place: parked, in flight, or completed
  pop_once : ∀ i, s.waiters.count i + (popIds s.inflight).count i + (popIds s.completed).count i
      = if i < s.nextPop then 1 else 0
  push_once : ∀ i, (s.blocked.map (·.1)).count i + (pushIds s.inflight).count i
      + (pushIds s.completed).count i = if i < s.nextPush then 1 else 0

theorem inv_init (limit : Nat) : Inv (init limit) := by
  refine ⟨?_, ?_, ?_, ?_, ?_, ?_, ?_, ?_, ?_⟩ <;> simp [init, heldIds]

theorem pairwise_snoc {l : List Nat} {n : Nat} (h : l.Pairwise (· < ·)) (hb : ∀ x ∈ l, x < n) :
    (l ++ [n]).Pairwise (· < ·) := by
  rw [List.pairwise_append]
  refine ⟨h, by simp, ?_⟩
  intro a ha b hb'
  simp at hb'
  subst hb'
  exact hb a ha

/-- from the counting clause: a member of the list is below the bound -/
theorem lt_of_mem_count {l w : List Nat} {n : Nat}
    (h : ∀ i, l.count i + w.count i = if i < n then 1 else 0) : ∀ x ∈ l, x < n := by
  intro x hx
  have h1 := h x
  have h2 : 0 < l.count x := List.count_pos_iff.mpr hx
  split at h1 <;> omega

macro "lsimp" : tactic => `(tactic| simp only [heldIds, List.map_append, List.map_cons, List.map_nil, List.count_append,
      List.count_cons, List.count_nil, pushIds_append, popIds_append, pushIds_cons_push, popIds_cons_push,
      pushIds_cons_pop, popIds_cons_pop, pushIds_nil, popIds_nil, List.append_nil, List.nil_append, beq_iff_eq] at *)

syntax "count_tac" ident : tactic
macro_rules | `(tactic| count_tac $h) => `(tactic| (lsimp; (try split at $h:ident) <;> (repeat (first | omega | split))))

theorem inv_push (s : State) (v : Nat) (h : Inv s) : Inv (stepPush s v).1 := by
  obtain ⟨h1, h2, h3, h4, h5, h6, h7, h8, h9⟩ := h
  have hlt := lt_of_mem_count h4
  unfold stepPush
  cases hw : s.waiters with
  | nil =>
    simp only [hw] at *
    by_cases hfull : s.items.length ≥ s.limit
    · simp only [hfull, ite_true]
      refine ⟨h1, ?_, ?_, ?_, ?_, h6, h7, h8, ?_⟩
      · intro _; simp only; omega
      · simp
      · intro i; have hh := h4 i; count_tac hh
      · simp only [heldIds, List.map_append, List.map_cons, List.map_nil, ← List.append_assoc] at *
        exact pairwise_snoc h5 hlt
      · intro i; have hh := h9 i; count_tac hh
    · simp only [hfull, ite_false]
      have hb : s.blocked = [] := by
        by_cases hb : s.blocked = []
        · exact hb
        · have := h2 hb; omega
      refine ⟨?_, ?_, ?_, ?_, ?_, h6, h7, ?_, ?_⟩
      · simp; omega
      · simp [hb]
      · simp
      · intro i; have hh := h4 i; count_tac hh
      · simp only [heldIds, hb, List.map_append, List.map_cons, List.map_nil, List.append_nil, ← List.append_assoc] at *
        exact pairwise_snoc h5 hlt
      · intro i; have hh := h8 i; count_tac hh
      · intro i; have hh := h9 i; count_tac hh
  | cons w ws =>
    simp only [hw] at *
    obtain ⟨hi, hb⟩ := h3 (by simp)
    simp only [heldIds, hi, hb, List.map_nil, List.append_nil] at h1 h2 h4 h5 h9 hlt ⊢
    refine ⟨?_, ?_, ?_, ?_, ?_, ?_, ?_, ?_, ?_⟩
    · simp
    · simp
    · simp
    · intro i; have hh := h4 i; count_tac hh
    · simp only [heldIds, List.map_append, List.map_cons, List.map_nil, List.append_nil] at *
      exact pairwise_snoc h5 hlt
    · simpa using h6
    · simpa using h7
    · intro i; have hh := h8 i; count_tac hh
    · intro i; have hh := h9 i; count_tac hh

theorem pairwise_tail_snoc {a b : Nat} {A I B : List Nat}
    (h : (A ++ (a :: I) ++ (b :: B)).Pairwise (· < ·)) : ((A ++ [a]) ++ (I ++ [b]) ++ B).Pairwise (· < ·) := by
  have : (A ++ [a]) ++ (I ++ [b]) ++ B = A ++ (a :: I) ++ (b :: B) := by simp
  rw [this]; exact h

theorem inv_pop (s : State) (hl : 0 < s.limit) (h : Inv s) : Inv (stepPop s).1 := by
  obtain ⟨h1, h2, h3, h4, h5, h6, h7, h8, h9⟩ := h
  unfold stepPop
  cases hi : s.items with
  | nil =>
    have hb : s.blocked = [] := by
      by_cases hb : s.blocked = []
      · exact hb
      · have := h2 hb; simp [hi] at this; omega
    simp only [hi, hb, heldIds] at *
    refine ⟨?_, ?_, ?_, ?_, ?_, ?_, ?_, ?_, ?_⟩ <;> (try dsimp only [heldIds])
    · simp
    · simp
    · simp
    · simpa using h4
    · simpa using h5
    · simp only [← List.append_assoc]
      exact pairwise_snoc h6 h7
    · intro i hi'
      simp only [← List.append_assoc, List.mem_append, List.mem_singleton] at hi'
      rcases hi' with hi' | hi'
      · have := h7 i (by simpa using hi'); omega
      · omega
    · intro i; have hh := h8 i; count_tac hh
    · exact h9
  | cons x xs =>
    have hw : s.waiters = [] := by
      by_cases hw : s.waiters = []
      · exact hw
      · have := (h3 hw).1; simp [hi] at this
    cases hb : s.blocked with
    | nil =>
      simp only [hi, hb, hw, heldIds] at *
      refine ⟨?_, ?_, ?_, ?_, ?_, ?_, ?_, ?_, ?_⟩ <;> (try dsimp only [heldIds])
      · simp at h1 ⊢; omega
      · simp
      · simp
      · intro i; have hh := h4 i; count_tac hh
      · simpa using h5
      · simp only [List.append_nil, List.map_append, List.map_cons, List.map_nil] at *
        exact pairwise_snoc h6 h7
      · intro i hi'
        simp only [List.append_nil, List.map_append, List.map_cons, List.map_nil, List.mem_append, List.mem_singleton] at *
        rcases hi' with hi' | hi'
        · have := h7 i hi'; omega
        · omega
      · intro i; have hh := h8 i; count_tac hh
      · intro i; have hh := h9 i; count_tac hh
    | cons b bs =>
      simp only [hi, hb, hw, heldIds] at *
      refine ⟨?_, ?_, ?_, ?_, ?_, ?_, ?_, ?_, ?_⟩ <;> (try dsimp only [heldIds])
      · have := h2 (by simp); simp at this ⊢; omega
      · intro _; have := h2 (by simp); simp at this ⊢; omega
      · simp
      · intro i; have hh := h4 i; count_tac hh
      · simp only [List.map_append, List.map_cons, List.map_nil] at *
        exact pairwise_tail_snoc h5
      · simp only [List.append_nil, List.map_append, List.map_cons, List.map_nil] at *
        exact pairwise_snoc h6 h7
      · intro i hi'
        simp only [List.append_nil, List.map_append, List.map_cons, List.map_nil, List.mem_append, List.mem_singleton] at *
        rcases hi' with hi' | hi'
        · have := h7 i hi'; omega
        · omega
      · intro i; have hh := h8 i; count_tac hh
      · intro i; have hh := h9 i; count_tac hh


theorem inv_upop (s : State) (c : Nat) (h : Inv s) : Inv (stepUpop s c).1 := by
  obtain ⟨h1, h2, h3, h4, h5, h6, h7, h8, h9⟩ := h
  unfold stepUpop
  cases hw : s.waiters with
  | nil => exact ⟨h1, h2, h3, h4, h5, h6, h7, h8, h9⟩
  | cons w ws =>
    simp only [hw] at *
    refine ⟨h1, h2, ?_, h4, h5, ?_, ?_, ?_, ?_⟩ <;> (try dsimp only [heldIds])
    · intro _; exact h3 (by simp)
    · refine h6.sublist ?_
      simp
    · intro i hi; apply h7 i
      simp only [List.mem_append, List.mem_cons] at *
      rcases hi with hi | hi
      · left; exact hi
      · right; right; exact hi
    · intro i; have hh := h8 i; count_tac hh
    · intro i; have hh := h9 i; count_tac hh

theorem inv_upush (s : State) (c : Nat) (h : Inv s) : Inv (stepUpush s c).1 := by
  obtain ⟨h1, h2, h3, h4, h5, h6, h7, h8, h9⟩ := h
  unfold stepUpush
  cases hb : s.blocked with
  | nil => exact ⟨h1, h2, h3, h4, h5, h6, h7, h8, h9⟩
  | cons b bs =>
    simp only [hb, heldIds] at *
    refine ⟨h1, ?_, ?_, ?_, ?_, h6, h7, ?_, ?_⟩ <;> (try dsimp only [heldIds])
    · intro _; exact h2 (by simp)
    · intro hw; have := h3 hw; simp at this
    · intro i; have hh := h4 i; count_tac hh
    · refine h5.sublist ?_
      simp
    · intro i; have hh := h8 i; count_tac hh
    · intro i; have hh := h9 i; count_tac hh


theorem popIds_map_push {α} (l : List α) (f : α → Nat) (o : Out) :
    popIds (l.map (fun b => Ev.push (f b) o)) = [] := by
  induction l with
  | nil => rfl
  | cons x xs ih => simp [ih]

theorem pushIds_map_pop {α} (l : List α) (f : α → Nat) (o : Out) :
    pushIds (l.map (fun b => Ev.pop (f b) o)) = [] := by
  induction l with
  | nil => rfl
  | cons x xs ih => simp [ih]

theorem popIds_map_pop {α} (l : List α) (f : α → Nat) (o : Out) :
    popIds (l.map (fun b => Ev.pop (f b) o)) = l.map f := by
  induction l with
  | nil => rfl
  | cons x xs ih => simp [ih]

theorem pushIds_map_push {α} (l : List α) (f : α → Nat) (o : Out) :
    pushIds (l.map (fun b => Ev.push (f b) o)) = l.map f := by
  induction l with
  | nil => rfl
  | cons x xs ih => simp [ih]

theorem inv_destroy (s : State) (h : Inv s) : Inv (stepDestroy s).1 := by
  obtain ⟨h1, h2, h3, h4, h5, h6, h7, h8, h9⟩ := h
  unfold stepDestroy
  have e1 := popIds_map_push s.blocked (·.1) Out.canceled
  have e2 := pushIds_map_pop s.waiters id Out.canceled
  have e3 := popIds_map_pop s.waiters id Out.canceled
  have e4 := pushIds_map_push s.blocked (·.1) Out.canceled
  simp only [id, List.map_id_fun', List.map_id_fun, List.map_id] at e2 e3
  refine ⟨h1, ?_, ?_, ?_, ?_, ?_, ?_, ?_, ?_⟩ <;> (try dsimp only [heldIds])
  · simp
  · simp
  · intro i; have hh := h4 i; simp only [e1, e2, e3, e4] at *; count_tac hh
  · refine h5.sublist ?_
    simp [heldIds]
  · refine h6.sublist ?_
    simp
  · intro i hi; apply h7 i
    simp only [List.mem_append, List.append_nil] at *
    left; exact hi
  · intro i; have hh := h8 i; simp only [popIds_append, e1, e3, List.map_id] at *; count_tac hh
  · intro i; have hh := h9 i; simp only [pushIds_append, e2, e4] at *; count_tac hh

theorem count_filterMap_eraseIdx {α} (f : α → Option Nat) (l : List α) (k : Nat) (e : α) (i : Nat)
    (h : l[k]? = some e) :
    (l.filterMap f).count i = ((l.eraseIdx k).filterMap f).count i + ([e].filterMap f).count i := by
  induction l generalizing k with
  | nil => simp at h
  | cons x xs ih =>
    cases k with
    | zero =>
      simp at h; subst h
      have : x :: xs = [x] ++ xs := rfl
      rw [this, List.filterMap_append, List.count_append]
      simp only [List.singleton_append, List.eraseIdx_cons_zero]
      omega
    | succ k =>
      simp at h
      have := ih k h
      have e1 : x :: xs = [x] ++ xs := rfl
      have e2 : x :: xs.eraseIdx k = [x] ++ xs.eraseIdx k := rfl
      rw [List.eraseIdx_cons_succ, e2, e1, List.filterMap_append, List.filterMap_append, List.count_append,
        List.count_append]
      omega

theorem inv_deliver (s : State) (k : Nat) (h : Inv s) : Inv (stepDeliver s k).1 := by
  obtain ⟨h1, h2, h3, h4, h5, h6, h7, h8, h9⟩ := h
  unfold stepDeliver
  cases hk : s.inflight[k]? with
  | none => exact ⟨h1, h2, h3, h4, h5, h6, h7, h8, h9⟩
  | some e =>
    refine ⟨h1, h2, h3, h4, h5, h6, h7, ?_, ?_⟩ <;> dsimp only
    · intro i; have hh := h8 i
      have := count_filterMap_eraseIdx Ev.popId? s.inflight k e i hk
      simp only [popIds, List.filterMap_append, List.count_append] at *
      omega
    · intro i; have hh := h9 i
      have := count_filterMap_eraseIdx Ev.pushId? s.inflight k e i hk
      simp only [pushIds, List.filterMap_append, List.count_append] at *
      omega

theorem inv_step (s : State) (op : Op) (hl : 0 < s.limit) (h : Inv s) : Inv (step s op).1 := by
  unfold step
  cases op <;> simp only <;> (try split) <;> (try unfold stepLive) <;> (try simp only) <;>
    first
    | exact h
    | exact inv_push s _ h
    | exact inv_pop s hl h
    | exact inv_upop s _ h
    | exact inv_upush s _ h
    | exact inv_destroy s h
    | exact inv_deliver s _ h

theorem limit_step (s : State) (op : Op) : (step s op).1.limit = s.limit := by
  have hpush : ∀ v, (stepPush s v).1.limit = s.limit := by
    intro v; unfold stepPush; split <;> (try split) <;> rfl
  have hpop : (stepPop s).1.limit = s.limit := by
    unfold stepPop; split <;> (try split) <;> rfl
  have hupop : ∀ c, (stepUpop s c).1.limit = s.limit := by
    intro c; unfold stepUpop; split <;> rfl
  have hupush : ∀ c, (stepUpush s c).1.limit = s.limit := by
    intro c; unfold stepUpush; split <;> rfl
  have hdel : ∀ k, (stepDeliver s k).1.limit = s.limit := by
    intro k; unfold stepDeliver; split <;> rfl
  unfold step
  cases op <;> simp only <;> (try split) <;> (try unfold stepLive) <;> (try simp only) <;>
    first
    | rfl
    | exact hpush _
    | exact hpop
    | exact hupop _
    | exact hupush _
    | exact hdel _

theorem inv_run (s : State) (ops : List Op) (hl : 0 < s.limit) (h : Inv s) : Inv (run s ops) := by
  induction ops generalizing s with
  | nil => exact h
  | cons op ops ih =>
    exact ih (step s op).1 (by rw [limit_step]; exact hl) (inv_step s op hl h)

end Cocls.LQ
