import CoclsModel.LimitedQueue
/-!
Invariant of the `limited_queue` model and its preservation by every step (helper lemmas for
`Props/C10.lean`).
-/
namespace Cocls.LQ

def Ev.popId? : Ev → Option Nat
  | Ev.pop id _ => some id
  | Ev.push _ _ => none

def Ev.pushId? : Ev → Option Nat
  | Ev.pop _ _ => none
  | Ev.push id _ => some id

def popIds (l : List Ev) : List Nat := l.filterMap Ev.popId?
def pushIds (l : List Ev) : List Nat := l.filterMap Ev.pushId?

@[simp] theorem popIds_nil : popIds [] = [] := rfl
@[simp] theorem pushIds_nil : pushIds [] = [] := rfl
@[simp] theorem popIds_append (a b : List Ev) : popIds (a ++ b) = popIds a ++ popIds b := by
  simp [popIds]
@[simp] theorem pushIds_append (a b : List Ev) : pushIds (a ++ b) = pushIds a ++ pushIds b := by
  simp [pushIds]
@[simp] theorem popIds_cons_pop (id o l) : popIds (Ev.pop id o :: l) = id :: popIds l := by
  simp [popIds, Ev.popId?]
@[simp] theorem popIds_cons_push (id o l) : popIds (Ev.push id o :: l) = popIds l := by
  simp [popIds, List.filterMap_cons, Ev.popId?]
@[simp] theorem pushIds_cons_pop (id o l) : pushIds (Ev.pop id o :: l) = pushIds l := by
  simp [pushIds, List.filterMap_cons, Ev.pushId?]
@[simp] theorem pushIds_cons_push (id o l) : pushIds (Ev.push id o :: l) = id :: pushIds l := by
  simp [pushIds, Ev.pushId?]

/-- ids of the pushes whose items are (or were) held by the queue, in hand-over/queue order -/
def heldIds (s : State) : List Nat :=
  s.assigned.map (·.2.1) ++ s.items.map (·.1) ++ s.blocked.map (·.1)

/-- the push futures that were failed or dropped: their item must be withdrawn -/
def Ev.failedPush? : Ev → Option Nat
  | Ev.push id o => if o = Out.ok then none else some id
  | Ev.pop _ _ => none

/-- the push futures that were accepted: their item must be held -/
def Ev.okPush? : Ev → Option Nat
  | Ev.push id o => if o = Out.ok then some id else none
  | Ev.pop _ _ => none

def failedPushes (l : List Ev) : List Nat := l.filterMap Ev.failedPush?
def okPushes (l : List Ev) : List Nat := l.filterMap Ev.okPush?

structure Inv (s : State) : Prop where
  len_le : s.items.length ≤ s.limit
  blocked_full : s.blocked ≠ [] → s.items.length = s.limit
  waiters_empty : s.waiters ≠ [] → s.items = [] ∧ s.blocked = []
  -- conservation of items: every push id is held exactly once or was withdrawn exactly once
  item_once : ∀ i, (heldIds s).count i + s.withdrawn.count i = if i < s.nextPush then 1 else 0
  held_sorted : (heldIds s).Pairwise (· < ·)
  -- consumers are served in arrival order
  pops_sorted : (s.assigned.map (·.1) ++ s.waiters).Pairwise (· < ·)
  pops_lt : ∀ i ∈ s.assigned.map (·.1) ++ s.waiters, i < s.nextPop
  -- every future has exactly one place: parked, in flight, or completed
  pop_once : ∀ i, s.waiters.count i + (popIds s.inflight).count i + (popIds s.completed).count i
      = if i < s.nextPop then 1 else 0
  push_once : ∀ i, (s.blocked.map (·.1)).count i + (pushIds s.inflight).count i
      + (pushIds s.completed).count i = if i < s.nextPush then 1 else 0
  -- a producer is told the truth: the pushes that were failed (unblock_push, the item's own exception on admission,
  -- destruction) are exactly the ones whose item was withdrawn
  failed_withdrawn : ∀ i, (failedPushes s.inflight).count i + (failedPushes s.completed).count i = s.withdrawn.count i

@[simp] theorem failedPushes_nil : failedPushes [] = [] := rfl
@[simp] theorem failedPushes_append (a b : List Ev) : failedPushes (a ++ b) = failedPushes a ++ failedPushes b := by
  simp [failedPushes]
@[simp] theorem failedPushes_cons_pop (id o l) : failedPushes (Ev.pop id o :: l) = failedPushes l := by
  simp [failedPushes, List.filterMap_cons, Ev.failedPush?]
@[simp] theorem failedPushes_cons_ok (id l) : failedPushes (Ev.push id Out.ok :: l) = failedPushes l := by
  simp [failedPushes, Ev.failedPush?]
theorem failedPushes_cons_fail (id o l) (h : o ≠ Out.ok) : failedPushes (Ev.push id o :: l) = id :: failedPushes l := by
  simp [failedPushes, Ev.failedPush?, h]
@[simp] theorem failedPushes_cons_exc (id c l) : failedPushes (Ev.push id (Out.exc c) :: l) = id :: failedPushes l :=
  failedPushes_cons_fail id _ l (by simp)
@[simp] theorem failedPushes_cons_itemerr (id l) : failedPushes (Ev.push id Out.itemerr :: l) = id :: failedPushes l :=
  failedPushes_cons_fail id _ l (by simp)
@[simp] theorem failedPushes_cons_canceled (id l) : failedPushes (Ev.push id Out.canceled :: l) = id :: failedPushes l :=
  failedPushes_cons_fail id _ l (by simp)

theorem inv_init (limit : Nat) : Inv (init limit) := by
  refine ⟨?_, ?_, ?_, ?_, ?_, ?_, ?_, ?_, ?_, ?_⟩ <;> simp [init, heldIds]

theorem pairwise_snoc {l : List Nat} {n : Nat} (h : l.Pairwise (· < ·)) (hb : ∀ x ∈ l, x < n) :
    (l ++ [n]).Pairwise (· < ·) := by
  rw [List.pairwise_append]
  refine ⟨h, by simp, ?_⟩
  intro a ha b hb'
  simp at hb'
  subst hb'
  exact hb a ha

/-- from the counting clause: a member of the list is below the bound -/
theorem lt_of_mem_count {l w : List Nat} {n : Nat}
    (h : ∀ i, l.count i + w.count i = if i < n then 1 else 0) : ∀ x ∈ l, x < n := by
  intro x hx
  have h1 := h x
  have h2 : 0 < l.count x := List.count_pos_iff.mpr hx
  split at h1 <;> omega

macro "lsimp" : tactic => `(tactic| simp only [heldIds, List.map_append, List.map_cons, List.map_nil, List.count_append,
      List.count_cons, List.count_nil, pushIds_append, popIds_append, pushIds_cons_push, popIds_cons_push,
      pushIds_cons_pop, popIds_cons_pop, pushIds_nil, popIds_nil, failedPushes_append, failedPushes_cons_pop,
      failedPushes_cons_ok, failedPushes_cons_exc, failedPushes_cons_itemerr, failedPushes_cons_canceled, failedPushes_nil,
      List.append_nil, List.nil_append, beq_iff_eq] at *)

syntax "count_tac" ident : tactic
macro_rules | `(tactic| count_tac $h) => `(tactic| (lsimp; (try split at $h:ident) <;> (repeat (first | omega | split))))

theorem inv_push (s : State) (v : Nat) (h : Inv s) : Inv (stepPush s v).1 := by
  obtain ⟨h1, h2, h3, h4, h5, h6, h7, h8, h9, h10⟩ := h
  have hlt := lt_of_mem_count h4
  unfold stepPush
  cases hw : s.waiters with
  | nil =>
    simp only [hw] at *
    by_cases hfull : s.items.length ≥ s.limit
    · simp only [hfull, ite_true]
      refine ⟨h1, ?_, ?_, ?_, ?_, h6, h7, h8, ?_, h10⟩
      · intro _; simp only; omega
      · simp
      · intro i; have hh := h4 i; count_tac hh
      · simp only [heldIds, List.map_append, List.map_cons, List.map_nil, ← List.append_assoc] at *
        exact pairwise_snoc h5 hlt
      · intro i; have hh := h9 i; count_tac hh
    · simp only [hfull, ite_false]
      have hb : s.blocked = [] := by
        by_cases hb : s.blocked = []
        · exact hb
        · have := h2 hb; omega
      refine ⟨?_, ?_, ?_, ?_, ?_, h6, h7, ?_, ?_, ?_⟩
      · simp; omega
      · simp [hb]
      · simp
      · intro i; have hh := h4 i; count_tac hh
      · simp only [heldIds, hb, List.map_append, List.map_cons, List.map_nil, List.append_nil, ← List.append_assoc] at *
        exact pairwise_snoc h5 hlt
      · intro i; have hh := h8 i; count_tac hh
      · intro i; have hh := h9 i; count_tac hh
      · intro i; have hh := h10 i; count_tac hh
  | cons w ws =>
    simp only [hw] at *
    obtain ⟨hi, hb⟩ := h3 (by simp)
    simp only [heldIds, hi, hb, List.map_nil, List.append_nil] at h1 h2 h4 h5 h9 hlt ⊢
    refine ⟨?_, ?_, ?_, ?_, ?_, ?_, ?_, ?_, ?_, ?_⟩
    · simp
    · simp
    · simp
    · intro i; have hh := h4 i; count_tac hh
    · simp only [heldIds, List.map_append, List.map_cons, List.map_nil, List.append_nil] at *
      exact pairwise_snoc h5 hlt
    · simpa using h6
    · simpa using h7
    · intro i; have hh := h8 i; count_tac hh
    · intro i; have hh := h9 i; count_tac hh
    · intro i; have hh := h10 i; count_tac hh

theorem inv_pushMv (s : State) (v g n : Nat) (h : Inv s) : Inv (stepPushMv s v g n).1 := by
  unfold stepPushMv
  split
  · exact h
  · exact inv_push s v h

theorem inv_pushThrow (s : State) (h : Inv s) : Inv (stepPushThrow s).1 := by
  obtain ⟨h1, h2, h3, h4, h5, h6, h7, h8, h9, h10⟩ := h
  unfold stepPushThrow
  cases hw : s.waiters with
  | nil => exact ⟨h1, h2, h3, h4, h5, h6, h7, h8, h9, h10⟩
  | cons w ws =>
    simp only [hw] at *
    refine ⟨h1, h2, ?_, h4, h5, ?_, ?_, ?_, ?_, ?_⟩ <;> (try dsimp only [heldIds])
    · intro _; exact h3 (by simp)
    · refine h6.sublist ?_
      simp
    · intro i hi; apply h7 i
      simp only [List.mem_append, List.mem_cons] at *
      rcases hi with hi | hi
      · left; exact hi
      · right; right; exact hi
    · intro i; have hh := h8 i; count_tac hh
    · intro i; have hh := h9 i; count_tac hh
    · intro i; have hh := h10 i; count_tac hh

theorem admitLoop_spec (g n : Nat) : ∀ (bl : List (Nat × Nat)) (k : Nat),
    bl = (admitLoop g n k bl).1 ++ (admitLoop g n k bl).2.1.toList ++ (admitLoop g n k bl).2.2
    ∧ ((admitLoop g n k bl).2.1 = none → (admitLoop g n k bl).2.2 = []) := by
  intro bl
  induction bl with
  | nil => intro k; simp [admitLoop]
  | cons b bs ih =>
    intro k
    unfold admitLoop
    by_cases ht : throwsAt g n k = true
    · simp only [ht, if_true]
      obtain ⟨e1, e2⟩ := ih (k + 1)
      refine ⟨?_, e2⟩
      simp only [List.cons_append]
      congr 1
    · simp only [ht]
      simp

theorem admitLoop_faults (g n : Nat) : ∀ (bl : List (Nat × Nat)) (k : Nat),
    (∀ j, j < (admitLoop g n k bl).1.length → throwsAt g n (k + j) = true)
    ∧ ((admitLoop g n k bl).2.1 ≠ none → throwsAt g n (k + (admitLoop g n k bl).1.length) = false) := by
  intro bl
  induction bl with
  | nil => intro k; simp [admitLoop]
  | cons b bs ih =>
    intro k
    unfold admitLoop
    by_cases ht : throwsAt g n k = true
    · simp only [ht, if_true]
      obtain ⟨e1, e2⟩ := ih (k + 1)
      refine ⟨?_, ?_⟩
      · intro j hj
        cases j with
        | zero => simpa using ht
        | succ j =>
          have := e1 j (by simpa using hj)
          have e : k + (j + 1) = k + 1 + j := by omega
          rw [e]; exact this
      · intro hne
        have := e2 hne
        have e : k + ((b :: (admitLoop g n (k + 1) bs).1).length) = k + 1 + (admitLoop g n (k + 1) bs).1.length := by
          simp only [List.length_cons]; omega
        rw [e]; exact this
    · simp only [ht]
      simp
      simpa using ht

theorem popIds_map_push {α} (l : List α) (f : α → Nat) (o : Out) :
    popIds (l.map (fun b => Ev.push (f b) o)) = [] := by
  induction l with
  | nil => rfl
  | cons x xs ih => simp [ih]

theorem pushIds_map_pop {α} (l : List α) (f : α → Nat) (o : Out) :
    pushIds (l.map (fun b => Ev.pop (f b) o)) = [] := by
  induction l with
  | nil => rfl
  | cons x xs ih => simp [ih]

theorem popIds_map_pop {α} (l : List α) (f : α → Nat) (o : Out) :
    popIds (l.map (fun b => Ev.pop (f b) o)) = l.map f := by
  induction l with
  | nil => rfl
  | cons x xs ih => simp [ih]

theorem pushIds_map_push {α} (l : List α) (f : α → Nat) (o : Out) :
    pushIds (l.map (fun b => Ev.push (f b) o)) = l.map f := by
  induction l with
  | nil => rfl
  | cons x xs ih => simp [ih]

theorem failedPushes_map_pop {α} (l : List α) (f : α → Nat) (o : Out) :
    failedPushes (l.map (fun b => Ev.pop (f b) o)) = [] := by
  induction l with
  | nil => rfl
  | cons x xs ih => simp [ih]

theorem failedPushes_map_push {α} (l : List α) (f : α → Nat) (o : Out) (h : o ≠ Out.ok) :
    failedPushes (l.map (fun b => Ev.push (f b) o)) = l.map f := by
  induction l with
  | nil => rfl
  | cons x xs ih => simp [ih, failedPushes_cons_fail _ _ _ h]

/-- the state after a `pop` that delivered `x` and whose admission loop failed `f`, admitted `a`, left `r` -/
def popState (s : State) (x : Nat × Nat) (xs f : List (Nat × Nat)) (a : Option (Nat × Nat)) (r : List (Nat × Nat)) : State :=
  { s with items := xs ++ a.toList, blocked := r, nextPop := s.nextPop + 1,
           withdrawn := s.withdrawn ++ f.map (·.1),
           inflight := s.inflight ++ f.map (fun b => Ev.push b.1 Out.itemerr) ++ a.toList.map (fun b => Ev.push b.1 Out.ok),
           assigned := s.assigned ++ [(s.nextPop, x)],
           completed := s.completed ++ [Ev.pop s.nextPop (Out.val x.1 x.2)] }

theorem sublist_drop_mid (A I F B : List Nat) (a : Nat) :
    ((A ++ [a]) ++ I ++ B).Sublist (A ++ (a :: I) ++ (F ++ B)) := by
  have : A ++ (a :: I) ++ (F ++ B) = (A ++ [a]) ++ I ++ (F ++ B) := by simp
  rw [this]
  exact List.Sublist.append (List.Sublist.refl _) (List.sublist_append_right F B)

theorem inv_popState (s : State) (x : Nat × Nat) (xs f : List (Nat × Nat)) (a : Option (Nat × Nat)) (r : List (Nat × Nat))
    (h : Inv s) (hi : s.items = x :: xs) (hb : s.blocked = f ++ a.toList ++ r)
    (ha : a = none → r = []) : Inv (popState s x xs f a r) := by
  obtain ⟨h1, h2, h3, h4, h5, h6, h7, h8, h9, h10⟩ := h
  have hw : s.waiters = [] := by
    by_cases hw : s.waiters = []
    · exact hw
    · have := (h3 hw).1; simp [hi] at this
  have e1 := popIds_map_push f (·.1) Out.itemerr
  have e4 := pushIds_map_push f (·.1) Out.itemerr
  have e5 := failedPushes_map_push f (·.1) Out.itemerr (by simp)
  unfold popState
  cases a with
  | none =>
    have hr := ha rfl
    subst hr
    simp only [Option.toList_none, List.append_nil, List.map_nil] at hb ⊢
    simp only [hi, hb, hw, heldIds] at *
    refine ⟨?_, ?_, ?_, ?_, ?_, ?_, ?_, ?_, ?_, ?_⟩ <;> (try dsimp only [heldIds])
    · simp at h1 ⊢; omega
    · simp
    · simp
    · intro i; have hh := h4 i; count_tac hh
    · refine h5.sublist ?_
      simp only [List.map_append, List.map_cons, List.map_nil, List.append_nil]
      have := sublist_drop_mid (s.assigned.map (·.2.1)) (xs.map (·.1)) (f.map (·.1)) [] x.1
      simp at this ⊢
    · simp only [List.append_nil, List.map_append, List.map_cons, List.map_nil] at *
      exact pairwise_snoc h6 h7
    · intro i hi'
      simp only [List.append_nil, List.map_append, List.map_cons, List.map_nil, List.mem_append, List.mem_singleton] at *
      rcases hi' with hi' | hi'
      · have := h7 i hi'; omega
      · omega
    · intro i; have hh := h8 i; simp only [popIds_append, e1] at *; count_tac hh
    · intro i; have hh := h9 i; simp only [pushIds_append, e4] at *; count_tac hh
    · intro i; have hh := h10 i; simp only [failedPushes_append, e5] at *; count_tac hh
  | some b =>
    simp only [Option.toList_some, List.map_cons, List.map_nil] at hb ⊢
    simp only [hi, hb, hw, heldIds] at *
    have hfull := h2 (by simp)
    refine ⟨?_, ?_, ?_, ?_, ?_, ?_, ?_, ?_, ?_, ?_⟩ <;> (try dsimp only [heldIds])
    · simp at hfull ⊢; omega
    · intro _; simp at hfull ⊢; omega
    · simp
    · intro i; have hh := h4 i; count_tac hh
    · refine h5.sublist ?_
      simp only [List.map_append, List.map_cons, List.map_nil]
      have := sublist_drop_mid (s.assigned.map (·.2.1)) (xs.map (·.1)) (f.map (·.1)) (b.1 :: r.map (·.1)) x.1
      simp at this ⊢
    · simp only [List.append_nil, List.map_append, List.map_cons, List.map_nil] at *
      exact pairwise_snoc h6 h7
    · intro i hi'
      simp only [List.append_nil, List.map_append, List.map_cons, List.map_nil, List.mem_append, List.mem_singleton] at *
      rcases hi' with hi' | hi'
      · have := h7 i hi'; omega
      · omega
    · intro i; have hh := h8 i; simp only [popIds_append, e1] at *; count_tac hh
    · intro i; have hh := h9 i; simp only [pushIds_append, e4] at *; count_tac hh
    · intro i; have hh := h10 i; simp only [failedPushes_append, e5] at *; count_tac hh

theorem stepPopF_eq (s : State) (g n : Nat) (x : Nat × Nat) (xs : List (Nat × Nat)) (hi : s.items = x :: xs)
    (ht : throwsAt g n 1 = false) :
    stepPopF s g n = (popState s x xs (admitLoop g n 2 s.blocked).1 (admitLoop g n 2 s.blocked).2.1 (admitLoop g n 2 s.blocked).2.2,
                      Res.pop s.nextPop (some (Out.val x.1 x.2))) := by
  unfold stepPopF popState
  simp [hi, ht]

theorem inv_popF (s : State) (g n : Nat) (hl : 0 < s.limit) (h : Inv s) : Inv (stepPopF s g n).1 := by
  cases hi : s.items with
  | nil =>
    obtain ⟨h1, h2, h3, h4, h5, h6, h7, h8, h9, h10⟩ := h
    unfold stepPopF
    have hb : s.blocked = [] := by
      by_cases hb : s.blocked = []
      · exact hb
      · have := h2 hb; simp [hi] at this; omega
    simp only [hi, hb, heldIds] at *
    refine ⟨?_, ?_, ?_, ?_, ?_, ?_, ?_, ?_, ?_, ?_⟩ <;> (try dsimp only [heldIds])
    · simp
    · simp
    · simp
    · simpa using h4
    · simpa using h5
    · simp only [← List.append_assoc]
      exact pairwise_snoc h6 h7
    · intro i hi'
      simp only [← List.append_assoc, List.mem_append, List.mem_singleton] at hi'
      rcases hi' with hi' | hi'
      · have := h7 i (by simpa using hi'); omega
      · omega
    · intro i; have hh := h8 i; count_tac hh
    · exact h9
    · exact h10
  | cons x xs =>
    by_cases ht : throwsAt g n 1 = true
    · have : stepPopF s g n = (s, Res.threw) := by unfold stepPopF; simp [hi, ht]
      rw [this]; exact h
    · have ht' : throwsAt g n 1 = false := by simpa using ht
      rw [stepPopF_eq s g n x xs hi ht']
      obtain ⟨e1, e2⟩ := admitLoop_spec g n s.blocked 2
      exact inv_popState s x xs _ _ _ h hi e1 e2

theorem inv_pop (s : State) (hl : 0 < s.limit) (h : Inv s) : Inv (stepPop s).1 := inv_popF s 0 0 hl h

theorem inv_upop (s : State) (c : Nat) (h : Inv s) : Inv (stepUpop s c).1 := by
  obtain ⟨h1, h2, h3, h4, h5, h6, h7, h8, h9, h10⟩ := h
  unfold stepUpop
  cases hw : s.waiters with
  | nil => exact ⟨h1, h2, h3, h4, h5, h6, h7, h8, h9, h10⟩
  | cons w ws =>
    simp only [hw] at *
    refine ⟨h1, h2, ?_, h4, h5, ?_, ?_, ?_, ?_, ?_⟩ <;> (try dsimp only [heldIds])
    · intro _; exact h3 (by simp)
    · refine h6.sublist ?_
      simp
    · intro i hi; apply h7 i
      simp only [List.mem_append, List.mem_cons] at *
      rcases hi with hi | hi
      · left; exact hi
      · right; right; exact hi
    · intro i; have hh := h8 i; count_tac hh
    · intro i; have hh := h9 i; count_tac hh
    · intro i; have hh := h10 i; count_tac hh

theorem inv_upush (s : State) (c : Nat) (h : Inv s) : Inv (stepUpush s c).1 := by
  obtain ⟨h1, h2, h3, h4, h5, h6, h7, h8, h9, h10⟩ := h
  unfold stepUpush
  cases hb : s.blocked with
  | nil => exact ⟨h1, h2, h3, h4, h5, h6, h7, h8, h9, h10⟩
  | cons b bs =>
    simp only [hb, heldIds] at *
    refine ⟨h1, ?_, ?_, ?_, ?_, h6, h7, ?_, ?_, ?_⟩ <;> (try dsimp only [heldIds])
    · intro _; exact h2 (by simp)
    · intro hw; have := h3 hw; simp at this
    · intro i; have hh := h4 i; count_tac hh
    · refine h5.sublist ?_
      simp
    · intro i; have hh := h8 i; count_tac hh
    · intro i; have hh := h9 i; count_tac hh
    · intro i; have hh := h10 i; count_tac hh

theorem inv_upushF (s : State) (c g n : Nat) (h : Inv s) : Inv (stepUpushF s c g n).1 := by
  unfold stepUpushF
  split
  · exact h
  · exact inv_upush s c h

theorem inv_destroy (s : State) (h : Inv s) : Inv (stepDestroy s).1 := by
  obtain ⟨h1, h2, h3, h4, h5, h6, h7, h8, h9, h10⟩ := h
  unfold stepDestroy
  have e1 := popIds_map_push s.blocked (·.1) Out.canceled
  have e2 := pushIds_map_pop s.waiters id Out.canceled
  have e3 := popIds_map_pop s.waiters id Out.canceled
  have e4 := pushIds_map_push s.blocked (·.1) Out.canceled
  have e5 := failedPushes_map_push s.blocked (·.1) Out.canceled (by simp)
  have e6 := failedPushes_map_pop s.waiters id Out.canceled
  simp only [id, List.map_id] at e2 e3 e6
  refine ⟨h1, ?_, ?_, ?_, ?_, ?_, ?_, ?_, ?_, ?_⟩ <;> (try dsimp only [heldIds])
  · simp
  · simp
  · intro i; have hh := h4 i; simp only [e1, e2, e3, e4] at *; count_tac hh
  · refine h5.sublist ?_
    simp [heldIds]
  · refine h6.sublist ?_
    simp
  · intro i hi; apply h7 i
    simp only [List.mem_append, List.append_nil] at *
    left; exact hi
  · intro i; have hh := h8 i; simp only [popIds_append, e1, e3] at *; count_tac hh
  · intro i; have hh := h9 i; simp only [pushIds_append, e2, e4] at *; count_tac hh
  · intro i; have hh := h10 i; simp only [failedPushes_append, e5, e6] at *; count_tac hh

theorem count_filterMap_eraseIdx {α} (f : α → Option Nat) (l : List α) (k : Nat) (e : α) (i : Nat)
    (h : l[k]? = some e) :
    (l.filterMap f).count i = ((l.eraseIdx k).filterMap f).count i + ([e].filterMap f).count i := by
  induction l generalizing k with
  | nil => simp at h
  | cons x xs ih =>
    cases k with
    | zero =>
      simp at h; subst h
      have : x :: xs = [x] ++ xs := rfl
      rw [this, List.filterMap_append, List.count_append]
      simp only [List.singleton_append, List.eraseIdx_cons_zero]
      omega
    | succ k =>
      simp at h
      have := ih k h
      have e1 : x :: xs = [x] ++ xs := rfl
      have e2 : x :: xs.eraseIdx k = [x] ++ xs.eraseIdx k := rfl
      rw [List.eraseIdx_cons_succ, e2, e1, List.filterMap_append, List.filterMap_append, List.count_append,
        List.count_append]
      omega

theorem inv_deliver (s : State) (k : Nat) (h : Inv s) : Inv (stepDeliver s k).1 := by
  obtain ⟨h1, h2, h3, h4, h5, h6, h7, h8, h9, h10⟩ := h
  unfold stepDeliver
  cases hk : s.inflight[k]? with
  | none => exact ⟨h1, h2, h3, h4, h5, h6, h7, h8, h9, h10⟩
  | some e =>
    refine ⟨h1, h2, h3, h4, h5, h6, h7, ?_, ?_, ?_⟩ <;> dsimp only
    · intro i; have hh := h8 i
      have := count_filterMap_eraseIdx Ev.popId? s.inflight k e i hk
      simp only [popIds, List.filterMap_append, List.count_append] at *
      omega
    · intro i; have hh := h9 i
      have := count_filterMap_eraseIdx Ev.pushId? s.inflight k e i hk
      simp only [pushIds, List.filterMap_append, List.count_append] at *
      omega
    · intro i; have hh := h10 i
      have := count_filterMap_eraseIdx Ev.failedPush? s.inflight k e i hk
      simp only [failedPushes, List.filterMap_append, List.count_append] at *
      omega

theorem inv_step (s : State) (op : Op) (hl : 0 < s.limit) (h : Inv s) : Inv (step s op).1 := by
  unfold step
  cases op <;> simp only <;> (try split) <;> (try unfold stepLive) <;> (try simp only) <;>
    first
    | exact h
    | exact inv_push s _ h
    | exact inv_pop s hl h
    | exact inv_upop s _ h
    | exact inv_upush s _ h
    | exact inv_destroy s h
    | exact inv_deliver s _ h
    | exact inv_pushThrow s h
    | exact inv_pushMv s _ _ _ h
    | exact inv_popF s _ _ hl h
    | exact inv_upushF s _ _ _ h

theorem limit_popF (s : State) (g n : Nat) : (stepPopF s g n).1.limit = s.limit := by
  unfold stepPopF; split <;> (try split) <;> rfl

theorem limit_step (s : State) (op : Op) : (step s op).1.limit = s.limit := by
  have hpush : ∀ v, (stepPush s v).1.limit = s.limit := by
    intro v; unfold stepPush; split <;> (try split) <;> rfl
  have hpop : (stepPop s).1.limit = s.limit := limit_popF s 0 0
  have hupop : ∀ c, (stepUpop s c).1.limit = s.limit := by
    intro c; unfold stepUpop; split <;> rfl
  have hupush : ∀ c, (stepUpush s c).1.limit = s.limit := by
    intro c; unfold stepUpush; split <;> rfl
  have hdel : ∀ k, (stepDeliver s k).1.limit = s.limit := by
    intro k; unfold stepDeliver; split <;> rfl
  have hpt : (stepPushThrow s).1.limit = s.limit := by
    unfold stepPushThrow; split <;> rfl
  have hpm : ∀ v g n, (stepPushMv s v g n).1.limit = s.limit := by
    intro v g n; unfold stepPushMv; split
    · rfl
    · exact hpush v
  have hupf : ∀ c g n, (stepUpushF s c g n).1.limit = s.limit := by
    intro c g n; unfold stepUpushF; split
    · rfl
    · exact hupush c
  unfold step
  cases op <;> simp only <;> (try split) <;> (try unfold stepLive) <;> (try simp only) <;>
    first
    | rfl
    | exact hpush _
    | exact hpop
    | exact hupop _
    | exact hupush _
    | exact hdel _
    | exact hpt
    | exact hpm _ _ _
    | exact limit_popF s _ _
    | exact hupf _ _ _

theorem inv_run (s : State) (ops : List Op) (hl : 0 < s.limit) (h : Inv s) : Inv (run s ops) := by
  induction ops generalizing s with
  | nil => exact h
  | cons op ops ih =>
    exact ih (step s op).1 (by rw [limit_step]; exact hl) (inv_step s op hl h)

end Cocls.LQ
