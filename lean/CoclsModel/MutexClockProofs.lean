import CoclsModel.MutexClock
import CoclsModel.MutexProofs
import CoclsModel.MutexPtrProofs

/-!
# The coroutine mutex protocol is data-race free on the happens-before machine (`MutexClock.lean`) — C03

* `MutexOrders.sufficient`: unlock CAS ⊇ release, `ready()` CAS ⊇ acquire, `build_queue` exchange ⊇ acquire, subscribe CAS (success)
  ⊇ release, flag store ⊇ release, flag wait ⊇ acquire.  The three failure orders do not occur.
* `Inv`: the structural invariant of the protocol is `Mutex.Inv` itself (`MutexProofs.lean`, carried by `Mutex.inv_step` because the
  protocol part of a state is advanced by `Mutex.agentStep`); on top of it the clock-domination clauses: whoever owns the mutex has
  in its carrier clock (`car`) every recorded access to the datum, to `_queue` and to the nodes in the queue (`own`); while the mutex
  is free the release-sequence clock of `_requests` has them (`free`); a published node is covered by that clock (`stack`); an
  unpublished node by its contender's clock (`priv`); a pending `build_queue` loop belongs to the owner and touches queued nodes only (`wk`).
* one preservation lemma per kind of step (`cinv_close`: split into clauses, expose projections, `grind` with the monotonicity lemmas
  of `Meta.le`), `inv_flush` for the loop, `inv_step`, `inv_run`.
* `mutex_race_free` (main theorem: any number of contenders, rounds, flavours; every schedule), `mutex_failure_orders_irrelevant`,
  `mutex_handoff_ordered`, `mutex_owner_dominates`; the bridge `step_erase` / `run_erase` / `run_reachable` / `run_is_arun` / `run_ptr_repr`; necessity witnesses
  `mutex_needs_*` by `decide`, one per clause of `sufficient`; `run_norm` (the machine sees an order only through `isAcq` / `isRel`),
  `mutex_ready_acquire_necessary`, `mutex_unlock_release_necessary` (for EVERY table violating the clause).
-/

namespace Cocls.MutexClock
open Cocls.Clock (VC upd relVc acqVc tickIf)
open Cocls.Mutex (Elem Seen Pc nodesOf seenOf)

/-! ### metadata dominated by a clock -/

/-- every epoch recorded for the location is covered by the clock `X` -/
def Meta.le (m : Meta) (X : VC) : Prop := m.wr.2 ≤ X m.wr.1 ∧ ∀ e ∈ m.rd, e.2 ≤ X e.1

theorem Meta.le_mono {m : Meta} {X Y : VC} (h : m.le X) (hxy : ∀ i, X i ≤ Y i) : m.le Y :=
  ⟨Nat.le_trans h.1 (hxy _), fun e he => Nat.le_trans (h.2 e he) (hxy _)⟩

theorem Meta.okW_of_le {m : Meta} {X : VC} (h : m.le X) : m.okW X = true := by
  simp only [Meta.okW, Bool.and_eq_true, decide_eq_true_eq, List.all_eq_true]
  exact ⟨h.1, h.2⟩

theorem Meta.okR_of_le {m : Meta} {X : VC} (h : m.le X) : m.okR X = true := by
  simp only [Meta.okR, decide_eq_true_eq]; exact h.1

theorem Meta.write_self (t : Nat) (c : VC) : (Meta.write t c).le c :=
  ⟨Nat.le_refl _, fun e he => by simp [Meta.write] at he⟩

theorem Meta.read_le {m : Meta} {t : Nat} {c X : VC} (hm : m.le X) (h : (Meta.write t c).le X) : (m.read t c).le X := by
  refine ⟨hm.1, fun e he => ?_⟩
  simp only [Meta.read, List.mem_cons] at he
  rcases he with rfl | he
  · exact h.1
  · exact hm.2 e he

theorem Meta.init_le (X : VC) : ({} : Meta).le X := ⟨Nat.zero_le _, fun e he => by simp at he⟩

theorem Meta.le_acq_left {m : Meta} (ord : Order) {c : VC} (r : VC) (h : m.le c) : m.le (acqVc ord c r) :=
  Meta.le_mono h (fun i => by simp only [Clock.acqVc_apply]; split <;> omega)
theorem Meta.le_acq_right {m : Meta} {ord : Order} (c : VC) {r : VC} (ho : ord.isAcq = true) (h : m.le r) : m.le (acqVc ord c r) :=
  Meta.le_mono h (fun i => by simp only [Clock.acqVc_apply, ho, if_true]; omega)
theorem Meta.le_rel {m : Meta} {ord : Order} {c : VC} (ho : ord.isRel = true) (h : m.le c) : m.le (relVc ord c) :=
  Meta.le_mono h (fun i => by simp only [Clock.relVc_apply, ho, if_true]; omega)
theorem Meta.le_tickIf {m : Meta} (ord : Order) {c : VC} (t : Nat) (h : m.le c) : m.le (tickIf ord c t) :=
  Meta.le_mono h (fun i => by simp only [Clock.tickIf_apply]; split <;> (try split) <;> omega)
theorem Meta.le_tick {m : Meta} {c : VC} (t : Nat) (h : m.le c) : m.le (VC.tick c t) :=
  Meta.le_mono h (fun i => by simp only [VC.tick, Clock.upd_apply]; split <;> (try subst_vars) <;> omega)
theorem Meta.le_join_left {m : Meta} {c : VC} (d : VC) (h : m.le c) : m.le (VC.join c d) :=
  Meta.le_mono h (fun i => by simp only [VC.join_apply]; omega)
theorem Meta.le_join_right {m : Meta} (c : VC) {d : VC} (h : m.le d) : m.le (VC.join c d) :=
  Meta.le_mono h (fun i => by simp only [VC.join_apply]; omega)

/-! ### the clock-domination invariant -/

/-- the clock that dominates whatever contender `x` holds: its own clock; for a blocking waiter whose flag is stored but who has
not returned from `flag.wait` yet, the clock carried by the flag; for a requester that found the mutex free and has not run
`build_queue` yet, the release-sequence clock of `_requests` -/
def car (s : St) (x : Nat) : VC :=
  if s.m.pc x = Pc.build then s.rs
  else if s.m.pc x = Pc.waitFlag ∨ s.m.pc x = Pc.blocked then s.fvc x
  else s.clk x

/-- what the mutex guards (the datum, `_queue`, the nodes in the queue) is covered by `X` -/
def Dom (s : St) (X : VC) : Prop :=
  s.data.le X ∧ s.queue.le X ∧ ∀ x ∈ s.m.queue, (s.next x).le X ∧ (s.body x).le X

structure Inv (c : Mutex.Cfg) (s : St) : Prop where
  mi : Mutex.Inv c s.m
  nr : s.raced = false
  own : ∀ a, Mutex.Owner s.m a → Dom s (car s a)
  free : s.m.req = [] → Dom s s.rs
  stack : ∀ x ∈ nodesOf s.m.req, (s.next x).le s.rs ∧ (s.body x).le s.rs
  priv : ∀ x, ¬ Mutex.Listed s.m x → (s.next x).le (car s x) ∧ (s.body x).le (car s x)
  wk : ∀ a l, s.walk a = some l → (s.m.pc a = Pc.crit ∨ s.m.pc a = Pc.relHand) ∧ ∀ x ∈ l, x ∈ s.m.queue

theorem mupd_apply {α} (f : Nat → α) (i j : Nat) (v : α) : Mutex.upd f i v j = if j = i then v else f j := rfl

/-- pcs at which a contender neither owns nor waits -/
def qt : Pc → Bool
  | Pc.top | Pc.tryFail | Pc.subInit | Pc.sub _ | Pc.relDone | Pc.done => true
  | _ => false

theorem qt_facts {p : Pc} (f : Bool) (h : qt p = true) :
    Mutex.isOwner p f = false ∧ Mutex.isWaiting p f = false ∧ p ≠ Pc.build ∧ p ≠ Pc.waitFlag ∧ p ≠ Pc.blocked ∧ p ≠ Pc.crit ∧
    p ≠ Pc.relHand := by
  cases p <;> simp [qt, Mutex.isOwner, Mutex.isWaiting] at h ⊢

set_option hygiene false in
/-- split the goal into its clauses (the `Mutex.Inv` part is the hypothesis `hmi`), expose the projections, `grind` -/
macro "cinv_close" : tactic => `(tactic| (
  refine ⟨hmi, ?_, ?_, ?_, ?_, ?_, ?_⟩ <;>
    simp only [Dom, car, wrData, rdQueue, wrQueue, wrNext, wrBody, rdBody, rmw, casFail, flagStore, flagWait, resume, walkNode,
      e1, e2, e3, e4, Mutex.Owner, Mutex.Listed, mupd_apply, Clock.upd_apply, nodesOf_nil', nodesOf_door', nodesOf_node',
      List.mem_append, List.mem_reverse, List.mem_filter, List.mem_cons, List.not_mem_nil, decide_eq_true_eq, ne_eq] at * <;>
    grind [Mutex.isOwner, Mutex.isWaiting, Meta.okW_of_le, Meta.okR_of_le, Meta.write_self, Meta.read_le, Meta.le_acq_left,
      Meta.le_acq_right, Meta.le_rel, Meta.le_tickIf, Meta.le_tick, Meta.le_join_left, Meta.le_join_right]))

theorem nodesOf_nil' : nodesOf [] = [] := rfl
theorem nodesOf_door' (r) : nodesOf (Elem.door :: r) = [] := rfl
theorem nodesOf_node' (a k r) : nodesOf (Elem.node a k :: r) = a :: nodesOf r := rfl

variable {c : Mutex.Cfg} {s : St} {a : Nat}

theorem mem_queue_facts (h : Mutex.Inv c s.m) {x : Nat} (hx : x ∈ s.m.queue) : Mutex.Listed s.m x ∧ x ∉ nodesOf s.m.req := by
  have hc := h.cnt x
  have := List.count_pos_iff.2 hx
  split at hc
  · rename_i hl; refine ⟨hl, fun hn => ?_⟩
    have := List.count_pos_iff.2 hn; omega
  · omega

theorem mem_stack_listed (h : Mutex.Inv c s.m) {x : Nat} (hx : x ∈ nodesOf s.m.req) : Mutex.Listed s.m x := by
  have hc := h.cnt x
  have := List.count_pos_iff.2 hx
  split at hc
  · assumption
  · omega

/-- the mutex is free: nobody owns it, the queue is empty -/
theorem free_facts (h : Mutex.Inv c s.m) (hr : s.m.req = []) : (∀ x, ¬ Mutex.Owner s.m x) ∧ s.m.queue = [] := by
  have hno : ∀ x, ¬ Mutex.Owner s.m x := by
    intro x hx
    by_cases hb : s.m.pc x = Pc.build
    · have := (h.bld x hb).1; simp [hr] at this
    · exact Mutex.doorEnd_ne_nil (h.door x hx hb) hr
  exact ⟨hno, (h.free hno).2⟩

/-! ### preservation, one lemma per kind of step -/

/-- a quiet contender moves between quiet pcs, no access -/
theorem inv_quiet (h : Inv c s) (p : Pc) (h0 : qt (s.m.pc a) = true) (h1 : qt p = true) (m' : Mutex.State)
    (e1 : m'.pc = Mutex.upd s.m.pc a p) (e2 : m'.flag = s.m.flag) (e3 : m'.req = s.m.req) (e4 : m'.queue = s.m.queue)
    (hmi : Mutex.Inv c m') : Inv c { s with m := m' } := by
  have n0 := qt_facts (s.m.flag a) h0
  have n1 := qt_facts (s.m.flag a) h1
  generalize hpa : s.m.pc a = pa at n0
  obtain ⟨mi, nr, own, free, stack, priv, wk⟩ := h
  cinv_close

/-- … with a failing CAS (`ready()`, `subscribe`) -/
theorem inv_quiet_casFail (ord : Order) (h : Inv c s) (p : Pc) (h0 : qt (s.m.pc a) = true) (h1 : qt p = true) (m' : Mutex.State)
    (e1 : m'.pc = Mutex.upd s.m.pc a p) (e2 : m'.flag = s.m.flag) (e3 : m'.req = s.m.req) (e4 : m'.queue = s.m.queue)
    (hmi : Mutex.Inv c m') : Inv c { casFail ord s a with m := m' } := by
  have n0 := qt_facts (s.m.flag a) h0
  have n1 := qt_facts (s.m.flag a) h1
  generalize hpa : s.m.pc a = pa at n0
  obtain ⟨mi, nr, own, free, stack, priv, wk⟩ := h
  cinv_close

/-- … writing the body of the own awaiter (`sync_awaiter()`, `set_handle`) -/
theorem inv_quiet_body (h : Inv c s) (p : Pc) (h0 : qt (s.m.pc a) = true) (h1 : qt p = true) (f : Bool) (m' : Mutex.State)
    (e1 : m'.pc = Mutex.upd s.m.pc a p) (e2 : m'.flag = Mutex.upd s.m.flag a f) (e3 : m'.req = s.m.req) (e4 : m'.queue = s.m.queue)
    (hmi : Mutex.Inv c m') : Inv c { wrBody s a a with m := m' } := by
  have n0 := qt_facts (s.m.flag a) h0
  have n1 := qt_facts (s.m.flag a) h1
  have n2 := qt_facts f h1
  have n3 := qt_facts f h0
  have hp := h.priv a (by simp [Mutex.Listed, n0])
  have hq : ∀ x ∈ s.m.queue, x ≠ a := fun x hx e => by
    have := (mem_queue_facts h.mi hx).1; simp [Mutex.Listed, e, n0] at this
  have hs : ∀ x ∈ nodesOf s.m.req, x ≠ a := fun x hx e => by
    have := mem_stack_listed h.mi hx; simp [Mutex.Listed, e, n0] at this
  generalize hpa : s.m.pc a = pa at n0 hp
  obtain ⟨mi, nr, own, free, stack, priv, wk⟩ := h
  cinv_close

theorem mupd_self {α} (f : Nat → α) (i : Nat) : Mutex.upd f i (f i) = f := by
  funext j; simp only [Mutex.upd]; split <;> simp_all

/-- a failing CAS of a quiet contender, protocol state unchanged -/
theorem inv_casFail (ord : Order) (h : Inv c s) (h0 : qt (s.m.pc a) = true) : Inv c (casFail ord s a) :=
  inv_quiet_casFail ord h (s.m.pc a) h0 h0 s.m (mupd_self _ _).symm rfl rfl rfl h.mi

/-- `aw->_next = prev` on the own, unpublished node -/
theorem inv_wrNextSelf (h : Inv c s) (h0 : qt (s.m.pc a) = true) : Inv c (wrNext s a a) := by
  have n0 := qt_facts (s.m.flag a) h0
  have hp := h.priv a (by simp [Mutex.Listed, n0])
  have hq : ∀ x ∈ s.m.queue, x ≠ a := fun x hx e => by
    have := (mem_queue_facts h.mi hx).1; simp [Mutex.Listed, e, n0] at this
  have hs : ∀ x ∈ nodesOf s.m.req, x ≠ a := fun x hx e => by
    have := mem_stack_listed h.mi hx; simp [Mutex.Listed, e, n0] at this
  generalize hpa : s.m.pc a = pa at n0 hp
  obtain ⟨mi, nr, own, free, stack, priv, wk⟩ := h
  have hmi := mi
  have e1 : True := trivial
  have e2 : True := trivial
  have e3 : True := trivial
  have e4 : True := trivial
  cinv_close

/-- `ready()` succeeds -/
theorem inv_ready (ord : Order) (ho : ord.isAcq = true) (h : Inv c s) (hpc : s.m.pc a = Pc.top) (hr : s.m.req = []) (m' : Mutex.State)
    (e1 : m'.pc = Mutex.upd s.m.pc a Pc.crit) (e2 : m'.flag = s.m.flag) (e3 : m'.req = [Elem.door]) (e4 : m'.queue = s.m.queue)
    (hmi : Mutex.Inv c m') : Inv c { rmw ord s a with m := m' } := by
  obtain ⟨hno, hq⟩ := free_facts h.mi hr
  have hf := h.free hr
  obtain ⟨mi, nr, own, free, stack, priv, wk⟩ := h
  cinv_close

/-- the publishing CAS finds the mutex free: the requester will run `build_queue(self)` -/
theorem inv_subNull (ord : Order) (ho : ord.isRel = true) (h : Inv c s) (q : Seen) (hpc : s.m.pc a = Pc.sub q) (hr : s.m.req = [])
    (k : Nat) (m' : Mutex.State)
    (e1 : m'.pc = Mutex.upd s.m.pc a Pc.build) (e2 : m'.flag = s.m.flag) (e3 : m'.req = [Elem.node a k]) (e4 : m'.queue = s.m.queue)
    (hmi : Mutex.Inv c m') : Inv c { rmw ord s a with m := m' } := by
  obtain ⟨hno, hq⟩ := free_facts h.mi hr
  have hf := h.free hr
  have hp := h.priv a (by simp [Mutex.Listed, hpc, Mutex.isWaiting])
  simp only [car, hpc] at hp
  obtain ⟨mi, nr, own, free, stack, priv, wk⟩ := h
  cinv_close

/-- the publishing CAS pushes the request behind an owner: the requester waits (suspended, or at its flag) -/
theorem inv_subPush (ord : Order) (ho : ord.isRel = true) (h : Inv c s) (q : Seen) (hpc : s.m.pc a = Pc.sub q) (p : Pc)
    (hp' : p = Pc.parked ∨ (p = Pc.waitFlag ∧ s.m.flag a = false)) (k : Nat) (m' : Mutex.State)
    (e1 : m'.pc = Mutex.upd s.m.pc a p) (e2 : m'.flag = s.m.flag) (e3 : m'.req = Elem.node a k :: s.m.req) (e4 : m'.queue = s.m.queue)
    (hmi : Mutex.Inv c m') : Inv c { rmw ord s a with m := m' } := by
  have hp := h.priv a (by simp [Mutex.Listed, hpc, Mutex.isWaiting])
  simp only [car, hpc] at hp
  have hq : ∀ x ∈ s.m.queue, x ≠ a := fun x hx e => by
    have := (mem_queue_facts h.mi hx).1; simp [Mutex.Listed, e, hpc, Mutex.isWaiting] at this
  obtain ⟨mi, nr, own, free, stack, priv, wk⟩ := h
  cinv_close

/-- `build_queue(self)`: the exchange -/
theorem inv_build (ord : Order) (ho : ord.isAcq = true) (h : Inv c s) (hpc : s.m.pc a = Pc.build) (m' : Mutex.State)
    (e1 : m'.pc = Mutex.upd s.m.pc a Pc.crit) (e2 : m'.flag = s.m.flag) (e3 : m'.req = [Elem.door])
    (e4 : m'.queue = ((nodesOf s.m.req).filter (· ≠ a)).reverse ++ s.m.queue)
    (hmi : Mutex.Inv c m') : Inv c { rmw ord s a with walk := upd s.walk a (some ((nodesOf s.m.req).filter (· ≠ a))), m := m' } := by
  have hown : Mutex.Owner s.m a := by simp [Mutex.Owner, hpc, Mutex.isOwner]
  have hd := h.own a hown
  simp only [car, hpc] at hd
  obtain ⟨hin, hq⟩ := h.mi.bld a hpc
  have hex := h.mi.excl
  obtain ⟨mi, nr, own, free, stack, priv, wk⟩ := h
  cinv_close

/-- `flag.wait(false)` finds the flag clear: the thread blocks -/
theorem inv_waitBlock (h : Inv c s) (hpc : s.m.pc a = Pc.waitFlag) (hf : s.m.flag a = false) (m' : Mutex.State)
    (e1 : m'.pc = Mutex.upd s.m.pc a Pc.blocked) (e2 : m'.flag = s.m.flag) (e3 : m'.req = s.m.req) (e4 : m'.queue = s.m.queue)
    (hmi : Mutex.Inv c m') : Inv c { s with m := m' } := by
  obtain ⟨mi, nr, own, free, stack, priv, wk⟩ := h
  cinv_close

/-- `flag.wait(false)` returns: the waiter owns the mutex -/
theorem inv_waitPass (ord : Order) (ho : ord.isAcq = true) (h : Inv c s) (hpc : s.m.pc a = Pc.waitFlag ∨ s.m.pc a = Pc.blocked)
    (hf : s.m.flag a = true) (m' : Mutex.State)
    (e1 : m'.pc = Mutex.upd s.m.pc a Pc.crit) (e2 : m'.flag = s.m.flag) (e3 : m'.req = s.m.req) (e4 : m'.queue = s.m.queue)
    (hmi : Mutex.Inv c m') : Inv c { flagWait ord s a with m := m' } := by
  have hown : Mutex.Owner s.m a := by rcases hpc with e | e <;> simp [Mutex.Owner, e, hf, Mutex.isOwner]
  have hd := h.own a hown
  have hp := h.priv a (by rcases hpc with e | e <;> simp [Mutex.Listed, e, hf, Mutex.isWaiting])
  have hcar : car s a = s.fvc a := by rcases hpc with e | e <;> simp [car, e]
  rw [hcar] at hd hp
  have hex := h.mi.excl
  obtain ⟨mi, nr, own, free, stack, priv, wk⟩ := h
  cinv_close

/-- the critical section: the datum is read and written -/
theorem inv_wrData (h : Inv c s) (hpc : s.m.pc a = Pc.crit ∨ s.m.pc a = Pc.critS) (hwa : s.walk a = none) (m' : Mutex.State)
    (e1 : m'.pc = Mutex.upd s.m.pc a Pc.afterCs) (e2 : m'.flag = s.m.flag) (e3 : m'.req = s.m.req) (e4 : m'.queue = s.m.queue)
    (hmi : Mutex.Inv c m') : Inv c { wrData s a with m := m' } := by
  have hown : Mutex.Owner s.m a := by rcases hpc with e | e <;> simp [Mutex.Owner, e, Mutex.isOwner]
  have hd := h.own a hown
  have hcar : car s a = s.clk a := by rcases hpc with e | e <;> simp [car, e]
  rw [hcar] at hd
  have hex := h.mi.excl
  have hdo := Mutex.doorEnd_ne_nil (h.mi.door a hown (by rcases hpc with e | e <;> simp [e]))
  obtain ⟨mi, nr, own, free, stack, priv, wk⟩ := h
  cinv_close

/-- a plain access to `_queue` by the owner (`if (!_queue)`, the assertion of `build_queue`) -/
theorem inv_rdQueue (h : Inv c s) (hpc : s.m.pc a = Pc.afterCs ∨ s.m.pc a = Pc.asg ∨ s.m.pc a = Pc.crit ∨ s.m.pc a = Pc.relHand) : Inv c (rdQueue s a) := by
  have hown : Mutex.Owner s.m a := by rcases hpc with e | e | e | e <;> simp [Mutex.Owner, e, Mutex.isOwner]
  have hd := h.own a hown
  have hcar : car s a = s.clk a := by rcases hpc with e | e | e | e <;> simp [car, e]
  rw [hcar] at hd
  have hex := h.mi.excl
  have hdo := Mutex.doorEnd_ne_nil (h.mi.door a hown (by rcases hpc with e | e | e | e <;> simp [e]))
  obtain ⟨mi, nr, own, free, stack, priv, wk⟩ := h
  have hmi := mi
  have e1 : True := trivial
  have e2 : True := trivial
  have e3 : True := trivial
  have e4 : True := trivial
  cinv_close

/-- `unlock`, fast path: the CAS doorman → nullptr succeeds -/
theorem inv_unlockOk (ord : Order) (ho : ord.isRel = true) (h : Inv c s) (hpc : s.m.pc a = Pc.afterCs ∨ s.m.pc a = Pc.asg) (hq : s.m.queue = [])
    (m' : Mutex.State)
    (e1 : m'.pc = Mutex.upd s.m.pc a Pc.relDone) (e2 : m'.flag = s.m.flag) (e3 : m'.req = []) (e4 : m'.queue = s.m.queue)
    (hmi : Mutex.Inv c m') : Inv c { rmw ord s a with m := m' } := by
  have hown : Mutex.Owner s.m a := by rcases hpc with e | e <;> simp [Mutex.Owner, e, Mutex.isOwner]
  have hd := h.own a hown
  have hp := h.priv a (by rcases hpc with e | e <;> simp [Mutex.Listed, e, Mutex.isWaiting])
  have hcar : car s a = s.clk a := by rcases hpc with e | e <;> simp [car, e]
  rw [hcar] at hd hp
  have hex := h.mi.excl
  obtain ⟨mi, nr, own, free, stack, priv, wk⟩ := h
  cinv_close

/-- `unlock`: the CAS fails (requests are pending), `build_queue(doorman)` comes next -/
theorem inv_unlockFail (ord : Order) (h : Inv c s) (hpc : s.m.pc a = Pc.afterCs ∨ s.m.pc a = Pc.asg) (m' : Mutex.State)
    (e1 : m'.pc = Mutex.upd s.m.pc a Pc.relBuild) (e2 : m'.flag = s.m.flag) (e3 : m'.req = s.m.req) (e4 : m'.queue = s.m.queue)
    (hmi : Mutex.Inv c m') : Inv c { casFail ord s a with m := m' } := by
  have hown : Mutex.Owner s.m a := by rcases hpc with e | e <;> simp [Mutex.Owner, e, Mutex.isOwner]
  have hd := h.own a hown
  have hp := h.priv a (by rcases hpc with e | e <;> simp [Mutex.Listed, e, Mutex.isWaiting])
  have hcar : car s a = s.clk a := by rcases hpc with e | e <;> simp [car, e]
  rw [hcar] at hd hp
  have hex := h.mi.excl
  have hdo := Mutex.doorEnd_ne_nil (h.mi.door a hown (by rcases hpc with e | e <;> simp [e]))
  obtain ⟨mi, nr, own, free, stack, priv, wk⟩ := h
  cinv_close

/-- `build_queue(doorman)`: the exchange -/
theorem inv_relBuild (ord : Order) (ho : ord.isAcq = true) (h : Inv c s) (hpc : s.m.pc a = Pc.relBuild) (m' : Mutex.State)
    (e1 : m'.pc = Mutex.upd s.m.pc a Pc.relHand) (e2 : m'.flag = s.m.flag) (e3 : m'.req = [Elem.door])
    (e4 : m'.queue = (nodesOf s.m.req).reverse ++ s.m.queue)
    (hmi : Mutex.Inv c m') : Inv c { rmw ord s a with walk := upd s.walk a (some (nodesOf s.m.req)), m := m' } := by
  have hown : Mutex.Owner s.m a := by simp [Mutex.Owner, hpc, Mutex.isOwner]
  have hd := h.own a hown
  have hp := h.priv a (by simp [Mutex.Listed, hpc, Mutex.isWaiting])
  have hcar : car s a = s.clk a := by simp [car, hpc]
  rw [hcar] at hd hp
  have hex := h.mi.excl
  obtain ⟨mi, nr, own, free, stack, priv, wk⟩ := h
  cinv_close

/-- facts about the head of the queue the owner hands the mutex to -/
theorem head_facts' (h : Mutex.Inv c s.m) {b : Nat} {rest : List Nat} (hq : s.m.queue = b :: rest)
    (hpc : s.m.pc a = Pc.afterCs ∨ s.m.pc a = Pc.asg ∨ s.m.pc a = Pc.relHand) :
    b ≠ a ∧ b ∉ rest ∧ b ∉ nodesOf s.m.req ∧ Mutex.isWaiting (s.m.pc b) (s.m.flag b) = true := by
  obtain ⟨hw, _, h1, h2⟩ := h.head_facts hq
  refine ⟨?_, List.count_eq_zero.1 h1, List.count_eq_zero.1 h2, hw⟩
  rintro rfl
  rcases hpc with e | e | e <;> simp [e, Mutex.isWaiting] at hw

/-- hand-over to a suspended coroutine: it is resumed on the releasing contender's thread -/
theorem inv_handCo (h : Inv c s) (hpc : s.m.pc a = Pc.afterCs ∨ s.m.pc a = Pc.asg ∨ s.m.pc a = Pc.relHand) (hwa : s.walk a = none)
    (b : Nat) (rest : List Nat) (hq : s.m.queue = b :: rest) (hb : s.m.pc b = Pc.parked) (m' : Mutex.State)
    (e1 : m'.pc = Mutex.upd (Mutex.upd s.m.pc b Pc.crit) a Pc.relDone) (e2 : m'.flag = s.m.flag) (e3 : m'.req = s.m.req)
    (e4 : m'.queue = rest)
    (hmi : Mutex.Inv c m') : Inv c { resume (rdBody (wrNext (wrQueue s a) a b) a b) a b with m := m' } := by
  have hown : Mutex.Owner s.m a := by rcases hpc with e | e | e <;> simp [Mutex.Owner, e, Mutex.isOwner]
  have hd := h.own a hown
  have hp := h.priv a (by rcases hpc with e | e | e <;> simp [Mutex.Listed, e, Mutex.isWaiting])
  have hcar : car s a = s.clk a := by rcases hpc with e | e | e <;> simp [car, e]
  rw [hcar] at hd hp
  have hex := h.mi.excl
  obtain ⟨hba, hnr, hns, hw⟩ := head_facts' h.mi hq hpc
  have hdo := Mutex.doorEnd_ne_nil (h.mi.door a hown (by rcases hpc with e | e | e <;> simp [e]))
  obtain ⟨mi, nr, own, free, stack, priv, wk⟩ := h
  cinv_close

/-- hand-over to a blocking waiter: its flag is stored -/
theorem inv_handFlag (ord : Order) (ho : ord.isRel = true) (h : Inv c s) (hpc : s.m.pc a = Pc.afterCs ∨ s.m.pc a = Pc.asg ∨ s.m.pc a = Pc.relHand)
    (hwa : s.walk a = none)
    (b : Nat) (rest : List Nat) (hq : s.m.queue = b :: rest) (hb : (s.m.pc b = Pc.waitFlag ∨ s.m.pc b = Pc.blocked) ∧ s.m.flag b = false)
    (m' : Mutex.State)
    (e1 : m'.pc = Mutex.upd s.m.pc a Pc.relDone) (e2 : m'.flag = Mutex.upd s.m.flag b true) (e3 : m'.req = s.m.req)
    (e4 : m'.queue = rest)
    (hmi : Mutex.Inv c m') : Inv c { flagStore ord (rdBody (wrNext (wrQueue s a) a b) a b) a b with m := m' } := by
  have hown : Mutex.Owner s.m a := by rcases hpc with e | e | e <;> simp [Mutex.Owner, e, Mutex.isOwner]
  have hd := h.own a hown
  have hp := h.priv a (by rcases hpc with e | e | e <;> simp [Mutex.Listed, e, Mutex.isWaiting])
  have hcar : car s a = s.clk a := by rcases hpc with e | e | e <;> simp [car, e]
  rw [hcar] at hd hp
  have hex := h.mi.excl
  obtain ⟨hba, hnr, hns, hw⟩ := head_facts' h.mi hq hpc
  have hdo := Mutex.doorEnd_ne_nil (h.mi.door a hown (by rcases hpc with e | e | e <;> simp [e]))
  obtain ⟨mi, nr, own, free, stack, priv, wk⟩ := h
  cinv_close

/-- one iteration of `build_queue`'s loop -/
theorem inv_walkNode (h : Inv c s) (hpc : s.m.pc a = Pc.crit ∨ s.m.pc a = Pc.relHand) (x : Nat) (hx : x ∈ s.m.queue) :
    Inv c (walkNode a s x) := by
  have hown : Mutex.Owner s.m a := by rcases hpc with e | e <;> simp [Mutex.Owner, e, Mutex.isOwner]
  have hd := h.own a hown
  have hcar : car s a = s.clk a := by rcases hpc with e | e <;> simp [car, e]
  rw [hcar] at hd
  have hex := h.mi.excl
  obtain ⟨hl, hns⟩ := mem_queue_facts h.mi hx
  have hdo := Mutex.doorEnd_ne_nil (h.mi.door a hown (by rcases hpc with e | e <;> simp [e]))
  obtain ⟨mi, nr, own, free, stack, priv, wk⟩ := h
  have hmi := mi
  have e1 : True := trivial
  have e2 : True := trivial
  have e3 : True := trivial
  have e4 : True := trivial
  cinv_close


/-! ### the loop of `build_queue` -/

theorem inv_clearWalk (h : Inv c s) (a : Nat) : Inv c { s with walk := upd s.walk a none } :=
  ⟨h.mi, h.nr, h.own, h.free, h.stack, h.priv, fun b l hb => by
    by_cases hba : b = a
    · subst hba; simp at hb
    · exact h.wk b l (by simpa [Clock.upd_apply, hba] using hb)⟩

theorem inv_walkAll (l : List Nat) : ∀ s : St, Inv c s → (s.m.pc a = Pc.crit ∨ s.m.pc a = Pc.relHand) → (∀ x ∈ l, x ∈ s.m.queue) →
    Inv c (l.foldl (walkNode a) s) ∧ (l.foldl (walkNode a) s).m = s.m ∧ (l.foldl (walkNode a) s).walk = s.walk := by
  induction l with
  | nil => intro s h _ _; exact ⟨h, rfl, rfl⟩
  | cons x l ih =>
    intro s h hpc hl
    have h1 := inv_walkNode h hpc x (hl x (by simp))
    obtain ⟨i1, i2, i3⟩ := ih (walkNode a s x) h1 hpc (fun y hy => hl y (by simp [hy]))
    exact ⟨i1, i2, i3⟩

/-- the pending loop of `build_queue` (if any) keeps the invariant, leaves the protocol state alone and is no longer pending -/
theorem inv_flush (h : Inv c s) (a : Nat) : Inv c (flush s a) ∧ (flush s a).m = s.m ∧ (flush s a).walk a = none := by
  unfold flush
  cases hw : s.walk a with
  | none => exact ⟨h, rfl, hw⟩
  | some l =>
    obtain ⟨hpc, hl⟩ := h.wk a l hw
    have h0 := inv_clearWalk h a
    have hpc4 : s.m.pc a = Pc.afterCs ∨ s.m.pc a = Pc.asg ∨ s.m.pc a = Pc.crit ∨ s.m.pc a = Pc.relHand := by
      rcases hpc with e | e <;> simp [e]
    have h1 := inv_rdQueue (a := a) h0 hpc4
    obtain ⟨i1, i2, i3⟩ := inv_walkAll (a := a) l _ h1 hpc hl
    refine ⟨i1, i2, ?_⟩
    rw [i3]; simp [rdQueue]


/-! ### configurations: three flavours, released by `release()` -/

theorem curRound_toMutex (c : Cfg) (m : Mutex.State) (a : Nat) {r : Mutex.Round} (h : Mutex.curRound c.toMutex m a = some r) :
    r.fl ≠ Mutex.Flavour.cb ∧ r.rel = Mutex.Rel.x := by
  simp only [Mutex.curRound, Cfg.toMutex, List.getElem?_map] at h
  cases hx : (c.rounds a)[m.round a]? with
  | none => simp [hx] at h
  | some f =>
    simp only [hx, Option.map_some, Option.some.injEq] at h
    subst h
    cases f <;> simp [Fl.toMutex]

theorem relOf_toMutex (c : Cfg) (m : Mutex.State) (a : Nat) :
    Mutex.relOf c.toMutex m a ≠ some Mutex.Rel.g := by
  unfold Mutex.relOf
  cases h : Mutex.curRound c.toMutex m a with
  | none => simp
  | some r => simp [(curRound_toMutex c m a h).2]

theorem flOf_toMutex (c : Cfg) (m : Mutex.State) (a : Nat) :
    Mutex.flOf c.toMutex m a ≠ some Mutex.Flavour.cb := by
  unfold Mutex.flOf
  cases h : Mutex.curRound c.toMutex m a with
  | none => simp
  | some r => simpa using (curRound_toMutex c m a h).1

theorem runnable_eq (m : Mutex.State) (a : Nat) : runnable m a = Mutex.canRun m a := rfl



theorem iHand_co (o : MutexOrders) (c : Mutex.Cfg) (s : St) (a b : Nat) (rest : List Nat) (hq : s.m.queue = b :: rest)
    (hfl : Mutex.flOf c s.m b = some Mutex.Flavour.co) :
    iHand o c s a = resume (rdBody (wrNext (wrQueue s a) a b) a b) a b := by
  simp only [iHand, hq, hfl]

theorem iHand_flag (o : MutexOrders) (c : Mutex.Cfg) (s : St) (a b : Nat) (rest : List Nat) (hq : s.m.queue = b :: rest)
    (hfl : Mutex.flOf c s.m b ≠ some Mutex.Flavour.co) :
    iHand o c s a = flagStore o.flagStore (rdBody (wrNext (wrQueue s a) a b) a b) a b := by
  unfold iHand
  simp only [hq]


/-- the hand-over part of `unlock`, whichever path led to it -/
theorem inv_hand (o : MutexOrders) (hFs : o.flagStore.isRel = true) {C : Mutex.Cfg} {s1 : St} {a : Nat} (h : Inv C s1)
    (hpc : s1.m.pc a = Pc.afterCs ∨ s1.m.pc a = Pc.asg ∨ s1.m.pc a = Pc.relHand) (hw : s1.walk a = none)
    (b : Nat) (rest : List Nat) (hq : s1.m.queue = b :: rest) (m2 : Mutex.State) (t : Nat)
    (f1 : m2.queue = s1.m.queue) (f2 : m2.pc = s1.m.pc) (f3 : m2.flag = s1.m.flag) (f4 : m2.req = s1.m.req)
    (f5 : m2.round = s1.m.round) (hmi' : Mutex.Inv C (Mutex.handOver C m2 t a).1) :
    Inv C { iHand o C s1 a with m := (Mutex.handOver C m2 t a).1 } := by
  obtain ⟨g1, g2, _, _, _, g6, g7, _, _⟩ := Mutex.handOver_spec C m2 t a b rest (f1.trans hq)
  have hfl : Mutex.flOf C m2 b = Mutex.flOf C s1.m b := by simp only [Mutex.flOf_eq, f5]
  by_cases hco : Mutex.flOf C s1.m b = some Mutex.Flavour.co
  · rw [iHand_co o C s1 a b rest hq hco]
    exact inv_handCo h hpc hw b rest hq ((h.mi.head_wait hq).1 hco) _ (by rw [g6, hfl, if_pos hco, f2]) (by rw [g7, hfl, if_pos hco, f3])
      (by rw [g2, f4]) g1 hmi'
  · rw [iHand_flag o C s1 a b rest hq hco]
    exact inv_handFlag o.flagStore hFs h hpc hw b rest hq ((h.mi.head_wait hq).2 hco) _ (by rw [g6, hfl, if_neg hco, f2])
      (by rw [g7, hfl, if_neg hco, f3]) (by rw [g2, f4]) g1 hmi'


set_option linter.unusedSimpArgs false in
/-- `unlock` entered through the ownership object: fast path (CAS succeeds / fails) or hand-over -/
theorem inv_unlockStart (o : MutexOrders) (hUnl : o.unlockOk.isRel = true) (hFs : o.flagStore.isRel = true) {C : Mutex.Cfg}
    {s : St} {a : Nat} (h : Inv C s) (hpc : s.m.pc a = Pc.afterCs ∨ s.m.pc a = Pc.asg) (m1 : Mutex.State)
    (f1 : m1.queue = s.m.queue) (f2 : m1.pc = s.m.pc) (f3 : m1.flag = s.m.flag) (f4 : m1.req = s.m.req)
    (f5 : m1.round = s.m.round) (hheld : m1.held (Mutex.objOf C m1 a) = true)
    (m' : Mutex.State) (hm' : m' = (Mutex.unlockStart C m1 a a).1) (hmi' : Mutex.Inv C m') :
    Inv C { iUnlock o C s a with m := m' } := by
  have hpc4 : s.m.pc a = Pc.afterCs ∨ s.m.pc a = Pc.asg ∨ s.m.pc a = Pc.crit ∨ s.m.pc a = Pc.relHand := by
    rcases hpc with e | e <;> simp [e]
  have hpc3 : s.m.pc a = Pc.afterCs ∨ s.m.pc a = Pc.asg ∨ s.m.pc a = Pc.relHand := by
    rcases hpc with e | e <;> simp [e]
  have hr := inv_rdQueue h hpc4
  have hw : (rdQueue s a).walk a = none := by
    cases hx : s.walk a with
    | none => exact hx
    | some l => have := (h.wk a l hx).1; rcases hpc with e | e <;> simp [e] at this
  cases hq : s.m.queue with
  | nil =>
    by_cases hreq : s.m.req = [Elem.door]
    · simp only [iUnlock, hq, hreq, if_true]
      exact inv_unlockOk (s := rdQueue s a) o.unlockOk hUnl hr hpc hq m'
        (by rw [hm']; simp [Mutex.unlockStart, hheld, f1, hq, f4, hreq, Mutex.setPc, f2, rdQueue])
        (by rw [hm']; simp [Mutex.unlockStart, hheld, f1, hq, f4, hreq, Mutex.setPc, f3, rdQueue])
        (by rw [hm']; simp [Mutex.unlockStart, hheld, f1, hq, f4, hreq, Mutex.setPc, rdQueue])
        (by rw [hm']; simp [Mutex.unlockStart, hheld, f1, hq, f4, hreq, Mutex.setPc, rdQueue]) hmi'
    · simp only [iUnlock, hq, hreq, if_false]
      exact inv_unlockFail (s := rdQueue s a) o.unlockFail hr hpc m'
        (by rw [hm']; simp [Mutex.unlockStart, hheld, f1, hq, f4, hreq, Mutex.setPc, f2, rdQueue])
        (by rw [hm']; simp [Mutex.unlockStart, hheld, f1, hq, f4, hreq, Mutex.setPc, f3, rdQueue])
        (by rw [hm']; simp [Mutex.unlockStart, hheld, f1, hq, f4, hreq, Mutex.setPc, rdQueue])
        (by rw [hm']; simp [Mutex.unlockStart, hheld, f1, hq, f4, hreq, Mutex.setPc, rdQueue]) hmi'
  | cons b rest =>
    rw [Mutex.unlockStart_cons C m1 a a b rest hheld (f1.trans hq)] at hm'
    subst hm'
    simp only [iUnlock, hq]
    exact inv_hand o hFs hr hpc3 hw b rest hq _ a f1 f2 f3 f4 f5 hmi'

def MutexOrders.sufficient (o : MutexOrders) : Bool :=
  o.unlockOk.isRel && o.ready.isAcq && o.build.isAcq && o.subOk.isRel && o.flagStore.isRel && o.flagWait.isAcq


set_option linter.unusedSimpArgs false in
theorem inv_step (o : MutexOrders) (hs : o.sufficient = true) (c : Cfg) {s : St} (h : Inv c.toMutex s) (a : Nat) :
    Inv c.toMutex (step o c s a) := by
  simp only [MutexOrders.sufficient, Bool.and_eq_true] at hs
  obtain ⟨⟨⟨⟨⟨hUnl, hRdy⟩, hBld⟩, hSub⟩, hFs⟩, hFw⟩ := hs
  unfold step
  split
  case isFalse => exact h
  rename_i hg
  have hmi' := Mutex.inv_step h.mi a (a := a) (by rw [← runnable_eq]; exact hg)
  have hrel := relOf_toMutex c s.m a
  cases hpc : s.m.pc a with
  | top =>
    cases hr : Mutex.curRound c.toMutex s.m a with
    | none =>
      simp only [instr, hpc, iTop, hr]
      exact inv_quiet (a := a) h Pc.done (by simp [hpc, qt]) rfl _ (by simp [Mutex.agentStep, Mutex.setPc, hpc, hr])
        (by simp [Mutex.agentStep, Mutex.setPc, hpc, hr]) (by simp [Mutex.agentStep, Mutex.setPc, hpc, hr])
        (by simp [Mutex.agentStep, Mutex.setPc, hpc, hr]) hmi'
    | some r =>
      cases hreq : s.m.req with
      | nil =>
        simp only [instr, hpc, iTop, hr, hreq]
        exact inv_ready (a := a) o.ready hRdy h hpc hreq _ (by simp [Mutex.agentStep, Mutex.setPc, hpc, hr, hreq])
          (by simp [Mutex.agentStep, Mutex.setPc, hpc, hr, hreq]) (by simp [Mutex.agentStep, Mutex.setPc, hpc, hr, hreq])
          (by simp [Mutex.agentStep, Mutex.setPc, hpc, hr, hreq]) hmi'
      | cons e es =>
        have hq0 : qt (s.m.pc a) = true := by simp [hpc, qt]
        have hc := inv_casFail (a := a) o.readyFail h hq0
        cases hfl : r.fl with
        | co =>
          simp only [instr, hpc, iTop, hr, hreq, hfl]
          exact inv_quiet_body (a := a) hc (Pc.sub Seen.null) hq0 rfl (s.m.flag a) _
            (by simp [Mutex.agentStep, Mutex.setPc, hpc, hr, hreq, hfl, casFail])
            (by simp [Mutex.agentStep, Mutex.setPc, hpc, hr, hreq, hfl, casFail, mupd_self])
            (by simp [Mutex.agentStep, Mutex.setPc, hpc, hr, hreq, hfl, casFail])
            (by simp [Mutex.agentStep, Mutex.setPc, hpc, hr, hreq, hfl, casFail]) hmi'
        | try_ =>
          simp only [instr, hpc, iTop, hr, hreq, hfl]
          exact inv_quiet_casFail (a := a) o.readyFail h Pc.tryFail hq0 rfl _
            (by simp [Mutex.agentStep, Mutex.setPc, hpc, hr, hreq, hfl])
            (by simp [Mutex.agentStep, Mutex.setPc, hpc, hr, hreq, hfl])
            (by simp [Mutex.agentStep, Mutex.setPc, hpc, hr, hreq, hfl])
            (by simp [Mutex.agentStep, Mutex.setPc, hpc, hr, hreq, hfl]) hmi'
        | lock =>
          simp only [instr, hpc, iTop, hr, hreq, hfl]
          exact inv_quiet_casFail (a := a) o.readyFail h Pc.subInit hq0 rfl _
            (by simp [Mutex.agentStep, Mutex.setPc, hpc, hr, hreq, hfl])
            (by simp [Mutex.agentStep, Mutex.setPc, hpc, hr, hreq, hfl])
            (by simp [Mutex.agentStep, Mutex.setPc, hpc, hr, hreq, hfl])
            (by simp [Mutex.agentStep, Mutex.setPc, hpc, hr, hreq, hfl]) hmi'
        | cb => exact absurd hfl (curRound_toMutex c s.m a hr).1
  | tryFail =>
    simp only [instr, hpc]
    exact inv_quiet (a := a) h Pc.top (by simp [hpc, qt]) rfl _ (by simp [Mutex.agentStep, Mutex.setPc, hpc])
      (by simp [Mutex.agentStep, Mutex.setPc, hpc]) (by simp [Mutex.agentStep, Mutex.setPc, hpc])
      (by simp [Mutex.agentStep, Mutex.setPc, hpc]) hmi'
  | subInit =>
    simp only [instr, hpc, iSubInit]
    have hq0 : qt (s.m.pc a) = true := by simp [hpc, qt]
    refine inv_quiet_body (a := a) h (Pc.sub Seen.null) hq0 rfl false _ ?_ ?_ ?_ ?_ hmi' <;>
      (simp only [Mutex.agentStep, hpc]; split <;> simp [Mutex.setPc])
  | sub prev =>
    have hq0 : qt (s.m.pc a) = true := by simp [hpc, qt]
    have hn := inv_wrNextSelf (a := a) h hq0
    by_cases hseen : seenOf s.m.req = prev
    · simp only [instr, hpc, iSub, hseen, if_true]
      by_cases hp : prev = Seen.null
      · have hreq : s.m.req = [] := Mutex.seenOf_eq_null.1 (hseen.trans hp)
        exact inv_subNull (a := a) (s := wrNext s a a) o.subOk hSub hn prev hpc hreq (Mutex.keyOf c.toMutex s.m a) _
          (by simp [Mutex.agentStep, Mutex.setPc, hpc, hseen, hp, wrNext])
          (by simp [Mutex.agentStep, Mutex.setPc, hpc, hseen, hp, wrNext])
          (by simp [Mutex.agentStep, Mutex.setPc, hpc, hseen, hp, wrNext, hreq])
          (by simp [Mutex.agentStep, Mutex.setPc, hpc, hseen, hp, wrNext]) hmi'
      · by_cases hco : Mutex.flOf c.toMutex s.m a = some Mutex.Flavour.co
        · exact inv_subPush (a := a) (s := wrNext s a a) o.subOk hSub hn prev hpc Pc.parked (Or.inl rfl) (Mutex.keyOf c.toMutex s.m a) _
            (by simp [Mutex.agentStep, Mutex.setPc, hpc, hseen, hp, wrNext, hco])
            (by simp [Mutex.agentStep, Mutex.setPc, hpc, hseen, hp, wrNext])
            (by simp [Mutex.agentStep, Mutex.setPc, hpc, hseen, hp, wrNext])
            (by simp [Mutex.agentStep, Mutex.setPc, hpc, hseen, hp, wrNext]) hmi'
        · have hf := h.mi.subF a prev hpc hco
          exact inv_subPush (a := a) (s := wrNext s a a) o.subOk hSub hn prev hpc Pc.waitFlag (Or.inr ⟨rfl, hf⟩) (Mutex.keyOf c.toMutex s.m a) _
            (by simp only [Mutex.agentStep, hpc, hseen, if_true, hp, if_false]; simp [Mutex.setPc, wrNext])
            (by simp [Mutex.agentStep, Mutex.setPc, hpc, hseen, hp, wrNext])
            (by simp [Mutex.agentStep, Mutex.setPc, hpc, hseen, hp, wrNext])
            (by simp [Mutex.agentStep, Mutex.setPc, hpc, hseen, hp, wrNext]) hmi'
    · simp only [instr, hpc, iSub, hseen, if_false]
      exact inv_quiet_casFail (a := a) (s := wrNext s a a) o.subFail hn (Pc.sub (seenOf s.m.req)) hq0 rfl _
        (by simp [Mutex.agentStep, Mutex.setPc, hpc, hseen, wrNext])
        (by simp [Mutex.agentStep, Mutex.setPc, hpc, hseen, wrNext])
        (by simp [Mutex.agentStep, Mutex.setPc, hpc, hseen, wrNext])
        (by simp [Mutex.agentStep, Mutex.setPc, hpc, hseen, wrNext]) hmi'
  | build =>
    simp only [instr, hpc, iBuild]
    exact inv_build (a := a) o.build hBld h hpc _ (by simp [Mutex.agentStep, Mutex.setPc, hpc])
      (by simp [Mutex.agentStep, Mutex.setPc, hpc]) (by simp [Mutex.agentStep, Mutex.setPc, hpc])
      (by simp [Mutex.agentStep, Mutex.setPc, hpc]) hmi'
  | waitFlag =>
    have hcb := flOf_toMutex c s.m a
    cases hf : s.m.flag a with
    | false =>
      simp only [instr, hpc, iWait, hf]
      exact inv_waitBlock (a := a) h hpc hf _ (by simp [Mutex.agentStep, Mutex.setPc, hpc, hcb, hf])
        (by simp [Mutex.agentStep, Mutex.setPc, hpc, hcb, hf]) (by simp [Mutex.agentStep, Mutex.setPc, hpc, hcb, hf])
        (by simp [Mutex.agentStep, Mutex.setPc, hpc, hcb, hf]) hmi'
    | true =>
      simp only [instr, hpc, iWait, hf, if_true]
      exact inv_waitPass (a := a) o.flagWait hFw h (Or.inl hpc) hf _ (by simp [Mutex.agentStep, Mutex.setPc, hpc, hcb, hf])
        (by simp [Mutex.agentStep, Mutex.setPc, hpc, hcb, hf]) (by simp [Mutex.agentStep, Mutex.setPc, hpc, hcb, hf])
        (by simp [Mutex.agentStep, Mutex.setPc, hpc, hcb, hf]) hmi'
  | blocked =>
    have hcb := flOf_toMutex c s.m a
    have hf : s.m.flag a = true := by simpa [runnable, hpc] using hg
    simp only [instr, hpc, iWait, hf, if_true]
    exact inv_waitPass (a := a) o.flagWait hFw h (Or.inr hpc) hf _ (by simp [Mutex.agentStep, Mutex.setPc, hpc, hcb])
      (by simp [Mutex.agentStep, Mutex.setPc, hpc, hcb]) (by simp [Mutex.agentStep, Mutex.setPc, hpc, hcb])
      (by simp [Mutex.agentStep, Mutex.setPc, hpc, hcb]) hmi'
  | crit =>
    obtain ⟨hfl, hm, hw⟩ := inv_flush h a
    simp only [instr, hpc, iCrit]
    exact inv_wrData (a := a) (s := flush s a) hfl (by rw [hm]; exact Or.inl hpc) hw _
      (by rw [hm]; simp [Mutex.agentStep, Mutex.setPc, hpc]) (by rw [hm]; simp [Mutex.agentStep, Mutex.setPc, hpc])
      (by rw [hm]; simp [Mutex.agentStep, Mutex.setPc, hpc]) (by rw [hm]; simp [Mutex.agentStep, Mutex.setPc, hpc]) hmi'
  | critS =>
    obtain ⟨hfl, hm, hw⟩ := inv_flush h a
    simp only [instr, hpc, iCrit]
    exact inv_wrData (a := a) (s := flush s a) hfl (by rw [hm]; exact Or.inr hpc) hw _
      (by rw [hm]; simp [Mutex.agentStep, Mutex.setPc, hpc]) (by rw [hm]; simp [Mutex.agentStep, Mutex.setPc, hpc])
      (by rw [hm]; simp [Mutex.agentStep, Mutex.setPc, hpc]) (by rw [hm]; simp [Mutex.agentStep, Mutex.setPc, hpc]) hmi'
  | relBuild =>
    simp only [instr, hpc, iRelBuild]
    exact inv_relBuild (a := a) o.build hBld h hpc _ (by simp [Mutex.agentStep, Mutex.setPc, hpc])
      (by simp [Mutex.agentStep, Mutex.setPc, hpc]) (by simp [Mutex.agentStep, Mutex.setPc, hpc])
      (by simp [Mutex.agentStep, Mutex.setPc, hpc]) hmi'
  | relDone =>
    simp only [instr, hpc]
    refine inv_quiet (a := a) h Pc.top (by simp [hpc, qt]) rfl _ ?_ ?_ ?_ ?_ hmi' <;>
      (simp only [Mutex.agentStep, hpc]; first | (split <;> simp_all [Mutex.setPc]) | simp [Mutex.setPc])
  | parked => simp [runnable, hpc] at hg
  | done => simp [runnable, hpc] at hg
  | relHand =>
    obtain ⟨hfl, hm, hw⟩ := inv_flush h a
    have hstep := Mutex.agentStep_relHand c.toMutex s.m a a hpc
    rw [hstep] at hmi' ⊢
    simp only [instr, hpc, iRelHand]
    cases hq : s.m.queue with
    | nil => exact absurd hq (h.mi.relH a hpc)
    | cons b rest =>
      exact inv_hand o hFs hfl (by rw [hm]; exact Or.inr (Or.inr hpc)) hw b rest (by rw [hm]; exact hq) s.m a
        (by rw [hm]) (by rw [hm]) (by rw [hm]) (by rw [hm]) (by rw [hm]) hmi'
  | afterCs =>
    obtain ⟨hheld, _⟩ := h.mi.unlock_facts (Or.inl hpc)
    have hstep := Mutex.agentStep_afterCs_ng c.toMutex s.m a a hpc hrel
    simp only [instr, hpc]
    exact inv_unlockStart o hUnl hFs h (Or.inl hpc) { s.m with incs := s.m.incs - 1 } rfl rfl rfl rfl rfl hheld _
      (by rw [hstep]) hmi'
  | asg =>
    obtain ⟨hheld, _⟩ := h.mi.unlock_facts (Or.inr hpc)
    have hstep := Mutex.agentStep_asg c.toMutex s.m a a hpc
    simp only [instr, hpc]
    exact inv_unlockStart o hUnl hFs h (Or.inr hpc) s.m rfl rfl rfl rfl rfl hheld _ (by rw [hstep]) hmi'

/-! ### runs -/

theorem inv_init (c : Cfg) : Inv c.toMutex (St.init c) := by
  have hpc : ∀ x, (Mutex.init c.toMutex).pc x = Pc.top ∨ (Mutex.init c.toMutex).pc x = Pc.done := by
    intro x; simp only [Mutex.init]; split <;> simp
  refine ⟨Mutex.inv_init _, rfl, ?_, ?_, ?_, ?_, ?_⟩
  · intro a ha
    rcases hpc a with e | e <;> simp [Mutex.Owner, St.init, e, Mutex.isOwner] at ha
  · intro _
    exact ⟨Meta.init_le _, Meta.init_le _, fun x _ => ⟨Meta.init_le _, Meta.init_le _⟩⟩
  · intro x hx; simp [St.init, Mutex.init] at hx
  · intro x _; exact ⟨Meta.init_le _, Meta.init_le _⟩
  · intro a l hl; simp [St.init] at hl

theorem inv_run (o : MutexOrders) (hs : o.sufficient = true) (c : Cfg) (sched : List Nat) : Inv c.toMutex (run o c sched) := by
  unfold run
  suffices ∀ s, Inv c.toMutex s → Inv c.toMutex (sched.foldl (step o c) s) from this _ (inv_init c)
  induction sched with
  | nil => intro s h; exact h
  | cons a as ih => intro s h; exact ih _ (inv_step o hs c h a)

/-- **Main theorem.**  Under sufficient orders the whole mutex protocol — any number of contenders, any number of rounds of any
flavour, every schedule — never races: not on the protected datum, not on `_queue`, not on `_next` or the handle / resume
function of any request node.  Nothing is asked of the three failure orders. -/
theorem mutex_race_free (o : MutexOrders) (hs : o.sufficient = true) :
    ∀ (cfg : Cfg) (sched : List Nat), (run o cfg sched).raced = false :=
  fun cfg sched => (inv_run o hs cfg sched).nr

/-- the failure orders of the three CAS sites do not occur in `sufficient`: whatever they are replaced by, the protocol stays race free -/
theorem mutex_failure_orders_irrelevant (o : MutexOrders) (hs : o.sufficient = true) (x y z : Order) :
    ∀ (cfg : Cfg) (sched : List Nat), (run { o with readyFail := x, subFail := y, unlockFail := z } cfg sched).raced = false :=
  mutex_race_free _ hs

/-- **Hand-over is ordered.**  Whoever is about to enter the critical section — having taken the lock by `ready()`, by
subscribe-found-null + `build_queue`, by being resumed, or by its flag — has the previous critical section's last write of the
datum (`data.wr`: the datum is written in critical sections only) in its clock. -/
theorem mutex_handoff_ordered (o : MutexOrders) (hs : o.sufficient = true) (cfg : Cfg) (sched : List Nat) (a : Nat)
    (hpc : (run o cfg sched).m.pc a = Pc.crit) :
    (run o cfg sched).data.wr.2 ≤ (run o cfg sched).clk a (run o cfg sched).data.wr.1 := by
  have h := inv_run o hs cfg sched
  have hd := h.own a (by simp [Mutex.Owner, hpc, Mutex.isOwner])
  simp only [car, hpc] at hd
  exact hd.1.1

/-- … and everything else the mutex guards: the owner's clock covers every recorded access to the datum, to `_queue` and to the
nodes waiting in the queue (for an owner that has not yet synchronised — flag stored but `wait` not returned, or found-free before
its exchange — the clock it is about to acquire does) -/
theorem mutex_owner_dominates (o : MutexOrders) (hs : o.sufficient = true) (cfg : Cfg) (sched : List Nat) (a : Nat)
    (hown : Mutex.Owner (run o cfg sched).m a) : Dom (run o cfg sched) (car (run o cfg sched) a) :=
  (inv_run o hs cfg sched).own a hown

/-! ### the bridge: erasing the clocks

`St.m` IS a state of `Mutex.lean`, and `step` advances it by `Mutex.agentStep` whatever the clocks say.  What is projected away:
`clk pacq rs fvc` (clocks), `data queue next body` (FastTrack metadata), `walk` (which nodes a pending `build_queue` loop will
touch — at list level the exchange has already moved them), `raced`.  Nothing of `Mutex.State` is projected away; the schedule
is the same list of contenders, a contender that cannot run (`Mutex.canRun`) stutters, the OS-thread argument of `agentStep`
(event labels and executor bookkeeping only: `Mutex.agentStep_exec_irrel`) is the contender itself. -/

/-- the protocol part of a step -/
def mstep (c : Mutex.Cfg) (m : Mutex.State) (a : Nat) : Mutex.State :=
  if Mutex.canRun m a then (Mutex.agentStep c m a a).1 else m

theorem step_erase (o : MutexOrders) (c : Cfg) (s : St) (a : Nat) : (step o c s a).m = mstep c.toMutex s.m a := by
  unfold step mstep
  rw [runnable_eq]
  split <;> rfl

/-- erasing the clocks from a run gives the run of `Mutex.lean` on the same schedule (whatever the orders are) -/
theorem run_erase (o : MutexOrders) (c : Cfg) (sched : List Nat) :
    (run o c sched).m = sched.foldl (mstep c.toMutex) (Mutex.init c.toMutex) := by
  unfold run
  suffices ∀ s : St, (sched.foldl (step o c) s).m = sched.foldl (mstep c.toMutex) s.m from this (St.init c)
  induction sched with
  | nil => intro s; rfl
  | cons a as ih => intro s; simp only [List.foldl_cons]; rw [ih, step_erase]

/-- … which is a guarded activity list of `Mutex.lean` in the sense of `MutexProofs.Reachable`: all the C07/C08 theorems apply to it
(and, through `MutexPtrProofs`, the pointer-level model simulates it step for step) -/
theorem run_reachable (o : MutexOrders) (c : Cfg) (sched : List Nat) : Mutex.Reachable c.toMutex (run o c sched).m := by
  rw [run_erase]
  suffices ∀ m, Mutex.Reachable c.toMutex m → Mutex.Reachable c.toMutex (sched.foldl (mstep c.toMutex) m) from
    this _ (Mutex.reachable_init _)
  induction sched with
  | nil => intro m h; exact h
  | cons a as ih =>
    intro m h
    simp only [List.foldl_cons]
    apply ih
    unfold mstep
    split
    · rename_i hg; exact Mutex.reachable_step h a hg
    · exact h

/-- the activities of a schedule that actually run (a contender that cannot run stutters), as `(thread, agent)` pairs of `Mutex.arun` -/
def acts (c : Mutex.Cfg) : Mutex.State → List Nat → List (Nat × Nat)
  | _, [] => []
  | m, a :: as => if Mutex.canRun m a then (a, a) :: acts c (Mutex.agentStep c m a a).1 as else acts c m as

theorem acts_spec (c : Mutex.Cfg) : ∀ (sched : List Nat) (m : Mutex.State),
    Mutex.Guarded c m (acts c m sched) ∧ sched.foldl (mstep c) m = Mutex.arun c m (acts c m sched) := by
  intro sched
  induction sched with
  | nil => intro m; exact ⟨trivial, rfl⟩
  | cons a as ih =>
    intro m
    simp only [acts, List.foldl_cons, mstep]
    split
    · rename_i hg
      obtain ⟨i1, i2⟩ := ih (Mutex.agentStep c m a a).1
      exact ⟨⟨hg, i1⟩, by rw [i2]; rfl⟩
    · exact ih m

/-- erasing the clocks: the protocol part of a run is the `Mutex.arun` of a guarded activity list (same contenders, same order) -/
theorem run_is_arun (o : MutexOrders) (c : Cfg) (sched : List Nat) :
    Mutex.Guarded c.toMutex (Mutex.init c.toMutex) (acts c.toMutex (Mutex.init c.toMutex) sched) ∧
    (run o c sched).m = Mutex.arun c.toMutex (Mutex.init c.toMutex) (acts c.toMutex (Mutex.init c.toMutex) sched) := by
  obtain ⟨i1, i2⟩ := acts_spec c.toMutex sched (Mutex.init c.toMutex)
  exact ⟨i1, by rw [run_erase, i2]⟩

/-- … and the pointer-level machine `MutexPtr.lean` (real `_next` links, `_queue` pointer, pending `build_queue` loops), run on the
same activity list, stays related to it (`MutexPtr.Repr`: its links denote exactly `req` / `queue` of the erased state) -/
theorem run_ptr_repr (o : MutexOrders) (c : Cfg) (sched : List Nat) (wf : Nat) (hwf : c.n ≤ wf) :
    MutexPtr.Repr c.toMutex
      (MutexPtr.arun c.toMutex wf (MutexPtr.init c.toMutex) (acts c.toMutex (Mutex.init c.toMutex) sched))
      (run o c sched).m := by
  obtain ⟨i1, i2⟩ := run_is_arun o c sched
  rw [i2]
  exact MutexPtr.repr_run wf hwf _ i1

/-! ### necessity: one racing run per clause of `sufficient` (all other orders as in the current source) -/

/-- the orders of the current source -/
def ordersNow : MutexOrders :=
  { ready := Order.seq_cst, readyFail := Order.seq_cst, subOk := Order.release, subFail := Order.relaxed, build := Order.acquire,
    unlockOk := Order.release, unlockFail := Order.relaxed, flagStore := Order.seq_cst, flagWait := Order.seq_cst }

/-- two `try_lock` contenders -/
def cfgTry : Cfg := { n := 2, rounds := fun a => if a < 2 then [Fl.tryLock] else [] }
/-- contender 0: `try_lock`, 1: `co_await lock()`, 2: blocking `lock().wait()` -/
def cfg3 : Cfg :=
  { n := 3, rounds := fun a => if a = 0 then [Fl.tryLock] else if a = 1 then [Fl.coAwait] else if a = 2 then [Fl.blocking] else [] }
/-- 0 locks, critical section, unlocks (fast path); 1 locks, critical section -/
def schedTry : List Nat := [0, 0, 0, 1, 1]
/-- 0 locks and runs its critical section; 1 (coroutine) fails `ready()`, subscribes (second CAS attempt) and is suspended;
0 unlocks: its CAS fails; 2 (blocking) fails `ready()`, constructs its `sync_awaiter`, subscribes: a request pushed between the failed
CAS and the exchange; 0: `build_queue(doorman)` exchange, loop, hand-over to 1 (resumed); 1: critical section, unlock: hand-over
to 2 (flag store); 2: `flag.wait` returns, critical section, unlock (fast path) -/
def sched3 : List Nat := [0, 0, 1, 1, 1, 0, 2, 2, 2, 2, 0, 0, 1, 1, 2, 2, 2]
/-- 0 locks; 1 (coroutine) fails `ready()`; 0 runs its critical section and unlocks (fast path); 1 subscribes, finds the mutex free,
`build_queue(self)`, critical section -/
def schedFree : List Nat := [0, 1, 0, 0, 1, 1, 1]

theorem sufficient_now : ordersNow.sufficient = true := by decide

theorem mutex_needs_unlock_release : (run { ordersNow with unlockOk := Order.relaxed } cfgTry schedTry).raced = true := by decide
theorem mutex_needs_ready_acquire : (run { ordersNow with ready := Order.relaxed } cfgTry schedTry).raced = true := by decide
theorem mutex_needs_subscribe_release : (run { ordersNow with subOk := Order.relaxed } cfg3 sched3).raced = true := by decide
/-- the seeded change `r5-c08-unlock-relaxed-build-queue`: `unlock`'s failing CAS acquires, the exchange of `build_queue` on the slow
path is relaxed — the request of contender 2, pushed between the two, is walked without synchronisation -/
theorem mutex_needs_build_acquire :
    (run { ordersNow with build := Order.relaxed, unlockFail := Order.acquire } cfg3 sched3).raced = true := by decide
/-- … the race is on the late request only: without it (contender 2 stays away until the hand-over is over) that table does not race -/
example : (run { ordersNow with build := Order.relaxed, unlockFail := Order.acquire } cfg3 [0, 0, 1, 1, 1, 0, 0, 0, 1, 1]).raced = false := by
  decide
/-- the exchange of a requester that found the mutex free is what orders it after the previous owners -/
theorem mutex_needs_build_acquire_found_free :
    (run { ordersNow with build := Order.relaxed } cfg3 schedFree).raced = true := by decide
theorem mutex_needs_flag_release : (run { ordersNow with flagStore := Order.relaxed } cfg3 sched3).raced = true := by decide
theorem mutex_needs_flag_acquire : (run { ordersNow with flagWait := Order.relaxed } cfg3 sched3).raced = true := by decide

/-- non-vacuity: on `sched3` all three contenders get through their critical sections in the order 0, 1, 2 — `unlock` takes the slow
path, the coroutine is resumed, the blocking waiter is woken through its flag — and nothing races -/
example : (run ordersNow cfg3 sched3).raced = false ∧ (run ordersNow cfg3 sched3).m.grantLog = [0, 1, 2]
    ∧ (run ordersNow cfg3 sched3).data.wr.1 = 2 ∧ (run ordersNow cfg3 sched3).m.req = [] := by decide

/-! ### what the machine sees of an order; general necessity of the CAS hand-over clauses

The machine looks at an order only through `isAcq` / `isRel` (a failing CAS and a wait only through `isAcq`, a plain store only
through `isRel`): `run_norm`.  For the two clauses of the pure CAS hand-over (`ready()` acquire, `unlock` release) the racing run is
exhibited for EVERY table that violates the clause (finite case analysis over the bits the witness schedule exercises); for the other
four clauses the witnesses are the `decide`d runs `mutex_needs_*` above (all other orders as in the source): the case analysis over
the seven orders their schedules exercise is out of reach of the elaborator's evaluator. -/

def Order.ofBits : Bool → Bool → Order
  | false, false => Order.relaxed
  | true, false => Order.acquire
  | false, true => Order.release
  | true, true => Order.acq_rel

theorem isAcq_ofBits (a r : Bool) : (Order.ofBits a r).isAcq = a := by cases a <;> cases r <;> rfl
theorem isRel_ofBits (a r : Bool) : (Order.ofBits a r).isRel = r := by cases a <;> cases r <;> rfl

/-- the same table up to what the machine can see of it -/
def MutexOrders.norm (o : MutexOrders) : MutexOrders :=
  { ready := Order.ofBits o.ready.isAcq o.ready.isRel, readyFail := Order.ofBits o.readyFail.isAcq false,
    subOk := Order.ofBits o.subOk.isAcq o.subOk.isRel, subFail := Order.ofBits o.subFail.isAcq false,
    build := Order.ofBits o.build.isAcq o.build.isRel,
    unlockOk := Order.ofBits o.unlockOk.isAcq o.unlockOk.isRel, unlockFail := Order.ofBits o.unlockFail.isAcq false,
    flagStore := Order.ofBits false o.flagStore.isRel, flagWait := Order.ofBits o.flagWait.isAcq false }

theorem relVc_congr {x y : Order} (h : x.isRel = y.isRel) : relVc x = relVc y := by
  funext c i; simp only [Clock.relVc_apply, h]
theorem acqVc_congr {x y : Order} (h : x.isAcq = y.isAcq) : acqVc x = acqVc y := by
  funext c m i; simp only [Clock.acqVc_apply, h]
theorem tickIf_congr {x y : Order} (h : x.isRel = y.isRel) : tickIf x = tickIf y := by
  funext c t i; simp only [Clock.tickIf_apply, h]

theorem rmw_congr {x y : Order} (h1 : x.isAcq = y.isAcq) (h2 : x.isRel = y.isRel) : rmw x = rmw y := by
  funext s a; simp only [rmw, relVc_congr h2, acqVc_congr h1, tickIf_congr h2]
theorem casFail_congr {x y : Order} (h1 : x.isAcq = y.isAcq) : casFail x = casFail y := by
  funext s a; simp only [casFail, acqVc_congr h1]
theorem flagStore_congr {x y : Order} (h2 : x.isRel = y.isRel) : flagStore x = flagStore y := by
  funext s a b; simp only [flagStore, relVc_congr h2, tickIf_congr h2]
theorem flagWait_congr {x y : Order} (h1 : x.isAcq = y.isAcq) : flagWait x = flagWait y := by
  funext s a; simp only [flagWait, acqVc_congr h1]

theorem step_norm (o : MutexOrders) (c : Cfg) : step o c = step o.norm c := by
  have e1 : rmw o.ready = rmw o.norm.ready := rmw_congr (isAcq_ofBits _ _).symm (isRel_ofBits _ _).symm
  have e2 : casFail o.readyFail = casFail o.norm.readyFail := casFail_congr (isAcq_ofBits _ _).symm
  have e3 : rmw o.subOk = rmw o.norm.subOk := rmw_congr (isAcq_ofBits _ _).symm (isRel_ofBits _ _).symm
  have e4 : casFail o.subFail = casFail o.norm.subFail := casFail_congr (isAcq_ofBits _ _).symm
  have e5 : rmw o.build = rmw o.norm.build := rmw_congr (isAcq_ofBits _ _).symm (isRel_ofBits _ _).symm
  have e6 : rmw o.unlockOk = rmw o.norm.unlockOk := rmw_congr (isAcq_ofBits _ _).symm (isRel_ofBits _ _).symm
  have e7 : casFail o.unlockFail = casFail o.norm.unlockFail := casFail_congr (isAcq_ofBits _ _).symm
  have e8 : flagStore o.flagStore = flagStore o.norm.flagStore := flagStore_congr (isRel_ofBits _ _).symm
  have e9 : flagWait o.flagWait = flagWait o.norm.flagWait := flagWait_congr (isAcq_ofBits _ _).symm
  funext s a
  simp only [step, instr, iTop, iSub, iBuild, iWait, iUnlock, iHand, iRelBuild, iRelHand, e1, e2, e3, e4, e5, e6, e7, e8, e9]

theorem run_norm (o : MutexOrders) (c : Cfg) (sched : List Nat) : run o c sched = run o.norm c sched := by
  unfold run; rw [step_norm]


/-- every order table whose `ready()` CAS does not acquire has a racing run, whatever the other eight orders are -/
theorem mutex_ready_acquire_necessary (o : MutexOrders) (h : o.ready.isAcq = false) : (run o cfgTry schedTry).raced = true := by
  rw [run_norm]
  obtain ⟨r, rf, so, sf, b, uo, uf, fs, fw⟩ := o
  simp only [MutexOrders.norm] at h ⊢
  simp only [h]
  generalize r.isRel = b1; generalize uo.isAcq = b2; generalize uo.isRel = b3
  cases b1 <;> cases b2 <;> cases b3 <;> rfl

/-- every order table whose `unlock` CAS does not release has a racing run, whatever the other eight orders are -/
theorem mutex_unlock_release_necessary (o : MutexOrders) (h : o.unlockOk.isRel = false) : (run o cfgTry schedTry).raced = true := by
  rw [run_norm]
  obtain ⟨r, rf, so, sf, b, uo, uf, fs, fw⟩ := o
  simp only [MutexOrders.norm] at h ⊢
  simp only [h]
  generalize r.isRel = b1; generalize uo.isAcq = b2; generalize r.isAcq = b3
  cases b1 <;> cases b2 <;> cases b3 <;> rfl

end Cocls.MutexClock
