/-
Micro-step model of `cocls::mutex` (mutex.h, after the `fix:` of `subscribe`), list level, with the per-thread
executor glue that says on which OS thread a coroutine contender's code runs.

`req`   — `_requests`: stack of request nodes (newest first) above a bottom marker: `[]` = nullptr (free),
          `[door]` = locked without pending requests, `[xk..x1, door]`, or `[xk..x1, node o]` when `o` found the
          mutex free and has not yet run `build_queue`.
`queue` — `_queue`: owner-private FIFO (head = next owner).

One agent = one contender (`sync`: runs on its own thread; `coro`: starts on its own thread, continues wherever it
is resumed).  `agentStep` executes an agent's plain code up to and including its next synchronising operation, or
up to a control transfer (finish / suspend / transfer).  `threadStep` composes agents into what an OS thread does
between two scheduling points of the baton harness (`harness/h_mutex.cpp`).
-/
namespace Cocls.Mutex

inductive Elem where
  | node (a : Nat) | door
  deriving DecidableEq, Repr, Inhabited

inductive Seen where
  | null | door | node (a : Nat)
  deriving DecidableEq, Repr, Inhabited

def seenOf : List Elem → Seen
  | [] => Seen.null
  | Elem.door :: _ => Seen.door
  | Elem.node a :: _ => Seen.node a

inductive Flavour where
  | lock      -- blocking `lock().wait()`
  | try_      -- `try_lock()`
  | co        -- `co_await lock()`
  deriving DecidableEq, Repr, Inhabited

inductive Rel where
  | x   -- `own.release()`, suspend point discarded
  | d   -- ownership destroyed
  | a   -- `co_await own.release()`
  deriving DecidableEq, Repr, Inhabited

structure Round where
  fl : Flavour
  rel : Rel
  deriving DecidableEq, Repr, Inhabited

inductive AKind where
  | sync | coro
  deriving DecidableEq, Repr, Inhabited

structure Cfg where
  n : Nat
  kind : Nat → AKind
  rounds : Nat → List Round

inductive Pc where
  | top                  -- start of a round: `ready()` CAS (or finish)
  | tryFail              -- try_lock failed
  | subInit              -- blocking flavour: construct the sync_awaiter, then subscribe
  | sub (prev : Seen)    -- publishing CAS with expected value `prev`
  | build                -- found the mutex free: `build_queue(self)`
  | parked               -- suspended, waiting for the grant
  | waitFlag | blocked   -- blocking waiter: `flag.wait(false)`
  | crit                 -- owner: enter the critical section
  | afterCs              -- leave it and start `unlock`
  | relBuild             -- unlock: fast path failed, `build_queue(doorman)`
  | relHand              -- unlock: hand over to the head of `_queue`
  | relDone              -- round finished
  | done
  deriving DecidableEq, Repr, Inhabited

inductive TMain where
  | syncBody | coroStart | coroFlush | finished
  deriving DecidableEq, Repr, Inhabited

inductive Ev where
  | cas (t a : Nat) (ok : Bool) (s d : Seen)
  | xchg (t a : Nat) (s d : Seen)
  | store (t a : Nat) (b : Nat) (k : Nat)
  | waitBlock (t a : Nat) (k : Nat)
  | waitPass (t a : Nat) (k : Nat)
  | csOp (t a : Nat)
  | fin (t : Nat)
  | cs (a r : Nat) (overlap : Bool)
  | tryFail (a r : Nat)
  | doneA (a : Nat)
  deriving DecidableEq, Repr, Inhabited

structure State where
  req : List Elem := []
  queue : List Nat := []
  flag : Nat → Bool := fun _ => false
  flagNo : Nat → Nat := fun _ => 0
  pc : Nat → Pc
  round : Nat → Nat := fun _ => 0
  incs : Nat := 0
  cur : Nat → Option Nat := fun _ => none
  rq : Nat → List Nat := fun _ => []
  tmain : Nat → TMain
  -- ghost
  grants : Nat → Nat := fun _ => 0       -- how many times agent a was given the lock
  stamp : Nat → Nat := fun _ => 0        -- arrival stamp of the agent's current request
  clock : Nat := 0                       -- number of published requests so far
  grantLog : List Nat := []              -- agents in the order they entered the critical section
  fails : Nat → Nat := fun _ => 0        -- how many `try_lock` rounds of agent a failed
  grantReqs : List (Nat × Nat) := []     -- requests (agent, round) in the order they were granted
  failReqs : List (Nat × Nat) := []      -- `try_lock` requests (agent, round) that failed

def upd {α} (f : Nat → α) (i : Nat) (v : α) : Nat → α := fun j => if j = i then v else f j

@[simp] theorem upd_same {α} (f : Nat → α) (i : Nat) (v : α) : upd f i v i = v := by simp [upd]
@[simp] theorem upd_other {α} (f : Nat → α) (i j : Nat) (v : α) (h : j ≠ i) : upd f i v j = f j := by
  simp [upd, h]

def init (c : Cfg) : State :=
  { pc := fun i => if i < c.n then Pc.top else Pc.done,
    tmain := fun i => if i < c.n then (if c.kind i = AKind.sync then TMain.syncBody else TMain.coroStart)
                      else TMain.finished }

def setPc (s : State) (a : Nat) (p : Pc) : State := { s with pc := upd s.pc a p }

/-- what an agent's activity ended with -/
inductive Outcome where
  | op          -- performed a synchronising operation: the thread's step ends here
  | blockedT    -- the thread blocks (blocking waiter)
  | finished    -- the agent's code ended
  | suspended   -- the coroutine suspended
  | continue_   -- control goes on without an operation (thread loop decides what runs next)
  deriving DecidableEq, Repr, Inhabited

def curRound (c : Cfg) (s : State) (a : Nat) : Option Round := (c.rounds a)[s.round a]?

/-- the nodes above the bottom marker, newest first -/
def nodesOf : List Elem → List Nat
  | [] => []
  | Elem.node a :: r => a :: nodesOf r
  | Elem.door :: _ => []

/-- hand the lock to the head of `_queue`; `a` is the releasing agent running on thread `t` -/
def handOver (c : Cfg) (s : State) (t a : Nat) : State × List Ev × Outcome :=
  match s.queue with
  | [] => (setPc s a Pc.relDone, [], Outcome.continue_)     -- unreachable under the invariant
  | b :: rest =>
    let s := { s with queue := rest, grants := upd s.grants b (s.grants b + 1),
                      grantReqs := s.grantReqs ++ [(b, s.round b)] }
    match c.kind b with
    | AKind.sync =>
        ({ setPc s a Pc.relDone with flag := upd s.flag b true }, [Ev.store t a b (s.flagNo b - 1)], Outcome.op)
    | AKind.coro =>
        let s := setPc s b Pc.crit
        match c.kind a with
        | AKind.sync =>
            -- normal mode: the next owner is resumed inline on this thread
            ({ setPc s a Pc.relDone with cur := upd s.cur t (some b) }, [], Outcome.continue_)
        | AKind.coro =>
            match (curRound c s a).map (·.rel) with
            | some Rel.a =>
                -- awaited suspend point: symmetric transfer to the next owner, the releasing coroutine is queued
                ({ setPc s a Pc.relDone with rq := upd s.rq t (s.rq t ++ [a]), cur := upd s.cur t (some b) },
                 [], Outcome.suspended)
            | _ =>
                -- coroutine mode: the next owner is appended to this thread's ready queue
                ({ setPc s a Pc.relDone with rq := upd s.rq t (s.rq t ++ [b]) }, [], Outcome.continue_)

/-- one activity of agent `a` on thread `t` -/
def agentStep (c : Cfg) (s : State) (t a : Nat) : State × List Ev × Outcome :=
  match s.pc a with
  | Pc.done => (s, [], Outcome.finished)
  | Pc.parked => (s, [], Outcome.suspended)
  | Pc.top =>
      match curRound c s a with
      | none => (setPc s a Pc.done, [Ev.doneA a], Outcome.finished)
      | some r =>
        match s.req with
        | [] => ({ setPc s a Pc.crit with req := [Elem.door], grants := upd s.grants a (s.grants a + 1),
                                          grantReqs := s.grantReqs ++ [(a, s.round a)] },
                 [Ev.cas t a true Seen.null Seen.door], Outcome.op)
        | _ =>
          (setPc s a (match r.fl with
              | Flavour.try_ => Pc.tryFail
              | Flavour.lock => Pc.subInit
              | Flavour.co => Pc.sub Seen.null), [Ev.cas t a false (seenOf s.req) Seen.door], Outcome.op)
  | Pc.tryFail =>
      ({ setPc s a Pc.top with round := upd s.round a (s.round a + 1), fails := upd s.fails a (s.fails a + 1),
                               failReqs := s.failReqs ++ [(a, s.round a)] },
       [Ev.tryFail a (s.round a)], Outcome.continue_)
  | Pc.subInit =>
      ({ setPc s a (Pc.sub Seen.null) with flag := upd s.flag a false, flagNo := upd s.flagNo a (s.flagNo a + 1) },
       [], Outcome.continue_)
  | Pc.sub prev =>
      if seenOf s.req = prev then
        -- a coroutine published behind an owner is parked from this operation on: the rest of its thread's
        -- code (returning from `await_suspend`) does not belong to it any more, it may already run elsewhere
        ({ setPc s a (if prev = Seen.null then Pc.build
                      else match c.kind a with
                        | AKind.sync => Pc.waitFlag
                        | AKind.coro => Pc.parked) with
            req := Elem.node a :: s.req, stamp := upd s.stamp a s.clock, clock := s.clock + 1,
            cur := if prev ≠ Seen.null ∧ c.kind a = AKind.coro then upd s.cur t none else s.cur },
         [Ev.cas t a true (seenOf s.req) (Seen.node a)], Outcome.op)
      else (setPc s a (Pc.sub (seenOf s.req)), [Ev.cas t a false (seenOf s.req) (Seen.node a)], Outcome.op)
  | Pc.build =>
      -- `build_queue(self)`: exchange with the doorman, move everything above `self` to `_queue` (reversed)
      ({ setPc s a Pc.crit with req := [Elem.door], queue := ((nodesOf s.req).filter (· ≠ a)).reverse ++ s.queue,
                                 grants := upd s.grants a (s.grants a + 1),
                                 grantReqs := s.grantReqs ++ [(a, s.round a)] },
       [Ev.xchg t a (seenOf s.req) Seen.door], Outcome.op)
  | Pc.waitFlag =>
      if s.flag a then (setPc s a Pc.crit, [Ev.waitPass t a (s.flagNo a - 1)], Outcome.op)
      else (setPc s a Pc.blocked, [Ev.waitBlock t a (s.flagNo a - 1)], Outcome.blockedT)
  | Pc.blocked => (setPc s a Pc.crit, [Ev.waitPass t a (s.flagNo a - 1)], Outcome.op)
  | Pc.crit =>
      ({ setPc s a Pc.afterCs with incs := s.incs + 1, grantLog := s.grantLog ++ [a] },
       [Ev.cs a (s.round a) (s.incs > 0), Ev.csOp t a], Outcome.op)
  | Pc.afterCs =>
      let s := { s with incs := s.incs - 1 }
      match s.queue with
      | [] =>
          if s.req = [Elem.door] then ({ setPc s a Pc.relDone with req := [] }, [Ev.cas t a true Seen.door Seen.null], Outcome.op)
          else (setPc s a Pc.relBuild, [Ev.cas t a false (seenOf s.req) Seen.null], Outcome.op)
      | _ => handOver c s t a
  | Pc.relBuild =>
      ({ setPc s a Pc.relHand with req := [Elem.door], queue := (nodesOf s.req).reverse ++ s.queue },
       [Ev.xchg t a (seenOf s.req) Seen.door], Outcome.op)
  | Pc.relHand => handOver c s t a
  | Pc.relDone =>
      ({ setPc s a Pc.top with round := upd s.round a (s.round a + 1) }, [], Outcome.continue_)

/-- is the thread able to run? -/
def enabled (s : State) (t : Nat) : Bool :=
  match s.tmain t with
  | TMain.finished => false
  | _ =>
    match s.cur t with
    | some _ => true
    | none =>
      match s.rq t with
      | _ :: _ => true
      | [] => if s.pc t = Pc.blocked ∧ s.tmain t = TMain.syncBody then s.flag t else true

/-- what OS thread `t` does between two scheduling points -/
def threadStep (c : Cfg) : Nat → State → Nat → State × List Ev
  | 0, s, _ => (s, [])
  | fuel + 1, s, t =>
    match s.cur t with
    | some b =>
        let (s1, e1, o) := agentStep c s t b
        match o with
        | Outcome.op => (s1, e1)
        | Outcome.blockedT => (s1, e1)
        | Outcome.finished | Outcome.suspended =>
            -- the coroutine left this thread (unless a symmetric transfer installed another one)
            let s2 := if s1.cur t = some b then { s1 with cur := upd s1.cur t none } else s1
            let (s3, e3) := threadStep c fuel s2 t
            (s3, e1 ++ e3)
        | Outcome.continue_ =>
            let (s3, e3) := threadStep c fuel s1 t
            (s3, e1 ++ e3)
    | none =>
      match s.rq t with
      | b :: rest =>
          threadStep c fuel { s with rq := upd s.rq t rest, cur := upd s.cur t (some b) } t
      | [] =>
        match s.tmain t with
        | TMain.finished => (s, [])
        | TMain.coroStart =>
            threadStep c fuel { s with tmain := upd s.tmain t TMain.coroFlush, cur := upd s.cur t (some t) } t
        | TMain.coroFlush => ({ s with tmain := upd s.tmain t TMain.finished }, [Ev.fin t])
        | TMain.syncBody =>
            let (s1, e1, o) := agentStep c s t t
            match o with
            | Outcome.op => (s1, e1)
            | Outcome.blockedT => (s1, e1)
            | Outcome.finished => ({ s1 with tmain := upd s1.tmain t TMain.finished }, e1 ++ [Ev.fin t])
            | Outcome.suspended =>
                let (s3, e3) := threadStep c fuel s1 t
                (s3, e1 ++ e3)
            | Outcome.continue_ =>
                let (s3, e3) := threadStep c fuel s1 t
                (s3, e1 ++ e3)

end Cocls.Mutex
