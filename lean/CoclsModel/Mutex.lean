/-
Micro-step model of `cocls::mutex` (mutex.h, after the `fix:` of `subscribe`), list level, with the per-thread
executor glue that says on which OS thread a coroutine contender's code runs.

`req`   — `_requests`: stack of request nodes (newest first) above a bottom marker: `[]` = nullptr (free),
          `[door]` = locked without pending requests, `[xk..x1, door]`, or `[xk..x1, node o]` when `o` found the
          mutex free and has not yet run `build_queue`.
`queue` — `_queue`: owner-private FIFO (head = next owner).

One agent = one contender (`sync`: runs on its own thread; `coro`: starts on its own thread, continues wherever it
is resumed).  Contenders work through `mutex::ownership` objects: `held o` says that ownership object `o` is armed for
the mutex (object `a` = agent `a`'s own object, object `c.n` = the slot shared by all contenders); a grant is stored
into the round's object, the mutex is given up through that object (`release()`, destruction, move into a temporary
that is destroyed, move-assignment of the ownership of the agent's private auxiliary mutex over it).  `agentStep` executes an agent's plain code up to and including its next synchronising operation, or
up to a control transfer (finish / suspend / transfer).  `threadStep` composes agents into what an OS thread does
between two scheduling points of the baton harness (`harness/h_mutex.cpp`).
-/
namespace Cocls.Mutex

/-- `node a k`: an awaiter of agent `a`; `k` identifies its address among the awaiters of `a` (a stale expected value of
    a publishing CAS can meet a *new* request of the same agent at the same address: the CAS then succeeds) -/
inductive Elem where
  | node (a : Nat) (k : Nat) | door
  deriving DecidableEq, Repr, Inhabited

inductive Seen where
  | null | door | node (a : Nat) (k : Nat)
  deriving DecidableEq, Repr, Inhabited

def seenOf : List Elem → Seen
  | [] => Seen.null
  | Elem.door :: _ => Seen.door
  | Elem.node a k :: _ => Seen.node a k

inductive Flavour where
  | lock      -- blocking `lock().wait()` / `ownership own(mx.lock())` / `force_wait()`; blocks the OS thread it runs on
              -- (for a `coro` agent: issued by an ordinary function called from the running coroutine)
  | try_      -- `try_lock()`
  | co        -- `co_await lock()`
  | cb        -- callback awaiter registered with `co_awaiter<mutex>::subscribe()`; the grant runs the callback inline
  deriving DecidableEq, Repr, Inhabited

inductive Rel where
  | x   -- `own.release()`, suspend point discarded
  | d   -- ownership destroyed (shared slot: overwritten by an empty ownership)
  | a   -- `co_await own.release()`
  | g   -- hand-over-hand: the ownership of the agent's auxiliary mutex is move-assigned over the held one
  | m   -- moved into a temporary ownership (move construction) which is destroyed
  deriving DecidableEq, Repr, Inhabited

structure Round where
  fl : Flavour
  rel : Rel
  shared : Bool := false   -- the ownership is kept in the slot shared by all contenders
  deriving DecidableEq, Repr, Inhabited

inductive AKind where
  | sync | coro
  deriving DecidableEq, Repr, Inhabited

structure Cfg where
  n : Nat
  kind : Nat → AKind
  rounds : Nat → List Round

inductive Pc where
  | top                  -- start of a round: `ready()` CAS (or finish)
  | tryFail              -- try_lock failed
  | subInit              -- blocking flavour: construct the sync_awaiter, then subscribe
  | sub (prev : Seen)    -- publishing CAS with expected value `prev`
  | build                -- found the mutex free: `build_queue(self)`
  | parked               -- suspended, waiting for the grant
  | waitFlag | blocked   -- blocking waiter: `flag.wait(false)`
  | crit                 -- owner: store the ownership into the round's object, enter the critical section
  | critS                -- owner whose ownership was already stored by its callback: enter the critical section
  | afterCs              -- leave it and start `unlock` (rel `g`: lock the auxiliary mutex first)
  | asg                  -- rel `g`: move-assign the auxiliary ownership over the held one: start `unlock`
  | relBuild             -- unlock: fast path failed, `build_queue(doorman)`
  | relHand              -- unlock: hand over to the head of `_queue`
  | relDone              -- round finished
  | done
  deriving DecidableEq, Repr, Inhabited

inductive TMain where
  | syncBody | coroStart | coroFlush | finished
  deriving DecidableEq, Repr, Inhabited

inductive Ev where
  | cas (t a : Nat) (ok : Bool) (s d : Seen)
  | xchg (t a : Nat) (s d : Seen)
  | store (t a : Nat) (ft : Nat) (k : Nat)
  | waitBlock (t a : Nat) (ft : Nat) (k : Nat)
  | waitPass (t a : Nat) (ft : Nat) (k : Nat)
  | cbBlock (t a : Nat)
  | cbPass (t a : Nat)
  | auxCas (t a : Nat) (lock : Bool)
  | csOp (t a : Nat)
  | fin (t : Nat)
  | cs (a r : Nat) (overlap : Bool)
  | tryFail (a r : Nat)
  | doneA (a : Nat)
  deriving DecidableEq, Repr, Inhabited

structure State where
  req : List Elem := []
  queue : List Nat := []
  flag : Nat → Bool := fun _ => false
  flagNo : Nat → Nat := fun _ => 0         -- per OS thread: number of `sync_awaiter` flags constructed on it (names)
  flagTh : Nat → Nat := fun _ => 0         -- per agent: the thread that constructed its current flag
  flagIx : Nat → Nat := fun _ => 0         -- per agent: the index of its current flag on that thread
  held : Nat → Bool := fun _ => false      -- ownership object o is armed for the mutex
  aux : Nat → Bool := fun _ => false       -- agent a's private auxiliary mutex is locked
  pc : Nat → Pc
  round : Nat → Nat := fun _ => 0
  incs : Nat := 0
  cur : Nat → Option Nat := fun _ => none
  rq : Nat → List Nat := fun _ => []
  tmain : Nat → TMain
  -- ghost
  grants : Nat → Nat := fun _ => 0       -- how many times agent a was given the lock
  stamp : Nat → Nat := fun _ => 0        -- arrival stamp of the agent's current request
  clock : Nat := 0                       -- number of published requests so far
  grantLog : List Nat := []              -- agents in the order they entered the critical section
  fails : Nat → Nat := fun _ => 0        -- how many `try_lock` rounds of agent a failed
  grantReqs : List (Nat × Nat) := []     -- requests (agent, round) in the order they were granted
  failReqs : List (Nat × Nat) := []      -- `try_lock` requests (agent, round) that failed
  bad : Bool := false                    -- an ownership was stored into an object that was still armed (the code would
                                         -- run the deleter, i.e. `unlock`, there); proved unreachable: `Inv.noBad`

def upd {α} (f : Nat → α) (i : Nat) (v : α) : Nat → α := fun j => if j = i then v else f j

@[simp] theorem upd_same {α} (f : Nat → α) (i : Nat) (v : α) : upd f i v i = v := by simp [upd]
@[simp] theorem upd_other {α} (f : Nat → α) (i j : Nat) (v : α) (h : j ≠ i) : upd f i v j = f j := by
  simp [upd, h]

def init (c : Cfg) : State :=
  { pc := fun i => if i < c.n then Pc.top else Pc.done,
    tmain := fun i => if i < c.n then (if c.kind i = AKind.sync then TMain.syncBody else TMain.coroStart)
                      else TMain.finished }

def setPc (s : State) (a : Nat) (p : Pc) : State := { s with pc := upd s.pc a p }

/-- what an agent's activity ended with -/
inductive Outcome where
  | op          -- performed a synchronising operation: the thread's step ends here
  | blockedT    -- the thread blocks (blocking waiter)
  | finished    -- the agent's code ended
  | suspended   -- the coroutine suspended
  | continue_   -- control goes on without an operation (thread loop decides what runs next)
  deriving DecidableEq, Repr, Inhabited

def curRound (c : Cfg) (s : State) (a : Nat) : Option Round := (c.rounds a)[s.round a]?
def flOf (c : Cfg) (s : State) (a : Nat) : Option Flavour := (curRound c s a).map (·.fl)
def relOf (c : Cfg) (s : State) (a : Nat) : Option Rel := (curRound c s a).map (·.rel)
/-- address of the awaiter of `a`'s current request: the `co_await` temporary in the coroutine frame and the callback
    awaiter in the contender's frame are at the same place in every round, a `sync_awaiter` of a blocking lock is not
    (the harness pads the stack by the round number) -/
def keyOf (c : Cfg) (s : State) (a : Nat) : Nat :=
  match flOf c s a with
  | some Flavour.co => 0
  | some Flavour.cb => 0
  | _ => s.round a + 1
/-- the ownership object agent `a` uses in its current round -/
def objOf (c : Cfg) (s : State) (a : Nat) : Nat :=
  match curRound c s a with
  | some r => if r.shared then c.n else a
  | none => a

/-- the nodes above the bottom marker, newest first -/
def nodesOf : List Elem → List Nat
  | [] => []
  | Elem.node a _ :: r => a :: nodesOf r
  | Elem.door :: _ => []

/-- hand the lock to the head of `_queue`; `a` is the releasing agent running on thread `t` -/
def handOver (c : Cfg) (s : State) (t a : Nat) : State × List Ev × Outcome :=
  match s.queue with
  | [] => (setPc s a Pc.relDone, [], Outcome.continue_)     -- unreachable under the invariant
  | b :: rest =>
    let s := { s with queue := rest, grants := upd s.grants b (s.grants b + 1),
                      grantReqs := s.grantReqs ++ [(b, s.round b)] }
    match flOf c s b with
    | some Flavour.co =>
        let s := setPc s b Pc.crit
        match c.kind a with
        | AKind.sync =>
            -- normal mode: the next owner is resumed inline on this thread
            ({ setPc s a Pc.relDone with cur := upd s.cur t (some b) }, [], Outcome.continue_)
        | AKind.coro =>
            match relOf c s a with
            | some Rel.a =>
                -- awaited suspend point: symmetric transfer to the next owner, the releasing coroutine is queued
                ({ setPc s a Pc.relDone with rq := upd s.rq t (s.rq t ++ [a]), cur := upd s.cur t (some b) },
                 [], Outcome.suspended)
            | _ =>
                -- coroutine mode: the next owner is appended to this thread's ready queue
                ({ setPc s a Pc.relDone with rq := upd s.rq t (s.rq t ++ [b]) }, [], Outcome.continue_)
    | some Flavour.cb =>
        -- the callback runs inline, inside `unlock`: it stores the new owner's ownership into its object
        ({ setPc s a Pc.relDone with flag := upd s.flag b true, held := upd s.held (objOf c s b) true,
                                     bad := s.bad || s.held (objOf c s b) }, [], Outcome.continue_)
    | _ =>
        ({ setPc s a Pc.relDone with flag := upd s.flag b true }, [Ev.store t a (s.flagTh b) (s.flagIx b)], Outcome.op)

/-- start of `unlock`, entered through the round's ownership object (`release()`, deleter) -/
def unlockStart (c : Cfg) (s : State) (t a : Nat) : State × List Ev × Outcome :=
  if s.held (objOf c s a) = false then
    (setPc s a Pc.relDone, [], Outcome.continue_)      -- the object is not armed: nothing is released (unreachable)
  else
    let s := { s with held := upd s.held (objOf c s a) false }
    match s.queue with
    | [] =>
        if s.req = [Elem.door] then ({ setPc s a Pc.relDone with req := [] }, [Ev.cas t a true Seen.door Seen.null], Outcome.op)
        else (setPc s a Pc.relBuild, [Ev.cas t a false (seenOf s.req) Seen.null], Outcome.op)
    | _ => handOver c s t a

/-- one activity of agent `a` on thread `t` -/
def agentStep (c : Cfg) (s : State) (t a : Nat) : State × List Ev × Outcome :=
  match s.pc a with
  | Pc.done => (s, [], Outcome.finished)
  | Pc.parked => (s, [], Outcome.suspended)
  | Pc.top =>
      match curRound c s a with
      | none => (setPc s a Pc.done, [Ev.doneA a], Outcome.finished)
      | some r =>
        match s.req with
        | [] => ({ setPc s a Pc.crit with req := [Elem.door], grants := upd s.grants a (s.grants a + 1),
                                          grantReqs := s.grantReqs ++ [(a, s.round a)] },
                 [Ev.cas t a true Seen.null Seen.door], Outcome.op)
        | _ =>
          (setPc s a (match r.fl with
              | Flavour.try_ => Pc.tryFail
              | Flavour.lock => Pc.subInit
              | Flavour.cb => Pc.subInit
              | Flavour.co => Pc.sub Seen.null), [Ev.cas t a false (seenOf s.req) Seen.door], Outcome.op)
  | Pc.tryFail =>
      ({ setPc s a Pc.top with round := upd s.round a (s.round a + 1), fails := upd s.fails a (s.fails a + 1),
                               failReqs := s.failReqs ++ [(a, s.round a)] },
       [Ev.tryFail a (s.round a)], Outcome.continue_)
  | Pc.subInit =>
      match flOf c s a with
      | some Flavour.cb => ({ setPc s a (Pc.sub Seen.null) with flag := upd s.flag a false }, [], Outcome.continue_)
      | _ =>
        -- a `sync_awaiter` is constructed on this thread
        ({ setPc s a (Pc.sub Seen.null) with flag := upd s.flag a false, flagTh := upd s.flagTh a t,
                                             flagIx := upd s.flagIx a (s.flagNo t),
                                             flagNo := upd s.flagNo t (s.flagNo t + 1) },
         [], Outcome.continue_)
  | Pc.sub prev =>
      if seenOf s.req = prev then
        -- a coroutine published behind an owner is parked from this operation on: the rest of its thread's
        -- code (returning from `await_suspend`) does not belong to it any more, it may already run elsewhere
        ({ setPc s a (if prev = Seen.null then Pc.build
                      else match flOf c s a with
                        | some Flavour.co => Pc.parked
                        | _ => Pc.waitFlag) with
            req := Elem.node a (keyOf c s a) :: s.req, stamp := upd s.stamp a s.clock, clock := s.clock + 1,
            cur := if prev ≠ Seen.null ∧ flOf c s a = some Flavour.co then upd s.cur t none else s.cur },
         [Ev.cas t a true (seenOf s.req) (Seen.node a (keyOf c s a))], Outcome.op)
      else (setPc s a (Pc.sub (seenOf s.req)), [Ev.cas t a false (seenOf s.req) (Seen.node a (keyOf c s a))], Outcome.op)
  | Pc.build =>
      -- `build_queue(self)`: exchange with the doorman, move everything above `self` to `_queue` (reversed)
      ({ setPc s a Pc.crit with req := [Elem.door], queue := ((nodesOf s.req).filter (· ≠ a)).reverse ++ s.queue,
                                 grants := upd s.grants a (s.grants a + 1),
                                 grantReqs := s.grantReqs ++ [(a, s.round a)] },
       [Ev.xchg t a (seenOf s.req) Seen.door], Outcome.op)
  | Pc.waitFlag =>
      if flOf c s a = some Flavour.cb then
        if s.flag a then (setPc s a Pc.critS, [Ev.cbPass t a], Outcome.op)
        else (setPc s a Pc.blocked, [Ev.cbBlock t a], Outcome.blockedT)
      else
        if s.flag a then (setPc s a Pc.crit, [Ev.waitPass t a (s.flagTh a) (s.flagIx a)], Outcome.op)
        else (setPc s a Pc.blocked, [Ev.waitBlock t a (s.flagTh a) (s.flagIx a)], Outcome.blockedT)
  | Pc.blocked =>
      if flOf c s a = some Flavour.cb then (setPc s a Pc.critS, [Ev.cbPass t a], Outcome.op)
      else (setPc s a Pc.crit, [Ev.waitPass t a (s.flagTh a) (s.flagIx a)], Outcome.op)
  | Pc.crit =>
      ({ setPc s a Pc.afterCs with incs := s.incs + 1, grantLog := s.grantLog ++ [a],
                                   held := upd s.held (objOf c s a) true, bad := s.bad || s.held (objOf c s a) },
       [Ev.cs a (s.round a) (s.incs > 0), Ev.csOp t a], Outcome.op)
  | Pc.critS =>
      ({ setPc s a Pc.afterCs with incs := s.incs + 1, grantLog := s.grantLog ++ [a] },
       [Ev.cs a (s.round a) (s.incs > 0), Ev.csOp t a], Outcome.op)
  | Pc.afterCs =>
      let s := { s with incs := s.incs - 1 }
      match relOf c s a with
      | some Rel.g => ({ setPc s a Pc.asg with aux := upd s.aux a true }, [Ev.auxCas t a true], Outcome.op)
      | _ => unlockStart c s t a
  | Pc.asg => unlockStart c s t a
  | Pc.relBuild =>
      ({ setPc s a Pc.relHand with req := [Elem.door], queue := (nodesOf s.req).reverse ++ s.queue },
       [Ev.xchg t a (seenOf s.req) Seen.door], Outcome.op)
  | Pc.relHand => handOver c s t a
  | Pc.relDone =>
      match relOf c s a with
      | some Rel.g =>
          -- the object (holding the auxiliary mutex now) is destroyed at the end of the round
          ({ setPc s a Pc.top with round := upd s.round a (s.round a + 1), aux := upd s.aux a false },
           [Ev.auxCas t a false], Outcome.op)
      | _ => ({ setPc s a Pc.top with round := upd s.round a (s.round a + 1) }, [], Outcome.continue_)

/-- is the thread able to run? -/
def enabled (s : State) (t : Nat) : Bool :=
  match s.tmain t with
  | TMain.finished => false
  | _ =>
    match s.cur t with
    | some b => if s.pc b = Pc.blocked then s.flag b else true   -- a blocking lock inside a coroutine blocks the thread
    | none =>
      match s.rq t with
      | _ :: _ => true
      | [] => if s.pc t = Pc.blocked ∧ s.tmain t = TMain.syncBody then s.flag t else true

/-- what OS thread `t` does between two scheduling points -/
def threadStep (c : Cfg) : Nat → State → Nat → State × List Ev
  | 0, s, _ => (s, [])
  | fuel + 1, s, t =>
    match s.cur t with
    | some b =>
        let (s1, e1, o) := agentStep c s t b
        match o with
        | Outcome.op => (s1, e1)
        | Outcome.blockedT => (s1, e1)
        | Outcome.finished | Outcome.suspended =>
            -- the coroutine left this thread (unless a symmetric transfer installed another one)
            let s2 := if s1.cur t = some b then { s1 with cur := upd s1.cur t none } else s1
            let (s3, e3) := threadStep c fuel s2 t
            (s3, e1 ++ e3)
        | Outcome.continue_ =>
            let (s3, e3) := threadStep c fuel s1 t
            (s3, e1 ++ e3)
    | none =>
      match s.rq t with
      | b :: rest =>
          threadStep c fuel { s with rq := upd s.rq t rest, cur := upd s.cur t (some b) } t
      | [] =>
        match s.tmain t with
        | TMain.finished => (s, [])
        | TMain.coroStart =>
            threadStep c fuel { s with tmain := upd s.tmain t TMain.coroFlush, cur := upd s.cur t (some t) } t
        | TMain.coroFlush => ({ s with tmain := upd s.tmain t TMain.finished }, [Ev.fin t])
        | TMain.syncBody =>
            let (s1, e1, o) := agentStep c s t t
            match o with
            | Outcome.op => (s1, e1)
            | Outcome.blockedT => (s1, e1)
            | Outcome.finished => ({ s1 with tmain := upd s1.tmain t TMain.finished }, e1 ++ [Ev.fin t])
            | Outcome.suspended =>
                let (s3, e3) := threadStep c fuel s1 t
                (s3, e1 ++ e3)
            | Outcome.continue_ =>
                let (s3, e3) := threadStep c fuel s1 t
                (s3, e1 ++ e3)

end Cocls.Mutex
