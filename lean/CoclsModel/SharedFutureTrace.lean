import CoclsModel.SharedFutureProofs
/-!
Consequences of the shared_future invariant: life time of the state, quiescence, no lost wake-up, and the tie between
the ghost counters and the printed event trace (every observation is the single result).
-/
set_option linter.unusedSimpArgs false
namespace Cocls.SharedFuture
variable {c : Cfg} {s : State} {t : Nat}

/-! ## consequences of the invariant (state level) -/

theorem inv_alive_pending (h : Inv c s) (hp : s.slot ≠ Slot.ready) : s.freed = 0 ∧ 1 ≤ s.refs := by
  rcases h.alive hp with h1 | h1
  · have := alive_of_tracer h h1; exact ⟨this.2, this.1⟩
  · cases hq : s.pc 0 with
    | cRun is =>
        have := alive_of_held h (t := 0) (by have := (h.aCtor 0 is hq).1; omega)
        exact ⟨this.2, this.1⟩
    | _ => simp [hq, isCtor] at h1

theorem inv_freed_le_one (h : Inv c s) : s.freed ≤ 1 := by
  rw [h.freedIff]; split <;> omega

/-- every thread has finished -/
def Quiescent (c : Cfg) (s : State) : Prop := ∀ t, t < c.n → s.pc t = Pc.done

/-- a promise-carrying configuration has a resolver thread -/
def HasResolver (c : Cfg) : Prop := c.mode.hasPromise = true → 0 < c.rtid ∧ c.rtid < c.n

theorem Quiescent.all (hq : Quiescent c s) (h : Inv c s) (t : Nat) : s.pc t = Pc.done := by
  by_cases ht : t < c.n
  · exact hq t ht
  · have := h.pcok t
    cases hpc : s.pc t <;> simp [hpc, pcOK] at this <;> first | rfl | omega

theorem quiescent_ready (hq : Quiescent c s) (h : Inv c s) (hr : HasResolver c) : s.slot = Slot.ready := by
  cases hp : c.mode.hasPromise
  · exact (h.nopromise hp).2
  · have := hr hp
    apply h.resolved c.rtid ((kind_res_iff c c.rtid).2 ⟨by omega, rfl⟩) this.2
    rw [hq c.rtid this.2]; rfl

theorem quiescent_wacts (hq : Quiescent c s) (h : Inv c s) : wacts c s = [] := by
  unfold wacts; rw [hq.all h]; rfl

theorem quiescent_facts (hq : Quiescent c s) (h : Inv c s) (hr : HasResolver c) :
    (∀ x, s.observed x = if s.awaited x then 1 else 0) ∧ (∀ x, s.woken x = if s.subscribed x then 1 else 0) ∧
    (∀ x, s.ctx x = false) ∧ s.tracerRef = false ∧ (∀ x, s.held x = 0) := by
  have hs := quiescent_ready hq h hr
  have hw := quiescent_wacts hq h
  have hch : chainOf s.slot = [] := by rw [hs]; rfl
  have hobs : ∀ x, s.observed x = if s.awaited x then 1 else 0 := by
    intro x
    have := h.obsv x
    rw [hw, hch, hq.all h x] at this
    simpa [inflight, cntO] using this
  refine ⟨hobs, ?_, ?_, ?_, ?_⟩
  · intro x
    have := h.wake x
    rw [hw, hch] at this
    simpa [cntW] using this
  · intro x
    cases hc : s.ctx x
    · rfl
    · have := (h.ctxIff x).1 hc
      have h2 := hobs x
      rw [this.1] at h2
      simp at h2; omega
  · have := h.tracerCnt
    rw [hw, hch] at this
    cases hq : s.tracerRef
    · rfl
    · simp [hq, cntRel] at this
  · intro x; exact h.aDone x (hq.all h x)

theorem quiescent_freed (hq : Quiescent c s) (h : Inv c s) (hr : HasResolver c) : s.freed = 1 ∧ s.refs = 0 := by
  obtain ⟨_, _, hc, ht, hh⟩ := quiescent_facts hq h hr
  have hnil : s.holders = [] := by
    apply List.eq_nil_iff_forall_not_mem.2
    intro x hx
    have hpos : 0 < s.holders.count x := List.count_pos_iff.2 hx
    cases x with
    | thread y => have := h.hThread y; rw [hh y] at this; omega
    | ctx y => have := h.hCtx y; simp [hc y] at this; omega
    | tracer => have := h.hTracer; simp [ht] at this; omega
  have hr0 : s.refs = 0 := by rw [h.refsLen, hnil]; rfl
  exact ⟨by rw [h.freedIff, hr0]; rfl, hr0⟩

/-- after the construction and while pending the tracer sits at the bottom of the chain -/
theorem inv_tracer_in_chain (h : Inv c s) (hp : s.slot ≠ Slot.ready) (hc : s.constructed = true) :
    Node.tracer ∈ chainOf s.slot ∧ (chainOf s.slot).getLast? = some Node.tracer ∧ (chainOf s.slot).count Node.tracer = 1 := by
  have htr : s.tracerRef = true := by
    rcases h.alive hp with h1 | h1
    · exact h1
    · cases hq : s.pc 0 with
      | cRun is => have := (h.aCtor 0 is hq).2.1; simp [hc] at this
      | _ => simp [hq, isCtor] at h1
  have hw : wacts c s = [] := by
    unfold wacts
    cases hq : s.pc c.rtid with
    | rRun a => exact absurd (h.aRun _ _ hq).1 hp
    | _ => rfl
  have := h.tracerCnt
  rw [hw, htr] at this
  simp [cntRel] at this
  have hm : Node.tracer ∈ chainOf s.slot := List.count_pos_iff.1 (by omega)
  exact ⟨hm, h.tracerLast hm, this⟩

/-! ## the event trace: accounting of the ghost counters (definitional, no invariant needed) -/

/-- observation event of the await of thread `y` (peeks are not awaits) -/
def isAwObs (y : Nat) : Ev → Bool
  | Ev.obs x k _ => x == y && k != WK.peek
  | _ => false

def isFreedEv : Ev → Bool
  | Ev.freed _ => true
  | _ => false

def isObsEv : Ev → Bool
  | Ev.obs _ _ _ => true
  | _ => false

/-- the events account for the change of the counters `observed` and `freed` -/
def Acc (s s' : State) (evs : List Ev) : Prop :=
  (∀ y, evs.countP (isAwObs y) + s.observed y = s'.observed y) ∧ evs.countP isFreedEv + s.freed = s'.freed

theorem Acc.refl (s : State) : Acc s s [] := ⟨fun _ => by simp, by simp⟩

theorem Acc.trans {s s1 s2 : State} {e1 e2 : List Ev} (h1 : Acc s s1 e1) (h2 : Acc s1 s2 e2) : Acc s s2 (e1 ++ e2) := by
  refine ⟨fun y => ?_, ?_⟩
  · have a := h1.1 y; have b := h2.1 y; rw [List.countP_append]; omega
  · have a := h1.2; have b := h2.2; rw [List.countP_append]; omega

theorem Acc.of_eq {s s' : State} {evs : List Ev} (ho : s'.observed = s.observed) (hf : s'.freed = s.freed)
    (h1 : ∀ y, evs.countP (isAwObs y) = 0) (h2 : evs.countP isFreedEv = 0) : Acc s s' evs :=
  ⟨fun y => by rw [h1 y, ho]; omega, by rw [h2, hf]; omega⟩

theorem Acc.setPc {s s' : State} {evs : List Ev} (h : Acc s s' evs) (t : Nat) (p : Pc) : Acc s (setPc s' t p) evs := h

theorem acc_dropRef (s : State) (t : Nat) (x : Holder) : Acc s (dropRef s t x).1 (dropRef s t x).2 := by
  unfold dropRef
  split
  · exact ⟨fun y => by simp [touch, isAwObs], by simp [touch, isFreedEv]; omega⟩
  · exact ⟨fun y => by simp [touch], by simp [touch]⟩

theorem acc_dropH (s : State) (t : Nat) : Acc s (dropH s t).1 (dropH s t).2 := by
  have := acc_dropRef s t (Holder.thread t)
  exact this

theorem acc_dropAll (t n : Nat) : ∀ s : State, Acc s (dropAll t n s).1 (dropAll t n s).2 := by
  induction n with
  | zero => intro s; exact Acc.refl s
  | succ n ih => intro s; simp only [dropAll]; exact (acc_dropH s t).trans (ih _)

theorem acc_endThread (s : State) (t : Nat) : Acc s (endThread s t).1 (endThread s t).2 := by
  unfold endThread
  have h1 := acc_dropAll t (s.held t) s
  have h2 : Acc (dropAll t (s.held t) s).1 (setPc (dropAll t (s.held t) s).1 t Pc.done) [Ev.fin t] :=
    Acc.of_eq rfl rfl (fun _ => by simp [isAwObs]) (by simp [isFreedEv])
  exact h1.trans h2

theorem acc_obsStep (s : State) (t x : Nat) (k : WK) (sn : Seen) : Acc s (obsStep s t x k sn).1 (obsStep s t x k sn).2 := by
  unfold obsStep
  split
  · rename_i hk
    have hkp : k ≠ WK.peek := by intro e; subst e; simp [ownsCtx] at hk
    have h1 : Acc s { touch s with observed := upd s.observed x (s.observed x + 1), ctx := upd s.ctx x false }
        [Ev.obs x k (obsOf s sn)] := by
      refine ⟨fun y => ?_, by simp [isFreedEv, touch]⟩
      by_cases hy : y = x
      · subst hy; simp [isAwObs, hkp, touch]; omega
      · have : ¬ x = y := fun e => hy e.symm
        simp [isAwObs, hy, this, touch]
    exact h1.trans (acc_dropRef _ t (Holder.ctx x))
  · split
    · rename_i hk
      subst hk
      refine ⟨fun y => ?_, by simp [isFreedEv, touch]⟩
      by_cases hy : y = x
      · subst hy; simp [isAwObs, touch]; omega
      · have : ¬ x = y := fun e => hy e.symm
        simp [isAwObs, hy, this, touch]
    · rename_i hk1 hk2
      have : k = WK.peek := by cases k <;> simp_all [ownsCtx]
      subst this
      exact Acc.of_eq rfl rfl (fun _ => by simp [isAwObs]) (by simp [isFreedEv])

theorem acc_runProg (t : Nat) (p : List Act) : ∀ s : State, Acc s (runProg t s p).1 (runProg t s p).2 := by
  induction p with
  | nil => intro s; simp only [runProg]; exact acc_endThread s t
  | cons a p ih =>
      intro s
      cases a with
      | copy =>
          simp only [runProg]
          split
          · exact ih _
          · exact ih _
      | drop =>
          simp only [runProg]
          split
          · exact ih _
          · exact (acc_dropH s t).trans (ih _)
      | peek =>
          simp only [runProg]
          split
          · exact ih _
          · split
            · exact Acc.of_eq rfl rfl (fun _ => by simp [isAwObs]) (by simp [isFreedEv])
            · exact Acc.of_eq rfl rfl (fun _ => by simp [isAwObs]) (by simp [isFreedEv])
      | await k =>
          simp only [runProg]
          split
          · exact ih _
          · split
            · refine Acc.of_eq ?_ ?_ (fun _ => by simp [isAwObs]) (by simp [isFreedEv]) <;>
                (unfold startAwait; split <;> rfl)
            · refine Acc.of_eq ?_ ?_ (fun _ => by simp [isAwObs]) (by simp [isFreedEv]) <;>
                (unfold startAwait; split <;> rfl)

theorem acc_runActs (c : Cfg) (t : Nat) (acts : List WAct) : ∀ s : State, Acc s (runActs c t s acts).1 (runActs c t s acts).2 := by
  induction acts with
  | nil =>
      intro s; simp only [runActs]
      refine Acc.of_eq rfl rfl (fun _ => ?_) ?_ <;> (split <;> simp [isAwObs, isFreedEv])
  | cons a rest ih =>
      intro s
      cases a with
      | store x => simp only [runActs]; exact Acc.of_eq rfl rfl (fun _ => by simp [isAwObs]) (by simp [isFreedEv])
      | wake x =>
          simp only [runActs]
          split
          · exact Acc.of_eq rfl rfl (fun _ => by simp [isAwObs]) (by simp [isFreedEv])
          · have h0 : Acc s { s with woken := upd s.woken x (s.woken x + 1) } [] := Acc.of_eq rfl rfl (fun _ => by simp) (by simp)
            have h1 := (acc_obsStep { s with woken := upd s.woken x (s.woken x + 1) } t x (s.akind x) Seen.ready).setPc t (Pc.rRun rest)
            have := (h0.trans h1).trans (ih _)
            simpa using this
      | obsAfter x sn =>
          simp only [runActs]
          exact ((acc_obsStep s t x (s.akind x) sn).setPc t (Pc.rRun rest)).trans (ih _)
      | release =>
          simp only [runActs]
          have h0 : Acc s { s with tracerRef := false } [] := Acc.of_eq rfl rfl (fun _ => by simp) (by simp)
          have h1 := (acc_dropRef { s with tracerRef := false } t Holder.tracer).setPc t (Pc.rRun rest)
          have := (h0.trans h1).trans (ih _)
          simpa using this

theorem acc_astep (c : Cfg) (s : State) (t : Nat) : Acc s (astep c s t).1 (astep c s t).2 := by
  unfold astep
  cases hpc : s.pc t with
  | done => exact Acc.refl s
  | cRun is =>
      cases is with
      | nil =>
          simp only
          have h0 : Acc s (setPc (distribute c s) t (Pc.hRun (c.prog t))) [] :=
            Acc.of_eq (by unfold distribute; split <;> rfl) (by unfold distribute; split <;> rfl) (fun _ => by simp) (by simp)
          simpa using h0.trans (acc_runProg t _ _)
      | cons i is =>
          simp only
          split
          · exact Acc.of_eq rfl rfl (fun _ => by simp [isAwObs]) (by simp [isFreedEv])
          · cases i with
            | xchgInit => exact Acc.of_eq rfl rfl (fun _ => by simp [cstep, isAwObs]) (by simp [cstep, isFreedEv])
            | giveInit =>
                exact Acc.of_eq (by simp only [cstep, setPc]; split <;> rfl) (by simp only [cstep, setPc]; split <;> rfl)
                  (fun _ => by simp [cstep, isAwObs]) (by simp [cstep, isFreedEv])
            | xchgTmp => exact Acc.of_eq rfl rfl (fun _ => by simp [cstep, isAwObs]) (by simp [cstep, isFreedEv])
            | loadTmp => exact Acc.of_eq rfl rfl (fun _ => by simp [cstep, isAwObs]) (by simp [cstep, isFreedEv])
            | loadPending =>
                simp only [cstep]
                split <;> exact Acc.of_eq rfl rfl (fun _ => by simp [isAwObs]) (by simp [isFreedEv])
            | charge e =>
                simp only [cstep]
                split
                · exact Acc.of_eq rfl rfl (fun _ => by simp [isAwObs]) (by simp [isFreedEv])
                · split <;> exact Acc.of_eq rfl rfl (fun _ => by simp [isAwObs]) (by simp [isFreedEv])
  | hStart =>
      simp only
      split
      · have h0 : Acc s (setPc s t (Pc.hRun (c.prog t))) [] := Acc.refl s
        simpa using h0.trans (acc_runProg t _ _)
      · exact Acc.of_eq rfl rfl (fun _ => by simp [isAwObs]) (by simp [isFreedEv])
  | hGate =>
      simp only
      have h0 : Acc s (setPc s t (Pc.hRun (c.prog t))) [] := Acc.refl s
      simpa using h0.trans (acc_runProg t _ _)
  | hRun p => exact acc_runProg t p s
  | hCas k e p =>
      simp only [casStep]
      split
      · exact Acc.of_eq rfl rfl (fun _ => by simp [isAwObs]) (by simp [isFreedEv])
      · split <;> exact Acc.of_eq rfl rfl (fun _ => by simp [isAwObs]) (by simp [isFreedEv])
  | hWait p =>
      simp only
      split <;> exact Acc.of_eq rfl rfl (fun _ => by simp [isAwObs]) (by simp [isFreedEv])
  | hBlocked p => exact Acc.of_eq rfl rfl (fun _ => by simp [isAwObs]) (by simp [isFreedEv])
  | hRead k p =>
      simp only [readStep]
      split
      · exact Acc.of_eq rfl rfl (fun _ => by simp [isAwObs]) (by simp [isFreedEv])
      · exact ((acc_obsStep s t t k Seen.ready).setPc t (Pc.hRun p)).trans (acc_runProg t _ _)
  | hRead2 k sn p =>
      simp only [readStep2]
      exact ((acc_obsStep s t t k sn).setPc t (Pc.hRun p)).trans (acc_runProg t _ _)
  | rStart =>
      simp only
      split
      · unfold claimStep; exact Acc.of_eq rfl rfl (fun _ => by split <;> simp [isAwObs]) (by split <;> simp [isFreedEv])
      · exact Acc.of_eq rfl rfl (fun _ => by simp [isAwObs]) (by simp [isFreedEv])
  | rGate =>
      simp only
      unfold claimStep; exact Acc.of_eq rfl rfl (fun _ => by split <;> simp [isAwObs]) (by split <;> simp [isFreedEv])
  | rResolve => exact Acc.of_eq rfl rfl (fun _ => by simp [resolveStep, isAwObs]) (by simp [resolveStep, isFreedEv])
  | rRun acts => exact acc_runActs c t acts s

/-- a run together with the events it prints -/
def runEvA (c : Cfg) (p : State × List Ev) (sched : List Nat) : State × List Ev :=
  sched.foldl (fun p t => if enabled p.1 t then ((astep c p.1 t).1, p.2 ++ (astep c p.1 t).2) else p) p

def runEv (c : Cfg) (sched : List Nat) : State × List Ev := runEvA c (init c, []) sched

theorem runEvA_fst (c : Cfg) (sched : List Nat) : ∀ p : State × List Ev, (runEvA c p sched).1 = run c p.1 sched := by
  induction sched with
  | nil => intro p; rfl
  | cons t rest ih =>
      intro p
      simp only [runEvA, run, List.foldl]
      split
      · exact ih _
      · exact ih _

theorem runEv_fst (c : Cfg) (sched : List Nat) : (runEv c sched).1 = run c (init c) sched := runEvA_fst c sched _

theorem acc_runEvA (c : Cfg) (s0 : State) (sched : List Nat) : ∀ p : State × List Ev, Acc s0 p.1 p.2 →
    Acc s0 (runEvA c p sched).1 (runEvA c p sched).2 := by
  induction sched with
  | nil => intro p h; exact h
  | cons t rest ih =>
      intro p h
      simp only [runEvA, List.foldl]
      split
      · exact ih _ (h.trans (acc_astep c p.1 t))
      · exact ih _ h

theorem acc_runEv (c : Cfg) (sched : List Nat) : Acc (init c) (runEv c sched).1 (runEv c sched).2 :=
  acc_runEvA c (init c) sched _ (Acc.refl _)

/-! ## every observation is the single result -/

/-- the result every reader must see: decided by the configuration alone -/
def resultObs (c : Cfg) : Obs :=
  match finalPayload c with
  | Outcome.val v => Obs.val v
  | Outcome.exc e => Obs.exc e
  | Outcome.none => Obs.canceled

def ObsGood (c : Cfg) (evs : List Ev) : Prop := ∀ x k o, Ev.obs x k o ∈ evs → o = resultObs c

def NoObs (evs : List Ev) : Prop := ∀ e ∈ evs, isObsEv e = false

theorem NoObs.good {evs : List Ev} (h : NoObs evs) (c : Cfg) : ObsGood c evs := by
  intro x k o hm; have := h _ hm; simp [isObsEv] at this

theorem NoObs.append {a b : List Ev} (ha : NoObs a) (hb : NoObs b) : NoObs (a ++ b) := by
  intro e hm; rcases List.mem_append.1 hm with h | h
  · exact ha e h
  · exact hb e h

theorem ObsGood.append {a b : List Ev} (ha : ObsGood c a) (hb : ObsGood c b) : ObsGood c (a ++ b) := by
  intro x k o hm; rcases List.mem_append.1 hm with h | h
  · exact ha x k o h
  · exact hb x k o h

theorem noObs_dropRef (s : State) (t : Nat) (x : Holder) : NoObs (dropRef s t x).2 := by
  unfold dropRef; split <;> (intro e hm; simp at hm; try (subst hm; rfl))

theorem noObs_dropAll (t n : Nat) : ∀ s : State, NoObs (dropAll t n s).2 := by
  induction n with
  | zero => intro s e hm; simp [dropAll] at hm
  | succ n ih => intro s; simp only [dropAll]; exact (noObs_dropRef s t _).append (ih _)

theorem noObs_endThread (s : State) (t : Nat) : NoObs (endThread s t).2 := by
  unfold endThread
  exact (noObs_dropAll t _ s).append (by intro e hm; simp at hm; subst hm; rfl)

theorem noObs_single (e : Ev) (h : isObsEv e = false) : NoObs [e] := by
  intro e' hm; simp at hm; subst hm; exact h

theorem noObs_runProg (t : Nat) (p : List Act) : ∀ s : State, NoObs (runProg t s p).2 := by
  induction p with
  | nil => intro s; simp only [runProg]; exact noObs_endThread s t
  | cons a p ih =>
      intro s
      cases a with
      | copy => simp only [runProg]; split <;> exact ih _
      | drop =>
          simp only [runProg]
          split
          · exact ih _
          · exact (noObs_dropRef s t _).append (ih _)
      | peek =>
          simp only [runProg]
          split
          · exact ih _
          · split <;> exact noObs_single _ rfl
      | await k =>
          simp only [runProg]
          split
          · exact ih _
          · split <;> exact noObs_single _ rfl

theorem obsOf_good (h : Inv c s) (hs : s.slot = Slot.ready) : obsOf s Seen.ready = resultObs c := by
  unfold obsOf resultObs
  rw [h.pay hs]
  cases finalPayload c <;> simp

theorem obsGood_obsStep (s0 : State) (hp : obsOf s0 sn = resultObs c) (s : State) (hps : obsOf s sn = obsOf s0 sn) (t x : Nat) (k : WK) :
    ObsGood c (obsStep s t x k sn).2 := by
  unfold obsStep
  split
  · intro x' k' o hm
    simp only [List.mem_cons] at hm
    rcases hm with h1 | h1
    · injection h1 with _ _ ho; rw [ho, hps, hp]
    · have := noObs_dropRef _ _ _ _ h1; simp [isObsEv] at this
  · split <;> (intro x' k' o hm; simp at hm; rw [hm.2.2, hps, hp])

theorem obsGood_runActs (acts : List WAct) : ∀ s : State, Inv c s → s.pc t = Pc.rRun acts → ObsGood c (runActs c t s acts).2 := by
  induction acts with
  | nil =>
      intro s h hpc; simp only [runActs]
      apply NoObs.good
      intro e hm
      split at hm <;> simp at hm
      · subst hm; rfl
      · rcases hm with h1 | h1 <;> (subst h1; rfl)
  | cons a rest ih =>
      intro s h hpc
      obtain ⟨ht, hk, hn, hw0, hrd⟩ := walker_facts h _ hpc
      cases a with
      | store x => simp only [runActs]; exact (noObs_single _ rfl).good c
      | wake x =>
          simp only [runActs]
          split
          · exact (noObs_single _ rfl).good c
          · have hg := obsOf_good h hrd
            exact (obsGood_obsStep s hg { s with woken := upd s.woken x (s.woken x + 1) } rfl t x _).append
              (ih _ (inv_w_obs h x Seen.ready _ rest hpc (Or.inl rfl) (s.woken x + 1) (by simp)) (by simp))
      | obsAfter x sn =>
          simp only [runActs]
          have hsn : sn = Seen.ready := h.obsAfterReady x sn (by rw [hw0]; simp)
          subst hsn
          have hg := obsOf_good h hrd
          have hu : upd s.woken x (s.woken x) = s.woken := by funext y; simp [upd]; intro e; rw [e]
          have h1 := inv_w_obs h x Seen.ready _ rest hpc (Or.inr ⟨Seen.ready, rfl⟩) (s.woken x) (by simp)
          rw [hu] at h1
          exact (obsGood_obsStep s hg _ rfl t x _).append (ih _ h1 (by simp))
      | release =>
          simp only [runActs]
          exact ((noObs_dropRef _ _ _).good c).append (ih _ (inv_w_release h rest hpc) (by simp))

theorem obsGood_astep (hf : Fixed c) (h : Inv c s) (hen : enabled s t = true) : ObsGood c (astep c s t).2 := by
  unfold astep
  cases hpc : s.pc t with
  | done => exact fun _ _ _ hm => by simp at hm
  | cRun is =>
      cases is with
      | nil => simp only; exact (noObs_runProg t _ _).good c
      | cons i is =>
          simp only [crashes_false hf, Bool.false_eq_true, if_false]
          apply NoObs.good
          cases i with
          | xchgInit => intro e hm; simp [cstep] at hm; rcases hm with h1 | h1 <;> (subst h1; rfl)
          | giveInit => intro e hm; simp [cstep] at hm; rcases hm with h1 | h1 <;> (subst h1; rfl)
          | xchgTmp => exact noObs_single _ rfl
          | loadTmp => exact noObs_single _ rfl
          | loadPending => simp only [cstep]; split <;> exact noObs_single _ rfl
          | charge e =>
              simp only [cstep]
              split
              · exact noObs_single _ rfl
              · split <;> exact noObs_single _ rfl
  | hStart =>
      simp only
      split
      · exact (noObs_runProg t _ _).good c
      · exact (noObs_single _ rfl).good c
  | hGate => simp only; exact (noObs_runProg t _ _).good c
  | hRun p => exact (noObs_runProg t p s).good c
  | hCas k e p =>
      simp only [casStep]
      split
      · exact (noObs_single _ rfl).good c
      · split <;> exact (noObs_single _ rfl).good c
  | hWait p => simp only; split <;> exact (noObs_single _ rfl).good c
  | hBlocked p => exact (noObs_single _ rfl).good c
  | hRead k p =>
      simp only [readStep]
      split
      · exact (noObs_single _ rfl).good c
      · have hg := obsOf_good h (h.aRead t k p hpc).2.2
        exact (obsGood_obsStep s hg s rfl t t k).append ((noObs_runProg t _ _).good c)
  | hRead2 k sn p =>
      simp only [readStep2]
      have ha := h.aRead2 t k sn p hpc
      have hsn := ha.2.2.2
      subst hsn
      have hg := obsOf_good h ha.2.2.1
      exact (obsGood_obsStep s hg s rfl t t k).append ((noObs_runProg t _ _).good c)
  | rStart =>
      simp only
      split
      · unfold claimStep; apply NoObs.good; intro e hm; simp at hm; subst hm; split <;> rfl
      · exact (noObs_single _ rfl).good c
  | rGate => simp only; unfold claimStep; apply NoObs.good; intro e hm; simp at hm; subst hm; split <;> rfl
  | rResolve => exact (noObs_single _ rfl).good c
  | rRun acts => exact obsGood_runActs acts s h hpc

theorem obsGood_runEvA (hf : Fixed c) (sched : List Nat) : ∀ p : State × List Ev, Inv c p.1 → ObsGood c p.2 →
    ObsGood c (runEvA c p sched).2 := by
  induction sched with
  | nil => intro p _ h; exact h
  | cons t rest ih =>
      intro p hi h
      simp only [runEvA, List.foldl]
      split
      · rename_i hen; exact ih _ (inv_astep hf hi hen) (h.append (obsGood_astep hf hi hen))
      · exact ih _ hi h

theorem obsGood_runEv (hf : Fixed c) (hn : 0 < c.n) (sched : List Nat) : ObsGood c (runEv c sched).2 :=
  obsGood_runEvA hf sched _ (inv_init c hf hn) (fun _ _ _ hm => by simp at hm)

/-! ## no lost wake-up: a state in which no thread can move is quiescent -/

/-- there is a creator, and the configuration has a resolver thread exactly when it has a promise -/
def WF (c : Cfg) : Prop := 0 < c.n ∧ (c.mode.hasPromise = true ↔ (0 < c.rtid ∧ c.rtid < c.n))

theorem WF.hasResolver (h : WF c) : HasResolver c := fun hp => h.2.1 hp

theorem ctor_enabled (h : Inv c s) (hc : isCtor (s.pc 0) = true) : enabled s 0 = true := by
  cases hq : s.pc 0 with
  | cRun is => simp [enabled, hq, h.noCrash]
  | _ => simp [hq, isCtor] at hc

theorem not_stuck (h : Inv c s) (hwf : WF c) (hst : ∀ t, enabled s t = false) : Quiescent c s := by
  intro t ht
  have hcr := h.noCrash
  have hdis := hst t
  have h0 := hst 0
  cases hpc : s.pc t with
  | done => rfl
  | hGate =>
      have hc : s.constructed = false := by
        cases hq : s.constructed
        · rfl
        · simp [enabled, hpc, hcr, hq] at hdis
      have := ctor_enabled h (h.ctorPc hc)
      rw [h0] at this; cases this
  | rGate =>
      have hp : s.published = false := by
        cases hq : s.published
        · rfl
        · simp [enabled, hpc, hcr, hq] at hdis
      have hpk := h.pcok t
      rw [hpc] at hpk
      have hk := (kind_res_iff c t).1 hpk.1
      have hpm : c.mode.hasPromise = true := hwf.2.2 ⟨by omega, by omega⟩
      have := ctor_enabled h (h.pubCtor hp hpm)
      rw [h0] at this; cases this
  | hBlocked p =>
      have hfl : s.flag t = false := by
        cases hq : s.flag t
        · rfl
        · simp [enabled, hpc, hcr, hq] at hdis
      have ha := h.aWait t p (Or.inr hpc)
      have hw := h.wake t
      rw [ha.2.2.1] at hw
      simp only [if_true] at hw
      have hwk : s.woken t = 0 := by
        cases hq : s.woken t with
        | zero => rfl
        | succ k => have := (h.flagIff t).2 ⟨ha.1, by omega⟩; rw [hfl] at this; cases this
      -- the walker is running, or the resolver has not exchanged yet
      cases hr : s.pc c.rtid with
      | rRun a =>
          have := hst c.rtid
          simp [enabled, hr, hcr] at this
      | _ =>
          have hwa : wacts c s = [] := by unfold wacts; rw [hr]; rfl
          rw [hwa, hwk] at hw
          simp [cntW] at hw
          have hmem : Node.aw t ∈ chainOf s.slot := List.count_pos_iff.1 (by omega)
          have hnr : s.slot ≠ Slot.ready := by intro e; rw [e] at hmem; simp [chainOf] at hmem
          have hpm : c.mode.hasPromise = true := by
            cases hq : c.mode.hasPromise
            · exact absurd (h.nopromise hq).2 hnr
            · rfl
          have hres := hwf.2.1 hpm
          have hkr : kindOf c c.rtid = Kind.res := (kind_res_iff c c.rtid).2 ⟨by omega, rfl⟩
          have hpre : preResolve (s.pc c.rtid) = true := by
            cases hq : preResolve (s.pc c.rtid)
            · exact absurd (h.resolved c.rtid hkr hres.2 hq) hnr
            · rfl
          have hdr := hst c.rtid
          unfold enabled at hdr
          rw [hr] at hpre hdr
          first
            | (simp [preResolve] at hpre; done)
            | (simp [hcr] at hdr; done)
            | (have hp : s.published = false := by
                 cases hq : s.published
                 · rfl
                 · simp [hcr, hq] at hdr
               have := ctor_enabled h (h.pubCtor hp hpm)
               rw [h0] at this; cases this)
  | _ => simp [enabled, hpc, hcr] at hdis

end Cocls.SharedFuture
