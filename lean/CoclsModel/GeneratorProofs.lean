import CoclsModel.Generator
/-!
Invariant of the generator model (`CoclsModel/Generator.lean`) and its preservation by every body statement and every
consumer operation; `inv_run` = induction over the operation list.  Helper lemmas only — the property theorems are in
`Props/C13.lean`.
-/
namespace Cocls.Gen

/-- the body is inside an access: running, or parked on an awaited operation -/
def midAccess (s : State) : Bool :=
  match s.bst with
  | .run => true
  | .await _ => true
  | _ => false

/-- the item handed over to a synchronous access that has not yet returned to the consumer (`_block` is set, the consumer
thread has not left `_block.wait` yet) -/
def pend (s : State) : List Item := if inSync s && s.block then [cur s] else []

structure Inv (s : State) : Prop where
  /-- no null `_caller` / `_arg` / `_ret` was dereferenced -/
  noub : s.ub = false
  /-- delivered ++ handed over ++ still to come = the whole sequence -/
  seq_run : s.bst ≠ .final → s.obs ++ pend s ++ expectedFrom s.acc s.script = expected s.script0
  seq_fin : s.bst = .final → s.obs ++ pend s = expected s.script0
  flags_run : s.bst ≠ .final → s.done = false ∧ s.exp = false
  flags_fin : s.bst = .final → s.done = !s.exp
  /-- parked at a `co_yield`: `_ret` points at the value that was delivered last -/
  ret_yield : s.bst = .yield → s.ret ≠ none ∧ (s.obs ++ pend s).getLast? = s.ret.map Item.val
  ret_fin : s.bst = .final → s.ret = none
  /-- `_caller` is set exactly while the body is inside an access — or after `next_async` threw -/
  busy_iff : s.caller ≠ .none ↔ (midAccess s = true ∨ s.stuck = true)
  stuck_fin : s.stuck = true → s.bst = .final ∧ s.caller = .awt ∧ s.post ≠ []
  /-- whoever `_caller` designates is really waiting -/
  c_awt : s.caller = .awt → s.stuck = false → s.cons = .parked ∧ s.fut ≠ .pending
  c_int : s.caller = .internal →
      (s.ifn = .sync ∧ inSync s = true ∧ s.block = false ∧ s.fut ≠ .pending) ∨
      (s.ifn = .future ∧ s.awaiting = true ∧ s.fut = .pending ∧ s.cons = .idle)
  /-- nobody waits while the body is not inside an access -/
  c_none : midAccess s = false → s.cons ≠ .parked ∧ s.fut ≠ .pending ∧ (inSync s = true → s.block = true)
  reader_pending : s.reader ≠ none → s.fut = .pending
  /-- while the body runs, `*_arg` is the argument of the access that resumed it -/
  arg_ok : s.mode = true → midAccess s = true → s.arg = some s.lastArg
  /-- every guard constructed so far is either in scope or was destroyed exactly once -/
  guards : ∀ g, s.dtors.count g + s.live.count g = if g < s.made then 1 else 0
  live_fin : s.bst = .final → s.live = []
  live_dead : s.alive = false → s.live = [] ∧ midAccess s = false
  got_ok : ∀ p ∈ s.gotLog, p.1 = p.2
  post_end : ∀ e ∈ s.post, e = .fin ∨ e = .nomore
  post_fin : s.post ≠ [] → s.bst = .final
  post_exc : s.exp = true → ∀ e ∈ s.post, e = .nomore
  await_unres : ∀ k, s.bst = .await k → k ∉ s.resolved
  /-- the chronological log is the body's part followed by the answers given after the body had finished -/
  seen_eq : s.seen = s.obs ++ s.post
  sync_post : inSync s = true → s.post = []
  /-- `_arg`, when set, is the argument of the most recent `set_arg` -/
  arg_last : s.mode = true → s.arg = none ∨ s.arg = some s.lastArg
  /-- parked at `co_yield acc`: what `_ret` reads is the content of the body's variable -/
  acc_ret : s.bst = .yield → s.atAcc = true → s.ret = some s.acc
  /-- whenever the body was resumed from `co_yield acc`, its variable still held what it had yielded -/
  acc_ok : ∀ p ∈ s.accLog, p.1 = p.2

/-! ### normal forms: the derived notions as functions of the fields they read, so that `simp` sees through record updates -/

def curOf (done exp : Bool) (ret : Option Nat) : Item :=
  if done then .fin else if exp then .exc else match ret with
    | some v => .val v
    | none => .notready
def inSyncC : Cons → Bool
  | .inSync _ => true
  | _ => false
def midB : BSt → Bool
  | .run => true
  | .await _ => true
  | _ => false
def pendOf (c : Cons) (block done exp : Bool) (ret : Option Nat) : List Item :=
  if inSyncC c && block then [curOf done exp ret] else []

theorem cur_eq (s : State) : cur s = curOf s.done s.exp s.ret := by
  unfold cur readVal curOf; cases s.ret <;> rfl
theorem inSync_eq (s : State) : inSync s = inSyncC s.cons := by
  unfold inSync inSyncC; cases s.cons <;> rfl
theorem midAccess_eq (s : State) : midAccess s = midB s.bst := by
  unfold midAccess midB; cases s.bst <;> rfl
theorem pend_eq (s : State) : pend s = pendOf s.cons s.block s.done s.exp s.ret := by
  simp only [pend, pendOf, cur_eq, inSync_eq]
theorem inflight_eq (s : State) : inflight s = (s.cons == .parked || s.fut == .pending) := rfl

@[simp] theorem midB_run : midB .run = true := rfl
@[simp] theorem midB_await (k : Nat) : midB (.await k) = true := rfl
@[simp] theorem midB_init : midB .init = false := rfl
@[simp] theorem midB_yield : midB .yield = false := rfl
@[simp] theorem midB_final : midB .final = false := rfl
@[simp] theorem inSyncC_idle : inSyncC .idle = false := rfl
@[simp] theorem inSyncC_parked : inSyncC .parked = false := rfl
@[simp] theorem inSyncC_inSync (k : SyncKind) : inSyncC (.inSync k) = true := rfl
theorem inSyncC_true {c : Cons} : inSyncC c = true ↔ ∃ k, c = .inSync k := by
  cases c <;> simp [inSyncC]
@[simp] theorem pendOf_idle (b d e : Bool) (r : Option Nat) : pendOf .idle b d e r = [] := rfl
@[simp] theorem pendOf_parked (b d e : Bool) (r : Option Nat) : pendOf .parked b d e r = [] := rfl
@[simp] theorem pendOf_noblock (c : Cons) (d e : Bool) (r : Option Nat) : pendOf c false d e r = [] := by
  simp [pendOf]
@[simp] theorem pendOf_sync (k : SyncKind) (d e : Bool) (r : Option Nat) :
    pendOf (.inSync k) true d e r = [curOf d e r] := rfl
@[simp] theorem curOf_val (v : Nat) : curOf false false (some v) = .val v := rfl
@[simp] theorem curOf_fin (e : Bool) (r : Option Nat) : curOf true e r = .fin := rfl
@[simp] theorem curOf_exc (r : Option Nat) : curOf false true r = .exc := rfl

@[simp] theorem expectedFrom_awaitReady (acc : Nat) (r : List Act) : expectedFrom acc (.awaitReady :: r) = expectedFrom acc r := by
  simp [expectedFrom, yieldsFrom, ending]
@[simp] theorem expectedFrom_pause (acc : Nat) (r : List Act) : expectedFrom acc (.pause :: r) = expectedFrom acc r := by
  simp [expectedFrom, yieldsFrom, ending]
@[simp] theorem expectedFrom_yieldNull (acc : Nat) (r : List Act) : expectedFrom acc (.yieldNull :: r) = expectedFrom acc r := by
  simp [expectedFrom, yieldsFrom, ending]
@[simp] theorem expectedFrom_guard (acc : Nat) (r : List Act) : expectedFrom acc (.guard :: r) = expectedFrom acc r := by
  simp [expectedFrom, yieldsFrom, ending]
@[simp] theorem expectedFrom_await (acc k : Nat) (r : List Act) : expectedFrom acc (.await k :: r) = expectedFrom acc r := by
  simp [expectedFrom, yieldsFrom, ending]
@[simp] theorem expectedFrom_yield (acc v : Nat) (r : List Act) :
    expectedFrom acc (.yield v :: r) = .val v :: expectedFrom acc r := by
  simp [expectedFrom, yieldsFrom, ending]
@[simp] theorem expectedFrom_yieldAcc (acc c : Nat) (r : List Act) :
    expectedFrom acc (.yieldAcc c :: r) = .val (acc * 10 + c) :: expectedFrom (acc * 10 + c) r := by
  simp [expectedFrom, yieldsFrom, ending]
@[simp] theorem expectedFrom_throw (acc : Nat) (r : List Act) : expectedFrom acc (.throw :: r) = [.exc] := by
  simp [expectedFrom, yieldsFrom, ending]
@[simp] theorem expectedFrom_ret (acc : Nat) (r : List Act) : expectedFrom acc (.ret :: r) = [.fin] := by
  simp [expectedFrom, yieldsFrom, ending]
@[simp] theorem expectedFrom_nil (acc : Nat) : expectedFrom acc [] = [.fin] := by
  simp [expectedFrom, yieldsFrom, ending]

set_option hygiene false in
macro "inv_cases " h:ident : tactic => `(tactic|
  obtain ⟨noub, seq_run, seq_fin, flags_run, flags_fin, ret_yield, ret_fin, busy_iff, stuck_fin, c_awt, c_int, c_none,
    reader_pending, arg_ok, guards, live_fin, live_dead, got_ok, post_end, post_fin, post_exc, await_unres, seen_eq, sync_post, arg_last, acc_ret, acc_ok⟩ := $h)

/-- split the goal `Inv _` into its clauses and normalise each against the hypotheses -/
macro "inv_dbg" : tactic => `(tactic|
  (constructor <;> simp_all [pend_eq, inSync_eq, midAccess_eq, cur_eq, inflight_eq] <;> try assumption))

macro "inv_close" : tactic => `(tactic|
  (constructor <;> simp_all [pend_eq, inSync_eq, midAccess_eq, cur_eq, inflight_eq] <;>
    first | assumption | grind | omega))

theorem inv_init (mode : Bool) (sc : List Act) : Inv (init mode sc) := by
  constructor <;> simp [init, pend, inSync, midAccess, expected]

/-! ### the body -/

/-- a statement that neither yields nor ends the body is executed -/
theorem inv_skip {s : State} (h : Inv s) (hr : s.bst = .run) (rest : List Act)
    (he : expectedFrom s.acc s.script = expectedFrom s.acc rest) : Inv { s with script := rest } := by
  inv_cases h
  inv_close

theorem inv_recvArg {s : State} (h : Inv s) (hr : s.bst = .run) : Inv (recvArg s) := by
  unfold recvArg
  split
  · have ha := h.arg_ok (by assumption) (by simp [midAccess_eq, hr])
    rw [ha]
    inv_cases h
    inv_close
  · exact h

theorem inv_guard {s : State} (h : Inv s) (hr : s.bst = .run) :
    Inv { s with live := s.live ++ [s.made], made := s.made + 1 } := by
  have hgl : ∀ g, s.dtors.count g + (s.live ++ [s.made]).count g = if g < s.made + 1 then 1 else 0 := by
    intro g
    have := h.guards g
    simp only [List.count_append, List.count_cons, List.count_nil]
    by_cases hgm : s.made = g
    · subst hgm; simp at this ⊢; omega
    · have : ¬ (s.made == g) = true := by simpa using hgm
      simp only [this]
      by_cases h1 : g < s.made
      · have h2 : g < s.made + 1 := by omega
        simp [h1, h2] at *; omega
      · have h2 : ¬ g < s.made + 1 := by omega
        simp [h1, h2] at *; omega
  inv_cases h
  constructor
  case guards => exact hgl
  all_goals (simp_all [pend_eq, inSync_eq, midAccess_eq] <;> first | assumption | grind)

theorem inv_park {s : State} (h : Inv s) (hr : s.bst = .run) (k : Nat) (hk : k ∉ s.resolved) :
    Inv { s with bst := .await k } := by
  inv_cases h
  inv_close

/-- events are only a log -/
theorem inv_evs {s : State} (h : Inv s) (e : List Ev) : Inv { s with evs := e } := by
  inv_cases h
  inv_close

/-- waking the coroutine parked on the future only clears `reader` -/
theorem inv_wakeReader {s : State} (i : Item) (h : Inv { s with reader := none }) : Inv (wakeReader s i) := by
  unfold wakeReader
  split
  · rename_i hr
    have : s = { s with reader := none } := by cases s; simp_all
    rw [this]; exact h
  · exact inv_evs h _
  · exact inv_evs h _

set_option maxHeartbeats 1600000 in
/-- `co_yield v`: whoever asked gets exactly `v` -/
theorem inv_yieldAt {s : State} (h : Inv s) (hr : s.bst = .run) (v : Nat) (rest : List Act)
    (he : expectedFrom s.acc s.script = .val v :: expectedFrom s.acc rest) : Inv (yieldAt { s with script := rest } v) := by
  have hfl := h.flags_run (by simp [hr])
  have hbusy := h.busy_iff
  have hsf := h.stuck_fin
  cases hc : s.caller with
  | none => simp [hc, midAccess_eq, hr] at hbusy
  | awt =>
      have hst : s.stuck = false := by
        cases hs : s.stuck with
        | false => rfl
        | true => have := (hsf hs).1; simp [hr] at this
      have hca := h.c_awt hc hst
      simp only [yieldAt, deliver, resumeAwt]
      inv_cases h
      inv_close
  | internal =>
      rcases h.c_int hc with ⟨hi, h2, h3, h4⟩ | ⟨hi, h2, h3, h4⟩
      · simp only [yieldAt, deliver, hi, unblockSync]
        obtain ⟨kk, hk⟩ := inSyncC_true.mp (by simpa [inSync_eq] using h2)
        inv_cases h
        inv_close
      · simp only [yieldAt, deliver, hi, unblockFuture, h2, hfl.1, hfl.2, Option.isNone_some,
          Bool.and_false, Bool.false_eq_true, if_false, if_true, cur_eq, curOf_val]
        apply inv_wakeReader
        dsimp only
        inv_cases h
        inv_close

set_option maxHeartbeats 1600000 in
/-- `acc.append(c); co_yield acc;`: whoever asked gets the new content of the variable, and `_ret` reads the variable -/
theorem inv_yieldAccAt {s : State} (h : Inv s) (hr : s.bst = .run) (c : Nat) (rest : List Act)
    (he : expectedFrom s.acc s.script = .val (s.acc * 10 + c) :: expectedFrom (s.acc * 10 + c) rest) :
    Inv (yieldAccAt { s with script := rest } c) := by
  have hfl := h.flags_run (by simp [hr])
  have hbusy := h.busy_iff
  have hsf := h.stuck_fin
  cases hc : s.caller with
  | none => simp [hc, midAccess_eq, hr] at hbusy
  | awt =>
      have hst : s.stuck = false := by
        cases hs : s.stuck with
        | false => rfl
        | true => have := (hsf hs).1; simp [hr] at this
      have hca := h.c_awt hc hst
      simp only [yieldAccAt, deliver, resumeAwt]
      inv_cases h
      inv_close
  | internal =>
      rcases h.c_int hc with ⟨hi, h2, h3, h4⟩ | ⟨hi, h2, h3, h4⟩
      · simp only [yieldAccAt, deliver, hi, unblockSync]
        obtain ⟨kk, hk⟩ := inSyncC_true.mp (by simpa [inSync_eq] using h2)
        inv_cases h
        inv_close
      · simp only [yieldAccAt, deliver, hi, unblockFuture, h2, hfl.1, hfl.2, Option.isNone_some,
          Bool.and_false, Bool.false_eq_true, if_false, if_true, cur_eq, curOf_val]
        apply inv_wakeReader
        dsimp only
        inv_cases h
        inv_close

set_option maxHeartbeats 1600000 in
/-- the body ends (exception or `co_return`): whoever asked gets the end / the exception, locals are destroyed once -/
theorem inv_finish {s : State} (h : Inv s) (hr : s.bst = .run) (threw : Bool)
    (he : expectedFrom s.acc s.script = [if threw then Item.exc else Item.fin]) : Inv (finish s threw) := by
  have hfl := h.flags_run (by simp [hr])
  have hbusy := h.busy_iff
  have hsf := h.stuck_fin
  have hal : s.alive = true := by
    cases ha : s.alive with
    | true => rfl
    | false => have := (h.live_dead ha).2; simp [midAccess_eq, hr] at this
  have hgl : ∀ g, (s.dtors ++ s.live).count g + ([] : List Nat).count g = if g < s.made then 1 else 0 := by
    intro g; have := h.guards g; simpa [List.count_append] using this
  cases threw
  all_goals
    cases hc : s.caller with
    | none => simp [hc, midAccess_eq, hr] at hbusy
    | awt =>
        have hst : s.stuck = false := by
          cases hs : s.stuck with
          | false => rfl
          | true => have := (hsf hs).1; simp [hr] at this
        have hca := h.c_awt hc hst
        simp only [finish, deliver, hc, resumeAwt, hfl.1, hfl.2, Bool.false_or, Bool.not_false, Bool.not_true, cur_eq,
          curOf_fin, curOf_exc]
        clear hbusy hsf
        inv_cases h
        constructor
        case guards => exact hgl
        all_goals (clear hgl; simp_all [pend_eq, inSync_eq, midAccess_eq] <;> first | assumption | grind)
    | internal =>
        rcases h.c_int hc with ⟨hi, h2, h3, h4⟩ | ⟨hi, h2, h3, h4⟩
        · simp only [finish, deliver, hc, hi, unblockSync, hfl.1, hfl.2, Bool.false_or, Bool.not_false, Bool.not_true]
          obtain ⟨kk, hk⟩ := inSyncC_true.mp (by simpa [inSync_eq] using h2)
          clear hbusy hsf
          inv_cases h
          constructor
          case guards => exact hgl
          all_goals (clear hgl; simp_all [pend_eq, inSync_eq, midAccess_eq] <;> first | assumption | grind)
        · simp only [finish, deliver, hc, hi, unblockFuture, h2, hfl.1, hfl.2, Bool.false_or, Bool.not_false,
            Bool.not_true, Bool.and_false, Bool.false_and, Bool.false_eq_true, if_false, if_true, cur_eq,
            curOf_fin, curOf_exc]
          apply inv_wakeReader
          dsimp only
          clear hbusy hsf
          inv_cases h
          constructor
          case guards => exact hgl
          all_goals (clear hgl; simp_all [pend_eq, inSync_eq, midAccess_eq] <;> first | assumption | grind)

@[simp] theorem recvArg_bst (s : State) : (recvArg s).bst = s.bst := by
  unfold recvArg; split
  · split <;> rfl
  · rfl
@[simp] theorem recvArg_script (s : State) : (recvArg s).script = s.script := by
  unfold recvArg; split
  · split <;> rfl
  · rfl
@[simp] theorem recvArg_atAcc (s : State) : (recvArg s).atAcc = s.atAcc := by
  unfold recvArg; split
  · split <;> rfl
  · rfl
@[simp] theorem recvArg_ret (s : State) : (recvArg s).ret = s.ret := by
  unfold recvArg; split
  · split <;> rfl
  · rfl
@[simp] theorem recvArg_acc (s : State) : (recvArg s).acc = s.acc := by
  unfold recvArg; split
  · split <;> rfl
  · rfl
@[simp] theorem seeAcc_bst (s : State) : (seeAcc s).bst = s.bst := by
  unfold seeAcc; split <;> rfl
@[simp] theorem seeAcc_script (s : State) : (seeAcc s).script = s.script := by
  unfold seeAcc; split <;> rfl

/-- resumed from `co_yield acc`, the body finds in its variable what `_ret` read while it was parked -/
theorem inv_seeAcc {s : State} (h : Inv s) (hr : s.bst = .run) (hacc : s.atAcc = true → s.ret = some s.acc) :
    Inv (seeAcc s) := by
  unfold seeAcc
  split
  · rename_i hat
    have hret := hacc hat
    inv_cases h
    inv_close
  · exact h

/-- the count of installed queues is only a log -/
theorem inv_qinst {s : State} (h : Inv s) (n : Nat) : Inv { s with qinst := n } := by
  inv_cases h
  inv_close

/-- the consumer's execution context is not part of the hand-over -/
theorem inv_coro {s : State} (h : Inv s) (b : Bool) : Inv { s with coro := b } := by
  inv_cases h
  inv_close

/-- running the body up to its next suspension keeps the invariant — by induction over the script -/
theorem inv_exec : ∀ (sc : List Act) (s : State), Inv s → s.bst = .run → s.script = sc → Inv (exec sc s)
  | [], s, h, hr, hs => by
      unfold exec; exact inv_finish h hr false (by simp [hs])
  | .yield v :: rest, s, h, hr, hs => by
      unfold exec; exact inv_yieldAt h hr v rest (by simp [hs])
  | .yieldAcc c :: rest, s, h, hr, hs => by
      unfold exec; exact inv_yieldAccAt h hr c rest (by simp [hs])
  | .yieldNull :: rest, s, h, hr, hs => by
      unfold exec
      have h1 := inv_skip h hr rest (by simp [hs])
      exact inv_exec rest _ (inv_recvArg h1 hr) (by simp [hr]) (by simp)
  | .awaitReady :: rest, s, h, hr, hs => by
      unfold exec
      exact inv_exec rest _ (inv_skip h hr rest (by simp [hs])) hr rfl
  | .pause :: rest, s, h, hr, hs => by
      unfold exec
      exact inv_exec rest _ (inv_skip h hr rest (by simp [hs])) hr rfl
  | .await k :: rest, s, h, hr, hs => by
      unfold exec
      have h1 := inv_skip h hr rest (by simp [hs])
      split
      · exact inv_exec rest _ h1 hr rfl
      · exact inv_park h1 hr k (by assumption)
  | .guard :: rest, s, h, hr, hs => by
      unfold exec
      have h1 := inv_skip h hr rest (by simp [hs])
      exact inv_exec rest _ (inv_guard h1 hr) hr rfl
  | .throw :: rest, s, h, hr, hs => by
      unfold exec; exact inv_finish h hr true (by simp [hs])
  | .ret :: rest, s, h, hr, hs => by
      unfold exec; exact inv_finish h hr false (by simp [hs])

/-- `h.resume()` on a generator whose hand-over record has just been armed -/
theorem inv_resumeBody {t : State} (hrun : Inv { t with bst := .run })
    (hb : t.bst = .init ∨ t.bst = .yield ∨ ∃ k, t.bst = .await k)
    (hacc : t.bst = .yield → t.atAcc = true → t.ret = some t.acc) : Inv (resumeBody t) := by
  unfold resumeBody
  rcases hb with hb | hb | ⟨k, hb⟩ <;> simp only [hb]
  · exact inv_exec _ _ hrun rfl rfl
  · exact inv_exec _ _ (inv_seeAcc (inv_recvArg hrun rfl) (by simp) (by simpa using hacc hb)) (by simp) (by simp)
  · exact inv_exec _ _ hrun rfl rfl

/-- `resume_in_queue`: the same activation of the body, whether or not a queue had to be installed for it -/
theorem inv_resumeInQueue {t : State} (hrun : Inv { t with bst := .run })
    (hb : t.bst = .init ∨ t.bst = .yield ∨ ∃ k, t.bst = .await k)
    (hacc : t.bst = .yield → t.atAcc = true → t.ret = some t.acc) : Inv (resumeInQueue t) := by
  unfold resumeInQueue
  split
  · exact inv_resumeBody hrun hb hacc
  · exact inv_resumeBody (t := { t with qinst := t.qinst + 1 }) (inv_qinst hrun _) hb hacc

/-! ### consumer operations -/

theorem inv_it {s : State} (h : Inv s) (x : Option Bool) : Inv { s with it := x } := by
  inv_cases h
  inv_close

/-- consumer-side fields of the kept object never matter for the invariant -/
theorem inv_kfields {s : State} (h : Inv s) (k : Option Nat) (b : Bool) : Inv { s with kept := k, kstate := b } := by
  inv_cases h
  inv_close

theorem inv_endSync {s : State} (h : Inv s) (kind : SyncKind) (b : Bool) : Inv (endSync s kind b).1 := by
  unfold endSync
  cases kind <;> first | exact h | exact inv_it h _ | exact inv_kfields h _ _

/-- facts about an idle generator (no access outstanding, the assert of next_sync/next_async/next_future holds) -/
theorem idle_facts {s : State} (h : Inv s) (hc : s.caller = .none) :
    midAccess s = false ∧ s.stuck = false ∧ s.cons ≠ .parked ∧ s.fut ≠ .pending := by
  have hb := h.busy_iff
  have hm : midAccess s = false := by
    cases hm : midAccess s with
    | false => rfl
    | true => exact absurd hc (hb.mpr (Or.inl hm))
  have hs : s.stuck = false := by
    cases hs : s.stuck with
    | false => rfl
    | true => exact absurd hc (hb.mpr (Or.inr hs))
  have := h.c_none hm
  exact ⟨hm, hs, this.1, this.2.1⟩

theorem idle_bst {s : State} (hm : midAccess s = false) (hf : s.bst ≠ .final) : s.bst = .init ∨ s.bst = .yield := by
  rw [midAccess_eq] at hm
  cases hb : s.bst <;> simp_all

theorem inv_post_fin {s : State} (h : Inv s) (hns : inSync s = false) (hd : s.done = true) (e : List Ev) :
    Inv { s with seen := s.seen ++ [.fin], post := s.post ++ [.fin], evs := e } := by
  have hf : s.bst = .final := by
    cases hb : s.bst <;> first | rfl | (have := (h.flags_run (by simp [hb])).1; simp [hd] at this)
  inv_cases h
  inv_close

theorem inv_post_nomore {s : State} (h : Inv s) (hns : inSync s = false) (hf : s.bst = .final) :
    Inv { s with seen := s.seen ++ [.nomore], post := s.post ++ [.nomore] } := by
  inv_cases h
  inv_close

/-- `next_async` on a generator that ended with an exception: `_caller` is stored, then `no_more_values` is thrown -/
theorem inv_post_stuck {s : State} (h : Inv s) (hns : inSync s = false) (hf : s.bst = .final) (_hc : s.caller = .none)
    (e : List Ev) :
    Inv { s with caller := .awt, stuck := true, seen := s.seen ++ [.nomore], post := s.post ++ [.nomore], evs := e } := by
  inv_cases h
  inv_close

@[simp] theorem setArg_bst (s : State) (a : Nat) : (setArg s a).bst = s.bst := by
  unfold setArg; split <;> rfl
@[simp] theorem setArg_done (s : State) (a : Nat) : (setArg s a).done = s.done := by
  unfold setArg; split <;> rfl
@[simp] theorem setArg_caller (s : State) (a : Nat) : (setArg s a).caller = s.caller := by
  unfold setArg; split <;> rfl
@[simp] theorem setArg_cons (s : State) (a : Nat) : (setArg s a).cons = s.cons := by
  unfold setArg; split <;> rfl
@[simp] theorem setArg_atAcc (s : State) (a : Nat) : (setArg s a).atAcc = s.atAcc := by
  unfold setArg; split <;> rfl
@[simp] theorem setArg_ret (s : State) (a : Nat) : (setArg s a).ret = s.ret := by
  unfold setArg; split <;> rfl
@[simp] theorem setArg_acc (s : State) (a : Nat) : (setArg s a).acc = s.acc := by
  unfold setArg; split <;> rfl

set_option maxHeartbeats 800000 in
theorem inv_setArg {s : State} (h : Inv s) (hm : midAccess s = false) (a : Nat) : Inv (setArg s a) := by
  unfold setArg
  inv_cases h
  split <;> inv_close

set_option maxHeartbeats 1600000 in
/-- `next_sync` arms `_internal` for the blocking wait and resumes the body -/
theorem inv_arm_sync {s : State} (h : Inv s) (hal : s.alive = true) (hc : s.caller = .none) (hns : inSync s = false) (hf : s.bst ≠ .final)
    (kind : SyncKind) (a : Nat) :
    Inv (resumeInQueue { setArg s a with block := false, caller := .internal, ifn := .sync, cons := .inSync kind }) := by
  obtain ⟨hm, hst, hcp, hfp⟩ := idle_facts h hc
  have hb := idle_bst hm hf
  have hci : s.cons = .idle := by
    rw [inSync_eq] at hns
    cases hcs : s.cons <;> simp_all
  apply inv_resumeInQueue
  · unfold setArg
    inv_cases h
    split <;> inv_close
  · simpa using Or.elim hb Or.inl (fun h => Or.inr (Or.inl h))
  · simpa using h.acc_ret

set_option maxHeartbeats 1600000 in
/-- `next_async` stores the consumer's awaiter and transfers into the body -/
theorem inv_arm_awt {s : State} (h : Inv s) (hal : s.alive = true) (hc : s.caller = .none) (hns : inSync s = false) (hf : s.bst ≠ .final)
    (a : Nat) (m : AwtKind) :
    Inv (resumeBody { setArg s a with caller := .awt, cons := .parked, awtKind := m }) := by
  obtain ⟨hm, hst, hcp, hfp⟩ := idle_facts h hc
  have hb := idle_bst hm hf
  have hci : s.cons = .idle := by
    rw [inSync_eq] at hns
    cases hcs : s.cons <;> simp_all
  apply inv_resumeBody
  · unfold setArg
    inv_cases h
    split <;> inv_close
  · simpa using Or.elim hb Or.inl (fun h => Or.inr (Or.inl h))
  · simpa using h.acc_ret

set_option maxHeartbeats 1600000 in
/-- `next_awt::subscribe`: `next_async` stores the consumer's callback awaiter, the body is activated by `resume_in_queue` -/
theorem inv_arm_sub {s : State} (h : Inv s) (hal : s.alive = true) (hc : s.caller = .none) (hns : inSync s = false) (hf : s.bst ≠ .final)
    (a : Nat) (m : AwtKind) :
    Inv (resumeInQueue { setArg s a with caller := .awt, cons := .parked, awtKind := m }) := by
  obtain ⟨hm, hst, hcp, hfp⟩ := idle_facts h hc
  have hb := idle_bst hm hf
  have hci : s.cons = .idle := by
    rw [inSync_eq] at hns
    cases hcs : s.cons <;> simp_all
  apply inv_resumeInQueue
  · unfold setArg
    inv_cases h
    split <;> inv_close
  · simpa using Or.elim hb Or.inl (fun h => Or.inr (Or.inl h))
  · simpa using h.acc_ret

set_option maxHeartbeats 1600000 in
/-- `next_future` stores the promise, arms `_internal` and resumes the body -/
theorem inv_arm_fut {s : State} (h : Inv s) (hal : s.alive = true) (hc : s.caller = .none) (hns : inSync s = false) (hf : s.bst ≠ .final)
    (a : Nat) :
    Inv (resumeInQueue { setArg s a with awaiting := true, caller := .internal, ifn := .future, fut := .pending }) := by
  obtain ⟨hm, hst, hcp, hfp⟩ := idle_facts h hc
  have hb := idle_bst hm hf
  have hci : s.cons = .idle := by
    rw [inSync_eq] at hns
    cases hcs : s.cons <;> simp_all
  apply inv_resumeInQueue
  · unfold setArg
    inv_cases h
    split <;> inv_close
  · simpa using Or.elim hb Or.inl (fun h => Or.inr (Or.inl h))
  · simpa using h.acc_ret

theorem inv_syncGo {s : State} (h : Inv s) (hal : s.alive = true) (hc : s.caller = .none) (hns : inSync s = false)
    (kind : SyncKind) (a : Nat) : Inv (syncGo (setArg s a) kind).1 := by
  obtain ⟨hm, hst, hcp, hfp⟩ := idle_facts h hc
  have h1 := inv_setArg h hm a
  unfold syncGo
  split
  · rename_i hd
    exact inv_endSync (inv_post_fin h1 (by simpa [inSync_eq] using hns) hd _) kind false
  · split
    · rename_i hd hf
      exact inv_post_nomore h1 (by simpa [inSync_eq] using hns) (by simpa using hf)
    · rename_i hd hf
      exact inv_arm_sync h hal hc hns (by simpa using hf) kind a

theorem inv_stepSyncBegin {s : State} (h : Inv s) (kind : SyncKind) (a : Nat) : Inv (stepSyncBegin s kind a).1 := by
  unfold stepSyncBegin
  split
  · exact h
  · split
    · exact h
    · split
      · exact h
      · rename_i h1 h2 h3
        exact inv_syncGo h (by simpa using h1) (by simpa using h3) (by simpa using h2) kind a

theorem inv_stepSyncEnd {s : State} (h : Inv s) : Inv (stepSyncEnd s).1 := by
  unfold stepSyncEnd
  split
  · rename_i kind hk
    split
    · rename_i hb
      apply inv_endSync
      have hm : midAccess s = false := by
        cases hm : midAccess s with
        | false => rfl
        | true =>
            have hcn : s.caller ≠ .none := h.busy_iff.mpr (Or.inl hm)
            have hsf := h.stuck_fin
            have hca := h.c_awt
            have hci := h.c_int
            rw [midAccess_eq] at hm
            cases hc : s.caller <;> simp_all [inSync_eq] <;> grind [midB]
      inv_cases h
      inv_close
    · exact h
  · exact h

theorem inv_stepValue {s : State} (h : Inv s) : Inv (stepValue s).1 := by
  unfold stepValue
  repeat (first | exact h | split)

theorem inv_stepActive {s : State} (h : Inv s) : Inv (stepActive s).1 := by
  unfold stepActive
  repeat (first | exact h | split)

theorem inv_anextGo {s : State} (h : Inv s) (hal : s.alive = true) (hc : s.caller = .none) (hns : inSync s = false)
    (a : Nat) : Inv (anextGo (setArg s a)).1 := by
  obtain ⟨hm, hst, hcp, hfp⟩ := idle_facts h hc
  have h1 := inv_setArg h hm a
  unfold anextGo
  split
  · rename_i hd
    exact inv_post_fin h1 (by simpa [inSync_eq] using hns) hd _
  · split
    · rename_i hd hf
      exact inv_post_stuck h1 (by simpa [inSync_eq] using hns) (by simpa using hf) (by simpa using hc) _
    · rename_i hd hf
      exact inv_arm_awt h hal hc hns (by simpa using hf) a .coro

theorem inv_stepAnext {s : State} (h : Inv s) (a : Nat) : Inv (stepAnext s a).1 := by
  unfold stepAnext
  split
  · exact h
  · split
    · exact h
    · split
      · exact h
      · rename_i h1 h2 h3
        exact inv_anextGo h (by simpa using h1) (by simpa using h3) (by simpa using h2) a

theorem inv_subGo {s : State} (h : Inv s) (hal : s.alive = true) (hc : s.caller = .none) (hns : inSync s = false)
    (a : Nat) : Inv (subGo (setArg s a)).1 := by
  obtain ⟨hm, hst, hcp, hfp⟩ := idle_facts h hc
  have h1 := inv_setArg h hm a
  unfold subGo
  split
  · rename_i hf
    exact inv_post_stuck h1 (by simpa [inSync_eq] using hns) (by simpa using hf) (by simpa using hc) _
  · rename_i hf
    exact inv_arm_sub h hal hc hns (by simpa using hf) a .cb

theorem inv_stepSub {s : State} (h : Inv s) (a : Nat) : Inv (stepSub s a).1 := by
  unfold stepSub
  split
  · exact h
  · split
    · exact h
    · split
      · exact h
      · rename_i h1 h2 h3
        exact inv_subGo h (by simpa using h1) (by simpa using h3) (by simpa using h2) a

theorem inv_stepKeep {s : State} (h : Inv s) (a : Nat) : Inv (stepKeep s a).1 := by
  unfold stepKeep
  split
  · exact h
  · split
    · exact h
    · split
      · exact h
      · rename_i h1 h2 h3
        have hc : s.caller = .none := by simpa using h3
        obtain ⟨hm, _, _, _⟩ := idle_facts h hc
        exact inv_kfields (inv_setArg h hm a) _ _

/-- a consultation of the kept object that has to ask the generator: the access of `operator bool`, with the argument stored when
the object was created -/
theorem inv_arm_sync_kept {s : State} (h : Inv s) (hal : s.alive = true) (hc : s.caller = .none) (hns : inSync s = false)
    (hf : s.bst ≠ .final) (harg : s.mode = true → s.arg = some s.lastArg) :
    Inv (resumeInQueue { s with block := false, caller := .internal, ifn := .sync, cons := .inSync .kept }) := by
  obtain ⟨hm, hst, hcp, hfp⟩ := idle_facts h hc
  have hb := idle_bst hm hf
  have hci : s.cons = .idle := by
    rw [inSync_eq] at hns
    cases hcs : s.cons <;> simp_all
  apply inv_resumeInQueue
  · inv_cases h
    inv_close
  · simpa using Or.elim hb Or.inl (fun h => Or.inr (Or.inl h))
  · simpa using h.acc_ret

theorem inv_arm_awt_kept {s : State} (h : Inv s) (hal : s.alive = true) (hc : s.caller = .none) (hns : inSync s = false)
    (hf : s.bst ≠ .final) (harg : s.mode = true → s.arg = some s.lastArg) :
    Inv (resumeBody { s with caller := .awt, cons := .parked, awtKind := .kept }) := by
  obtain ⟨hm, hst, hcp, hfp⟩ := idle_facts h hc
  have hb := idle_bst hm hf
  have hci : s.cons = .idle := by
    rw [inSync_eq] at hns
    cases hcs : s.cons <;> simp_all
  apply inv_resumeBody
  · inv_cases h
    inv_close
  · simpa using Or.elim hb Or.inl (fun h => Or.inr (Or.inl h))
  · simpa using h.acc_ret

theorem keptArg_last {s : State} (h : Inv s) (a : Nat) (hk : keptArgOk s a = true) :
    s.mode = true → s.arg = some s.lastArg := by
  intro hm
  have hl := h.arg_last hm
  simp [keptArgOk, hm] at hk
  rcases hl with hl | hl
  · rw [hl] at hk; exact absurd hk (by simp)
  · exact hl

theorem inv_syncGo_kept {s : State} (h : Inv s) (hal : s.alive = true) (hc : s.caller = .none) (hns : inSync s = false)
    (harg : s.mode = true → s.arg = some s.lastArg) : Inv (syncGo s .kept).1 := by
  unfold syncGo
  split
  · rename_i hd
    exact inv_endSync (inv_post_fin h hns hd _) .kept false
  · split
    · rename_i hd hf
      exact inv_post_nomore h hns (by simpa using hf)
    · rename_i hd hf
      exact inv_arm_sync_kept h hal hc hns (by simpa using hf) harg

theorem inv_stepKtest {s : State} (h : Inv s) : Inv (stepKtest s).1 := by
  unfold stepKtest
  split
  · exact h
  · split
    · exact h
    · split
      · exact h
      · rename_i h1 h2 _ a hk
        split
        · exact h
        · split
          · exact h
          · split
            · exact h
            · rename_i h3 h4 h5
              exact inv_syncGo_kept h (by simpa using h1) (by simpa using h4) (by simpa using h2)
                (keptArg_last h a (by simpa using h5))

theorem inv_kawaitGo {s : State} (h : Inv s) (hal : s.alive = true) (hc : s.caller = .none) (hns : inSync s = false)
    (harg : s.mode = true → s.arg = some s.lastArg) : Inv (kawaitGo s).1 := by
  unfold kawaitGo
  split
  · rename_i hd
    exact inv_kfields (inv_post_fin h hns hd _) _ _
  · split
    · rename_i hd hf
      exact inv_post_stuck h hns (by simpa using hf) hc _
    · rename_i hd hf
      exact inv_arm_awt_kept h hal hc hns (by simpa using hf) harg

theorem inv_stepKawait {s : State} (h : Inv s) : Inv (stepKawait s).1 := by
  unfold stepKawait
  split
  · exact h
  · split
    · exact h
    · split
      · exact h
      · rename_i h1 h2 _ a hk
        split
        · exact h
        · split
          · exact h
          · rename_i h4 h5
            exact inv_kawaitGo h (by simpa using h1) (by simpa using h4) (by simpa using h2)
              (keptArg_last h a (by simpa using h5))

theorem inv_callGo {s : State} (h : Inv s) (hal : s.alive = true) (hc : s.caller = .none) (hns : inSync s = false)
    (a : Nat) : Inv (callGo (setArg s a)).1 := by
  obtain ⟨hm, hst, hcp, hfp⟩ := idle_facts h hc
  have h1 := inv_setArg h hm a
  unfold callGo
  split
  · rename_i hf
    exact inv_post_nomore h1 (by simpa [inSync_eq] using hns) (by simpa using hf)
  · rename_i hf
    unfold futRes
    exact inv_arm_fut h hal hc hns (by simpa using hf) a

theorem inv_stepCall {s : State} (h : Inv s) (a : Nat) : Inv (stepCall s a).1 := by
  unfold stepCall
  split
  · exact h
  · split
    · exact h
    · split
      · exact h
      · rename_i h1 h2 h3
        exact inv_callGo h (by simpa using h1) (by simpa using h3) (by simpa using h2) a

theorem inv_stepFutWait {s : State} (h : Inv s) : Inv (stepFutWait s).1 := by
  unfold stepFutWait
  repeat (first | exact h | split)

theorem inv_stepFutGet {s : State} (h : Inv s) : Inv (stepFutGet s).1 := by
  unfold stepFutGet
  repeat (first | exact h | split)

theorem inv_stepFutRead {s : State} (h : Inv s) (r : Reader) : Inv (stepFutRead s r).1 := by
  unfold stepFutRead
  split
  · exact h
  · split
    · exact h
    · rename_i hp
      split
      · exact h
      · inv_cases h
        inv_close
    · exact inv_evs h _

set_option maxHeartbeats 800000 in
theorem inv_stepComplete {s : State} (h : Inv s) (k : Nat) : Inv (stepComplete s k).1 := by
  unfold stepComplete
  split
  · exact h
  · rename_i hk
    split
    · rename_i hb
      have hb' : s.alive = true ∧ s.bst = .await k := by simpa using hb
      apply inv_resumeBody
      · inv_cases h
        inv_close
      · exact Or.inr (Or.inr ⟨k, hb'.2⟩)
      · intro hy; simp [hb'.2] at hy
    · rename_i hb
      have hb' : s.alive = true → ¬ s.bst = .await k := by simpa using hb
      have hld := h.live_dead
      inv_cases h
      constructor <;> simp_all [pend_eq, inSync_eq, midAccess_eq]
      all_goals first | assumption | grind [midB]

set_option maxHeartbeats 1600000 in
theorem inv_stepDestroy {s : State} (h : Inv s) : Inv (stepDestroy s).1 := by
  unfold stepDestroy
  split
  · exact h
  · split
    · exact h
    · split
      · exact h
      · have hgl : ∀ g, (s.dtors ++ s.live).count g + ([] : List Nat).count g = if g < s.made then 1 else 0 := by
          intro g; have := h.guards g; simpa [List.count_append] using this
        rename_i h1 h2 h3
        have hal : s.alive = true := by simpa using h1
        have hns : inSync s = false := by simpa using h2
        have hif : inflight s = false := by simpa using h3
        cases hb : s.bst with
        | await k => exact h
        | run => exact h
        | init =>
            dsimp only
            inv_cases h
            constructor
            case guards => exact hgl
            all_goals (clear hgl; simp_all [pend_eq, inSync_eq, midAccess_eq] <;> first | assumption | grind)
        | yield =>
            dsimp only
            inv_cases h
            constructor
            case guards => exact hgl
            all_goals (clear hgl; simp_all [pend_eq, inSync_eq, midAccess_eq] <;> first | assumption | grind)
        | final =>
            dsimp only
            inv_cases h
            constructor
            case guards => exact hgl
            all_goals (clear hgl; simp_all [pend_eq, inSync_eq, midAccess_eq] <;> first | assumption | grind)

theorem inv_stepItBegin {s : State} (h : Inv s) : Inv (stepItBegin s).1 := by
  unfold stepItBegin
  split
  · exact h
  · split
    · exact h
    · split
      · exact h
      · rename_i h1 h2 h3
        split
        · exact h
        · exact inv_syncGo h (by simpa using h1) (by simpa using h3) (by simpa using h2) _ _

theorem inv_stepItInc {s : State} (h : Inv s) : Inv (stepItInc s).1 := by
  unfold stepItInc
  split
  · exact h
  · split
    · exact h
    · split
      · exact h
      · rename_i h1 h2 h3
        split
        · exact h
        · split
          · exact h
          · exact inv_syncGo h (by simpa using h1) (by simpa using h3) (by simpa using h2) _ _

theorem inv_stepItPostInc {s : State} (h : Inv s) : Inv (stepItPostInc s).1 := by
  unfold stepItPostInc
  split
  · exact h
  · split
    · exact h
    · split
      · exact h
      · rename_i h1 h2 h3
        split
        · exact h
        · split
          · exact h
          · split
            · exact inv_syncGo h (by simpa using h1) (by simpa using h3) (by simpa using h2) _ _
            · exact h

theorem inv_stepItDeref {s : State} (h : Inv s) : Inv (stepItDeref s).1 := by
  unfold stepItDeref
  repeat (first | exact h | exact inv_stepValue h | split)

theorem inv_stepItIsEnd {s : State} (h : Inv s) : Inv (stepItIsEnd s).1 := by
  unfold stepItIsEnd
  repeat (first | exact h | split)

theorem inv_step {s : State} (h : Inv s) (op : Op) : Inv (step s op).1 := by
  cases op with
  | syncBegin a => exact inv_stepSyncBegin h _ a
  | syncEnd => exact inv_stepSyncEnd h
  | value => exact inv_stepValue h
  | active => exact inv_stepActive h
  | anext a => exact inv_stepAnext h a
  | sub a => exact inv_stepSub h a
  | keep a => exact inv_stepKeep h a
  | ktest => exact inv_stepKtest h
  | kawait => exact inv_stepKawait h
  | call a => exact inv_stepCall h a
  | futWait => exact inv_stepFutWait h
  | futGet => exact inv_stepFutGet h
  | futAwait => exact inv_stepFutRead h _
  | futHas => exact inv_stepFutRead h _
  | itBegin => exact inv_stepItBegin h
  | itInc => exact inv_stepItInc h
  | itDeref => exact inv_stepItDeref h
  | itIsEnd => exact inv_stepItIsEnd h
  | itPostInc => exact inv_stepItPostInc h
  | itDrop => exact inv_it h none
  | complete k => exact inv_stepComplete h k
  | destroy => exact inv_stepDestroy h
  | ctx b => exact inv_coro h b

/-- the invariant holds after every operation list — induction over the list -/
theorem inv_run (s : State) (ops : List Op) (h : Inv s) : Inv (run s ops) := by
  induction ops generalizing s with
  | nil => exact h
  | cons op rest ih => exact ih _ (inv_step h op)

/-! ### what never changes: the whole script and the generator's type -/
def konst (s : State) : List Act × Bool := (s.script0, s.mode)

@[simp] theorem konst_wakeReader (s : State) (i : Item) : konst (wakeReader s i) = konst s := by
  unfold wakeReader; split <;> rfl
@[simp] theorem konst_unblockFuture (s : State) : konst (unblockFuture s) = konst s := by
  unfold unblockFuture; split
  · split
    · rfl
    · rw [konst_wakeReader]; rfl
  · rfl
@[simp] theorem konst_deliver (s : State) : konst (deliver s) = konst s := by
  unfold deliver; split
  · rfl
  · split
    · rfl
    · rfl
    · rw [konst_unblockFuture]; rfl
  · rfl
@[simp] theorem konst_finish (s : State) (b : Bool) : konst (finish s b) = konst s := by
  unfold finish; rw [konst_deliver]; rfl
@[simp] theorem konst_yieldAt (s : State) (v : Nat) : konst (yieldAt s v) = konst s := by
  unfold yieldAt; rw [konst_deliver]; rfl
@[simp] theorem konst_yieldAccAt (s : State) (c : Nat) : konst (yieldAccAt s c) = konst s := by
  unfold yieldAccAt; rw [konst_deliver]; rfl
@[simp] theorem konst_recvArg (s : State) : konst (recvArg s) = konst s := by
  unfold recvArg; split
  · split <;> rfl
  · rfl
@[simp] theorem konst_seeAcc (s : State) : konst (seeAcc s) = konst s := by
  unfold seeAcc; split <;> rfl
theorem konst_exec : ∀ (sc : List Act) (s : State), konst (exec sc s) = konst s
  | [], s => by unfold exec; simp
  | .yield v :: rest, s => by unfold exec; rw [konst_yieldAt]; rfl
  | .yieldAcc c :: rest, s => by unfold exec; rw [konst_yieldAccAt]; rfl
  | .yieldNull :: rest, s => by unfold exec; rw [konst_exec, konst_recvArg]; rfl
  | .awaitReady :: rest, s => by unfold exec; rw [konst_exec]; rfl
  | .pause :: rest, s => by unfold exec; rw [konst_exec]; rfl
  | .await k :: rest, s => by
      unfold exec; split
      · rw [konst_exec]; rfl
      · rfl
  | .guard :: rest, s => by unfold exec; rw [konst_exec]; rfl
  | .throw :: rest, s => by unfold exec; simp
  | .ret :: rest, s => by unfold exec; simp
@[simp] theorem konst_resumeBody (s : State) : konst (resumeBody s) = konst s := by
  unfold resumeBody; split
  · rw [konst_exec]; rfl
  · rw [konst_exec, konst_seeAcc, konst_recvArg]; rfl
  · rw [konst_exec]; rfl
  · rfl
@[simp] theorem konst_resumeInQueue (s : State) : konst (resumeInQueue s) = konst s := by
  unfold resumeInQueue; rw [konst_resumeBody]; split <;> rfl
@[simp] theorem konst_setArg (s : State) (a : Nat) : konst (setArg s a) = konst s := by
  unfold setArg; split <;> rfl
@[simp] theorem konst_endSync (s : State) (k : SyncKind) (b : Bool) : konst (endSync s k b).1 = konst s := by
  unfold endSync; cases k <;> rfl
@[simp] theorem konst_syncGo (s : State) (k : SyncKind) : konst (syncGo s k).1 = konst s := by
  unfold syncGo; split
  · rw [konst_endSync]; rfl
  · split
    · rfl
    · dsimp only; rw [konst_resumeInQueue]; rfl
theorem konst_step (s : State) (op : Op) : konst (step s op).1 = konst s := by
  cases op <;> simp only [step]
  case syncBegin a => unfold stepSyncBegin; repeat (first | rfl | (rw [konst_syncGo, konst_setArg]) | split)
  case syncEnd => unfold stepSyncEnd; repeat (first | rfl | (rw [konst_endSync]; rfl) | split)
  case value => unfold stepValue; repeat (first | rfl | split)
  case active => unfold stepActive; repeat (first | rfl | split)
  case anext a =>
    unfold stepAnext anextGo
    repeat (first | rfl | (dsimp only; rw [konst_resumeBody]; exact konst_setArg _ _) | exact konst_setArg _ _ | split)
  case sub a =>
    unfold stepSub subGo
    repeat (first | rfl | (dsimp only; rw [konst_resumeInQueue]; exact konst_setArg _ _) | exact konst_setArg _ _ | split)
  case keep a => unfold stepKeep; repeat (first | rfl | exact konst_setArg _ _ | split)
  case ktest => unfold stepKtest; repeat (first | rfl | (rw [konst_syncGo]) | split)
  case kawait =>
    unfold stepKawait kawaitGo
    repeat (first | rfl | (dsimp only; rw [konst_resumeBody]; rfl) | split)
  case call a =>
    unfold stepCall callGo futRes
    repeat (first | rfl | (dsimp only; rw [konst_resumeInQueue]; exact konst_setArg _ _) | exact konst_setArg _ _ | split)
  case futWait => unfold stepFutWait; repeat (first | rfl | split)
  case futGet => unfold stepFutGet; repeat (first | rfl | split)
  case futAwait => unfold stepFutRead; repeat (first | rfl | split)
  case futHas => unfold stepFutRead; repeat (first | rfl | split)
  case itBegin => unfold stepItBegin; repeat (first | rfl | (rw [konst_syncGo, konst_setArg]) | split)
  case itInc => unfold stepItInc; repeat (first | rfl | (rw [konst_syncGo, konst_setArg]) | split)
  case itDeref => unfold stepItDeref stepValue; repeat (first | rfl | split)
  case itIsEnd => unfold stepItIsEnd; repeat (first | rfl | split)
  case itPostInc => unfold stepItPostInc; repeat (first | rfl | (rw [konst_syncGo, konst_setArg]) | split)
  case itDrop => rfl
  case complete k => unfold stepComplete; repeat (first | rfl | (dsimp only; rw [konst_resumeBody]; rfl) | split)
  case destroy => unfold stepDestroy; repeat (first | rfl | split)
  case ctx b => rfl

theorem konst_run (s : State) (ops : List Op) : konst (run s ops) = konst s := by
  induction ops generalizing s with
  | nil => rfl
  | cons op rest ih => exact (ih _).trans (konst_step s op)

/-! ### where the body stands after it has run -/
def pos (s : State) : BSt × List Act := (s.bst, s.script)

@[simp] theorem pos_wakeReader (s : State) (i : Item) : pos (wakeReader s i) = pos s := by
  unfold wakeReader; split <;> rfl
@[simp] theorem pos_unblockFuture (s : State) : pos (unblockFuture s) = pos s := by
  unfold unblockFuture; split
  · split
    · rfl
    · rw [pos_wakeReader]; rfl
  · rfl
@[simp] theorem pos_deliver (s : State) : pos (deliver s) = pos s := by
  unfold deliver; split
  · rfl
  · split
    · rfl
    · rfl
    · rw [pos_unblockFuture]; rfl
  · rfl
theorem pos_finish (s : State) (b : Bool) : pos (finish s b) = (.final, []) := by
  unfold finish; rw [pos_deliver]; rfl
theorem pos_yieldAt (s : State) (v : Nat) : pos (yieldAt s v) = (.yield, s.script) := by
  unfold yieldAt; rw [pos_deliver]; rfl
theorem pos_yieldAccAt (s : State) (c : Nat) : pos (yieldAccAt s c) = (.yield, s.script) := by
  unfold yieldAccAt; rw [pos_deliver]; rfl
@[simp] theorem pos_recvArg (s : State) : pos (recvArg s) = pos s := by
  unfold recvArg; split
  · split <;> rfl
  · rfl
@[simp] theorem pos_seeAcc (s : State) : pos (seeAcc s) = pos s := by
  unfold seeAcc; split <;> rfl

/-- after running, the body is parked at a `co_yield`, parked on an awaited operation, or finished — and unless it finished,
the rest of its script got strictly shorter -/
theorem exec_pos : ∀ (sc : List Act) (s : State),
    ((exec sc s).bst = .final ∨ (exec sc s).script.length < sc.length) ∧
    ((exec sc s).bst = .final ∨ (exec sc s).bst = .yield ∨ ∃ k, (exec sc s).bst = .await k)
  | [], s => by
      unfold exec; have := pos_finish s false; simp only [pos, Prod.mk.injEq] at this; simp [this.1]
  | .yield v :: rest, s => by
      unfold exec
      have := pos_yieldAt { s with script := rest } v
      simp only [pos, Prod.mk.injEq] at this; simp [this.1, this.2]
  | .yieldAcc c :: rest, s => by
      unfold exec
      have := pos_yieldAccAt { s with script := rest } c
      simp only [pos, Prod.mk.injEq] at this; simp [this.1, this.2]
  | .yieldNull :: rest, s => by
      unfold exec; have := exec_pos rest (recvArg { s with script := rest })
      refine ⟨this.1.imp id (fun h => ?_), this.2⟩; simp; omega
  | .awaitReady :: rest, s => by
      unfold exec; have := exec_pos rest { s with script := rest }
      refine ⟨this.1.imp id (fun h => ?_), this.2⟩; simp; omega
  | .pause :: rest, s => by
      unfold exec; have := exec_pos rest { s with script := rest }
      refine ⟨this.1.imp id (fun h => ?_), this.2⟩; simp; omega
  | .await k :: rest, s => by
      unfold exec; split
      · have := exec_pos rest { s with script := rest }
        refine ⟨this.1.imp id (fun h => ?_), this.2⟩; simp; omega
      · simp
  | .guard :: rest, s => by
      unfold exec
      have := exec_pos rest { s with script := rest, live := s.live ++ [s.made], made := s.made + 1 }
      refine ⟨this.1.imp id (fun h => ?_), this.2⟩; simp; omega
  | .throw :: rest, s => by
      unfold exec; have := pos_finish s true; simp only [pos, Prod.mk.injEq] at this; simp [this.1]
  | .ret :: rest, s => by
      unfold exec; have := pos_finish s false; simp only [pos, Prod.mk.injEq] at this; simp [this.1]

theorem exec_not_run (sc : List Act) (s : State) : (exec sc s).bst ≠ .run := by
  rcases (exec_pos sc s).2 with h | h | ⟨k, h⟩ <;> simp [h]

theorem resumeBody_not_run (s : State) (h : s.bst ≠ .run) : (resumeBody s).bst ≠ .run := by
  unfold resumeBody; split
  · exact exec_not_run _ _
  · exact exec_not_run _ _
  · exact exec_not_run _ _
  · exact h

theorem resumeInQueue_not_run (s : State) (h : s.bst ≠ .run) : (resumeInQueue s).bst ≠ .run := by
  unfold resumeInQueue; split
  · exact resumeBody_not_run _ h
  · exact resumeBody_not_run _ h

@[simp] theorem endSync_bst (s : State) (k : SyncKind) (b : Bool) : (endSync s k b).1.bst = s.bst := by
  unfold endSync; cases k <;> rfl

theorem syncGo_not_run (s : State) (k : SyncKind) (h : s.bst ≠ .run) : (syncGo s k).1.bst ≠ .run := by
  unfold syncGo; split
  · simpa using h
  · split
    · exact h
    · exact resumeInQueue_not_run _ h

/-- `run` is only an intermediate position inside one operation -/
theorem step_not_run (s : State) (op : Op) (h : s.bst ≠ .run) : (step s op).1.bst ≠ .run := by
  have hs : ∀ a, (setArg s a).bst ≠ .run := fun a => by simpa using h
  cases op <;> simp only [step]
  case syncBegin a => unfold stepSyncBegin; repeat (first | exact h | exact syncGo_not_run _ _ (hs _) | split)
  case syncEnd => unfold stepSyncEnd; repeat (first | exact h | (simpa using h) | split)
  case value => unfold stepValue; repeat (first | exact h | split)
  case active => unfold stepActive; repeat (first | exact h | split)
  case anext a =>
    unfold stepAnext anextGo
    repeat (first | exact h | exact hs _ | exact resumeBody_not_run _ (hs _) | split)
  case sub a =>
    unfold stepSub subGo
    repeat (first | exact h | exact hs _ | exact resumeInQueue_not_run _ (hs _) | split)
  case keep a => unfold stepKeep; repeat (first | exact h | exact hs _ | split)
  case ktest => unfold stepKtest; repeat (first | exact h | exact syncGo_not_run _ _ h | split)
  case kawait =>
    unfold stepKawait kawaitGo
    repeat (first | exact h | exact resumeBody_not_run _ h | split)
  case call a =>
    unfold stepCall callGo futRes
    repeat (first | exact h | exact hs _ | exact resumeInQueue_not_run _ (hs _) | split)
  case futWait => unfold stepFutWait; repeat (first | exact h | split)
  case futGet => unfold stepFutGet; repeat (first | exact h | split)
  case futAwait => unfold stepFutRead; repeat (first | exact h | split)
  case futHas => unfold stepFutRead; repeat (first | exact h | split)
  case itBegin => unfold stepItBegin; repeat (first | exact h | exact syncGo_not_run _ _ (hs _) | split)
  case itInc => unfold stepItInc; repeat (first | exact h | exact syncGo_not_run _ _ (hs _) | split)
  case itDeref => unfold stepItDeref stepValue; repeat (first | exact h | split)
  case itIsEnd => unfold stepItIsEnd; repeat (first | exact h | split)
  case itPostInc => unfold stepItPostInc; repeat (first | exact h | exact syncGo_not_run _ _ (hs _) | split)
  case itDrop => exact h
  case complete k => unfold stepComplete; repeat (first | exact h | exact resumeBody_not_run _ h | split)
  case destroy => unfold stepDestroy; repeat (first | exact h | split)
  case ctx b => exact h

theorem run_not_run (s : State) (ops : List Op) (h : s.bst ≠ .run) : (run s ops).bst ≠ .run := by
  induction ops generalizing s with
  | nil => exact h
  | cons op rest ih => exact ih _ (step_not_run s op h)


/-- `destroy` answers `destroyed` only when it really destroyed the frame -/
theorem destroyed_dead (s : State) (hd : (stepDestroy s).2 = .destroyed) : (stepDestroy s).1.alive = false := by
  unfold stepDestroy at hd ⊢
  by_cases h1 : s.alive = true <;> by_cases h2 : inSync s = true <;> by_cases h3 : inflight s = true <;>
    simp only [h1, h2, h3] at hd ⊢ <;> try (simp at hd; done)
  cases hb : s.bst <;> simp only [hb] at hd ⊢ <;> first | rfl | (simp at hd; done)


end Cocls.Gen
