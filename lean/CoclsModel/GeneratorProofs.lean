import CoclsModel.Generator
/-!
Invariant of the generator model (`CoclsModel/Generator.lean`) and its preservation by every body statement and every
consumer operation; `inv_run` = induction over the operation list.  Helper lemmas only — the property theorems are in
`Props/C13.lean`.
-/
namespace Cocls.Gen

/-- the body is inside an access: running, or parked on an awaited operation -/
def midAccess (s : State) : Bool :=
  match s.bst with
  | .run => true
  | .await _ => true
  | _ => false

/-- the item handed over to a synchronous access that has not yet returned to the consumer (`_block` is set, the consumer
thread has not left `_block.wait` yet) -/
def pend (s : State) : List Item := if inSync s && s.block then [cur s] else []

structure Inv (s : State) : Prop where
  /-- no null `_caller` / `_arg` / `_ret` was dereferenced -/
  noub : s.ub = false
  /-- delivered ++ handed over ++ still to come = the whole sequence -/
  seq_run : s.bst ≠ .final → s.obs ++ pend s ++ expected s.script = expected s.script0
  seq_fin : s.bst = .final → s.obs ++ pend s = expected s.script0
  flags_run : s.bst ≠ .final → s.done = false ∧ s.exp = false
  flags_fin : s.bst = .final → s.done = !s.exp
  /-- parked at a `co_yield`: `_ret` points at the value that was delivered last -/
  ret_yield : s.bst = .yield → s.ret ≠ none ∧ (s.obs ++ pend s).getLast? = s.ret.map Item.val
  ret_fin : s.bst = .final → s.ret = none
  /-- `_caller` is set exactly while the body is inside an access — or after `next_async` threw -/
  busy_iff : s.caller ≠ .none ↔ (midAccess s = true ∨ s.stuck = true)
  stuck_fin : s.stuck = true → s.bst = .final ∧ s.exp = true ∧ s.caller = .awt
  /-- whoever `_caller` designates is really waiting -/
  c_awt : s.caller = .awt → s.stuck = false → s.cons = .parked ∧ s.fut ≠ .pending
  c_int : s.caller = .internal →
      (s.ifn = .sync ∧ inSync s = true ∧ s.block = false ∧ s.fut ≠ .pending) ∨
      (s.ifn = .future ∧ s.awaiting = true ∧ s.fut = .pending ∧ s.cons = .idle)
  /-- nobody waits while the body is not inside an access -/
  c_none : midAccess s = false → s.cons ≠ .parked ∧ s.fut ≠ .pending ∧ (inSync s = true → s.block = true)
  reader_pending : s.reader ≠ none → s.fut = .pending
  /-- while the body runs, `*_arg` is the argument of the access that resumed it -/
  arg_ok : s.mode = true → midAccess s = true → s.arg = some s.lastArg
  /-- every guard constructed so far is either in scope or was destroyed exactly once -/
  guards : ∀ g, s.dtors.count g + s.live.count g = if g < s.made then 1 else 0
  live_fin : s.bst = .final → s.live = []
  live_dead : s.alive = false → s.live = [] ∧ midAccess s = false
  got_ok : ∀ p ∈ s.gotLog, p.1 = p.2
  post_end : ∀ e ∈ s.post, e = .fin ∨ e = .nomore
  post_fin : s.post ≠ [] → s.bst = .final
  post_exc : s.exp = true → ∀ e ∈ s.post, e = .nomore
  await_unres : ∀ k, s.bst = .await k → k ∉ s.resolved

/-! ### normal forms: the derived notions as functions of the fields they read, so that `simp` sees through record updates -/

def curOf (done exp : Bool) (ret : Option Nat) : Item :=
  if done then .fin else if exp then .exc else match ret with
    | some v => .val v
    | none => .notready
def inSyncC : Cons → Bool
  | .inSync _ => true
  | _ => false
def midB : BSt → Bool
  | .run => true
  | .await _ => true
  | _ => false
def pendOf (c : Cons) (block done exp : Bool) (ret : Option Nat) : List Item :=
  if inSyncC c && block then [curOf done exp ret] else []

theorem cur_eq (s : State) : cur s = curOf s.done s.exp s.ret := by
  unfold cur readVal curOf; cases s.ret <;> rfl
theorem inSync_eq (s : State) : inSync s = inSyncC s.cons := by
  unfold inSync inSyncC; cases s.cons <;> rfl
theorem midAccess_eq (s : State) : midAccess s = midB s.bst := by
  unfold midAccess midB; cases s.bst <;> rfl
theorem pend_eq (s : State) : pend s = pendOf s.cons s.block s.done s.exp s.ret := by
  simp only [pend, pendOf, cur_eq, inSync_eq]
theorem inflight_eq (s : State) : inflight s = (s.cons == .parked || s.fut == .pending) := rfl

@[simp] theorem midB_run : midB .run = true := rfl
@[simp] theorem midB_await (k : Nat) : midB (.await k) = true := rfl
@[simp] theorem midB_init : midB .init = false := rfl
@[simp] theorem midB_yield : midB .yield = false := rfl
@[simp] theorem midB_final : midB .final = false := rfl
@[simp] theorem inSyncC_idle : inSyncC .idle = false := rfl
@[simp] theorem inSyncC_parked : inSyncC .parked = false := rfl
@[simp] theorem inSyncC_inSync (k : SyncKind) : inSyncC (.inSync k) = true := rfl
@[simp] theorem pendOf_idle (b d e : Bool) (r : Option Nat) : pendOf .idle b d e r = [] := rfl
@[simp] theorem pendOf_parked (b d e : Bool) (r : Option Nat) : pendOf .parked b d e r = [] := rfl
@[simp] theorem pendOf_noblock (c : Cons) (d e : Bool) (r : Option Nat) : pendOf c false d e r = [] := by
  simp [pendOf]
@[simp] theorem pendOf_sync (k : SyncKind) (d e : Bool) (r : Option Nat) :
    pendOf (.inSync k) true d e r = [curOf d e r] := rfl
@[simp] theorem curOf_val (v : Nat) : curOf false false (some v) = .val v := rfl
@[simp] theorem curOf_fin (e : Bool) (r : Option Nat) : curOf true e r = .fin := rfl
@[simp] theorem curOf_exc (r : Option Nat) : curOf false true r = .exc := rfl

@[simp] theorem expected_awaitReady (r : List Act) : expected (.awaitReady :: r) = expected r := by
  simp [expected, yields, ending]
@[simp] theorem expected_yieldNull (r : List Act) : expected (.yieldNull :: r) = expected r := by
  simp [expected, yields, ending]
@[simp] theorem expected_guard (r : List Act) : expected (.guard :: r) = expected r := by
  simp [expected, yields, ending]
@[simp] theorem expected_await (k : Nat) (r : List Act) : expected (.await k :: r) = expected r := by
  simp [expected, yields, ending]
@[simp] theorem expected_yield (v : Nat) (r : List Act) : expected (.yield v :: r) = .val v :: expected r := by
  simp [expected, yields, ending]
@[simp] theorem expected_throw (r : List Act) : expected (.throw :: r) = [.exc] := by
  simp [expected, yields, ending]
@[simp] theorem expected_ret (r : List Act) : expected (.ret :: r) = [.fin] := by
  simp [expected, yields, ending]
@[simp] theorem expected_nil : expected [] = [.fin] := by
  simp [expected, yields, ending]

set_option hygiene false in
macro "inv_cases " h:ident : tactic => `(tactic|
  obtain ⟨noub, seq_run, seq_fin, flags_run, flags_fin, ret_yield, ret_fin, busy_iff, stuck_fin, c_awt, c_int, c_none,
    reader_pending, arg_ok, guards, live_fin, live_dead, got_ok, post_end, post_fin, post_exc, await_unres⟩ := $h)

/-- split the goal `Inv _` into its clauses and normalise each against the hypotheses -/
macro "inv_close" : tactic => `(tactic|
  (constructor <;> simp_all [pend_eq, inSync_eq, midAccess_eq, cur_eq, inflight_eq] <;>
    first | assumption | grind | omega))

theorem inv_init (mode : Bool) (sc : List Act) : Inv (init mode sc) := by
  constructor <;> simp [init, pend, inSync, midAccess]

/-! ### the body -/

/-- a statement that neither yields nor ends the body is executed -/
theorem inv_skip {s : State} (h : Inv s) (hr : s.bst = .run) (rest : List Act)
    (he : expected s.script = expected rest) : Inv { s with script := rest } := by
  inv_cases h
  inv_close

theorem inv_recvArg {s : State} (h : Inv s) (hr : s.bst = .run) : Inv (recvArg s) := by
  unfold recvArg
  split
  · have ha := h.arg_ok (by assumption) (by simp [midAccess_eq, hr])
    rw [ha]
    inv_cases h
    inv_close
  · exact h

theorem inv_guard {s : State} (h : Inv s) (hr : s.bst = .run) :
    Inv { s with live := s.live ++ [s.made], made := s.made + 1 } := by
  have hgl : ∀ g, s.dtors.count g + (s.live ++ [s.made]).count g = if g < s.made + 1 then 1 else 0 := by
    intro g
    have := h.guards g
    simp only [List.count_append, List.count_cons, List.count_nil]
    by_cases hgm : s.made = g
    · subst hgm; simp at this ⊢; omega
    · have : ¬ (s.made == g) = true := by simpa using hgm
      simp only [this]
      by_cases h1 : g < s.made
      · have h2 : g < s.made + 1 := by omega
        simp [h1, h2] at *; omega
      · have h2 : ¬ g < s.made + 1 := by omega
        simp [h1, h2] at *; omega
  inv_cases h
  constructor
  case guards => exact hgl
  all_goals (simp_all [pend_eq, inSync_eq, midAccess_eq] <;> first | assumption | grind)

theorem inv_park {s : State} (h : Inv s) (hr : s.bst = .run) (k : Nat) (hk : k ∉ s.resolved) :
    Inv { s with bst := .await k } := by
  inv_cases h
  inv_close

/-- `co_yield v`: whoever asked gets exactly `v` -/
theorem inv_yieldAt {s : State} (h : Inv s) (hr : s.bst = .run) (v : Nat) (rest : List Act)
    (he : expected s.script = .val v :: expected rest) : Inv (yieldAt { s with script := rest } v) := by
  have hfl := h.flags_run (by simp [hr])
  have hbusy := h.busy_iff
  have hsf := h.stuck_fin
  cases hc : s.caller with
  | none => simp [hc, midAccess_eq, hr] at hbusy
  | awt =>
      have hst : s.stuck = false := by
        cases hs : s.stuck with
        | false => rfl
        | true => have := (hsf hs).1; simp [hr] at this
      have hca := h.c_awt hc hst
      simp only [yieldAt, deliver, hc, resumeAwt]
      inv_cases h
      inv_close
  | internal =>
      rcases h.c_int hc with ⟨hi, h2, h3, h4⟩ | ⟨hi, h2, h3, h4⟩
      · simp only [yieldAt, deliver, hc, hi, unblockSync]
        inv_cases h
        constructor <;> simp_all [pend_eq, inSync_eq, midAccess_eq, cur_eq, inflight_eq]
      · simp only [yieldAt, deliver, hc, hi, unblockFuture, h2]
        sorry

end Cocls.Gen
